(* C06 - answers do not depend on encoding, SAT backend, certificate flag or query order.
   Statements only; proofs are [exact].
   PROVED, at the level of the model:
     - C06_status_function_of_semantics: for EVERY acceptance entry point of [run_query] (all
       solver types), any two completed runs on the same framework, kind of query and argument
       list return the SAME status, whatever the two SAT backends (any two valid oracles), the
       two encoders (any two admissible ones, with any thresholds >= 1), the two certificate
       flags, the two fuels, the two views of the framework and the two start states (i.e.
       whatever was asked before): the status is a function of the semantics.
     - C06_*_independent_partial (kept): the per-component forms for CO and ST.
   By construction of the model: a solver object carries no state from one query to the next
   (every query of Model.Solvers opens fresh sessions and the hybrid encoder's table is local to one
   encoding) and a query takes the framework as an immutable value; whether the REAL objects and
   encoders behave like that is exactly what the tie checks on every run (sequences of queries with
   repetitions on one object vs fresh objects, one encoder object reused across encodings).
     - C06_query_sequence_*: the SEQUENCE form.  In the model a static solver object is the pair
       (framework view, solver type + encoder); [run_query] takes the view as an immutable value and
       returns only an outcome, so a query cannot modify the framework: what remains to be shown
       is that the program state (SAT sessions, counters, log) left behind by earlier queries does
       not influence later answers.  [run_calls oracle thr g qs] (Proofs/Corollaries.v) runs the
       queries of the list qs one after the other on the same view g in ONE thread of program
       state; a query [qcall] records the solver type, encoder, kind, certificate flag, argument
       list and fuel; [qcall_ok F x] = supported /\ enc_ok /\ al_ok of its fields;
       [calls_bound g qs] = sum of the per-query call bounds of C18;
       [sem_status s q F al] = cred s F al for q = QDC, skep s F al for q = QDS.
       Every outcome of a completed sequence satisfies the specification of its query (so every
       status is the semantic one), the sequence never panics, and the k1-th answer of one
       sequence equals the k2-th answer of any other sequence (other order, other repetitions,
       other backend, other start state) whenever the two queries ask the same question; in
       particular it equals the answer of the same query put alone to a fresh object.
   Not claimed: equality of the returned EXTENSIONS / certificates (different backends may pick
   different ones; each is correct by C01 / C04).
   Vocabulary of the whole-framework theorems (Proofs/TopBase.v, TopMax.v, SolverTop.v):
     view_good g F   the view g (iteration orders of an AAFramework) presents the framework F;
                     instances: view_of_af of any compact framework, view_of_fw of any store
                     reachable from new_with_labels by any update history (C01_good_view_compact, C01_good_view_store);
     supported s q   the trait implementation exists (all but CO-SE, CO-DS, PR-DC, for which the
                     library delegates to another solver type and the model has no entry point);
     enc_ok s e      the encoder may be used with the solver type (CO, SST: complete-based; STG:
                     conflict-free based; PR, ID: complete- or admissible-based; GR, ST: any);
     al_ok s q F al  nothing for SE queries and for GR / ST; otherwise the listed ids are arguments
                     of F (the list may be empty and may contain repetitions).
*)
From Crusta Require Import Spec.AF Sat.Cnf Sat.Prog Model.Encoders Model.Graph Model.Solvers.
From Crusta Require Import Proofs.EncSpec Proofs.SolverBasics Proofs.ConfigIndep.
From Crusta Require Import Proofs.TopBase Proofs.TopMax Proofs.SolverTop Proofs.Corollaries.
From Crusta Require Proofs.SolverWholeEx.
From Crusta Require Proofs.Clauses.
Import ListNotations.
Open Scope prog_scope.

Theorem C06_complete_query_config_independent_partial :
  forall o1 o2 thr1 thr2, 1 <= thr1 -> 1 <= thr2 -> valid_oracle o1 -> valid_oracle o2 ->
  forall e1 e2 F n la c1 c2 s1 s2,
  enc_base e1 = BCo -> enc_base e2 = BCo ->
  compact_af F n -> (forall a, In a la -> a < n) ->
  cls s1 = [] -> sess_bounded s1 -> cls s2 = [] -> sess_bounded s2 ->
  forall r1 t1 r2 t2,
  (encode_m thr1 e1 false F ;;; guarded_disj o1 e1 (ret la) c1) s1 = Done r1 t1 ->
  (encode_m thr2 e2 false F ;;; guarded_disj o2 e2 (ret la) c2) s2 = Done r2 t2 ->
  is_some r1 = is_some r2.
Proof. exact ConfigIndep.complete_query_config_independent. Qed.

Theorem C06_stable_component_backend_independent_partial :
  forall o1 o2 thr1 thr2, 1 <= thr1 -> 1 <= thr2 -> valid_oracle o1 -> valid_oracle o2 ->
  forall c n la pol s1 s2,
  compact_af (c_af c) n -> (forall a, In a la -> a < n) ->
  forall r1 t1 r2 t2,
  st_cc o1 thr1 c la pol s1 = Done r1 t1 -> st_cc o2 thr2 c la pol s2 = Done r2 t2 ->
  st_verdict r1 = st_verdict r2.
Proof. exact ConfigIndep.stable_component_backend_independent. Qed.

Theorem C06_status_function_of_semantics :
  forall o1 o2 thr1 thr2 g1 g2 F s q e1 e2 al fuel1 fuel2 cert1 cert2 st1 st2 b1 c1 t1 b2 c2 t2,
  valid_oracle o1 -> valid_oracle o2 -> 1 <= thr1 -> 1 <= thr2 ->
  view_good g1 F -> view_good g2 F ->
  q <> QSE -> supported s q -> enc_ok s e1 -> enc_ok s e2 -> al_ok s q F al ->
  run_query o1 thr1 fuel1 s q cert1 e1 g1 al st1 = Done (OAcc b1 c1) t1 ->
  run_query o2 thr2 fuel2 s q cert2 e2 g2 al st2 = Done (OAcc b2 c2) t2 ->
  b1 = b2.
Proof. exact SolverTop.top_status_function_of_semantics. Qed.

(* every outcome of a completed sequence of queries on one solver object satisfies the
   specification of its query (outcome_spec: C01-C04), whatever was asked before; no panic; the
   SAT calls add up *)
Theorem C06_query_sequence_correct :
  forall oracle thr g F, valid_oracle oracle -> 1 <= thr -> view_good g F ->
  forall qs st0, Forall (qcall_ok F) qs ->
  match run_calls oracle thr g qs st0 with
  | Done os st' =>
      Forall2 (fun x o => outcome_spec (qc_sem x) (qc_kind x) (qc_cert x) F (qc_args x) o) qs os /\
      calls st' <= calls st0 + calls_bound g qs
  | Abort st' | OutOfFuel st' => calls st' <= calls st0 + calls_bound g qs
  | Panic _ => False
  end.
Proof. exact Corollaries.run_calls_correct. Qed.

(* the status of the k-th answer is the semantic status of the k-th query *)
Theorem C06_query_sequence_status :
  forall oracle thr g F, valid_oracle oracle -> 1 <= thr -> view_good g F ->
  forall qs st0 os st' k x b c, Forall (qcall_ok F) qs ->
  run_calls oracle thr g qs st0 = Done os st' ->
  nth_error qs k = Some x -> nth_error os k = Some (OAcc b c) ->
  qc_kind x <> QSE /\ (b = true <-> sem_status (qc_sem x) (qc_kind x) F (qc_args x)).
Proof. exact Corollaries.run_calls_status. Qed.

(* in whatever order and however often: two sequences, two positions, the same question (solver
   type, kind of query, arguments; the encoders, certificate flags, fuels, SAT backends,
   thresholds, views and start states may all differ): the same status *)
Theorem C06_query_sequence_independent :
  forall o1 o2 thr1 thr2 g1 g2 F qs1 qs2 st1 st2 os1 os2 t1 t2 k1 k2 x1 x2 b1 c1 b2 c2,
  valid_oracle o1 -> valid_oracle o2 -> 1 <= thr1 -> 1 <= thr2 ->
  view_good g1 F -> view_good g2 F ->
  Forall (qcall_ok F) qs1 -> Forall (qcall_ok F) qs2 ->
  run_calls o1 thr1 g1 qs1 st1 = Done os1 t1 ->
  run_calls o2 thr2 g2 qs2 st2 = Done os2 t2 ->
  nth_error qs1 k1 = Some x1 -> nth_error qs2 k2 = Some x2 ->
  qc_sem x1 = qc_sem x2 -> qc_kind x1 = qc_kind x2 -> qc_args x1 = qc_args x2 ->
  nth_error os1 k1 = Some (OAcc b1 c1) -> nth_error os2 k2 = Some (OAcc b2 c2) ->
  b1 = b2.
Proof. exact Corollaries.query_sequence_independent. Qed.

(* ... and the same status as the same query put alone (to a fresh object, or after anything) *)
Theorem C06_query_sequence_vs_alone :
  forall o1 o2 thr1 thr2 g1 g2 F qs st1 st2 os t1 t2 k x b1 c1 b2 c2 fuel cert e,
  valid_oracle o1 -> valid_oracle o2 -> 1 <= thr1 -> 1 <= thr2 ->
  view_good g1 F -> view_good g2 F ->
  Forall (qcall_ok F) qs -> enc_ok (qc_sem x) e ->
  run_calls o1 thr1 g1 qs st1 = Done os t1 ->
  nth_error qs k = Some x -> nth_error os k = Some (OAcc b1 c1) ->
  run_query o2 thr2 fuel (qc_sem x) (qc_kind x) cert e g2 (qc_args x) st2 = Done (OAcc b2 c2) t2 ->
  b1 = b2.
Proof. exact Corollaries.query_sequence_vs_alone. Qed.

(* the hypotheses are satisfiable and sequences complete: on 0 <-> 1 -> 2, 3 -> 3 -> 4 (SolverTop.ex_F)
   with the brute-force oracle: DS-PR of [2; 4] with certificate, DC-CO of [0], SE-ID, DS-PR of
   [2; 4] again with another encoder and without certificate, then the first two once more *)
Definition c06_qA := {| qc_sem := PR; qc_enc := AuxCo; qc_kind := QDS; qc_cert := true; qc_args := [2; 4]; qc_fuel := 100 |}.
Definition c06_qB := {| qc_sem := CO; qc_enc := AuxCo; qc_kind := QDC; qc_cert := false; qc_args := [0]; qc_fuel := 100 |}.
Definition c06_qC := {| qc_sem := PR; qc_enc := AuxAdm; qc_kind := QDS; qc_cert := false; qc_args := [2; 4]; qc_fuel := 50 |}.
Definition c06_qD := {| qc_sem := ID; qc_enc := AuxCo; qc_kind := QSE; qc_cert := false; qc_args := []; qc_fuel := 100 |}.
Example C06_query_sequence_example :
  valid_oracle SolverWholeEx.bf_oracle /\ view_good (view_of_af ex_F) ex_F /\
  Forall (qcall_ok ex_F) [c06_qA; c06_qB; c06_qD; c06_qC; c06_qA; c06_qB] /\
  (exists st', run_calls SolverWholeEx.bf_oracle 1 (view_of_af ex_F)
                 [c06_qA; c06_qB; c06_qD; c06_qC; c06_qA; c06_qB] (init_st CadicalLike) =
               Done [OAcc false (Some [1]); OAcc true None; OExt (Some []); OAcc false None;
                     OAcc false (Some [1]); OAcc true None] st') /\
  (exists st', run_calls SolverWholeEx.bf_oracle 2 (view_of_af ex_F) [c06_qB; c06_qC] (init_st BufferedLike) =
               Done [OAcc true None; OAcc false None] st').
Proof.
  split; [exact SolverWholeEx.bf_oracle_valid|].
  split. { apply (view_good_compact _ 5). split; [reflexivity|].
           intros a b [E|[E|[E|[E|[E|[]]]]]]; injection E as <- <-; lia. }
  split.
  { assert (H : forall a, In a [2; 4] -> In a (args ex_F)) by (intros a [<-|[<-|[]]]; cbn; tauto).
    assert (HA : qcall_ok ex_F c06_qA) by (split; [exact I|split; [left; reflexivity|exact H]]).
    assert (HB : qcall_ok ex_F c06_qB).
    { split; [exact I|split; [reflexivity|]]. intros x [<-|[]]; cbn; tauto. }
    assert (HC : qcall_ok ex_F c06_qC) by (split; [exact I|split; [right; reflexivity|exact H]]).
    assert (HD : qcall_ok ex_F c06_qD) by (split; [exact I|split; [left; reflexivity|exact I]]).
    repeat (constructor; [assumption|]). constructor. }
  split; eexists; vm_compute; reflexivity.
Qed.

(* ---- the sentences of the property text, one dimension at a time (Proofs/Clauses.v); each is
   an instance of C06_status_function_of_semantics ---- *)

(* "the same whichever SAT encoding (aux_var, exp, hybrid) is selected": everything equal but the
   encoder *)
Theorem C06_encoding_independent : forall g F, view_good g F ->
  forall oracle thr, valid_oracle oracle -> 1 <= thr ->
  forall s q e1 e2 al fuel cert st0 b1 c1 t1 b2 c2 t2,
  q <> QSE -> supported s q -> enc_ok s e1 -> enc_ok s e2 -> al_ok s q F al ->
  run_query oracle thr fuel s q cert e1 g al st0 = Done (OAcc b1 c1) t1 ->
  run_query oracle thr fuel s q cert e2 g al st0 = Done (OAcc b2 c2) t2 ->
  b1 = b2.
Proof. exact Clauses.encoding_independent. Qed.

(* the three encodings named in the text are admissible for every solver type but STG (whose
   encoders are the conflict-free based AuxCf / ExpCf) *)
Theorem C06_three_encodings_admissible : forall s, s <> STG ->
  enc_ok s AuxCo /\ enc_ok s ExpCo /\ enc_ok s HybCo.
Proof. exact Clauses.three_encodings_admissible. Qed.

(* "whichever SAT backend is used": in the model a backend is its answers (any valid oracle) and
   its n_vars discipline (CadicalLike / BufferedLike); everything else equal *)
Theorem C06_backend_independent : forall g F, view_good g F ->
  forall o1 o2 d1 d2 thr, valid_oracle o1 -> valid_oracle o2 -> 1 <= thr ->
  forall s q e al fuel cert b1 c1 t1 b2 c2 t2,
  q <> QSE -> supported s q -> enc_ok s e -> al_ok s q F al ->
  run_query o1 thr fuel s q cert e g al (init_st d1) = Done (OAcc b1 c1) t1 ->
  run_query o2 thr fuel s q cert e g al (init_st d2) = Done (OAcc b2 c2) t2 ->
  b1 = b2.
Proof. exact Clauses.backend_independent. Qed.

(* "whether or not a certificate is requested" *)
Theorem C06_certificate_flag_independent : forall g F, view_good g F ->
  forall oracle thr, valid_oracle oracle -> 1 <= thr ->
  forall s q e al fuel st0 b1 c1 t1 b2 c2 t2,
  q <> QSE -> supported s q -> enc_ok s e -> al_ok s q F al ->
  run_query oracle thr fuel s q true e g al st0 = Done (OAcc b1 c1) t1 ->
  run_query oracle thr fuel s q false e g al st0 = Done (OAcc b2 c2) t2 ->
  b1 = b2.
Proof. exact Clauses.certificate_flag_independent. Qed.

Print Assumptions C06_complete_query_config_independent_partial.
Print Assumptions C06_stable_component_backend_independent_partial.
Print Assumptions C06_status_function_of_semantics.
Print Assumptions C06_query_sequence_correct.
Print Assumptions C06_query_sequence_status.
Print Assumptions C06_query_sequence_independent.
Print Assumptions C06_query_sequence_vs_alone.
Print Assumptions C06_encoding_independent.
Print Assumptions C06_three_encodings_admissible.
Print Assumptions C06_backend_independent.
Print Assumptions C06_certificate_flag_independent.
