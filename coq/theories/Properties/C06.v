(* C06 - answers do not depend on encoding, SAT backend, certificate flag or query order.
   Statements only; proofs are [exact].
   PROVED, at the level of the model:
     - C06_status_function_of_semantics: for EVERY acceptance entry point of [run_query] (all
       solver types), any two completed runs on the same framework, kind of query and argument
       list return the SAME status, whatever the two SAT backends (any two valid oracles), the
       two encoders (any two admissible ones, with any thresholds >= 1), the two certificate
       flags, the two fuels, the two views of the framework and the two start states (i.e.
       whatever was asked before): the status is a function of the semantics.
     - C06_*_independent_partial (kept): the per-component forms for CO and ST.
   By construction of the model: a solver object carries no state from one query to the next
   (every query of Model.Solvers opens fresh sessions and the hybrid encoder's table is local to one
   encoding) and a query takes the framework as an immutable value; whether the REAL objects and
   encoders behave like that is exactly what the tie checks on every run (sequences of queries with
   repetitions on one object vs fresh objects, one encoder object reused across encodings).
   Not claimed: equality of the returned EXTENSIONS / certificates (different backends may pick
   different ones; each is correct by C01 / C04).
   Vocabulary of the whole-framework theorems (Proofs/TopBase.v, TopMax.v, SolverTop.v):
     view_good g F   the view g (iteration orders of an AAFramework) presents the framework F;
                     instances: view_of_af of any compact framework, view_of_fw of any store
                     reachable from new_with_labels by any update history (C01_good_view_compact, C01_good_view_store);
     supported s q   the trait implementation exists (all but CO-SE, CO-DS, PR-DC, for which the
                     library delegates to another solver type and the model has no entry point);
     enc_ok s e      the encoder may be used with the solver type (CO, SST: complete-based; STG:
                     conflict-free based; PR, ID: complete- or admissible-based; GR, ST: any);
     al_ok s q F al  nothing for SE queries and for GR / ST; otherwise the listed ids are arguments
                     of F (the list may be empty and may contain repetitions).
*)
From Crusta Require Import Spec.AF Sat.Cnf Sat.Prog Model.Encoders Model.Graph Model.Solvers.
From Crusta Require Import Proofs.EncSpec Proofs.SolverBasics Proofs.ConfigIndep.
From Crusta Require Import Proofs.TopBase Proofs.TopMax Proofs.SolverTop.
Open Scope prog_scope.

Theorem C06_complete_query_config_independent_partial :
  forall o1 o2 thr1 thr2, 1 <= thr1 -> 1 <= thr2 -> valid_oracle o1 -> valid_oracle o2 ->
  forall e1 e2 F n la c1 c2 s1 s2,
  enc_base e1 = BCo -> enc_base e2 = BCo ->
  compact_af F n -> (forall a, In a la -> a < n) ->
  cls s1 = [] -> sess_bounded s1 -> cls s2 = [] -> sess_bounded s2 ->
  forall r1 t1 r2 t2,
  (encode_m thr1 e1 false F ;;; guarded_disj o1 e1 (ret la) c1) s1 = Done r1 t1 ->
  (encode_m thr2 e2 false F ;;; guarded_disj o2 e2 (ret la) c2) s2 = Done r2 t2 ->
  is_some r1 = is_some r2.
Proof. exact ConfigIndep.complete_query_config_independent. Qed.

Theorem C06_stable_component_backend_independent_partial :
  forall o1 o2 thr1 thr2, 1 <= thr1 -> 1 <= thr2 -> valid_oracle o1 -> valid_oracle o2 ->
  forall c n la pol s1 s2,
  compact_af (c_af c) n -> (forall a, In a la -> a < n) ->
  forall r1 t1 r2 t2,
  st_cc o1 thr1 c la pol s1 = Done r1 t1 -> st_cc o2 thr2 c la pol s2 = Done r2 t2 ->
  st_verdict r1 = st_verdict r2.
Proof. exact ConfigIndep.stable_component_backend_independent. Qed.

Theorem C06_status_function_of_semantics :
  forall o1 o2 thr1 thr2 g1 g2 F s q e1 e2 al fuel1 fuel2 cert1 cert2 st1 st2 b1 c1 t1 b2 c2 t2,
  valid_oracle o1 -> valid_oracle o2 -> 1 <= thr1 -> 1 <= thr2 ->
  view_good g1 F -> view_good g2 F ->
  q <> QSE -> supported s q -> enc_ok s e1 -> enc_ok s e2 -> al_ok s q F al ->
  run_query o1 thr1 fuel1 s q cert1 e1 g1 al st1 = Done (OAcc b1 c1) t1 ->
  run_query o2 thr2 fuel2 s q cert2 e2 g2 al st2 = Done (OAcc b2 c2) t2 ->
  b1 = b2.
Proof. exact SolverTop.top_status_function_of_semantics. Qed.

Print Assumptions C06_complete_query_config_independent_partial.
Print Assumptions C06_stable_component_backend_independent_partial.
Print Assumptions C06_status_function_of_semantics.
