(* C18 - every query terminates within a bounded number of SAT calls.
   Statements only; proofs are [exact].
   PROVED (every valid SAT oracle - Unknown answers included -, every threshold >= 1, every
   admissible encoder, every good view of a framework of any size, both certificate flags, every
   list of arguments, EVERY entry point of [run_query]):
     - C18_call_bound: the components the query works on ([query_comps]: all connected components,
       or the merged component of the listed arguments followed by the remaining connected
       components) form a decomposition of F, and every run - completed, aborted on an Unknown
       answer, or out of fuel - makes at most the SUM over these components of [comp_bound]
       SAT calls: 0 (GR), 2 (CO, ST), |base| + |PR| + 1 (PR), 2|base| + |PR| + 2 (ID),
       (n + 2)|base| + 3 (SST, STG; n = size of the component), where |base| / |PR| count the
       conflict-free / admissible / complete sets (according to the encoder) / the preferred
       extensions of the component; and no run panics.
     - C18_terminates: with fuel >= 2 * comp_bound + 4 for each of these components (the fuel is
       per loop) no run ends OutOfFuel or Panic: it completes or aborts on an Unknown answer.
       C18_terminates_sum: fuel >= 2 * (the bound of C18_call_bound) + 4 suffices a fortiori.
     - C18_*_calls_partial (kept): the per-component counts for CO and ST, for arbitrary oracles.
   Every model function is structurally recursive on its fuel or on a list, so every model run
   terminates.
   NOT proved: that the replay driver's fuel (2 * number of recorded answers + 12, a function of
   the calls actually made, not of the bound) is never exhausted; this stays a measured property
   of every run.  That the Rust code behaves like Model.Solvers is the tie.
   Vocabulary of the whole-framework theorems (Proofs/TopBase.v, TopMax.v, SolverTop.v):
     view_good g F   the view g (iteration orders of an AAFramework) presents the framework F;
                     instances: view_of_af of any compact framework, view_of_fw of any store
                     reachable from new_with_labels by any update history (C01_good_view_compact, C01_good_view_store);
     supported s q   the trait implementation exists (all but CO-SE, CO-DS, PR-DC, for which the
                     library delegates to another solver type and the model has no entry point);
     enc_ok s e      the encoder may be used with the solver type (CO, SST: complete-based; STG:
                     conflict-free based; PR, ID: complete- or admissible-based; GR, ST: any);
     al_ok s q F al  nothing for SE queries and for GR / ST; otherwise the listed ids are arguments
                     of F (the list may be empty and may contain repetitions).
*)
From Crusta Require Import Spec.AF Sat.Cnf Sat.Prog Model.Encoders Model.Graph Model.Solvers.
From Crusta Require Import Proofs.CallBounds Proofs.Decomp Proofs.SolverBasics.
From Crusta Require Import Proofs.TopBase Proofs.TopMax Proofs.SolverTop.
Open Scope prog_scope.

Theorem C18_stable_component_calls_partial : forall oracle thr c in_cc pol s,
  match st_cc oracle thr c in_cc pol s with
  | Done _ s' | Abort s' | Panic s' | OutOfFuel s' => calls s' <= calls s + 2
  end.
Proof. exact CallBounds.st_cc_calls. Qed.

Theorem C18_complete_query_calls_partial : forall oracle thr e F la close s,
  match (encode_m thr e false F ;;; guarded_disj oracle e (ret la) close) s with
  | Done _ s' | Abort s' | Panic s' | OutOfFuel s' => calls s' <= calls s + 1
  end.
Proof. exact CallBounds.co_query_calls. Qed.

Theorem C18_call_bound : forall oracle thr g F,
  valid_oracle oracle -> 1 <= thr -> view_good g F ->
  forall s q e al fuel cert st0, supported s q -> enc_ok s e -> al_ok s q F al ->
  decomp_ok F (query_comps s q cert g al) /\
  match run_query oracle thr fuel s q cert e g al st0 with
  | Done _ s' | Abort s' | OutOfFuel s' =>
      calls s' <= calls st0 + total_bound s e (query_comps s q cert g al)
  | Panic _ => False
  end.
Proof. exact SolverTop.top_call_bound. Qed.

Theorem C18_terminates : forall oracle thr g F,
  valid_oracle oracle -> 1 <= thr -> view_good g F ->
  forall s q e al fuel cert st0, supported s q -> enc_ok s e -> al_ok s q F al ->
  (forall c, In c (query_comps s q cert g al) -> 2 * comp_bound s e c + 4 <= fuel) ->
  match run_query oracle thr fuel s q cert e g al st0 with
  | OutOfFuel _ | Panic _ => False
  | _ => True
  end.
Proof. exact SolverTop.top_terminates. Qed.

Theorem C18_terminates_sum : forall oracle thr g F,
  valid_oracle oracle -> 1 <= thr -> view_good g F ->
  forall s q e al fuel cert st0, supported s q -> enc_ok s e -> al_ok s q F al ->
  2 * total_bound s e (query_comps s q cert g al) + 4 <= fuel ->
  match run_query oracle thr fuel s q cert e g al st0 with
  | OutOfFuel _ | Panic _ => False
  | _ => True
  end.
Proof. exact SolverTop.top_terminates_sum. Qed.

Print Assumptions C18_stable_component_calls_partial.
Print Assumptions C18_complete_query_calls_partial.
Print Assumptions C18_call_bound.
Print Assumptions C18_terminates.
Print Assumptions C18_terminates_sum.
