(* C18 - every query terminates within a bounded number of SAT calls.
   Statements only; proofs are [exact].
   PROVED (every valid SAT oracle - Unknown answers included -, every threshold >= 1, every
   admissible encoder, every good view of a framework of any size, both certificate flags, every
   list of arguments, EVERY entry point of [run_query]):
     - C18_call_bound: the components the query works on ([query_comps]: all connected components,
       or the merged component of the listed arguments followed by the remaining connected
       components) form a decomposition of F, and every run - completed, aborted on an Unknown
       answer, or out of fuel - makes at most the SUM over these components of [comp_bound]
       SAT calls: 0 (GR), 2 (CO, ST), |base| + |PR| + 1 (PR), 2|base| + |PR| + 2 (ID),
       (n + 2)|base| + 3 (SST, STG; n = size of the component), where |base| / |PR| count the
       conflict-free / admissible / complete sets (according to the encoder) / the preferred
       extensions of the component; and no run panics.
     - C18_terminates: with fuel >= 2 * comp_bound + 4 for each of these components (the fuel is
       per loop) no run ends OutOfFuel or Panic: it completes or aborts on an Unknown answer.
       C18_terminates_sum: fuel >= 2 * (the bound of C18_call_bound) + 4 suffices a fortiori.
     - C18_*_calls_partial (kept): the per-component counts for CO and ST, for arbitrary oracles.
   Every model function is structurally recursive on its fuel or on a list, so every model run
   terminates.
     - C18_replay_fuel_suffices: the replay driver (driver/d_static.ml) runs the model with the
       recorded answers as oracle ([script_oracle script]: the i-th answer consumed is the i-th
       recorded one, Unknown - which aborts - beyond the script) and fuel 2 * length script + 12.
       With this fuel NO model run ends OutOfFuel, for EVERY script (valid or not, of any length),
       every view (good or not), every entry point.  C18_replay_fuel_general: fuel >= length
       script + 2 is enough, from every start state (the fuel is per loop; every iteration of
       compute_maximal / pr_ds_loop / rg_loop / id_enum_loop consumes an answer except the one
       leaving MInit and the last one of compute_maximal).  C18_replay_fuel_seq: the same for the
       driver's two-queries-in-sequence mode.  C18_replay_fuel_tight: length script + 2 cannot
       be lowered (one argument, PR-SE, script [Unsat], fuel 2: OutOfFuel; fuel 3: Done).
   NOT proved: that the Rust code behaves like Model.Solvers (this is the tie).
   Vocabulary of the whole-framework theorems (Proofs/TopBase.v, TopMax.v, SolverTop.v):
     view_good g F   the view g (iteration orders of an AAFramework) presents the framework F;
                     instances: view_of_af of any compact framework, view_of_fw of any store
                     reachable from new_with_labels by any update history (C01_good_view_compact, C01_good_view_store);
     supported s q   the trait implementation exists (all but CO-SE, CO-DS, PR-DC, for which the
                     library delegates to another solver type and the model has no entry point);
     enc_ok s e      the encoder may be used with the solver type (CO, SST: complete-based; STG:
                     conflict-free based; PR, ID: complete- or admissible-based; GR, ST: any);
     al_ok s q F al  nothing for SE queries and for GR / ST; otherwise the listed ids are arguments
                     of F (the list may be empty and may contain repetitions).
*)
From Crusta Require Import Spec.AF Sat.Cnf Sat.Prog Model.Encoders Model.Graph Model.Solvers.
From Crusta Require Import Proofs.CallBounds Proofs.Decomp Proofs.SolverBasics.
From Crusta Require Import Proofs.TopBase Proofs.TopMax Proofs.SolverTop.
From Crusta Require Proofs.TopGaps.
From Crusta Require Import Proofs.EncSpec Proofs.ProgLaws Proofs.MaxExtCore.
From Crusta Require Proofs.Clauses Proofs.SolverWholeEx.
Open Scope prog_scope.

Theorem C18_stable_component_calls_partial : forall oracle thr c in_cc pol s,
  match st_cc oracle thr c in_cc pol s with
  | Done _ s' | Abort s' | Panic s' | OutOfFuel s' => calls s' <= calls s + 2
  end.
Proof. exact CallBounds.st_cc_calls. Qed.

Theorem C18_complete_query_calls_partial : forall oracle thr e F la close s,
  match (encode_m thr e false F ;;; guarded_disj oracle e (ret la) close) s with
  | Done _ s' | Abort s' | Panic s' | OutOfFuel s' => calls s' <= calls s + 1
  end.
Proof. exact CallBounds.co_query_calls. Qed.

Theorem C18_call_bound : forall oracle thr g F,
  valid_oracle oracle -> 1 <= thr -> view_good g F ->
  forall s q e al fuel cert st0, supported s q -> enc_ok s e -> al_ok s q F al ->
  decomp_ok F (query_comps s q cert g al) /\
  match run_query oracle thr fuel s q cert e g al st0 with
  | Done _ s' | Abort s' | OutOfFuel s' =>
      calls s' <= calls st0 + total_bound s e (query_comps s q cert g al)
  | Panic _ => False
  end.
Proof. exact SolverTop.top_call_bound. Qed.

Theorem C18_terminates : forall oracle thr g F,
  valid_oracle oracle -> 1 <= thr -> view_good g F ->
  forall s q e al fuel cert st0, supported s q -> enc_ok s e -> al_ok s q F al ->
  (forall c, In c (query_comps s q cert g al) -> 2 * comp_bound s e c + 4 <= fuel) ->
  match run_query oracle thr fuel s q cert e g al st0 with
  | OutOfFuel _ | Panic _ => False
  | _ => True
  end.
Proof. exact SolverTop.top_terminates. Qed.

Theorem C18_terminates_sum : forall oracle thr g F,
  valid_oracle oracle -> 1 <= thr -> view_good g F ->
  forall s q e al fuel cert st0, supported s q -> enc_ok s e -> al_ok s q F al ->
  2 * total_bound s e (query_comps s q cert g al) + 4 <= fuel ->
  match run_query oracle thr fuel s q cert e g al st0 with
  | OutOfFuel _ | Panic _ => False
  | _ => True
  end.
Proof. exact SolverTop.top_terminates_sum. Qed.

Theorem C18_replay_fuel_suffices : forall script thr d s q cert e g al,
  match run d (run_query (script_oracle script) thr (2 * length script + 12) s q cert e g al) with
  | OutOfFuel _ => False
  | _ => True
  end.
Proof. exact TopGaps.replay_fuel_suffices. Qed.

Theorem C18_replay_fuel_general : forall script thr fuel s q cert e g al st0,
  length script + 2 <= fuel ->
  match run_query (script_oracle script) thr fuel s q cert e g al st0 with
  | OutOfFuel _ => False
  | _ => True
  end.
Proof. exact TopGaps.replay_fuel_general. Qed.

Theorem C18_replay_fuel_seq : forall script thr d s1 q1 cert1 e1 g1 al1 s q cert e g al,
  let fuel := 2 * length script + 12 in
  match run d (bind (run_query (script_oracle script) thr fuel s1 q1 cert1 e1 g1 al1)
                    (fun _ => run_query (script_oracle script) thr fuel s q cert e g al)) with
  | OutOfFuel _ => False
  | _ => True
  end.
Proof. exact TopGaps.replay_fuel_suffices_seq. Qed.

Theorem C18_replay_fuel_tight :
  let script := [Unsat] in
  let g := view_of_af (compact 1 []) in
  (exists st', run CadicalLike (run_query (script_oracle script) 1 (length script + 1) PR QSE false
                                 AuxCo g []) = OutOfFuel st') /\
  (exists st', run CadicalLike (run_query (script_oracle script) 1 (length script + 2) PR QSE false
                                 AuxCo g []) = Done (OExt (Some [0])) st').
Proof. exact TopGaps.replay_fuel_tight. Qed.

(* ---- the remaining sentences of the property text (Proofs/Clauses.v) ---- *)

(* "CO and ST need at most two calls per component": at most twice the number of components the
   query works on, however the run ends *)
Theorem C18_two_calls_per_component : forall oracle thr g F,
  valid_oracle oracle -> 1 <= thr -> view_good g F ->
  forall s q e al fuel cert st0, s = CO \/ s = ST -> supported s q -> enc_ok s e -> al_ok s q F al ->
  match run_query oracle thr fuel s q cert e g al st0 with
  | Done _ s' | Abort s' | OutOfFuel s' =>
      calls s' <= calls st0 + 2 * length (query_comps s q cert g al)
  | Panic _ => False
  end.
Proof. exact Clauses.two_calls_per_component. Qed.

(* "bounded by the number of candidate sets of the underlying base semantics of that component
   (conflict-free, admissible or complete sets), up to a factor linear in the number of arguments
   for the range-based semantics": the per-component bound [comp_bound] of C18_call_bound spelled
   out; nb = number of candidate sets of the encoder's base family, np = number of preferred
   extensions of the component (np <= nb: C18_preferred_count_le_candidates), n = its size *)
Theorem C18_component_bound_values : forall e c,
  let nb := length (all_base (enc_base e) (c_af c)) in
  let np := length (all_exts PR (c_af c)) in
  comp_bound GR e c = 0 /\ comp_bound CO e c = 2 /\ comp_bound ST e c = 2 /\
  comp_bound PR e c = nb + np + 1 /\
  comp_bound ID e c = 2 * nb + np + 2 /\
  comp_bound SST e c = (length (c_ids c) + 2) * nb + 3 /\
  comp_bound STG e c = (length (c_ids c) + 2) * nb + 3.
Proof. exact Clauses.comp_bound_values. Qed.

Theorem C18_preferred_count_le_candidates : forall b F, wf F -> b = BCo \/ b = BAdm ->
  length (all_exts PR F) <= length (all_base b F).
Proof. exact Clauses.pr_count_le_base. Qed.

(* "for PR and ID no candidate set is ever examined twice" - the step behind the bounds
   nb + np + 1 and 2 nb + np + 2.  While a MaximalExtensionComputer works on a component F (ids
   0..n-1), the SAT session holds the encoder's clauses C followed by one blocking clause per set
   examined so far: [cls s = C ++ map (bclause e n selv) Bs], where [bclause e n selv B] is "some
   argument of the component outside B is accepted, or the selector variable selv is true".
   [asm_ok e n selv allowedb asm cur]: the assumptions asm say exactly "selector false, every argument
   of cur accepted (and, ideal flavour, only allowed arguments accepted)".  Then ANY Sat answer of a
   valid oracle decodes to a set S of the base family that contains cur and is NOT contained in any
   set examined before; in particular S differs from each of them.
   What is proved beyond this step: that the sessions of the PR / ID loops always have this shape and
   that the sets returned are pairwise different as sets is the ghost invariant [kinv] of
   Proofs/MaxExtCore.v (fields [sepl (gSs g)], [sepl (gPs g)]), from which the bounds of
   C18_call_bound are derived (pot_bound, pr_HBnd); it is not restated here about the event log. *)
Theorem C18_sat_answer_is_new_candidate_partial : forall oracle, valid_oracle oracle ->
  forall thr e F n, 1 <= thr -> compact_af F n ->
  forall C selv allowedb s Bs asm cur m,
  enc_clauses e thr false F = Some C -> 0 < selv ->
  cls s = C ++ map (bclause e n selv) Bs ->
  asm_ok e n selv allowedb asm cur -> (forall a, In a cur -> a < n) ->
  answer_of oracle s asm = Sat m ->
  let S := assignment_to_extension n e m in
  basep (enc_base e) F S /\ incl cur S /\ forall B, In B Bs -> ~ incl S B.
Proof. exact Clauses.sat_answer_is_new_candidate. Qed.

(* its hypotheses are satisfiable: 0 <-> 1 (complete sets {}, {0}, {1}), the set [0] already
   examined: the brute-force oracle answers a model that decodes to [1] *)
Example C18_sat_answer_example :
  let F := compact 2 [(0, 1); (1, 0)] in
  exists C s m,
    enc_clauses AuxCo 1 false F = Some C /\ compact_af F 2 /\
    cls s = C ++ map (bclause AuxCo 2 9) [[0]] /\
    asm_ok AuxCo 2 9 (fun _ => true) ([negate (zlit 9)] ++ []) [] /\
    answer_of SolverWholeEx.bf_oracle s ([negate (zlit 9)] ++ []) = Sat m /\
    assignment_to_extension 2 AuxCo m = [1].
Proof.
  cbv zeta. eexists. eexists. eexists.
  split; [vm_compute; reflexivity|]. split.
  { split; [reflexivity|]. intros a b [E|[E|[]]]; injection E as <- <-; lia. }
  split.
  { instantiate (1 := {| disc := CadicalLike;
                         sess := {| rclauses := rev (_ ++ [bclause AuxCo 2 9 [0]]); reserved := 0; maxvar := 9 |};
                         nsess := 1; calls := 0; rlog := [] |}).
    unfold cls. cbn [sess rclauses map]. apply rev_involutive. }
  split; [apply asm_search; reflexivity|].
  split; vm_compute; reflexivity.
Qed.

Print Assumptions C18_stable_component_calls_partial.
Print Assumptions C18_complete_query_calls_partial.
Print Assumptions C18_call_bound.
Print Assumptions C18_terminates.
Print Assumptions C18_terminates_sum.
Print Assumptions C18_replay_fuel_suffices.
Print Assumptions C18_replay_fuel_general.
Print Assumptions C18_replay_fuel_seq.
Print Assumptions C18_replay_fuel_tight.
Print Assumptions C18_two_calls_per_component.
Print Assumptions C18_component_bound_values.
Print Assumptions C18_preferred_count_le_candidates.
Print Assumptions C18_sat_answer_is_new_candidate_partial.
