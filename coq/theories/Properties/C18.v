(* C18 - every query terminates within a bounded number of SAT calls.
   Statements only; proofs are [exact].
   PROVED so far (every oracle, i.e. whatever the answers): the complete solver's query makes one
   SAT call and the stable solver's component step at most two, on every component; every model
   function is structurally recursive on its fuel or on a list, so every model run terminates.
   NOT YET PROVED in Coq (measured on every run against the brute-force bound instead): the bounds
   |base|+|PR|+1 (PR), 2|base|+|PR|+2 (ID), (n+2)|base|+3 (SST, STG) of the
   MaximalExtensionComputer loops, and that the replay fuel is never exhausted. *)
From Crusta Require Import Spec.AF Sat.Cnf Sat.Prog Model.Encoders Model.Graph Model.Solvers.
From Crusta Require Import Proofs.CallBounds.
Open Scope prog_scope.

Theorem C18_stable_component_calls_partial : forall oracle thr c in_cc pol s,
  match st_cc oracle thr c in_cc pol s with
  | Done _ s' | Abort s' | Panic s' | OutOfFuel s' => calls s' <= calls s + 2
  end.
Proof. exact CallBounds.st_cc_calls. Qed.

Theorem C18_complete_query_calls_partial : forall oracle thr e F la close s,
  match (encode_m thr e false F ;;; guarded_disj oracle e (ret la) close) s with
  | Done _ s' | Abort s' | Panic s' | OutOfFuel s' => calls s' <= calls s + 1
  end.
Proof. exact CallBounds.co_query_calls. Qed.

Print Assumptions C18_stable_component_calls_partial.
Print Assumptions C18_complete_query_calls_partial.
