(* in progress *)
From Crusta Require Import Proofs.LabelRoute.
