(* C01 / C04 - "given in the caller's own arguments and without duplicates", "the members of a
   certificate are arguments of the queried framework (same label and id as in its argument set),
   each listed once": the id -> label translation of the solvers.
   Statements only; proofs are [exact].

   WHAT THIS CLOSES.  The solver model (Model/Solvers.v, Model/Graph.v) works on ids: a connected
   component is  c = {| c_ids : the original ids, in the component's local order;
                        c_af  : the compact framework over 0..k-1 |}
   and arguments are translated by POSITION:  cc_local c a = index_of (c_ids c) a  and
   cc_global c i = nth i (c_ids c) 0  (lists: [locals c al], [lift c la]; whole answers:
   [glue ccs Ls] = lift c1 L1 ++ lift c2 L2 ++ ...).  The Rust code goes through LABELS:
     extract_connected_component  builds  AAFramework::new_with_argument_set(
                                    ArgumentSet::new_with_labels(labels of the component's arguments))
                                  and copies the attacks through the arg_mapping table, with an
                                  [unwrap] on the attacked side;
     cc_af.argument_set().get_argument(a.label()).unwrap()          global -> local;
     self.af.argument_set().get_argument(cc_arg.label()).unwrap()   local -> global.
   Proofs/LabelRouteDefs.v writes this label route as executable functions over Model/Store.v
   (a Rust panic is the result [None], never a default value):
     arg_of f id            the cell (id, label) of slot id of f's argument set (None: removed / absent)
     label_of f a           a.label() for the argument with id a
     labels_of f ids        the labels of a list of ids, in order
     get_argument_ref f l   ArgumentSet::get_argument(l): the cell (id, label) found for a label
     comp_store f ids       extract_connected_component(ids), literally: the arg_mapping table with
                            its bounds checks, new_with_labels, new_attack_by_ids per attack of f
                            whose attacker is mapped, unwrap of the attacked side and of the result
     comp_stores f ccs      one component store per component
     to_local_lab f cf a    get_argument cf (label of a in f)          : option nat
     to_global_lab f cf i   get_argument f (label of i in cf), the cell of f : option (nat * L)
     locals_lab, lift_lab   the same over a list (None as soon as one unwrap panics)
     glue_lab f cfs Ls      lift_lab of the 1st list through the 1st store ++ ... (whole answer)
     with_labels f l        the arguments (id, label) of f with the ids l (what an id list denotes)
   Vocabulary of the hypotheses:
     GroundedProofs.reachable L leqb f   f = run_ops (fw_new_with_labels labels) history, for any
                            labels and any history of new_argument / remove_argument / new_attack /
                            remove_attack (ids are sparse after removals);
     live_ids L f, iter_args L f   the ids / the (id, label) cells of f's argument set, in order;
     max_argument_id L f <> None   f has at least one label slot, live or removed.  With no slot at
                            all the Rust code panics in extract_connected_component
                            (max_argument_id().unwrap(): finding F-cc-1) and so does comp_store;
     view_same g g'         the two views have the same observations (max id, ids, attacks from / to
                            each argument in iteration order, all attacks in order);
     all_comps g, merged_comps g al   the components the model iterates on (iter_connected_components;
                            merged_connected_components_of(al) followed by next_connected_component).

   PROVED, for every store reachable by any update history (Closed under the global context):
     C04_labels_distinct      two live arguments never carry the same label (so get_argument by
                              label is unambiguous, and new_with_labels merges no two labels of a
                              component);
     C04_label_route_component (a) for a duplicate-free list of live ids, comp_store panics exactly
                              when the model's extract_cc does; otherwise its argument list is
                              0..k-1 with the labels of ids in order and its attack LIST, its view
                              and its abstract framework are those of the model's component;
     C04_label_route_panic    ... and that panic happens exactly when some attack leaves the list
                              (attacker inside, attacked argument outside) or f has no slot;
     C04_label_route_local    (b) to_local_lab = cc_local on EVERY id (None exactly outside the
                              component, removed and never-used ids included); lists: locals
                              (unwrap) and filter_map (the `.ok()` variant of the stable solver);
     C04_label_route_entry    the entry of a query, get_argument(label of the caller).unwrap():
                              the cell (id, label) of f carrying that label, a panic exactly when
                              no live argument carries it;
     C04_label_route_global   (c) to_global_lab i = Some (cc_global c i, its label in f), a cell of
                              f's argument set, for i < k, and a panic for i >= k; lists: lift_lab =
                              the cells of [lift c la], no repetition of ids nor of labels when la
                              has none;
     C04_label_route_answer   whole answers: gluing through the label route yields exactly the
                              cells of f at the ids of the model's id-based gluing;
     C04_label_route_model_components   the hypotheses of the four theorems above hold for every
                              component of all_comps and of merged_comps;
     C04_answers_in_callers_arguments   every extension / certificate returned by [run_query] on
                              the view of the store denotes a list of arguments of f, each with its
                              own id and label, without repetition (of ids and of labels).
   NOT proved here: that the Rust code behaves like these functions (the tie is by replay, as for
   the rest of the model); the internal structure of [run_query]'s answer as a gluing is in
   Proofs/TopBase.v (for_ccs_ok) and is not restated.  *)
From Crusta Require Import Spec.AF Sat.Cnf Sat.Prog Model.Store Model.Encoders Model.Graph Model.Solvers.
From Crusta Require Import Proofs.EncSpec Proofs.SolverBasics Proofs.SolverWhole Proofs.GroundedProofs Proofs.CompProofs.
From Crusta Require Import Proofs.TopBase Proofs.TopMax Proofs.SolverTop Proofs.TopGaps.
From Crusta Require Import Proofs.LabelRouteDefs Proofs.LabelRoute.
Import ListNotations.

Theorem C04_labels_distinct : forall L (leqb : L -> L -> bool),
  (forall x y, leqb x y = true <-> x = y) ->
  forall f : fw L, GroundedProofs.reachable L leqb f ->
  NoDup (map snd (iter_args L f)) /\
  forall a b l, In (a, l) (iter_args L f) -> In (b, l) (iter_args L f) -> a = b.
Proof. exact LabelRoute.reachable_labels_distinct. Qed.

Theorem C04_label_route_component : forall L (leqb : L -> L -> bool),
  (forall x y, leqb x y = true <-> x = y) ->
  forall f : fw L, GroundedProofs.reachable L leqb f ->
  forall ids, NoDup ids -> (forall a, In a ids -> In a (live_ids L f)) ->
  max_argument_id L f <> None ->
  match extract_cc (view_of_fw f) ids with
  | None => comp_store L leqb f ids = None
  | Some c =>
      exists cf labels, comp_store L leqb f ids = Some cf /\ labels_of L f ids = Some labels /\
        Forall2 (fun a l => In (a, l) (iter_args L f)) ids labels /\
        iter_args L cf = combine (seq 0 (length ids)) labels /\
        n_arguments L cf = length ids /\
        iter_attacks L cf = atts (c_af c) /\
        view_same (view_of_af (c_af c)) (view_of_fw cf) /\
        CompProofs.af_of cf = c_af c
  end.
Proof. exact LabelRoute.label_route_component. Qed.

Theorem C04_label_route_panic : forall L (leqb : L -> L -> bool),
  (forall x y, leqb x y = true <-> x = y) ->
  forall f : fw L, GroundedProofs.reachable L leqb f ->
  forall ids, NoDup ids -> (forall a, In a ids -> In a (live_ids L f)) ->
  (max_argument_id L f = None -> comp_store L leqb f ids = None) /\
  (max_argument_id L f <> None ->
     (comp_store L leqb f ids = None <->
      exists a b, In (a, b) (iter_attacks L f) /\ In a ids /\ ~ In b ids)).
Proof. exact LabelRoute.label_route_panic. Qed.

Theorem C04_label_route_local : forall L (leqb : L -> L -> bool),
  (forall x y, leqb x y = true <-> x = y) ->
  forall f : fw L, GroundedProofs.reachable L leqb f ->
  forall c cf, NoDup (c_ids c) -> (forall a, In a (c_ids c) -> In a (live_ids L f)) ->
  comp_store L leqb f (c_ids c) = Some cf ->
  (forall a, to_local_lab L leqb f cf a = cc_local c a) /\
  (forall a, to_local_lab L leqb f cf a = None <-> ~ In a (c_ids c)) /\
  (forall al, locals_lab L leqb f cf al = locals c al) /\
  (forall al, Encoders.filter_map (to_local_lab L leqb f cf) al = Encoders.filter_map (cc_local c) al).
Proof. exact LabelRoute.label_route_local. Qed.

Theorem C04_label_route_entry : forall L (leqb : L -> L -> bool),
  (forall x y, leqb x y = true <-> x = y) ->
  forall f : fw L, GroundedProofs.reachable L leqb f -> forall l,
  (forall a, In (a, l) (iter_args L f) -> get_argument_ref L leqb f l = Some (a, l)) /\
  match get_argument_ref L leqb f l with
  | Some p => snd p = l /\ In p (iter_args L f)
  | None => forall a, ~ In (a, l) (iter_args L f)
  end.
Proof. exact LabelRoute.label_route_entry. Qed.

Theorem C04_label_route_global : forall L (leqb : L -> L -> bool),
  (forall x y, leqb x y = true <-> x = y) ->
  forall f : fw L, GroundedProofs.reachable L leqb f ->
  forall c cf, NoDup (c_ids c) -> (forall a, In a (c_ids c) -> In a (live_ids L f)) ->
  comp_store L leqb f (c_ids c) = Some cf ->
  (forall i, i < length (c_ids c) ->
     exists l, to_global_lab L leqb f cf i = Some (cc_global c i, l) /\
               In (cc_global c i, l) (iter_args L f)) /\
  (forall i, length (c_ids c) <= i -> to_global_lab L leqb f cf i = None) /\
  (forall la, (forall i, In i la -> i < length (c_ids c)) ->
     exists pairs, lift_lab L leqb f cf la = Some pairs /\
       with_labels L f (lift c la) = Some pairs /\
       map fst pairs = lift c la /\ incl pairs (iter_args L f) /\
       (NoDup la -> NoDup pairs /\ NoDup (map snd pairs))).
Proof. exact LabelRoute.label_route_global. Qed.

Theorem C04_label_route_answer : forall L (leqb : L -> L -> bool),
  (forall x y, leqb x y = true <-> x = y) ->
  forall f : fw L, GroundedProofs.reachable L leqb f -> max_argument_id L f <> None ->
  forall ccs Ls,
  (forall c, In c ccs -> NoDup (c_ids c) /\ (forall a, In a (c_ids c) -> In a (live_ids L f)) /\
                         extract_cc (view_of_fw f) (c_ids c) = Some c) ->
  Forall2 (fun c La => forall i, In i La -> i < length (c_ids c)) ccs Ls ->
  exists cfs pairs,
    comp_stores L leqb f ccs = Some cfs /\
    Forall2 (fun c cf => view_same (view_of_af (c_af c)) (view_of_fw cf)) ccs cfs /\
    glue_lab L leqb f cfs Ls = Some pairs /\
    with_labels L f (glue ccs Ls) = Some pairs /\
    map fst pairs = glue ccs Ls /\ incl pairs (iter_args L f) /\
    (NoDup (glue ccs Ls) -> NoDup pairs /\ NoDup (map snd pairs)).
Proof. exact LabelRoute.label_route_answer. Qed.

Theorem C04_label_route_model_components : forall L (leqb : L -> L -> bool),
  (forall x y, leqb x y = true <-> x = y) ->
  forall f : fw L, GroundedProofs.reachable L leqb f ->
  (forall c, In c (all_comps (view_of_fw f)) ->
     max_argument_id L f <> None /\
     NoDup (c_ids c) /\ (forall a, In a (c_ids c) -> In a (live_ids L f)) /\
     extract_cc (view_of_fw f) (c_ids c) = Some c) /\
  (forall al, max_argument_id L f <> None -> (forall a, In a al -> In a (live_ids L f)) ->
     forall c, In c (merged_comps (view_of_fw f) al) ->
     NoDup (c_ids c) /\ (forall a, In a (c_ids c) -> In a (live_ids L f)) /\
     extract_cc (view_of_fw f) (c_ids c) = Some c).
Proof. exact LabelRoute.label_route_model_components. Qed.

Theorem C04_answers_in_callers_arguments : forall L (leqb : L -> L -> bool),
  (forall x y, leqb x y = true <-> x = y) ->
  forall f : fw L, GroundedProofs.reachable L leqb f ->
  forall oracle thr, valid_oracle oracle -> 1 <= thr ->
  forall s q e al fuel cert st0, supported s q -> enc_ok s e ->
  al_ok s q (GroundedProofs.af_of L f) al ->
  forall Lx,
  (exists st, run_query oracle thr fuel s q cert e (view_of_fw f) al st0 = Done (OExt (Some Lx)) st) \/
  (exists b st, run_query oracle thr fuel s q cert e (view_of_fw f) al st0 = Done (OAcc b (Some Lx)) st) ->
  exists pairs, with_labels L f Lx = Some pairs /\ map fst pairs = Lx /\
    incl pairs (iter_args L f) /\ NoDup pairs /\ NoDup (map snd pairs).
Proof. exact LabelRoute.answers_in_callers_arguments. Qed.

(* The hypotheses are satisfiable, on a store with removed arguments (sparse ids).  Labels are
   numbers; the history removes the arguments 20 (id 1) and 30 (id 2), adds 70 (id 6) and adds 20
   again (new id 7); the live arguments are 0,3,4,5,6,7 and the components are {0,6}, {3,5},
   {4,7}.  The local lists [1;0], [0], [1] are glued to the ids [6;0;3;7] by the model and to the
   same ids with their labels by the label route. *)
Definition C04labels_example_store : fw nat :=
  run_ops nat Nat.eqb (fw_new_with_labels nat Nat.eqb [10; 20; 30; 40; 50; 60; 20])
    [OpNewAtt 10 20; OpNewAtt 20 10; OpNewAtt 30 40; OpNewAtt 50 50; OpNewAtt 60 40; OpNewAtt 20 30;
     OpRemArg 20; OpNewArg 70; OpNewAtt 70 10; OpNewAtt 40 30; OpRemAtt 30 40; OpNewArg 20;
     OpNewAtt 20 50; OpRemArg 30; OpNewAtt 10 70].

Example C04labels_example :
  let f := C04labels_example_store in
  let ccs := all_comps (view_of_fw f) in
  let Ls := [[1; 0]; [0]; [1]] in
  GroundedProofs.reachable nat Nat.eqb f /\
  iter_args nat f = [(0, 10); (3, 40); (4, 50); (5, 60); (6, 70); (7, 20)] /\
  max_argument_id nat f = Some 7 /\
  map c_ids ccs = [[0; 6]; [3; 5]; [4; 7]] /\
  Forall2 (fun c La => forall i, In i La -> i < length (c_ids c)) ccs Ls /\
  glue ccs Ls = [6; 0; 3; 7] /\
  match comp_stores nat Nat.eqb f ccs with
  | Some cfs =>
      map (iter_args nat) cfs = [[(0, 10); (1, 70)]; [(0, 40); (1, 60)]; [(0, 50); (1, 20)]] /\
      map (iter_attacks nat) cfs = map (fun c => atts (c_af c)) ccs /\
      map (fun a => to_local_lab nat Nat.eqb f (nth 0 cfs f) a) (seq 0 9) =
        [Some 0; None; None; None; None; None; Some 1; None; None] /\
      glue_lab nat Nat.eqb f cfs Ls = Some [(6, 70); (0, 10); (3, 40); (7, 20)]
  | None => False
  end.
Proof.
  cbv zeta. split; [eexists; eexists; reflexivity|].
  split; [vm_compute; reflexivity|]. split; [vm_compute; reflexivity|]. split; [vm_compute; reflexivity|].
  split.
  { vm_compute. apply Forall2_cons; [|apply Forall2_cons; [|apply Forall2_cons; [|apply Forall2_nil]]];
      intros i H; repeat (destruct H as [<-|H]; [repeat constructor|]); destruct H. }
  split; [vm_compute; reflexivity|].
  vm_compute. repeat split.
Qed.

(* a list that is not closed under the attacks: the model's extract_cc and the label route both
   panic ([0] alone: the attack 0 -> 6 leaves the list) *)
Example C04labels_example_panic :
  extract_cc (view_of_fw C04labels_example_store) [0] = None /\
  comp_store nat Nat.eqb C04labels_example_store [0] = None.
Proof. split; vm_compute; reflexivity. Qed.

Print Assumptions C04_labels_distinct.
Print Assumptions C04_label_route_component.
Print Assumptions C04_label_route_panic.
Print Assumptions C04_label_route_local.
Print Assumptions C04_label_route_entry.
Print Assumptions C04_label_route_global.
Print Assumptions C04_label_route_answer.
Print Assumptions C04_label_route_model_components.
Print Assumptions C04_answers_in_callers_arguments.
