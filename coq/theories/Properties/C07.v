(* C07 - multi-argument queries are answered as disjunctions.
   Statements only; proofs are [exact].
   PROVED (every valid SAT oracle, every threshold >= 1, every admissible encoder, every good view
   of a framework of any size, every fuel, both certificate flags):
     - C07_lists: for EVERY acceptance entry point of [run_query] (all solver types) and EVERY
       list of arguments of F (empty, with repetitions, spread over several connected
       components: the components of the listed arguments are merged), the status of a completed
       run is, for a credulous query, true iff SOME listed argument is credulously accepted on
       its own, and for a skeptical query, true iff EVERY extension contains SOME listed argument
       (not: some listed argument is skeptically accepted).  The run never panics.
     - C07_*_list_*_component_partial (kept): the per-component forms for CO and ST, the two
       solvers the defects D1 and D2 were found in (now repaired).
   NOT proved in Coq (by design): that the Rust code behaves like Model.Solvers (the tie: trace
   replay on every run).  Termination and fuel: see C18.
   Vocabulary of the whole-framework theorems (Proofs/TopBase.v, TopMax.v, SolverTop.v):
     view_good g F   the view g (iteration orders of an AAFramework) presents the framework F;
                     instances: view_of_af of any compact framework, view_of_fw of any store
                     reachable from new_with_labels by any update history (C01_good_view_compact, C01_good_view_store);
     supported s q   the trait implementation exists (all but CO-SE, CO-DS, PR-DC, for which the
                     library delegates to another solver type and the model has no entry point);
     enc_ok s e      the encoder may be used with the solver type (CO, SST: complete-based; STG:
                     conflict-free based; PR, ID: complete- or admissible-based; GR, ST: any);
     al_ok s q F al  nothing for SE queries and for GR / ST; otherwise the listed ids are arguments
                     of F (the list may be empty and may contain repetitions).
*)
From Crusta Require Import Spec.AF Sat.Cnf Sat.Prog Model.Encoders Model.Graph Model.Solvers.
From Crusta Require Import Proofs.EncSpec Proofs.SolverBasics Proofs.SolverThms.
From Crusta Require Import Proofs.TopBase Proofs.TopMax Proofs.SolverTop.
From Crusta Require Proofs.Clauses.
Open Scope prog_scope.

Theorem C07_complete_list_component_partial : forall oracle thr, 1 <= thr -> valid_oracle oracle ->
  forall e F n la close s,
  enc_base e = BCo ->
  compact_af F n -> (forall a, In a la -> a < n) -> cls s = [] -> sess_bounded s ->
  match (encode_m thr e false F ;;; guarded_disj oracle e (ret la) close) s with
  | Done (Some m) _ =>
      co F (assignment_to_extension n e m) /\ meets la (assignment_to_extension n e m) = true /\
      cred CO F la
  | Done None _ => ~ cred CO F la
  | _ => True
  end.
Proof. exact SolverThms.cred_query_complete. Qed.

Theorem C07_stable_list_cred_component_partial : forall oracle thr, 1 <= thr -> valid_oracle oracle ->
  forall c n la, compact_af (c_af c) n -> (forall a, In a la -> a < n) ->
  on_done (st_cc oracle thr c la true)
    (fun r => match r with
              | Some (m, true) => st (c_af c) (assignment_to_extension n StDefault m) /\
                                  meets la (assignment_to_extension n StDefault m) = true
              | Some (m, false) => st (c_af c) (assignment_to_extension n StDefault m) /\
                                   ~ cred ST (c_af c) la
              | None => forall S, ~ st (c_af c) S
              end).
Proof. exact SolverThms.stable_component_cred. Qed.

Theorem C07_stable_list_skep_component_partial : forall oracle thr, 1 <= thr -> valid_oracle oracle ->
  forall c n la, compact_af (c_af c) n -> (forall a, In a la -> a < n) ->
  on_done (st_cc oracle thr c la false)
    (fun r => match r with
              | Some (m, _) => st (c_af c) (assignment_to_extension n StDefault m) /\
                               meets la (assignment_to_extension n StDefault m) = false /\
                               ~ skep ST (c_af c) la
              | None => skep ST (c_af c) la
              end).
Proof. exact SolverThms.stable_component_skep. Qed.

Theorem C07_lists : forall oracle thr g F,
  valid_oracle oracle -> 1 <= thr -> view_good g F ->
  forall s q e al fuel cert st0,
  q <> QSE -> supported s q -> enc_ok s e -> al_ok s q F al ->
  match run_query oracle thr fuel s q cert e g al st0 with
  | Done (OAcc b _) _ =>
      b = true <-> if qpol q then exists a, In a al /\ cred s F [a]
                   else forall S, ext s F S -> exists a, In a al /\ In a S
  | Done (OExt _) _ => False
  | Panic _ => False
  | _ => True
  end.
Proof. exact SolverTop.top_lists. Qed.

(* ---- the sentences of the property text, in its own words (Proofs/Clauses.v) ---- *)

(* "credulous YES exactly when some extension contains at least one of them, skeptical YES exactly
   when every extension contains at least one of them" *)
Theorem C07_lists_in_words : forall oracle thr g F,
  valid_oracle oracle -> 1 <= thr -> view_good g F ->
  forall s q e al fuel cert st0 b c t,
  q <> QSE -> supported s q -> enc_ok s e -> al_ok s q F al ->
  run_query oracle thr fuel s q cert e g al st0 = Done (OAcc b c) t ->
  (b = true <-> if qpol q then exists S, ext s F S /\ exists a, In a al /\ In a S
                else forall S, ext s F S -> exists a, In a al /\ In a S).
Proof. exact Clauses.lists_in_words. Qed.

(* "The variants with and without certificate return the same status, wherever the listed arguments
   lie": any list al admitted by al_ok (any arguments of F, in the same or in different connected
   components, attacking each other or not, repeated or not) *)
Theorem C07_certificate_variants_agree : forall g F, view_good g F ->
  forall oracle thr, valid_oracle oracle -> 1 <= thr ->
  forall s q e al fuel st0 b1 c1 t1 b2 c2 t2,
  q <> QSE -> supported s q -> enc_ok s e -> al_ok s q F al ->
  run_query oracle thr fuel s q true e g al st0 = Done (OAcc b1 c1) t1 ->
  run_query oracle thr fuel s q false e g al st0 = Done (OAcc b2 c2) t2 ->
  b1 = b2.
Proof. exact Clauses.certificate_flag_independent. Qed.

Print Assumptions C07_complete_list_component_partial.
Print Assumptions C07_stable_list_cred_component_partial.
Print Assumptions C07_stable_list_skep_component_partial.
Print Assumptions C07_lists.
Print Assumptions C07_lists_in_words.
Print Assumptions C07_certificate_variants_agree.
