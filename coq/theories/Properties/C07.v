(* C07 - multi-argument queries are answered as disjunctions.
   Statements only; proofs are [exact].
   PROVED so far (every valid SAT oracle, every compact component of any size, every encoder,
   every argument list with repetitions): CompleteSemanticsSolver's query (with and without
   certificate: [close] = false / true) answers the disjunction under CO, and
   StableSemanticsSolver's per-component step answers the disjunction credulously and
   skeptically.  These are the two solvers the defects D1 and D2 were found in (now repaired).
   NOT YET PROVED in Coq (tied by trace replay + brute-force oracle on every run): the merge of
   the components of the listed arguments, and the PR / SST / STG / ID loops over lists. *)
From Crusta Require Import Spec.AF Sat.Cnf Sat.Prog Model.Encoders Model.Graph Model.Solvers.
From Crusta Require Import Proofs.EncSpec Proofs.SolverBasics Proofs.SolverThms.
Open Scope prog_scope.

Theorem C07_complete_list_component_partial : forall oracle thr, 1 <= thr -> valid_oracle oracle ->
  forall e F n la close s,
  enc_base e = BCo ->
  compact_af F n -> (forall a, In a la -> a < n) -> cls s = [] -> sess_bounded s ->
  match (encode_m thr e false F ;;; guarded_disj oracle e (ret la) close) s with
  | Done (Some m) _ =>
      co F (assignment_to_extension n e m) /\ meets la (assignment_to_extension n e m) = true /\
      cred CO F la
  | Done None _ => ~ cred CO F la
  | _ => True
  end.
Proof. exact SolverThms.cred_query_complete. Qed.

Theorem C07_stable_list_cred_component_partial : forall oracle thr, 1 <= thr -> valid_oracle oracle ->
  forall c n la, compact_af (c_af c) n -> (forall a, In a la -> a < n) ->
  on_done (st_cc oracle thr c la true)
    (fun r => match r with
              | Some (m, true) => st (c_af c) (assignment_to_extension n StDefault m) /\
                                  meets la (assignment_to_extension n StDefault m) = true
              | Some (m, false) => st (c_af c) (assignment_to_extension n StDefault m) /\
                                   ~ cred ST (c_af c) la
              | None => forall S, ~ st (c_af c) S
              end).
Proof. exact SolverThms.stable_component_cred. Qed.

Theorem C07_stable_list_skep_component_partial : forall oracle thr, 1 <= thr -> valid_oracle oracle ->
  forall c n la, compact_af (c_af c) n -> (forall a, In a la -> a < n) ->
  on_done (st_cc oracle thr c la false)
    (fun r => match r with
              | Some (m, _) => st (c_af c) (assignment_to_extension n StDefault m) /\
                               meets la (assignment_to_extension n StDefault m) = false /\
                               ~ skep ST (c_af c) la
              | None => skep ST (c_af c) la
              end).
Proof. exact SolverThms.stable_component_skep. Qed.

Print Assumptions C07_complete_list_component_partial.
Print Assumptions C07_stable_list_cred_component_partial.
Print Assumptions C07_stable_list_skep_component_partial.
