(* C08 - dynamic solvers always answer for the current framework.
   Statements only; every proof is [exact] of a lemma of Proofs/DynProofs.v.  The model is
   Model/Dynamic.v (tied to /repo's src/dynamics on every run by checks/C08.py).  [reach] = states
   reachable by ANY interleaving of updates and queries that returned, under ANY answers of the SAT
   solver, any fuel, any session state (Proofs/DynDefs.v).

   The full functional theorem of DESIGN 8/C08 (k-th answer = credb/skepb on the specification store,
   certificate as in C04, for every valid answer script) is NOT proved.  What IS proved, for every
   history without bound, are the pieces of its invariant that the three historical defects of this
   property violated, named _partial:
     (1) framework: a query either leaves the state untouched or first brings the solver's own
         framework to the specification store of the whole history (nothing left to replay);
         the recompute wrapper runs the static solver on that store;
     (2) allocator / tables (D8): in every reachable state of the complete, stable and preferred
         solvers the variable tables are consistent: the variable of a live argument is typed as
         that argument's, its attacker-disjunction variable is the next one, selectors are typed,
         exactly the live arguments have variables, the assumptions are exactly the live selectors;
         hence live variables never collide; every allocation is above everything the SAT session
         has seen (clauses, assumed literals, reserve);
     (2') split_in_extension covers every live argument whatever the ids (D9);
     (2'') certificates computed by a SAT call of the complete / stable solver are duplicate-free
         lists of live arguments (D6's symptom), for any SAT answer;
     (3) cache (D10): a certificate served from the cache of the preferred solver is a NO
         certificate that omits the queried argument.
     (4) the clause templates themselves are a correct encoding of complete / stable semantics
         (soundness and completeness, any framework, any variable assignment);
   (5)-(7) below (Proofs/DynInv.v, DynFun.v; NOTES-agent-dynfun.md) close the gap for the dynamic COMPLETE
   and STABLE solvers with the standard (selector based) encoder:
     (5) the clause-set invariant over histories (the missing third leg; also for the preferred solver):
         in every state reachable with the SAT program state threaded, the clauses of the session are
         the template groups of the live arguments for their current attackers under their current
         selectors, plus dead clauses;
     (6) THE FUNCTIONAL THEOREM: every answer that is returned - computed by a SAT call or served from
         the cache - is the one the semantics dictate for the specification store of the whole
         history, certificate included, for every valid oracle, both n_vars disciplines;
     (6') and such a query returns or aborts on an Unknown answer: never a panic, never out of fuel;
     (7) hence the status depends on the abstract framework only (not on earlier queries, cached
         results, retired variables).
   STILL NOT PROVED: (6)-(7) for the preferred solver (KPr: (5) holds for it, the analysis of its search
   loop on the shared session is missing), for the assumptions-on-attacks variants and their tables.  See NOTES-dyn.md, NOTES-agent-dynfun.md. *)
From Crusta Require Import Model.Dynamic Spec.Invariance Proofs.SolverBasics Proofs.DynDefs Proofs.DynProofs Proofs.DynEnc
  Proofs.DynFunDefs Proofs.DynInv Proofs.DynFun Proofs.DynTotal Proofs.CompProofs Proofs.SolverWholeEx.

Section C08.
Variable L : Type.
Variable leqb : L -> L -> bool.
Hypothesis leqb_spec : forall x y, leqb x y = true <-> x = y.

Notation reach := (reach L leqb).
Notation fresh := (fresh_fw L leqb).
Notation run_ops := (run_ops L leqb).

(* (1) *)
Theorem C08_query_resynchronises_partial :
  forall k s os oracle thr fuel q cert l ps ps' s' a,
  reach k s os ->
  dyn_query oracle L leqb thr fuel s q cert l ps = Done (s', a) ps' ->
  s' = s \/ (s_af L s' = run_ops fresh os /\ b_shadow L (s_buf L s') = run_ops fresh os /\
             forall ev, In ev (pending L (s_buf L s')) -> is_update_ev L ev = false).
Proof. exact (DynProofs.query_resynchronises L leqb). Qed.

Theorem C08_recompute_wrapper_framework_partial : forall sm s os,
  reach (KDummy sm) s os -> s_af L s = run_ops fresh os.
Proof. exact (DynProofs.dummy_framework L leqb). Qed.

(* (2) *)
Theorem C08_tables_partial : forall k s os e,
  reach k s os -> b_enc L (s_buf L s) = XStd e -> DynProofs.not_dummy k ->
  tables_ok L (s_af L s) e /\ e_upd e = false.
Proof. exact (DynProofs.std_tables_reach L leqb). Qed.

Theorem C08_tables_distinct_partial : forall (af : fw L) e,
  tables_ok L af e ->
  (forall i j v, tbl_var (e_a2v e) i = Some v -> tbl_var (e_a2v e) j = Some v -> i = j) /\
  (forall i j v, tbl_var (e_a2s e) i = Some v -> tbl_var (e_a2s e) j = Some v -> i = j) /\
  (forall i j v w, tbl_var (e_a2v e) i = Some v -> tbl_var (e_a2s e) j = Some w -> v <> w) /\
  (e_sem e <> DST -> forall i j v w, tbl_var (e_a2v e) i = Some v -> tbl_var (e_a2v e) j = Some w -> S v <> w) /\
  (e_sem e <> DST -> forall i j v w, tbl_var (e_a2v e) i = Some v -> tbl_var (e_a2s e) j = Some w -> S v <> w) /\
  (forall i v, tbl_var (e_a2v e) i = Some v -> v < length (e_vars e)) /\
  (forall i w, tbl_var (e_a2s e) i = Some w -> w < length (e_vars e)).
Proof. exact (DynProofs.tables_distinct L). Qed.

(* every variable the encoder allocates is above n_vars() of the session at that moment, i.e. above
   every variable of every clause added, every literal assumed and every reserve so far (the
   CaDiCaL-like n_vars discipline of Sat/Prog.v) - the MaxExt selector 1 + n_vars() of an earlier
   query included *)
Theorem C08_allocation_fresh_partial : forall vars t ps vars' v ps',
  new_solver_var vars t ps = Done (vars', v) ps' ->
  session_n_vars (sess ps) < v /\ sess ps' = sess ps.
Proof. exact DynProofs.new_solver_var_fresh. Qed.

Theorem C08_argument_allocation_partial : forall sm vars id ps vars' v ps',
  alloc_arg_vars sm vars id ps = Done (vars', v) ps' ->
  length vars <= v /\ session_n_vars (sess ps) < v /\ nth_error vars' v = Some (VArg id) /\
  (sm <> DST -> nth_error vars' (S v) = Some (VDisj id)) /\
  (forall i, i < length vars -> nth_error vars' i = nth_error vars i).
Proof. exact DynProofs.alloc_arg_vars_spec. Qed.

(* the variables in the tables are positive (entry 0 of solver_vars is never handed out) *)
Theorem C08_variables_positive_partial : forall k s os e,
  reach k s os -> b_enc L (s_buf L s) = XStd e -> DynProofs.not_dummy k ->
  (forall id v, tbl_var (e_a2v e) id = Some v -> 0 < v) /\
  (forall id sv, tbl_var (e_a2s e) id = Some sv -> 0 < sv).
Proof. exact (DynProofs.std_vars_positive L leqb). Qed.

(* split_in_extension on the dynamic framework (the blocking clause and the assumptions of the
   preferred search) covers every live argument, however sparse the ids are - what D9 violated *)
Theorem C08_split_covers_live_partial : forall (af : fw L) e cur ins outs id v,
  dyn_split L af e cur = Some (ins, outs) ->
  has_argument_with_id L af id = true -> tbl_var (e_a2v e) id = Some v ->
  (memb id cur = true /\ In (zlit v) ins) \/ (memb id cur = false /\ In (zlit v) outs).
Proof. exact (DynProofs.dyn_split_covers L). Qed.

(* (2'') certificates (part of the C04 statement: NoDup, members are live arguments).  With no stale
   argument entry in solver_vars, assignment_to_extension of the dynamic encoder returns ids of live
   arguments, each once, for ANY assignment ... *)
Theorem C08_extension_of_assignment_partial : forall (af : fw L) e m,
  tables_ok L af e ->
  (forall v id, nth_error (e_vars e) v = Some (VArg id) -> tbl_var (e_a2v e) id = Some v) ->
  NoDup (dyn_a2e (e_vars e) m) /\
  forall id, In id (dyn_a2e (e_vars e) m) -> has_argument_with_id L af id = true.
Proof. exact (DynProofs.dyn_a2e_wf L). Qed.

(* ... hence, after any history, every certificate that the dynamic complete / stable solver computes
   by a SAT call (whenever the query changed the state, i.e. was not served from the cache) is a
   duplicate-free list of ids of live arguments of the solver's current framework - whatever the SAT
   solver answered.  (What a duplicate new_argument broke under D6: `DC b` returned a certificate
   with a duplicated member.)  Cached certificates and the preferred solver's are not covered. *)
Theorem C08_fresh_certificate_wellformed_partial :
  forall k s os oracle thr fuel q cert l ps ps' s' b ext,
  reach k s os -> (k = KCo \/ k = KSt) ->
  dyn_query oracle L leqb thr fuel s q cert l ps = Done (s', (b, Some ext)) ps' ->
  s' = s \/ (NoDup ext /\ forall id, In id ext -> has_argument_with_id L (s_af L s') id = true).
Proof. exact (DynProofs.std_fresh_certificate_wf L leqb). Qed.

(* (3) *)
Theorem C08_preferred_cache_sound_partial : forall s os l b ext,
  reach KPr s os -> is_skep L leqb (s_buf L s) l = (Some b, Some ext) ->
  b = false /\ forall id, get_argument L leqb (s_af L s) l = Some id -> ~ In id ext.
Proof. exact (DynProofs.pr_cache_sound L leqb leqb_spec). Qed.

(* ------------------------------------------------------------------------------------------------
   (5)-(7): the complete and the stable dynamic solver answer exactly as the semantics dictate.

   Vocabulary (Proofs/DynFunDefs.v).
   [vreach oracle thr k s ps os]: s is a state of a solver of kind k and ps the state of the SAT program
     (session = clauses added so far, n_vars, answer counter, log) reachable from [dyn_new] by ANY
     interleaving of updates [os] (valid, redundant, invalid) and queries that returned, ALL queries being
     answered by the one oracle; a query that aborts (Unknown answer), panics or runs out of fuel ends the
     history.  The initial program state is arbitrary, hence so is the n_vars discipline: the theorems
     cover CadicalLike and BufferedLike.
   [avar e a], [svar e a]: the variable / the current attacker-set selector of argument a in the tables.
   [group e a bs]: the clauses of add_attacks_to_constraints_for_{complete,stable}_semantics for a with
     attacker list bs under svar e a (plus [-v; -d] for CO), i.e. DynEnc.co_group / st_group.
   [live_var e x]: x is the variable of an argument, its disjunction variable (CO) or a current selector.
   [dead_clause dv c]: c contains a literal over a variable x with a forced value (dv x = Some b) that
     this value makes true - retired selectors (false, unit clause [-s]), variables of removed arguments
     (true, unit clause [v]) and their disjunction variables (false). *)

(* (5) the clause-set invariant, for EVERY kind with the standard encoder (complete, stable, preferred).
   [atk a] is the current attacker SET of a (the list the group was last encoded for); every assignment
   of the live variables satisfying the groups extends to the session by giving the dead variables
   their forced values (that is how (6) uses it).  For the preferred solver the blocking clauses of
   earlier queries are dead: they contain the MaxExt selector 1 + n_vars of their query, forced true by
   the unit clause added when that query ended (what the search does DURING a query is not covered). *)
Theorem C08_clause_set_invariant : forall oracle thr k s ps os e,
  vreach L leqb oracle thr k s ps os -> k = KCo \/ k = KSt \/ k = KPr -> b_enc L (s_buf L s) = XStd e ->
  exists (dv : nat -> option bool) (atk : nat -> list nat),
    (forall x, dv x <> None -> x <= session_n_vars (sess ps)) /\
    (forall x, live_var e x -> dv x = None) /\
    (forall a, has_argument_with_id L (s_af L s) a = true -> tbl_var (e_a2s e) a <> None) /\
    (forall a, has_argument_with_id L (s_af L s) a = true ->
       (forall b, In b (atk a) <-> In (b, a) (iter_attacks L (s_af L s))) /\
       incl (group e a (atk a)) (cls ps)) /\
    (forall c, In c (cls ps) ->
       dead_clause dv c \/
       exists a, has_argument_with_id L (s_af L s) a = true /\ In c (group e a (atk a))).
Proof. exact (DynInv.clause_set_invariant_std L leqb leqb_spec). Qed.

(* (6) the functional theorem.  For the complete solver (DC) and the stable solver (DC and DS), any
   certificate flag, any history, any valid oracle (SolverBasics.valid_oracle: a Sat answer is a model
   of the clauses and the assumptions, an Unsat answer means there is none, Unknown is always allowed):
   a query on a label of the specification store [run_ops fresh os] of the WHOLE history that returns
   gives the status of that argument in the abstract framework of that store, and a certificate exactly
   when promised (flag on and DC-yes / DS-no): an extension (complete resp. stable), duplicate-free, made
   of live arguments, containing resp. omitting the argument.  Answers served from the cache included. *)
Theorem C08_complete_stable_functional :
  forall oracle thr k s ps os fuel q cert l id s' b c ps',
  valid_oracle oracle -> vreach L leqb oracle thr k s ps os ->
  (k = KCo /\ q = QDC) \/ (k = KSt /\ (q = QDC \/ q = QDS)) ->
  get_argument L leqb (run_ops fresh os) l = Some id ->
  dyn_query oracle L leqb thr fuel s q cert l ps = Done (s', (b, c)) ps' ->
  let F := af_of (run_ops fresh os) in
  let sm := match k with KSt => ST | _ => CO end in
  let pol := match q with QDC => true | _ => false end in       (* true: credulous, false: skeptical *)
  (b = true <-> if pol then cred sm F [id] else skep sm F [id]) /\
  match c with
  | Some X => cert = true /\ b = pol /\ ext sm F X /\ NoDup X /\ incl X (args F) /\
              (if pol then In id X else ~ In id X)
  | None => cert = true -> b = negb pol
  end.
Proof. exact (DynFun.dyn_functional L leqb leqb_spec). Qed.

(* (6') "every dynamic solver answers each acceptance query it supports": the query of (6) either RETURNS -
   with the answer of (6) - or aborts because the SAT solver answered Unknown; it never panics and never
   exhausts the model's fuel (the form of the static solver theorems, C01-C04: run_ok) *)
Theorem C08_complete_stable_answers :
  forall oracle thr k s ps os fuel q cert l id,
  valid_oracle oracle -> vreach L leqb oracle thr k s ps os ->
  (k = KCo /\ q = QDC) \/ (k = KSt /\ (q = QDC \/ q = QDS)) ->
  get_argument L leqb (run_ops fresh os) l = Some id ->
  match dyn_query oracle L leqb thr fuel s q cert l ps with
  | Done (s', (b, c)) ps' =>
      let F := af_of (run_ops fresh os) in
      let sm := match k with KSt => ST | _ => CO end in
      let pol := match q with QDC => true | _ => false end in
      (b = true <-> if pol then cred sm F [id] else skep sm F [id]) /\
      match c with
      | Some X => cert = true /\ b = pol /\ ext sm F X /\ NoDup X /\ incl X (args F) /\
                  (if pol then In id X else ~ In id X)
      | None => cert = true -> b = negb pol
      end
  | Abort _ => True
  | Panic _ | OutOfFuel _ => False
  end.
Proof. exact (DynTotal.dyn_functional_run L leqb leqb_spec). Qed.

(* (7) "earlier queries, cached results and retired SAT variables never influence a later answer": two
   histories - whatever their queries, oracles, thresholds, fuels, certificate flags - whose
   specification stores denote the same abstract framework (same arguments, same attacks) give the same
   status for the same argument *)
Theorem C08_status_depends_on_framework_only :
  forall oracle1 oracle2 thr1 thr2 k s1 s2 ps1 ps2 os1 os2 fuel1 fuel2 q cert1 cert2 l1 l2 id
         s1' s2' b1 b2 c1 c2 ps1' ps2',
  valid_oracle oracle1 -> valid_oracle oracle2 ->
  vreach L leqb oracle1 thr1 k s1 ps1 os1 -> vreach L leqb oracle2 thr2 k s2 ps2 os2 ->
  (k = KCo /\ q = QDC) \/ (k = KSt /\ (q = QDC \/ q = QDS)) ->
  af_equiv (af_of (run_ops fresh os1)) (af_of (run_ops fresh os2)) ->
  get_argument L leqb (run_ops fresh os1) l1 = Some id -> get_argument L leqb (run_ops fresh os2) l2 = Some id ->
  dyn_query oracle1 L leqb thr1 fuel1 s1 q cert1 l1 ps1 = Done (s1', (b1, c1)) ps1' ->
  dyn_query oracle2 L leqb thr2 fuel2 s2 q cert2 l2 ps2 = Done (s2', (b2, c2)) ps2' ->
  b1 = b2.
Proof. exact (DynFun.dyn_status_history_independent L leqb leqb_spec). Qed.

End C08.

(* (4) the clause templates of the dynamic encoder are a correct encoding (the analogue of C10 for
   add_attacks_to_constraints_for_{complete,stable}_semantics).  For ANY framework given by its live
   ids and attacker lists (DynEnc.tF), any positive variables av / selectors sel (the attacker
   disjunction variable of a being 1 + av a, as the table invariant (2) guarantees), and any valuation:
   if every live argument's group is satisfied under true selectors, the arguments whose variable is
   true form a complete (stable) extension; conversely every complete (stable) extension has a model
   that makes all selectors true, provided the variables in use are pairwise distinct (which (2)
   provides).  NOT proved: that the clause set of the SAT session IS the union of these groups for the
   current framework plus constraints over dead variables only (the history part). *)
Theorem C08_complete_template_sound_partial :
  forall (ids : list nat) (atk : nat -> list nat),
  (forall a b, In a ids -> In b (atk a) -> In b ids) ->
  forall av sel : nat -> nat, (forall a, 0 < av a) -> (forall a, 0 < sel a) ->
  forall m : val,
  (forall a, In a ids -> m (sel a) = true) ->
  (forall a, In a ids -> vmodels m (co_group atk av sel a) = true) ->
  co (tF ids atk) (S_of ids av m).
Proof. exact DynEnc.co_template_sound. Qed.

Theorem C08_complete_template_complete_partial :
  forall (ids : list nat) (atk : nat -> list nat),
  (forall a b, In a ids -> In b (atk a) -> In b ids) ->
  forall av sel : nat -> nat, (forall a, 0 < av a) -> (forall a, 0 < sel a) ->
  (forall a b, In a ids -> In b ids -> av a = av b -> a = b) ->
  (forall a b, In a ids -> In b ids -> av a <> S (av b)) ->
  (forall a b, In a ids -> In b ids -> sel a <> av b) ->
  (forall a b, In a ids -> In b ids -> sel a <> S (av b)) ->
  forall X, co (tF ids atk) X ->
  (forall a, In a ids -> vmodels (model_of ids atk av X) (co_group atk av sel a) = true) /\
  (forall a, In a ids -> model_of ids atk av X (sel a) = true) /\
  (forall a, In a ids -> model_of ids atk av X (av a) = true <-> In a X).
Proof. exact DynEnc.co_template_complete. Qed.

Theorem C08_stable_template_sound_partial :
  forall (ids : list nat) (atk : nat -> list nat),
  (forall a b, In a ids -> In b (atk a) -> In b ids) ->
  forall av sel : nat -> nat, (forall a, 0 < av a) -> (forall a, 0 < sel a) ->
  forall m : val,
  (forall a, In a ids -> m (sel a) = true) ->
  (forall a, In a ids -> vmodels m (st_group atk av sel a) = true) ->
  st (tF ids atk) (S_of ids av m).
Proof. exact DynEnc.st_template_sound. Qed.

Theorem C08_stable_template_complete_partial :
  forall (ids : list nat) (atk : nat -> list nat),
  (forall a b, In a ids -> In b (atk a) -> In b ids) ->
  forall av sel : nat -> nat, (forall a, 0 < av a) -> (forall a, 0 < sel a) ->
  (forall a b, In a ids -> In b ids -> av a = av b -> a = b) ->
  (forall a b, In a ids -> In b ids -> sel a <> av b) ->
  forall X, st (tF ids atk) X ->
  (forall a, In a ids -> vmodels (st_model_of ids av X) (st_group atk av sel a) = true) /\
  (forall a, In a ids -> st_model_of ids av X (sel a) = true) /\
  (forall a, In a ids -> st_model_of ids av X (av a) = true <-> In a X).
Proof. exact DynEnc.st_template_complete. Qed.

(* the hypotheses of (4) are satisfiable: a <-> b with variables 1, 3 (disjunction 2, 4), selectors 5, 6 *)
Example C08_template_hypotheses_satisfiable :
  let ids := [0; 1] in let atk := fun a => [1 - a] in
  let av := fun a => 2 * a + 1 in let sel := fun a => 5 + a in
  (forall a b, In a ids -> In b (atk a) -> In b ids) /\
  (forall a, 0 < av a) /\ (forall a, 0 < sel a) /\
  (forall a b, In a ids -> In b ids -> av a = av b -> a = b) /\
  (forall a b, In a ids -> In b ids -> av a <> S (av b)) /\
  (forall a b, In a ids -> In b ids -> sel a <> av b) /\
  (forall a b, In a ids -> In b ids -> sel a <> S (av b)).
Proof.
  cbv zeta. repeat split; try (intros; lia).
  all: intros a b Ha Hb; cbn in Ha; destruct Ha as [<-|[<-|[]]]; cbn in Hb;
    repeat (destruct Hb as [<-|Hb]); try destruct Hb; cbn; auto; lia.
Qed.

(* the hypotheses are satisfiable *)
Example C08_reach_inhabited :
  exists s, reach nat Nat.eqb KPr s ((([] ++ [OpNewArg 1]) ++ [OpNewArg 2]) ++ [OpNewAtt 1 2]).
Proof.
  eexists. eapply reach_update. eapply reach_update. eapply reach_update.
  eapply reach_new with (ps := init_st CadicalLike). reflexivity.
Qed.

(* the hypotheses of (5)-(7) are satisfiable, and the queries do return: the stable solver with the
   brute-force reference oracle (valid: SolverWholeEx.bf_oracle_valid) on the history
   +1 +2 1->2 2->1, DC 1 with certificate (computed), DC 1 again (served from the cache), +3 3->1 -2;
   then DS 1 with certificate returns NO with the stable extension {3} of the framework {1, 3 | 3->1} *)
Example C08_functional_inhabited :
  exists s ps s' b c ps',
    valid_oracle bf_oracle /\
    vreach nat Nat.eqb bf_oracle 1 KSt s ps
      (((((((([] ++ [OpNewArg 1]) ++ [OpNewArg 2]) ++ [OpNewAtt 1 2]) ++ [OpNewAtt 2 1])
          ++ [OpNewArg 3]) ++ [OpNewAtt 3 1]) ++ [OpRemArg 2])) /\
    get_argument nat Nat.eqb
      (run_ops nat Nat.eqb (fresh_fw nat Nat.eqb)
         [OpNewArg 1; OpNewArg 2; OpNewAtt 1 2; OpNewAtt 2 1; OpNewArg 3; OpNewAtt 3 1; OpRemArg 2]) 1 = Some 0 /\
    dyn_query bf_oracle nat Nat.eqb 1 10 s QDS true 1 ps = Done (s', (b, c)) ps' /\
    b = false /\ c = Some [2].
Proof.
  do 6 eexists. split; [exact bf_oracle_valid|]. split.
  - eapply vreach_update. eapply vreach_update. eapply vreach_update.
    eapply (vreach_query nat Nat.eqb bf_oracle 1 KSt _ _ _ 10 QDC true 1).
    + eapply (vreach_query nat Nat.eqb bf_oracle 1 KSt _ _ _ 10 QDC true 1).
      * eapply vreach_update. eapply vreach_update. eapply vreach_update. eapply vreach_update.
        eapply vreach_new with (ps0 := init_st CadicalLike). reflexivity.
      * vm_compute. reflexivity.
    + vm_compute. reflexivity.
  - split; [vm_compute; reflexivity|]. split; [vm_compute; reflexivity|]. split; reflexivity.
Qed.

Print Assumptions C08_query_resynchronises_partial.
Print Assumptions C08_recompute_wrapper_framework_partial.
Print Assumptions C08_tables_partial.
Print Assumptions C08_tables_distinct_partial.
Print Assumptions C08_allocation_fresh_partial.
Print Assumptions C08_argument_allocation_partial.
Print Assumptions C08_variables_positive_partial.
Print Assumptions C08_split_covers_live_partial.
Print Assumptions C08_extension_of_assignment_partial.
Print Assumptions C08_fresh_certificate_wellformed_partial.
Print Assumptions C08_preferred_cache_sound_partial.
Print Assumptions C08_clause_set_invariant.
Print Assumptions C08_complete_stable_functional.
Print Assumptions C08_complete_stable_answers.
Print Assumptions C08_status_depends_on_framework_only.
Print Assumptions C08_complete_template_sound_partial.
Print Assumptions C08_complete_template_complete_partial.
Print Assumptions C08_stable_template_sound_partial.
Print Assumptions C08_stable_template_complete_partial.
