(* C08 - dynamic solvers always answer for the current framework.
   Statements only; every proof is [exact] of a lemma of Proofs/DynProofs.v.  The model is
   Model/Dynamic.v (tied to /repo's src/dynamics on every run by checks/C08.py).  [reach] = states
   reachable by ANY interleaving of updates and queries that returned, under ANY answers of the SAT
   solver, any fuel, any session state (Proofs/DynDefs.v).

   The full functional theorem of DESIGN 8/C08 (k-th answer = credb/skepb on the specification store,
   certificate as in C04, for every valid answer script) is NOT proved.  What IS proved, for every
   history without bound, are the pieces of its invariant that the three historical defects of this
   property violated, named _partial:
     (1) framework: a query either leaves the state untouched or first brings the solver's own
         framework to the specification store of the whole history (nothing left to replay);
         the recompute wrapper runs the static solver on that store;
     (2) allocator / tables (D8): in every reachable state of the complete, stable and preferred
         solvers the variable tables are consistent: the variable of a live argument is typed as
         that argument's, its attacker-disjunction variable is the next one, selectors are typed,
         exactly the live arguments have variables, the assumptions are exactly the live selectors;
         hence live variables never collide; every allocation is above everything the SAT session
         has seen (clauses, assumed literals, reserve);
     (2') split_in_extension covers every live argument whatever the ids (D9);
     (2'') certificates computed by a SAT call of the complete / stable solver are duplicate-free
         lists of live arguments (D6's symptom), for any SAT answer;
     (3) cache (D10): a certificate served from the cache of the preferred solver is a NO
         certificate that omits the queried argument.
     (4) the clause templates themselves are a correct encoding of complete / stable semantics
         (soundness and completeness, any framework, any variable assignment);
   NOT YET PROVED: the clause-set invariant (current assumptions + clause set == encoding of the
   current framework, dead variables independent), hence statuses and certificates; the
   assumptions-on-attacks tables.  See NOTES-dyn.md. *)
From Crusta Require Import Model.Dynamic Proofs.DynDefs Proofs.DynProofs Proofs.DynEnc.

Section C08.
Variable L : Type.
Variable leqb : L -> L -> bool.
Hypothesis leqb_spec : forall x y, leqb x y = true <-> x = y.

Notation reach := (reach L leqb).
Notation fresh := (fresh_fw L leqb).
Notation run_ops := (run_ops L leqb).

(* (1) *)
Theorem C08_query_resynchronises_partial :
  forall k s os oracle thr fuel q cert l ps ps' s' a,
  reach k s os ->
  dyn_query oracle L leqb thr fuel s q cert l ps = Done (s', a) ps' ->
  s' = s \/ (s_af L s' = run_ops fresh os /\ b_shadow L (s_buf L s') = run_ops fresh os /\
             forall ev, In ev (pending L (s_buf L s')) -> is_update_ev L ev = false).
Proof. exact (DynProofs.query_resynchronises L leqb). Qed.

Theorem C08_recompute_wrapper_framework_partial : forall sm s os,
  reach (KDummy sm) s os -> s_af L s = run_ops fresh os.
Proof. exact (DynProofs.dummy_framework L leqb). Qed.

(* (2) *)
Theorem C08_tables_partial : forall k s os e,
  reach k s os -> b_enc L (s_buf L s) = XStd e -> DynProofs.not_dummy k ->
  tables_ok L (s_af L s) e /\ e_upd e = false.
Proof. exact (DynProofs.std_tables_reach L leqb). Qed.

Theorem C08_tables_distinct_partial : forall (af : fw L) e,
  tables_ok L af e ->
  (forall i j v, tbl_var (e_a2v e) i = Some v -> tbl_var (e_a2v e) j = Some v -> i = j) /\
  (forall i j v, tbl_var (e_a2s e) i = Some v -> tbl_var (e_a2s e) j = Some v -> i = j) /\
  (forall i j v w, tbl_var (e_a2v e) i = Some v -> tbl_var (e_a2s e) j = Some w -> v <> w) /\
  (e_sem e <> DST -> forall i j v w, tbl_var (e_a2v e) i = Some v -> tbl_var (e_a2v e) j = Some w -> S v <> w) /\
  (e_sem e <> DST -> forall i j v w, tbl_var (e_a2v e) i = Some v -> tbl_var (e_a2s e) j = Some w -> S v <> w) /\
  (forall i v, tbl_var (e_a2v e) i = Some v -> v < length (e_vars e)) /\
  (forall i w, tbl_var (e_a2s e) i = Some w -> w < length (e_vars e)).
Proof. exact (DynProofs.tables_distinct L). Qed.

(* every variable the encoder allocates is above n_vars() of the session at that moment, i.e. above
   every variable of every clause added, every literal assumed and every reserve so far (the
   CaDiCaL-like n_vars discipline of Sat/Prog.v) - the MaxExt selector 1 + n_vars() of an earlier
   query included *)
Theorem C08_allocation_fresh_partial : forall vars t ps vars' v ps',
  new_solver_var vars t ps = Done (vars', v) ps' ->
  session_n_vars (sess ps) < v /\ sess ps' = sess ps.
Proof. exact DynProofs.new_solver_var_fresh. Qed.

Theorem C08_argument_allocation_partial : forall sm vars id ps vars' v ps',
  alloc_arg_vars sm vars id ps = Done (vars', v) ps' ->
  length vars <= v /\ session_n_vars (sess ps) < v /\ nth_error vars' v = Some (VArg id) /\
  (sm <> DST -> nth_error vars' (S v) = Some (VDisj id)) /\
  (forall i, i < length vars -> nth_error vars' i = nth_error vars i).
Proof. exact DynProofs.alloc_arg_vars_spec. Qed.

(* the variables in the tables are positive (entry 0 of solver_vars is never handed out) *)
Theorem C08_variables_positive_partial : forall k s os e,
  reach k s os -> b_enc L (s_buf L s) = XStd e -> DynProofs.not_dummy k ->
  (forall id v, tbl_var (e_a2v e) id = Some v -> 0 < v) /\
  (forall id sv, tbl_var (e_a2s e) id = Some sv -> 0 < sv).
Proof. exact (DynProofs.std_vars_positive L leqb). Qed.

(* split_in_extension on the dynamic framework (the blocking clause and the assumptions of the
   preferred search) covers every live argument, however sparse the ids are - what D9 violated *)
Theorem C08_split_covers_live_partial : forall (af : fw L) e cur ins outs id v,
  dyn_split L af e cur = Some (ins, outs) ->
  has_argument_with_id L af id = true -> tbl_var (e_a2v e) id = Some v ->
  (memb id cur = true /\ In (zlit v) ins) \/ (memb id cur = false /\ In (zlit v) outs).
Proof. exact (DynProofs.dyn_split_covers L). Qed.

(* (2'') certificates (part of the C04 statement: NoDup, members are live arguments).  With no stale
   argument entry in solver_vars, assignment_to_extension of the dynamic encoder returns ids of live
   arguments, each once, for ANY assignment ... *)
Theorem C08_extension_of_assignment_partial : forall (af : fw L) e m,
  tables_ok L af e ->
  (forall v id, nth_error (e_vars e) v = Some (VArg id) -> tbl_var (e_a2v e) id = Some v) ->
  NoDup (dyn_a2e (e_vars e) m) /\
  forall id, In id (dyn_a2e (e_vars e) m) -> has_argument_with_id L af id = true.
Proof. exact (DynProofs.dyn_a2e_wf L). Qed.

(* ... hence, after any history, every certificate that the dynamic complete / stable solver computes
   by a SAT call (whenever the query changed the state, i.e. was not served from the cache) is a
   duplicate-free list of ids of live arguments of the solver's current framework - whatever the SAT
   solver answered.  (What a duplicate new_argument broke under D6: `DC b` returned a certificate
   with a duplicated member.)  Cached certificates and the preferred solver's are not covered. *)
Theorem C08_fresh_certificate_wellformed_partial :
  forall k s os oracle thr fuel q cert l ps ps' s' b ext,
  reach k s os -> (k = KCo \/ k = KSt) ->
  dyn_query oracle L leqb thr fuel s q cert l ps = Done (s', (b, Some ext)) ps' ->
  s' = s \/ (NoDup ext /\ forall id, In id ext -> has_argument_with_id L (s_af L s') id = true).
Proof. exact (DynProofs.std_fresh_certificate_wf L leqb). Qed.

(* (3) *)
Theorem C08_preferred_cache_sound_partial : forall s os l b ext,
  reach KPr s os -> is_skep L leqb (s_buf L s) l = (Some b, Some ext) ->
  b = false /\ forall id, get_argument L leqb (s_af L s) l = Some id -> ~ In id ext.
Proof. exact (DynProofs.pr_cache_sound L leqb leqb_spec). Qed.

End C08.

(* (4) the clause templates of the dynamic encoder are a correct encoding (the analogue of C10 for
   add_attacks_to_constraints_for_{complete,stable}_semantics).  For ANY framework given by its live
   ids and attacker lists (DynEnc.tF), any positive variables av / selectors sel (the attacker
   disjunction variable of a being 1 + av a, as the table invariant (2) guarantees), and any valuation:
   if every live argument's group is satisfied under true selectors, the arguments whose variable is
   true form a complete (stable) extension; conversely every complete (stable) extension has a model
   that makes all selectors true, provided the variables in use are pairwise distinct (which (2)
   provides).  NOT proved: that the clause set of the SAT session IS the union of these groups for the
   current framework plus constraints over dead variables only (the history part). *)
Theorem C08_complete_template_sound_partial :
  forall (ids : list nat) (atk : nat -> list nat),
  (forall a b, In a ids -> In b (atk a) -> In b ids) ->
  forall av sel : nat -> nat, (forall a, 0 < av a) -> (forall a, 0 < sel a) ->
  forall m : val,
  (forall a, In a ids -> m (sel a) = true) ->
  (forall a, In a ids -> vmodels m (co_group atk av sel a) = true) ->
  co (tF ids atk) (S_of ids av m).
Proof. exact DynEnc.co_template_sound. Qed.

Theorem C08_complete_template_complete_partial :
  forall (ids : list nat) (atk : nat -> list nat),
  (forall a b, In a ids -> In b (atk a) -> In b ids) ->
  forall av sel : nat -> nat, (forall a, 0 < av a) -> (forall a, 0 < sel a) ->
  (forall a b, In a ids -> In b ids -> av a = av b -> a = b) ->
  (forall a b, In a ids -> In b ids -> av a <> S (av b)) ->
  (forall a b, In a ids -> In b ids -> sel a <> av b) ->
  (forall a b, In a ids -> In b ids -> sel a <> S (av b)) ->
  forall X, co (tF ids atk) X ->
  (forall a, In a ids -> vmodels (model_of ids atk av X) (co_group atk av sel a) = true) /\
  (forall a, In a ids -> model_of ids atk av X (sel a) = true) /\
  (forall a, In a ids -> model_of ids atk av X (av a) = true <-> In a X).
Proof. exact DynEnc.co_template_complete. Qed.

Theorem C08_stable_template_sound_partial :
  forall (ids : list nat) (atk : nat -> list nat),
  (forall a b, In a ids -> In b (atk a) -> In b ids) ->
  forall av sel : nat -> nat, (forall a, 0 < av a) -> (forall a, 0 < sel a) ->
  forall m : val,
  (forall a, In a ids -> m (sel a) = true) ->
  (forall a, In a ids -> vmodels m (st_group atk av sel a) = true) ->
  st (tF ids atk) (S_of ids av m).
Proof. exact DynEnc.st_template_sound. Qed.

Theorem C08_stable_template_complete_partial :
  forall (ids : list nat) (atk : nat -> list nat),
  (forall a b, In a ids -> In b (atk a) -> In b ids) ->
  forall av sel : nat -> nat, (forall a, 0 < av a) -> (forall a, 0 < sel a) ->
  (forall a b, In a ids -> In b ids -> av a = av b -> a = b) ->
  (forall a b, In a ids -> In b ids -> sel a <> av b) ->
  forall X, st (tF ids atk) X ->
  (forall a, In a ids -> vmodels (st_model_of ids av X) (st_group atk av sel a) = true) /\
  (forall a, In a ids -> st_model_of ids av X (sel a) = true) /\
  (forall a, In a ids -> st_model_of ids av X (av a) = true <-> In a X).
Proof. exact DynEnc.st_template_complete. Qed.

(* the hypotheses of (4) are satisfiable: a <-> b with variables 1, 3 (disjunction 2, 4), selectors 5, 6 *)
Example C08_template_hypotheses_satisfiable :
  let ids := [0; 1] in let atk := fun a => [1 - a] in
  let av := fun a => 2 * a + 1 in let sel := fun a => 5 + a in
  (forall a b, In a ids -> In b (atk a) -> In b ids) /\
  (forall a, 0 < av a) /\ (forall a, 0 < sel a) /\
  (forall a b, In a ids -> In b ids -> av a = av b -> a = b) /\
  (forall a b, In a ids -> In b ids -> av a <> S (av b)) /\
  (forall a b, In a ids -> In b ids -> sel a <> av b) /\
  (forall a b, In a ids -> In b ids -> sel a <> S (av b)).
Proof.
  cbv zeta. repeat split; try (intros; lia).
  all: intros a b Ha Hb; cbn in Ha; destruct Ha as [<-|[<-|[]]]; cbn in Hb;
    repeat (destruct Hb as [<-|Hb]); try destruct Hb; cbn; auto; lia.
Qed.

(* the hypotheses are satisfiable *)
Example C08_reach_inhabited :
  exists s, reach nat Nat.eqb KPr s ((([] ++ [OpNewArg 1]) ++ [OpNewArg 2]) ++ [OpNewAtt 1 2]).
Proof.
  eexists. eapply reach_update. eapply reach_update. eapply reach_update.
  eapply reach_new with (ps := init_st CadicalLike). reflexivity.
Qed.

Print Assumptions C08_query_resynchronises_partial.
Print Assumptions C08_recompute_wrapper_framework_partial.
Print Assumptions C08_tables_partial.
Print Assumptions C08_tables_distinct_partial.
Print Assumptions C08_allocation_fresh_partial.
Print Assumptions C08_argument_allocation_partial.
Print Assumptions C08_variables_positive_partial.
Print Assumptions C08_split_covers_live_partial.
Print Assumptions C08_extension_of_assignment_partial.
Print Assumptions C08_fresh_certificate_wellformed_partial.
Print Assumptions C08_preferred_cache_sound_partial.
Print Assumptions C08_complete_template_sound_partial.
Print Assumptions C08_complete_template_complete_partial.
Print Assumptions C08_stable_template_sound_partial.
Print Assumptions C08_stable_template_complete_partial.
