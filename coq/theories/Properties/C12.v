(* C12 - the framework store is a faithful set model under any update history.
   Statements only; every proof is [exact] of a lemma of Proofs/StoreProofs.v. *)
From Crusta Require Import Model.Store Proofs.StoreProofs.
From Crusta Require Proofs.Clauses2.
From Coq Require Import Permutation.

Section C12.
Variable L : Type.
Variable leqb : L -> L -> bool.
Hypothesis leqb_spec : forall x y, leqb x y = true <-> x = y.

Notation fw := (fw L).
Notation op := (op L).
Notation step := (step L leqb).
Notation s_step := (s_step L leqb).
Notation abs := (abs L).
Notation run_ops := (run_ops L leqb).
Notation init := (fw_new_with_labels L leqb).

(* every state reachable from [new_with_labels ls] by any operation sequence *)
Definition reachable (f : fw) : Prop := exists ls os, f = run_ops (init ls) os.

(* (1) refinement: each operation returns the same Ok/Err as the set model, commutes with the
   abstraction function, and never panics *)
Theorem C12_step_refines : forall f o, reachable f ->
  snd (step f o) = snd (s_step (abs f) o) /\
  abs (fst (step f o)) = fst (s_step (abs f) o) /\
  snd (step f o) <> RPanic.
Proof. exact (StoreProofs.step_refines L leqb leqb_spec). Qed.

(* (2) an update that reports an error leaves the store EQUAL (not only abs-equal) *)
Theorem C12_err_unchanged : forall f o, snd (step f o) = RErr -> fst (step f o) = f.
Proof. exact (StoreProofs.err_unchanged L leqb). Qed.

(* (3) whole histories: the store after any history abstracts to the set model's run *)
Theorem C12_history_refines : forall ls os,
  abs (run_ops (init ls) os) =
  fold_left (fun s o => fst (s_step s o)) os (abs (init ls)).
Proof. exact (StoreProofs.history_refines L leqb leqb_spec). Qed.

(* (4) every observation agrees with the set model *)
Theorem C12_observations : forall f, reachable f ->
  n_arguments L f = length (live (abs f)) /\
  n_attacks L f = length (rel (abs f)) /\
  NoDup (rel (abs f)) /\
  (forall id, Permutation (iter_attacks_from L f id)
                          (filter (fun p => Nat.eqb (fst p) id) (rel (abs f)))) /\
  (forall id, Permutation (iter_attacks_to L f id)
                          (filter (fun p => Nat.eqb (snd p) id) (rel (abs f)))) /\
  (forall l, get_argument L leqb f l = s_find L leqb (abs f) l) /\
  (forall id, has_argument_with_id L f id = true <-> In id (map fst (live (abs f)))) /\
  max_argument_id L f = (if Nat.eqb (next_id (abs f)) 0 then None else Some (next_id (abs f) - 1)).
Proof. exact (StoreProofs.observations L leqb leqb_spec). Qed.

(* (5) the set model itself is a set model: labels unique, ids unique and increasing,
   below next_id (hence never reused: a new argument receives next_id, which never decreases),
   attacks join live arguments, no duplicate attack *)
Theorem C12_spec_wellformed : forall f, reachable f ->
  let s := abs f in
  NoDup (map snd (live s)) /\
  StronglySorted lt (map fst (live s)) /\
  (forall id, In id (map fst (live s)) -> id < next_id s) /\
  (forall a b, In (a, b) (rel s) -> In a (map fst (live s)) /\ In b (map fst (live s))) /\
  NoDup (rel s).
Proof. exact (StoreProofs.spec_wellformed L leqb leqb_spec). Qed.

(* (6) ids are stable and never reused: next_id never decreases, a live argument keeps its id
   and label across any operation that does not remove it, and a new argument gets next_id *)
Theorem C12_ids_stable : forall f o, reachable f ->
  let s := abs f in let s' := abs (fst (step f o)) in
  next_id s <= next_id s' /\
  (forall id l, In (id, l) (live s') -> In (id, l) (live s) \/ (id = next_id s /\ next_id s' = S id)) /\
  (forall id l, In (id, l) (live s) -> In (id, l) (live s') \/ o = OpRemArg l).
Proof. exact (StoreProofs.ids_stable L leqb leqb_spec). Qed.

(* ---- the remaining clauses of the property text, one theorem each (Proofs/Clauses2.v) *)
(* (7) "removing an argument removes exactly its incident attacks": the call reports Ok, the live
   arguments lose exactly this one, and the attacks lose exactly those with this end point *)
Theorem C12_remove_argument_removes_incident_attacks : forall f l id, reachable f ->
  get_argument L leqb f l = Some id ->
  snd (step f (OpRemArg l)) = ROk /\
  iter_args L (fst (step f (OpRemArg l))) = filter (fun p => negb (Nat.eqb (fst p) id)) (iter_args L f) /\
  iter_attacks L (fst (step f (OpRemArg l))) =
    filter (fun p => negb (Nat.eqb (fst p) id) && negb (Nat.eqb (snd p) id)) (iter_attacks L f).
Proof. exact (Clauses2.remove_argument_incident L leqb leqb_spec). Qed.

(* (8) "inserting an existing argument or attack changes nothing": Ok, and the store is EQUAL *)
Theorem C12_insert_existing_changes_nothing : forall f, reachable f ->
  (forall l id, get_argument L leqb f l = Some id -> step f (OpNewArg l) = (f, ROk)) /\
  (forall a b x y, get_argument L leqb f a = Some x -> get_argument L leqb f b = Some y ->
                   In (x, y) (iter_attacks L f) -> step f (OpNewAtt a b) = (f, ROk)).
Proof. exact (Clauses2.insert_existing_noop L leqb leqb_spec). Qed.

(* (9) "ids are never reused", over whole histories: an id below the id counter of f that names a live
   argument after ANY further update sequence os named the same argument (same label) in f already -
   so neither the id of a removed argument nor any other id handed out before is ever given again *)
Theorem C12_ids_never_reused : forall os f, reachable f ->
  forall id l, In (id, l) (iter_args L (run_ops f os)) -> id < next_id (abs f) -> In (id, l) (iter_args L f).
Proof. exact (Clauses2.ids_never_reused L leqb leqb_spec). Qed.

(* (10) "an update on an unknown argument or attack returns an error and leaves the framework unchanged":
   removing an unknown argument; adding or removing an attack with an unknown end point; removing an
   attack that is not there *)
Theorem C12_unknown_is_error_and_unchanged : forall f, reachable f ->
  (forall l, get_argument L leqb f l = None -> step f (OpRemArg l) = (f, RErr)) /\
  (forall a b, get_argument L leqb f a = None \/ get_argument L leqb f b = None ->
               step f (OpNewAtt a b) = (f, RErr) /\ step f (OpRemAtt a b) = (f, RErr)) /\
  (forall a b x y, get_argument L leqb f a = Some x -> get_argument L leqb f b = Some y ->
                   ~ In (x, y) (iter_attacks L f) -> step f (OpRemAtt a b) = (f, RErr)).
Proof. exact (Clauses2.unknown_rejected L leqb leqb_spec). Qed.

End C12.

Print Assumptions C12_step_refines.
Print Assumptions C12_err_unchanged.
Print Assumptions C12_history_refines.
Print Assumptions C12_observations.
Print Assumptions C12_spec_wellformed.
Print Assumptions C12_ids_stable.
Print Assumptions C12_remove_argument_removes_incident_attacks.
Print Assumptions C12_insert_existing_changes_nothing.
Print Assumptions C12_ids_never_reused.
Print Assumptions C12_unknown_is_error_and_unchanged.
