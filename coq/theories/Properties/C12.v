(* C12 - the framework store is a faithful set model under any update history.
   Statements only; every proof is [exact] of a lemma of Proofs/StoreProofs.v. *)
From Crusta Require Import Model.Store Proofs.StoreProofs.
From Coq Require Import Permutation.

Section C12.
Variable L : Type.
Variable leqb : L -> L -> bool.
Hypothesis leqb_spec : forall x y, leqb x y = true <-> x = y.

Notation fw := (fw L).
Notation op := (op L).
Notation step := (step L leqb).
Notation s_step := (s_step L leqb).
Notation abs := (abs L).
Notation run_ops := (run_ops L leqb).
Notation init := (fw_new_with_labels L leqb).

(* every state reachable from [new_with_labels ls] by any operation sequence *)
Definition reachable (f : fw) : Prop := exists ls os, f = run_ops (init ls) os.

(* (1) refinement: each operation returns the same Ok/Err as the set model, commutes with the
   abstraction function, and never panics *)
Theorem C12_step_refines : forall f o, reachable f ->
  snd (step f o) = snd (s_step (abs f) o) /\
  abs (fst (step f o)) = fst (s_step (abs f) o) /\
  snd (step f o) <> RPanic.
Proof. exact (StoreProofs.step_refines L leqb leqb_spec). Qed.

(* (2) an update that reports an error leaves the store EQUAL (not only abs-equal) *)
Theorem C12_err_unchanged : forall f o, snd (step f o) = RErr -> fst (step f o) = f.
Proof. exact (StoreProofs.err_unchanged L leqb). Qed.

(* (3) whole histories: the store after any history abstracts to the set model's run *)
Theorem C12_history_refines : forall ls os,
  abs (run_ops (init ls) os) =
  fold_left (fun s o => fst (s_step s o)) os (abs (init ls)).
Proof. exact (StoreProofs.history_refines L leqb leqb_spec). Qed.

(* (4) every observation agrees with the set model *)
Theorem C12_observations : forall f, reachable f ->
  n_arguments L f = length (live (abs f)) /\
  n_attacks L f = length (rel (abs f)) /\
  NoDup (rel (abs f)) /\
  (forall id, Permutation (iter_attacks_from L f id)
                          (filter (fun p => Nat.eqb (fst p) id) (rel (abs f)))) /\
  (forall id, Permutation (iter_attacks_to L f id)
                          (filter (fun p => Nat.eqb (snd p) id) (rel (abs f)))) /\
  (forall l, get_argument L leqb f l = s_find L leqb (abs f) l) /\
  (forall id, has_argument_with_id L f id = true <-> In id (map fst (live (abs f)))) /\
  max_argument_id L f = (if Nat.eqb (next_id (abs f)) 0 then None else Some (next_id (abs f) - 1)).
Proof. exact (StoreProofs.observations L leqb leqb_spec). Qed.

(* (5) the set model itself is a set model: labels unique, ids unique and increasing,
   below next_id (hence never reused: a new argument receives next_id, which never decreases),
   attacks join live arguments, no duplicate attack *)
Theorem C12_spec_wellformed : forall f, reachable f ->
  let s := abs f in
  NoDup (map snd (live s)) /\
  StronglySorted lt (map fst (live s)) /\
  (forall id, In id (map fst (live s)) -> id < next_id s) /\
  (forall a b, In (a, b) (rel s) -> In a (map fst (live s)) /\ In b (map fst (live s))) /\
  NoDup (rel s).
Proof. exact (StoreProofs.spec_wellformed L leqb leqb_spec). Qed.

(* (6) ids are stable and never reused: next_id never decreases, a live argument keeps its id
   and label across any operation that does not remove it, and a new argument gets next_id *)
Theorem C12_ids_stable : forall f o, reachable f ->
  let s := abs f in let s' := abs (fst (step f o)) in
  next_id s <= next_id s' /\
  (forall id l, In (id, l) (live s') -> In (id, l) (live s) \/ (id = next_id s /\ next_id s' = S id)) /\
  (forall id l, In (id, l) (live s) -> In (id, l) (live s') \/ o = OpRemArg l).
Proof. exact (StoreProofs.ids_stable L leqb leqb_spec). Qed.

End C12.

Print Assumptions C12_step_refines.
Print Assumptions C12_err_unchanged.
Print Assumptions C12_history_refines.
Print Assumptions C12_observations.
Print Assumptions C12_spec_wellformed.
Print Assumptions C12_ids_stable.
