(* C01 - single-extension answers are genuine extensions of the framework.
   Statements only; proofs are [exact].
   PROVED (every valid SAT oracle, every threshold >= 1, every admissible encoder, every good view
   of a framework of any size, every fuel):
     - C01_single_extension: for EVERY solver type with a single-extension entry point (GR, ST,
       PR, SST, STG, ID) a completed run of [run_query .. QSE ..] returns a duplicate-free list of
       arguments of F that is an extension of the WHOLE framework F under the semantics; "no
       extension" is answered only by the stable solver and only when F has no stable extension;
       the run never panics.  This includes the split into connected components, the gluing, the
       grounded fix-point and the MaximalExtensionComputer loops.
     - C01_good_view_compact / C01_good_view_store: the premise [view_good] holds for the views the
       solvers are actually run on.
     - C01_good_view_iccma: it also holds for the store the ICCMA reader path (and the
       correspondence driver, driver/d_static.ml:build_fw) builds: n distinct labels, then one
       [new_attack_by_ids] per attack line over ids < n, REPEATED LINES AND SELF-ATTACKS KEPT (such
       stores are outside [reachable], which has no duplicate attack).  The store denotes exactly
       the compact framework of the lines ([af_of f = compact n lines], same order, same
       multiplicities) and its view is a good view of it, so C01_single_extension and every other
       whole-framework theorem applies to it (Proofs/TopGaps.v: run_query_iccma).
     - C01_stable_component_partial (kept): the per-component step of the stable solver.
   NOT proved in Coq (by design): that the Rust code behaves like Model.Solvers (this is the
   tie: trace replay on every run), and the translation of ids to labels.  Termination and fuel:
   see C18.
   Vocabulary of the whole-framework theorems (Proofs/TopBase.v, TopMax.v, SolverTop.v):
     view_good g F   the view g (iteration orders of an AAFramework) presents the framework F;
                     instances: view_of_af of any compact framework, view_of_fw of any store
                     reachable from new_with_labels by any update history, view_of_fw of any store
                     built by new_attack_by_ids from new_with_labels (C01_good_view_compact,
                     C01_good_view_store, C01_good_view_iccma);
     supported s q   the trait implementation exists (all but CO-SE, CO-DS, PR-DC, for which the
                     library delegates to another solver type and the model has no entry point);
     enc_ok s e      the encoder may be used with the solver type (CO, SST: complete-based; STG:
                     conflict-free based; PR, ID: complete- or admissible-based; GR, ST: any);
     al_ok s q F al  nothing for SE queries and for GR / ST; otherwise the listed ids are arguments
                     of F (the list may be empty and may contain repetitions).
*)
From Crusta Require Import Spec.AF Sat.Cnf Sat.Prog Model.Store Model.Encoders Model.Graph Model.Solvers.
From Crusta Require Import Proofs.EncSpec Proofs.SolverBasics Proofs.SolverThms.
From Crusta Require Import Proofs.TopBase Proofs.TopMax Proofs.SolverTop.
From Crusta Require Proofs.GroundedProofs Proofs.TopGaps.
From Crusta Require Proofs.Clauses.

Theorem C01_stable_component_partial : forall oracle thr, 1 <= thr -> valid_oracle oracle ->
  forall c n, compact_af (c_af c) n ->
  on_done (st_cc oracle thr c [] false)
    (fun r => match r with
              | Some (m, _) => st (c_af c) (assignment_to_extension n StDefault m)
              | None => forall S, ~ st (c_af c) S
              end).
Proof. exact SolverThms.stable_component_se. Qed.

Theorem C01_single_extension : forall oracle thr g F,
  valid_oracle oracle -> 1 <= thr -> view_good g F ->
  forall s e al fuel cert st0, supported s QSE -> enc_ok s e ->
  match run_query oracle thr fuel s QSE cert e g al st0 with
  | Done (OExt (Some L)) _ => ext s F L /\ NoDup L /\ incl L (args F)
  | Done (OExt None) _ => s = ST /\ forall S, ~ ext s F S
  | Done (OAcc _ _) _ => False
  | Panic _ => False
  | _ => True
  end.
Proof. exact SolverTop.top_single_extension. Qed.

Theorem C01_good_view_compact : forall F n, compact_af F n -> view_good (view_of_af F) F.
Proof. exact TopBase.view_good_compact. Qed.

Theorem C01_good_view_store : forall L (leqb : L -> L -> bool),
  (forall x y, leqb x y = true <-> x = y) ->
  forall f : fw L, GroundedProofs.reachable L leqb f ->
  view_good (view_of_fw f) (GroundedProofs.af_of L f).
Proof. exact TopBase.view_good_store. Qed.

Theorem C01_good_view_iccma : forall L (leqb : L -> L -> bool),
  (forall x y, leqb x y = true <-> x = y) ->
  forall (labels : list L) (lines : list (nat * nat)),
  NoDup labels -> atts_ok (length labels) lines ->
  let f := fold_left (fun f p => fst (new_attack_by_ids L f (fst p) (snd p))) lines
                     (fw_new_with_labels L leqb labels) in
  let F := compact (length labels) lines in
  compact_af F (length labels) /\ GroundedProofs.af_of L f = F /\ view_good (view_of_fw f) F.
Proof. exact TopGaps.iccma_store_good. Qed.

(* ---- the remaining sentences of the property text, one by one (Proofs/Clauses.v) ---- *)

(* "... and otherwise an extension is always returned": for every semantics but ST a completed
   single-extension run returns a set (an extension), never 'no extension' *)
Theorem C01_extension_always_returned : forall oracle thr g F,
  valid_oracle oracle -> 1 <= thr -> view_good g F ->
  forall s e al fuel cert st0, supported s QSE -> enc_ok s e -> s <> ST ->
  match run_query oracle thr fuel s QSE cert e g al st0 with
  | Done (OExt (Some L)) _ => ext s F L
  | Done _ _ => False
  | Panic _ => False
  | _ => True
  end.
Proof. exact Clauses.se_always_returned. Qed.

(* "'No extension' is reported only when the framework has none (which can only happen for ST)":
   the stable solver answers 'no extension' EXACTLY when F has no stable extension *)
Theorem C01_no_extension_iff_none : forall oracle thr g F,
  valid_oracle oracle -> 1 <= thr -> view_good g F ->
  forall e al fuel cert st0 r t,
  run_query oracle thr fuel ST QSE cert e g al st0 = Done (OExt r) t ->
  (r = None <-> forall S, ~ st F S).
Proof. exact Clauses.se_none_iff_no_stable. Qed.

(* "for GR and ID the unique extension is returned": a completed run returns an extension L, and
   EVERY extension of F under the semantics has exactly the members of L *)
Theorem C01_unique_extension_returned : forall oracle thr g F,
  valid_oracle oracle -> 1 <= thr -> view_good g F ->
  forall s e al fuel cert st0 o t, s = GR \/ s = ID -> enc_ok s e ->
  run_query oracle thr fuel s QSE cert e g al st0 = Done o t ->
  exists L, o = OExt (Some L) /\ ext s F L /\ NoDup L /\ incl L (args F) /\
            forall S, ext s F S -> forall a, In a S <-> In a L.
Proof. exact Clauses.se_unique_returned. Qed.

(* "each of the seven semantics": CO-SE has no solver of its own (supported excludes it): the
   library answers it with the grounded solver, whose answer is a complete extension *)
Theorem C01_complete_via_grounded : forall oracle thr g F,
  valid_oracle oracle -> 1 <= thr -> view_good g F ->
  forall e al fuel cert st0 o t,
  run_query oracle thr fuel GR QSE cert e g al st0 = Done o t ->
  exists L, o = OExt (Some L) /\ co F L /\ NoDup L /\ incl L (args F).
Proof. exact Clauses.se_grounded_is_complete. Qed.

Print Assumptions C01_stable_component_partial.
Print Assumptions C01_single_extension.
Print Assumptions C01_good_view_compact.
Print Assumptions C01_good_view_store.
Print Assumptions C01_good_view_iccma.
Print Assumptions C01_extension_always_returned.
Print Assumptions C01_no_extension_iff_none.
Print Assumptions C01_unique_extension_returned.
Print Assumptions C01_complete_via_grounded.
