(* C01 - single-extension answers are genuine extensions of the framework.
   Statements only; proofs are [exact].
   PROVED so far (for every valid SAT oracle, every compact component of any size):
     - ST: the per-component step of StableSemanticsSolver returns a stable extension of the
       component, and reports none only when the component has none.
   NOT YET PROVED in Coq (covered on every run by the trace replay + brute-force oracle only):
     the gluing of components into an extension of the whole framework, the grounded fix-point
     (GR), and the MaximalExtensionComputer loops behind PR / SST / STG / ID. *)
From Crusta Require Import Spec.AF Sat.Cnf Sat.Prog Model.Encoders Model.Graph Model.Solvers.
From Crusta Require Import Proofs.EncSpec Proofs.SolverBasics Proofs.SolverThms.

Theorem C01_stable_component_partial : forall oracle thr, 1 <= thr -> valid_oracle oracle ->
  forall c n, compact_af (c_af c) n ->
  on_done (st_cc oracle thr c [] false)
    (fun r => match r with
              | Some (m, _) => st (c_af c) (assignment_to_extension n StDefault m)
              | None => forall S, ~ st (c_af c) S
              end).
Proof. exact SolverThms.stable_component_se. Qed.

Print Assumptions C01_stable_component_partial.
