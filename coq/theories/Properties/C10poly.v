(* C10poly - the POLYNOMIAL CNF ORACLE of the check of C10 (checks/C10.py: [_propagate], [cnf_poly_verdict])
   is sound.  Statements only; proofs are [exact] (Proofs/PolyCnf.v; definitions Proofs/PolyCnfDefs.v).

   On frameworks that are too large for the all-models oracle, the check judges the CNF recorded from the
   real encoders like this: fix the argument variables (and the range variables) to a set S whose
   status is known from theory, run unit propagation on the clauses, read `conflict` as "S is not
   (the projection of) a model" and `model` as "S is (the projection of) a model".  The theorems
   below hold for CNFs, assignments and frameworks of ANY size.

   Vocabulary
     passign             a partial assignment, the python dict {var: bool}: a list of (variable, value),
                         the first binding of a variable counts; [pa_get a v] is `a.get(v)`
     val                 a total valuation nat -> bool (Sat/Cnf.v); [vmodels m cls = true]: m satisfies
                         every clause of cls ([vtrue m l]: m (|l|) = (l > 0))
     pa_ext m a          the total valuation m extends a: pa_get a v = Some b -> m v = b
     up_sweep cls a ch   one `for cl in clauses` sweep of `_propagate`: a clause with a literal true under a
                         is skipped, a clause without unbound literal is a conflict ([None]), a clause with
                         exactly one unbound literal binds its variable at once; the flag is `changed`
     up_loop k cls a     at most k sweeps, stopping at the first sweep that changes nothing ([None]: conflict;
                         otherwise the assignment reached and whether such a sweep was reached)
     up_run_fuel k cls a `_propagate` with at most k sweeps: UpConflict; UpModel when every clause has a
                         literal true under the assignment reached; UpOpen otherwise
     up_fuel cls         1 + the number of literal occurrences of cls;  up_run = up_run_fuel (up_fuel cls)
     enc_clauses e thr range F   the CNF encoder e of Model.Encoders produces for F (Proofs/EncSpec.v, as in
                         Properties/C10.v: threshold thr of the hybrid encoder, with / without range
                         variables); compact_af F n: the arguments of F are 0..n-1
     induced e n range F S   python `run(S)`: the argument variable [arg_var e i] of every i < n is bound to
                         "i is in S", and with range = true the range variable [range_var e n i] to
                         "i is in S or attacked by a member of S" ([in_rangeb F S i])
     intended            the family the encoder is meant to capture (conflict-free / admissible /
                         complete / stable sets of F, Spec/AF.v), spelled out per encoder as in C10.v
     lfp F               the grounded extension G (Spec/Theory.v);  att F b x: b attacks x
     g_stableb F         boolean: every argument is in G or attacked by a member of G (python `g_stable`;
                         = true iff G is a stable extension, Proofs/PolyOracle.v g_stableb_spec)

   NOT proved here: that the clauses recorded from the Rust encoders are [enc_clauses] (that is the
   correspondence part of the check) and that the python functions are [up_run] / [induced] (the
   Coq functions are executable; they could be compared by running both). *)
From Crusta Require Import Spec.AF Spec.Theory Sat.Cnf Model.Encoders.
From Crusta Require Import Proofs.EncSpec Proofs.PolyOracleDefs Proofs.PolyCnfDefs Proofs.PolyCnf.
From Coq Require Import List Bool ZArith Lia.
Import ListNotations.

(* P1: the two verdicts of the propagation are right, whatever the number of sweeps allowed: after a
   conflict no total valuation that extends the given partial assignment satisfies the clauses;
   after `model` some total valuation that extends it does (the propagated assignment, unbound
   variables false) *)
Theorem C10_poly_propagation_sound : forall (cls : cnf) (a : passign),
  (forall k, up_run_fuel k cls a = UpConflict -> forall m : val, pa_ext m a -> vmodels m cls = false) /\
  (forall k, up_run_fuel k cls a = UpModel -> exists m : val, pa_ext m a /\ vmodels m cls = true) /\
  (up_run cls a = UpConflict -> forall m : val, pa_ext m a -> vmodels m cls = false) /\
  (up_run cls a = UpModel -> exists m : val, pa_ext m a /\ vmodels m cls = true).
Proof. exact PolyCnf.poly_propagation_sound. Qed.

(* ... more precisely: after `model` the assignment reached keeps every binding of the given one, is
   implied by it and the clauses (every total model above a is above it), and EVERY total valuation
   above it is a model *)
Theorem C10_poly_model_verdict : forall k (cls : cnf) (a : passign), up_run_fuel k cls a = UpModel ->
  exists a' : passign,
    (forall v b, pa_get a v = Some b -> pa_get a' v = Some b) /\
    (forall m : val, pa_ext m a' -> vmodels m cls = true) /\
    (forall m : val, pa_ext m a -> vmodels m cls = true -> pa_ext m a').
Proof. exact PolyCnf.up_model_sound_strong. Qed.

(* the fuel of [up_run] is enough, i.e. [up_run] ends as the python `while changed` loop does: by a conflict, or at
   an assignment that one more sweep leaves unchanged; allowing more sweeps changes nothing *)
Theorem C10_poly_fuel_enough : forall (cls : cnf) (a : passign),
  (up_loop (up_fuel cls) cls a = None \/
   exists a', up_loop (up_fuel cls) cls a = Some (a', true) /\ up_sweep cls a' false = Some (a', false)) /\
  (forall k, up_fuel cls <= k -> up_loop k cls a = up_loop (up_fuel cls) cls a /\
                                 up_run_fuel k cls a = up_run cls a).
Proof. exact PolyCnf.up_fuel_enough. Qed.

(* P2, first reading: an intended set of the encoder is never refuted - for every encoder, with
   and without range variables, every compact framework *)
Theorem C10_poly_intended_not_conflict : forall e thr range F n C S,
  1 <= thr -> compact_af F n -> enc_clauses e thr range F = Some C ->
  let intended := match e with
                  | AuxCf | ExpCf => cfs | AuxAdm => adm | AuxCo | ExpCo | HybCo => co | StDefault => st
                  end in
  intended F S ->
  up_run C (induced e n range F S) <> UpConflict /\
  forall k, up_run_fuel k C (induced e n range F S) <> UpConflict.
Proof. exact PolyCnf.poly_intended_not_conflict_stmt. Qed.

(* second reading: a set of arguments that is not intended is never declared a model (and a set
   declared a model is intended) *)
Theorem C10_poly_unintended_not_model : forall e thr range F n C S,
  1 <= thr -> compact_af F n -> enc_clauses e thr range F = Some C ->
  incl S (args F) ->
  let intended := match e with
                  | AuxCf | ExpCf => cfs | AuxAdm => adm | AuxCo | ExpCo | HybCo => co | StDefault => st
                  end in
  (up_run C (induced e n range F S) = UpModel -> intended F S) /\
  (~ intended F S -> up_run C (induced e n range F S) <> UpModel) /\
  (forall k, up_run_fuel k C (induced e n range F S) = UpModel -> intended F S).
Proof. exact PolyCnf.poly_unintended_not_model_stmt. Qed.

(* the sets `cnf_poly_verdict` tries, G the grounded extension:
     - run(G) is not `conflict` for the cf / adm / co encoders, and for the stable one when G is stable;
       it is not `model` for the stable encoder when G is not stable;
     - run(G + x) is not `model` when a member of G attacks x, whatever the encoder;
     - for the complete encoders run({}) is not `model` when G is not empty (python `if G`), i.e. when some
       argument is unattacked, and not `conflict` when G is empty *)
Theorem C10_poly_oracle_sets : forall e thr range F n C,
  1 <= thr -> compact_af F n -> enc_clauses e thr range F = Some C ->
  (e <> StDefault \/ g_stableb F = true ->
     up_run C (induced e n range F (lfp F)) <> UpConflict) /\
  (e = StDefault -> g_stableb F = false ->
     up_run C (induced e n range F (lfp F)) <> UpModel) /\
  (forall x b, In b (lfp F) -> att F b x ->
     up_run C (induced e n range F (x :: lfp F)) <> UpModel) /\
  (e = AuxCo \/ e = ExpCo \/ e = HybCo ->
     (lfp F <> [] -> up_run C (induced e n range F []) <> UpModel) /\
     ((exists a, In a (args F) /\ forall b, ~ att F b a) ->
        up_run C (induced e n range F []) <> UpModel) /\
     (lfp F = [] -> up_run C (induced e n range F []) <> UpConflict)).
Proof. exact PolyCnf.poly_oracle_sets_stmt. Qed.

(* ------------------------------------------------------------------ *)
(* Examples *)

(* the propagation alone: the unit clause comes last, so each sweep binds one more variable
   (1, then 2, then 3) and the fourth changes nothing; the three verdicts; in the last line only two
   sweeps are allowed, 3 is not bound yet and the verdict is the cautious `open` *)
Example C10_poly_example_propagation :
  up_loop 10 [[-2; 3]; [-1; 2]; [1]]%Z [] = Some ([(3, true); (2, true); (1, true)], true) /\
  up_run [[-2; 3]; [-1; 2]; [1]]%Z [] = UpModel /\
  up_run [[-3]; [-2; 3]; [-1; 2]; [1]]%Z [] = UpConflict /\
  up_run [[-2; 3; 4]; [-1; 2]; [1]]%Z [] = UpOpen /\
  up_run [[-2; 3; 4]; [-1; 2]; [1]]%Z [(3, false); (4, false)] = UpConflict /\
  up_run_fuel 2 [[-2; 3]; [-1; 2]; [1]]%Z [] = UpOpen.
Proof. repeat split; vm_compute; reflexivity. Qed.

(* 0 -> 1 -> 2 <-> 3: G = {0} is complete and not stable, 1 is defeated by G, 0 is unattacked.
   With the aux_var complete encoder and range variables (12 variables, 32 clauses): the
   hypotheses of the theorems hold; G and the complete extension {0, 2} give `model`; G + 1, the
   empty set (0 is unattacked) and {2} (not admissible) give `conflict`;
   with the stable encoder G gives `conflict` and the stable extension {0, 3} gives `model`;
   the assignment induced by {0} for the exp encoder with range variables (range of {0} = {0, 1}). *)
Definition ex_poly10 : af := compact 4 [(0,1); (1,2); (2,3); (3,2)].

Example C10_poly_example_encoder :
  compact_af ex_poly10 4 /\ lfp ex_poly10 = [0] /\ g_stableb ex_poly10 = false /\
  (In 0 (lfp ex_poly10) /\ att ex_poly10 0 1) /\
  (exists C, enc_clauses AuxCo 2 true ex_poly10 = Some C /\ length C = 32 /\ cnf_max C = 12 /\
     map (fun S => up_run C (induced AuxCo 4 true ex_poly10 S)) [[0]; [0; 2]; [1; 0]; []; [2]] =
       [UpModel; UpModel; UpConflict; UpConflict; UpConflict]) /\
  (exists C, enc_clauses StDefault 2 false ex_poly10 = Some C /\
     map (fun S => up_run C (induced StDefault 4 false ex_poly10 S)) [[0]; [0; 3]; [1; 0]] =
       [UpConflict; UpModel; UpConflict]) /\
  induced ExpCo 4 true ex_poly10 [0] =
    [(1, true); (2, false); (3, false); (4, false); (5, true); (6, true); (7, false); (8, false)].
Proof.
  split; [split; [reflexivity|intros a b H; vm_compute in H; repeat (destruct H as [H|H]; [injection H as <- <-; lia|]); destruct H]|].
  split; [vm_compute; reflexivity|].
  split; [vm_compute; reflexivity|].
  split; [split; [vm_compute; tauto|vm_compute; tauto]|].
  split; [eexists; split; [vm_compute; reflexivity|split; [|split]; vm_compute; reflexivity]|].
  split; [eexists; split; [vm_compute; reflexivity|vm_compute; reflexivity]|].
  vm_compute; reflexivity.
Qed.

Print Assumptions C10_poly_propagation_sound.
Print Assumptions C10_poly_model_verdict.
Print Assumptions C10_poly_fuel_enough.
Print Assumptions C10_poly_intended_not_conflict.
Print Assumptions C10_poly_unintended_not_model.
Print Assumptions C10_poly_oracle_sets.
