(* C17 - a failing SAT backend never turns into an answer.
   Statements only; proofs are [exact].  Model level: every static-solver entry point of
   Model.Solvers (through [run_query]), every framework view, argument list, encoder, fuel,
   n_vars discipline and EVERY oracle (i.e. every sequence of answers, valid or not). *)
From Crusta Require Import Sat.Cnf Sat.Prog Model.Solvers Proofs.AbortProofs.

(* If the run ends in Abort, its most recent SAT event is an Unknown answer and no earlier answer
   was Unknown; if it ends in any other way (an outcome, a panic, fuel exhaustion) no answer it
   consumed was Unknown.  Hence an Unknown answer is never converted into a status, an extension
   or a certificate: the only result type carrying those is [Done]. *)
Theorem C17_unknown_aborts : forall oracle thr d fuel s q cert e g al,
  match run d (run_query oracle thr fuel s q cert e g al) with
  | Abort st' => aborted_log (rlog st')
  | Done _ st' | Panic st' | OutOfFuel st' => no_unknown (rlog st')
  end.
Proof. exact AbortProofs.unknown_aborts. Qed.

(* Replay form: with a recorded answer script, a log containing an Unknown answer is the log of
   an aborted run. *)
Theorem C17_script_unknown_aborts : forall script thr d fuel s q cert e g al r,
  r = run d (run_query (script_oracle script) thr fuel s q cert e g al) ->
  (exists k a, In (k, ESolve a Unknown) (log_of r)) ->
  exists st', r = Abort st'.
Proof. exact AbortProofs.script_unknown_aborts. Qed.

Print Assumptions C17_unknown_aborts.
Print Assumptions C17_script_unknown_aborts.
