(* C17 - a failing SAT backend never turns into an answer.
   Statements only; proofs are [exact].  Model level: every static-solver entry point of
   Model.Solvers (through [run_query]), every framework view, argument list, encoder, fuel,
   n_vars discipline and EVERY oracle (i.e. every sequence of answers, valid or not). *)
From Crusta Require Import Sat.Cnf Sat.Prog Model.Store Model.Solvers Model.Dynamic Proofs.AbortProofs Proofs.AbortDyn.
From Crusta Require Model.SatObjects Model.SatSpec Model.Cli Proofs.CliProofs Proofs.Clauses2.
Import ListNotations.

(* If the run ends in Abort, its most recent SAT event is an Unknown answer and no earlier answer
   was Unknown; if it ends in any other way (an outcome, a panic, fuel exhaustion) no answer it
   consumed was Unknown.  Hence an Unknown answer is never converted into a status, an extension
   or a certificate: the only result type carrying those is [Done]. *)
Theorem C17_unknown_aborts : forall oracle thr d fuel s q cert e g al,
  match run d (run_query oracle thr fuel s q cert e g al) with
  | Abort st' => aborted_log (rlog st')
  | Done _ st' | Panic st' | OutOfFuel st' => no_unknown (rlog st')
  end.
Proof. exact AbortProofs.unknown_aborts. Qed.

(* Replay form: with a recorded answer script, a log containing an Unknown answer is the log of
   an aborted run. *)
Theorem C17_script_unknown_aborts : forall script thr d fuel s q cert e g al r,
  r = run d (run_query (script_oracle script) thr fuel s q cert e g al) ->
  (exists k a, In (k, ESolve a Unknown) (log_of r)) ->
  exists st', r = Abort st'.
Proof. exact AbortProofs.script_unknown_aborts. Qed.

(* ---- the dynamic solvers (Model/Dynamic.v: all six kinds, through [dyn_query]) --------------
   A dynamic solver keeps its SAT session across queries, so a query starts in an arbitrary program
   state [ps] whose log [rlog ps] (most recent event first) already holds the events of everything
   done before.  The statements therefore speak about [new], the events the query itself logged:
   [rlog ps' = new ++ rlog ps].
     no_unknown new    no event of [new] is a SAT answer Unknown;
     aborted_log new   [new = (k, ESolve a Unknown) :: r] with [no_unknown r]: the most recent
                       event is an Unknown answer and it is the only one.
   For EVERY solver state [s] (reachable or not), kind, query, label, certificate flag, fuel,
   threshold, oracle (any answers) and start state: a query that ends in Abort has logged an
   Unknown answer as its last event and none before; a query that ends in any other way (an
   answer, a panic, fuel exhaustion) consumed no Unknown answer.  Only [Done] carries a status or
   a certificate. *)
Theorem C17_dynamic_unknown_aborts :
  forall oracle (L : Type) (leqb : L -> L -> bool) thr fuel (s : dsolver L) q cert l ps,
  match dyn_query oracle L leqb thr fuel s q cert l ps with
  | Abort ps' => exists new, rlog ps' = new ++ rlog ps /\ aborted_log new
  | Done _ ps' | Panic ps' | OutOfFuel ps' => exists new, rlog ps' = new ++ rlog ps /\ no_unknown new
  end.
Proof. exact AbortDyn.dyn_unknown_aborts. Qed.

(* creating a dynamic solver of any kind always returns and consumes no SAT answer *)
Theorem C17_dynamic_new_no_answer : forall (L : Type) (leqb : L -> L -> bool) k ps,
  exists s ps', dyn_new L leqb k ps = Done s ps' /\ calls ps' = calls ps /\
    exists new, rlog ps' = new ++ rlog ps /\ no_unknown new.
Proof. exact AbortDyn.dyn_new_no_answer. Qed.

(* replay form: if the events a dynamic query logged contain an Unknown answer, it was aborted *)
Theorem C17_dynamic_script_unknown_aborts :
  forall script (L : Type) (leqb : L -> L -> bool) thr fuel (s : dsolver L) q cert l ps r,
  r = dyn_query (script_oracle script) L leqb thr fuel s q cert l ps ->
  (exists new k a, rlog (final_st r) = new ++ rlog ps /\ In (k, ESolve a Unknown) new) ->
  exists ps', r = Abort ps'.
Proof. exact AbortDyn.dyn_script_unknown_aborts. Qed.

(* the static entry point again, now from ANY start state (a query put to a solver object after
   other queries), in the same relative form *)
Theorem C17_unknown_aborts_since : forall oracle thr fuel s q cert e g al ps,
  match run_query oracle thr fuel s q cert e g al ps with
  | Abort ps' => exists new, rlog ps' = new ++ rlog ps /\ aborted_log new
  | Done _ ps' | Panic ps' | OutOfFuel ps' => exists new, rlog ps' = new ++ rlog ps /\ no_unknown new
  end.
Proof. exact AbortDyn.run_query_unknown_aborts_since. Qed.

(* Abort is really reachable in the dynamic model, also after answers that were not Unknown: the
   preferred solver on 1 -> 2, skeptical query of 1, first answer a model, second answer Unknown;
   and the recompute wrapper (static stable solver) with a first answer Unknown. *)
Definition c17_ex_solver (k : dkind) : option (dsolver nat * Prog.st) :=
  match dyn_new nat Nat.eqb k (init_st CadicalLike) with
  | Done s ps =>
      Some (fold_left (fun s o => fst (dyn_update nat Nat.eqb s o))
                      [OpNewArg 1; OpNewArg 2; OpNewAtt 1 2] s, ps)
  | _ => None
  end.
Example C17_dynamic_abort_example :
  (match c17_ex_solver KPr with
   | Some (s, ps) =>
       match dyn_query (script_oracle
                          [Sat [None; Some true; Some false; Some false; Some true; Some true; Some true];
                           Unknown]) nat Nat.eqb 1 10 s QDS true 1 ps with
       | Abort ps' => calls ps' = 2
       | _ => False
       end
   | None => False
   end) /\
  (match c17_ex_solver (KDummy ST) with
   | Some (s, ps) =>
       match dyn_query (script_oracle [Unknown]) nat Nat.eqb 1 10 s QDS true 1 ps with
       | Abort ps' => calls ps' = 1
       | _ => False
       end
   | None => False
   end).
Proof. vm_compute. split; reflexivity. Qed.

(* ---- the remaining clauses of the property text *)
(* "(reports unknown, crashes, exits without a verdict, or prints a truncated or garbled reply)": how a
   failing EXTERNAL solver reaches the theorems above.  BufferedSatSolver ([SatObjects.buf_step]) hands
   the instance to the solving function and reads its output [out]: an empty output (crash, exit without
   a verdict) is the answer Unknown; a model is reported only if [out] carries the line `s SATISFIABLE`
   and value lines with their terminating 0, Unsat only if it carries `s UNSATISFIABLE` (so a truncated
   or garbled reply is not a verdict, see also C16_reply_truncated); whatever [out] is, the call yields
   Unknown, a panic of the reader (the query dies: an abort as well), or such a verdict *)
Theorem C17_external_failure_never_a_verdict : forall fn s a,
  let out := fn (SatObjects.buf_instance s a) in
  let ob := snd (SatObjects.buf_step fn s (SatObjects.OSolve a)) in
  (out = [] -> ob = SatObjects.ObsAns Unknown) /\
  (forall m, ob = SatObjects.ObsAns (Sat m) ->
     In Dimacs.b_sat (SatSpec.lines_of out) /\ SatSpec.has_terminator (SatSpec.lines_of out)) /\
  (ob = SatObjects.ObsAns Unsat -> In Dimacs.b_unsat (SatSpec.lines_of out)) /\
  (ob = SatObjects.ObsAns Unknown \/ ob = SatObjects.ObsPanic \/ SatObjects.verdict_of ob <> None).
Proof. exact Clauses2.external_failure_never_a_verdict. Qed.

(* "On the command line this means a non-zero exit status with no answer on stdout" (= C05_unknown_exit_nonzero,
   Proofs/CliProofs.v): if any SAT answer of a run of the command-line tool is Unknown, the result is
   [ExitNonZero] - the result type of the model has stdout bytes only in [Exit0 out] *)
Theorem C17_command_line_nonzero_exit_no_answer : forall oracle thr d fuel o inst k a,
  In (k, ESolve a Unknown) (snd (Cli.run_traced oracle thr d fuel o inst)) ->
  fst (Cli.run_traced oracle thr d fuel o inst) = Cli.ExitNonZero.
Proof. exact CliProofs.unknown_exit_nonzero. Qed.

Print Assumptions C17_unknown_aborts.
Print Assumptions C17_script_unknown_aborts.
Print Assumptions C17_dynamic_unknown_aborts.
Print Assumptions C17_dynamic_new_no_answer.
Print Assumptions C17_dynamic_script_unknown_aborts.
Print Assumptions C17_unknown_aborts_since.
Print Assumptions C17_external_failure_never_a_verdict.
Print Assumptions C17_command_line_nonzero_exit_no_answer.
