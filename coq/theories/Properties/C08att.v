(* C08 / C09 for the two dynamic solvers with ASSUMPTIONS ON ATTACKS (kinds KCoAtt num den and
   KStAtt num den of Model/Dynamic.v; Rust: src/dynamics/assumptions_on_attacks/*.rs).
   Statements only; every proof is [exact] of a lemma of Proofs/DynAtt*.v.  The model is tied to
   /repo on every run by checks/C08.py and checks/C09.py (solver configurations co_att, st_att).

   Vocabulary.
   [reach k s os] (Proofs/DynDefs.v): s is reachable from a fresh solver of kind k by ANY interleaving
   of updates (valid, redundant, invalid; os = all of them) and queries that returned, under ANY answers
   of the SAT solver.  [areach oracle k s ps os] (Proofs/DynAttDefs.v): the same with ONE oracle and the
   SAT program state ps threaded through the whole history (every query runs on the state its
   predecessor left behind).  [valid_oracle] (Proofs/SolverBasics.v): Sat answers satisfy clauses and
   assumptions (possibly as partial assignments), Unsat answers are right, Unknown is always allowed.
   The encoder [aenc] reserves a_n argument slots (variables 1..a_n: live arguments first, then unused
   "dummy" slots that new arguments take over without a re-encoding), a_n*a_n attack variables
   att_v n a b = n + n*(a-1) + b ("the argument of slot b attacks the argument of slot a"), and for the
   complete semantics a_n attacker-disjunction variables disj_v n a = a + n*(1+n); a_next is the next
   unused slot; a_need = a re-encoding (on a new SAT session) is due.
   [att_tables_ok af e] (DynAttDefs.v, a record of eleven readable fields): the tables of e are
   consistent with the framework af: no re-encoding pending; one table entry per id slot; solver_vars
   has 1 + a_n*(1+a_n) (+ a_n) entries; n_arguments < a_next <= a_n + 1; the variable of an argument lies
   in 1..a_next-1 and is typed VArg id (hence variables are pairwise distinct), its disjunction variable
   is typed VDisj id, the attack variables are typed VAttack; EXACTLY the live arguments have a
   variable; no other entry of solver_vars is typed as an argument.
   [att_initial af e]: no query has returned yet (e is the constructor's encoder, af is empty).
   [factor_ok k]: the slot factor num/den is at least 1 (0 < den <= num).
   [att_st_cnf n], [att_co_cnf n] (DynAttDefs.v): the clause lists a re-encoding for n slots emits, as
   pure functions of n (auxiliary variables numbered upwards from the reserved block).

   (1) TABLE INVARIANT over every history, any SAT answers;
   (2) assumptions(af) never fails and stays inside the n*n attack variables;
   (3) C09 "the solver stays usable": no supported query on an argument of the current framework
       panics, after ANY history, whatever the SAT solver answers - given factor_ok, which is necessary;
   (4) ENCODING: a re-encoding leaves exactly att_cnf in a new session; under assumptions that fix the
       attack variables to the current attacks, the models of att_st_cnf / att_co_cnf restricted to the
       variables of the live arguments are exactly the stable / complete extensions (sound for every
       valuation, complete by an explicit model); slots no live argument holds are forced IN;
   (5) C08/C09 FUNCTIONAL THEOREM: with a valid oracle, after any history, every answer of dyn_query -
       computed or served from the cache - has the status the semantics dictate for the framework as
       it stands (af_of (run_ops fresh os): the specification store of C12 without the rejected or
       redundant operations, cf. C09_update_results), and carries a certificate exactly when promised:
       a duplicate-free extension of live arguments containing (DC) / omitting (DS) the argument.
       Hence statuses do not depend on the history, the cache, retired slots or the oracle. *)
From Crusta Require Import Model.Dynamic Proofs.DynDefs Proofs.DynAttDefs Proofs.DynAttTables Proofs.DynAttSafe.
From Crusta Require Import Proofs.StoreProofs Proofs.GroundedProofs Proofs.SolverBasics Proofs.SolverWholeEx
  Proofs.DynAttEnc Proofs.DynAttFun.

Section C08att.
Variable L : Type.
Variable leqb : L -> L -> bool.
Hypothesis leqb_spec : forall x y, leqb x y = true <-> x = y.

Notation reach := (reach L leqb).
Notation areach := (areach L leqb).
Notation fresh := (fresh_fw L leqb).
Notation run_ops := (run_ops L leqb).

(* (1) in every reachable state of an attacks solver, between two calls: the encoder is the
   assumptions-on-attacks encoder with the semantics and factor of the kind, and either no query
   has returned yet or its tables are consistent with the solver's own framework *)
Theorem C08_att_tables : forall k s os,
  reach k s os -> att_kind k ->
  exists e, b_enc L (s_buf L s) = XAtt e /\
    a_sem e = kind_sem k /\ a_num e = kind_num k /\ a_den e = kind_den k /\
    (att_initial L leqb (s_af L s) e \/ att_tables_ok L (s_af L s) e).
Proof. exact (DynAttTables.att_tables_reach L leqb leqb_spec). Qed.

(* (1') a query that did not answer from its cache has run update_encoding: the solver's framework is
   the specification store of the whole history and the tables are consistent with it (in particular
   a_need = false, every live argument has a variable, n_arguments <= a_n) *)
Theorem C08_att_query_tables : forall k s os oracle thr fuel q cert l ps ps' s' a,
  reach k s os -> att_kind k ->
  dyn_query oracle L leqb thr fuel s q cert l ps = Done (s', a) ps' ->
  s' = s \/ exists e', b_enc L (s_buf L s') = XAtt e' /\ att_tables_ok L (s_af L s') e' /\
                       s_af L s' = run_ops fresh os.
Proof. exact (DynAttTables.att_query_tables L leqb leqb_spec). Qed.

(* consequences of consistent tables: argument variables lie in 1..a_n and never collide *)
Theorem C08_att_variables_distinct : forall (af : fw L) e i j v,
  att_tables_ok L af e ->
  tbl_var (a_a2v e) i = Some v -> tbl_var (a_a2v e) j = Some v -> i = j.
Proof. exact (DynAttTables.tables_inj L). Qed.
Theorem C08_att_variables_range : forall (af : fw L) e id v,
  att_tables_ok L af e -> tbl_var (a_a2v e) id = Some v -> 1 <= v /\ v <= a_n e.
Proof. exact (DynAttTables.tables_var_le L). Qed.

(* (2) assumptions(af): on consistent tables and a well-formed store (StoreProofs.Inv, the
   representation invariant of C12, which holds of every reachable store) the index computation
   succeeds for every attack, every index is below a_n*a_n (the assignment into the assumption
   vector is in bounds), and the result fixes each of the a_n*a_n attack variables: positively
   the computed indices, negatively all others *)
Theorem C08_att_assumptions_defined : forall (af : fw L) e,
  Inv L af -> att_tables_ok L af e ->
  exists idx, att_indices e (iter_attacks L af) = Some idx /\
    (forall i, In i idx -> i < a_n e * a_n e) /\
    att_assumptions L af e =
      Some (map (fun i => if memb i idx then zlit (1 + i + a_n e) else znlit (1 + a_n e + i))
                (seq 0 (a_n e * a_n e))).
Proof. exact (DynAttTables.att_assumptions_some L). Qed.

(* (3) C09: the solver stays usable *)
Theorem C09_att_query_never_panics : forall k s os oracle thr fuel q cert l id ps,
  reach k s os -> att_kind k -> factor_ok k -> att_supported k q ->
  get_argument L leqb (run_ops fresh os) l = Some id ->
  match dyn_query oracle L leqb thr fuel s q cert l ps with Panic _ => False | _ => True end.
Proof. exact (DynAttSafe.att_query_never_panics L leqb leqb_spec). Qed.

(* (4a) a due re-encoding that returns has opened a new SAT session holding exactly att_cnf for
   n = floor(n_arguments * num / den) slots (clauses in emission order), and is no longer due *)
Theorem C08_att_reencoding_session : forall (af : fw L) e s e' s',
  a_need e = true -> att_update_encoding L af e s = Done e' s' ->
  rev (rclauses (sess s')) = att_cnf (a_sem e') (a_n e') /\ a_need e' = false /\
  a_n e' = n_arguments L af * a_num e / a_den e.
Proof. exact (DynAttFun.att_update_encoding_session L). Qed.

(* (5) the functional theorem.  [kind_spec_sem k] is CO for KCoAtt, ST for KStAtt; for q = QDC the status
   is credulous acceptance and a certificate is an extension CONTAINING the argument; for q = QDS
   (stable solver) skeptical acceptance and a certificate is an extension OMITTING it *)
Theorem C08_att_answers : forall oracle k s ps os thr fuel q cert l id s' b c ps',
  valid_oracle oracle -> areach oracle k s ps os -> att_kind k ->
  get_argument L leqb (run_ops fresh os) l = Some id ->
  dyn_query oracle L leqb thr fuel s q cert l ps = Done (s', (b, c)) ps' ->
  let F := af_of L (run_ops fresh os) in
  let sm := kind_spec_sem k in
  (b = true <-> if query_pol q then cred sm F [id] else skep sm F [id]) /\
  match c with
  | Some X => cert = true /\ b = query_pol q /\ ext sm F X /\ NoDup X /\ incl X (args F) /\
              (if query_pol q then exists a, In a [id] /\ In a X else forall a, In a [id] -> ~ In a X)
  | None => cert = true -> b = negb (query_pol q)
  end.
Proof.
  exact (fun oracle k s ps os thr fuel q cert l id s' b c ps' =>
           DynAttFun.att_query_correct L leqb leqb_spec oracle k s ps os thr fuel q cert l id s' (b, c) ps').
Qed.

(* C09 "the solver stays usable and all later answers are those of the framework without the rejected
   or redundant operation": with an admissible factor a supported query never panics, and when it
   returns (it may only abort on an Unknown answer otherwise) the answer is as in (5) and the new
   state is reachable again *)
Theorem C09_att_usable_and_correct : forall oracle k s ps os thr fuel q cert l id,
  valid_oracle oracle -> areach oracle k s ps os -> att_kind k -> factor_ok k -> att_supported k q ->
  get_argument L leqb (run_ops fresh os) l = Some id ->
  match dyn_query oracle L leqb thr fuel s q cert l ps with
  | Done (s', a) ps' =>
      TopMax.acc_spec (kind_spec_sem k) (query_pol q) cert (af_of L (run_ops fresh os)) [id] a /\
      areach oracle k s' ps' os
  | Panic _ => False
  | _ => True
  end.
Proof. exact (DynAttFun.att_query_total L leqb leqb_spec). Qed.

(* "earlier queries, cached results and retired SAT variables never influence a later answer": two runs
   - any two valid oracles, histories, caches, certificate flags - asking the same kind of question about
   the same argument of the same framework report the same status *)
Theorem C08_att_status_history_independent :
  forall o1 o2 k s1 s2 ps1 ps2 os1 os2 thr1 thr2 fuel1 fuel2 q c1 c2 l1 l2 id s1' s2' b1 b2 x1 x2 ps1' ps2',
  valid_oracle o1 -> valid_oracle o2 -> att_kind k ->
  areach o1 k s1 ps1 os1 -> areach o2 k s2 ps2 os2 ->
  af_of L (run_ops fresh os1) = af_of L (run_ops fresh os2) ->
  get_argument L leqb (run_ops fresh os1) l1 = Some id -> get_argument L leqb (run_ops fresh os2) l2 = Some id ->
  dyn_query o1 L leqb thr1 fuel1 s1 q c1 l1 ps1 = Done (s1', (b1, x1)) ps1' ->
  dyn_query o2 L leqb thr2 fuel2 s2 q c2 l2 ps2 = Done (s2', (b2, x2)) ps2' ->
  b1 = b2.
Proof. exact (DynAttFun.att_status_history_independent L leqb leqb_spec). Qed.

End C08att.

(* (2') what att_indices computes, when it succeeds: for every attack the index
   (variable of the attacked - 1) * a_n + variable of the attacker - 1, in iteration order
   ([avd e id] = the variable the table holds for id) *)
Theorem C08_att_indices_meaning : forall e (atts : list (nat * nat)) idx,
  att_indices e atts = Some idx ->
  idx = map (fun p => att_index (a_n e) (avd e (snd p)) (avd e (fst p))) atts.
Proof. exact DynAttFun.att_indices_idx. Qed.

(* (4b) the clauses are a correct encoding.  n slots; ids = the live arguments; atts = the attacks
   (attacker, attacked); av = the slot (= variable) of an argument, injective into 1..n; the
   assumptions fix attack variable (a, b) to "the argument of slot b attacks the argument of slot a" *)
Section C08attEncoding.
Variable n : nat.
Variable ids : list nat.
Variable atts : list (nat * nat).
Variable av : nat -> nat.
Hypothesis av_range : forall a, In a ids -> 1 <= av a <= n.
Hypothesis av_inj : forall a b, In a ids -> In b ids -> av a = av b -> a = b.
Hypothesis atts_live : forall a b, In (a, b) atts -> In a ids /\ In b ids.

Let F : af := {| args := ids; AF.atts := atts |}.
Let attacks_assumed (m : val) : Prop :=
  forall a b, 1 <= a <= n -> 1 <= b <= n ->
    m (att_v n a b) = existsb (fun p => Nat.eqb (av (snd p)) a && Nat.eqb (av (fst p)) b) atts.

(* soundness, for EVERY valuation of the clauses (auxiliary and dummy variables included) *)
Theorem C08_att_stable_sound : forall m : val,
  vmodels m (att_st_cnf n) = true -> attacks_assumed m -> st F (filter (fun a => m (av a)) ids).
Proof. exact (DynAttEnc.att_st_sound n ids atts av av_range av_inj atts_live). Qed.
Theorem C08_att_complete_sound : forall m : val,
  vmodels m (att_co_cnf n) = true -> attacks_assumed m -> co F (filter (fun a => m (av a)) ids).
Proof. exact (DynAttEnc.att_co_sound n ids atts av av_range av_inj atts_live). Qed.

(* completeness: every extension is the restriction of a model (the explicit canonical one), in which
   moreover every slot no live argument holds is true - so the unit clauses of removed arguments hold *)
Theorem C08_att_stable_complete : forall X, st F X ->
  exists m : val, vmodels m (att_st_cnf n) = true /\ attacks_assumed m /\
    (forall a, In a ids -> (m (av a) = true <-> In a X)) /\
    (forall v, 1 <= v <= n -> (forall a, In a ids -> av a <> v) -> m v = true).
Proof.
  exact (fun X H => ex_intro _ _ (DynAttEnc.att_st_complete n ids atts av av_range av_inj atts_live X H)).
Qed.
Theorem C08_att_complete_complete : forall X, co F X ->
  exists m : val, vmodels m (att_co_cnf n) = true /\ attacks_assumed m /\
    (forall a, In a ids -> (m (av a) = true <-> In a X)) /\
    (forall v, 1 <= v <= n -> (forall a, In a ids -> av a <> v) -> m v = true).
Proof.
  exact (fun X H => ex_intro _ _ (DynAttEnc.att_co_complete n ids atts av av_range av_inj atts_live X H)).
Qed.

(* a slot that no live argument holds (never used, or given up by a removed argument) is forced IN by
   the clauses: it has no attacker; it attacks nobody since its attack variables are assumed false *)
Theorem C08_att_unused_slot_in_stable : forall (m : val) v,
  vmodels m (att_st_cnf n) = true -> attacks_assumed m ->
  1 <= v <= n -> (forall a, In a ids -> av a <> v) -> m v = true.
Proof. exact (DynAttEnc.att_st_unused_in n ids atts av atts_live). Qed.
Theorem C08_att_unused_slot_in_complete : forall (m : val) v,
  vmodels m (att_co_cnf n) = true -> attacks_assumed m ->
  1 <= v <= n -> (forall a, In a ids -> av a <> v) -> m v = true.
Proof. exact (DynAttEnc.att_co_unused_in n ids atts av atts_live). Qed.

(* the assumption vector of att_assumptions (index (av attacked - 1) * n + av attacker - 1 for every
   attack) holds in a valuation iff the valuation fixes the attack variables as above *)
Theorem C08_att_assumption_vector : forall m : val,
  forallb (vtrue m)
    (map (fun i => if memb i (map (fun p => att_index n (av (snd p)) (av (fst p))) atts)
                   then zlit (1 + i + n) else znlit (1 + n + i)) (seq 0 (n * n))) = true
  <-> attacks_assumed m.
Proof. exact (DynAttEnc.att_asm_assumed n ids atts av av_range atts_live). Qed.

End C08attEncoding.

(* ---- the hypotheses are satisfiable by non-trivial instances *)
(* reach: after two arguments, an attack, a redundant and an invalid update and a query (answered
   Unsat), the stable solver with factor 2 has consistent tables for 4 slots, 2 of them handed out *)
Example C08_att_reach_inhabited :
  exists s e, reach nat Nat.eqb (KStAtt 2 1) s
                ((((([] ++ [OpNewArg 7]) ++ [OpNewArg 8]) ++ [OpNewAtt 7 8]) ++ [OpNewArg 7]) ++ [OpRemArg 9]) /\
    b_enc nat (s_buf nat s) = XAtt e /\ a_n e = 4 /\ a_next e = 3 /\ a_a2v e = [Some 1; Some 2] /\
    att_kind (KStAtt 2 1) /\ factor_ok (KStAtt 2 1) /\ att_supported (KStAtt 2 1) QDC.
Proof.
  eexists. eexists. split.
  - eapply reach_query with (oracle := fun _ _ _ => Unsat) (thr := 1) (fuel := 1) (q := QDC) (cert := true) (l := 8)
                            (ps := init_st CadicalLike).
    + eapply reach_update. eapply reach_update. eapply reach_update. eapply reach_update. eapply reach_update.
      eapply reach_new with (ps := init_st CadicalLike). reflexivity.
    + vm_compute. reflexivity.
  - vm_compute. repeat split; auto.
Qed.

(* factor_ok is necessary: with factor 1/2 the re-encoding for one argument reserves 0 slots and the
   first query panics (Rust: usize underflow of n_arg_vars - n_args) *)
Example C09_att_factor_needed :
  exists s, reach nat Nat.eqb (KStAtt 1 2) s ([] ++ [OpNewArg 7]) /\
    exists ps, dyn_query (fun _ _ _ => Unsat) nat Nat.eqb 1 1 s QDC true 7 (init_st CadicalLike) = Panic ps.
Proof.
  eexists. split.
  - eapply reach_update. eapply reach_new with (ps := init_st CadicalLike). reflexivity.
  - eexists. vm_compute. reflexivity.
Qed.

(* the encoding hypotheses: three slots, arguments 4 and 9 in slots 1 and 2, 4 attacks 9 *)
Example C08_att_encoding_hypotheses_satisfiable :
  let av := fun a => match a with 4 => 1 | _ => 2 end in
  (forall a, In a [4; 9] -> 1 <= av a <= 3) /\
  (forall a b, In a [4; 9] -> In b [4; 9] -> av a = av b -> a = b) /\
  (forall a b, In (a, b) [(4, 9)] -> In a [4; 9] /\ In b [4; 9]).
Proof.
  cbv zeta. split; [|split].
  - intros a [<-|[<-|[]]]; cbn; auto.
  - intros a b [<-|[<-|[]]] [<-|[<-|[]]]; cbn; congruence.
  - intros a b [E|[]]. injection E as <- <-. cbn. auto.
Qed.

(* areach with the brute-force oracle (valid: SolverWholeEx.bf_oracle_valid): the stable solver with
   factor 1 after +7, +8, 7->8, a DC query on 8 (NO), a DS query on 7 (YES), the removal of 7 (its slot
   gets the unit clause, no re-encoding) - and THROUGH the theorem, from the run of the next query:
   8 (id 1) is now credulously accepted under stable semantics, with the certificate [1] *)
Definition C08_att_example_history : list (op nat) :=
  ((([] ++ [OpNewArg 7]) ++ [OpNewArg 8]) ++ [OpNewAtt 7 8]) ++ [OpRemArg 7].
Example C08_att_functional_instance :
  let F := af_of nat (run_ops nat Nat.eqb (fresh_fw nat Nat.eqb) C08_att_example_history) in
  cred ST F [1] /\ st F [1].
Proof.
  assert (Heq : forall x y : nat, Nat.eqb x y = true <-> x = y) by (intros x y; apply Nat.eqb_eq).
  assert (R : exists s ps, areach nat Nat.eqb bf_oracle (KStAtt 1 1) s ps C08_att_example_history /\
              exists s' ps', dyn_query bf_oracle nat Nat.eqb 1 1 s QDC true 8 ps = Done (s', (true, Some [1])) ps').
  { eexists. eexists. split.
    - eapply areach_update.
      eapply areach_query with (thr := 1) (fuel := 1) (q := QDS) (cert := true) (l := 7).
      + eapply areach_query with (thr := 1) (fuel := 1) (q := QDC) (cert := true) (l := 8).
        * eapply areach_update. eapply areach_update. eapply areach_update.
          eapply areach_new with (ps0 := init_st CadicalLike). reflexivity.
        * vm_compute. reflexivity.
      + vm_compute. reflexivity.
    - eexists. eexists. vm_compute. reflexivity. }
  destruct R as (s & ps & Hr & s' & ps' & Hq).
  pose proof (C08_att_answers nat Nat.eqb Heq bf_oracle (KStAtt 1 1) s ps C08_att_example_history 1 1 QDC true 8 1
                s' true (Some [1]) ps' bf_oracle_valid Hr I eq_refl Hq) as [H1 H2].
  cbv zeta in H1, H2. cbn [query_pol kind_spec_sem] in H1, H2. split; [apply H1; reflexivity|].
  exact (proj1 (proj2 (proj2 H2))).
Qed.

Print Assumptions C08_att_tables.
Print Assumptions C08_att_query_tables.
Print Assumptions C08_att_variables_distinct.
Print Assumptions C08_att_variables_range.
Print Assumptions C08_att_assumptions_defined.
Print Assumptions C09_att_query_never_panics.
Print Assumptions C08_att_reencoding_session.
Print Assumptions C08_att_answers.
Print Assumptions C09_att_usable_and_correct.
Print Assumptions C08_att_status_history_independent.
Print Assumptions C08_att_indices_meaning.
Print Assumptions C08_att_stable_sound.
Print Assumptions C08_att_complete_sound.
Print Assumptions C08_att_stable_complete.
Print Assumptions C08_att_complete_complete.
Print Assumptions C08_att_unused_slot_in_stable.
Print Assumptions C08_att_unused_slot_in_complete.
Print Assumptions C08_att_assumption_vector.
