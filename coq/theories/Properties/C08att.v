(* C08 / C09 for the two dynamic solvers with ASSUMPTIONS ON ATTACKS (kinds KCoAtt num den and
   KStAtt num den of Model/Dynamic.v; Rust: src/dynamics/assumptions_on_attacks/*.rs).
   Statements only; every proof is [exact] of a lemma of Proofs/DynAtt*.v.  The model is tied to
   /repo on every run by checks/C08.py and checks/C09.py (solver configurations co_att, st_att).

   Vocabulary.  [reach k s os] (Proofs/DynDefs.v): s is reachable from a fresh solver of kind k by ANY
   interleaving of updates (valid, redundant, invalid; os = all of them) and queries that returned,
   under ANY answers of the SAT solver.  The encoder [aenc] reserves a_n argument slots (variables
   1..a_n: live arguments first, then unused "dummy" slots that new arguments take over without a
   re-encoding), a_n*a_n attack variables, and for the complete semantics a_n attacker-disjunction
   variables; a_next is the next unused slot; a_need = a re-encoding (on a new SAT session) is due.
   [att_tables_ok af e] (Proofs/DynAttDefs.v, a record of ten readable fields) says that the tables of
   e are consistent with the framework af: no re-encoding pending; one table entry per id slot;
   solver_vars has 1 + a_n*(1+a_n) (+ a_n) entries; n_arguments < a_next <= a_n + 1; the variable of an
   argument lies in 1..a_next-1 and is typed VArg id (hence variables are pairwise distinct), its
   disjunction variable is typed VDisj id, the attack variables are typed VAttack; EXACTLY the live
   arguments have a variable; no other entry of solver_vars is typed as an argument.
   [att_initial af e]: no query has returned yet (e is the constructor's encoder, af is empty).
   [factor_ok k]: the slot factor num/den is at least 1 (0 < den <= num).

   (1) TABLE INVARIANT over every history, any SAT answers (C08: "retired SAT variables never
       influence a later answer" needs exactly this bookkeeping);
   (2) att_indices / assumptions(af) never fail and stay inside the n*n attack variables;
   (3) C09 "the solver stays usable": no supported query on an argument of the current framework
       panics, after ANY history, whatever the SAT solver answers - given factor_ok;
       factor_ok is necessary: with factor 1/2 the first query panics (example at the end). *)
From Crusta Require Import Model.Dynamic Proofs.DynDefs Proofs.DynAttDefs Proofs.DynAttTables Proofs.DynAttSafe.
From Crusta Require Import Proofs.StoreProofs.

Section C08att.
Variable L : Type.
Variable leqb : L -> L -> bool.
Hypothesis leqb_spec : forall x y, leqb x y = true <-> x = y.

Notation reach := (reach L leqb).
Notation fresh := (fresh_fw L leqb).
Notation run_ops := (run_ops L leqb).

(* (1) in every reachable state of an attacks solver, between two calls: the encoder is the
   assumptions-on-attacks encoder with the semantics and factor of the kind, and either no query
   has returned yet or its tables are consistent with the solver's own framework *)
Theorem C08_att_tables : forall k s os,
  reach k s os -> att_kind k ->
  exists e, b_enc L (s_buf L s) = XAtt e /\
    a_sem e = kind_sem k /\ a_num e = kind_num k /\ a_den e = kind_den k /\
    (att_initial L leqb (s_af L s) e \/ att_tables_ok L (s_af L s) e).
Proof. exact (DynAttTables.att_tables_reach L leqb leqb_spec). Qed.

(* (1') a query that did not answer from its cache has run update_encoding: the solver's framework is
   the specification store of the whole history and the tables are consistent with it (in particular
   a_need = false, every live argument has a variable, n_arguments <= a_n) *)
Theorem C08_att_query_tables : forall k s os oracle thr fuel q cert l ps ps' s' a,
  reach k s os -> att_kind k ->
  dyn_query oracle L leqb thr fuel s q cert l ps = Done (s', a) ps' ->
  s' = s \/ exists e', b_enc L (s_buf L s') = XAtt e' /\ att_tables_ok L (s_af L s') e' /\
                       s_af L s' = run_ops fresh os.
Proof. exact (DynAttTables.att_query_tables L leqb leqb_spec). Qed.

(* consequences of consistent tables: argument variables lie in 1..a_n and never collide *)
Theorem C08_att_variables_distinct : forall (af : fw L) e i j v,
  att_tables_ok L af e ->
  tbl_var (a_a2v e) i = Some v -> tbl_var (a_a2v e) j = Some v -> i = j.
Proof. exact (DynAttTables.tables_inj L). Qed.
Theorem C08_att_variables_range : forall (af : fw L) e id v,
  att_tables_ok L af e -> tbl_var (a_a2v e) id = Some v -> 1 <= v /\ v <= a_n e.
Proof. exact (DynAttTables.tables_var_le L). Qed.

(* (2) assumptions(af): on consistent tables and a well-formed store (StoreProofs.Inv, the
   representation invariant of C12, which holds of every reachable store) the index computation
   succeeds for every attack, every index is below a_n*a_n (the assignment into the assumption
   vector is in bounds), and the result fixes each of the a_n*a_n attack variables: positively
   the computed indices, negatively all others *)
Theorem C08_att_assumptions_defined : forall (af : fw L) e,
  Inv L af -> att_tables_ok L af e ->
  exists idx, att_indices e (iter_attacks L af) = Some idx /\
    (forall i, In i idx -> i < a_n e * a_n e) /\
    att_assumptions L af e =
      Some (map (fun i => if memb i idx then zlit (1 + i + a_n e) else znlit (1 + a_n e + i))
                (seq 0 (a_n e * a_n e))).
Proof. exact (DynAttTables.att_assumptions_some L). Qed.

(* (3) C09: the solver stays usable *)
Theorem C09_att_query_never_panics : forall k s os oracle thr fuel q cert l id ps,
  reach k s os -> att_kind k -> factor_ok k -> att_supported k q ->
  get_argument L leqb (run_ops fresh os) l = Some id ->
  match dyn_query oracle L leqb thr fuel s q cert l ps with Panic _ => False | _ => True end.
Proof. exact (DynAttSafe.att_query_never_panics L leqb leqb_spec). Qed.

End C08att.

(* the hypotheses are satisfiable by a non-trivial instance: after two arguments, an attack, a redundant
   and an invalid update and a query (answered Unsat), the stable solver with factor 2 has consistent
   tables for 4 slots, 2 of them handed out *)
Example C08_att_reach_inhabited :
  exists s e, reach nat Nat.eqb (KStAtt 2 1) s
                ((((([] ++ [OpNewArg 7]) ++ [OpNewArg 8]) ++ [OpNewAtt 7 8]) ++ [OpNewArg 7]) ++ [OpRemArg 9]) /\
    b_enc nat (s_buf nat s) = XAtt e /\ a_n e = 4 /\ a_next e = 3 /\ a_a2v e = [Some 1; Some 2] /\
    att_kind (KStAtt 2 1) /\ factor_ok (KStAtt 2 1) /\ att_supported (KStAtt 2 1) QDC.
Proof.
  eexists. eexists. split.
  - eapply reach_query with (oracle := fun _ _ _ => Unsat) (thr := 1) (fuel := 1) (q := QDC) (cert := true) (l := 8)
                            (ps := init_st CadicalLike).
    + eapply reach_update. eapply reach_update. eapply reach_update. eapply reach_update. eapply reach_update.
      eapply reach_new with (ps := init_st CadicalLike). reflexivity.
    + vm_compute. reflexivity.
  - vm_compute. repeat split; auto.
Qed.

(* factor_ok is necessary: with factor 1/2 the re-encoding for one argument reserves 0 slots and the
   first query panics (Rust: usize underflow of n_arg_vars - n_args) *)
Example C09_att_factor_needed :
  exists s, reach nat Nat.eqb (KStAtt 1 2) s ([] ++ [OpNewArg 7]) /\
    exists ps, dyn_query (fun _ _ _ => Unsat) nat Nat.eqb 1 1 s QDC true 7 (init_st CadicalLike) = Panic ps.
Proof.
  eexists. split.
  - eapply reach_update. eapply reach_new with (ps := init_st CadicalLike). reflexivity.
  - eexists. vm_compute. reflexivity.
Qed.

Print Assumptions C08_att_tables.
Print Assumptions C08_att_query_tables.
Print Assumptions C08_att_variables_distinct.
Print Assumptions C08_att_variables_range.
Print Assumptions C08_att_assumptions_defined.
Print Assumptions C09_att_query_never_panics.
