(* C18 - "for PR and ID no candidate set is ever examined twice", at the level of the EVENT LOG.
   Statements only; every proof is [exact] of a theorem of Proofs/NoTwice.v.

   Properties/C18.v has the call bounds (C18_call_bound: |base| + |PR| + 1 per component for PR,
   2|base| + |PR| + 2 for ID) and the one-step fact behind them
   (C18_sat_answer_is_new_candidate_partial).  This file states the clause itself about what the SAT
   solver was asked and what it answered, as recorded in the log of the model ([rlog], most recent
   event first; [ESolve a r] = one solve call under assumptions a with answer r), for the
   per-component procedures of the static preferred and ideal solvers of Model/Solvers.v:
     pr_max_in_cc   SE-PR on one connected component (also used for the completion of certificates);
     pr_ds_in_cc    DS-PR on the (merged) component of the queried arguments: the counter-example
                    loop, with or without the admissibility shortcut;
     id_ext_for_cc  SE-ID on one component;
     id_cred_for_cc DC-ID / DS-ID on the merged component.
   Each opens its own SAT session, so "the Sat answers of that component's session" are exactly the
   Sat answers among the events [new] the procedure logged: [rlog t = new ++ rlog s].
   Vocabulary (Proofs/NoTwice.v):
     sat_sets n e new         the sets the Sat answers of [new] denote, decoded by the encoder's
                              [assignment_to_extension n e] (the argument variables set to true),
                              most recent first;
     n_unsat new              the number of Unsat answers in [new];
     pairwise_different l     any two entries of l at different positions differ AS SETS
                              ([~ forall a, In a S <-> In a T]);
     sat_answers_ok e F n new (spelled out in C18_log_sat_answers_ok_spelled)
                              every decoded set is a set of the encoder's base family of F
                              (conflict-free / admissible / complete, [enc_base e]), the decoded
                              sets are pairwise different as sets, and there are at most |base| of them
                              ([all_base (enc_base e) F] lists the base sets);
     compact_af F n           F has the arguments 0..n-1 (every component framework has this form);
     pr_enc e                 the encoder is complete- or admissible-based (what PR and ID take).
   So: NO CANDIDATE SET IS RETURNED TWICE by the SAT solver within one computation, hence none is
   examined twice, whatever the (valid) oracle answers, however the run ends (Done, Abort on
   Unknown, OutOfFuel, Panic), from any start state.  The Unsat answers of a preferred computation
   number at most |PR| + 1: each marks a preferred extension of the component reached (the current
   set cannot be extended) or the end of the search.
   The ideal computation has TWO phases on one session: the enumeration of the preferred extensions
   (a preferred computation: [new1]) and - only when their intersection is neither the grounded
   extension nor the single preferred extension - a growth chain inside that intersection
   ([new2], a second MaximalExtensionComputer of the ideal flavour).  Within EACH phase no set is
   returned twice; a set MAY be returned once in each phase (C18_log_ideal_example: the set {3}).
   Not covered: SST / STG (range-based; their bound has the factor n + 2: a set can be revisited
   with different ranges).  The lift to run_query (all components of a run): see the end of this
   file. *)
From Crusta Require Import Spec.AF Sat.Cnf Sat.Prog Model.Encoders Model.Graph Model.Solvers.
From Crusta Require Import Proofs.EncSpec Proofs.SolverBasics Proofs.MaxExtPref Proofs.Decomp Proofs.TopBase Proofs.TopMax Proofs.SolverTop Proofs.NoTwice.
From Crusta Require Proofs.SolverWholeEx.
Import ListNotations.

Theorem C18_log_sat_answers_ok_spelled : forall e F n new,
  sat_answers_ok e F n new <->
  (forall S, In S (sat_sets n e new) -> basep (enc_base e) F S) /\
  (forall i j S T, i < j -> nth_error (sat_sets n e new) i = Some S ->
                   nth_error (sat_sets n e new) j = Some T -> ~ (forall a, In a S <-> In a T)) /\
  length (sat_sets n e new) <= length (all_base (enc_base e) F).
Proof. intros e F n new. reflexivity. Qed.

(* SE-PR on a component *)
Theorem C18_log_preferred_no_candidate_twice : forall oracle thr, 1 <= thr -> valid_oracle oracle ->
  forall e, pr_enc e -> forall c n, compact_af (c_af c) n -> forall fuel s,
  match pr_max_in_cc oracle thr fuel e c s with
  | Done _ t | Abort t | Panic t | OutOfFuel t =>
      exists new, rlog t = new ++ rlog s /\
        sat_answers_ok e (c_af c) n new /\ n_unsat new <= length (all_exts PR (c_af c)) + 1
  end.
Proof. exact NoTwice.log_preferred_se. Qed.

(* DS-PR on the component of the queried arguments (both variants of the loop) *)
Theorem C18_log_preferred_ds_no_candidate_twice : forall oracle thr, 1 <= thr -> valid_oracle oracle ->
  forall e, pr_enc e -> forall c n, compact_af (c_af c) n -> forall fuel al shortcut s,
  match pr_ds_in_cc oracle thr fuel e c al shortcut s with
  | Done _ t | Abort t | Panic t | OutOfFuel t =>
      exists new, rlog t = new ++ rlog s /\
        sat_answers_ok e (c_af c) n new /\ n_unsat new <= length (all_exts PR (c_af c)) + 1
  end.
Proof. exact NoTwice.log_preferred_ds. Qed.

(* SE-ID on a component: per phase *)
Theorem C18_log_ideal_no_candidate_twice_per_phase : forall oracle thr, 1 <= thr -> valid_oracle oracle ->
  forall e, pr_enc e -> forall F n, compact_af F n -> forall fuel s,
  match id_ext_for_cc oracle thr fuel e F s with
  | Done _ t | Abort t | Panic t | OutOfFuel t =>
      exists new1 new2, rlog t = new2 ++ new1 ++ rlog s /\
        (sat_answers_ok e F n new1 /\ n_unsat new1 <= length (all_exts PR F) + 1) /\
        sat_answers_ok e F n new2
  end.
Proof. exact NoTwice.log_ideal_se. Qed.

(* DC-ID / DS-ID on the component of the queried arguments: per phase *)
Theorem C18_log_ideal_acceptance_no_candidate_twice_per_phase :
  forall oracle thr, 1 <= thr -> valid_oracle oracle ->
  forall e, pr_enc e -> forall F n, compact_af F n -> forall fuel la s,
  match id_cred_for_cc oracle thr fuel e F la s with
  | Done _ t | Abort t | Panic t | OutOfFuel t =>
      exists new1 new2, rlog t = new2 ++ new1 ++ rlog s /\
        (sat_answers_ok e F n new1 /\ n_unsat new1 <= length (all_exts PR F) + 1) /\
        sat_answers_ok e F n new2
  end.
Proof. exact NoTwice.log_ideal_cred. Qed.

(* "consequently the number of Sat answers is at most |base|": the first summand of the C18 bound,
   re-derived from the log (it is the third part of sat_answers_ok; stated on its own for SE-PR) *)
Theorem C18_log_preferred_sat_answers_le_candidates : forall oracle thr, 1 <= thr -> valid_oracle oracle ->
  forall e, pr_enc e -> forall c n, compact_af (c_af c) n -> forall fuel s,
  match pr_max_in_cc oracle thr fuel e c s with
  | Done _ t | Abort t | Panic t | OutOfFuel t =>
      exists new, rlog t = new ++ rlog s /\
        length (sat_sets n e new) <= length (all_base (enc_base e) (c_af c))
  end.
Proof.
  intros oracle thr Ht Hv e He c n HF fuel s.
  pose proof (NoTwice.log_preferred_se oracle thr Ht Hv e He c n HF fuel s) as H.
  destruct (pr_max_in_cc oracle thr fuel e c s); destruct H as (new & Hl & (_ & _ & H3) & _);
    exists new; (split; [exact Hl|exact H3]).
Qed.

(* Examples (brute-force, valid oracle; vm_compute).  0 <-> 1, 2 <-> 3, 0 -> 4, 2 -> 4: four
   preferred extensions {0,2}, {0,3}, {1,2}, {1,3,4}; 9 complete and 10 admissible sets.
   DS-PR of [0; 1] with the admissible-based encoder walks through all of them: the decoded Sat
   answers, in chronological order, are 8 different sets; one Unsat ends the search. *)
Definition c18_F5 := compact 5 [(0, 1); (1, 0); (2, 3); (3, 2); (0, 4); (2, 4)].
Definition c18_c5 : comp := {| c_ids := [0; 1; 2; 3; 4]; c_af := c18_F5 |}.
Example C18_log_preferred_example :
  compact_af (c_af c18_c5) 5 /\ pr_enc AuxAdm /\ valid_oracle SolverWholeEx.bf_oracle /\
  exists t new,
    pr_ds_in_cc SolverWholeEx.bf_oracle 1 100 AuxAdm c18_c5 [0; 1] false (init_st CadicalLike)
      = Done (true, None) t /\
    rlog t = new ++ [] /\
    rev (sat_sets 5 AuxAdm new) = [[2]; [0; 2]; [3]; [0; 3]; [1]; [1; 2]; [1; 3]; [1; 3; 4]] /\
    n_unsat new = 1 /\ length (all_base BAdm c18_F5) = 10 /\ length (all_exts PR c18_F5) = 4.
Proof.
  split. { split; [reflexivity|]. intros a b H. cbn in H.
           repeat (destruct H as [H|H]; [injection H as <- <-; lia|]). destruct H. }
  split; [right; reflexivity|]. split; [exact SolverWholeEx.bf_oracle_valid|].
  eexists. eexists. split; [vm_compute; reflexivity|].
  split; [rewrite app_nil_r; reflexivity|]. repeat split; vm_compute; reflexivity.
Qed.

(* 0 <-> 1, 0 -> 2, 1 -> 2, 2 <-> 3: preferred {0,3}, {1,3}; grounded {}; ideal {3}.  SE-ID:
   phase 1 returns {3}, {0,3}, {1,3} (three Unsat: two maximal sets, end of the search); phase 2
   returns {3} AGAIN - once per phase - and one Unsat closes it. *)
Definition c18_F4 := compact 4 [(0, 1); (1, 0); (0, 2); (1, 2); (2, 3); (3, 2)].
Example C18_log_ideal_example :
  compact_af c18_F4 4 /\
  exists t, id_ext_for_cc SolverWholeEx.bf_oracle 1 100 AuxCo c18_F4 (init_st CadicalLike) = Done [3] t /\
    rev (sat_sets 4 AuxCo (rlog t)) = [[3]; [0; 3]; [1; 3]; [3]] /\ n_unsat (rlog t) = 4.
Proof.
  split. { split; [reflexivity|]. intros a b H. cbn in H.
           repeat (destruct H as [H|H]; [injection H as <- <-; lia|]). destruct H. }
  eexists. split; [vm_compute; reflexivity|]. split; vm_compute; reflexivity.
Qed.

(* ---- the lift to run_query: every PR / ID entry point (SE-PR, DS-PR with and without certificate,
   SE-ID, DC-ID, DS-ID with and without certificate) --------------------------------------------
   A run works on the components [query_comps s q cert g al] one after the other, each in SAT sessions
   of its own.  [segmented P cs new]: the events [new] of the run (most recent first) are the
   concatenation of consecutive segments, one per component of [cs] in the order they were worked
   on, and the segment of the component c satisfies [P c]:
       segmented P [] []        segmented P (c :: cs) (rest ++ seg)  when  P c seg, segmented P cs rest.
   [cs] lists the components the run got to (all of them when it completes; fewer when it aborts,
   runs out of fuel, or - DS without counter-example - needs only the first).
     comp_pr_ok e c seg   the facts of C18_log_preferred_no_candidate_twice for the component c
                          (its framework has the arguments 0 .. |c_ids c| - 1);
     comp_id_ok e c seg   the two-phase facts of C18_log_ideal_no_candidate_twice_per_phase;
     comp_log_ok s e      comp_id_ok for the ideal solver, comp_pr_ok for the preferred one.
   Premises as in C18_call_bound. *)
Theorem C18_log_component_facts_spelled : forall e c seg,
  (comp_pr_ok e c seg <->
     sat_answers_ok e (c_af c) (length (c_ids c)) seg /\
     n_unsat seg <= length (all_exts PR (c_af c)) + 1) /\
  (comp_id_ok e c seg <->
     exists new1 new2, seg = new2 ++ new1 /\ comp_pr_ok e c new1 /\
                       sat_answers_ok e (c_af c) (length (c_ids c)) new2).
Proof. intros e c seg. split; reflexivity. Qed.

Theorem C18_log_run_no_candidate_twice : forall oracle thr g F,
  valid_oracle oracle -> 1 <= thr -> view_good g F ->
  forall s q cert e al fuel st0, s = PR \/ s = ID ->
  supported s q -> enc_ok s e -> al_ok s q F al ->
  match run_query oracle thr fuel s q cert e g al st0 with
  | Done _ t | Abort t | Panic t | OutOfFuel t =>
      exists cs new, rlog t = new ++ rlog st0 /\
        incl cs (query_comps s q cert g al) /\ segmented (comp_log_ok s e) cs new
  end.
Proof. exact NoTwice.run_query_segs. Qed.

(* hence the number of Sat answers of a whole preferred run is at most the number of candidate
   sets of the components it got to ([n_sat] counts the Sat answers of a log, [base_count e cs] sums
   |base| over cs); twice that for the ideal solver (two phases) *)
Theorem C18_log_run_preferred_sat_answers_le_candidates : forall e cs new,
  segmented (comp_pr_ok e) cs new -> n_sat new <= base_count e cs.
Proof. exact NoTwice.segmented_pr_count. Qed.
Theorem C18_log_run_ideal_sat_answers_le_candidates : forall e cs new,
  segmented (comp_id_ok e) cs new -> n_sat new <= 2 * base_count e cs.
Proof. exact NoTwice.segmented_id_count. Qed.

(* a completed run on the two-component framework 0 <-> 1 -> 2, 3 -> 3 -> 4 (SolverTop.ex_F): SE-PR
   receives 1 Sat and 2 Unsat answers; the components have 3 + 1 complete sets *)
Example C18_log_run_example :
  let r := run_query SolverWholeEx.bf_oracle 1 100 PR QSE false AuxCo (view_of_af ex_F) [] (init_st CadicalLike) in
  (exists t, r = Done (OExt (Some [0; 2])) t /\ n_sat (rlog t) = 1 /\ n_unsat (rlog t) = 2) /\
  map c_ids (query_comps PR QSE false (view_of_af ex_F) []) = [[0; 1; 2]; [3; 4]] /\
  base_count AuxCo (query_comps PR QSE false (view_of_af ex_F) []) = 4.
Proof.
  cbv zeta. split; [eexists; split; [vm_compute; reflexivity|split; vm_compute; reflexivity]|].
  split; vm_compute; reflexivity.
Qed.

Print Assumptions C18_log_sat_answers_ok_spelled.
Print Assumptions C18_log_preferred_no_candidate_twice.
Print Assumptions C18_log_preferred_ds_no_candidate_twice.
Print Assumptions C18_log_ideal_no_candidate_twice_per_phase.
Print Assumptions C18_log_ideal_acceptance_no_candidate_twice_per_phase.
Print Assumptions C18_log_preferred_sat_answers_le_candidates.
Print Assumptions C18_log_component_facts_spelled.
Print Assumptions C18_log_run_no_candidate_twice.
Print Assumptions C18_log_run_preferred_sat_answers_le_candidates.
Print Assumptions C18_log_run_ideal_sat_answers_le_candidates.
