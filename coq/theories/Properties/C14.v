(* C14 - written frameworks and answers read back to the same objects.
   Statements only; proofs are [exact] of lemmas of Proofs/WritersProofs.v.
   Writers: Model/Writers.v ([write_apx], [write_w], [write_bracket], [write_status], [write_no]);
   [parse_w] / [parse_bracket] are the reference parsers of the two answer formats (crustabri has
   no reader for answers): exactly one LF-terminated line, `w` followed by blank-separated decimal
   labels, resp. one bracketed comma-separated list. *)
From Crusta Require Import Spec.IoSpec Proofs.IoBase Proofs.WritersProofs.

(* an ICCMA'23 extension line reads back to exactly the labels (usize, any value) it contained,
   in order, the empty extension included *)
Theorem C14_w_roundtrip : forall labels : list N, parse_w (write_w labels) = Some labels.
Proof. exact WritersProofs.parse_write_w. Qed.

(* an Aspartix extension line reads back to exactly the labels it contained, in order, the empty
   extension included, for labels that are non-empty Unicode strings without comma and line feed *)
Theorem C14_bracket_roundtrip : forall labels : list str,
  Forall label_ok labels -> parse_bracket (write_bracket labels) = Some labels.
Proof. exact WritersProofs.parse_write_bracket. Qed.

(* ... which every Aspartix identifier is *)
Theorem C14_identifiers_are_label_ok : forall l, is_ident l = true -> label_ok l.
Proof. exact WritersProofs.ident_label_ok. Qed.

(* acceptance statuses are exactly the lines YES and NO; "no extension" is the line NO *)
Theorem C14_status_exact : forall b,
  write_status b = (if b then [89; 69; 83; 10] else [78; 79; 10])%N /\ write_no = [78; 79; 10]%N.
Proof. exact WritersProofs.status_exact. Qed.

(* PARTIAL (the reading half of the framework round trip): the byte string consisting of one
   `arg(l).` line per label and one `att(a,b).` line per attack - which is what [write_apx] emits,
   see Model/Writers.v - is read back by the Aspartix reader as the framework built from exactly
   these labels (in order) and these attacks, for all identifier labels and all attacks between
   them.  Missing for the full statement over every reachable store: (1) [write_apx f] is this byte
   string for the live labels and the live attacks (as label pairs) of a store [f] reachable by
   any history (needs the store invariant: end points of live attacks are live), (2) the attack
   set of [apx_result labels pairs] is exactly [pairs].  Both are covered on every run by the
   correspondence check and by the Rust-side round trip oracle of checks/C14.py. *)
Theorem C14_apx_read_of_written_partial : forall (labels : list str) (pairs : list (str * str)),
  Forall (fun l => is_ident l = true) labels ->
  (forall p, In p pairs -> In (fst p) labels /\ In (snd p) labels) ->
  read_apx (flat_map (Writers.arg_line str utf8_encode) labels ++
            flat_map (fun p => Writers.att_line str utf8_encode (fst p) (snd p)) pairs) =
  RdOk (apx_result labels pairs).
Proof. exact WritersProofs.read_written. Qed.

(* UTF-8: decoding what was encoded gives the string back (every Rust String) *)
Theorem C14_utf8_roundtrip : forall s, Forall scalar s -> utf8_decode (utf8_encode s) = Some s.
Proof. exact IoBase.utf8_roundtrip. Qed.

Print Assumptions C14_w_roundtrip.
Print Assumptions C14_bracket_roundtrip.
Print Assumptions C14_identifiers_are_label_ok.
Print Assumptions C14_status_exact.
Print Assumptions C14_apx_read_of_written_partial.
Print Assumptions C14_utf8_roundtrip.
