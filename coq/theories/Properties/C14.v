(* C14 - written frameworks and answers read back to the same objects.
   Statements only; proofs are [exact] of lemmas of Proofs/WritersProofs.v (C14_utf8_roundtrip:
   Proofs/IoBase.v).  [reachable] is the one of Properties/C12.v; [att_labels_are], [has_att_lab],
   [label_ok] are defined in Proofs/WritersProofs.v.
   Writers: Model/Writers.v ([write_apx], [write_w], [write_bracket], [write_status], [write_no]);
   [parse_w] / [parse_bracket] are the reference parsers of the two answer formats (crustabri has
   no reader for answers): exactly one LF-terminated line, `w` followed by blank-separated decimal
   labels, resp. one bracketed comma-separated list. *)
From Crusta Require Import Spec.IoSpec Proofs.IoBase Proofs.WritersProofs Properties.C12.
From Crusta Require Proofs.Clauses2.

(* an ICCMA'23 extension line reads back to exactly the labels (usize, any value) it contained,
   in order, the empty extension included *)
Theorem C14_w_roundtrip : forall labels : list N, parse_w (write_w labels) = Some labels.
Proof. exact WritersProofs.parse_write_w. Qed.

(* an Aspartix extension line reads back to exactly the labels it contained, in order, the empty
   extension included, for labels that are non-empty Unicode strings without comma and line feed *)
Theorem C14_bracket_roundtrip : forall labels : list str,
  Forall label_ok labels -> parse_bracket (write_bracket labels) = Some labels.
Proof. exact WritersProofs.parse_write_bracket. Qed.

(* ... which every Aspartix identifier is *)
Theorem C14_identifiers_are_label_ok : forall l, is_ident l = true -> label_ok l.
Proof. exact WritersProofs.ident_label_ok. Qed.

(* acceptance statuses are exactly the lines YES and NO; "no extension" is the line NO *)
Theorem C14_status_exact : forall b,
  write_status b = (if b then [89; 69; 83; 10] else [78; 79; 10])%N /\ write_no = [78; 79; 10]%N.
Proof. exact WritersProofs.status_exact. Qed.

(* The reading half of the framework round trip on its own (kept under its former name; it is a
   step of C14_apx_read_of_written below, which is the full statement): the byte string consisting
   of one `arg(l).` line per label and one `att(a,b).` line per attack is read back by the Aspartix
   reader as the framework built from exactly these labels (in order) and these attacks, for all
   identifier labels and all attacks between them. *)
Theorem C14_apx_read_of_written_partial : forall (labels : list str) (pairs : list (str * str)),
  Forall (fun l => is_ident l = true) labels ->
  (forall p, In p pairs -> In (fst p) labels /\ In (snd p) labels) ->
  read_apx (flat_map (Writers.arg_line str utf8_encode) labels ++
            flat_map (fun p => Writers.att_line str utf8_encode (fst p) (snd p)) pairs) =
  RdOk (apx_result labels pairs).
Proof. exact WritersProofs.read_written. Qed.

(* The framework round trip, full statement.  For EVERY store [f] reachable by any update history
   (C12's [reachable]: any initial label list, any sequence of new_argument / remove_argument /
   new_attack / remove_attack, so with tombstoned ids and attacks) whose live labels are Aspartix
   identifiers (they are pairwise distinct by C12_spec_wellformed):
   - AspartixWriter::write_framework does not panic ([write_apx] = Some bytes),
   - AspartixReader::read accepts these bytes and returns a framework [f'],
   - [f'] has the same labels in the same order as the live arguments of [f] (ids renumbered
     0,1,2,... : [numbered]),
   - [f'] has the same attacks as [f], as label pairs, IN THE SAME ORDER: one list [pairs] of
     label pairs describes both [iter_attacks f] and [iter_attacks f'] position by position
     ([att_labels_are g pairs]: the k-th attack (a, b) of g joins the arguments that [iter_args g]
     labels [fst (nth k pairs)], [snd (nth k pairs)]),
   - hence the same SET of attacks as label pairs ([has_att_lab]) and the same counts. *)
Theorem C14_apx_read_of_written : forall f : fw str,
  reachable str str_eqb f ->
  Forall (fun p => is_ident (snd p) = true) (iter_args str f) ->
  exists bytes f' pairs,
    write_apx str utf8_encode f = Some bytes /\
    read_apx bytes = RdOk f' /\
    iter_args str f' = numbered 0 (map snd (iter_args str f)) /\
    att_labels_are f pairs /\ att_labels_are f' pairs /\
    (forall la lb, has_att_lab f' la lb <-> has_att_lab f la lb) /\
    n_arguments str f' = n_arguments str f /\ n_attacks str f' = n_attacks str f.
Proof. exact WritersProofs.read_of_written_full. Qed.

(* the hypotheses are satisfiable by a store with removed arguments and attacks (ids 0, 2, 3 live) *)
Example C14_example_store :
  let a := [97%N] in let b := [98%N] in let c := [99%N] in let d := [100%N] in
  let f := run_ops str str_eqb (fw_new_with_labels str str_eqb [a; b; c])
             [OpNewAtt a b; OpNewAtt b c; OpNewAtt c a; OpNewArg d; OpNewAtt d d; OpNewAtt d a;
              OpRemArg b; OpNewAtt c d; OpRemAtt d d] in
  reachable str str_eqb f /\
  Forall (fun p => is_ident (snd p) = true) (iter_args str f) /\
  iter_args str f = [(0, a); (2, c); (3, d)] /\ iter_attacks str f = [(2, 0); (3, 0); (2, 3)] /\
  option_map read_apx (write_apx str utf8_encode f) =
    Some (RdOk (apx_result [a; c; d] [(c, a); (d, a); (c, d)])).
Proof.
  cbv zeta. split; [eexists; eexists; reflexivity|].
  match goal with |- Forall _ ?args /\ _ =>
    assert (E : args = [(0, [97%N]); (2, [99%N]); (3, [100%N])]) by (vm_compute; reflexivity)
  end.
  split; [rewrite E; repeat constructor|].
  split; [exact E|]. split; vm_compute; reflexivity.
Qed.

(* UTF-8: decoding what was encoded gives the string back (every Rust String) *)
Theorem C14_utf8_roundtrip : forall s, Forall scalar s -> utf8_decode (utf8_encode s) = Some s.
Proof. exact IoBase.utf8_roundtrip. Qed.

(* the two extension formats, byte for byte, "and nothing else is emitted": the ICCMA'23 writer emits
   `w`, then one blank and the decimal digits of each label, then ONE line feed; the Aspartix writer
   emits `[`, the labels separated by single commas, `]` and ONE line feed; no other line feed occurs,
   so each is exactly one line (status lines: C14_status_exact; the whole stdout of a run is one status
   line and/or one such line: C05_render_shape) *)
Theorem C14_extension_lines_exact :
  (forall labels : list N,
     write_w labels = [119%N] ++ flat_map (fun n => 32%N :: dec n) labels ++ [10%N] /\
     ~ In 10%N (flat_map (fun n => 32%N :: dec n) labels)) /\
  (forall labels : list str, Forall label_ok labels ->
     write_bracket labels = [91%N] ++ join_comma (map utf8_encode labels) ++ [93%N; 10%N] /\
     ~ In 10%N (join_comma (map utf8_encode labels))).
Proof. exact Clauses2.extension_lines_exact. Qed.

Print Assumptions C14_w_roundtrip.
Print Assumptions C14_bracket_roundtrip.
Print Assumptions C14_identifiers_are_label_ok.
Print Assumptions C14_status_exact.
Print Assumptions C14_apx_read_of_written_partial.
Print Assumptions C14_apx_read_of_written.
Print Assumptions C14_utf8_roundtrip.
Print Assumptions C14_extension_lines_exact.
