(* C14 - written frameworks and answers read back to the same objects (statements only). *)
From Crusta Require Import Model.Writers.

Theorem C14_status_exact : forall b,
  write_status b = (if b then [89; 69; 83; 10] else [78; 79; 10])%N /\ write_no = [78; 79; 10]%N.
Proof. intros b; split; reflexivity. Qed.

Print Assumptions C14_status_exact.
