(* C05 - the command-line tools print exactly the right answer, or none.
   Statements only; every proof is [exact] of a lemma of Proofs/CliProofs.v.

   The model (Model/Cli.v) covers what lies between the PARSED options and stdout: problem strings,
   the dispatch of the 21 problems to solver types / encoders / certificate handling, the argument
   checks, the bytes written by the two response writers, and the argv translation of the ICCMA'23
   wrapper.  It takes the framework returned by the reader as an input ([None] = unreadable or
   ill-formed file: the readers are C13's business) and the SAT answers from an oracle.

   PROVED here, for every option record, instance, oracle (i.e. every sequence of SAT answers),
   threshold, n_vars discipline and fuel:
     (i)   the 21 problems: count, distinctness, accepted <-> member of the list up to ASCII case,
           the listing printed by `problems`;
     (ii)  every error class gives ExitNonZero (which carries no output) with no SAT call; bytes
           are produced only from a [Done] outcome of the dispatched query, after it returned; an
           Unknown SAT answer gives ExitNonZero (with C17);
     (iii) the output is one status line and/or one witness line of the documented grammar and
           nothing else; it can be parsed back to the outcome;
     (iv)  the dispatch table and the semantic justification of its three substitutions; the five
           problems answered by the grounded solver are right END TO END for the problem's semantics.
   PARTIAL (named so): that the outcome rendered for the other 16 problems is the one the semantics
   dictate is the content of C01-C04, which are themselves partial (component level); on every run
   the check judges status and witness of every invocation with the brute-force semantics instead.
   REFUTED on the pinned tree (finding F-CLI-1): the witness printed for DC-PR is a complete, not
   necessarily preferred, extension: [C05_dcpr_certificate_gap] is the counter-example at the level
   of the semantics; the status line of DC-PR is right ([C05_dispatch_sound]).
   NOT MODELLED (trusted): clap's tokenizer ([parse_tokens] covers the plain `-o value` token form
   only), the logger, process exit codes other than zero / non-zero. *)
From Coq Require Import String NArith List.
From Crusta Require Import Spec.AF Sat.Cnf Sat.Prog Model.Solvers Model.Cli.
From Crusta Require Import Proofs.AbortProofs Proofs.GroundedProofs Proofs.CliProofs.
Import ListNotations.

(* ------------------------------------------------------------------ (i) the 21 problems *)
Theorem C05_problems_21 :
  List.length problems_21 = 21 /\ NoDup problems_21 /\
  (forall p, accepted p = true <-> In (upper p) problems_21) /\
  (forall p, accepted (upper p) = accepted p) /\
  (forall p, In p problems_21 -> upper p = p).
Proof.
  exact (conj problems_21_length (conj problems_21_NoDup (conj accepted_iff
        (conj accepted_upper problems_21_upper)))).
Qed.

(* reading is case-insensitive as a whole: same query and semantics, same error class *)
Theorem C05_case_insensitive : forall p,
  read_problem_string (upper p) = read_problem_string p /\
  read_problem_string (lower p) = read_problem_string p.
Proof. exact (fun p => conj (read_problem_string_upper p) (read_problem_string_lower p)). Qed.

(* the listing printed by `crustabri problems` / `crustabri_iccma23 --problems` *)
Theorem C05_problems_listing :
  problems_line =
  B "[SE-GR,DC-GR,DS-GR,SE-CO,DC-CO,DS-CO,SE-PR,DC-PR,DS-PR,SE-ST,DC-ST,DS-ST,SE-SST,DC-SST,DS-SST,SE-STG,DC-STG,DS-STG,SE-ID,DC-ID,DS-ID]" ++ [nl]
  /\ forall oracle thr d fuel inst, exec oracle thr d fuel CProblems inst = Some (Exit0 problems_line).
Proof. exact problems_listing. Qed.

(* ------------------------------------------------------------------ (ii) errors; output only from Done *)
(* unknown reader implementation, unreadable / ill-formed file, unknown argument, unknown problem,
   missing argument: non-zero exit, no output, no SAT call *)
Theorem C05_errors_exit_nonzero : forall oracle thr d fuel o inst,
  (o_reader o = RIccma23Aba
   \/ inst = None
   \/ (exists i a, inst = Some i /\ o_arg o = Some a /\ i_arg i a = None)
   \/ accepted (o_problem o) = false
   \/ (exists q s, read_problem_string (o_problem o) = inr (q, s) /\ q <> QSE /\ o_arg o = None)) ->
  run_traced oracle thr d fuel o inst = (ExitNonZero, []).
Proof. exact errors_exit_nonzero. Qed.

(* these are all the error classes of the command: otherwise the query is run *)
Theorem C05_error_classes_complete : forall o inst e,
  validate o inst = inl e ->
  (o_reader o = RIccma23Aba
   \/ inst = None
   \/ (exists i a, inst = Some i /\ o_arg o = Some a /\ i_arg i a = None)
   \/ accepted (o_problem o) = false
   \/ (exists q s, read_problem_string (o_problem o) = inr (q, s) /\ q <> QSE /\ o_arg o = None)).
Proof. exact validate_inl. Qed.

(* stdout bytes exist only as the rendering of the [Done] outcome of the dispatched query *)
Theorem C05_exit0_renders_query_outcome : forall oracle thr d fuel o inst out,
  run oracle thr d fuel o inst = Exit0 out ->
  exists i q s al oc st',
    validate o inst = inr (i, q, s, al) /\
    Prog.run d (run_query oracle thr fuel (solver_for q s) q (o_cert o)
                  (encoder_for (o_problem o) s (o_encoding o)) (i_g i) al) = Done oc st' /\
    out = render (writer_of (o_reader o)) (i_label i) oc.
Proof. exact exit0_inv. Qed.

(* with C17 (AbortProofs.unknown_aborts): an Unknown SAT answer anywhere in the run gives a
   non-zero exit, hence no output *)
Theorem C05_unknown_exit_nonzero : forall oracle thr d fuel o inst k a,
  In (k, ESolve a Unknown) (snd (run_traced oracle thr d fuel o inst)) ->
  fst (run_traced oracle thr d fuel o inst) = ExitNonZero.
Proof. exact unknown_exit_nonzero. Qed.

(* ------------------------------------------------------------------ (iii) shape of the output *)
Theorem C05_status_lines :
  status_line true = B "YES" ++ [nl] /\ status_line false = B "NO" ++ [nl] /\
  no_extension_line = B "NO" ++ [nl].
Proof. exact status_lines. Qed.

Theorem C05_witness_lines : forall label e,
  witness_line WIccma label e = B "w" ++ flat_map (fun a => B " " ++ label a) e ++ [nl] /\
  witness_line WApx label e =
    B "[" ++ match e with [] => [] | a :: r => label a ++ flat_map (fun b => B "," ++ label b) r end
          ++ B "]" ++ [nl].
Proof. exact witness_lines. Qed.

(* one status line and/or one witness line, nothing else, never empty *)
Theorem C05_render_shape : forall w label o,
  exists (st : option bool) (wi : option (list nat)),
    render w label o =
      match st with Some b => status_line b | None => [] end ++
      match wi with Some e => witness_line w label e | None => [] end
    /\ (st <> None \/ wi <> None)
    /\ match o with
       | OExt (Some e) => st = None /\ wi = Some e
       | OExt None => st = Some false /\ wi = None
       | OAcc b c => st = Some b /\ wi = c
       end.
Proof. exact render_shape. Qed.

(* a witness line is one line *)
Theorem C05_witness_line_one_line : forall w label e,
  (forall a, In a e -> ~ In nl (label a)) ->
  count_nl (witness_line w label e) = 1 /\ exists body, witness_line w label e = body ++ [nl].
Proof. exact witness_line_one_line. Qed.

(* the answer can be read back: labels that are non-empty, free of newline and of the separator,
   and invertible (decimal numbers, Aspartix identifiers) *)
Theorem C05_parse_render : forall w label un q o,
  kind_ok q o -> (forall a, In a (outcome_args o) -> label_ok w label un a) ->
  parse_answer w un q (render w label o) = Some o.
Proof. exact parse_render. Qed.

(* ------------------------------------------------------------------ (iv) dispatch *)
Theorem C05_dispatch_table :
  map (fun p => (p, dispatch p)) problems_21 =
  [ (B "SE-GR", Some (GR, QSE)); (B "DC-GR", Some (GR, QDC)); (B "DS-GR", Some (GR, QDS));
    (B "SE-CO", Some (GR, QSE)); (B "DC-CO", Some (CO, QDC)); (B "DS-CO", Some (GR, QDS));
    (B "SE-PR", Some (PR, QSE)); (B "DC-PR", Some (CO, QDC)); (B "DS-PR", Some (PR, QDS));
    (B "SE-ST", Some (ST, QSE)); (B "DC-ST", Some (ST, QDC)); (B "DS-ST", Some (ST, QDS));
    (B "SE-SST", Some (SST, QSE)); (B "DC-SST", Some (SST, QDC)); (B "DS-SST", Some (SST, QDS));
    (B "SE-STG", Some (STG, QSE)); (B "DC-STG", Some (STG, QDC)); (B "DS-STG", Some (STG, QDS));
    (B "SE-ID", Some (ID, QSE)); (B "DC-ID", Some (ID, QDC)); (B "DS-ID", Some (ID, QDS)) ].
Proof. exact dispatch_table. Qed.

Theorem C05_encoder_table : forall raw s eo,
  match s with
  | GR | ST => encoder_for raw s eo = StDefault
  | STG => In (encoder_for raw s eo) [AuxCf; ExpCf]
  | PR => In (encoder_for raw s eo) [AuxAdm; AuxCo; ExpCo; HybCo] /\
          (raw <> B "SE-PR" -> In (encoder_for raw s eo) [AuxCo; ExpCo; HybCo])
  | CO | SST | ID => In (encoder_for raw s eo) [AuxCo; ExpCo; HybCo]
  end.
Proof. exact encoder_table. Qed.

(* the solver type used answers the problem asked: extensions of the substitute are extensions of
   the problem's semantics (and exist whenever those do); acceptance statuses coincide *)
Theorem C05_dispatch_sound : forall q s F, wf F ->
  match q with
  | QSE => (forall S, ext (solver_for q s) F S -> ext s F S) /\
           ((exists S, ext s F S) -> exists S, ext (solver_for q s) F S)
  | QDC => forall A, cred (solver_for q s) F A <-> cred s F A
  | QDS => forall A, skep (solver_for q s) F A <-> skep s F A
  end.
Proof. exact dispatch_sound. Qed.

(* finding F-CLI-1: for DC-PR a certificate that is a complete extension containing the argument
   (what the complete solver returns) need not be a preferred extension *)
Theorem C05_dcpr_certificate_gap :
  let F := compact 3 [(0, 1); (1, 0)] in
  wf F /\ co F [2] /\ In 2 [2] /\ cred PR F [2] /\ ~ pr F [2].
Proof. exact dcpr_certificate_gap. Qed.

(* end to end for SE-GR, DC-GR, DS-GR, SE-CO, DS-CO (no SAT call): exit 0 and the rendering of the
   right answer for the PROBLEM's semantics, certificate included.  Partial: 5 of the 21 problems. *)
Theorem C05_grounded_problems_correct_partial : forall oracle thr d fuel o inst i q s al F,
  wf F -> view_ok (i_g i) F ->
  validate o inst = inr (i, q, s, al) -> solver_for q s = GR ->
  exists oc,
    run_traced oracle thr d fuel o inst = (Exit0 (render (writer_of (o_reader o)) (i_label i) oc), []) /\
    match q, oc with
    | QSE, OExt (Some e) => ext s F e
    | QDC, OAcc b c =>
        (b = true <-> cred s F al) /\
        (forall e, c = Some e -> ext s F e /\ exists a, In a al /\ In a e) /\
        (o_cert o = false -> c = None)
    | QDS, OAcc b c =>
        (b = true <-> skep s F al) /\
        (forall e, c = Some e -> ext s F e /\ ~ exists a, In a al /\ In a e) /\
        (o_cert o = false -> c = None)
    | _, _ => False
    end.
Proof. exact grounded_problems_correct. Qed.

(* ------------------------------------------------------------------ (d) the wrapper *)
(* in the modelled token form: whatever is typed, a solve run of crustabri_iccma23 has the
   ICCMA'23 reader, certificates on, logging off and the default encoding *)
Theorem C05_wrapper_forces_options : forall real o f,
  parse_wrapper real = CSolve o f ->
  o_reader o = RIccma23 /\ o_cert o = true /\ o_logging_off o = true /\ o_encoding o = EncAbsent.
Proof. exact wrapper_forces_options. Qed.

(* the hypotheses are satisfiable *)
Example C05_example :
  let label := fun a => dec (N.of_nat (S a)) in
  let un := fun b => match parse_usize b with Some v => Some (N.to_nat v - 1) | None => None end in
  (forall a, In a [0; 2; 11] -> label_ok WIccma label un a) /\
  render WIccma label (OAcc true (Some [0; 2; 11])) = B "YES" ++ [nl] ++ B "w 1 3 12" ++ [nl] /\
  parse_answer WIccma un QDC (B "YES" ++ [nl] ++ B "w 1 3 12" ++ [nl]) = Some (OAcc true (Some [0; 2; 11])).
Proof. exact parse_render_example. Qed.

Print Assumptions C05_problems_21.
Print Assumptions C05_case_insensitive.
Print Assumptions C05_problems_listing.
Print Assumptions C05_errors_exit_nonzero.
Print Assumptions C05_error_classes_complete.
Print Assumptions C05_exit0_renders_query_outcome.
Print Assumptions C05_unknown_exit_nonzero.
Print Assumptions C05_status_lines.
Print Assumptions C05_witness_lines.
Print Assumptions C05_render_shape.
Print Assumptions C05_witness_line_one_line.
Print Assumptions C05_parse_render.
Print Assumptions C05_dispatch_table.
Print Assumptions C05_encoder_table.
Print Assumptions C05_dispatch_sound.
Print Assumptions C05_dcpr_certificate_gap.
Print Assumptions C05_grounded_problems_correct_partial.
Print Assumptions C05_wrapper_forces_options.
