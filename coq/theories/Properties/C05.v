(* C05 - the command-line tools print exactly the right answer, or none.
   Statements only; every proof is [exact] of a lemma of Proofs/CliProofs.v.

   The model (Model/Cli.v) covers what lies between the PARSED options and stdout: problem strings,
   the dispatch of the 21 problems to solver types / encoders / certificate handling, the argument
   checks, the bytes written by the two response writers, and the argv translation of the ICCMA'23
   wrapper.  It takes the framework returned by the reader as an input ([None] = unreadable or
   ill-formed file: the readers are C13's business) and the SAT answers from an oracle.

   PROVED here, for every option record, instance, oracle (i.e. every sequence of SAT answers),
   threshold, n_vars discipline and fuel:
     (i)   the 21 problems: count, distinctness, accepted <-> member of the list up to ASCII case,
           the listing printed by `problems`;
     (ii)  every error class gives ExitNonZero (which carries no output) with no SAT call; bytes
           are produced only from a [Done] outcome of the dispatched query, after it returned; an
           Unknown SAT answer gives ExitNonZero (with C17);
     (iii) the output is one status line and/or one witness line of the documented grammar and
           nothing else; it can be parsed back to the outcome;
     (iv)  the dispatch table and the semantic justification of its three substitutions; the five
           problems answered by the grounded solver are right END TO END for the problem's semantics.
   END TO END (part (v), Proofs/CliE2E*.v): for ALL 21 problems, every valid SAT oracle, threshold >= 1, every
   instance whose graph view is a good view of a framework F: [C05_all_problems_correct] classifies the
   result of the run: Exit0 with the rendering of an answer that the semantics of the PROBLEM dictate
   (status iff credulous / skeptical acceptance, witness exactly when promised, an extension, without
   duplicates, of arguments of F, containing / avoiding the query argument), or ExitNonZero with an
   Unknown SAT answer as last event of the SAT log, or the model's fuel artefact only when the fuel is
   below the proved bound; never a silent success after a panic.  [C05_wrapper_correct]: the same for the
   ICCMA'23 wrapper.  [C05_iccma_file_correct], [C05_apx_file_correct]: the same FROM THE BYTES of a
   well-formed instance file (composition with the readers of C13); [C05_iccma_file_rejected],
   [C05_apx_file_rejected]: a file the reader rejects gives a non-zero exit and no output.
   [C05_grounded_problems_correct_partial] (5 of the 21 problems, older) is kept.
   ABOUT DC-PR: the witness printed for DC-PR is a complete, not necessarily preferred, extension
   containing the argument (property C04 allows exactly that); [C05_dcpr_certificate_gap] shows that it
   need not be preferred; the status line of DC-PR is right ([C05_dispatch_sound]).
   NOT MODELLED (trusted): clap's tokenizer ([parse_tokens] covers the plain `-o value` token form
   only), the logger, process exit codes other than zero / non-zero. *)
From Coq Require Import String NArith List.
(* Spec.IoSpec (vocabulary of well-formed instance files, C13) is imported FIRST so that the names of
   Model.Cli ([dec], [parse_usize], ...) are the ones used below *)
From Crusta Require Import Spec.IoSpec.
From Crusta Require Import Spec.AF Sat.Cnf Sat.Prog Model.Solvers Model.Cli.
From Crusta Require Import Proofs.AbortProofs Proofs.GroundedProofs Proofs.CliProofs.
From Crusta Require Import Proofs.SolverBasics Proofs.TopBase Proofs.TopMax Proofs.SolverTop.
From Crusta Require Import Proofs.CliE2E Proofs.CliE2EFiles Proofs.CliE2EApx.
Import ListNotations.

(* ------------------------------------------------------------------ (i) the 21 problems *)
Theorem C05_problems_21 :
  List.length problems_21 = 21 /\ NoDup problems_21 /\
  (forall p, accepted p = true <-> In (upper p) problems_21) /\
  (forall p, accepted (upper p) = accepted p) /\
  (forall p, In p problems_21 -> upper p = p).
Proof.
  exact (conj problems_21_length (conj problems_21_NoDup (conj accepted_iff
        (conj accepted_upper problems_21_upper)))).
Qed.

(* reading is case-insensitive as a whole: same query and semantics, same error class *)
Theorem C05_case_insensitive : forall p,
  read_problem_string (upper p) = read_problem_string p /\
  read_problem_string (lower p) = read_problem_string p.
Proof. exact (fun p => conj (read_problem_string_upper p) (read_problem_string_lower p)). Qed.

(* the listing printed by `crustabri problems` / `crustabri_iccma23 --problems` *)
Theorem C05_problems_listing :
  problems_line =
  B "[SE-GR,DC-GR,DS-GR,SE-CO,DC-CO,DS-CO,SE-PR,DC-PR,DS-PR,SE-ST,DC-ST,DS-ST,SE-SST,DC-SST,DS-SST,SE-STG,DC-STG,DS-STG,SE-ID,DC-ID,DS-ID]" ++ [nl]
  /\ forall oracle thr d fuel inst, exec oracle thr d fuel CProblems inst = Some (Exit0 problems_line).
Proof. exact problems_listing. Qed.

(* ------------------------------------------------------------------ (ii) errors; output only from Done *)
(* unknown reader implementation, unreadable / ill-formed file, unknown argument, unknown problem,
   missing argument: non-zero exit, no output, no SAT call *)
Theorem C05_errors_exit_nonzero : forall oracle thr d fuel o inst,
  (o_reader o = RIccma23Aba
   \/ inst = None
   \/ (exists i a, inst = Some i /\ o_arg o = Some a /\ i_arg i a = None)
   \/ accepted (o_problem o) = false
   \/ (exists q s, read_problem_string (o_problem o) = inr (q, s) /\ q <> QSE /\ o_arg o = None)) ->
  run_traced oracle thr d fuel o inst = (ExitNonZero, []).
Proof. exact errors_exit_nonzero. Qed.

(* these are all the error classes of the command: otherwise the query is run *)
Theorem C05_error_classes_complete : forall o inst e,
  validate o inst = inl e ->
  (o_reader o = RIccma23Aba
   \/ inst = None
   \/ (exists i a, inst = Some i /\ o_arg o = Some a /\ i_arg i a = None)
   \/ accepted (o_problem o) = false
   \/ (exists q s, read_problem_string (o_problem o) = inr (q, s) /\ q <> QSE /\ o_arg o = None)).
Proof. exact validate_inl. Qed.

(* stdout bytes exist only as the rendering of the [Done] outcome of the dispatched query *)
Theorem C05_exit0_renders_query_outcome : forall oracle thr d fuel o inst out,
  run oracle thr d fuel o inst = Exit0 out ->
  exists i q s al oc st',
    validate o inst = inr (i, q, s, al) /\
    Prog.run d (run_query oracle thr fuel (solver_for q s) q (o_cert o)
                  (encoder_for (o_problem o) s (o_encoding o)) (i_g i) al) = Done oc st' /\
    out = render (writer_of (o_reader o)) (i_label i) oc.
Proof. exact exit0_inv. Qed.

(* with C17 (AbortProofs.unknown_aborts): an Unknown SAT answer anywhere in the run gives a
   non-zero exit, hence no output *)
Theorem C05_unknown_exit_nonzero : forall oracle thr d fuel o inst k a,
  In (k, ESolve a Unknown) (snd (run_traced oracle thr d fuel o inst)) ->
  fst (run_traced oracle thr d fuel o inst) = ExitNonZero.
Proof. exact unknown_exit_nonzero. Qed.

(* ------------------------------------------------------------------ (iii) shape of the output *)
Theorem C05_status_lines :
  status_line true = B "YES" ++ [nl] /\ status_line false = B "NO" ++ [nl] /\
  no_extension_line = B "NO" ++ [nl].
Proof. exact status_lines. Qed.

Theorem C05_witness_lines : forall label e,
  witness_line WIccma label e = B "w" ++ flat_map (fun a => B " " ++ label a) e ++ [nl] /\
  witness_line WApx label e =
    B "[" ++ match e with [] => [] | a :: r => label a ++ flat_map (fun b => B "," ++ label b) r end
          ++ B "]" ++ [nl].
Proof. exact witness_lines. Qed.

(* one status line and/or one witness line, nothing else, never empty *)
Theorem C05_render_shape : forall w label o,
  exists (st : option bool) (wi : option (list nat)),
    render w label o =
      match st with Some b => status_line b | None => [] end ++
      match wi with Some e => witness_line w label e | None => [] end
    /\ (st <> None \/ wi <> None)
    /\ match o with
       | OExt (Some e) => st = None /\ wi = Some e
       | OExt None => st = Some false /\ wi = None
       | OAcc b c => st = Some b /\ wi = c
       end.
Proof. exact render_shape. Qed.

(* a witness line is one line *)
Theorem C05_witness_line_one_line : forall w label e,
  (forall a, In a e -> ~ In nl (label a)) ->
  count_nl (witness_line w label e) = 1 /\ exists body, witness_line w label e = body ++ [nl].
Proof. exact witness_line_one_line. Qed.

(* the answer can be read back: labels that are non-empty, free of newline and of the separator,
   and invertible: [un (label a) = Some a].  Decimal numbers (C05_example); Aspartix identifiers,
   printed in UTF-8 and read back by UTF-8 decoding + lookup: C05_apx_labels_invertible proves
   [label_ok] for every identifier the Aspartix reader accepts, ASCII or not *)
Theorem C05_parse_render : forall w label un q o,
  kind_ok q o -> (forall a, In a (outcome_args o) -> label_ok w label un a) ->
  parse_answer w un q (render w label o) = Some o.
Proof. exact parse_render. Qed.

(* ------------------------------------------------------------------ (iv) dispatch *)
Theorem C05_dispatch_table :
  map (fun p => (p, dispatch p)) problems_21 =
  [ (B "SE-GR", Some (GR, QSE)); (B "DC-GR", Some (GR, QDC)); (B "DS-GR", Some (GR, QDS));
    (B "SE-CO", Some (GR, QSE)); (B "DC-CO", Some (CO, QDC)); (B "DS-CO", Some (GR, QDS));
    (B "SE-PR", Some (PR, QSE)); (B "DC-PR", Some (CO, QDC)); (B "DS-PR", Some (PR, QDS));
    (B "SE-ST", Some (ST, QSE)); (B "DC-ST", Some (ST, QDC)); (B "DS-ST", Some (ST, QDS));
    (B "SE-SST", Some (SST, QSE)); (B "DC-SST", Some (SST, QDC)); (B "DS-SST", Some (SST, QDS));
    (B "SE-STG", Some (STG, QSE)); (B "DC-STG", Some (STG, QDC)); (B "DS-STG", Some (STG, QDS));
    (B "SE-ID", Some (ID, QSE)); (B "DC-ID", Some (ID, QDC)); (B "DS-ID", Some (ID, QDS)) ].
Proof. exact dispatch_table. Qed.

Theorem C05_encoder_table : forall raw s eo,
  match s with
  | GR | ST => encoder_for raw s eo = StDefault
  | STG => In (encoder_for raw s eo) [AuxCf; ExpCf]
  | PR => In (encoder_for raw s eo) [AuxAdm; AuxCo; ExpCo; HybCo] /\
          (raw <> B "SE-PR" -> In (encoder_for raw s eo) [AuxCo; ExpCo; HybCo])
  | CO | SST | ID => In (encoder_for raw s eo) [AuxCo; ExpCo; HybCo]
  end.
Proof. exact encoder_table. Qed.

(* the solver type used answers the problem asked: extensions of the substitute are extensions of
   the problem's semantics (and exist whenever those do); acceptance statuses coincide *)
Theorem C05_dispatch_sound : forall q s F, wf F ->
  match q with
  | QSE => (forall S, ext (solver_for q s) F S -> ext s F S) /\
           ((exists S, ext s F S) -> exists S, ext (solver_for q s) F S)
  | QDC => forall A, cred (solver_for q s) F A <-> cred s F A
  | QDS => forall A, skep (solver_for q s) F A <-> skep s F A
  end.
Proof. exact dispatch_sound. Qed.

(* finding F-CLI-1: for DC-PR a certificate that is a complete extension containing the argument
   (what the complete solver returns) need not be a preferred extension *)
Theorem C05_dcpr_certificate_gap :
  let F := compact 3 [(0, 1); (1, 0)] in
  wf F /\ co F [2] /\ In 2 [2] /\ cred PR F [2] /\ ~ pr F [2].
Proof. exact dcpr_certificate_gap. Qed.

(* end to end for SE-GR, DC-GR, DS-GR, SE-CO, DS-CO (no SAT call): exit 0 and the rendering of the
   right answer for the PROBLEM's semantics, certificate included.  Partial: 5 of the 21 problems. *)
Theorem C05_grounded_problems_correct_partial : forall oracle thr d fuel o inst i q s al F,
  wf F -> view_ok (i_g i) F ->
  validate o inst = inr (i, q, s, al) -> solver_for q s = GR ->
  exists oc,
    run_traced oracle thr d fuel o inst = (Exit0 (render (writer_of (o_reader o)) (i_label i) oc), []) /\
    match q, oc with
    | QSE, OExt (Some e) => ext s F e
    | QDC, OAcc b c =>
        (b = true <-> cred s F al) /\
        (forall e, c = Some e -> ext s F e /\ exists a, In a al /\ In a e) /\
        (o_cert o = false -> c = None)
    | QDS, OAcc b c =>
        (b = true <-> skep s F al) /\
        (forall e, c = Some e -> ext s F e /\ ~ exists a, In a al /\ In a e) /\
        (o_cert o = false -> c = None)
    | _, _ => False
    end.
Proof. exact grounded_problems_correct. Qed.

(* ------------------------------------------------------------------ (d) the wrapper *)
(* in the modelled token form: whatever is typed, a solve run of crustabri_iccma23 has the
   ICCMA'23 reader, certificates on, logging off and the default encoding *)
Theorem C05_wrapper_forces_options : forall real o f,
  parse_wrapper real = CSolve o f ->
  o_reader o = RIccma23 /\ o_cert o = true /\ o_logging_off o = true /\ o_encoding o = EncAbsent.
Proof. exact wrapper_forces_options. Qed.

(* ------------------------------------------------------------------ (v) END TO END, all 21 problems *)
(* Vocabulary.
   [valid_oracle oracle] (Proofs/SolverBasics.v): every answer is one a correct SAT solver may give: a
     model of the clauses and assumptions, Unsat only if there is none, or Unknown (always allowed).
   [view_good g F] (Proofs/TopBase.v): the graph view [g] (ids, attack lists) presents the framework [F];
     instances: compact frameworks, every reachable store, ICCMA-built stores (the C01_good_view theorems).
   [validate o inst = inr (i, q, s, al)]: the invocation is well formed: instance [i], query [q],
     semantics [s] of the problem string, [al] = [] for SE, = [id of the -a argument] for DC / DS.
   [run_traced] returns the result of the tool and the SAT log (events in order).
   [supported], [enc_ok], [query_comps], [fuel_ok] (Proofs/SolverTop.v, TopMax.v): the entry points
     that exist, the encoders a solver type accepts, the components a query works on, and
     "the fuel covers the proved per-component bound" (2 * comp_bound + 4 <= fuel for each of them). *)

(* every row of the dispatch lands on an existing entry point with an admissible encoder (this covers
   the case-sensitive "SE-PR" test selecting the admissibility encoder and hybrid -> exp for STG) *)
Theorem C05_dispatch_rows_ok : forall raw q s eo,
  read_problem_string raw = inr (q, s) ->
  supported (solver_for q s) q /\ enc_ok (solver_for q s) (encoder_for raw s eo).
Proof. exact dispatch_rows_ok. Qed.

(* THE end-to-end theorem.  For a well-formed invocation on an instance presenting F:
   - Exit0: stdout is the rendering of an outcome that is right for the PROBLEM (q, s):
       SE: an extension under s, without duplicates, of arguments of F; `NO` only for ST without
           stable extension;
       DC: YES iff credulously accepted under s; a witness only if requested and YES, then an
           extension containing the argument (for DC-PR: a COMPLETE extension, cf. C04); no witness
           although requested only if NO;
       DS: YES iff skeptically accepted under s; a witness only if requested and NO, then an
           extension under s avoiding the argument; no witness although requested only if YES;
     and no SAT answer was Unknown;
   - ExitNonZero: the last SAT answer was Unknown (the only one);
   - ModelOutOfFuel (artefact of the model): only if the fuel is below the proved bound.
   The result is never a success produced after a panic (a panic would give ExitNonZero without an
   Unknown answer, which is excluded). *)
Theorem C05_all_problems_correct : forall oracle thr d fuel o inst i q s al F,
  valid_oracle oracle -> 1 <= thr ->
  view_good (i_g i) F -> (forall a, In a al -> In a (args F)) ->
  validate o inst = inr (i, q, s, al) ->
  match run_traced oracle thr d fuel o inst with
  | (Exit0 out, log) =>
      (exists oc, out = render (writer_of (o_reader o)) (i_label i) oc /\
         match q, oc with
         | QSE, OExt (Some L) => ext s F L /\ NoDup L /\ incl L (args F)
         | QSE, OExt None => s = ST /\ forall S, ~ ext ST F S
         | QDC, OAcc b c =>
             (b = true <-> cred s F al) /\
             match c with
             | Some L => o_cert o = true /\ b = true /\
                         ext (match s with PR => CO | _ => s end) F L /\ NoDup L /\ incl L (args F) /\
                         exists a, In a al /\ In a L
             | None => o_cert o = true -> b = false
             end
         | QDS, OAcc b c =>
             (b = true <-> skep s F al) /\
             match c with
             | Some L => o_cert o = true /\ b = false /\ ext s F L /\ NoDup L /\ incl L (args F) /\
                         forall a, In a al -> ~ In a L
             | None => o_cert o = true -> b = true
             end
         | _, _ => False
         end) /\
      (forall k a, ~ In (k, ESolve a Unknown) log)
  | (ExitNonZero, log) =>
      exists k a log', log = log' ++ [(k, ESolve a Unknown)] /\
                       forall k' a', ~ In (k', ESolve a' Unknown) log'
  | (ModelOutOfFuel, log) =>
      ~ fuel_ok (solver_for q s) (encoder_for (o_problem o) s (o_encoding o))
                (query_comps (solver_for q s) q (o_cert o) (i_g i) al) fuel
  end.
Proof. exact all_problems_correct. Qed.

(* [answer_ok q s cert F al oc] (Proofs/CliE2E.v) abbreviates, in the theorems below, the condition on
   the rendered outcome spelled out in C05_all_problems_correct *)
Theorem C05_answer_ok_spelled : forall q s cert F al oc,
  answer_ok q s cert F al oc <->
  match q, oc with
  | QSE, OExt (Some L) => ext s F L /\ NoDup L /\ incl L (args F)
  | QSE, OExt None => s = ST /\ forall S, ~ ext ST F S
  | QDC, OAcc b c =>
      (b = true <-> cred s F al) /\
      match c with
      | Some L => cert = true /\ b = true /\
                  ext (match s with PR => CO | _ => s end) F L /\ NoDup L /\ incl L (args F) /\
                  exists a, In a al /\ In a L
      | None => cert = true -> b = false
      end
  | QDS, OAcc b c =>
      (b = true <-> skep s F al) /\
      match c with
      | Some L => cert = true /\ b = false /\ ext s F L /\ NoDup L /\ incl L (args F) /\
                  forall a, In a al -> ~ In a L
      | None => cert = true -> b = true
      end
  | _, _ => False
  end.
Proof. exact answer_ok_spelled. Qed.

(* the ICCMA'23 wrapper (in the modelled token form): a solve run of crustabri_iccma23 is the same run
   with the ICCMA'23 reader / writer, certificates on and the default encoding; so a witness line is
   printed exactly with YES (DC) / NO (DS) *)
Theorem C05_wrapper_correct : forall oracle thr d fuel real o file inst i q s al F,
  parse_wrapper real = CSolve o file ->
  valid_oracle oracle -> 1 <= thr ->
  view_good (i_g i) F -> (forall a, In a al -> In a (args F)) ->
  validate o inst = inr (i, q, s, al) ->
  exec oracle thr d fuel (parse_wrapper real) inst = Some (run oracle thr d fuel o inst) /\
  match run_traced oracle thr d fuel o inst with
  | (Exit0 out, log) =>
      (exists oc, out = render WIccma (i_label i) oc /\ answer_ok q s true F al oc /\
                  match q, oc with
                  | QDC, OAcc b c => b = true <-> exists L, c = Some L
                  | QDS, OAcc b c => b = false <-> exists L, c = Some L
                  | _, _ => True
                  end) /\
      (forall k a, ~ In (k, ESolve a Unknown) log)
  | (ExitNonZero, log) =>
      exists k a log', log = log' ++ [(k, ESolve a Unknown)] /\
                       forall k' a', ~ In (k', ESolve a' Unknown) log'
  | (ModelOutOfFuel, log) =>
      ~ fuel_ok (solver_for q s) (encoder_for (o_problem o) s EncAbsent)
                (query_comps (solver_for q s) q true (i_g i) al) fuel
  end.
Proof. exact wrapper_correct. Qed.

(* ------------------------------------------------------------------ (v') from the BYTES of the file *)
(* Vocabulary (Spec/IoSpec.v, as in C13): [f : iccma_file] is an abstract well-formed ICCMA'23 file
   (comments, preamble `p af n`, attack lines, trailing empty lines / comments, with all the blanks,
   `+` signs and leading zeros); [iccma_file_ok f]: blanks are blanks, indexes are in 1..n, n fits;
   [render_lines (iccma_file_lines f) eols final_nl]: its bytes, LF or CRLF per line ([eols]), final
   newline or not; [file_attacks f]: the declared attacks as 0-based id pairs, in file order.
   [iccma_input bytes] (Proofs/CliE2EFiles.v) = [Some (iccma_instance fw)] when [read_iccma bytes]
   returns the framework [fw], [None] when it returns an error: what the command gets from the reader.
   The framework is [compact n atts]: arguments 0..n-1, attacks [atts]. *)
Theorem C05_iccma_file_correct : forall oracle thr d fuel o f eols final_nl i q s al,
  valid_oracle oracle -> 1 <= thr ->
  iccma_file_ok f -> IoSpec.final_ok (iccma_file_lines f) final_nl ->
  o_reader o = RIccma23 ->
  let bytes := render_lines (iccma_file_lines f) eols final_nl in
  let F := compact (f_n f) (file_attacks f) in
  validate o (iccma_input bytes) = inr (i, q, s, al) ->
  i = iccma_instance (iccma_fw (f_n f) (file_attacks f)) /\
  (forall id, id < f_n f -> i_label i id = dec (N.of_nat (S id))) /\    (* argument id is printed as id+1 *)
  (forall a, In a al -> a < f_n f) /\
  match run_traced oracle thr d fuel o (iccma_input bytes) with
  | (Exit0 out, log) =>
      (exists oc, out = render WIccma (i_label i) oc /\ answer_ok q s (o_cert o) F al oc) /\
      (forall k a, ~ In (k, ESolve a Unknown) log)
  | (ExitNonZero, log) =>
      exists k a log', log = log' ++ [(k, ESolve a Unknown)] /\
                       forall k' a', ~ In (k', ESolve a' Unknown) log'
  | (ModelOutOfFuel, log) =>
      ~ fuel_ok (solver_for q s) (encoder_for (o_problem o) s (o_encoding o))
                (query_comps (solver_for q s) q (o_cert o) (i_g i) al) fuel
  end.
Proof. exact iccma_file_correct. Qed.

(* on that instance the -a operand is read as in C13_iccma_read_arg_exact: a decimal usize k (optional
   `+`, leading zeros) with 1 <= k <= n names the argument with id k-1; anything else is an error *)
Theorem C05_iccma_file_instance : forall n atts, (forall p, In p atts -> fst p < n /\ snd p < n) ->
  let i := iccma_instance (iccma_fw n atts) in
  view_good (i_g i) (compact n atts) /\
  (forall id, id < n -> i_label i id = dec (N.of_nat (S id))) /\
  (forall a, i_arg i a =
             match parse_usize a with
             | Some k => if (0 <? k)%N && (k <=? N.of_nat n)%N then Some (N.to_nat k - 1) else None
             | None => None
             end).
Proof. exact iccma_instance_facts. Qed.

(* a file the ICCMA'23 reader rejects (each rejection class of C13: invalid UTF-8, missing or bad
   preamble, bad attack line, content after an empty line): non-zero exit, no output, no SAT call *)
Theorem C05_iccma_file_rejected : forall oracle thr d fuel o bytes,
  read_iccma bytes = RdErr ->
  run_traced oracle thr d fuel o (iccma_input bytes) = (ExitNonZero, []).
Proof. exact iccma_file_rejected. Qed.

(* the wrapper on the bytes of a well-formed ICCMA'23 file *)
Theorem C05_wrapper_iccma_file_correct : forall oracle thr d fuel real o file f eols final_nl i q s al,
  parse_wrapper real = CSolve o file ->
  valid_oracle oracle -> 1 <= thr ->
  iccma_file_ok f -> IoSpec.final_ok (iccma_file_lines f) final_nl ->
  let bytes := render_lines (iccma_file_lines f) eols final_nl in
  let F := compact (f_n f) (file_attacks f) in
  validate o (iccma_input bytes) = inr (i, q, s, al) ->
  exec oracle thr d fuel (parse_wrapper real) (iccma_input bytes)
    = Some (run oracle thr d fuel o (iccma_input bytes)) /\
  (forall id, id < f_n f -> i_label i id = dec (N.of_nat (S id))) /\
  (forall a, In a al -> a < f_n f) /\
  match run_traced oracle thr d fuel o (iccma_input bytes) with
  | (Exit0 out, log) =>
      (exists oc, out = render WIccma (i_label i) oc /\ answer_ok q s true F al oc /\
                  match q, oc with
                  | QDC, OAcc b c => b = true <-> exists L, c = Some L
                  | QDS, OAcc b c => b = false <-> exists L, c = Some L
                  | _, _ => True
                  end) /\
      (forall k a, ~ In (k, ESolve a Unknown) log)
  | (ExitNonZero, log) =>
      exists k a log', log = log' ++ [(k, ESolve a Unknown)] /\
                       forall k' a', ~ In (k', ESolve a' Unknown) log'
  | (ModelOutOfFuel, log) =>
      ~ fuel_ok (solver_for q s) (encoder_for (o_problem o) s EncAbsent)
                (query_comps (solver_for q s) q true (i_g i) al) fuel
  end.
Proof. exact wrapper_iccma_file_correct. Qed.

(* Aspartix.  [f : apx_file]: `arg(l).` lines then `att(a,b).` lines with blanks and blank lines;
   [apx_file_ok f]: identifiers are identifiers, attacks name declared labels; [decl_labels f],
   [att_pairs f]: the declared labels (duplicates kept) and attacks as label pairs;
   [dedup str_eqb [] l]: first occurrences of l in order.  [apx_input bytes] as [iccma_input], with
   [read_apx] and [Cli.apx_instance].  The framework F = [apx_af decls pairs] is the one denoted by the
   store the reader returns (live ids, attacks as id pairs); the first conjunct says what it is:
   argument id k is the k-th distinct declared label, attacks are exactly the declared pairs.
   Labels are Rust Strings, i.e. lists of Unicode code points ([str]); they are PRINTED in UTF-8
   ([utf8_encode]) and the `-a` operand (bytes of the OS argument) is UTF-8 DECODED before the lookup.
   The statement holds for all identifiers [_[:alpha:]][_[:alpha:]\d]* with the Unicode `\d`
   (before the repair of Model/Cli.v the label conjuncts read [i_label i id = l] and
   [nth_error labels a = Some w], which describe the tools for ASCII labels only). *)
Theorem C05_apx_file_correct : forall oracle thr d fuel o f eols final_nl i q s al,
  valid_oracle oracle -> 1 <= thr ->
  apx_file_ok f -> IoSpec.final_ok (apx_file_lines f) final_nl ->
  o_reader o = RApx ->
  let bytes := render_lines (apx_file_lines f) eols final_nl in
  let labels := dedup str_eqb [] (decl_labels f) in
  let F := apx_af (decl_labels f) (att_pairs f) in
  validate o (apx_input bytes) = inr (i, q, s, al) ->
  (args F = seq 0 (length labels) /\
   (forall a b, att F a b -> a < length labels /\ b < length labels) /\
   (forall a b la lb, nth_error labels a = Some la -> nth_error labels b = Some lb ->
                      (att F a b <-> In (la, lb) (att_pairs f)))) /\
  (forall id l, nth_error labels id = Some l -> i_label i id = utf8_encode l) /\
  (forall a, In a al -> exists w l, o_arg o = Some w /\ utf8_decode w = Some l /\
                                    nth_error labels a = Some l) /\
  match run_traced oracle thr d fuel o (apx_input bytes) with
  | (Exit0 out, log) =>
      (exists oc, out = render WApx (i_label i) oc /\ answer_ok q s (o_cert o) F al oc) /\
      (forall k a, ~ In (k, ESolve a Unknown) log)
  | (ExitNonZero, log) =>
      exists k a log', log = log' ++ [(k, ESolve a Unknown)] /\
                       forall k' a', ~ In (k', ESolve a' Unknown) log'
  | (ModelOutOfFuel, log) =>
      ~ fuel_ok (solver_for q s) (encoder_for (o_problem o) s (o_encoding o))
                (query_comps (solver_for q s) q (o_cert o) (i_g i) al) fuel
  end.
Proof. exact apx_file_correct. Qed.

(* the labels printed for an Aspartix framework are invertible, for EVERY identifier label (ASCII or
   not): the UTF-8 bytes of the k-th distinct declared label, given as `-a` operand or found in a
   witness line, name argument k; they are non-empty and contain neither a newline nor a comma *)
Theorem C05_apx_labels_invertible : forall decls pairs,
  (forall p, In p pairs -> In (fst p) decls /\ In (snd p) decls) ->
  Forall (fun l => is_ident l = true) decls ->
  let i := apx_instance (apx_result decls pairs) in
  let labels := dedup str_eqb [] decls in
  (forall id l, nth_error labels id = Some l -> i_arg i (utf8_encode l) = Some id) /\
  (forall id, id < length labels -> label_ok WApx (i_label i) (i_arg i) id).
Proof. exact apx_labels_invertible. Qed.

(* hence the stdout of a successful run on a well-formed Aspartix file reads back ([parse_answer]:
   lines, commas, UTF-8 decoding and lookup of every label) to an outcome that the semantics dictate *)
Theorem C05_apx_file_reads_back : forall oracle thr d fuel o f eols final_nl i q s al out,
  valid_oracle oracle -> 1 <= thr ->
  apx_file_ok f -> IoSpec.final_ok (apx_file_lines f) final_nl ->
  o_reader o = RApx ->
  let bytes := render_lines (apx_file_lines f) eols final_nl in
  let labels := dedup str_eqb [] (decl_labels f) in
  let F := apx_af (decl_labels f) (att_pairs f) in
  validate o (apx_input bytes) = inr (i, q, s, al) ->
  run oracle thr d fuel o (apx_input bytes) = Exit0 out ->
  (forall id, id < length labels -> label_ok WApx (i_label i) (i_arg i) id) /\
  exists oc, parse_answer WApx (i_arg i) q out = Some oc /\
             out = render WApx (i_label i) oc /\ answer_ok q s (o_cert o) F al oc.
Proof. exact apx_file_reads_back. Qed.

Theorem C05_apx_file_rejected : forall oracle thr d fuel o bytes,
  read_apx bytes = RdErr ->
  run_traced oracle thr d fuel o (apx_input bytes) = (ExitNonZero, []).
Proof. exact apx_file_rejected. Qed.

(* the hypotheses are satisfiable *)
Example C05_example :
  let label := fun a => dec (N.of_nat (S a)) in
  let un := fun b => match parse_usize b with Some v => Some (N.to_nat v - 1) | None => None end in
  (forall a, In a [0; 2; 11] -> label_ok WIccma label un a) /\
  render WIccma label (OAcc true (Some [0; 2; 11])) = B "YES" ++ [nl] ++ B "w 1 3 12" ++ [nl] /\
  parse_answer WIccma un QDC (B "YES" ++ [nl] ++ B "w 1 3 12" ++ [nl]) = Some (OAcc true (Some [0; 2; 11])).
Proof. exact parse_render_example. Qed.

(* the hypotheses of the file theorems are satisfiable: the ICCMA'23 file `p af 3 / 1 2 (CRLF) / # c /
   <sp>2<sp><sp>+01<sp>` (1 <-> 2, 3 alone), DC-PR for argument 3 with certificate and the brute-force
   SAT oracle of Proofs/SolverWholeEx.v: `YES` and the witness `w 3` ({3} is complete, not preferred) *)
Example C05_file_example :
  let bytes := render_lines (iccma_file_lines ex_file) [false; true] true in
  iccma_file_ok ex_file /\ IoSpec.final_ok (iccma_file_lines ex_file) true /\
  valid_oracle SolverWholeEx.bf_oracle /\
  bytes = B "p af 3" ++ [10%N] ++ B "1 2" ++ [13%N; 10%N] ++ B "# c" ++ [10%N] ++ B " 2  +01 " ++ [10%N] /\
  file_attacks ex_file = [(0, 1); (1, 0)] /\
  (exists i, validate ex_options (iccma_input bytes) = inr (i, QDC, PR, [2])) /\
  run SolverWholeEx.bf_oracle 1 CadicalLike 100 ex_options (iccma_input bytes)
    = Exit0 (B "YES" ++ [10%N] ++ B "w 3" ++ [10%N]).
Proof. exact file_example. Qed.

(* the same for Aspartix: arg(a). arg(b). arg(c). att(a,b). att(b,a).  DC-PR for c: `YES` and `[c]` *)
Example C05_apx_example :
  let bytes := render_lines (apx_file_lines ex_apx) [] true in
  apx_file_ok ex_apx /\ IoSpec.final_ok (apx_file_lines ex_apx) true /\
  valid_oracle SolverWholeEx.bf_oracle /\
  bytes = B "arg(a)." ++ [10%N] ++ B "arg(b)." ++ [10%N] ++ B "arg(c)." ++ [10%N] ++
          B "att(a,b)." ++ [10%N] ++ B "att(b,a)." ++ [10%N] /\
  (exists i, validate ex_apx_options (apx_input bytes) = inr (i, QDC, PR, [2])) /\
  run SolverWholeEx.bf_oracle 1 CadicalLike 100 ex_apx_options (apx_input bytes)
    = Exit0 (B "YES" ++ [10%N] ++ B "[c]" ++ [10%N]).
Proof. exact apx_example. Qed.

(* non-ASCII identifiers: `a` + ARABIC-INDIC DIGIT THREE (U+0663), `b` + MATHEMATICAL BOLD DIGIT ONE
   (U+1D7CF, outside the BMP), `c`; the string literals are the UTF-8 bytes of this source file.
   DS-PR for `b𝟏` (operand = 5 bytes): `NO` and the witness `[a٣,c]` printed in UTF-8 *)
Example C05_apx_example_unicode :
  let bytes := render_lines (apx_file_lines ex_apx_u) [] true in
  apx_file_ok ex_apx_u /\ IoSpec.final_ok (apx_file_lines ex_apx_u) true /\
  bytes = B "arg(a٣)." ++ [10%N] ++ B "arg(b𝟏)." ++ [10%N] ++ B "arg(c)." ++ [10%N] ++
          B "att(a٣,b𝟏)." ++ [10%N] ++ B "att(b𝟏,a٣)." ++ [10%N] /\
  B "b𝟏" = [98; 240; 157; 159; 143]%N /\
  (exists i, validate ex_apx_u_options (apx_input bytes) = inr (i, QDS, PR, [1])) /\
  run SolverWholeEx.bf_oracle 1 CadicalLike 100 ex_apx_u_options (apx_input bytes)
    = Exit0 (B "NO" ++ [10%N] ++ B "[a٣,c]" ++ [10%N]).
Proof. exact apx_example_unicode. Qed.

Print Assumptions C05_problems_21.
Print Assumptions C05_case_insensitive.
Print Assumptions C05_problems_listing.
Print Assumptions C05_errors_exit_nonzero.
Print Assumptions C05_error_classes_complete.
Print Assumptions C05_exit0_renders_query_outcome.
Print Assumptions C05_unknown_exit_nonzero.
Print Assumptions C05_status_lines.
Print Assumptions C05_witness_lines.
Print Assumptions C05_render_shape.
Print Assumptions C05_witness_line_one_line.
Print Assumptions C05_parse_render.
Print Assumptions C05_dispatch_table.
Print Assumptions C05_encoder_table.
Print Assumptions C05_dispatch_sound.
Print Assumptions C05_dcpr_certificate_gap.
Print Assumptions C05_grounded_problems_correct_partial.
Print Assumptions C05_wrapper_forces_options.
Print Assumptions C05_dispatch_rows_ok.
Print Assumptions C05_all_problems_correct.
Print Assumptions C05_answer_ok_spelled.
Print Assumptions C05_wrapper_correct.
Print Assumptions C05_iccma_file_correct.
Print Assumptions C05_iccma_file_instance.
Print Assumptions C05_iccma_file_rejected.
Print Assumptions C05_wrapper_iccma_file_correct.
Print Assumptions C05_apx_file_correct.
Print Assumptions C05_apx_labels_invertible.
Print Assumptions C05_apx_file_reads_back.
Print Assumptions C05_apx_file_rejected.
