From Crusta Require Import Model.Cli Proofs.CliProofs.
