(* C15 - SAT solver objects honour the incremental solving contract.
   Statements only; every proof is [exact] of a lemma of Proofs/{SatObjProofs,DpllProofs}.v.
   Vocabulary: Model/SatObjects.v ([cad_step] = CadicalSolver's wrapper logic over a backend oracle,
   [buf_step] = BufferedSatSolver over a solving function bytes -> bytes, [run_obj] = a history),
   Model/SatSpec.v ([hist_nvars] = declared variable count, [query] = clauses so far + one unit
   clause per assumption of THIS call, [contract_ok]/[all_ok] = the contract of the statement,
   [solver_correct]), Sat/Dpll.v (the reference solver).
   NOT proved (validated on every run by checks/C15.py): that CaDiCaL's answers are valid. *)
From Crusta Require Import Sat.Cnf Sat.Dimacs Sat.Dpll Model.SatObjects Model.SatSpec.
From Crusta Require Import Proofs.DpllProofs Proofs.SatObjProofs.
From Crusta Require Proofs.Clauses2.
Import ListNotations.

(* ---------------------------------------------------------------- the reference solver *)
Theorem C15_dpll_sound : forall n c a m, solve_n n c a = Some m ->
  models m (c ++ units a) = true /\ length m = n /\ total_upto n m = true.
Proof. exact solve_n_sound. Qed.

(* None only if NO assignment (partial or total, of any length) satisfies clauses and assumptions *)
Theorem C15_dpll_complete : forall n c a,
  cnf_ok (c ++ units a) = true -> cnf_max (c ++ units a) <= n -> solve_n n c a = None ->
  forall m, models m (c ++ units a) = false.
Proof. exact solve_n_complete. Qed.

(* ---------------------------------------------------------------- (i) CadicalSolver's wrapper *)
(* one solve call, for EVERY backend: the assignment has n_vars entries, carries the backend's
   values on the variables the backend knows and None on reserved-only ones; clauses and reservation
   are untouched, only the largest variable seen is raised (assumptions are not retained) *)
Theorem C15_cadical_wrapper_solve : forall bk s a,
  let mv := Nat.max (cmaxvar s) (clause_max a) in
  let s' := fst (cad_step bk s (OSolve a)) in
  cclauses s' = cclauses s /\ creserved s' = creserved s /\ cmaxvar s' = mv /\
  match bk (rev (cclauses s)) a mv with
  | BSat value =>
      exists m, snd (cad_step bk s (OSolve a)) = ObsAns (Sat m) /\ length m = cad_n_vars s' /\
      (forall v, 1 <= v <= mv -> value_of m v = value v) /\
      (forall v, mv < v <= cad_n_vars s' -> value_of m v = None)
  | BUnsat => snd (cad_step bk s (OSolve a)) = ObsAns Unsat
  | BUnknown => snd (cad_step bk s (OSolve a)) = ObsAns Unknown
  end.
Proof. exact cadical_wrapper_solve. Qed.

(* every history, every backend: the clauses reach the backend unchanged and in order, n_vars is
   the declared variable count *)
Theorem C15_cadical_wrapper_state : forall bk ops,
  let s := fst (run_obj (cad_step bk) cad_new ops) in
  rev (cclauses s) = clauses_of ops /\ cad_n_vars s = hist_nvars ops.
Proof. exact cadical_wrapper_state. Qed.

(* ---------------------------------------------------------------- (ii) BufferedSatSolver *)
(* with ANY solving function that is correct on well-formed instances, every call of every history
   honours the contract: a model satisfies all clauses added so far and the assumptions of that
   call (and nothing of an earlier call's assumptions: [query]) and has one entry per declared
   variable; Unsat only if no assignment at all is a model; n_vars is the declared count; the
   reader never panics *)
Theorem C15_buffered_contract : forall fn ops, solver_correct fn -> hist_ok ops = true -> small ops ->
  all_ok [] ops (snd (run_obj (buf_step fn) buf_new ops)).
Proof. exact buffered_contract. Qed.

(* vdpll (strict parser + reference solver + reply printer) is such a solving function *)
Theorem C15_vdpll_correct : solver_correct vdpll_fn.
Proof. exact vdpll_correct. Qed.

(* assumptions hold for one call only *)
Theorem C15_assumptions_not_retained : forall done a b, query (done ++ [OSolve a]) b = query done b.
Proof. exact query_after_solve. Qed.

(* ---------------------------------------------------------------- (iii) both objects on Dpll *)
Theorem C15_cadical_dpll_contract : forall ops, hist_ok ops = true ->
  all_ok [] ops (snd (run_obj (cad_step dpll_backend) cad_new ops)).
Proof. exact cadical_dpll_contract. Qed.

(* embedded and external give the same verdicts, and every call is decided *)
Theorem C15_same_verdicts : forall ops, hist_ok ops = true -> small ops ->
  let oc := snd (run_obj (cad_step dpll_backend) cad_new ops) in
  let ob := snd (run_obj (buf_step vdpll_fn) buf_new ops) in
  map verdict_of oc = map verdict_of ob /\ Forall decided oc /\ Forall decided ob.
Proof. exact same_verdicts. Qed.

(* the hypotheses are satisfiable / the statements are not vacuous *)
Example C15_example :
  let ops := [OAdd [1; 2]%Z; OReserve 4; OSolve [-1]%Z; OAdd [-2]%Z; OSolve [-1]%Z; OSolve []; ONVars] in
  hist_ok ops = true /\
  snd (run_obj (buf_step vdpll_fn) buf_new ops)
  = [ObsUnit; ObsUnit; ObsAns (Sat [Some false; Some true; Some true; Some true]); ObsUnit; ObsAns Unsat;
     ObsAns (Sat [Some true; Some false; Some true; Some true]); ObsNum 4] /\
  map verdict_of (snd (run_obj (cad_step dpll_backend) cad_new ops))
  = [None; None; Some true; None; Some false; Some true; None].
Proof. vm_compute. repeat split; reflexivity. Qed.

(* ---- the contract of ONE solve call, spelled out (Proofs/Clauses2.v): in a history
   [pre ++ OSolve a :: post] the observation of that call (position [length pre]) is
   - a model that satisfies every clause added BEFORE the call ([clauses_of pre]) and every assumption
     OF the call ([units a]) and has one entry per variable declared so far (it can be queried for
     every declared variable), or
   - Unsat, and then no assignment at all satisfies them, or
   - Unknown; never a panic.
   For BufferedSatSolver over any correct solving function, and for CadicalSolver's wrapper over the
   reference solver. *)
Theorem C15_buffered_each_solve_call : forall fn pre a post,
  solver_correct fn -> hist_ok (pre ++ OSolve a :: post) = true -> small (pre ++ OSolve a :: post) ->
  exists ob, nth_error (snd (run_obj (buf_step fn) buf_new (pre ++ OSolve a :: post))) (length pre) = Some ob /\
    match ob with
    | ObsAns (Sat m) => models m (clauses_of pre ++ units a) = true /\ length m = hist_nvars (pre ++ [OSolve a])
    | ObsAns Unsat => forall m, models m (clauses_of pre ++ units a) = false
    | ObsAns Unknown => True
    | _ => False
    end.
Proof. exact Clauses2.buffered_each_solve_call. Qed.

Theorem C15_cadical_each_solve_call : forall pre a post,
  hist_ok (pre ++ OSolve a :: post) = true ->
  exists ob, nth_error (snd (run_obj (cad_step dpll_backend) cad_new (pre ++ OSolve a :: post))) (length pre) = Some ob /\
    match ob with
    | ObsAns (Sat m) => models m (clauses_of pre ++ units a) = true /\ length m = hist_nvars (pre ++ [OSolve a])
    | ObsAns Unsat => forall m, models m (clauses_of pre ++ units a) = false
    | ObsAns Unknown => True
    | _ => False
    end.
Proof. exact Clauses2.cadical_each_solve_call. Qed.

(* "assumptions hold for one call only, clauses added between calls are taken into account": the formula
   [query done b] of a call with assumptions b after the history [done] contains every clause added
   anywhere before it, and is the same formula with or without an earlier solve call (whatever its
   assumptions a) *)
Theorem C15_clauses_kept_assumptions_dropped : forall pre mid c a b,
  In c (query (pre ++ OAdd c :: mid) b) /\
  query (pre ++ OSolve a :: mid) b = query (pre ++ mid) b.
Proof. exact Clauses2.query_formula. Qed.

Print Assumptions C15_dpll_sound.
Print Assumptions C15_dpll_complete.
Print Assumptions C15_cadical_wrapper_solve.
Print Assumptions C15_cadical_wrapper_state.
Print Assumptions C15_buffered_contract.
Print Assumptions C15_vdpll_correct.
Print Assumptions C15_assumptions_not_retained.
Print Assumptions C15_cadical_dpll_contract.
Print Assumptions C15_same_verdicts.
Print Assumptions C15_buffered_each_solve_call.
Print Assumptions C15_cadical_each_solve_call.
Print Assumptions C15_clauses_kept_assumptions_dropped.
