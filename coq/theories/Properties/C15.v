(* placeholder, replaced below *)
From Crusta Require Import Model.SatObjects Model.Pipe.
Theorem C15_placeholder : True. Proof. exact I. Qed.
Print Assumptions C15_placeholder.
