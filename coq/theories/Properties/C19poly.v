(* C19poly - the rules of the POLYNOMIAL ORACLE of the equivalence reducer, as theorems of Dung's
   theory.  Statements only; proofs are [exact] (Proofs/PolyClasses.v; definitions
   Proofs/PolyClassesDefs.v, Proofs/PolyOracleDefs.v).

   The check of C19 judges the classes computed by the real reducer on frameworks that are too
   large for the brute-force reference with a polynomial oracle (checks/C19.py
   [grounded_classes_verdict]).  The reducer claims to merge only arguments "that belong to exactly
   the same complete extensions".  The oracle
     (a) computes the grounded extension G and the set D of the arguments attacked by a member of G
         (unit propagation, Properties/C03poly.v [C03_poly_propagation]) and wants G inside one
         class and D inside one class;
     (b) for a member s of a merged class: when G + {s} is admissible, it closes G + {s} under "add
         every argument all of whose attackers are attacked by the current set" and reports every
         class that has a member inside the closure and a member outside.
   The facts behind (a) and (b) are proved here for EVERY framework of any size, over the
   specification layer only (Spec/AF.v, Spec/Theory.v): nothing in this file depends on the model of
   the reducer.

   Vocabulary
     wf F            the arguments of F are listed once and every attack is between arguments of F
     att F b a       b attacks a
     adm F E         E is admissible: its members are arguments of F, no member attacks a member,
                     every attacker of a member is attacked by a member    (Spec/AF.v)
     co F E          E is complete: admissible and every argument of F all of whose attackers are
                     attacked by a member of E is a member   (readable form: C03_poly_complete_reading)
     lfp F           the grounded extension G (Spec/Theory.v [gr_lfp], [gr_unique])
     hit F E         the arguments attacked by a member of E  (python `hit`)
     acc_closure F E the python closing loop started at (E, hit F E): sweeps over the arguments in
                     order; an argument that is not a member, not in hit and whose attackers are
                     all in hit becomes a member and its targets enter hit; (number of arguments
                     + 1) sweeps ([prop_step] / [prop_sweep] / [prop_iter] of
                     Proofs/PolyOracleDefs.v: the same loop that computes G from the empty set)
     seed_admb F E   the python admissibility test of E:  t_membersb F E && t_cfb F E && t_admb F E
                     (C03_poly_certificate_tests: true exactly when adm F E)
     cutsb C E       boolean: some member of the list C is in E and some member of C is not
     cut_by_closure F G s C  =  seed_admb F (s :: G) && cutsb C (acc_closure F (s :: G))
     same_complete_extensions F a b   the judged claim, spelled out in [C19_poly_same_def]

   PROVED
     C19_poly_same_def            the meaning of [same_complete_extensions]
     C19_poly_closure_complete    the closure of an admissible set E is a complete extension that
                                  contains E - the least one; the case E = G + {s}
     C19_poly_cut_refutes_class   a complete extension with a member of a class inside and a member
                                  outside refutes the claim for that class; hence the verdict
                                  [cut_by_closure F (lfp F) s C = true] exhibits two members of C
                                  that do NOT belong to the same complete extensions
     C19_poly_grounded_classes    the members of G belong to the same complete extensions (all), the
                                  members of D too (none), and a member of G and a member of D never
   Well-formedness is needed for the defeated class only.
   NOT proved here: that the python function is [cut_by_closure] (the Coq function is executable,
   to be compared by running both, as tools/poly_compare.py does for C03poly); the python loop stops
   at the first sweep that changes nothing, the Coq one always runs (number of arguments + 1)
   sweeps - Proofs/PolyClasses.v [acc_iter_closed]: once the set is closed, sweeps change nothing. *)
From Crusta Require Import Spec.AF Spec.SemFacts Spec.Theory.
From Crusta Require Import Proofs.PolyOracleDefs Proofs.PolyOracle.
From Crusta Require Import Proofs.PolyClassesDefs Proofs.PolyClasses.
From Coq Require Import List Bool.
Import ListNotations.

(* the judged claim: a and b belong to exactly the same complete extensions *)
Theorem C19_poly_same_def : forall F a b,
  same_complete_extensions F a b <-> (forall E, co F E -> (In a E <-> In b E)).
Proof. intros F a b. reflexivity. Qed.

(* Q1: the closure of an admissible set E is a complete extension, contains E and is inside every
   complete extension that contains E; in particular, when the grounded extension plus one argument
   s is admissible, its closure is a complete extension that contains s and the grounded extension *)
Theorem C19_poly_closure_complete : forall F,
  (forall E, adm F E ->
     co F (acc_closure F E) /\ incl E (acc_closure F E) /\
     forall S, co F S -> incl E S -> incl (acc_closure F E) S) /\
  (forall s, adm F (s :: lfp F) ->
     co F (acc_closure F (s :: lfp F)) /\
     In s (acc_closure F (s :: lfp F)) /\ incl (lfp F) (acc_closure F (s :: lfp F))).
Proof. exact PolyClasses.poly_closure_complete. Qed.

(* Q2: a complete extension E with a in E and b not in E refutes "a and b belong to exactly the same
   complete extensions"; when the oracle's test fires for the seed s and the class C, two members of
   C are so separated - by a complete extension that contains s and the grounded extension *)
Theorem C19_poly_cut_refutes_class : forall F,
  (forall E a b, co F E -> In a E -> ~ In b E -> ~ same_complete_extensions F a b) /\
  (forall s C, cut_by_closure F (lfp F) s C = true ->
     exists a b, In a C /\ In b C /\ ~ same_complete_extensions F a b) /\
  (forall s C, cut_by_closure F (lfp F) s C = true ->
     exists E a b, co F E /\ In s E /\ incl (lfp F) E /\
       In a C /\ In b C /\ In a E /\ ~ In b E).
Proof. exact PolyClasses.poly_cut_refutes_class. Qed.

(* Q3: the arguments of the grounded extension belong to exactly the same complete extensions
   (every one); the arguments attacked by a member of the grounded extension too (none); an
   argument of the first kind and one of the second never do *)
Theorem C19_poly_grounded_classes : forall F, wf F ->
  (forall a b, In a (lfp F) -> In b (lfp F) -> same_complete_extensions F a b) /\
  (forall a b, (exists c, In c (lfp F) /\ att F c a) -> (exists c, In c (lfp F) /\ att F c b) ->
     same_complete_extensions F a b) /\
  (forall a b, In a (lfp F) -> (exists c, In c (lfp F) /\ att F c b) ->
     ~ same_complete_extensions F a b).
Proof. exact PolyClasses.poly_grounded_classes. Qed.

(* ------------------------------------------------------------------ *)
(* Example: 0 -> 1 -> 2, 3 -> 2, 4 -> 3, 6 -> 4, 5 <-> 6.
   G = {0}, D = {1}.  The complete extensions are {0}, {0, 3, 6} and {0, 2, 4, 5}.
   Seed 5: G + {5} is admissible (5 answers its only attacker 6).  hit = {6, 1}.  First sweep: 2
   and 3 have an attacker outside hit, 4 (attacked by 6 only) enters and 3 enters hit.  Second
   sweep: both attackers 1, 3 of 2 are in hit, 2 enters: the closure is {2, 4, 5, 0}, reached in
   two sweeps.  It cuts a class {2, 3} (2 inside, 3 outside) and does not cut {2, 4} (both inside)
   nor {3, 6} (both outside; both inside the closure {3, 6, 0} of the seed 6, which cuts {2, 3} too).
   G + {4} and G + {3} are not admissible: no verdict for these seeds. *)
Definition ex_classes : af := compact 7 [(0,1); (1,2); (5,6); (6,5); (6,4); (4,3); (3,2)].

Example C19_poly_example :
  wf ex_classes /\ lfp ex_classes = [0] /\
  all_exts CO ex_classes = [[0]; [0; 3; 6]; [0; 2; 4; 5]] /\
  adm ex_classes (5 :: lfp ex_classes) /\
  hit ex_classes (5 :: lfp ex_classes) = [6; 1] /\
  prop_iter ex_classes 1 ([5; 0], [6; 1]) = ([4; 5; 0], [3; 6; 1]) /\
  acc_closure ex_classes (5 :: lfp ex_classes) = [2; 4; 5; 0] /\
  acc_closure ex_classes (6 :: lfp ex_classes) = [3; 6; 0] /\
  map (seed_admb ex_classes) [[5; 0]; [6; 0]; [4; 0]; [3; 0]] = [true; true; false; false] /\
  map (cut_by_closure ex_classes (lfp ex_classes) 5) [[2; 3]; [2; 4]; [3; 6]] = [true; false; false] /\
  map (cut_by_closure ex_classes (lfp ex_classes) 6) [[2; 3]; [2; 4]; [3; 6]] = [true; false; false] /\
  cut_by_closure ex_classes (lfp ex_classes) 4 [2; 3] = false /\
  ~ same_complete_extensions ex_classes 2 3.
Proof.
  split; [apply PolyOracle.wf_compactb; vm_compute; reflexivity|].
  split; [vm_compute; reflexivity|].
  split; [vm_compute; reflexivity|].
  split; [apply admb_adm; vm_compute; reflexivity|].
  do 8 (split; [vm_compute; reflexivity|]).
  destruct (proj1 (proj2 (C19_poly_cut_refutes_class ex_classes)) 5 [2; 3])
    as [a [b [Ha [Hb Hn]]]]; [vm_compute; reflexivity|].
  (* the two separated members of {2, 3} are 2 and 3, in one order or the other *)
  intros H. apply Hn. intros E HE.
  destruct Ha as [<-|[<-|[]]]; destruct Hb as [<-|[<-|[]]];
    [reflexivity | exact (H E HE) | symmetry; exact (H E HE) | reflexivity].
Qed.

Print Assumptions C19_poly_same_def.
Print Assumptions C19_poly_closure_complete.
Print Assumptions C19_poly_cut_refutes_class.
Print Assumptions C19_poly_grounded_classes.
