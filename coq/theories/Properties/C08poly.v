(* C08poly - the polynomial oracle of the checks (checks/dyn_common.py dyn_poly_verdict, the status
   rule) and the model of the dynamic solvers never disagree.  Statements only; proofs are [exact]
   (Proofs/PolyOracleDyn.v).

   For every valid SAT oracle and every history (any interleaving of updates and queries, any fuel,
   any certificate flag; [vreach] as in Properties/C08.v (6)): if a query of the dynamic complete
   (DC), stable (DC, DS) or preferred (DS) solver on a label of the specification store
   [run_ops fresh os] of the whole history returns a status b, and the rule [dyn_poly_status]
   (Proofs/PolyOracleDefs.v; it reads the grounded extension of the abstract framework of that
   store: argument in it / defeated by it / grounded extension stable) decides the query with w,
   then b = w.  The rule itself is correct for the semantics (Properties/C03poly.v
   C03_poly_status_sound); this file composes it with the functional theorems of C08.
   Not covered (no functional theorem in the model): the assumptions-on-attacks variants, DS of the
   complete solver and DC of the preferred solver (served by other solver types in the library). *)
From Crusta Require Import Model.Dynamic Spec.Invariance Proofs.SolverBasics Proofs.DynDefs Proofs.DynProofs Proofs.DynEnc
  Proofs.DynFunDefs Proofs.DynInv Proofs.DynFun Proofs.DynTotal Proofs.DynPref Proofs.CompProofs Proofs.SolverWholeEx.
From Crusta Require Import Proofs.PolyOracleDefs.
From Crusta Require Proofs.PolyOracleDyn.

Section C08poly.
Variable L : Type.
Variable leqb : L -> L -> bool.
Hypothesis leqb_spec : forall x y, leqb x y = true <-> x = y.

Notation fresh := (fresh_fw L leqb).
Notation run_ops := (run_ops L leqb).

Theorem C08_poly_complete_stable :
  forall oracle thr k s ps os fuel q cert l id s' b c ps' w,
  valid_oracle oracle -> vreach L leqb oracle thr k s ps os ->
  (k = KCo /\ q = QDC) \/ (k = KSt /\ (q = QDC \/ q = QDS)) ->
  get_argument L leqb (run_ops fresh os) l = Some id ->
  dyn_query oracle L leqb thr fuel s q cert l ps = Done (s', (b, c)) ps' ->
  dyn_poly_status (af_of (run_ops fresh os)) (match k with KSt => ST | _ => CO end)
                  (match q with QDC => Cred | _ => Skep end) id = Some w ->
  b = w.
Proof. exact (PolyOracleDyn.dyn_model_agrees_co_st L leqb leqb_spec). Qed.

Theorem C08_poly_preferred :
  forall oracle, valid_oracle oracle ->
  forall thr s ps os fuel cert l id s' b c ps' w,
  vreach L leqb oracle thr KPr s ps os ->
  get_argument L leqb (run_ops fresh os) l = Some id ->
  dyn_query oracle L leqb thr fuel s QDS cert l ps = Done (s', (b, c)) ps' ->
  dyn_poly_status (af_of (run_ops fresh os)) PR Skep id = Some w ->
  b = w.
Proof. exact (PolyOracleDyn.dyn_model_agrees_pr L leqb leqb_spec). Qed.

End C08poly.

(* the premises are satisfiable: brute-force (valid) oracle, history +1 +2 +3 +4 1->2 3->4 4->3 (ids
   0 1 2 3; G = {0}, not stable: 2 and 3 are undecided).  The stable solver answers DC of label 2
   (id 1, defeated by G) with NO and the rule decides NO; the preferred solver answers DS of label 2
   with NO and the rule decides NO; the rule is silent on DC of label 3 under ST *)
Example C08_poly_example :
  let os := [OpNewArg 1; OpNewArg 2; OpNewArg 3; OpNewArg 4; OpNewAtt 1 2; OpNewAtt 3 4; OpNewAtt 4 3] in
  let hist := ((((((([] ++ [OpNewArg 1]) ++ [OpNewArg 2]) ++ [OpNewArg 3]) ++ [OpNewArg 4]) ++ [OpNewAtt 1 2])
                ++ [OpNewAtt 3 4]) ++ [OpNewAtt 4 3]) in
  let F := af_of (Store.run_ops nat Nat.eqb (fresh_fw nat Nat.eqb) os) in
  valid_oracle bf_oracle /\
  get_argument nat Nat.eqb (Store.run_ops nat Nat.eqb (fresh_fw nat Nat.eqb) os) 2 = Some 1 /\
  (exists s ps s' c ps',
     vreach nat Nat.eqb bf_oracle 1 KSt s ps hist /\
     dyn_query bf_oracle nat Nat.eqb 1 10 s QDC true 2 ps = Done (s', (false, c)) ps') /\
  dyn_poly_status F ST Cred 1 = Some false /\
  (exists s ps s' c ps',
     vreach nat Nat.eqb bf_oracle 1 KPr s ps hist /\
     dyn_query bf_oracle nat Nat.eqb 1 40 s QDS true 2 ps = Done (s', (false, c)) ps') /\
  dyn_poly_status F PR Skep 1 = Some false /\
  dyn_poly_status F ST Cred 2 = None.
Proof.
  cbv zeta. split; [exact bf_oracle_valid|]. split; [vm_compute; reflexivity|].
  split.
  { do 5 eexists. split.
    - do 7 eapply vreach_update. eapply vreach_new with (ps0 := init_st CadicalLike). reflexivity.
    - vm_compute. reflexivity. }
  split; [vm_compute; reflexivity|].
  split.
  { do 5 eexists. split.
    - do 7 eapply vreach_update. eapply vreach_new with (ps0 := init_st CadicalLike). reflexivity.
    - vm_compute. reflexivity. }
  split; vm_compute; reflexivity.
Qed.

Print Assumptions C08_poly_complete_stable.
Print Assumptions C08_poly_preferred.
