(* C16 - the exchange with an external SAT solver is well-formed and cannot hang.
   Statements only; every proof is [exact] of a lemma of Proofs/{DimacsProofs,ReplyProofs,
   SatObjProofs,PipeProofs}.v.  Vocabulary: Sat/Dimacs.v (printer, strict parser, reply parser),
   Model/SatObjects.v (BufferedSatSolver = [buf_step]), Model/SatSpec.v, Model/Pipe.v. *)
From Crusta Require Import Sat.Cnf Sat.Dimacs Sat.Dpll Model.SatObjects Model.SatSpec Model.Pipe.
From Crusta Require Import Proofs.DimacsProofs Proofs.ReplyProofs Proofs.SatObjProofs Proofs.PipeProofs.
From Crusta Require Proofs.Clauses2.
Import ListNotations.

(* ---------------------------------------------------------------- (a) the instance *)
(* For every history of add_clause / reserve / solve / n_vars calls on a BufferedSatSolver (whatever
   the solving function answered before) and every assumption list, the bytes handed to the
   solving function are: the header with a variable count [nv] and the EXACT clause count, then
   the clauses added so far followed by one unit clause per assumption; [nv] is at least every
   variable occurring; and the strict parser reads exactly this back. *)
Theorem C16_instance_wellformed : forall fn ops a, hist_ok ops = true -> clause_ok a = true ->
  let s := fst (run_obj (buf_step fn) buf_new ops) in
  let nv := Nat.max (hist_nvars ops) (clause_max a) in
  let f := clauses_of ops ++ units a in
  buf_instance s a = print_preamble nv (length f) ++ print_clauses f /\
  cnf_max f <= nv /\
  parse_instance (buf_instance s a) = Some (nv, f).
Proof. exact instance_wellformed. Qed.

(* the strict parser inverts the printer, and accepts only instances whose header covers every
   variable and whose literals are non-zero *)
Theorem C16_strict_parser_roundtrip : forall nv f,
  cnf_ok f = true -> cnf_max f <= nv -> parse_instance (print_instance nv f) = Some (nv, f).
Proof. exact parse_print_instance. Qed.

Theorem C16_strict_parser_sound : forall text nv f,
  parse_instance text = Some (nv, f) -> cnf_ok f = true /\ cnf_max f <= nv.
Proof. exact parse_instance_sound. Qed.

(* ---------------------------------------------------------------- (b) the reply *)
(* every layout of a well-formed SAT reply (status line first or last, any split of the value
   lines, ignorable lines anywhere) is read back as exactly the printed model *)
Theorem C16_reply_model_read_back : forall status_last pre lay post m,
  (Z.of_nat (length m) <= isize_max)%Z ->
  forallb filler_ok pre = true -> layout_ok lay = true -> forallb filler_ok post = true ->
  reply_parse (length m) (render_sat status_last pre lay post m) = RSat m.
Proof. exact reply_sat_roundtrip. Qed.

Theorem C16_reply_unsat_read_back : forall n pre post,
  forallb filler_ok pre = true -> forallb filler_ok post = true ->
  reply_parse n (render_unsat pre post) = RUnsat.
Proof. exact reply_unsat_roundtrip. Qed.

(* ANY byte string: a model is reported only if the line `s SATISFIABLE` was read and some value
   line carries a terminating 0 (so a reply without status line, or cut before the 0, is Unknown
   or a panic, never a result); the model has one entry per declared variable *)
Theorem C16_reply_sat_needs_status_and_terminator : forall n out m, reply_parse n out = RSat m ->
  In b_sat (lines_of out) /\ has_terminator (lines_of out) /\ length m = n.
Proof. exact reply_sat_inv. Qed.

Theorem C16_reply_unsat_needs_status : forall n out,
  reply_parse n out = RUnsat -> In b_unsat (lines_of out).
Proof. exact reply_unsat_inv. Qed.

Theorem C16_reply_empty_unknown : forall n, reply_parse n [] = RUnknown.
Proof. exact reply_empty. Qed.

(* the canonical replies cut before the terminating 0 are Unknown, for every split of the value
   lines.  PARTIAL: the cut is at a word boundary only (and ignorable lines may follow the cut).
   Kept as it was; the full-strength statement (a cut ANYWHERE before the terminating 0, also
   inside a literal / the `v` marker / the status line / a comment) is C16_reply_truncated below. *)
Theorem C16_reply_truncated_partial : forall pre lay post m,
  (Z.of_nat (length m) <= isize_max)%Z ->
  forallb filler_ok pre = true -> layout_ok lay = true -> forallb filler_ok post = true ->
  reply_parse (length m) (render_fill pre ++ status_sat ++ render_v_cut lay (model_lits m) ++ render_fill post) = RUnknown.
Proof. exact reply_truncated_unknown. Qed.

(* FULL STRENGTH: a canonical SAT reply (status line first or last, every split of the value lines,
   ignorable lines anywhere) cut ANYWHERE before the 0 that terminates the value lines is never
   reported as a result (neither a model nor Unsat): it is Unknown or a panic.
   The equation says: the complete reply is [out] (what was received), then [cut] (lost), then the
   terminating `0` with its line feed, then what follows the value lines (the status line if it
   comes last, and the ignorable lines [post]).  Since [render_sat] is
   [render_fill pre ++ status? ++ render_v lay (model_lits m) ++ status? ++ render_fill post] and
   [render_v] ends with " 0\n", this determines [out ++ cut] uniquely as the text up to, excluding,
   the terminating 0 (C16_reply_cut_point: such a decomposition exists for every reply), and
   [out] ranges over ALL its prefixes: cuts inside a literal ("-1" of "-12", or "-" alone: a
   panic), inside or right after the `v` marker, inside the status line (a panic), inside a
   comment, at a line end, the empty output.  It holds whatever the declared variable count [n]
   is (the reader is called with [n = length m]) and needs no size bound; [filler_ok] (comments
   are ASCII without line feed / carriage return) is needed: a comment containing a line feed
   could smuggle in a status or value line. *)
Theorem C16_reply_truncated : forall n status_last pre lay post m out cut,
  forallb filler_ok pre = true -> layout_ok lay = true ->
  render_sat status_last pre lay post m =
    out ++ cut ++ [48; 10]%N ++ (if status_last then status_sat else []) ++ render_fill post ->
  reply_parse n out = RUnknown \/ reply_parse n out = RPanic.
Proof. exact reply_truncated_any_cut. Qed.

(* every canonical SAT reply has this shape (the hypothesis above is satisfiable for all
   parameters, e.g. with [out := before0], [cut := []] or any other split of [before0]) *)
Theorem C16_reply_cut_point : forall status_last pre lay post m, exists before0,
  render_sat status_last pre lay post m =
    before0 ++ [48; 10]%N ++ (if status_last then status_sat else []) ++ render_fill post.
Proof. exact reply_cut_point. Qed.

(* the key fact behind it: a non-empty prefix of the decimal text of a non-zero literal is never
   read as the literal 0 (it is another literal, or not a literal at all) *)
Theorem C16_cut_literal_not_zero : forall l tok e, l <> 0%Z -> tok <> [] -> tok ++ e = print_lit l ->
  parse_isize tok <> Some 0%Z.
Proof. exact cut_literal_not_zero. Qed.

(* ---------------------------------------------------------------- (c) no hang *)
(* parent = drain stdout to end-of-file, then wait (the code as it is): for every child program,
   every instance size and all pipe capacities >= 1, no reachable non-final state is stuck *)
Theorem C16_pipe_never_stuck : forall c s,
  ord c = DrainThenWait -> 1 <= cap_in c -> 1 <= cap_out c -> reach c s -> stuck c s = false.
Proof. exact drain_then_wait_never_stuck. Qed.

(* and every transition decreases a natural number: there is no infinite run either *)
Theorem C16_pipe_runs_finite : forall c s s', In s' (steps c s) -> measure s' < measure s.
Proof. exact measure_decreases. Qed.

(* the model can exhibit the former defect: parent = wait, then drain; a child that reads its
   input and writes more than the stdout pipe holds: a stuck state is reachable *)
Theorem C16_wait_then_drain_can_hang : forall ci co il ol, 1 <= ci -> co < ol ->
  exists s, reach (wcfg ci co il ol) s /\ stuck (wcfg ci co il ol) s = true.
Proof. exact wait_then_drain_can_hang. Qed.

(* the hypotheses are satisfiable / the statements are not vacuous *)
Example C16_example_instance :
  let ops := [OAdd [1; 2]%Z; OReserve 1; OAdd [-1; -2]%Z; OSolve [2]%Z] in
  hist_ok ops = true /\
  parse_instance (buf_instance (fst (run_obj (buf_step vdpll_fn) buf_new ops)) [7]%Z)
  = Some (7, [[1; 2]; [-1; -2]; [7]]%Z).
Proof. vm_compute. split; reflexivity. Qed.

Example C16_example_reply :
  reply_parse 3 (render_sat true [FBare] [([FText [120%N]; FEmpty], 1); ([FV], 0)] [] [Some true; None; Some false])
  = RSat [Some true; None; Some false].
Proof. vm_compute. reflexivity. Qed.

(* cuts inside the literal -10 of the reply "s SATISFIABLE\nv -10 0\n": "v -1" is read as another
   literal and there is no terminator (Unknown); "v -" is not a literal (panic) *)
Example C16_example_truncated :
  let m := repeat None 9 ++ [Some false] in
  let out := (status_sat ++ [118; 32; 45; 49])%N in
  render_sat false [] [] [] m = out ++ [48; 32]%N ++ [48; 10]%N ++ [] ++ render_fill [] /\
  reply_parse (length m) out = RUnknown /\
  reply_parse (length m) (status_sat ++ [118; 32; 45]%N) = RPanic /\
  reply_parse (length m) (render_sat false [] [] [] m) = RSat m.
Proof. vm_compute. repeat split; reflexivity. Qed.

(* "The call returns whatever the volume of the solver's output", in plain words.  [Clauses2.path c s l]:
   l is a run from s - each state is a successor ([steps c]) of the previous one.  With the parent
   draining stdout before waiting (the code as it is), for EVERY child program (any number of reads
   and of writes of any size), instance size and pipe capacities >= 1: every run from the initial
   state has at most [measure (init c)] transitions, and wherever it stands it has either reached a
   final state (both parent actions done: exec_solver returns) or can be continued.  So every run
   that cannot be continued has returned, and there is no infinite run. *)
Theorem C16_call_returns : forall c, ord c = DrainThenWait -> 1 <= cap_in c -> 1 <= cap_out c ->
  forall l, Clauses2.path c (init c) l ->
    length l <= measure (init c) /\
    (final (last l (init c)) = true \/ exists s', In s' (steps c (last l (init c)))).
Proof. exact Clauses2.call_returns. Qed.

Print Assumptions C16_instance_wellformed.
Print Assumptions C16_strict_parser_roundtrip.
Print Assumptions C16_strict_parser_sound.
Print Assumptions C16_reply_model_read_back.
Print Assumptions C16_reply_unsat_read_back.
Print Assumptions C16_reply_sat_needs_status_and_terminator.
Print Assumptions C16_reply_unsat_needs_status.
Print Assumptions C16_reply_empty_unknown.
Print Assumptions C16_reply_truncated_partial.
Print Assumptions C16_reply_truncated.
Print Assumptions C16_reply_cut_point.
Print Assumptions C16_cut_literal_not_zero.
Print Assumptions C16_pipe_never_stuck.
Print Assumptions C16_pipe_runs_finite.
Print Assumptions C16_wait_then_drain_can_hang.
Print Assumptions C16_call_returns.
