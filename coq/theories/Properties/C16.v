(* placeholder, replaced below *)
From Crusta Require Import Model.SatObjects Model.Pipe.
Theorem C16_placeholder : True. Proof. exact I. Qed.
Print Assumptions C16_placeholder.
