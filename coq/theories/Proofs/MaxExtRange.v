(* Correctness and SAT-call bounds of the maximal-range procedures of Model/Solvers.v
   (MaximalExtensionComputer with the range closure: SE / DC / DS for the semi-stable and the
   stage semantics inside one connected component), for EVERY valid SAT oracle, every compact
   component framework and every encoder that has range variables.

   A model [m] of the session denotes a pair: the set [ext_of e n (val_of m)] and the valuation
   [R] of the n range variables ("not false in m").  The range clauses of the exp / hybrid
   encoders are one-directional, so [R] is only known to be INCLUDED in the range of the set; the
   measure of progress is [R], never the set.  Blocking clauses exclude every model whose range
   valuation is included in an already examined one. *)
From Crusta Require Import Spec.AF Spec.SemFacts Spec.Theory.
From Crusta Require Import Sat.Cnf Sat.Prog Model.Encoders Model.Graph Model.Solvers.
From Crusta Require Import Proofs.ProgLaws Proofs.EncSpec Proofs.EncBase Proofs.EncAll.
From Crusta Require Import Proofs.SolverBasics Proofs.SolverCc Proofs.SolverThms.
From Coq Require Import ZifyBool.
Import ListNotations.
Open Scope prog_scope.

(* ------------------------------------------------------------------------------------------ *)
(** * 1. Generic list facts *)

Lemma filter_len_le A (f g : A -> bool) l :
  (forall x, In x l -> f x = true -> g x = true) ->
  length (filter f l) <= length (filter g l).
Proof.
  induction l as [|x r IH]; intros H; [apply le_n|]. cbn [filter].
  assert (Hr : length (filter f r) <= length (filter g r)).
  { apply IH. intros y Hy. apply H. now right. }
  destruct (f x) eqn:Ef.
  - rewrite (H x (or_introl eq_refl) Ef). cbn [length]. lia.
  - destruct (g x); cbn [length]; lia.
Qed.

Lemma filter_len_lt A (f g : A -> bool) l x :
  (forall y, In y l -> f y = true -> g y = true) ->
  In x l -> g x = true -> f x = false ->
  length (filter f l) < length (filter g l).
Proof.
  induction l as [|y r IH]; intros H Hx Hg Hf; [destruct Hx|]. cbn [filter].
  assert (Hr : forall z, In z r -> f z = true -> g z = true) by (intros z Hz; apply H; now right).
  pose proof (filter_len_le A f g r Hr) as Hle.
  destruct Hx as [->|Hx].
  - rewrite Hf, Hg. cbn [length]. lia.
  - specialize (IH Hr Hx Hg Hf). destruct (f y) eqn:Ef.
    + rewrite (H y (or_introl eq_refl) Ef). cbn [length]. lia.
    + destruct (g y); cbn [length]; lia.
Qed.

Lemma filter_all_true A (f : A -> bool) l : (forall x, In x l -> f x = true) -> filter f l = l.
Proof.
  induction l as [|x r IH]; intros H; [reflexivity|]. cbn [filter].
  rewrite (H x (or_introl eq_refl)). f_equal. apply IH. intros y Hy. apply H. now right.
Qed.

Lemma seq_as_map a n : seq a n = map (fun i => a + i) (seq 0 n).
Proof.
  revert a. induction n as [|n IH]; intros a; [reflexivity|]. cbn [seq map].
  rewrite Nat.add_0_r. f_equal. rewrite (IH (S a)), <- (seq_shift n 0), map_map.
  apply map_ext. intros i. lia.
Qed.

Lemma filter_map_comm A B (g : A -> B) (p : B -> bool) l :
  filter p (map g l) = map g (filter (fun x => p (g x)) l).
Proof.
  induction l as [|x r IH]; [reflexivity|]. cbn [map filter]. destruct (p (g x)); cbn [map]; now rewrite IH.
Qed.

(* ------------------------------------------------------------------------------------------ *)
(** * 2. Range valuations: boolean functions on 0..n-1 *)

Definition rv := nat -> bool.
Definition rincl (n : nat) (R B : rv) : Prop := forall i, i < n -> R i = true -> B i = true.
Definition rinclb (n : nat) (R B : rv) : bool := forallb (fun i => implb (R i) (B i)) (seq 0 n).
Definition rcard (n : nat) (R : rv) : nat := length (filter R (seq 0 n)).

Lemma rinclb_spec n R B : rinclb n R B = true <-> rincl n R B.
Proof.
  unfold rinclb, rincl. rewrite forallb_forall. split.
  - intros H i Hi Hr. specialize (H i). rewrite in_seq in H. specialize (H ltac:(lia)).
    rewrite Hr in H. exact H.
  - intros H i Hi. apply in_seq in Hi. destruct (R i) eqn:E; [|reflexivity]. cbn. apply H; [lia|exact E].
Qed.
Lemma rinclb_false n R B : rinclb n R B = false <-> ~ rincl n R B.
Proof. rewrite <- rinclb_spec. destruct (rinclb n R B); intuition congruence. Qed.
Lemma rincl_dec n R B : {rincl n R B} + {~ rincl n R B}.
Proof. destruct (rinclb n R B) eqn:E; [left; now apply rinclb_spec|right; now apply rinclb_false]. Qed.
Lemma rincl_refl n R : rincl n R R.
Proof. intros i _ H. exact H. Qed.
Lemma rincl_trans n R S T : rincl n R S -> rincl n S T -> rincl n R T.
Proof. intros H1 H2 i Hi H. apply H2; [exact Hi|]. now apply H1. Qed.
Lemma rincl_ext_l n R R' B : (forall i, i < n -> R i = R' i) -> rincl n R B -> rincl n R' B.
Proof. intros E H i Hi Hr. apply H; [exact Hi|]. now rewrite E. Qed.
Lemma rincl_ext_r n R B B' : (forall i, i < n -> B i = B' i) -> rincl n R B -> rincl n R B'.
Proof. intros E H i Hi Hr. rewrite <- E by exact Hi. now apply H. Qed.

Lemma rcard_le n R : rcard n R <= n.
Proof.
  unfold rcard. rewrite <- (seq_length n 0) at 2.
  rewrite <- (filter_all_true nat (fun _ => true) (seq 0 n)) at 2 by reflexivity.
  apply filter_len_le. reflexivity.
Qed.
Lemma rcard_lt n R R' : rincl n R R' -> ~ rincl n R' R -> rcard n R < rcard n R'.
Proof.
  intros H1 H2. apply rinclb_false in H2. unfold rinclb in H2.
  apply forallb_false_ex in H2. destruct H2 as [i [Hi Hx]].
  unfold rcard. apply (filter_len_lt nat R R' (seq 0 n) i).
  - intros y Hy. apply in_seq in Hy. apply H1. lia.
  - exact Hi.
  - destruct (R' i); [reflexivity|]. destruct (R i); discriminate.
  - destruct (R i); [|reflexivity]. destruct (R' i); discriminate.
Qed.
Lemma rcard_pos n R i : i < n -> R i = true -> 1 <= rcard n R.
Proof.
  intros Hi Hr. unfold rcard.
  assert (H : In i (filter R (seq 0 n))) by (apply filter_In; split; [apply in_seq; lia|exact Hr]).
  destruct (filter R (seq 0 n)); [destruct H|cbn [length]; lia].
Qed.

(* ------------------------------------------------------------------------------------------ *)
(** * 3. Valuations that agree on the variables of a clause set *)

Lemma vtrue_agree (v v' : val) l : v (lit_var l) = v' (lit_var l) -> vtrue v l = vtrue v' l.
Proof. unfold vtrue. intros ->. reflexivity. Qed.
Lemma vsat_agree (v v' : val) c :
  (forall l, In l c -> v (lit_var l) = v' (lit_var l)) -> vsat_clause v c = vsat_clause v' c.
Proof.
  unfold vsat_clause. induction c as [|l c IH]; intros H; [reflexivity|]. cbn [existsb].
  rewrite (vtrue_agree v v' l) by (apply H; now left). rewrite IH; [reflexivity|].
  intros l' Hl'. apply H. now right.
Qed.
Lemma vmodels_agree (v v' : val) D k :
  bounded D k -> (forall x, x <= k -> v x = v' x) -> vmodels v D = vmodels v' D.
Proof.
  intros HB E. unfold vmodels. induction D as [|c D IH]; [reflexivity|]. cbn [forallb].
  rewrite (vsat_agree v v' c).
  - rewrite IH; [reflexivity|]. intros c' l Hc Hl. apply (HB c' l); [now right|exact Hl].
  - intros l Hl. apply E. apply (HB c l); [now left|exact Hl].
Qed.

(* the variable layout of the encoders that have range variables *)
Lemma frv_range_var e n f i : first_range_var e n = Some f -> range_var e n i = f + i.
Proof.
  destruct e; cbn [first_range_var range_var]; intros H; try discriminate; inversion H;
    unfold aux_range, exp_range; lia.
Qed.
Lemma frv_arg_lt e n f a : first_range_var e n = Some f -> a < n -> arg_var e a < f.
Proof.
  destruct e; cbn [first_range_var arg_var]; intros H Ha; try discriminate; inversion H;
    unfold aux_range, exp_range, aux_var, exp_var; lia.
Qed.
Lemma frv_reserve e thr F r C f :
  encode_af e thr true F = Some (r, C) -> first_range_var e (length (args F)) = Some f ->
  r = Some (f + length (args F) - 1).
Proof.
  unfold encode_af, encode.
  destruct e; cbn [first_range_var]; intros H1 H2; try discriminate; inversion H1; inversion H2;
    f_equal; unfold aux_range, exp_range; lia.
Qed.
Lemma frv_some e : enc_base e <> BSt -> forall n, exists f, first_range_var e n = Some f.
Proof. destruct e; cbn; intros H n; try (eexists; reflexivity). now elim H. Qed.

(* ------------------------------------------------------------------------------------------ *)
(** * 4. Models of the range encoding and the blocking clauses *)

Definition isf (o : option bool) : bool := match o with Some false => true | _ => false end.

Section Range.
Variable thr : nat.
Hypothesis Hthr : 1 <= thr.
Variable e : enc.
Variable F : af.
Variable n : nat.
Hypothesis HF : compact_af F n.
Variable C : cnf.
Hypothesis HC : enc_clauses e thr true F = Some C.
Variable frv : nat.
Hypothesis Hfrv : first_range_var e n = Some frv.
Variable selv : nat.
Hypothesis HselC : bounded C (selv - 1).
Hypothesis Hselr : frv + n <= selv.

Notation isbase := (basep (enc_base e) F).

Definition Rv (v : val) : rv := fun i => v (frv + i).
Definition rng (T : list nat) : rv := in_rangeb F T.
Definition rmax (S : list nat) : Prop :=
  isbase S /\ forall T, isbase T -> range_incl F S T -> range_incl F T S.

Lemma frv_pos : 0 < frv.
Proof. pose proof (range_var_pos e n 0). rewrite (frv_range_var e n frv 0 Hfrv) in H. lia. Qed.
Lemma selv_pos : 0 < selv.
Proof. pose proof frv_pos. lia. Qed.

Lemma range_incl_rincl S T : range_incl F S T <-> rincl n (rng S) (rng T).
Proof.
  unfold range_incl, rincl, rng. split.
  - intros H i Hi Hr. apply in_rangeb_spec. apply H; [now apply (compact_in_args F n i HF)|].
    now apply in_rangeb_spec.
  - intros H a Ha Hr. apply in_rangeb_spec. apply H; [now apply (compact_in_args F n a HF)|].
    now apply in_rangeb_spec.
Qed.

Lemma rng_seteq S T i : seteq S T -> rng S i = rng T i.
Proof.
  intros E. unfold rng. apply bool_eq_iff. rewrite !in_rangeb_spec. split; apply in_range_seteq;
    [exact E|now apply seteq_sym].
Qed.

Lemma range_sound v : vmodels v C = true ->
  isbase (ext_of e n v) /\ rincl n (Rv v) (rng (ext_of e n v)).
Proof.
  intros Hv. destruct (all_range_sound e thr F n Hthr HF C v HC Hv) as [H1 H2]. split; [exact H1|].
  intros i Hi Hr. apply in_rangeb_spec. apply H2; [exact Hi|].
  rewrite (frv_range_var e n frv i Hfrv). exact Hr.
Qed.

Lemma range_complete T : isbase T ->
  exists v, vmodels v C = true /\ (forall a, a < n -> (v (arg_var e a) = true <-> In a T)) /\
            (forall i, i < n -> Rv v i = rng T i).
Proof.
  intros HT. destruct (all_range_complete e thr F n Hthr HF C T HC HT) as [v [H1 [H2 H3]]].
  exists v. split; [exact H1|split; [exact H2|]]. intros i Hi. apply bool_eq_iff.
  unfold Rv, rng. rewrite in_rangeb_spec, <- (frv_range_var e n frv i Hfrv). now apply H3.
Qed.

Lemma rmax_equiv S T : rmax S -> isbase T -> range_incl F S T -> rmax T.
Proof.
  intros [HS Hmax] HT Hst. split; [exact HT|]. intros X HX Htx.
  pose proof (Hmax T HT Hst) as Hts.
  apply (range_incl_trans F X S T); [|exact Hst].
  apply Hmax; [exact HX|]. now apply (range_incl_trans F S T X).
Qed.

(* valuations cut above the selector *)
Definition low (v : val) : val := fun x => if x <? selv then v x else false.
Definition hi_false (v : val) : Prop := forall x, selv < x -> v x = false.

Lemma low_models v : vmodels (low v) C = vmodels v C.
Proof.
  apply (vmodels_agree (low v) v C (selv - 1) HselC). intros x Hx. unfold low.
  pose proof selv_pos. destruct (Nat.ltb_spec x selv); [reflexivity|lia].
Qed.
Lemma low_sel v : low v selv = false.
Proof. unfold low. now rewrite Nat.ltb_irrefl. Qed.
Lemma low_hi v : hi_false (low v).
Proof. intros x Hx. unfold low. destruct (Nat.ltb_spec x selv); [lia|reflexivity]. Qed.
Lemma low_below v x : x < selv -> low v x = v x.
Proof. intros Hx. unfold low. destruct (Nat.ltb_spec x selv); [reflexivity|lia]. Qed.
Lemma low_Rv v i : i < n -> Rv (low v) i = Rv v i.
Proof. intros Hi. unfold Rv. apply low_below. lia. Qed.

(* the literal lists of split_in_range *)
Definition rlit (i : nat) : lit := zlit (frv + i).
Definition rin (R : rv) : list lit := map rlit (filter R (seq 0 n)).
Definition rout (R : rv) : list lit := map rlit (filter (fun i => negb (R i)) (seq 0 n)).
Definition bl (R : rv) : clause := rout R ++ [zlit selv].

Lemma vtrue_rlit v i : vtrue v (rlit i) = Rv v i.
Proof. unfold rlit, Rv. apply vtrue_zlit. pose proof frv_pos. lia. Qed.
Lemma vtrue_nrlit v i : vtrue v (negate (rlit i)) = negb (Rv v i).
Proof. unfold rlit, Rv. change (negate (zlit (frv + i))) with (znlit (frv + i)). apply vtrue_znlit. Qed.

Lemma all_rin v R : forallb (vtrue v) (rin R) = true <-> rincl n R (Rv v).
Proof.
  unfold rin, rincl. rewrite forallb_forall. split.
  - intros H i Hi Hr. rewrite <- vtrue_rlit. apply H. apply in_map. apply filter_In.
    split; [apply in_seq; lia|exact Hr].
  - intros H l Hl. apply in_map_iff in Hl. destruct Hl as [i [<- Hi]]. apply filter_In in Hi.
    destruct Hi as [Hi Hr]. apply in_seq in Hi. rewrite vtrue_rlit. apply H; [lia|exact Hr].
Qed.
Lemma sat_rout v R : vsat_clause v (rout R) = true <-> ~ rincl n (Rv v) R.
Proof.
  rewrite vsat_exists. unfold rout. split.
  - intros [l [Hl Ht]] Hinc. apply in_map_iff in Hl. destruct Hl as [i [<- Hi]].
    apply filter_In in Hi. destruct Hi as [Hi Hr]. apply in_seq in Hi. rewrite vtrue_rlit in Ht.
    rewrite (Hinc i ltac:(lia) Ht) in Hr. discriminate.
  - intros Hn. apply rinclb_false in Hn. unfold rinclb in Hn. apply forallb_false_ex in Hn.
    destruct Hn as [i [Hi Hx]]. exists (rlit i). split.
    + apply in_map. apply filter_In. split; [exact Hi|]. destruct (R i); [|reflexivity].
      destruct (Rv v i); discriminate.
    + rewrite vtrue_rlit. destruct (Rv v i); [reflexivity|discriminate].
Qed.
Lemma all_nrout v R : forallb (vtrue v) (map negate (rout R)) = true <-> rincl n (Rv v) R.
Proof.
  unfold rout, rincl. rewrite forallb_forall. split.
  - intros H i Hi Hr. destruct (R i) eqn:E; [reflexivity|exfalso].
    assert (Hx : vtrue v (negate (rlit i)) = true).
    { apply H. apply in_map. apply in_map. apply filter_In. split; [apply in_seq; lia|now rewrite E]. }
    rewrite vtrue_nrlit, Hr in Hx. discriminate.
  - intros H l Hl. apply in_map_iff in Hl. destruct Hl as [l' [<- Hl']]. apply in_map_iff in Hl'.
    destruct Hl' as [i [<- Hi]]. apply filter_In in Hi. destruct Hi as [Hi Hr]. apply in_seq in Hi.
    rewrite vtrue_nrlit. destruct (Rv v i) eqn:E; [|reflexivity].
    rewrite (H i ltac:(lia) E) in Hr. discriminate.
Qed.
Lemma sat_bl v R : vsat_clause v (bl R) = true <-> ~ rincl n (Rv v) R \/ v selv = true.
Proof.
  unfold bl. rewrite vsat_app, orb_true_iff, sat_rout, vsat_single, (vtrue_zlit _ _ selv_pos). tauto.
Qed.

(* what the selector-guarded part G of the session (blocking clauses for the valuations Bs, and
   the clauses of side queries, whose own selectors are above selv) says *)
Record Gok (G : cnf) (Bs : list rv) : Prop := {
  g_s : forall v, vmodels v G = true -> v selv = false -> forall B, In B Bs -> ~ rincl n (Rv v) B;
  g_c : forall v, v selv = false -> hi_false v -> (forall B, In B Bs -> ~ rincl n (Rv v) B) ->
                  vmodels v G = true;
  g_t : forall v, v selv = true -> hi_false v -> vmodels v G = true }.

Lemma Gok_nil : Gok [] [].
Proof. split; [intros v _ _ B []|reflexivity|reflexivity]. Qed.

Lemma Gok_block G Bs R : Gok G Bs -> Gok (G ++ [bl R]) (R :: Bs).
Proof.
  intros [Hs Hc Ht]. split.
  - intros v Hv Hsel B HB. apply vmodels_app_iff in Hv. destruct Hv as [HvG Hvb].
    destruct HB as [<-|HB]; [|now apply (Hs v)].
    apply vmodels_single, sat_bl in Hvb. destruct Hvb as [H|H]; [exact H|congruence].
  - intros v Hsel Hhi HB. apply vmodels_app_iff. split.
    + apply Hc; auto. intros B Hin. apply HB. now right.
    + apply vmodels_single, sat_bl. left. apply HB. now left.
  - intros v Hsel Hhi. apply vmodels_app_iff. split; [now apply Ht|].
    apply vmodels_single, sat_bl. now right.
Qed.

Lemma Gok_side G Bs c : (forall v, hi_false v -> vsat_clause v c = true) -> Gok G Bs -> Gok (G ++ [c]) Bs.
Proof.
  intros Hside [Hs Hc Ht]. split.
  - intros v Hv Hsel B HB. apply vmodels_app_iff in Hv. destruct Hv as [HvG _]. now apply (Hs v).
  - intros v Hsel Hhi HB. apply vmodels_app_iff. split; [now apply Hc|]. apply vmodels_single. now apply Hside.
  - intros v Hsel Hhi. apply vmodels_app_iff. split; [now apply Ht|]. apply vmodels_single. now apply Hside.
Qed.

(* the total valuation read off an answer: range variables "not false", the others "true" *)
Definition hat (m : assignment) : val :=
  fun x => if (frv <=? x) && (x <? frv + n) then negb (isf (value_of m x)) else val_of m x.

Lemma hat_lit m l : lit_true m l = true -> vtrue (hat m) l = true.
Proof.
  unfold lit_true, vtrue, hat, val_of.
  destruct ((frv <=? lit_var l) && (lit_var l <? frv + n));
    destruct (value_of m (lit_var l)) as [[|]|]; destruct (0 <? l)%Z; cbn; congruence.
Qed.
Lemma hat_models m D : models m D = true -> vmodels (hat m) D = true.
Proof.
  unfold models, vmodels. rewrite !forallb_forall. intros H c Hc. specialize (H c Hc).
  unfold sat_clause in H. unfold vsat_clause. rewrite existsb_exists in *.
  destruct H as [l [Hl Ht]]. exists l. split; [exact Hl|now apply hat_lit].
Qed.
Lemma hat_all m a : forallb (lit_true m) a = true -> forallb (vtrue (hat m)) a = true.
Proof. rewrite !forallb_forall. intros H l Hl. now apply hat_lit, H. Qed.
Lemma hat_ext m : ext_of e n (hat m) = assignment_to_extension n e m.
Proof.
  rewrite (all_a2e e n m). unfold ext_of. apply filter_ext_in. intros a Ha. apply in_seq in Ha.
  unfold hat. pose proof (frv_arg_lt e n frv a Hfrv ltac:(lia)) as Hlt.
  destruct (Nat.leb_spec frv (arg_var e a)); [lia|reflexivity].
Qed.
Lemma hat_Rv m i : i < n -> Rv (hat m) i = negb (isf (value_of m (frv + i))).
Proof.
  intros Hi. unfold Rv, hat. destruct (Nat.leb_spec frv (frv + i)); [|lia].
  destruct (Nat.ltb_spec (frv + i) (frv + n)); [reflexivity|lia].
Qed.

(* a valid answer, read through hat *)
Lemma hat_sat oracle s a m : valid_oracle oracle -> answer_of oracle s a = Sat m ->
  vmodels (hat m) (cls s) = true /\ forallb (vtrue (hat m)) a = true.
Proof.
  intros Hvalid Ha. unfold answer_of in Ha. fold (cls s) in Ha.
  pose proof (Hvalid (calls s) (cls s) a) as Hv. rewrite Ha in Hv. destruct Hv as [Hm Hl].
  split; [now apply hat_models|now apply hat_all].
Qed.

(* ------------------------------------------------------------------------------------------ *)
(** * 5. What the unsatisfiable answers mean *)

(* the key step: no model with a strictly larger range valuation => the current set has maximal
   range among the base sets, and the valuation is exactly its range *)
Lemma unsat_max cur R Bs G :
  isbase cur -> rincl n R (rng cur) -> (forall B, In B Bs -> ~ rincl n R B) ->
  Gok G (R :: Bs) ->
  (forall v, vmodels v (C ++ G) = true ->
             forallb (vtrue v) (rin R ++ [negate (zlit selv)]) = true -> False) ->
  rmax cur /\ (forall i, i < n -> R i = rng cur i).
Proof.
  intros Hb HRc HBs HG Hun.
  assert (Hvmax : forall v, vmodels v C = true -> rincl n R (Rv v) -> rincl n (Rv v) R).
  { intros v Hv Hinc. destruct (rincl_dec n (Rv v) R) as [H|H]; [exact H|exfalso].
    apply (Hun (low v)).
    - apply vmodels_app_iff. split; [now rewrite low_models|].
      apply (g_c _ _ HG); [apply low_sel|apply low_hi|]. intros B [<-|HB] Hc.
      + apply H. apply (rincl_ext_l n (Rv (low v))); [intros i Hi; now apply low_Rv|exact Hc].
      + apply (HBs B HB). apply (rincl_trans n R (Rv v) B); [exact Hinc|].
        apply (rincl_ext_l n (Rv (low v))); [intros i Hi; now apply low_Rv|exact Hc].
    - rewrite forallb_app. apply andb_true_intro. split.
      + apply all_rin. apply (rincl_ext_r n R (Rv v)); [intros i Hi; symmetry; now apply low_Rv|exact Hinc].
      + cbn [forallb]. change (negate (zlit selv)) with (znlit selv). now rewrite vtrue_znlit, low_sel. }
  split.
  - split; [exact Hb|]. intros T HT Hct. destruct (range_complete T HT) as [vT [HvT [_ HR]]].
    apply range_incl_rincl in Hct. apply range_incl_rincl.
    assert (Hin : rincl n (Rv vT) R).
    { apply Hvmax; [exact HvT|]. intros i Hi Hr. rewrite HR by exact Hi. apply Hct; [exact Hi|]. now apply HRc. }
    intros i Hi Hr. apply HRc; [exact Hi|]. apply Hin; [exact Hi|]. now rewrite HR.
  - intros i Hi. apply bool_eq_iff. split; [now apply HRc|]. intros Hr.
    destruct (range_complete cur Hb) as [vc [Hvc [_ HR]]].
    apply (Hvmax vc Hvc); [|exact Hi|now rewrite HR].
    intros j Hj Hrj. rewrite HR by exact Hj. now apply HRc.
Qed.

Lemma unsat_none Bs G :
  Gok G Bs ->
  (forall v, vmodels v (C ++ G) = true -> forallb (vtrue v) [negate (zlit selv)] = true -> False) ->
  forall v, vmodels v C = true -> exists B, In B Bs /\ rincl n (Rv v) B.
Proof.
  intros HG Hun v Hv. destruct (existsb (rinclb n (Rv v)) Bs) eqn:E.
  - apply existsb_exists in E. destruct E as [B [HB Hc]]. exists B. split; [exact HB|now apply rinclb_spec].
  - exfalso. apply (Hun (low v)).
    + apply vmodels_app_iff. split; [now rewrite low_models|].
      apply (g_c _ _ HG); [apply low_sel|apply low_hi|]. intros B HB Hc.
      assert (Hx : existsb (rinclb n (Rv v)) Bs = true).
      { apply existsb_exists. exists B. split; [exact HB|]. apply rinclb_spec.
        apply (rincl_ext_l n (Rv (low v))); [intros i Hi; now apply low_Rv|exact Hc]. }
      congruence.
    + cbn [forallb]. change (negate (zlit selv)) with (znlit selv). now rewrite vtrue_znlit, low_sel.
Qed.

(* a model with exactly the range of a maximal set denotes a maximal set *)
Lemma side_sat cur R v :
  rmax cur -> (forall i, i < n -> R i = rng cur i) -> vmodels v C = true -> rincl n R (Rv v) ->
  rmax (ext_of e n v).
Proof.
  intros Hm HR Hv Hin. destruct (range_sound v Hv) as [Hb Hs].
  apply (rmax_equiv cur); [exact Hm|exact Hb|]. apply range_incl_rincl.
  intros i Hi Hr. apply Hs; [exact Hi|]. apply Hin; [exact Hi|]. now rewrite HR.
Qed.

(* the model of a base set with its exact range, the selector true, nothing above it *)
Lemma exact_model T : isbase T ->
  exists v0, vmodels v0 C = true /\ v0 selv = true /\ hi_false v0 /\
             (forall i, i < n -> Rv v0 i = rng T i) /\
             (forall a, a < n -> (v0 (arg_var e a) = true <-> In a T)).
Proof.
  intros HT. destruct (range_complete T HT) as [v [Hv [Ha Hr]]].
  exists (upd (low v) selv true). pose proof selv_pos as Hp. split; [|split; [|split; [|split]]].
  - rewrite (vmodels_upd (low v) selv true C (selv - 1) HselC) by lia. now rewrite low_models.
  - apply upd_same.
  - intros x Hx. rewrite upd_other by lia. now apply low_hi.
  - intros i Hi. unfold Rv. rewrite upd_other by lia. rewrite low_below by lia. now apply Hr.
  - intros a Ha'. pose proof (frv_arg_lt e n frv a Hfrv Ha'). rewrite upd_other by lia.
    rewrite low_below by lia. now apply Ha.
Qed.

(* ------------------------------------------------------------------------------------------ *)
(** * 6. The sets that remain to be examined, and the measure *)

Section Dead.
Variable wit : list nat -> Prop.
Definition dead (Bs : list rv) : Prop :=
  forall B W, In B Bs -> rmax W -> wit W -> ~ rincl n (rng W) B.

Lemma dead_nil : dead [].
Proof. intros B W []. Qed.

Lemma dead_grow (cur' : list nat) (R R' : rv) (Bs : list rv) :
  isbase cur' -> rincl n R' (rng cur') -> rincl n R R' -> ~ rincl n R' R -> dead Bs -> dead (R :: Bs).
Proof.
  intros Hb Hrc Hinc Hnot Hd B W [<-|HB] HW Hw Hc; [|exact (Hd B W HB HW Hw Hc)].
  apply Hnot. destruct HW as [HWb HWmax].
  assert (H1 : range_incl F W cur').
  { apply range_incl_rincl. apply (rincl_trans n _ R); [exact Hc|]. now apply (rincl_trans n _ R'). }
  pose proof (HWmax cur' Hb H1) as H2. apply range_incl_rincl in H2.
  apply (rincl_trans n _ (rng cur')); [exact Hrc|]. now apply (rincl_trans n _ (rng W)).
Qed.

Lemma dead_max (cur : list nat) (R : rv) (Bs0 : list rv) :
  isbase cur -> (forall i, i < n -> R i = rng cur i) ->
  (forall T, rmax T -> (forall i, i < n -> rng T i = R i) -> ~ wit T) ->
  dead Bs0 -> dead (R :: R :: Bs0).
Proof.
  intros Hb HR Hside Hd B W HB HW Hw Hc.
  destruct HB as [<-|[<-|HB]]; [| |exact (Hd B W HB HW Hw Hc)].
  all: apply (Hside W HW); [|exact Hw]; intros i Hi; apply bool_eq_iff; split;
    [now apply Hc|]; intros Hr; destruct HW as [HWb HWmax];
    assert (H1 : range_incl F W cur)
      by (apply range_incl_rincl; intros j Hj Hrj; rewrite <- HR by exact Hj; now apply Hc);
    pose proof (HWmax cur Hb H1) as H2; apply range_incl_rincl in H2; apply H2; [exact Hi|];
    now rewrite <- HR.
Qed.
End Dead.

Definition covered (Bs : list rv) (T : list nat) : bool := existsb (rinclb n (rng T)) Bs.
Definition U (Bs : list rv) : list (list nat) :=
  filter (fun T => negb (covered Bs T)) (all_base (enc_base e) F).

Lemma U_nil : U [] = all_base (enc_base e) F.
Proof. unfold U. apply filter_all_true. reflexivity. Qed.
Lemma U_mono R Bs : length (U (R :: Bs)) <= length (U Bs).
Proof.
  unfold U. apply filter_len_le. intros T _. unfold covered. cbn [existsb].
  destruct (rinclb n (rng T) R); [discriminate|]. now rewrite orb_false_l.
Qed.
Lemma U_in T Bs : isbase T -> (forall B, In B Bs -> ~ rincl n (rng T) B) -> In (canon (args F) T) (U Bs).
Proof.
  intros HT HB. pose proof (basep_incl _ _ _ HT) as Hincl.
  pose proof (canon_seteq (args F) T Hincl) as Hse.
  unfold U. apply filter_In. split.
  - apply in_all_base. split; [apply canon_in_powerset|]. apply (basep_seteq _ F T); [now apply seteq_sym|exact HT].
  - apply negb_true_iff. unfold covered. destruct (existsb _ Bs) eqn:E; [exfalso|reflexivity].
    apply existsb_exists in E. destruct E as [B [HBin Hc]]. apply (HB B HBin). apply rinclb_spec in Hc.
    apply (rincl_ext_l n (rng (canon (args F) T))); [|exact Hc]. intros i _. now apply rng_seteq.
Qed.
Lemma U_lt (cur : list nat) (R : rv) (Bs0 : list rv) :
  isbase cur -> (forall i, i < n -> R i = rng cur i) -> (forall B, In B Bs0 -> ~ rincl n R B) ->
  length (U (R :: R :: Bs0)) < length (U Bs0).
Proof.
  intros Hb HR HB. unfold U.
  pose proof (basep_incl _ _ _ Hb) as Hincl. pose proof (canon_seteq (args F) cur Hincl) as Hse.
  apply (filter_len_lt _ _ _ _ (canon (args F) cur)).
  - intros T _. unfold covered. cbn [existsb]. destruct (rinclb n (rng T) R); [discriminate|]. now rewrite !orb_false_l.
  - assert (H : In (canon (args F) cur) (U Bs0)).
    { apply U_in; [exact Hb|]. intros B HBin Hc. apply (HB B HBin).
      apply (rincl_ext_l n (rng cur)); [intros i Hi; symmetry; now apply HR|exact Hc]. }
    unfold U in H. apply filter_In in H. tauto.
  - assert (H : In (canon (args F) cur) (U Bs0)).
    { apply U_in; [exact Hb|]. intros B HBin Hc. apply (HB B HBin).
      apply (rincl_ext_l n (rng cur)); [intros i Hi; symmetry; now apply HR|exact Hc]. }
    unfold U in H. apply filter_In in H. tauto.
  - apply negb_false_iff. unfold covered. cbn [existsb].
    replace (rinclb n (rng (canon (args F) cur)) R) with true; [reflexivity|]. symmetry.
    apply rinclb_spec. intros i Hi Hr. rewrite HR by exact Hi. now rewrite <- (rng_seteq _ _ i Hse).
Qed.

Lemma U_pos (cur : list nat) (R : rv) (Bs : list rv) :
  isbase cur -> rincl n R (rng cur) -> (forall B, In B Bs -> ~ rincl n R B) -> 1 <= length (U Bs).
Proof.
  intros Hb HRc HB.
  assert (H : In (canon (args F) cur) (U Bs)).
  { apply U_in; [exact Hb|]. intros B HBin Hc. apply (HB B HBin). now apply (rincl_trans n _ (rng cur)). }
  destruct (U Bs); [destruct H|cbn [length]; lia].
Qed.

(* the abstract states of the maximal-extension computer with the range closure *)
Inductive astate :=
| AInit
| AInter (cur : list nat) (R : rv) (Bs : list rv)
| AMax (cur : list nat) (R : rv) (Bs0 : list rv) (q : bool)   (* q: the side query was made *)
| ANone (Bs : list rv).

Definition nbase : nat := length (all_base (enc_base e) F).
(* an upper bound of the number of SAT calls still to come *)
Definition pot (a : astate) : nat :=
  match a with
  | AInit => (n + 2) * nbase + 1
  | AInter _ R Bs => (n - rcard n R) + 3 + (n + 2) * (length (U Bs) - 1)
  | AMax _ R Bs0 q => (if q then 1 else 2) + (n + 2) * (length (U Bs0) - 1)
  | ANone _ => 0
  end.

Lemma pot_init (gr : list nat) (R : rv) : isbase gr -> pot (AInter gr R []) <= pot AInit.
Proof.
  intros Hb. cbn [pot]. rewrite U_nil. fold nbase.
  assert (H : 1 <= nbase).
  { unfold nbase. rewrite <- U_nil. apply (U_pos gr (rng gr)); [exact Hb|apply rincl_refl|intros B []]. }
  destruct nbase as [|k]; [lia|]. replace (S k - 1) with k by lia. nia.
Qed.
Lemma pot_grow (cur cur' : list nat) (R R' : rv) (Bs : list rv) :
  rincl n R R' -> ~ rincl n R' R ->
  pot (AInter cur' R' (R :: Bs)) + 1 <= pot (AInter cur R Bs).
Proof.
  intros H1 H2. cbn [pot]. pose proof (rcard_lt n R R' H1 H2). pose proof (rcard_le n R').
  pose proof (U_mono R Bs).
  assert ((n + 2) * (length (U (R :: Bs)) - 1) <= (n + 2) * (length (U Bs) - 1)) by (apply Nat.mul_le_mono_l; lia).
  lia.
Qed.
Lemma pot_max (cur : list nat) (R : rv) (Bs : list rv) : pot (AMax cur R Bs false) + 1 <= pot (AInter cur R Bs).
Proof. cbn [pot]. lia. Qed.
Lemma pot_side (cur : list nat) (R : rv) (Bs : list rv) : pot (AMax cur R Bs true) + 1 <= pot (AMax cur R Bs false).
Proof. cbn [pot]. lia. Qed.
Lemma pot_search (cur cur' : list nat) (R R' : rv) (Bs0 : list rv) :
  isbase cur -> (forall i, i < n -> R i = rng cur i) -> (forall B, In B Bs0 -> ~ rincl n R B) ->
  isbase cur' -> rincl n R' (rng cur') -> (forall B, In B (R :: R :: Bs0) -> ~ rincl n R' B) ->
  pot (AInter cur' R' (R :: R :: Bs0)) + 1 <= pot (AMax cur R Bs0 true).
Proof.
  intros Hb HR HB Hb' HRc' HB'. cbn [pot].
  pose proof (U_lt cur R Bs0 Hb HR HB) as Hlt.
  pose proof (U_pos cur' R' _ Hb' HRc' HB') as Hpos.
  assert (Hr : 1 <= rcard n R').
  { destruct (rincl_dec n R' R) as [Hc|Hc]; [exfalso; apply (HB' R); [now left|exact Hc]|].
    apply rinclb_false in Hc. unfold rinclb in Hc. apply forallb_false_ex in Hc.
    destruct Hc as [i [Hi Hx]]. apply in_seq in Hi. apply (rcard_pos n R' i); [lia|].
    destruct (R' i); [reflexivity|discriminate]. }
  set (u' := length (U (R :: R :: Bs0))) in *. set (u := length (U Bs0)) in *.
  assert ((n + 2) * (u' - 1) + (n + 2) <= (n + 2) * (u - 1)) by nia.
  pose proof (rcard_le n R'). lia.
Qed.

(* ------------------------------------------------------------------------------------------ *)
(** * 7. The computer *)

Definition kstatic (k : computer) : Prop :=
  c_e k = e /\ c_n k = n /\ c_g k = view_of_af F /\ c_a2e k = assignment_to_extension n e /\
  c_sel k = zlit selv /\ c_fl k = FRange /\ c_addl k = [].
Definition sess_ok (s : Prog.st) (Bs : list rv) : Prop :=
  sess_bounded s /\ exists G, cls s = C ++ G /\ Gok G Bs.

Definition Inv (a : astate) (k : computer) (s : Prog.st) : Prop :=
  kstatic k /\
  match a with
  | AInit => c_state k = MInit /\ c_model k = None /\ sess_ok s []
  | AInter cur R Bs =>
      c_state k = MIntermediate /\ c_cur k = cur /\ split_in_range k = (rin R, rout R) /\
      sess_ok s Bs /\ isbase cur /\ rincl n R (rng cur) /\ (forall B, In B Bs -> ~ rincl n R B) /\
      NoDup cur
  | AMax cur R Bs0 _ =>
      c_state k = MMaximal /\ c_cur k = cur /\ split_in_range k = (rin R, rout R) /\
      sess_ok s (R :: Bs0) /\ rmax cur /\ (forall i, i < n -> R i = rng cur i) /\
      (forall B, In B Bs0 -> ~ rincl n R B) /\ selv <= maxvar (sess s) /\ NoDup cur
  | ANone Bs =>
      c_state k = MNone /\ sess_ok s Bs /\
      forall v, vmodels v C = true -> exists B, In B Bs /\ rincl n (Rv v) B
  end.

Lemma kstatic_with_cur k cur m st : kstatic k -> kstatic (with_cur k cur m st).
Proof. intros H. exact H. Qed.

Lemma sess_ok_add_bl s Bs R : sess_ok s Bs -> sess_ok (st_add s (bl R)) (R :: Bs).
Proof.
  intros [Hsb [G [Hc HG]]]. split; [now apply sb_add|]. exists (G ++ [bl R]). split.
  - now rewrite cls_add, Hc, app_assoc.
  - now apply Gok_block.
Qed.
Lemma sess_ok_add_side s Bs c :
  (forall v, hi_false v -> vsat_clause v c = true) -> sess_ok s Bs -> sess_ok (st_add s c) Bs.
Proof.
  intros Hside [Hsb [G [Hc HG]]]. split; [now apply sb_add|]. exists (G ++ [c]). split.
  - now rewrite cls_add, Hc, app_assoc.
  - now apply Gok_side.
Qed.
Lemma sess_ok_solved oracle s a Bs : sess_ok s Bs -> sess_ok (st_solved oracle s a) Bs.
Proof.
  intros [Hsb [G [Hc HG]]]. split; [now apply sb_solved|]. exists G. now rewrite cls_solved.
Qed.
Lemma sess_ok_nvars s Bs : sess_ok s Bs -> sess_ok (st_nvars s) Bs.
Proof. intros [Hsb [G [Hc HG]]]. split; [now apply sb_nvars|]. exists G. now rewrite cls_nvars. Qed.

Lemma maxvar_add_sel s c : In (zlit selv) c -> selv <= maxvar (sess (st_add s c)).
Proof.
  intros Hin. cbn. pose proof (clause_max_ge c (zlit selv) Hin) as H. rewrite lit_var_zlit in H. lia.
Qed.
Lemma maxvar_add s c : maxvar (sess s) <= maxvar (sess (st_add s c)).
Proof. cbn. lia. Qed.
Lemma maxvar_solved oracle s a : maxvar (sess s) <= maxvar (sess (st_solved oracle s a)).
Proof. unfold st_solved, log_ev, sess_solved. cbn. destruct (disc s); cbn; lia. Qed.

(* split_in_range, from the last model *)
Lemma split_model k m : c_e k = e -> c_n k = n -> c_model k = Some m ->
  split_in_range k = (rin (Rv (hat m)), rout (Rv (hat m))).
Proof.
  intros He Hn Hm. unfold split_in_range. rewrite He, Hn, Hfrv, Hm. unfold rin, rout. f_equal.
  - rewrite (seq_as_map frv n), filter_map_comm, map_map. f_equal.
    apply filter_ext_in. intros i Hi. apply in_seq in Hi. rewrite hat_Rv by lia. reflexivity.
  - rewrite (seq_as_map frv n), filter_map_comm, map_map. f_equal.
    apply filter_ext_in. intros i Hi. apply in_seq in Hi. rewrite hat_Rv by lia.
    now rewrite negb_involutive.
Qed.

(* split_in_range at the grounded start: from the current set and the attack relation *)
Definition grR (cur : list nat) : rv :=
  fun i => memb i cur || existsb (fun a => memb i (attacked F a)) cur.
Lemma grR_spec cur i : grR cur i = rng cur i.
Proof.
  apply bool_eq_iff. unfold grR, rng. rewrite in_rangeb_spec, orb_true_iff, memb_spec, existsb_exists.
  unfold in_range. split; (intros [H|[b [Hb Hab]]]; [now left|right; exists b; split; [exact Hb|]]).
  - apply memb_spec in Hab. now apply SemFacts.in_attacked in Hab.
  - apply memb_spec. now apply SemFacts.in_attacked.
Qed.
Lemma split_gr k : c_e k = e -> c_n k = n -> c_g k = view_of_af F -> c_model k = None ->
  split_in_range k = (rin (grR (c_cur k)), rout (grR (c_cur k))).
Proof. intros He Hn Hg Hm. unfold split_in_range. rewrite He, Hn, Hfrv, Hm, Hg. reflexivity. Qed.

(* ------------------------------------------------------------------------------------------ *)
(** * 8. One step of the computer, for a valid oracle *)
Section Steps.
Variable oracle : nat -> cnf -> list lit -> answer.
Hypothesis Hvalid : valid_oracle oracle.
Variables QA QP QF : Prog.st -> Prop.
Notation wpx := (wp QA QP QF).
Let gr := grounded (view_of_af F).

Lemma unsat_of s a : answer_of oracle s a = Unsat ->
  forall v, vmodels v (cls s) = true -> forallb (vtrue v) a = true -> False.
Proof. intros Ha v. exact (unsat_elim oracle Hvalid s a v Ha). Qed.

Lemma next_init k s (Q : computer -> Prog.st -> Prop) :
  Inv AInit k s -> isbase gr -> NoDup gr ->
  (forall k', Inv (AInter gr (grR gr) []) k' s -> Q k' s) ->
  wpx (compute_next oracle k) Q s.
Proof.
  intros [Hk [Hst [Hm Hso]]] Hb Hnd HQ. pose proof Hk as (He & Hn & Hg & Ha2e & Hsel & Hfl & Haddl).
  unfold compute_next. rewrite Hst, wp_ret. apply HQ. split; [now apply kstatic_with_cur|].
  cbn [c_state c_cur with_cur]. rewrite Hg. fold gr. split; [reflexivity|split; [reflexivity|]].
  split; [|split; [exact Hso|split; [exact Hb|split; [|split; [|exact Hnd]]]]].
  - rewrite (split_gr (with_cur k gr (c_model k) MIntermediate)); try assumption. reflexivity.
  - intros i Hi Hr. now rewrite <- grR_spec.
  - intros B [].
Qed.

Lemma next_inter cur R Bs k s (Q : computer -> Prog.st -> Prop) :
  Inv (AInter cur R Bs) k s ->
  (forall cur' R' k' s', Inv (AInter cur' R' (R :: Bs)) k' s' -> calls s' = S (calls s) ->
                         rincl n R R' -> ~ rincl n R' R -> Q k' s') ->
  (forall k' s', Inv (AMax cur R Bs false) k' s' -> calls s' = S (calls s) -> Q k' s') ->
  (forall s', calls s' = S (calls s) -> QA s') ->
  wpx (compute_next oracle k) Q s.
Proof.
  intros [Hk (Hst & Hcur & Hsplit & Hso & Hb & HRc & HBs & Hnd)] HQ1 HQ2 HQA.
  pose proof Hk as (He & Hn & Hg & Ha2e & Hsel & Hfl & Haddl).
  unfold compute_next. rewrite Hst. unfold increase_assumptions. rewrite Hfl, Hsplit, Hsel.
  rewrite wp_bind, wp_bind, wp_add_clause, wp_ret. unfold solve_c.
  rewrite wp_bind, wp_bind, wp_solve. rewrite Haddl, app_nil_r.
  change (rout R ++ [zlit selv]) with (bl R).
  set (s1 := st_add s (bl R)). set (asm := rin R ++ [negate (zlit selv)]).
  pose proof (sess_ok_add_bl s Bs R Hso) as Hso1. fold s1 in Hso1.
  destruct (answer_of oracle s1 asm) as [m| |] eqn:Ha.
  - (* a larger range valuation *)
    rewrite !wp_ret. cbn [option_map].
    destruct (hat_sat oracle s1 asm m Hvalid Ha) as [Hm Hasm].
    destruct Hso1 as [Hsb1 [G1 [Hc1 HG1]]]. rewrite Hc1 in Hm. apply vmodels_app_iff in Hm.
    destruct Hm as [HmC HmG]. unfold asm in Hasm. rewrite forallb_app in Hasm.
    apply andb_prop in Hasm. destruct Hasm as [Hin Hns]. apply all_rin in Hin.
    cbn [forallb] in Hns. change (negate (zlit selv)) with (znlit selv) in Hns.
    rewrite vtrue_znlit, andb_true_r, negb_true_iff in Hns.
    pose proof (g_s _ _ HG1 (hat m) HmG Hns) as Hnb.
    destruct (range_sound (hat m) HmC) as [Hb' HRc']. rewrite hat_ext in Hb', HRc'.
    apply (HQ1 (c_a2e k m) (Rv (hat m))).
    + split; [now apply kstatic_with_cur|]. cbn [c_state c_cur with_cur]. rewrite Ha2e.
      split; [reflexivity|split; [reflexivity|]].
      split; [now apply split_model|].
      split; [apply sess_ok_solved; split; [exact Hsb1|exists G1; now split]|].
      split; [exact Hb'|split; [exact HRc'|split; [exact Hnb|]]].
      rewrite <- hat_ext. unfold ext_of. apply NoDup_filter, seq_NoDup.
    + reflexivity.
    + exact Hin.
    + apply Hnb. now left.
  - (* no larger one: the current set has maximal range *)
    rewrite !wp_ret. cbn [option_map].
    destruct Hso1 as [Hsb1 [G1 [Hc1 HG1]]].
    destruct (unsat_max cur R Bs G1 Hb HRc HBs HG1) as [Hmax HR].
    { intros v Hv Hasm. rewrite <- Hc1 in Hv. exact (unsat_of s1 asm Ha v Hv Hasm). }
    apply HQ2.
    + split; [exact Hk|]. cbn [c_state c_cur with_state with_cur].
      split; [reflexivity|split; [exact Hcur|]]. split; [exact Hsplit|].
      split; [apply sess_ok_solved; split; [exact Hsb1|exists G1; now split]|].
      split; [exact Hmax|split; [exact HR|split; [exact HBs|split; [|now rewrite <- Hcur in *]]]].
      etransitivity; [|apply maxvar_solved]. apply maxvar_add_sel. unfold bl. apply in_or_app. right. now left.
    + reflexivity.
  - apply HQA. reflexivity.
Qed.

Lemma next_max cur R Bs0 q k s (Q : computer -> Prog.st -> Prop) :
  Inv (AMax cur R Bs0 q) k s ->
  (forall cur' R' k' s', Inv (AInter cur' R' (R :: R :: Bs0)) k' s' -> calls s' = S (calls s) -> Q k' s') ->
  (forall k' s', Inv (ANone (R :: R :: Bs0)) k' s' -> calls s' = S (calls s) -> Q k' s') ->
  (forall s', calls s' = S (calls s) -> QA s') ->
  wpx (compute_next oracle k) Q s.
Proof.
  intros [Hk (Hst & Hcur & Hsplit & Hso & Hmax & HR & HBs & Hmv & Hnd)] HQ1 HQ2 HQA.
  pose proof Hk as (He & Hn & Hg & Ha2e & Hsel & Hfl & Haddl).
  unfold compute_next. rewrite Hst. unfold discard_maximal, new_search. rewrite Hfl, Hsplit, Hsel.
  cbn [snd]. rewrite wp_bind, wp_add_clause. unfold solve_c.
  rewrite wp_bind, wp_bind, wp_solve. rewrite Haddl, app_nil_r.
  change (rout R ++ [zlit selv]) with (bl R).
  set (s1 := st_add s (bl R)). set (asm := [negate (zlit selv)]).
  pose proof (sess_ok_add_bl s _ R Hso) as Hso1. fold s1 in Hso1.
  destruct (answer_of oracle s1 asm) as [m| |] eqn:Ha.
  - rewrite !wp_ret. cbn [option_map].
    destruct (hat_sat oracle s1 asm m Hvalid Ha) as [Hm Hasm].
    destruct Hso1 as [Hsb1 [G1 [Hc1 HG1]]]. rewrite Hc1 in Hm. apply vmodels_app_iff in Hm.
    destruct Hm as [HmC HmG]. unfold asm in Hasm.
    cbn [forallb] in Hasm. change (negate (zlit selv)) with (znlit selv) in Hasm.
    rewrite vtrue_znlit, andb_true_r, negb_true_iff in Hasm.
    pose proof (g_s _ _ HG1 (hat m) HmG Hasm) as Hnb.
    destruct (range_sound (hat m) HmC) as [Hb' HRc']. rewrite hat_ext in Hb', HRc'.
    apply (HQ1 (c_a2e k m) (Rv (hat m))).
    + split; [now apply kstatic_with_cur|]. cbn [c_state c_cur with_cur]. rewrite Ha2e.
      split; [reflexivity|split; [reflexivity|]].
      split; [now apply split_model|].
      split; [apply sess_ok_solved; split; [exact Hsb1|exists G1; now split]|].
      split; [exact Hb'|split; [exact HRc'|split; [exact Hnb|]]].
      rewrite <- hat_ext. unfold ext_of. apply NoDup_filter, seq_NoDup.
    + reflexivity.
  - rewrite !wp_ret. cbn [option_map].
    destruct Hso1 as [Hsb1 [G1 [Hc1 HG1]]].
    apply HQ2.
    + split; [exact Hk|]. cbn [c_state with_state with_cur]. split; [reflexivity|].
      split; [apply sess_ok_solved; split; [exact Hsb1|exists G1; now split]|].
      apply (unsat_none _ G1 HG1). intros v Hv Hasm. rewrite <- Hc1 in Hv.
      exact (unsat_of s1 asm Ha v Hv Hasm).
    + reflexivity.
  - apply HQA. reflexivity.
Qed.

(* ------------------------------------------------------------------------------------------ *)
(** * 9. The loops *)
Section Loops.
Variable K : nat.             (* calls made so far + calls still allowed *)
Variable fuelok : Prop.       (* "the fuel is sufficient" *)
Hypothesis HQA : forall s', calls s' <= K -> QA s'.
Hypothesis HQF : forall s', calls s' <= K -> ~ fuelok -> QF s'.
Hypothesis Hgr : isbase gr.
Hypothesis Hgrnd : NoDup gr.

Definition fm (a : astate) : nat := match a with AInit => pot a + 2 | _ => pot a + 1 end.

Ltac potlia :=
  cbn [fm] in *;
  repeat match goal with
  | |- context [pot ?a] => let p := fresh "p" in set (p := pot a) in *; clearbody p
  | H : context [pot ?a] |- _ => let p := fresh "p" in set (p := pot a) in *; clearbody p
  end; lia.

Lemma pot_inter_ge cur R Bs : 3 <= pot (AInter cur R Bs).
Proof. cbn [pot]. set (X := (n + 2) * _). lia. Qed.
Lemma pot_amax_ge cur R Bs q : 1 <= pot (AMax cur R Bs q).
Proof. cbn [pot]. set (X := (n + 2) * _). destruct q; lia. Qed.

(* compute_maximal: single extension *)
Definition cm_ok (a : astate) : Prop :=
  match a with AInit | AInter _ _ _ | AMax _ _ _ false => True | _ => False end.

Lemma cm_spec fuel : forall a k s,
  Inv a k s -> cm_ok a -> calls s + pot a <= K -> (fuelok -> fm a <= fuel) ->
  wpx (compute_maximal oracle fuel k) (fun l s' => (rmax l /\ NoDup l) /\ calls s' <= K) s.
Proof.
  induction fuel as [|f IH]; intros a k s HI Hok HK Hfuel.
  - cbn [compute_maximal]. apply wp_out_of_fuel. apply HQF; [lia|]. intros Hf. specialize (Hfuel Hf).
    destruct a; cbn [fm] in Hfuel; lia.
  - cbn [compute_maximal]. destruct a as [|cur R Bs|cur R Bs0 q|Bs]; [| | |destruct Hok].
    + pose proof HI as [_ (Hst & _)]. rewrite Hst. rewrite wp_bind.
      apply next_init; [exact HI|exact Hgr|exact Hgrnd|]. intros k' HI'.
      pose proof (pot_init gr (grR gr) Hgr) as Hp.
      apply (IH (AInter gr (grR gr) [])); [exact HI'|exact I|lia|].
      intros Hf. specialize (Hfuel Hf). cbn [fm] in *. lia.
    + pose proof HI as [_ (Hst & _)]. rewrite Hst. rewrite wp_bind.
      pose proof (pot_inter_ge cur R Bs) as Hge.
      apply (next_inter cur R Bs); [exact HI| | |].
      * intros cur' R' k' s' HI' Hc H1 H2. pose proof (pot_grow cur cur' R R' Bs H1 H2) as Hp.
        apply (IH (AInter cur' R' (R :: Bs))); [exact HI'|exact I|lia|].
        intros Hf. specialize (Hfuel Hf). cbn [fm] in *. lia.
      * intros k' s' HI' Hc. pose proof (pot_max cur R Bs) as Hp.
        apply (IH (AMax cur R Bs false)); [exact HI'|exact I|lia|].
        intros Hf. specialize (Hfuel Hf). cbn [fm] in *. lia.
      * intros s' Hc. apply HQA. lia.
    + destruct q; [destruct Hok|]. destruct HI as [_ (Hst & Hcur & _ & _ & Hmax & _ & _ & _ & Hnd)]. rewrite Hst.
      unfold drop. rewrite wp_bind, wp_add_clause, wp_ret. rewrite Hcur. split; [now split|].
      cbn. lia.
Qed.

(* ---------- the acceptance loop ---------- *)
Variable la : list nat.
Hypothesis Hla : forall a, In a la -> a < n.

Definition wit (cred : bool) (W : list nat) : Prop := meets la W = cred.
Definition rg_post (cred : bool) (r : bool * option (list nat)) : Prop :=
  match r with
  | (b, Some ce) => b = cred /\ rmax ce /\ wit cred ce /\ NoDup ce
  | (b, None) => b = negb cred /\ forall W, rmax W -> ~ wit cred W
  end.

Definition same_range (R : rv) : list lit := rin R ++ map negate (rout R) ++ [zlit selv].
Lemma all_same_range v R :
  forallb (vtrue v) (same_range R) = true <-> rincl n R (Rv v) /\ rincl n (Rv v) R /\ v selv = true.
Proof.
  unfold same_range. rewrite !forallb_app, !andb_true_iff, all_rin, all_nrout. cbn [forallb].
  rewrite (vtrue_zlit _ _ selv_pos), andb_true_r. tauto.
Qed.

Lemma meets_ext_hat m : meets la (assignment_to_extension n e m) = true <->
  exists a, In a la /\ hat m (arg_var e a) = true.
Proof.
  rewrite <- hat_ext, meets_spec. split; intros [a [Ha Hx]]; exists a; (split; [exact Ha|]).
  - apply in_ext_of in Hx. tauto.
  - apply in_ext_of. split; [now apply Hla|exact Hx].
Qed.

(* the same-range side query was unsatisfiable: no base set with that range is a witness *)
Lemma side_cred_unsat R Bs G nv :
  Gok G Bs -> bounded (C ++ G) nv -> selv <= nv ->
  (forall v, vmodels v ((C ++ G) ++ [guard_clause e la (S nv)]) = true ->
             forallb (vtrue v) (same_range R ++ [zlit (S nv)]) = true -> False) ->
  forall T, isbase T -> (forall i, i < n -> rng T i = R i) -> meets la T = true -> False.
Proof.
  intros HG Hbd Hnv Hun T HT HTR Hmeet. apply meets_spec in Hmeet. destruct Hmeet as [a [Hal HaT]].
  destruct (exact_model T HT) as [v0 (Hv0 & Hsel0 & Hhi0 & HR0 & Ha0)].
  assert (Hv0G : vmodels v0 (C ++ G) = true).
  { apply vmodels_app_iff. split; [exact Hv0|]. now apply (g_t _ _ HG). }
  apply (Hun (upd v0 (S nv) true)).
  - apply vmodels_app_iff. split.
    + rewrite (vmodels_upd v0 (S nv) true (C ++ G) nv Hbd) by lia. exact Hv0G.
    + apply vmodels_single. apply vsat_guard_clause; [lia|]. left. exists a. split; [exact Hal|].
      pose proof (frv_arg_lt e n frv a Hfrv (Hla a Hal)). rewrite upd_other by lia.
      apply Ha0; [now apply Hla|exact HaT].
  - rewrite forallb_app. apply andb_true_intro. split.
    + apply all_same_range. split; [|split].
      * intros i Hi Hr. unfold Rv. rewrite upd_other by lia. fold (Rv v0 i). rewrite HR0, HTR by exact Hi. exact Hr.
      * intros i Hi Hr. unfold Rv in Hr. rewrite upd_other in Hr by lia. fold (Rv v0 i) in Hr.
        rewrite HR0, HTR in Hr by exact Hi. exact Hr.
      * rewrite upd_other by lia. exact Hsel0.
    + cbn [forallb]. rewrite vtrue_zlit by lia. now rewrite upd_same.
Qed.

Lemma side_skep_unsat R Bs G :
  Gok G Bs ->
  (forall v, vmodels v (C ++ G) = true ->
             forallb (vtrue v) (same_range R ++ map (fun a => negate (arg_to_lit e a)) la) = true -> False) ->
  forall T, isbase T -> (forall i, i < n -> rng T i = R i) -> meets la T = false -> False.
Proof.
  intros HG Hun T HT HTR Hmeet. pose proof (proj1 (meets_false la T) Hmeet) as Hav.
  destruct (exact_model T HT) as [v0 (Hv0 & Hsel0 & Hhi0 & HR0 & Ha0)].
  apply (Hun v0).
  - apply vmodels_app_iff. split; [exact Hv0|]. now apply (g_t _ _ HG).
  - rewrite forallb_app. apply andb_true_intro. split.
    + apply all_same_range. split; [|split; [|exact Hsel0]].
      * intros i Hi Hr. rewrite HR0, HTR by exact Hi. exact Hr.
      * intros i Hi Hr. rewrite HR0, HTR in Hr by exact Hi. exact Hr.
    + apply forallb_forall. intros l Hl. apply in_map_iff in Hl. destruct Hl as [a [<- Hal]].
      rewrite vtrue_neg_arg. destruct (v0 (arg_var e a)) eqn:E; [exfalso|reflexivity].
      apply (Hav a Hal). apply Ha0; [now apply Hla|exact E].
Qed.

Definition rg_ok (a : astate) : Prop :=
  match a with AInit | AInter _ _ _ | AMax _ _ _ true => True | _ => False end.
Definition deadA (cred : bool) (a : astate) : Prop :=
  match a with
  | AInter _ _ Bs => dead (wit cred) Bs
  | AMax _ R Bs0 _ => dead (wit cred) (R :: R :: Bs0)
  | _ => True
  end.

Lemma calls_add s c : calls (st_add s c) = calls s.
Proof. reflexivity. Qed.
Lemma calls_nvars s : calls (st_nvars s) = calls s.
Proof. reflexivity. Qed.
Lemma calls_solved s a : calls (st_solved oracle s a) = S (calls s).
Proof. reflexivity. Qed.
Lemma nvars_ge_maxvar s : maxvar (sess s) <= session_n_vars (sess s).
Proof. unfold session_n_vars. lia. Qed.

Lemma rg_spec cred fuel : forall a k s,
  Inv a k s -> rg_ok a -> deadA cred a -> calls s + pot a <= K -> (fuelok -> fm a <= fuel) ->
  wpx (rg_loop oracle fuel e n la cred k) (fun r s' => rg_post cred r /\ calls s' <= K) s.
Proof.
  induction fuel as [|f IH]; intros a k s HI Hok Hd HK Hfuel.
  - cbn [rg_loop]. apply wp_out_of_fuel. apply HQF; [lia|]. intros Hf. specialize (Hfuel Hf).
    destruct a; cbn [fm] in Hfuel; lia.
  - cbn [rg_loop]. rewrite wp_bind. destruct a as [|cur R Bs|cur R Bs0 q|Bs]; [| | |destruct Hok].
    + (* the grounded start *)
      apply next_init; [exact HI|exact Hgr|exact Hgrnd|]. intros k' HI'.
      pose proof HI' as [_ (Hst' & _)]. rewrite Hst'. cbv iota.
      pose proof (pot_init gr (grR gr) Hgr) as Hp.
      apply (IH (AInter gr (grR gr) [])); [exact HI'|exact I|apply dead_nil|lia|].
      intros Hf. specialize (Hfuel Hf). cbn [fm] in *. lia.
    + pose proof (pot_inter_ge cur R Bs) as Hge.
      apply (next_inter cur R Bs); [exact HI| | |].
      * (* growth *)
        intros cur' R' k' s' HI' Hc H1 H2. pose proof (pot_grow cur cur' R R' Bs H1 H2) as Hp.
        pose proof HI' as [_ (Hst' & _ & _ & _ & Hb' & HRc' & _)]. rewrite Hst'. cbv iota.
        apply (IH (AInter cur' R' (R :: Bs))); [exact HI'|exact I| |lia|].
        -- exact (dead_grow (wit cred) cur' R R' Bs Hb' HRc' H1 H2 Hd).
        -- intros Hf. specialize (Hfuel Hf). cbn [fm] in *. lia.
      * (* a maximal range *)
        intros k' s' HI' Hc. pose proof (pot_max cur R Bs) as Hp1. pose proof (pot_side cur R Bs) as Hp2.
        pose proof (pot_amax_ge cur R Bs true) as Hp3.
        pose proof HI' as [Hk' (Hst' & Hcur' & Hsplit' & Hso' & Hmax' & HR' & HBs' & Hmv' & Hnd')].
        pose proof Hk' as (He' & Hn' & Hg' & Ha2e' & Hsel' & Hfl' & Haddl').
        rewrite Hst'. cbv iota. rewrite Hcur'.
        destruct ((cred && meets la cur) || (negb cred && negb (meets la cur))) eqn:Etest.
        { unfold drop. rewrite wp_bind, wp_add_clause, wp_ret. rewrite calls_add. split; [|lia].
          cbn [rg_post]. split; [reflexivity|split; [exact Hmax'|split; [|exact Hnd']]]. unfold wit.
          destruct cred, (meets la cur); cbn in Etest; congruence. }
        assert (Hnw : meets la cur = negb cred).
        { destruct cred, (meets la cur); cbn in Etest |- *; congruence. }
        rewrite Hsplit', Hsel'. cbv beta iota zeta.
        change (rin R ++ map negate (rout R) ++ [zlit selv]) with (same_range R).
        destruct Hso' as [Hsb' [G [Hc' HG']]].
        assert (Hbase : isbase cur) by (destruct Hmax'; assumption).
        assert (Hside : forall s4,
                  (forall T, isbase T -> (forall i, i < n -> rng T i = R i) -> meets la T = cred -> False) ->
                  sess_ok s4 (R :: Bs) -> selv <= maxvar (sess s4) -> calls s4 = S (calls s') ->
                  wpx (rg_loop oracle f e n la cred k') (fun r s'0 => rg_post cred r /\ calls s'0 <= K) s4).
        { intros s4 Hno Hso4 Hmv4 Hc4.
          apply (IH (AMax cur R Bs true)).
          - split; [exact Hk'|]. repeat (split; [assumption|]). exact Hnd'.
          - exact I.
          - cbn [deadA]. apply (dead_max (wit cred) cur R Bs Hbase HR'); [|exact Hd].
            intros T [HT _] HTR Hw. exact (Hno T HT HTR Hw).
          - lia.
          - intros Hf. specialize (Hfuel Hf). cbn [fm] in *. lia. }
        destruct cred.
        -- (* credulous: another set with the same range containing a listed argument? *)
           rewrite wp_bind, wp_n_vars. cbv beta zeta.
           set (nv := session_n_vars (sess s')).
           change (map (arg_to_lit e) la ++ [negate (zlit (1 + nv))]) with (guard_clause e la (S nv)).
           change (zlit (1 + nv)) with (zlit (S nv)).
           rewrite wp_bind, wp_add_clause, wp_bind, wp_solve.
           set (s2 := st_add (st_nvars s') (guard_clause e la (S nv))).
           set (asm := same_range R ++ [zlit (S nv)]).
           assert (Hc2 : cls s2 = (C ++ G) ++ [guard_clause e la (S nv)]).
           { unfold s2. now rewrite cls_add, cls_nvars, Hc'. }
           assert (Hbd : bounded (C ++ G) nv) by (rewrite <- Hc'; now apply nvars_fresh).
           assert (Hnv : selv <= nv) by (pose proof (nvars_ge_maxvar s'); unfold nv; lia).
           assert (Hguard : forall v, hi_false v -> vsat_clause v (guard_clause e la (S nv)) = true).
           { intros v Hhi. apply vsat_guard_clause; [lia|]. right. apply Hhi. lia. }
           assert (Hso2 : sess_ok s2 (R :: Bs)).
           { unfold s2. apply sess_ok_add_side; [exact Hguard|]. apply sess_ok_nvars.
             split; [exact Hsb'|exists G; now split]. }
           destruct (answer_of oracle s2 asm) as [m| |] eqn:Ha.
           ++ rewrite wp_bind, wp_add_clause. unfold drop. rewrite wp_bind, wp_add_clause, wp_ret.
              rewrite !calls_add, calls_solved. unfold s2. rewrite calls_add, calls_nvars. split; [|lia].
              destruct (hat_sat oracle s2 asm m Hvalid Ha) as [Hm Hasm]. rewrite Hc2 in Hm.
              apply vmodels_app_iff in Hm. destruct Hm as [Hm Hmg]. apply vmodels_app_iff in Hm.
              destruct Hm as [HmC _]. unfold asm in Hasm. rewrite forallb_app in Hasm.
              apply andb_prop in Hasm. destruct Hasm as [Hsr Hs']. apply all_same_range in Hsr.
              destruct Hsr as [Hin [_ _]]. cbn [forallb] in Hs'. rewrite vtrue_zlit in Hs' by lia.
              rewrite andb_true_r in Hs'.
              cbn [rg_post]. split; [reflexivity|split; [|split]];
                [| |rewrite <- hat_ext; unfold ext_of; apply NoDup_filter, seq_NoDup].
              ** rewrite <- hat_ext. exact (side_sat cur R (hat m) Hmax' HR' HmC Hin).
              ** unfold wit. apply meets_ext_hat. apply vmodels_single in Hmg.
                 apply vsat_guard_clause in Hmg; [|lia]. destruct Hmg as [Hex|Hf']; [exact Hex|congruence].
           ++ rewrite wp_bind, wp_add_clause.
              apply Hside.
              ** intros T HT HTR Hw.
                 apply (side_cred_unsat R (R :: Bs) G nv HG' Hbd Hnv) with (T := T); try assumption.
                 intros v Hv Hasm. rewrite <- Hc2 in Hv. exact (unsat_of s2 asm Ha v Hv Hasm).
              ** apply sess_ok_add_side; [|now apply sess_ok_solved].
                 intros v Hhi. rewrite vsat_single. change (negate (zlit (S nv))) with (znlit (S nv)).
                 rewrite vtrue_znlit. rewrite Hhi by lia. reflexivity.
              ** etransitivity; [|apply maxvar_add]. etransitivity; [|apply maxvar_solved].
                 unfold s2. etransitivity; [|apply maxvar_add]. exact Hmv'.
              ** rewrite calls_add, calls_solved. unfold s2. now rewrite calls_add, calls_nvars.
           ++ apply HQA. rewrite calls_solved. unfold s2. rewrite calls_add, calls_nvars. lia.
        -- (* skeptical: another set with the same range avoiding the listed arguments? *)
           rewrite wp_bind, wp_solve.
           set (asm := same_range R ++ map (fun a => negate (arg_to_lit e a)) la).
           destruct (answer_of oracle s' asm) as [m| |] eqn:Ha.
           ++ unfold drop. rewrite wp_bind, wp_add_clause, wp_ret.
              rewrite calls_add, calls_solved. split; [|lia].
              destruct (hat_sat oracle s' asm m Hvalid Ha) as [Hm Hasm]. rewrite Hc' in Hm.
              apply vmodels_app_iff in Hm. destruct Hm as [HmC _].
              unfold asm in Hasm. rewrite forallb_app in Hasm.
              apply andb_prop in Hasm. destruct Hasm as [Hsr Hneg]. apply all_same_range in Hsr.
              destruct Hsr as [Hin [_ _]].
              cbn [rg_post]. split; [reflexivity|split; [|split]];
                [| |rewrite <- hat_ext; unfold ext_of; apply NoDup_filter, seq_NoDup].
              ** rewrite <- hat_ext. exact (side_sat cur R (hat m) Hmax' HR' HmC Hin).
              ** unfold wit. destruct (meets la (assignment_to_extension n e m)) eqn:Em; [exfalso|reflexivity].
                 apply meets_ext_hat in Em. destruct Em as [a [Hal Hx]].
                 rewrite forallb_forall in Hneg.
                 specialize (Hneg (negate (arg_to_lit e a))). rewrite vtrue_neg_arg, Hx in Hneg.
                 assert (Hfalse : negb true = true) by (apply Hneg; apply in_map_iff; now exists a).
                 discriminate.
           ++ apply Hside.
              ** intros T HT HTR Hw.
                 apply (side_skep_unsat R (R :: Bs) G HG') with (T := T); try assumption.
                 intros v Hv Hasm. rewrite <- Hc' in Hv. exact (unsat_of s' asm Ha v Hv Hasm).
              ** apply sess_ok_solved. split; [exact Hsb'|exists G; now split].
              ** etransitivity; [|apply maxvar_solved]. exact Hmv'.
              ** now rewrite calls_solved.
           ++ apply HQA. rewrite calls_solved. lia.
      * intros s' Hc. apply HQA. lia.
    + (* after a maximal range that holds no witness: look for a range not yet covered *)
      destruct q; [|destruct Hok]. pose proof (pot_amax_ge cur R Bs0 true) as Hge.
      pose proof HI as [Hk (Hst & Hcur & Hsplit & Hso & Hmax & HR & HBs & Hmv & Hnd)].
      assert (Hbase : isbase cur) by (destruct Hmax; assumption).
      apply (next_max cur R Bs0 true); [exact HI| | |].
      * intros cur' R' k' s' HI' Hc.
        pose proof HI' as [_ (Hst' & _ & _ & _ & Hb' & HRc' & Hnb' & _)]. rewrite Hst'. cbv iota.
        pose proof (pot_search cur cur' R R' Bs0 Hbase HR HBs Hb' HRc' Hnb') as Hp.
        apply (IH (AInter cur' R' (R :: R :: Bs0))); [exact HI'|exact I|exact Hd|potlia|].
        intros Hf. specialize (Hfuel Hf). potlia.
      * intros k' s' HI' Hc. pose proof HI' as [_ (Hst' & _ & Hnone)]. rewrite Hst'. cbv iota.
        unfold drop. rewrite wp_bind, wp_add_clause, wp_ret. rewrite calls_add. split; [|lia].
        cbn [rg_post]. split; [reflexivity|]. intros W HW Hw. pose proof HW as [HWb _].
        destruct (range_complete W HWb) as [v [Hv [_ HRW]]].
        destruct (Hnone v Hv) as [B [HB Hc']]. apply (Hd B W HB HW Hw).
        apply (rincl_ext_l n (Rv v)); [exact HRW|exact Hc'].
      * intros s' Hc. apply HQA. lia.
Qed.
End Loops.
End Steps.
End Range.

(* ------------------------------------------------------------------------------------------ *)
(** * 10. The procedures of the semi-stable / stage solvers inside one component *)

Lemma st_adds_reserved s cs : reserved (sess (st_adds s cs)) = reserved (sess s).
Proof. revert s. induction cs as [|c r IH]; intros s; cbn [st_adds]; [reflexivity|]. now rewrite IH. Qed.

Lemma position_lt A (p : A -> bool) l i : position p l = Some i -> i < length l.
Proof.
  revert i. induction l as [|x r IH]; intros i; cbn [position]; [discriminate|].
  destruct (p x); [intros H; inversion H; cbn; lia|].
  destruct (position p r) as [j|]; cbn [option_map]; [|discriminate].
  intros H. inversion H. specialize (IH j eq_refl). cbn [length]. lia.
Qed.
Lemma locals_lt c al la : locals c al = Some la -> forall a, In a la -> a < length (c_ids c).
Proof.
  revert la. induction al as [|x r IH]; intros la; cbn [locals fold_right].
  - intros H. inversion H. intros a [].
  - fold (locals c r). destruct (cc_local c x) as [i|] eqn:Ei; [|discriminate].
    destruct (locals c r) as [l|]; [|discriminate]. intros H. inversion H. subst la.
    intros a [<-|Ha]; [|now apply (IH l eq_refl)].
    unfold cc_local, index_of in Ei. now apply position_lt in Ei.
Qed.

Section Top.
Variable oracle : nat -> cnf -> list lit -> answer.
Variable thr : nat.
Hypothesis Hthr : 1 <= thr.
Hypothesis Hvalid : valid_oracle oracle.
Variable e : enc.
Hypothesis He : enc_base e <> BSt.
Variable F : af.
Variable n : nat.
Hypothesis HF : compact_af F n.
Hypothesis Hgr : basep (enc_base e) F (grounded (view_of_af F)).
Hypothesis Hgrnd : NoDup (grounded (view_of_af F)).

(* the bound of C18 *)
Definition rg_bound : nat := (n + 2) * length (all_base (enc_base e) F) + 3.

Lemma rg_setup A (QA QP QF : Prog.st -> Prop) (cont : computer -> M A) (Q : A -> Prog.st -> Prop) s :
  (forall C frv selv k0 s0,
     enc_clauses e thr true F = Some C -> first_range_var e n = Some frv ->
     bounded C (selv - 1) -> frv + n <= selv ->
     Inv e F n C frv selv AInit k0 s0 -> calls s0 = calls s ->
     wp QA QP QF (cont k0) Q s0) ->
  wp QA QP QF (new_solver ;;; encode_m thr e true F ;;; k <- new_cc_computer e F FRange ;; cont k) Q s.
Proof.
  intros Hcont.
  destruct (encode_af e thr true F) as [[r C]|] eqn:HE.
  2:{ exfalso. assert (H : enc_clauses e thr true F = None) by (unfold enc_clauses; now rewrite HE).
      apply all_defined in H. destruct H as [H _]. subst e. now apply He. }
  pose proof (enc_clauses_some thr e true F r C HE) as HC.
  destruct (frv_some e He n) as [frv Hfrv].
  pose proof (compact_length F n HF) as Hlen.
  assert (Hr : r = Some (frv + n - 1)).
  { rewrite <- Hlen in Hfrv |- *. exact (frv_reserve e thr F r C frv HE Hfrv). }
  rewrite wp_bind, wp_new_solver, wp_bind. rewrite (wp_encode_m thr _ _ _ e true F r C _ _ HE).
  set (s1 := st_encoded (st_new s) r C).
  assert (Hc1 : cls s1 = C) by (unfold s1; now rewrite cls_encoded, cls_new).
  assert (Hsb1 : sess_bounded s1) by (unfold s1; apply sb_encoded, sb_new).
  unfold new_cc_computer, new_computer. rewrite Hlen. rewrite wp_bind, wp_bind, wp_n_vars, wp_ret.
  set (nv := session_n_vars (sess s1)).
  assert (Hres : frv + n - 1 <= nv).
  { unfold nv, session_n_vars, s1, st_encoded. rewrite st_adds_reserved, Hr. cbn. lia. }
  pose proof (range_var_pos e n 0) as Hpos. rewrite (frv_range_var e n frv 0 Hfrv) in Hpos.
  apply (Hcont C frv (1 + nv)).
  - exact HC.
  - exact Hfrv.
  - replace (1 + nv - 1) with nv by lia. rewrite <- Hc1. now apply nvars_fresh.
  - lia.
  - split; [repeat split|]. cbn [c_state c_model]. split; [reflexivity|split; [reflexivity|]].
    split; [now apply sb_nvars|]. exists []. split; [now rewrite cls_nvars, Hc1, app_nil_r|apply Gok_nil].
  - unfold s1, st_encoded. cbn [calls st_nvars log_ev]. rewrite st_adds_calls. destruct r; reflexivity.
Qed.

Lemma pot_init_bound : pot e F n AInit + 2 = rg_bound.
Proof. unfold rg_bound, pot, nbase. lia. Qed.

(* T1 + T3: single extension *)
Theorem rg_max_in_cc_spec (fuelok : Prop) fuel (c : comp) s :
  c_af c = F -> (fuelok -> 2 * rg_bound + 4 <= fuel) ->
  match rg_max_in_cc oracle thr fuel e c s with
  | Done L s' => (exists l, L = lift c l /\ rmax e F l /\ NoDup l) /\ calls s' <= calls s + rg_bound
  | Abort s' => calls s' <= calls s + rg_bound
  | Panic _ => False
  | OutOfFuel s' => calls s' <= calls s + rg_bound /\ ~ fuelok
  end.
Proof.
  intros Hc Hfuel.
  assert (H : wp (fun s' => calls s' <= calls s + rg_bound) (fun _ => False)
                 (fun s' => calls s' <= calls s + rg_bound /\ ~ fuelok)
                 (rg_max_in_cc oracle thr fuel e c)
                 (fun L s' => (exists l, L = lift c l /\ rmax e F l /\ NoDup l) /\ calls s' <= calls s + rg_bound) s).
  { unfold rg_max_in_cc. rewrite Hc. apply rg_setup.
    intros C frv selv k0 s0 HC Hfrv HselC Hselr HI Hcalls.
    rewrite wp_bind.
    eapply wp_mono; [|apply (cm_spec thr Hthr e F n HF C HC frv Hfrv selv HselC Hselr oracle Hvalid
                               _ _ _ (calls s + rg_bound) fuelok) with (a := AInit)].
    - intros l s' [[Hl Hnd] Hcs]. rewrite wp_ret. split; [exists l; split; [reflexivity|split; [exact Hl|exact Hnd]]|exact Hcs].
    - intros s' H'. exact H'.
    - intros s' H1 H2. now split.
    - exact Hgr.
    - exact Hgrnd.
    - exact HI.
    - exact I.
    - pose proof pot_init_bound. lia.
    - intros Hf. specialize (Hfuel Hf). pose proof pot_init_bound. cbn [fm]. lia. }
  unfold wp in H. destruct (rg_max_in_cc oracle thr fuel e c s); exact H.
Qed.

(* T2 + T3: acceptance of a list of arguments *)
Theorem rg_in_cc_spec (fuelok : Prop) fuel (c : comp) al la cred s :
  c_af c = F -> locals c al = Some la -> (forall a, In a la -> a < n) ->
  (fuelok -> 2 * rg_bound + 4 <= fuel) ->
  match rg_in_cc oracle thr fuel e c al cred s with
  | Done r s' => rg_post e F la cred r /\ calls s' <= calls s + rg_bound
  | Abort s' => calls s' <= calls s + rg_bound
  | Panic _ => False
  | OutOfFuel s' => calls s' <= calls s + rg_bound /\ ~ fuelok
  end.
Proof.
  intros Hc Hloc Hla Hfuel.
  assert (H : wp (fun s' => calls s' <= calls s + rg_bound) (fun _ => False)
                 (fun s' => calls s' <= calls s + rg_bound /\ ~ fuelok)
                 (rg_in_cc oracle thr fuel e c al cred)
                 (fun r s' => rg_post e F la cred r /\ calls s' <= calls s + rg_bound) s).
  { unfold rg_in_cc, locals_m. rewrite Hloc, Hc. rewrite wp_bind, wp_ret. apply rg_setup.
    intros C frv selv k0 s0 HC Hfrv HselC Hselr HI Hcalls.
    rewrite (compact_length F n HF).
    apply (rg_spec thr Hthr e F n HF C HC frv Hfrv selv HselC Hselr oracle Hvalid
             _ _ _ (calls s + rg_bound) fuelok) with (a := AInit).
    - intros s' H'. exact H'.
    - intros s' H1 H2. now split.
    - exact Hgr.
    - exact Hgrnd.
    - exact Hla.
    - exact HI.
    - exact I.
    - exact I.
    - pose proof pot_init_bound. lia.
    - intros Hf. specialize (Hfuel Hf). pose proof pot_init_bound. cbn [fm]. lia. }
  unfold wp in H. destruct (rg_in_cc oracle thr fuel e c al cred s); exact H.
Qed.

End Top.

(* ------------------------------------------------------------------------------------------ *)
(** * 11. Semi-stable and stage semantics *)

Lemma rmax_sst e F l : enc_base e = BCo -> (rmax e F l <-> sst F l).
Proof. intros He. unfold rmax, sst. rewrite He. reflexivity. Qed.
Lemma rmax_stg e F l : enc_base e = BCf -> (rmax e F l <-> stg F l).
Proof. intros He. unfold rmax, stg. rewrite He. reflexivity. Qed.

Lemma co_cfs F S : co F S -> cfs F S.
Proof. intros [[Hi [Hc _]] _]. now split. Qed.

(* the answer of an acceptance query against a family P of extensions: the certificate is an
   extension that meets (credulous) / avoids (skeptical) the list, and the status is right *)
Definition accept_ok (P : list nat -> Prop) (la : list nat) (cred : bool)
           (r : bool * option (list nat)) : Prop :=
  (fst r = true <->
   if cred then exists S, P S /\ exists a, In a la /\ In a S
   else forall S, P S -> exists a, In a la /\ In a S) /\
  match snd r with
  | Some ce => fst r = cred /\ P ce /\ meets la ce = cred /\ NoDup ce
  | None => fst r = negb cred
  end.

Lemma rg_post_accept e F la cred r (P : list nat -> Prop) :
  (forall l, rmax e F l <-> P l) -> rg_post e F la cred r -> accept_ok P la cred r.
Proof.
  intros HP. destruct r as [b [ce|]]; cbn [rg_post accept_ok fst snd]; unfold wit.
  - intros [-> [Hm [Hw Hnd]]]. apply HP in Hm. split; [|now repeat split]. destruct cred.
    + split; [intros _|reflexivity]. exists ce. split; [exact Hm|]. now apply meets_spec.
    + split; [discriminate|]. intros H. destruct (H ce Hm) as [a [Ha Hin]].
      assert (Hx : meets la ce = true) by (apply meets_spec; now exists a). congruence.
  - intros [-> Hno]. split; [|reflexivity]. destruct cred; cbn [negb].
    + split; [discriminate|]. intros [S [HS Hex]]. exfalso. apply (Hno S); [now apply HP|].
      now apply meets_spec.
    + split; [intros _|reflexivity]. intros S HS. apply meets_spec.
      destruct (meets la S) eqn:E; [reflexivity|]. exfalso. apply (Hno S); [now apply HP|exact E].
Qed.

Section SemiStableStage.
Variable oracle : nat -> cnf -> list lit -> answer.
Variable thr : nat.
Hypothesis Hthr : 1 <= thr.
Hypothesis Hvalid : valid_oracle oracle.
Variable e : enc.
Variable c : comp.
Variable n : nat.
Hypothesis HF : compact_af (c_af c) n.
Notation F := (c_af c).
(* proved elsewhere (grounded fix-point): the start of every growth chain is a complete extension *)
Hypothesis Hgr : co F (grounded (view_of_af F)).
Hypothesis Hgrnd : NoDup (grounded (view_of_af F)).

(* ---------- T1: single extension ---------- *)
Theorem se_sst_component : enc_base e = BCo -> forall fuel s,
  match rg_max_in_cc oracle thr fuel e c s with
  | Done L _ => exists l, L = lift c l /\ sst F l /\ NoDup l
  | Panic _ => False
  | _ => True
  end.
Proof.
  intros He fuel s.
  assert (He' : enc_base e <> BSt) by (rewrite He; discriminate).
  assert (Hgr' : basep (enc_base e) F (grounded (view_of_af F))) by (rewrite He; exact Hgr).
  pose proof (rg_max_in_cc_spec oracle thr Hthr Hvalid e He' F n HF Hgr' Hgrnd False fuel c s eq_refl
                ltac:(intros [])) as H.
  destruct (rg_max_in_cc oracle thr fuel e c s) as [L s'|s'|s'|s']; try exact I; [|exact H].
  destruct H as [[l [HL [Hl Hnd]]] _]. exists l. split; [exact HL|split; [|exact Hnd]]. now apply (rmax_sst e F l He).
Qed.

Theorem se_stg_component : enc_base e = BCf -> forall fuel s,
  match rg_max_in_cc oracle thr fuel e c s with
  | Done L _ => exists l, L = lift c l /\ stg F l /\ NoDup l
  | Panic _ => False
  | _ => True
  end.
Proof.
  intros He fuel s.
  assert (He' : enc_base e <> BSt) by (rewrite He; discriminate).
  assert (Hgr' : basep (enc_base e) F (grounded (view_of_af F))) by (rewrite He; exact (co_cfs _ _ Hgr)).
  pose proof (rg_max_in_cc_spec oracle thr Hthr Hvalid e He' F n HF Hgr' Hgrnd False fuel c s eq_refl
                ltac:(intros [])) as H.
  destruct (rg_max_in_cc oracle thr fuel e c s) as [L s'|s'|s'|s']; try exact I; [|exact H].
  destruct H as [[l [HL [Hl Hnd]]] _]. exists l. split; [exact HL|split; [|exact Hnd]]. now apply (rmax_stg e F l He).
Qed.

(* ---------- T2: credulous (cred = true) / skeptical (cred = false) acceptance ---------- *)
Theorem accept_sst_component : enc_base e = BCo -> forall fuel al la cred s,
  locals c al = Some la -> (forall a, In a la -> a < n) ->
  match rg_in_cc oracle thr fuel e c al cred s with
  | Done r _ => accept_ok (sst F) la cred r
  | Panic _ => False
  | _ => True
  end.
Proof.
  intros He fuel al la cred s Hloc Hla.
  assert (He' : enc_base e <> BSt) by (rewrite He; discriminate).
  assert (Hgr' : basep (enc_base e) F (grounded (view_of_af F))) by (rewrite He; exact Hgr).
  pose proof (rg_in_cc_spec oracle thr Hthr Hvalid e He' F n HF Hgr' Hgrnd False fuel c al la cred s eq_refl
                Hloc Hla ltac:(intros [])) as H.
  destruct (rg_in_cc oracle thr fuel e c al cred s) as [r s'|s'|s'|s']; try exact I; [|exact H].
  destruct H as [H _]. exact (rg_post_accept e F la cred r (sst F) (fun l => rmax_sst e F l He) H).
Qed.

Theorem accept_stg_component : enc_base e = BCf -> forall fuel al la cred s,
  locals c al = Some la -> (forall a, In a la -> a < n) ->
  match rg_in_cc oracle thr fuel e c al cred s with
  | Done r _ => accept_ok (stg F) la cred r
  | Panic _ => False
  | _ => True
  end.
Proof.
  intros He fuel al la cred s Hloc Hla.
  assert (He' : enc_base e <> BSt) by (rewrite He; discriminate).
  assert (Hgr' : basep (enc_base e) F (grounded (view_of_af F))) by (rewrite He; exact (co_cfs _ _ Hgr)).
  pose proof (rg_in_cc_spec oracle thr Hthr Hvalid e He' F n HF Hgr' Hgrnd False fuel c al la cred s eq_refl
                Hloc Hla ltac:(intros [])) as H.
  destruct (rg_in_cc oracle thr fuel e c al cred s) as [r s'|s'|s'|s']; try exact I; [|exact H].
  destruct H as [H _]. exact (rg_post_accept e F la cred r (stg F) (fun l => rmax_stg e F l He) H).
Qed.

(* the same in the vocabulary of Spec/AF.v *)
Corollary accept_sst_component_status : enc_base e = BCo -> forall fuel al la s,
  locals c al = Some la -> (forall a, In a la -> a < n) ->
  match rg_in_cc oracle thr fuel e c al true s with
  | Done (b, _) _ => b = true <-> cred SST F la | _ => True end /\
  match rg_in_cc oracle thr fuel e c al false s with
  | Done (b, _) _ => b = true <-> skep SST F la | _ => True end.
Proof.
  intros He fuel al la s Hloc Hla. split.
  - pose proof (accept_sst_component He fuel al la true s Hloc Hla) as H.
    destruct (rg_in_cc oracle thr fuel e c al true s) as [[b ce] s'|s'|s'|s']; try exact I.
    destruct H as [H _]. exact H.
  - pose proof (accept_sst_component He fuel al la false s Hloc Hla) as H.
    destruct (rg_in_cc oracle thr fuel e c al false s) as [[b ce] s'|s'|s'|s']; try exact I.
    destruct H as [H _]. exact H.
Qed.
Corollary accept_stg_component_status : enc_base e = BCf -> forall fuel al la s,
  locals c al = Some la -> (forall a, In a la -> a < n) ->
  match rg_in_cc oracle thr fuel e c al true s with
  | Done (b, _) _ => b = true <-> cred STG F la | _ => True end /\
  match rg_in_cc oracle thr fuel e c al false s with
  | Done (b, _) _ => b = true <-> skep STG F la | _ => True end.
Proof.
  intros He fuel al la s Hloc Hla. split.
  - pose proof (accept_stg_component He fuel al la true s Hloc Hla) as H.
    destruct (rg_in_cc oracle thr fuel e c al true s) as [[b ce] s'|s'|s'|s']; try exact I.
    destruct H as [H _]. exact H.
  - pose proof (accept_stg_component He fuel al la false s Hloc Hla) as H.
    destruct (rg_in_cc oracle thr fuel e c al false s) as [[b ce] s'|s'|s'|s']; try exact I.
    destruct H as [H _]. exact H.
Qed.

(* ---------- T3: number of SAT calls and sufficiency of the fuel (C18) ---------- *)
Definition range_bound : nat := (n + 2) * length (all_base (enc_base e) F) + 3.

Theorem range_se_calls : (enc_base e = BCo \/ enc_base e = BCf) -> forall fuel s,
  match rg_max_in_cc oracle thr fuel e c s with
  | Done _ s' | Abort s' | OutOfFuel s' => calls s' <= calls s + range_bound
  | Panic _ => False
  end /\
  (2 * range_bound + 4 <= fuel ->
   match rg_max_in_cc oracle thr fuel e c s with OutOfFuel _ => False | _ => True end).
Proof.
  intros He fuel s.
  assert (He' : enc_base e <> BSt) by (destruct He as [He|He]; rewrite He; discriminate).
  assert (Hgr' : basep (enc_base e) F (grounded (view_of_af F))).
  { destruct He as [He|He]; rewrite He; [exact Hgr|exact (co_cfs _ _ Hgr)]. }
  split.
  - pose proof (rg_max_in_cc_spec oracle thr Hthr Hvalid e He' F n HF Hgr' Hgrnd False fuel c s eq_refl
                  ltac:(intros [])) as H.
    destruct (rg_max_in_cc oracle thr fuel e c s); tauto.
  - intros Hfuel.
    pose proof (rg_max_in_cc_spec oracle thr Hthr Hvalid e He' F n HF Hgr' Hgrnd True fuel c s eq_refl
                  (fun _ => Hfuel)) as H.
    destruct (rg_max_in_cc oracle thr fuel e c s); tauto.
Qed.

Theorem range_accept_calls : (enc_base e = BCo \/ enc_base e = BCf) -> forall fuel al la cred s,
  locals c al = Some la -> (forall a, In a la -> a < n) ->
  match rg_in_cc oracle thr fuel e c al cred s with
  | Done _ s' | Abort s' | OutOfFuel s' => calls s' <= calls s + range_bound
  | Panic _ => False
  end /\
  (2 * range_bound + 4 <= fuel ->
   match rg_in_cc oracle thr fuel e c al cred s with OutOfFuel _ => False | _ => True end).
Proof.
  intros He fuel al la cred s Hloc Hla.
  assert (He' : enc_base e <> BSt) by (destruct He as [He|He]; rewrite He; discriminate).
  assert (Hgr' : basep (enc_base e) F (grounded (view_of_af F))).
  { destruct He as [He|He]; rewrite He; [exact Hgr|exact (co_cfs _ _ Hgr)]. }
  split.
  - pose proof (rg_in_cc_spec oracle thr Hthr Hvalid e He' F n HF Hgr' Hgrnd False fuel c al la cred s eq_refl
                  Hloc Hla ltac:(intros [])) as H.
    destruct (rg_in_cc oracle thr fuel e c al cred s); tauto.
  - intros Hfuel.
    pose proof (rg_in_cc_spec oracle thr Hthr Hvalid e He' F n HF Hgr' Hgrnd True fuel c al la cred s eq_refl
                  Hloc Hla (fun _ => Hfuel)) as H.
    destruct (rg_in_cc oracle thr fuel e c al cred s); tauto.
Qed.

(* the local ids of listed arguments are below the size of a well-formed component *)
Lemma locals_below al la : length (c_ids c) = n -> locals c al = Some la -> forall a, In a la -> a < n.
Proof. intros Hlen Hloc a Ha. rewrite <- Hlen. exact (locals_lt c al la Hloc a Ha). Qed.

End SemiStableStage.

(* ------------------------------------------------------------------------------------------ *)
(** * 12. Examples: the hypotheses are satisfiable; runs with a brute-force oracle *)

Definition ex_cycle : af := compact 3 [(0, 1); (1, 2); (2, 0)].              (* no stable extension *)
Definition ex_diamond : af := compact 4 [(0, 1); (1, 0); (0, 2); (1, 2); (2, 3)].
Definition ex_selfatt : af := compact 3 [(0, 0); (1, 2); (2, 1)].
Definition ex_chain : af := compact 3 [(0, 1); (1, 2)].                       (* grounded = [0; 2] *)
Definition ex_comp (F : af) : comp := {| c_ids := args F; c_af := F |}.

Example ex_hypotheses :
  compact_af ex_chain 3 /\ co ex_chain (grounded (view_of_af ex_chain)) /\
  NoDup (grounded (view_of_af ex_chain)) /\
  valid_oracle (fun _ _ _ => Unknown) /\ locals (ex_comp ex_chain) [2; 0] = Some [2; 0] /\
  enc_base ExpCo = BCo /\ enc_base AuxCf = BCf.
Proof.
  split; [|split; [|split; [|split; [|split; [|split]]]]]; try reflexivity.
  - split; [reflexivity|]. intros a b H. cbn in H.
    destruct H as [H|[H|[]]]; inversion H; lia.
  - apply cob_co. vm_compute. reflexivity.
  - vm_compute. apply NoDup_cons; [intros [H|[]]; discriminate|apply NoDup_cons; [intros []|apply NoDup_nil]].
  - intros i C a. exact I.
Qed.

(* a reference oracle by enumeration (illustration only: the theorems hold for every valid oracle) *)
Definition bf_oracle : nat -> cnf -> list lit -> answer := fun _ C a =>
  let f := C ++ units a in
  match all_models (cnf_max f) f with m :: _ => Sat m | [] => Unsat end.

Definition ex_se (e : enc) (F : af) : bool :=
  match rg_max_in_cc bf_oracle 3 100 e (ex_comp F) (init_st CadicalLike) with
  | Done l s =>
      (match enc_base e with BCo => sstb F l | _ => stgb F l end)
      && Nat.leb (calls s) ((length (args F) + 2) * length (all_base (enc_base e) F) + 3)
  | _ => false
  end.
Definition ex_acc (e : enc) (F : af) (la : list nat) (cr : bool) : bool :=
  let sm := match enc_base e with BCo => SST | _ => STG end in
  match rg_in_cc bf_oracle 3 100 e (ex_comp F) la cr (init_st CadicalLike) with
  | Done (b, ce) s =>
      Bool.eqb b (if cr then credb sm F la else skepb sm F la)
      && (match ce with Some x => extb sm F x && Bool.eqb (meets la x) cr | None => Bool.eqb b (negb cr) end)
      && Nat.leb (calls s) ((length (args F) + 2) * length (all_base (enc_base e) F) + 3)
  | _ => false
  end.

Example ex_se_runs :
  forallb (fun e => ex_se e ex_cycle && ex_se e ex_selfatt && ex_se e ex_chain) [ExpCo; HybCo; ExpCf; AuxCo; AuxCf]
  && forallb (fun e => ex_se e ex_diamond) [ExpCo; HybCo; ExpCf] = true.
Proof. vm_compute. reflexivity. Qed.

Example ex_acc_runs :
  forallb (fun e => ex_acc e ex_cycle [0] true && ex_acc e ex_cycle [1; 2] false) [ExpCo; ExpCf]
  && forallb (fun e => ex_acc e ex_diamond [2] true && ex_acc e ex_diamond [3] false
                       && ex_acc e ex_diamond [0] false) [ExpCo; HybCo] = true.
Proof. vm_compute. reflexivity. Qed.

(* ------------------------------------------------------------------------------------------ *)
Print Assumptions rg_max_in_cc_spec.
Print Assumptions rg_in_cc_spec.
Print Assumptions se_sst_component.
Print Assumptions se_stg_component.
Print Assumptions accept_sst_component.
Print Assumptions accept_stg_component.
Print Assumptions accept_sst_component_status.
Print Assumptions accept_stg_component_status.
Print Assumptions range_se_calls.
Print Assumptions range_accept_calls.
