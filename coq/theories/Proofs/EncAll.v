(* The encoder theorems for every encoder, assembled from the aux_var / stable family
   (Proofs/EncAux.v) and the exp / hybrid family (Proofs/EncExp.v). *)
From Crusta Require Import Proofs.EncSpec Proofs.EncBase Proofs.EncAux Proofs.EncExp.

Lemma enc_family : forall e, is_aux_family e \/ is_exp_family e.
Proof. unfold is_aux_family, is_exp_family. destruct e; tauto. Qed.

Lemma all_sound : forall e thr F n, 1 <= thr -> compact_af F n -> enc_sound e thr F n.
Proof.
  intros e thr F n Ht HF. destruct (enc_family e) as [He|He];
    [now apply aux_sound|now apply exp_sound].
Qed.
Lemma all_complete : forall e thr F n, 1 <= thr -> compact_af F n -> enc_complete e thr F n.
Proof.
  intros e thr F n Ht HF. destruct (enc_family e) as [He|He];
    [now apply aux_complete|now apply exp_complete].
Qed.
Lemma all_range_sound : forall e thr F n, 1 <= thr -> compact_af F n -> enc_range_sound e thr F n.
Proof.
  intros e thr F n Ht HF. destruct (enc_family e) as [He|He];
    [now apply aux_range_sound|now apply exp_range_sound].
Qed.
Lemma all_range_complete : forall e thr F n, 1 <= thr -> compact_af F n -> enc_range_complete e thr F n.
Proof.
  intros e thr F n Ht HF. destruct (enc_family e) as [He|He];
    [now apply aux_range_complete|now apply exp_range_complete].
Qed.
Lemma all_layout : forall e thr range F n, 1 <= thr -> compact_af F n -> enc_layout e thr range F n.
Proof.
  intros e thr range F n Ht HF. destruct (enc_family e) as [He|He];
    [now apply aux_layout|now apply exp_layout].
Qed.
Lemma all_a2e : forall e n, a2e_ok e n.
Proof.
  intros e n. destruct (enc_family e) as [He|He]; [now apply aux_a2e|now apply exp_a2e].
Qed.
Lemma all_defined : forall e thr range F,
  enc_clauses e thr range F = None <-> (e = StDefault /\ range = true).
Proof.
  intros e thr range F. unfold enc_clauses, encode_af, encode.
  destruct e, range; cbn [option_map]; split; intros H; try discriminate; try tauto;
    destruct H as [H1 H2]; discriminate.
Qed.
