(* The hypotheses of the whole-framework theorems (Proofs/SolverWhole.v) are satisfiable, and the
   theorems are not vacuous: a brute-force SAT oracle is proved valid, the graph hypotheses are
   discharged on concrete frameworks, and the instantiated theorems are checked against the values
   the model computes ([vm_compute] inside Examples only). *)
From Crusta Require Import Spec.AF Sat.Cnf Sat.Prog Model.Encoders Model.Graph Model.Solvers.
From Crusta Require Import Spec.SemFacts Spec.Theory Proofs.Decomp.
From Crusta Require Import Proofs.ProgLaws Proofs.EncSpec Proofs.EncBase Proofs.SolverBasics
  Proofs.SolverThms Proofs.SolverWhole.
From Coq Require Import ZifyBool.
Import ListNotations.
Open Scope prog_scope.

(* ------------------------------------------------------------------------------------------ *)
(** * A valid brute-force oracle *)

(* first model among all total assignments over the variables that occur; literal 0 (not a DIMACS
   literal) is answered Unknown *)
Definition bf_oracle (i : nat) (C : cnf) (a : list lit) : answer :=
  let f := C ++ units a in
  if forallb (forallb lit_ok) f then
    match find (fun m => models m f) (all_assignments (cnf_max f)) with
    | Some m => Sat m
    | None => Unsat
    end
  else Unknown.

Lemma all_assignments_complete : forall n v, In (assignment_of n v) (all_assignments n).
Proof.
  induction n as [|n IH]; intros v; cbn [all_assignments].
  - left. reflexivity.
  - apply in_flat_map. exists (assignment_of n v). split; [apply IH|].
    unfold assignment_of. rewrite seq_S, map_app. cbn [map Nat.add].
    destruct (v (S n)); [right; left|left]; reflexivity.
Qed.

Lemma value_of_assignment_of : forall n v x, 1 <= x <= n -> value_of (assignment_of n v) x = Some (v x).
Proof.
  intros n v x H. unfold value_of, assignment_of.
  rewrite (nth_indep _ None (Some (v (S 0)))) by (rewrite map_length, seq_length; lia).
  rewrite (map_nth (fun i => Some (v (S i))) (seq 0 n) 0 (x - 1)).
  rewrite seq_nth by lia. cbn [Nat.add]. replace (S (x - 1)) with x by lia. reflexivity.
Qed.

Lemma lit_true_assignment_of : forall n v l,
  lit_ok l = true -> lit_var l <= n -> lit_true (assignment_of n v) l = vtrue v l.
Proof.
  intros n v l Hok Hle. unfold lit_true, vtrue. rewrite value_of_assignment_of.
  - destruct (0 <? l)%Z; reflexivity.
  - split; [|exact Hle]. unfold lit_ok in Hok. unfold lit_var. lia.
Qed.

Lemma cnf_max_ge : forall f c l, In c f -> In l c -> lit_var l <= cnf_max f.
Proof.
  induction f as [|d f IH]; intros c l Hc Hl; [destruct Hc|]. cbn [cnf_max fold_right].
  destruct Hc as [->|Hc].
  - pose proof (clause_max_ge c l Hl). lia.
  - specialize (IH c l Hc Hl). unfold cnf_max in IH. lia.
Qed.

Lemma existsb_ext_in : forall (A : Type) (p q : A -> bool) l,
  (forall x, In x l -> p x = q x) -> existsb p l = existsb q l.
Proof.
  intros A p q. induction l as [|x r IH]; intros H; cbn [existsb]; [reflexivity|].
  rewrite (H x (or_introl eq_refl)), IH; [reflexivity|]. intros y Hy. apply H. now right.
Qed.

Lemma forallb_ext_in : forall (A : Type) (p q : A -> bool) l,
  (forall x, In x l -> p x = q x) -> forallb p l = forallb q l.
Proof.
  intros A p q. induction l as [|x r IH]; intros H; cbn [forallb]; [reflexivity|].
  rewrite (H x (or_introl eq_refl)), IH; [reflexivity|]. intros y Hy. apply H. now right.
Qed.

Lemma models_assignment_of : forall n v f,
  forallb (forallb lit_ok) f = true -> cnf_max f <= n -> models (assignment_of n v) f = vmodels v f.
Proof.
  intros n v f Hok Hle. unfold models, vmodels. apply forallb_ext_in. intros c Hc.
  unfold sat_clause, vsat_clause. apply existsb_ext_in. intros l Hl.
  rewrite forallb_forall in Hok. specialize (Hok c Hc). rewrite forallb_forall in Hok.
  apply lit_true_assignment_of; [now apply Hok|]. pose proof (cnf_max_ge f c l Hc Hl). lia.
Qed.

Lemma models_units : forall m a, models m (units a) = forallb (lit_true m) a.
Proof.
  intros m. induction a as [|l a IH]; [reflexivity|]. unfold units, models in *. cbn [map forallb].
  rewrite IH. unfold sat_clause. cbn [existsb]. now rewrite orb_false_r.
Qed.

Lemma vmodels_units : forall v a, vmodels v (units a) = forallb (vtrue v) a.
Proof.
  intros v. induction a as [|l a IH]; [reflexivity|]. unfold units, vmodels in *. cbn [map forallb].
  rewrite IH. now rewrite vsat_single.
Qed.

Theorem bf_oracle_valid : valid_oracle bf_oracle.
Proof.
  intros i C a. unfold bf_oracle. cbv zeta.
  destruct (forallb (forallb lit_ok) (C ++ units a)) eqn:Hok; [|exact I].
  destruct (find (fun m => models m (C ++ units a)) (all_assignments (cnf_max (C ++ units a))))
    as [m|] eqn:Hf.
  - apply find_some in Hf. destruct Hf as [_ Hm]. unfold models in Hm. rewrite forallb_app in Hm.
    fold (models m C) in Hm. fold (models m (units a)) in Hm. rewrite models_units in Hm.
    apply andb_prop in Hm. exact Hm.
  - intros v Hv Ha.
    pose proof (find_none _ _ Hf (assignment_of _ v) (all_assignments_complete _ v)) as Hn.
    cbv beta in Hn. rewrite (models_assignment_of _ v _ Hok (le_n _)) in Hn.
    rewrite vmodels_app, Hv, vmodels_units, Ha in Hn. discriminate.
Qed.

(* ------------------------------------------------------------------------------------------ *)
(** * A two-component framework: 0 <-> 1, 2 isolated *)

Definition F3 : af := {| args := [0; 1; 2]; atts := [(0, 1); (1, 0)] |}.
Definition g3 : gview := view_of_af F3.

Lemma F3_wf : wf F3.
Proof.
  split.
  - apply nodupb_NoDup. reflexivity.
  - intros a b [E|[E|[]]]; injection E as <- <-; cbn; tauto.
Qed.

Lemma F3_cc : exists ccs, all_ccs g3 = Some ccs /\ decomp_ok F3 ccs.
Proof.
  eexists. split; [vm_compute; reflexivity|]. apply decomp_okb_sound. vm_compute. reflexivity.
Qed.

Lemma F3_gr : gr F3 (grounded g3) /\ NoDup (grounded g3).
Proof.
  split; [apply grb_gr; vm_compute; reflexivity|apply nodupb_NoDup; vm_compute; reflexivity].
Qed.

Lemma on_done_run : forall A (m : M A) (Q : A -> Prop) d a s,
  on_done m Q -> run d m = Done a s -> Q a.
Proof. intros A m Q d a s H E. specialize (H (init_st d)). unfold run in E. now rewrite E in H. Qed.

(* the theorems instantiated: valid oracle, threshold 1, F3 *)
Example F3_st_se_thm :
  on_done (st_se bf_oracle 1 g3)
    (fun r => match r with
              | Some L => st F3 L /\ NoDup L /\ incl L (args F3)
              | None => forall S, ~ st F3 S
              end).
Proof. exact (st_se_whole bf_oracle 1 (le_n 1) bf_oracle_valid F3 g3 F3_cc). Qed.

(* ... and the runs complete: the conclusions are obtained THROUGH the theorems *)
Example F3_st_se : st F3 [1; 2] /\ NoDup [1; 2] /\ incl [1; 2] (args F3).
Proof.
  assert (E : exists s, run CadicalLike (st_se bf_oracle 1 g3) = Done (Some [1; 2]) s)
    by (eexists; vm_compute; reflexivity).
  destruct E as [s E]. exact (on_done_run _ _ _ _ _ _ F3_st_se_thm E).
Qed.

Example F3_st_dc : cred ST F3 [1; 2; 1] /\ ~ cred ST F3 [3].
Proof.
  split.
  - assert (E : exists s, run CadicalLike (st_dc bf_oracle 1 g3 [1; 2; 1]) = Done (true, Some [1; 2]) s)
      by (eexists; vm_compute; reflexivity).
    destruct E as [s E].
    exact (proj2 (proj2 (proj2 (proj2
             (on_done_run _ _ _ _ _ _
                (st_dc_whole bf_oracle 1 (le_n 1) bf_oracle_valid F3 g3 F3_cc [1; 2; 1]) E))))).
  - assert (E : exists s, run CadicalLike (st_dc bf_oracle 1 g3 [3]) = Done (false, None) s)
      by (eexists; vm_compute; reflexivity).
    destruct E as [s E].
    exact (on_done_run _ _ _ _ _ _
             (st_dc_whole bf_oracle 1 (le_n 1) bf_oracle_valid F3 g3 F3_cc [3]) E).
Qed.

Example F3_st_ds : skep ST F3 [2] /\ ~ skep ST F3 [0] /\ skep ST F3 [0; 1].
Proof.
  split; [|split].
  - assert (E : exists s, run CadicalLike (st_ds bf_oracle 1 g3 [2]) = Done (true, None) s)
      by (eexists; vm_compute; reflexivity).
    destruct E as [s E].
    exact (on_done_run _ _ _ _ _ _
             (st_ds_whole bf_oracle 1 (le_n 1) bf_oracle_valid F3 g3 F3_cc [2]) E).
  - assert (E : exists s, run CadicalLike (st_ds bf_oracle 1 g3 [0]) = Done (false, Some [1; 2]) s)
      by (eexists; vm_compute; reflexivity).
    destruct E as [s E].
    exact (proj2 (proj2 (proj2 (proj2
             (on_done_run _ _ _ _ _ _
                (st_ds_whole bf_oracle 1 (le_n 1) bf_oracle_valid F3 g3 F3_cc [0]) E))))).
  - assert (E : exists s, run CadicalLike (st_ds bf_oracle 1 g3 [0; 1]) = Done (true, None) s)
      by (eexists; vm_compute; reflexivity).
    destruct E as [s E].
    exact (on_done_run _ _ _ _ _ _
             (st_ds_whole bf_oracle 1 (le_n 1) bf_oracle_valid F3 g3 F3_cc [0; 1]) E).
Qed.

Example F3_gr_ex : gr F3 [2] /\ cred GR F3 [0; 2] /\ ~ skep GR F3 [0; 1].
Proof.
  split; [|split].
  - exact (proj1 (gr_se_whole F3 g3 F3_gr)).
  - apply (proj1 (gr_dc_whole F3 g3 F3_wf F3_gr [0; 2] true (Some [2]) eq_refl)). reflexivity.
  - intros H. apply (proj1 (gr_ds_whole F3 g3 F3_wf F3_gr [0; 1] false (Some [2]) eq_refl)) in H.
    discriminate.
Qed.

(* a component without stable extension: 0 <-> 1, 2 self-attacking *)
Definition F3' : af := {| args := [0; 1; 2]; atts := [(0, 1); (1, 0); (2, 2)] |}.
Lemma F3'_cc : exists ccs, all_ccs (view_of_af F3') = Some ccs /\ decomp_ok F3' ccs.
Proof.
  eexists. split; [vm_compute; reflexivity|]. apply decomp_okb_sound. vm_compute. reflexivity.
Qed.

Example F3'_st : (forall S, ~ st F3' S) /\ skep ST F3' [0] /\ ~ cred ST F3' [0].
Proof.
  split; [|split].
  - assert (E : exists s, run CadicalLike (st_se bf_oracle 1 (view_of_af F3')) = Done None s)
      by (eexists; vm_compute; reflexivity).
    destruct E as [s E].
    exact (on_done_run _ _ _ _ _ _
             (st_se_whole bf_oracle 1 (le_n 1) bf_oracle_valid F3' _ F3'_cc) E).
  - assert (E : exists s, run CadicalLike (st_ds bf_oracle 1 (view_of_af F3') [0]) = Done (true, None) s)
      by (eexists; vm_compute; reflexivity).
    destruct E as [s E].
    exact (on_done_run _ _ _ _ _ _
             (st_ds_whole bf_oracle 1 (le_n 1) bf_oracle_valid F3' _ F3'_cc [0]) E).
  - assert (E : exists s, run CadicalLike (st_dc bf_oracle 1 (view_of_af F3') [0]) = Done (false, None) s)
      by (eexists; vm_compute; reflexivity).
    destruct E as [s E].
    exact (on_done_run _ _ _ _ _ _
             (st_dc_whole bf_oracle 1 (le_n 1) bf_oracle_valid F3' _ F3'_cc [0]) E).
Qed.

(* ------------------------------------------------------------------------------------------ *)
(** * The merged-component hypothesis on F3 (every non-empty list of arguments of F3) *)

Definition mstep (g : gview) (acc : ccstate * list nat) (a : nat) : ccstate * list nat :=
  let '(s0, l) := acc in
  if nth_bool (in_cc s0) a then acc
  else let '(s1, c) := find_cc g s0 a in (s1, l ++ c).

Lemma merged_cc_of_eq : forall g s al,
  merged_cc_of g s al =
  if existsb (fun a => nth_bool (in_cc s) a) al then None
  else let st := fold_left (mstep g) al (s, []) in
       match extract_cc g (snd st) with Some c => Some (fst st, c) | None => None end.
Proof.
  intros g s al. unfold merged_cc_of, mstep. destruct (existsb _ al); [reflexivity|].
  destruct (fold_left _ al (s, [])) as [s' ids]. reflexivity.
Qed.

Lemma fold_skip : forall g r st,
  forallb (fun a => nth_bool (in_cc (fst st)) a) r = true -> fold_left (mstep g) r st = st.
Proof.
  intros g. induction r as [|a r IH]; intros [s l] H; [reflexivity|].
  cbn [forallb fst] in H. apply andb_prop in H. destruct H as [H1 H2].
  cbn [fold_left]. unfold mstep at 2. rewrite H1. apply IH. exact H2.
Qed.

Lemma split_first : forall (p : nat -> bool) r,
  forallb p r = true \/
  exists r1 b r2, r = r1 ++ b :: r2 /\ forallb p r1 = true /\ p b = false.
Proof.
  intros p. induction r as [|a r IH]; [left; reflexivity|].
  destruct (p a) eqn:Ha.
  - destruct IH as [IH|[r1 [b [r2 [-> [H1 H2]]]]]].
    + left. cbn [forallb]. now rewrite Ha, IH.
    + right. exists (a :: r1), b, r2. split; [reflexivity|]. cbn [forallb]. now rewrite Ha, H1.
  - right. exists [], a, r. split; [reflexivity|]. split; [reflexivity|exact Ha].
Qed.

Lemma mstep_keeps : forall g st b, incl (snd st) (snd (mstep g st b)).
Proof.
  intros g [s l] b. unfold mstep. destruct (nth_bool (in_cc s) b); [apply incl_refl|].
  destruct (find_cc g s b) as [s1 c]. cbn [snd]. apply incl_appl, incl_refl.
Qed.

(* at most two components are touched: after the first argument, either everything is already
   marked, or the first unmarked argument completes the marking *)
Lemma merged_two_steps : forall g A (fin : ccstate * list nat -> Prop) st1,
  (forall x, In x A -> nth_bool (in_cc (fst st1)) x = true -> In x (snd st1)) ->
  fin st1 ->
  (forall b, In b A -> nth_bool (in_cc (fst st1)) b = false ->
     fin (mstep g st1 b) /\
     forall x, In x A -> nth_bool (in_cc (fst (mstep g st1 b))) x = true /\ In x (snd (mstep g st1 b))) ->
  forall r, (forall x, In x r -> In x A) ->
    fin (fold_left (mstep g) r st1) /\
    (forall x, In x r -> In x (snd (fold_left (mstep g) r st1))) /\
    incl (snd st1) (snd (fold_left (mstep g) r st1)).
Proof.
  intros g A fin st1 Hm Hf Hstep r Hr.
  destruct (split_first (fun x => nth_bool (in_cc (fst st1)) x) r) as [Hall|[r1 [b [r2 [-> [H1 Hb]]]]]].
  - rewrite (fold_skip g r st1 Hall). split; [exact Hf|]. split; [|apply incl_refl].
    intros x Hx. apply Hm; [now apply Hr|]. rewrite forallb_forall in Hall. now apply Hall.
  - assert (HbA : In b A) by (apply Hr, in_or_app; right; now left).
    destruct (Hstep b HbA Hb) as [Hf2 Hall2].
    rewrite fold_left_app, (fold_skip g r1 st1 H1). cbn [fold_left].
    rewrite (fold_skip g r2 (mstep g st1 b)).
    + split; [exact Hf2|]. split; [|apply mstep_keeps].
      intros x Hx. apply (Hall2 x). now apply Hr.
    + apply forallb_forall. intros x Hx. apply (Hall2 x). apply Hr, in_or_app. right. now right.
Qed.

Definition fin_ok (F : af) (g : gview) (st : ccstate * list nat) : Prop :=
  exists c rest, extract_cc g (snd st) = Some c /\ c_ids c = snd st /\
                 remaining_ccs g (fst st) = Some rest /\ decomp_ok F (c :: rest).

(* what has to be checked (by computation) on a concrete framework with at most two components *)
Definition first_step_ok (F : af) (g : gview) : Prop :=
  forall a, In a (args F) ->
  let st1 := mstep g (cc_new g, []) a in
  In a (snd st1) /\
  (forall x, In x (args F) -> nth_bool (in_cc (fst st1)) x = true -> In x (snd st1)) /\
  fin_ok F g st1 /\
  (forall b, In b (args F) -> nth_bool (in_cc (fst st1)) b = false ->
     fin_ok F g (mstep g st1 b) /\
     forall x, In x (args F) ->
       nth_bool (in_cc (fst (mstep g st1 b))) x = true /\ In x (snd (mstep g st1 b))).

Definition not_marked (F : af) (g : gview) : Prop :=
  forall a, In a (args F) -> nth_bool (in_cc (cc_new g)) a = false.

Lemma merged_from_first_step : forall F g, first_step_ok F g -> not_marked F g ->
  forall al, al <> [] -> (forall a, In a al -> In a (args F)) ->
  exists s' c rest,
    merged_cc_of g (cc_new g) al = Some (s', c) /\ (forall a, In a al -> In a (c_ids c)) /\
    remaining_ccs g s' = Some rest /\ decomp_ok F (c :: rest).
Proof.
  intros F g Hfirst Hnm al Hne Hal. destruct al as [|a r]; [congruence|].
  assert (Hex : existsb (fun a => nth_bool (in_cc (cc_new g)) a) (a :: r) = false).
  { destruct (existsb _ (a :: r)) eqn:E; [|reflexivity]. apply existsb_exists in E.
    destruct E as [x [Hx E]]. rewrite (Hnm x (Hal x Hx)) in E. discriminate. }
  rewrite merged_cc_of_eq, Hex. cbv zeta. cbn [fold_left].
  destruct (Hfirst a (Hal a (or_introl eq_refl))) as [Ha [Hm [Hf Hstep]]]. cbv zeta in *.
  destruct (merged_two_steps g (args F) (fin_ok F g) _ Hm Hf Hstep r
              (fun x Hx => Hal x (or_intror Hx))) as [[c [rest [H1 [H2 [H3 H4]]]]] [H5 H6]].
  rewrite H1. exists (fst (fold_left (mstep g) r (mstep g (cc_new g, []) a))), c, rest.
  split; [reflexivity|]. split; [|split; assumption].
  intros x [<-|Hx]; rewrite H2; [apply H6; exact Ha|apply H5; exact Hx].
Qed.

Ltac fin_ok_tac :=
  eexists; eexists; split; [reflexivity|]; split; [reflexivity|]; split; [reflexivity|];
  apply decomp_okb_sound; vm_compute; reflexivity.

(* case analysis on a member of a concrete argument list *)
Ltac case_arg x Hx :=
  cbn [args In] in Hx; repeat (destruct Hx as [Hx|Hx]); [subst x ..|destruct Hx].

Ltac first_step_tac :=
  let a := fresh "a" in let Ha := fresh "Ha" in
  intros a Ha; case_arg a Ha; cbv zeta;
  (split; [apply memb_In; vm_compute; reflexivity|]);
  (split; [let x := fresh "x" in let Hx := fresh "Hx" in let E := fresh "E" in
           intros x Hx; case_arg x Hx; intros E;
           ((apply memb_In; vm_compute; reflexivity) || (vm_compute in E; discriminate))|]);
  (split; [fin_ok_tac|]);
  (let b := fresh "b" in let Hb := fresh "Hb" in let E := fresh "E" in
   intros b Hb; case_arg b Hb; intros E; try (vm_compute in E; discriminate));
  (split; [fin_ok_tac|]);
  (let x := fresh "x" in let Hx := fresh "Hx" in
   intros x Hx; case_arg x Hx;
   (split; [vm_compute; reflexivity|apply memb_In; vm_compute; reflexivity])).

Ltac not_marked_tac :=
  let a := fresh "a" in let Ha := fresh "Ha" in
  intros a Ha; case_arg a Ha; vm_compute; reflexivity.

Lemma F3_first_step : first_step_ok F3 g3.
Proof. first_step_tac. Qed.

Lemma F3_not_marked : not_marked F3 g3.
Proof. not_marked_tac. Qed.

Lemma F3_merged : forall al, al <> [] -> (forall a, In a al -> In a (args F3)) ->
  exists s' c rest,
    merged_cc_of g3 (cc_new g3) al = Some (s', c) /\ (forall a, In a al -> In a (c_ids c)) /\
    remaining_ccs g3 s' = Some rest /\ decomp_ok F3 (c :: rest).
Proof. exact (merged_from_first_step F3 g3 F3_first_step F3_not_marked). Qed.

(* (G4) instantiated on F3, through the theorem *)
Example F3_co_dc : cred CO F3 [0; 2; 0] /\ ~ cred CO F3 [] .
Proof.
  split.
  - assert (E : exists s, run CadicalLike (co_dc bf_oracle 1 AuxCo g3 [0; 2; 0]) = Done true s)
      by (eexists; vm_compute; reflexivity).
    destruct E as [s E].
    apply (on_done_run _ _ _ _ _ _
             (co_dc_whole bf_oracle 1 (le_n 1) bf_oracle_valid F3 g3 F3_merged AuxCo [0; 2; 0]
                eq_refl ltac:(discriminate)
                ltac:(intros x Hx; apply memb_In; cbn in Hx; intuition subst; reflexivity)) E).
    reflexivity.
  - intros [S [_ [a [[] _]]]].
Qed.

(* ------------------------------------------------------------------------------------------ *)
(** * All hypotheses at once: two isolated arguments (two components, no attack) *)

Definition F2 : af := {| args := [0; 1]; atts := [] |}.
Definition g2 : gview := view_of_af F2.

Lemma F2_wf : wf F2.
Proof. split; [apply nodupb_NoDup; reflexivity|intros a b []]. Qed.

Lemma F2_cc : exists ccs, all_ccs g2 = Some ccs /\ decomp_ok F2 ccs.
Proof.
  eexists. split; [vm_compute; reflexivity|]. apply decomp_okb_sound. vm_compute. reflexivity.
Qed.

Lemma F2_gr : gr F2 (grounded g2) /\ NoDup (grounded g2).
Proof.
  split; [apply grb_gr; vm_compute; reflexivity|apply nodupb_NoDup; vm_compute; reflexivity].
Qed.

Lemma F2_merged : forall al, al <> [] -> (forall a, In a al -> In a (args F2)) ->
  exists s' c rest,
    merged_cc_of g2 (cc_new g2) al = Some (s', c) /\ (forall a, In a al -> In a (c_ids c)) /\
    remaining_ccs g2 s' = Some rest /\ decomp_ok F2 (c :: rest).
Proof.
  apply merged_from_first_step; [first_step_tac|not_marked_tac].
Qed.

(* a component of a decomposition of F2 has at most two arguments and no attack *)
Lemma F2_comp_shape : forall ccs c, decomp_ok F2 ccs -> In c ccs ->
  exists n, n <= 2 /\ c_af c = {| args := seq 0 n; atts := [] |}.
Proof.
  intros ccs c Hok Hc. destruct (d_compact _ _ Hok c Hc) as [Ha Hat].
  assert (Hlen : length (c_ids c) <= 2).
  { apply (NoDup_incl_length (comp_ids_NoDup F2 ccs Hok c Hc) (l' := args F2)).
    intros a Hin. apply (d_cover _ _ Hok). apply in_concat. exists (c_ids c).
    split; [now apply in_map|exact Hin]. }
  assert (Hatts : atts (c_af c) = []).
  { destruct (atts (c_af c)) as [|[i j] t] eqn:E; [reflexivity|exfalso].
    destruct (Hat i j (or_introl eq_refl)) as [Hi Hj].
    assert (X : att F2 (cc_global c i) (cc_global c j)).
    { apply (d_att _ _ Hok c Hc i j Hi Hj). unfold att. rewrite E. left. reflexivity. }
    exact X. }
  exists (length (c_ids c)). split; [exact Hlen|].
  destruct (c_af c) as [ar at']. cbn [args atts] in *. now subst.
Qed.

Lemma F2_gr_cc : forall ccs c, decomp_ok F2 ccs -> In c ccs ->
  gr (c_af c) (grounded (view_of_af (c_af c))).
Proof.
  intros ccs c Hok Hc. destruct (F2_comp_shape ccs c Hok Hc) as [n [Hn ->]].
  destruct n as [|[|[|n]]]; [apply grb_gr; vm_compute; reflexivity ..|lia].
Qed.

Lemma F2_gr_cc_nd : forall ccs c, decomp_ok F2 ccs -> In c ccs ->
  NoDup (grounded (view_of_af (c_af c))).
Proof.
  intros ccs c Hok Hc. destruct (F2_comp_shape ccs c Hok Hc) as [n [Hn ->]].
  destruct n as [|[|[|n]]]; [apply nodupb_NoDup; vm_compute; reflexivity ..|lia].
Qed.

(* the certificate of CO-DC: the model of the merged component {1} glued with the grounded extension
   of the other component {0} *)
Example F2_co_dc_cert : co F2 [1; 0] /\ NoDup [1; 0] /\ cred CO F2 [1].
Proof.
  assert (E : exists s, run CadicalLike (co_dc_cert bf_oracle 1 AuxCo g2 [1]) = Done (true, Some [1; 0]) s)
    by (eexists; vm_compute; reflexivity).
  destruct E as [s E].
  assert (Hne : [1] <> []) by discriminate.
  assert (Hal : forall a, In a [1] -> In a (args F2)) by (intros a [<-|[]]; right; left; reflexivity).
  pose proof (on_done_run _ _ _ _ _ _
                (co_dc_cert_whole bf_oracle 1 (le_n 1) bf_oracle_valid F2 g2 F2_merged F2_gr_cc
                   AuxCo [1] eq_refl Hne Hal) E) as H1.
  pose proof (on_done_run _ _ _ _ _ _
                (co_dc_cert_nodup bf_oracle 1 (le_n 1) bf_oracle_valid F2 g2 F2_merged F2_gr_cc
                   F2_gr_cc_nd AuxCo [1] eq_refl Hne Hal) E) as H2.
  cbv beta iota in H1. cbn [snd] in H2. cbv beta iota in H2. tauto.
Qed.

(* ------------------------------------------------------------------------------------------ *)
Print Assumptions bf_oracle_valid.
Print Assumptions F3_st_se.
Print Assumptions F3_st_dc.
Print Assumptions F3_st_ds.
Print Assumptions F3'_st.
Print Assumptions F3_gr_ex.
Print Assumptions F3_co_dc.
Print Assumptions F2_co_dc_cert.
