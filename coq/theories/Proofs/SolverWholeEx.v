(* The hypotheses of the whole-framework theorems (Proofs/SolverWhole.v) are satisfiable, and the
   theorems are not vacuous: a brute-force SAT oracle is proved valid, the graph hypotheses are
   discharged on concrete frameworks, and the instantiated theorems are checked against the values
   the model computes ([vm_compute] inside Examples only). *)
From Crusta Require Import Spec.AF Sat.Cnf Sat.Prog Model.Encoders Model.Graph Model.Solvers.
From Crusta Require Import Spec.SemFacts Spec.Theory Proofs.Decomp.
From Crusta Require Import Proofs.ProgLaws Proofs.EncSpec Proofs.EncBase Proofs.SolverBasics
  Proofs.SolverThms Proofs.SolverWhole.
From Coq Require Import ZifyBool.
Import ListNotations.
Open Scope prog_scope.

(* ------------------------------------------------------------------------------------------ *)
(** * A valid brute-force oracle *)

(* first model among all total assignments over the variables that occur; literal 0 (not a DIMACS
   literal) is answered Unknown *)
Definition bf_oracle (i : nat) (C : cnf) (a : list lit) : answer :=
  let f := C ++ units a in
  if forallb (forallb lit_ok) f then
    match find (fun m => models m f) (all_assignments (cnf_max f)) with
    | Some m => Sat m
    | None => Unsat
    end
  else Unknown.

Lemma all_assignments_complete : forall n v, In (assignment_of n v) (all_assignments n).
Proof.
  induction n as [|n IH]; intros v; cbn [all_assignments].
  - left. reflexivity.
  - apply in_flat_map. exists (assignment_of n v). split; [apply IH|].
    unfold assignment_of. rewrite seq_S, map_app. cbn [map Nat.add].
    destruct (v (S n)); [right; left|left]; reflexivity.
Qed.

Lemma value_of_assignment_of : forall n v x, 1 <= x <= n -> value_of (assignment_of n v) x = Some (v x).
Proof.
  intros n v x H. unfold value_of, assignment_of.
  rewrite (nth_indep _ None (Some (v (S 0)))) by (rewrite map_length, seq_length; lia).
  rewrite (map_nth (fun i => Some (v (S i))) (seq 0 n) 0 (x - 1)).
  rewrite seq_nth by lia. cbn [Nat.add]. replace (S (x - 1)) with x by lia. reflexivity.
Qed.

Lemma lit_true_assignment_of : forall n v l,
  lit_ok l = true -> lit_var l <= n -> lit_true (assignment_of n v) l = vtrue v l.
Proof.
  intros n v l Hok Hle. unfold lit_true, vtrue. rewrite value_of_assignment_of.
  - destruct (0 <? l)%Z; reflexivity.
  - split; [|exact Hle]. unfold lit_ok in Hok. unfold lit_var. lia.
Qed.

Lemma cnf_max_ge : forall f c l, In c f -> In l c -> lit_var l <= cnf_max f.
Proof.
  induction f as [|d f IH]; intros c l Hc Hl; [destruct Hc|]. cbn [cnf_max fold_right].
  destruct Hc as [->|Hc].
  - pose proof (clause_max_ge c l Hl). lia.
  - specialize (IH c l Hc Hl). unfold cnf_max in IH. lia.
Qed.

Lemma existsb_ext_in : forall (A : Type) (p q : A -> bool) l,
  (forall x, In x l -> p x = q x) -> existsb p l = existsb q l.
Proof.
  intros A p q. induction l as [|x r IH]; intros H; cbn [existsb]; [reflexivity|].
  rewrite (H x (or_introl eq_refl)), IH; [reflexivity|]. intros y Hy. apply H. now right.
Qed.

Lemma forallb_ext_in : forall (A : Type) (p q : A -> bool) l,
  (forall x, In x l -> p x = q x) -> forallb p l = forallb q l.
Proof.
  intros A p q. induction l as [|x r IH]; intros H; cbn [forallb]; [reflexivity|].
  rewrite (H x (or_introl eq_refl)), IH; [reflexivity|]. intros y Hy. apply H. now right.
Qed.

Lemma models_assignment_of : forall n v f,
  forallb (forallb lit_ok) f = true -> cnf_max f <= n -> models (assignment_of n v) f = vmodels v f.
Proof.
  intros n v f Hok Hle. unfold models, vmodels. apply forallb_ext_in. intros c Hc.
  unfold sat_clause, vsat_clause. apply existsb_ext_in. intros l Hl.
  rewrite forallb_forall in Hok. specialize (Hok c Hc). rewrite forallb_forall in Hok.
  apply lit_true_assignment_of; [now apply Hok|]. pose proof (cnf_max_ge f c l Hc Hl). lia.
Qed.

Lemma models_units : forall m a, models m (units a) = forallb (lit_true m) a.
Proof.
  intros m. induction a as [|l a IH]; [reflexivity|]. unfold units, models in *. cbn [map forallb].
  rewrite IH. unfold sat_clause. cbn [existsb]. now rewrite orb_false_r.
Qed.

Lemma vmodels_units : forall v a, vmodels v (units a) = forallb (vtrue v) a.
Proof.
  intros v. induction a as [|l a IH]; [reflexivity|]. unfold units, vmodels in *. cbn [map forallb].
  rewrite IH. now rewrite vsat_single.
Qed.

Theorem bf_oracle_valid : valid_oracle bf_oracle.
Proof.
  intros i C a. unfold bf_oracle. cbv zeta.
  destruct (forallb (forallb lit_ok) (C ++ units a)) eqn:Hok; [|exact I].
  destruct (find (fun m => models m (C ++ units a)) (all_assignments (cnf_max (C ++ units a))))
    as [m|] eqn:Hf.
  - apply find_some in Hf. destruct Hf as [_ Hm]. unfold models in Hm. rewrite forallb_app in Hm.
    fold (models m C) in Hm. fold (models m (units a)) in Hm. rewrite models_units in Hm.
    apply andb_prop in Hm. exact Hm.
  - intros v Hv Ha.
    pose proof (find_none _ _ Hf (assignment_of _ v) (all_assignments_complete _ v)) as Hn.
    cbv beta in Hn. rewrite (models_assignment_of _ v _ Hok (le_n _)) in Hn.
    rewrite vmodels_app, Hv, vmodels_units, Ha in Hn. discriminate.
Qed.

(* ------------------------------------------------------------------------------------------ *)
(** * A two-component framework: 0 <-> 1, 2 isolated *)

Definition F3 : af := {| args := [0; 1; 2]; atts := [(0, 1); (1, 0)] |}.
Definition g3 : gview := view_of_af F3.

Lemma F3_wf : wf F3.
Proof.
  split.
  - apply nodupb_NoDup. reflexivity.
  - intros a b [E|[E|[]]]; injection E as <- <-; cbn; tauto.
Qed.

Lemma F3_cc : exists ccs, all_ccs g3 = Some ccs /\ decomp_ok F3 ccs.
Proof.
  eexists. split; [vm_compute; reflexivity|]. apply decomp_okb_sound. vm_compute. reflexivity.
Qed.

Lemma F3_gr : gr F3 (grounded g3) /\ NoDup (grounded g3).
Proof.
  split; [apply grb_gr; vm_compute; reflexivity|apply nodupb_NoDup; vm_compute; reflexivity].
Qed.

Lemma on_done_run : forall A (m : M A) (Q : A -> Prop) d a s,
  on_done m Q -> run d m = Done a s -> Q a.
Proof. intros A m Q d a s H E. specialize (H (init_st d)). unfold run in E. now rewrite E in H. Qed.

(* the theorems instantiated: valid oracle, threshold 1, F3 *)
Example F3_st_se_thm :
  on_done (st_se bf_oracle 1 g3)
    (fun r => match r with
              | Some L => st F3 L /\ NoDup L /\ incl L (args F3)
              | None => forall S, ~ st F3 S
              end).
Proof. exact (st_se_whole bf_oracle 1 (le_n 1) bf_oracle_valid F3 g3 F3_cc). Qed.

(* ... and the runs complete: the conclusions are obtained THROUGH the theorems *)
Example F3_st_se : st F3 [1; 2] /\ NoDup [1; 2] /\ incl [1; 2] (args F3).
Proof.
  assert (E : exists s, run CadicalLike (st_se bf_oracle 1 g3) = Done (Some [1; 2]) s)
    by (eexists; vm_compute; reflexivity).
  destruct E as [s E]. exact (on_done_run _ _ _ _ _ _ F3_st_se_thm E).
Qed.

Example F3_st_dc : cred ST F3 [1; 2; 1] /\ ~ cred ST F3 [3].
Proof.
  split.
  - assert (E : exists s, run CadicalLike (st_dc bf_oracle 1 g3 [1; 2; 1]) = Done (true, Some [1; 2]) s)
      by (eexists; vm_compute; reflexivity).
    destruct E as [s E].
    exact (proj2 (proj2 (proj2 (proj2
             (on_done_run _ _ _ _ _ _
                (st_dc_whole bf_oracle 1 (le_n 1) bf_oracle_valid F3 g3 F3_cc [1; 2; 1]) E))))).
  - assert (E : exists s, run CadicalLike (st_dc bf_oracle 1 g3 [3]) = Done (false, None) s)
      by (eexists; vm_compute; reflexivity).
    destruct E as [s E].
    exact (on_done_run _ _ _ _ _ _
             (st_dc_whole bf_oracle 1 (le_n 1) bf_oracle_valid F3 g3 F3_cc [3]) E).
Qed.

Example F3_st_ds : skep ST F3 [2] /\ ~ skep ST F3 [0] /\ skep ST F3 [0; 1].
Proof.
  split; [|split].
  - assert (E : exists s, run CadicalLike (st_ds bf_oracle 1 g3 [2]) = Done (true, None) s)
      by (eexists; vm_compute; reflexivity).
    destruct E as [s E].
    exact (on_done_run _ _ _ _ _ _
             (st_ds_whole bf_oracle 1 (le_n 1) bf_oracle_valid F3 g3 F3_cc [2]) E).
  - assert (E : exists s, run CadicalLike (st_ds bf_oracle 1 g3 [0]) = Done (false, Some [1; 2]) s)
      by (eexists; vm_compute; reflexivity).
    destruct E as [s E].
    exact (proj2 (proj2 (proj2 (proj2
             (on_done_run _ _ _ _ _ _
                (st_ds_whole bf_oracle 1 (le_n 1) bf_oracle_valid F3 g3 F3_cc [0]) E))))).
  - assert (E : exists s, run CadicalLike (st_ds bf_oracle 1 g3 [0; 1]) = Done (true, None) s)
      by (eexists; vm_compute; reflexivity).
    destruct E as [s E].
    exact (on_done_run _ _ _ _ _ _
             (st_ds_whole bf_oracle 1 (le_n 1) bf_oracle_valid F3 g3 F3_cc [0; 1]) E).
Qed.

Example F3_gr_ex : gr F3 [2] /\ cred GR F3 [0; 2] /\ ~ skep GR F3 [0; 1].
Proof.
  split; [|split].
  - exact (proj1 (gr_se_whole F3 g3 F3_gr)).
  - apply (proj1 (gr_dc_whole F3 g3 F3_wf F3_gr [0; 2] true (Some [2]) eq_refl)). reflexivity.
  - intros H. apply (proj1 (gr_ds_whole F3 g3 F3_wf F3_gr [0; 1] false (Some [2]) eq_refl)) in H.
    discriminate.
Qed.

(* a component without stable extension: 0 <-> 1, 2 self-attacking *)
Definition F3' : af := {| args := [0; 1; 2]; atts := [(0, 1); (1, 0); (2, 2)] |}.
Lemma F3'_cc : exists ccs, all_ccs (view_of_af F3') = Some ccs /\ decomp_ok F3' ccs.
Proof.
  eexists. split; [vm_compute; reflexivity|]. apply decomp_okb_sound. vm_compute. reflexivity.
Qed.

Example F3'_st : (forall S, ~ st F3' S) /\ skep ST F3' [0] /\ ~ cred ST F3' [0].
Proof.
  split; [|split].
  - assert (E : exists s, run CadicalLike (st_se bf_oracle 1 (view_of_af F3')) = Done None s)
      by (eexists; vm_compute; reflexivity).
    destruct E as [s E].
    exact (on_done_run _ _ _ _ _ _
             (st_se_whole bf_oracle 1 (le_n 1) bf_oracle_valid F3' _ F3'_cc) E).
  - assert (E : exists s, run CadicalLike (st_ds bf_oracle 1 (view_of_af F3') [0]) = Done (true, None) s)
      by (eexists; vm_compute; reflexivity).
    destruct E as [s E].
    exact (on_done_run _ _ _ _ _ _
             (st_ds_whole bf_oracle 1 (le_n 1) bf_oracle_valid F3' _ F3'_cc [0]) E).
  - assert (E : exists s, run CadicalLike (st_dc bf_oracle 1 (view_of_af F3') [0]) = Done (false, None) s)
      by (eexists; vm_compute; reflexivity).
    destruct E as [s E].
    exact (on_done_run _ _ _ _ _ _
             (st_dc_whole bf_oracle 1 (le_n 1) bf_oracle_valid F3' _ F3'_cc [0]) E).
Qed.
