(* C05 END TO END FROM THE BYTES OF THE INSTANCE FILE (ICCMA'23 format): the reader theorem
   ReadersProofs.iccma_faithful (C13), the good view of ICCMA-built stores TopGaps.iccma_store_good
   and the end-to-end theorem CliE2E.all_problems_correct composed.
     - [iccma_input]: the instance handed to the solve command by the ICCMA'23 reader
       (None = the reader returned an error);
     - [iccma_instance_facts]: on the framework read from a well-formed file: good view of the
       compact framework of the file, labels are the decimal 1-based numbers, read_arg_from_str;
     - [iccma_file_correct], [iccma_file_rejected], [wrapper_iccma_file_correct]. *)
From Coq Require Import String Ascii NArith List Bool Lia ZifyBool.
From Crusta Require Import Spec.AF Sat.Cnf Sat.Prog Model.Solvers Spec.IoSpec Model.Cli.
From Crusta Require Import Proofs.SolverBasics Proofs.ReadersProofs Proofs.CliProofs.
From Crusta Require Import Proofs.TopBase Proofs.TopMax Proofs.SolverTop Proofs.TopGaps Proofs.CliE2E.
From Crusta Require Proofs.SolverWholeEx.
Import ListNotations.

(* what `crustabri solve -r iccma23 -f file` hands to the command: the framework read from the
   bytes of the file, seen through [Cli.iccma_instance]; a reader error is "no instance" *)
Definition iccma_input (bytes : list N) : option instance :=
  match read_iccma bytes with
  | RdOk f => Some (iccma_instance f)
  | RdErr => None
  | RdPanic => None
  end.

(* ------------------------------------------------------------------ the framework that is read *)
Lemma find_numbered : forall (l : list nat) off id, id < length l ->
  find (fun p : nat * nat => Nat.eqb (fst p) (off + id)) (numbered off l) = Some (off + id, nth id l 0).
Proof.
  induction l as [|x l IH]; intros off id Hid; cbn [length] in Hid; [lia|].
  cbn [numbered find fst]. destruct id as [|id].
  - rewrite Nat.add_0_r, Nat.eqb_refl. reflexivity.
  - destruct (Nat.eqb_spec off (off + S id)) as [E|_]; [lia|].
    replace (off + S id) with (S off + id) by lia. rewrite IH by lia. reflexivity.
Qed.

Lemma iccma_fw_nargs n atts : (forall p, In p atts -> fst p < n /\ snd p < n) ->
  n_arguments nat (iccma_fw n atts) = n.
Proof.
  intros Hb. unfold iccma_fw.
  destruct (iccma_fw_fold atts (fw_new_with_labels nat Nat.eqb (seq 1 n))) as [H1 _].
  { rewrite iccma_init_nargs. exact Hb. }
  unfold n_arguments. rewrite H1. apply iccma_init_nargs.
Qed.

Lemma iccma_fw_label n atts id : (forall p, In p atts -> fst p < n /\ snd p < n) -> id < n ->
  label_of (iccma_fw n atts) id = Some (S id).
Proof.
  intros Hb Hid. unfold label_of. destruct (iccma_fw_shape n atts Hb) as [Ha _]. rewrite Ha.
  pose proof (find_numbered (seq 1 n) 0 id) as H. rewrite seq_length in H. specialize (H Hid).
  cbn [Nat.add] in H. rewrite H. cbn [snd]. rewrite seq_nth by exact Hid. reflexivity.
Qed.

Theorem iccma_instance_facts : forall n atts, (forall p, In p atts -> fst p < n /\ snd p < n) ->
  let i := iccma_instance (iccma_fw n atts) in
  view_good (i_g i) (compact n atts) /\
  (forall id, id < n -> i_label i id = Cli.dec (N.of_nat (S id))) /\
  (forall a, i_arg i a =
             match Cli.parse_usize a with
             | Some k => if (0 <? k)%N && (k <=? N.of_nat n)%N then Some (N.to_nat k - 1) else None
             | None => None
             end).
Proof.
  intros n atts Hb i. split; [|split].
  - assert (Hok : atts_ok (length (seq 1 n)) atts).
    { rewrite seq_length. intros a b Hab. apply (Hb (a, b) Hab). }
    destruct (iccma_store_good nat Nat.eqb Nat.eqb_eq (seq 1 n) atts (seq_NoDup n 1) Hok) as (_ & _ & Hvg).
    rewrite seq_length in Hvg. exact Hvg.
  - intros id Hid. unfold i. cbn [iccma_instance i_label]. rewrite (iccma_fw_label n atts id Hb Hid).
    reflexivity.
  - intros a. unfold i. cbn [iccma_instance i_arg]. rewrite (iccma_fw_nargs n atts Hb). reflexivity.
Qed.

Lemma iccma_input_faithful : forall f eols fnl,
  iccma_file_ok f -> final_ok (iccma_file_lines f) fnl ->
  iccma_input (render_lines (iccma_file_lines f) eols fnl) =
  Some (iccma_instance (iccma_fw (f_n f) (file_attacks f))).
Proof.
  intros f eols fnl Hok Hfin. unfold iccma_input. rewrite (iccma_faithful f eols fnl Hok Hfin). reflexivity.
Qed.

Lemma iccma_input_none : forall bytes, iccma_input bytes = None <-> read_iccma bytes = RdErr.
Proof.
  intros bytes. unfold iccma_input. pose proof (read_iccma_total bytes) as Ht.
  destruct (read_iccma bytes); split; intros H; try discriminate; try reflexivity. contradiction.
Qed.

(* the ids of the query arguments accepted on that instance are arguments of the framework *)
Lemma iccma_al_bound : forall n atts o inst i q s al,
  (forall p, In p atts -> fst p < n /\ snd p < n) ->
  inst = Some (iccma_instance (iccma_fw n atts)) ->
  validate o inst = inr (i, q, s, al) ->
  i = iccma_instance (iccma_fw n atts) /\ forall a, In a al -> a < n.
Proof.
  intros n atts o inst i q s al Hb Hinst V.
  destruct (validate_inr o inst i q s al V) as (_ & Hi & _ & Ha).
  assert (Ei : i = iccma_instance (iccma_fw n atts)) by congruence.
  split; [exact Ei|]. intros a Hin.
  destruct (o_arg o) as [w|].
  - destruct Ha as (id & Hid & Hal). rewrite Ei in Hid.
    destruct (iccma_instance_facts n atts Hb) as (_ & _ & Harg). rewrite Harg in Hid.
    destruct (Cli.parse_usize w) as [k|]; [|discriminate].
    destruct ((0 <? k)%N && (k <=? N.of_nat n)%N) eqn:E; [|discriminate].
    injection Hid as <-. destruct q; subst al; cbn [In] in Hin; try contradiction;
      destruct Hin as [<-|[]]; lia.
  - destruct Ha as [_ ->]. destruct Hin.
Qed.

(* ------------------------------------------------------------------ goal 2: from the bytes *)
Section Files.
Variable oracle : nat -> cnf -> list lit -> answer.
Variable thr : nat.
Variable d : discipline.
Variable fuel : nat.

Theorem iccma_file_correct : forall o f eols fnl i q s al,
  valid_oracle oracle -> 1 <= thr ->
  iccma_file_ok f -> final_ok (iccma_file_lines f) fnl ->
  o_reader o = RIccma23 ->
  let bytes := render_lines (iccma_file_lines f) eols fnl in
  let F := compact (f_n f) (file_attacks f) in
  validate o (iccma_input bytes) = inr (i, q, s, al) ->
  i = iccma_instance (iccma_fw (f_n f) (file_attacks f)) /\
  (forall id, id < f_n f -> i_label i id = Cli.dec (N.of_nat (S id))) /\
  (forall a, In a al -> a < f_n f) /\
  match run_traced oracle thr d fuel o (iccma_input bytes) with
  | (Exit0 out, log) =>
      (exists oc, out = render WIccma (i_label i) oc /\ answer_ok q s (o_cert o) F al oc) /\
      (forall k a, ~ In (k, ESolve a Unknown) log)
  | (ExitNonZero, log) =>
      exists k a log', log = log' ++ [(k, ESolve a Unknown)] /\
                       forall k' a', ~ In (k', ESolve a' Unknown) log'
  | (ModelOutOfFuel, log) =>
      ~ fuel_ok (solver_for q s) (encoder_for (o_problem o) s (o_encoding o))
                (query_comps (solver_for q s) q (o_cert o) (i_g i) al) fuel
  end.
Proof.
  intros o f eols fnl i q s al Hvalid Hthr Hok Hfin Hr bytes F V.
  pose proof (file_attacks_bound f Hok) as Hb.
  pose proof (iccma_input_faithful f eols fnl Hok Hfin) as Hin. fold bytes in Hin.
  destruct (iccma_al_bound _ _ o _ i q s al Hb Hin V) as [Ei Hal].
  destruct (iccma_instance_facts (f_n f) (file_attacks f) Hb) as (Hvg & Hlab & _).
  split; [exact Ei|]. split; [rewrite Ei; exact Hlab|]. split; [exact Hal|].
  assert (Hal' : forall a, In a al -> In a (args F)).
  { intros a Ha. unfold F, compact. cbn [args]. apply in_seq. specialize (Hal a Ha). lia. }
  rewrite <- Ei in Hvg.
  pose proof (all_problems_correct oracle thr d fuel o (iccma_input bytes) i q s al F
                Hvalid Hthr Hvg Hal' V) as H.
  rewrite Hr in H. exact H.
Qed.

(* an ill-formed file (every rejection class of C13): non-zero exit, no output, no SAT call *)
Theorem iccma_file_rejected : forall o bytes,
  read_iccma bytes = RdErr ->
  run_traced oracle thr d fuel o (iccma_input bytes) = (ExitNonZero, []).
Proof.
  intros o bytes H. apply errors_exit_nonzero. right. left. apply iccma_input_none. exact H.
Qed.

(* the ICCMA'23 wrapper on the bytes of a well-formed file *)
Theorem wrapper_iccma_file_correct : forall real o file f eols fnl i q s al,
  parse_wrapper real = CSolve o file ->
  valid_oracle oracle -> 1 <= thr ->
  iccma_file_ok f -> final_ok (iccma_file_lines f) fnl ->
  let bytes := render_lines (iccma_file_lines f) eols fnl in
  let F := compact (f_n f) (file_attacks f) in
  validate o (iccma_input bytes) = inr (i, q, s, al) ->
  exec oracle thr d fuel (parse_wrapper real) (iccma_input bytes)
    = Some (run oracle thr d fuel o (iccma_input bytes)) /\
  (forall id, id < f_n f -> i_label i id = Cli.dec (N.of_nat (S id))) /\
  (forall a, In a al -> a < f_n f) /\
  match run_traced oracle thr d fuel o (iccma_input bytes) with
  | (Exit0 out, log) =>
      (exists oc, out = render WIccma (i_label i) oc /\ answer_ok q s true F al oc /\
                  match q, oc with
                  | QDC, OAcc b c => b = true <-> exists L, c = Some L
                  | QDS, OAcc b c => b = false <-> exists L, c = Some L
                  | _, _ => True
                  end) /\
      (forall k a, ~ In (k, ESolve a Unknown) log)
  | (ExitNonZero, log) =>
      exists k a log', log = log' ++ [(k, ESolve a Unknown)] /\
                       forall k' a', ~ In (k', ESolve a' Unknown) log'
  | (ModelOutOfFuel, log) =>
      ~ fuel_ok (solver_for q s) (encoder_for (o_problem o) s EncAbsent)
                (query_comps (solver_for q s) q true (i_g i) al) fuel
  end.
Proof.
  intros real o file f eols fnl i q s al Hw Hvalid Hthr Hok Hfin bytes F V.
  pose proof (file_attacks_bound f Hok) as Hb.
  pose proof (iccma_input_faithful f eols fnl Hok Hfin) as Hin. fold bytes in Hin.
  destruct (iccma_al_bound _ _ o _ i q s al Hb Hin V) as [Ei Hal].
  destruct (iccma_instance_facts (f_n f) (file_attacks f) Hb) as (Hvg & Hlab & _).
  assert (Hal' : forall a, In a al -> In a (args F)).
  { intros a Ha. unfold F, compact. cbn [args]. apply in_seq. specialize (Hal a Ha). lia. }
  rewrite <- Ei in Hvg, Hlab.
  destruct (wrapper_correct oracle thr d fuel real o file (iccma_input bytes) i q s al F
              Hw Hvalid Hthr Hvg Hal' V) as [H1 H2].
  split; [exact H1|]. split; [exact Hlab|]. split; [exact Hal|exact H2].
Qed.

End Files.

(* ------------------------------------------------------------------ the hypotheses are satisfiable *)
(* the file "p af 3 / 1 2 (CRLF) / # c / <blank>2<blank><blank>+01<blank>" (arguments 1 <-> 2, 3 alone),
   problem DC-PR, argument 3, certificate requested, brute-force SAT oracle: YES and the witness
   {3} (the grounded extension: complete, contains 3, not preferred: what C04 allows for DC-PR) *)
Definition ex_file : iccma_file :=
  {| f_head := []; f_pre := []; f_sep1 := [32%N]; f_sep2 := [32%N];
     f_nfmt := {| nf_plus := false; nf_zeros := 0 |}; f_n := 3; f_post := [];
     f_body := [ BAttack {| al_pre := []; al_fa := {| nf_plus := false; nf_zeros := 0 |}; al_a := 1;
                            al_sep := [32%N]; al_fb := {| nf_plus := false; nf_zeros := 0 |}; al_b := 2;
                            al_post := [] |};
                 BComment [32%N; 99%N];
                 BAttack {| al_pre := [32%N]; al_fa := {| nf_plus := false; nf_zeros := 0 |}; al_a := 2;
                            al_sep := [32%N; 32%N]; al_fb := {| nf_plus := true; nf_zeros := 1 |}; al_b := 1;
                            al_post := [32%N] |} ];
     f_tail := [] |}.
Definition ex_options : options :=
  {| o_reader := RIccma23; o_problem := B "DC-PR"; o_arg := Some (B "3"); o_cert := true;
     o_encoding := EncAbsent; o_logging_off := true |}.

Lemma blanks_nil : blanks [].
Proof. constructor. Qed.
Lemma blanks_sp : blanks [32%N].
Proof. constructor; [|constructor]. split; [reflexivity|]. split; discriminate. Qed.
Lemma blanks_sp2 : blanks [32%N; 32%N].
Proof. constructor; [|exact blanks_sp]. split; [reflexivity|]. split; discriminate. Qed.

Lemma ex_file_ok : iccma_file_ok ex_file.
Proof.
  unfold iccma_file_ok, ex_file.
  cbn [f_head f_pre f_sep1 f_sep2 f_post f_n f_body f_tail].
  split; [constructor|]. split; [exact blanks_nil|]. split; [exact blanks_sp|].
  split; [discriminate|]. split; [exact blanks_sp|]. split; [discriminate|].
  split; [exact blanks_nil|]. split; [vm_compute; discriminate|].
  split; [|constructor].
  constructor; [|constructor; [|constructor; [|constructor]]].
  - cbn [body_item_ok]. unfold att_line_ok.
    cbn [al_pre al_sep al_post al_a al_b].
    split; [exact blanks_nil|]. split; [exact blanks_sp|]. split; [discriminate|].
    split; [exact blanks_nil|]. lia.
  - cbn [body_item_ok]. constructor; [|constructor; [|constructor]];
      (split; [vm_compute; auto|split; discriminate]).
  - cbn [body_item_ok]. unfold att_line_ok.
    cbn [al_pre al_sep al_post al_a al_b].
    split; [exact blanks_sp|]. split; [exact blanks_sp2|]. split; [discriminate|].
    split; [exact blanks_sp|]. lia.
Qed.
Lemma ex_file_final : final_ok (iccma_file_lines ex_file) true.
Proof. intros H. discriminate. Qed.

Example file_example :
  let bytes := render_lines (iccma_file_lines ex_file) [false; true] true in
  iccma_file_ok ex_file /\ final_ok (iccma_file_lines ex_file) true /\
  valid_oracle SolverWholeEx.bf_oracle /\
  bytes = B "p af 3" ++ [10%N] ++ B "1 2" ++ [13%N; 10%N] ++ B "# c" ++ [10%N] ++ B " 2  +01 " ++ [10%N] /\
  file_attacks ex_file = [(0, 1); (1, 0)] /\
  (exists i, validate ex_options (iccma_input bytes) = inr (i, QDC, PR, [2])) /\
  run SolverWholeEx.bf_oracle 1 CadicalLike 100 ex_options (iccma_input bytes)
    = Exit0 (B "YES" ++ [10%N] ++ B "w 3" ++ [10%N]).
Proof.
  cbn zeta. split; [exact ex_file_ok|]. split; [exact ex_file_final|].
  split; [exact SolverWholeEx.bf_oracle_valid|]. split; [vm_compute; reflexivity|].
  split; [reflexivity|]. split.
  - exists (iccma_instance (iccma_fw 3 [(0, 1); (1, 0)])).
    rewrite (iccma_input_faithful ex_file [false; true] true ex_file_ok ex_file_final).
    change (file_attacks ex_file) with [(0, 1); (1, 0)]. change (f_n ex_file) with 3.
    assert (E1 : i_arg (iccma_instance (iccma_fw 3 [(0, 1); (1, 0)])) (B "3") = Some 2)
      by (vm_compute; reflexivity).
    assert (E2 : read_problem_string (B "DC-PR") = inr (QDC, PR)) by reflexivity.
    unfold validate. cbn [ex_options o_reader o_arg o_problem]. rewrite E1, E2. reflexivity.
  - vm_compute. reflexivity.
Qed.

Print Assumptions iccma_instance_facts.
Print Assumptions iccma_file_correct.
Print Assumptions iccma_file_rejected.
Print Assumptions wrapper_iccma_file_correct.
Print Assumptions file_example.
