(* Proofs about the reply parser of Sat/Dimacs.v (C16b): every layout of a well-formed reply is read
   back as the printed model / UNSAT; a reply is reported as a result only if it carries the
   status line and (for a model) the terminating 0; every prefix of a canonical SAT reply that ends
   before the terminating 0 (cut anywhere, also inside a literal) is Unknown or a panic. *)
From Coq Require Import Decimal DecimalFacts DecimalPos DecimalN DecimalZ ZifyBool Lia.
From Crusta Require Import Sat.Cnf Sat.Dimacs Sat.Dpll Model.SatSpec Proofs.DimacsProofs.
Import ListNotations.
Local Open Scope N_scope.

(* ------------------------------------------------------------------ lines *)
Definition plainb (b : byte) : bool := (b <? 128) && negb (b =? 10) && negb (b =? 13).
Definition plain (ln : bytes) : bool := forallb plainb ln.

Lemma raw_lines_app : forall ln rest, plain ln = true ->
  raw_lines (ln ++ 10 :: rest) = (ln, true) :: raw_lines rest.
Proof.
  intros ln rest. induction ln as [|b ln IH]; intros H.
  - reflexivity.
  - cbn [plain forallb] in H. apply andb_true_iff in H. destruct H as [Hb Hl].
    cbn [app raw_lines]. unfold plainb in Hb.
    assert (E : N.eqb b 10 = false) by lia. rewrite E. rewrite (IH Hl). reflexivity.
Qed.

Lemma plain_utf8 : forall ln, plain ln = true -> utf8_valid ln = true.
Proof.
  induction ln as [|b ln IH]; intros H; [reflexivity|].
  cbn [plain forallb] in H. apply andb_true_iff in H. destruct H as [Hb Hl].
  cbn [utf8_valid]. unfold plainb in Hb. assert (E : N.ltb b 128 = true) by lia. rewrite E. apply IH, Hl.
Qed.

Lemma plain_in : forall ln b, plain ln = true -> In b ln -> b <> 13.
Proof.
  intros ln b H Hin. unfold plain in H. rewrite forallb_forall in H. specialize (H b Hin). unfold plainb in H. lia.
Qed.

Lemma plain_strip_cr : forall ln, plain ln = true -> strip_cr ln = ln.
Proof.
  intros ln H. unfold strip_cr. destruct (rev ln) as [|b r] eqn:E; [reflexivity|].
  assert (Hin : In b ln) by (apply in_rev; rewrite E; left; reflexivity).
  pose proof (plain_in ln b H Hin) as Hb.
  destruct b as [|p]; [reflexivity|].
  destruct p as [p|p|]; try reflexivity; destruct p as [p|p|]; try reflexivity; destruct p as [p|p|]; try reflexivity;
    destruct p as [p|p|]; try reflexivity. contradiction Hb. reflexivity.
Qed.

Lemma do_lines_line : forall n s ln rest, plain ln = true ->
  do_lines n s (raw_lines (ln ++ 10 :: rest)) =
  match do_line n s ln with Some s' => do_lines n s' (raw_lines rest) | None => None end.
Proof.
  intros n s ln rest H. rewrite (raw_lines_app ln rest H). cbn [do_lines fst]. rewrite (plain_utf8 ln H).
  unfold rust_line. cbn [snd fst]. rewrite (plain_strip_cr ln H). reflexivity.
Qed.

Lemma plain_app : forall a b, plain (a ++ b) = plain a && plain b.
Proof. intros a b. unfold plain. apply forallb_app. Qed.

Lemma litbytes_plain : forall t, forallb litbyte t = true -> plain t = true.
Proof.
  induction t as [|b t IH]; intros H; [reflexivity|].
  cbn [forallb] in H. apply andb_true_iff in H. destruct H as [Hb Ht].
  cbn [plain forallb]. fold (plain t). rewrite (IH Ht). rewrite andb_true_r.
  unfold litbyte, is_digit in Hb. unfold plainb. lia.
Qed.

(* ------------------------------------------------------------------ ignorable lines *)
Definition filler_body (f : filler) : bytes :=
  match f with FBare => b_c | FText t => b_c_sp ++ t | FEmpty => [] | FV => b_v end.

Lemma filler_line_body : forall f, filler_line f = filler_body f ++ [10].
Proof. destruct f; cbn [filler_line filler_body]; try reflexivity; rewrite <- app_assoc; reflexivity. Qed.

Lemma filler_plain : forall f, filler_ok f = true -> plain (filler_body f) = true.
Proof.
  destruct f as [|t| |]; cbn [filler_ok filler_body]; intros H; try reflexivity.
  rewrite plain_app. replace (plain b_c_sp) with true by reflexivity. cbn [andb]. exact H.
Qed.

Lemma do_line_filler : forall n s f, do_line n s (filler_body f) = Some s.
Proof. intros n s f. destruct f; reflexivity. Qed.

Lemma consume_fill : forall n fs s rest, forallb filler_ok fs = true ->
  do_lines n s (raw_lines (render_fill fs ++ rest)) = do_lines n s (raw_lines rest).
Proof.
  intros n fs s rest. induction fs as [|f fs IH]; intros H; [reflexivity|].
  cbn [forallb] in H. apply andb_true_iff in H. destruct H as [Hf Hfs].
  unfold render_fill. cbn [map concat]. fold (render_fill fs). rewrite filler_line_body.
  rewrite <- !app_assoc. cbn [app]. rewrite (do_lines_line n s _ _ (filler_plain f Hf)).
  rewrite do_line_filler. apply IH, Hfs.
Qed.

(* ------------------------------------------------------------------ status lines *)
Lemma consume_status_sat : forall n a sn en rest,
  do_lines n {| st_status := None; st_assign := a; st_seen := sn; st_end := en |} (raw_lines (status_sat ++ rest)) =
  do_lines n {| st_status := Some true; st_assign := a; st_seen := sn; st_end := en |} (raw_lines rest).
Proof.
  intros. unfold status_sat. rewrite <- app_assoc. cbn [app]. rewrite do_lines_line; reflexivity.
Qed.

Lemma consume_status_unsat : forall n a sn en rest,
  do_lines n {| st_status := None; st_assign := a; st_seen := sn; st_end := en |} (raw_lines (status_unsat ++ rest)) =
  do_lines n {| st_status := Some false; st_assign := a; st_seen := sn; st_end := en |} (raw_lines rest).
Proof.
  intros. unfold status_unsat. rewrite <- app_assoc. cbn [app]. rewrite do_lines_line; reflexivity.
Qed.

(* ------------------------------------------------------------------ value lines *)
Definition v_body (ls : list lit) (term : bool) : bytes :=
  b_v ++ concat (map (fun l => 32 :: print_lit l) ls) ++ (if term then b_sp_0 else []).

Lemma v_line_body : forall ls (term : bool), v_line ls term = v_body ls term ++ [10].
Proof. intros. unfold v_line, v_body. rewrite <- !app_assoc. reflexivity. Qed.

Lemma lits_plain : forall ls, plain (concat (map (fun l => 32 :: print_lit l) ls)) = true.
Proof.
  induction ls as [|l ls IH]; [reflexivity|]. cbn [map concat]. change (32 :: print_lit l) with ([32] ++ print_lit l).
  rewrite !plain_app. rewrite IH. rewrite (litbytes_plain _ (print_lit_litbytes l)). reflexivity.
Qed.

Lemma v_body_plain : forall ls (term : bool), plain (v_body ls term) = true.
Proof.
  intros. unfold v_body. rewrite !plain_app. rewrite lits_plain. destruct term; reflexivity.
Qed.

Lemma print_lit_nonnil : forall z, print_lit z <> [].
Proof. intros z H. pose proof (parse_Z_print_lit z) as P. rewrite H in P. discriminate. Qed.

Lemma nows_lit : forall l, nosep is_ws (print_lit l) = true.
Proof. intros l. apply litbytes_nosep; [apply litbyte_not_ws|apply print_lit_litbytes]. Qed.

Lemma fields_v : forall ls (term : bool) tok, nosep is_ws tok = true ->
  fields is_ws (tok ++ concat (map (fun l => 32 :: print_lit l) ls) ++ (if term then b_sp_0 else [])) =
  tok :: map print_lit ls ++ (if term then [[48]] else []).
Proof.
  induction ls as [|l ls IH]; intros term tok Ht.
  - cbn [map concat app]. destruct term.
    + change (tok ++ b_sp_0) with (tok ++ 32 :: (48 :: nil)). rewrite fields_app_sep; [reflexivity|exact Ht|reflexivity].
    + rewrite app_nil_r. apply fields_nosep, Ht.
  - cbn [map concat app]. rewrite <- (app_assoc (print_lit l)).
    rewrite fields_app_sep; [|exact Ht|reflexivity]. f_equal. apply (IH term (print_lit l) (nows_lit l)).
Qed.

Lemma filter_nonnil_lits : forall ls (tl : list bytes),
  forallb (fun t => negb (is_nil t)) tl = true ->
  filter (fun t => negb (is_nil t)) (map print_lit ls ++ tl) = map print_lit ls ++ tl.
Proof.
  induction ls as [|l ls IH]; intros tl Htl.
  - cbn [map app]. induction tl as [|t tl IHt]; [reflexivity|]. cbn [forallb] in Htl. apply andb_true_iff in Htl.
    destruct Htl as [H1 H2]. cbn [filter]. rewrite H1. rewrite (IHt H2). reflexivity.
  - cbn [map app filter]. destruct (print_lit l) eqn:E; [exfalso; exact (print_lit_nonnil l E)|].
    cbn [is_nil negb]. rewrite (IH tl Htl). reflexivity.
Qed.

Lemma tokens_v_body : forall ls (term : bool),
  tokens (v_body ls term) = b_v :: map print_lit ls ++ (if term then [[48]] else []).
Proof.
  intros ls term. unfold tokens, v_body. rewrite (fields_v ls term b_v eq_refl).
  cbn [filter]. replace (negb (is_nil b_v)) with true by reflexivity.
  rewrite filter_nonnil_lits; [reflexivity|]. destruct term; reflexivity.
Qed.

(* literals a value line may carry *)
Definition lit_in (n : nat) (l : lit) : Prop := (l <> 0 /\ Z.abs l <= Z.of_nat n)%Z.

Definition apply_lit (a : assignment) (l : lit) : assignment :=
  set_at (Z.to_nat (Z.abs l - 1)) (Some (Z.ltb 0 l)) a.
Definition apply_lits (a : assignment) (ls : list lit) : assignment := fold_left apply_lit ls a.

Lemma parse_isize_print : forall l, (isize_min <= l <= isize_max)%Z -> parse_isize (print_lit l) = Some l.
Proof.
  intros l H. unfold parse_isize. rewrite parse_Z_print_lit.
  replace (Z.leb isize_min l && Z.leb l isize_max) with true by lia. reflexivity.
Qed.

Lemma do_tokens_lits : forall n ls st a sn en,
  (Z.of_nat n <= isize_max)%Z -> Forall (lit_in n) ls ->
  do_tokens n {| st_status := st; st_assign := a; st_seen := sn; st_end := en |} (map print_lit ls) =
  Some {| st_status := st; st_assign := apply_lits a ls; st_seen := sn; st_end := en |}.
Proof.
  intros n ls st a sn en Hn. revert a. induction ls as [|l ls IH]; intros a H; [reflexivity|].
  inversion H as [|l' ls' Hl Hls]. subst. destruct Hl as [Hl0 Hlb].
  cbn [map do_tokens]. unfold do_token. rewrite parse_isize_print.
  2:{ unfold isize_min, isize_max in *. lia. }
  replace (Z.eqb l 0) with false by lia.
  replace (Z.leb (Z.of_nat n) (Z.abs l - 1)) with false by lia.
  cbn [st_status st_assign st_seen st_end]. rewrite (IH _ Hls). reflexivity.
Qed.

Lemma do_tokens_app : forall n t1 t2 s,
  do_tokens n s (t1 ++ t2) = match do_tokens n s t1 with Some s' => do_tokens n s' t2 | None => None end.
Proof.
  intros n t1. induction t1 as [|t t1 IH]; intros t2 s; [reflexivity|].
  cbn [app do_tokens]. destruct (do_token n s t); [apply IH|reflexivity].
Qed.

(* one value line *)
Lemma do_line_v : forall n ls term st a sn,
  (Z.of_nat n <= isize_max)%Z -> Forall (lit_in n) ls ->
  exists sn', (term = true -> sn' = true) /\
  do_line n {| st_status := st; st_assign := a; st_seen := sn; st_end := false |} (v_body ls term) =
  Some {| st_status := st; st_assign := apply_lits a ls; st_seen := sn'; st_end := term |}.
Proof.
  intros n ls term st a sn Hn Hls.
  destruct ls as [|l ls]; [destruct term|].
  - (* "v 0" *) exists true. split; [reflexivity|]. reflexivity.
  - (* "v" *) exists sn. split; [discriminate|]. reflexivity.
  - exists true. split; [reflexivity|].
    unfold do_line.
    assert (E1 : bytes_eqb (v_body (l :: ls) term) b_sat = false) by reflexivity.
    assert (E2 : bytes_eqb (v_body (l :: ls) term) b_unsat = false) by reflexivity.
    assert (E3 : prefixb b_v_sp (v_body (l :: ls) term) = true) by reflexivity.
    rewrite E1, E2, E3. rewrite tokens_v_body. cbn [tl st_status st_assign st_seen st_end].
    rewrite do_tokens_app. rewrite (do_tokens_lits n (l :: ls) st a true false Hn Hls).
    destruct term; reflexivity.
Qed.

Lemma consume_v_line : forall n ls term st a sn rest,
  (Z.of_nat n <= isize_max)%Z -> Forall (lit_in n) ls ->
  exists sn', (term = true -> sn' = true) /\
  do_lines n {| st_status := st; st_assign := a; st_seen := sn; st_end := false |} (raw_lines (v_line ls term ++ rest)) =
  do_lines n {| st_status := st; st_assign := apply_lits a ls; st_seen := sn'; st_end := term |} (raw_lines rest).
Proof.
  intros n ls term st a sn rest Hn Hls.
  destruct (do_line_v n ls term st a sn Hn Hls) as (sn' & Hsn & E).
  exists sn'. split; [exact Hsn|].
  rewrite v_line_body. rewrite <- app_assoc. cbn [app]. rewrite (do_lines_line n _ _ _ (v_body_plain ls term)).
  rewrite E. reflexivity.
Qed.

Lemma Forall_firstn : forall {A} (P : A -> Prop) k l, Forall P l -> Forall P (firstn k l).
Proof.
  intros A P k. induction k as [|k IH]; intros l H; [constructor|].
  destruct l as [|x l]; [constructor|]. inversion H. subst. cbn [firstn]. constructor; [assumption|apply IH; assumption].
Qed.
Lemma Forall_skipn : forall {A} (P : A -> Prop) k l, Forall P l -> Forall P (skipn k l).
Proof.
  intros A P k. induction k as [|k IH]; intros l H; [exact H|].
  destruct l as [|x l]; [constructor|]. inversion H. subst. cbn [skipn]. apply IH; assumption.
Qed.

Lemma apply_lits_app : forall a l1 l2, apply_lits a (l1 ++ l2) = apply_lits (apply_lits a l1) l2.
Proof. intros. unfold apply_lits. apply fold_left_app. Qed.

(* all the value lines of a layout *)
Lemma consume_render_v : forall n lay ls st a sn rest,
  (Z.of_nat n <= isize_max)%Z -> layout_ok lay = true -> Forall (lit_in n) ls ->
  do_lines n {| st_status := st; st_assign := a; st_seen := sn; st_end := false |} (raw_lines (render_v lay ls ++ rest)) =
  do_lines n {| st_status := st; st_assign := apply_lits a ls; st_seen := true; st_end := true |} (raw_lines rest).
Proof.
  intros n lay. induction lay as [|[fs k] lay IH]; intros ls st a sn rest Hn Hlay Hls.
  - cbn [render_v]. destruct (consume_v_line n ls true st a sn rest Hn Hls) as (sn' & Hsn & E).
    rewrite E. rewrite (Hsn eq_refl). reflexivity.
  - cbn [layout_ok forallb fst] in Hlay. apply andb_true_iff in Hlay. destruct Hlay as [Hfs Hlay].
    cbn [render_v]. rewrite <- !app_assoc. rewrite (consume_fill n fs _ _ Hfs).
    destruct (consume_v_line n (firstn k ls) false st a sn (render_v lay (skipn k ls) ++ rest) Hn (Forall_firstn _ k ls Hls))
      as (sn' & _ & E).
    rewrite E. rewrite (IH (skipn k ls) st _ sn' rest Hn Hlay (Forall_skipn _ k ls Hls)).
    rewrite <- apply_lits_app. rewrite firstn_skipn. reflexivity.
Qed.

(* ------------------------------------------------------------------ the literals of a model *)
Lemma set_at_app : forall {A} (pre : list A) x y r, set_at (length pre) x (pre ++ y :: r) = pre ++ x :: r.
Proof. intros A pre x y r. induction pre as [|p pre IH]; [reflexivity|]. cbn [length app set_at]. rewrite IH. reflexivity. Qed.

Lemma model_lits_from_in : forall m i, (1 <= i)%nat ->
  Forall (fun l => (l <> 0 /\ Z.of_nat i <= Z.abs l <= Z.of_nat (i + length m) - 1)%Z) (model_lits_from i m).
Proof.
  induction m as [|x m IH]; intros i Hi; [constructor|].
  assert (Hrest : Forall (fun l => (l <> 0 /\ Z.of_nat i <= Z.abs l <= Z.of_nat (i + length (x :: m)) - 1)%Z)
                         (model_lits_from (S i) m)).
  { specialize (IH (S i) ltac:(lia)). eapply Forall_impl; [|exact IH]. cbn beta. intros l [H0 H1]. cbn [length]. lia. }
  cbn [model_lits_from]. destruct x as [[|]|].
  - constructor; [|exact Hrest]. unfold pos_lit. cbn [length]. lia.
  - constructor; [|exact Hrest]. unfold neg_lit. cbn [length]. lia.
  - exact Hrest.
Qed.

Lemma model_lits_in : forall m, Forall (lit_in (length m)) (model_lits m).
Proof.
  intros m. unfold model_lits. pose proof (model_lits_from_in m 1 (le_n 1)) as H.
  eapply Forall_impl; [|exact H]. cbn beta. intros l [H0 H1]. unfold lit_in. lia.
Qed.

Lemma apply_lit_pos : forall (pre : assignment) y r i, i = S (length pre) ->
  apply_lit (pre ++ y :: r) (pos_lit i) = pre ++ Some true :: r.
Proof.
  intros pre y r i Hi. unfold apply_lit.
  replace (Z.to_nat (Z.abs (pos_lit i) - 1)) with (length pre) by (unfold pos_lit; lia).
  replace (Z.ltb 0 (pos_lit i)) with true by (unfold pos_lit; lia). apply set_at_app.
Qed.
Lemma apply_lit_neg : forall (pre : assignment) y r i, i = S (length pre) ->
  apply_lit (pre ++ y :: r) (neg_lit i) = pre ++ Some false :: r.
Proof.
  intros pre y r i Hi. unfold apply_lit.
  replace (Z.to_nat (Z.abs (neg_lit i) - 1)) with (length pre) by (unfold neg_lit; lia).
  replace (Z.ltb 0 (neg_lit i)) with false by (unfold neg_lit; lia). apply set_at_app.
Qed.

Lemma apply_model_lits_from : forall m pre i, i = S (length pre) ->
  apply_lits (pre ++ repeat None (length m)) (model_lits_from i m) = pre ++ m.
Proof.
  induction m as [|x m IH]; intros pre i Hi.
  - reflexivity.
  - cbn [length repeat model_lits_from].
    assert (Hnext : forall y, apply_lits (pre ++ y :: repeat None (length m)) (model_lits_from (S i) m) = pre ++ y :: m).
    { intros y. specialize (IH (pre ++ [y]) (S i)). rewrite <- !app_assoc in IH. cbn [app] in IH. apply IH.
      rewrite app_length. cbn [length]. lia. }
    destruct x as [[|]|].
    + change (apply_lits (pre ++ None :: repeat None (length m)) (pos_lit i :: model_lits_from (S i) m))
        with (apply_lits (apply_lit (pre ++ None :: repeat None (length m)) (pos_lit i)) (model_lits_from (S i) m)).
      rewrite (apply_lit_pos pre None _ i Hi). apply (Hnext (Some true)).
    + change (apply_lits (pre ++ None :: repeat None (length m)) (neg_lit i :: model_lits_from (S i) m))
        with (apply_lits (apply_lit (pre ++ None :: repeat None (length m)) (neg_lit i)) (model_lits_from (S i) m)).
      rewrite (apply_lit_neg pre None _ i Hi). apply (Hnext (Some false)).
    + apply (Hnext None).
Qed.

Lemma apply_model_lits : forall m, apply_lits (repeat None (length m)) (model_lits m) = m.
Proof. intros m. exact (apply_model_lits_from m [] 1 eq_refl). Qed.

(* ------------------------------------------------------------------ C16b: well-formed replies *)
Theorem reply_sat_roundtrip : forall status_last pre lay post m,
  (Z.of_nat (length m) <= isize_max)%Z ->
  forallb filler_ok pre = true -> layout_ok lay = true -> forallb filler_ok post = true ->
  reply_parse (length m) (render_sat status_last pre lay post m) = RSat m.
Proof.
  intros status_last pre lay post m Hn Hpre Hlay Hpost.
  unfold reply_parse, render_sat, rstate0.
  rewrite (consume_fill _ pre _ _ Hpre).
  destruct status_last.
  - cbn [app]. rewrite (consume_render_v _ lay _ _ _ _ _ Hn Hlay (model_lits_in m)).
    rewrite consume_status_sat. rewrite <- (app_nil_r (render_fill post)). rewrite (consume_fill _ post _ _ Hpost).
    cbn [raw_lines do_lines finish st_status st_seen st_end st_assign andb]. rewrite apply_model_lits. reflexivity.
  - rewrite consume_status_sat. rewrite (consume_render_v _ lay _ _ _ _ _ Hn Hlay (model_lits_in m)).
    cbn [app]. rewrite <- (app_nil_r (render_fill post)). rewrite (consume_fill _ post _ _ Hpost).
    cbn [raw_lines do_lines finish st_status st_seen st_end st_assign andb]. rewrite apply_model_lits. reflexivity.
Qed.

Theorem reply_unsat_roundtrip : forall n pre post,
  forallb filler_ok pre = true -> forallb filler_ok post = true ->
  reply_parse n (render_unsat pre post) = RUnsat.
Proof.
  intros n pre post Hpre Hpost. unfold reply_parse, render_unsat, rstate0.
  rewrite (consume_fill _ pre _ _ Hpre). rewrite consume_status_unsat.
  rewrite <- (app_nil_r (render_fill post)). rewrite (consume_fill _ post _ _ Hpost). reflexivity.
Qed.

Lemma consume_render_v_cut : forall n lay ls st a sn rest,
  (Z.of_nat n <= isize_max)%Z -> layout_ok lay = true -> Forall (lit_in n) ls ->
  exists sn' a',
  do_lines n {| st_status := st; st_assign := a; st_seen := sn; st_end := false |} (raw_lines (render_v_cut lay ls ++ rest)) =
  do_lines n {| st_status := st; st_assign := a'; st_seen := sn'; st_end := false |} (raw_lines rest).
Proof.
  intros n lay. induction lay as [|[fs k] lay IH]; intros ls st a sn rest Hn Hlay Hls.
  - cbn [render_v_cut]. destruct (consume_v_line n ls false st a sn rest Hn Hls) as (sn' & _ & E).
    exists sn', (apply_lits a ls). exact E.
  - cbn [layout_ok forallb fst] in Hlay. apply andb_true_iff in Hlay. destruct Hlay as [Hfs Hlay].
    cbn [render_v_cut]. rewrite <- !app_assoc. rewrite (consume_fill n fs _ _ Hfs).
    destruct (consume_v_line n (firstn k ls) false st a sn (render_v_cut lay (skipn k ls) ++ rest) Hn (Forall_firstn _ k ls Hls))
      as (sn' & _ & E).
    rewrite E. apply (IH (skipn k ls) st _ sn' rest Hn Hlay (Forall_skipn _ k ls Hls)).
Qed.

Theorem reply_truncated_unknown : forall pre lay post m,
  (Z.of_nat (length m) <= isize_max)%Z ->
  forallb filler_ok pre = true -> layout_ok lay = true -> forallb filler_ok post = true ->
  reply_parse (length m) (render_fill pre ++ status_sat ++ render_v_cut lay (model_lits m) ++ render_fill post) = RUnknown.
Proof.
  intros pre lay post m Hn Hpre Hlay Hpost. unfold reply_parse, rstate0.
  rewrite (consume_fill _ pre _ _ Hpre). rewrite consume_status_sat.
  destruct (consume_render_v_cut (length m) lay (model_lits m) (Some true) (repeat None (length m)) false
              (render_fill post) Hn Hlay (model_lits_in m)) as (sn' & a' & E).
  rewrite E. rewrite <- (app_nil_r (render_fill post)). rewrite (consume_fill _ post _ _ Hpost).
  cbn [raw_lines do_lines finish st_status st_seen st_end]. rewrite andb_false_r. reflexivity.
Qed.

(* ------------------------------------------------------------------ C16b: what a result requires *)
Definition rinv (n : nat) (seen : list bytes) (s : rstate) : Prop :=
  (st_status s = Some true -> In b_sat seen) /\
  (st_status s = Some false -> In b_unsat seen) /\
  (st_end s = true -> has_terminator seen) /\
  length (st_assign s) = n.

Lemma set_at_length : forall {A} i (x : A) l, length (set_at i x l) = length l.
Proof. intros A i x l. revert i. induction l as [|y l IH]; intros i; [destruct i; reflexivity|]. destruct i; cbn [set_at length]; [reflexivity|]. rewrite IH. reflexivity. Qed.

Lemma do_tokens_inv : forall n toks s s',
  do_tokens n s toks = Some s' ->
  st_status s' = st_status s /\ length (st_assign s') = length (st_assign s) /\
  (st_end s' = true -> st_end s = true \/ exists tok, In tok toks /\ parse_isize tok = Some 0%Z).
Proof.
  intros n toks. induction toks as [|t toks IH]; intros s s' H.
  - inversion H. subst. repeat split; auto.
  - cbn [do_tokens] in H. destruct (do_token n s t) as [s1|] eqn:E1; [|discriminate].
    destruct (IH s1 s' H) as (A1 & A2 & A3).
    unfold do_token in E1. destruct (parse_isize t) as [z|] eqn:Ez; [|discriminate].
    destruct (Z.eqb z 0) eqn:Ez0.
    + destruct (st_end s); [discriminate|]. inversion E1. subst s1. cbn [st_status st_assign st_end] in *.
      repeat split; auto. intros _. right. exists t. split; [left; reflexivity|]. apply Z.eqb_eq in Ez0. subst. exact Ez.
    + destruct (Z.leb (Z.of_nat n) (Z.abs z - 1)); [discriminate|]. inversion E1. subst s1.
      cbn [st_status st_assign st_end] in *. rewrite set_at_length in A2. repeat split; auto.
      intros He. destruct (A3 He) as [A|[tok [Hin Hp]]]; [left; exact A|]. right. exists tok. split; [right; exact Hin|exact Hp].
Qed.

Lemma do_line_inv : forall n seen s ln s',
  rinv n seen s -> do_line n s ln = Some s' -> rinv n (seen ++ [ln]) s'.
Proof.
  intros n seen s ln s' (I1 & I2 & I3 & I4) H.
  assert (Hmono : forall x, In x seen -> In x (seen ++ [ln])) by (intros; apply in_or_app; left; assumption).
  assert (Hterm : has_terminator seen -> has_terminator (seen ++ [ln])).
  { intros (l0 & tok & A & B & C & D). exists l0, tok. repeat split; auto. }
  unfold do_line in H.
  destruct (bytes_eqb ln b_sat) eqn:E1.
  { apply bytes_eqb_eq in E1. subst ln. unfold set_status in H. destruct (st_status s) eqn:Es; [discriminate|].
    inversion H. subst s'. cbn [st_status st_assign st_end]. repeat split; auto.
    - intros _. apply in_or_app. right. left. reflexivity.
    - discriminate. }
  destruct (bytes_eqb ln b_unsat) eqn:E2.
  { apply bytes_eqb_eq in E2. subst ln. unfold set_status in H. destruct (st_status s) eqn:Es; [discriminate|].
    inversion H. subst s'. cbn [st_status st_assign st_end]. repeat split; auto.
    - discriminate.
    - intros _. apply in_or_app. right. left. reflexivity. }
  destruct (prefixb b_v_sp ln) eqn:E3.
  { destruct (do_tokens_inv n _ _ _ H) as (A1 & A2 & A3). cbn [st_status st_assign st_end] in *.
    unfold rinv. rewrite A1, A2. repeat split; auto.
    intros He. destruct (A3 He) as [A|[tok [Hin Hp]]]; [apply Hterm, I3, A|].
    exists ln, tok. repeat split; auto. apply in_or_app. right. left. reflexivity. }
  destruct (prefixb b_c_sp ln || bytes_eqb ln b_c || bytes_eqb ln b_v || is_nil ln); [|discriminate].
  inversion H. subst s'. unfold rinv. repeat split; auto.
Qed.

Lemma do_lines_inv : forall n ls seen s s',
  rinv n seen s -> do_lines n s ls = Some s' -> rinv n (seen ++ map rust_line ls) s'.
Proof.
  intros n ls. induction ls as [|p ls IH]; intros seen s s' I H.
  - inversion H. subst. cbn [map]. rewrite app_nil_r. exact I.
  - cbn [do_lines] in H. destruct (utf8_valid (fst p)); [|discriminate].
    destruct (do_line n s (rust_line p)) as [s1|] eqn:E; [|discriminate].
    pose proof (do_line_inv n seen s _ s1 I E) as I1.
    specialize (IH _ _ _ I1 H). cbn [map]. rewrite <- app_assoc in IH. exact IH.
Qed.

Lemma rinv0 : forall n, rinv n [] (rstate0 n).
Proof.
  intros n. unfold rinv, rstate0. cbn [st_status st_end st_assign]. repeat split; try discriminate. apply repeat_length.
Qed.

(* a model is reported only if the status line and a terminating 0 were read; it has n entries *)
Theorem reply_sat_inv : forall n out m, reply_parse n out = RSat m ->
  In b_sat (lines_of out) /\ has_terminator (lines_of out) /\ length m = n.
Proof.
  intros n out m. unfold reply_parse. destruct (do_lines n (rstate0 n) (raw_lines out)) as [s|] eqn:E; [|discriminate].
  destruct (do_lines_inv n _ [] _ _ (rinv0 n) E) as (I1 & I2 & I3 & I4). cbn [app] in *. fold (lines_of out) in *.
  unfold finish. destruct (st_status s) as [[|]|] eqn:Es; try discriminate.
  destruct (st_seen s && st_end s) eqn:Ese; [|discriminate]. intros H. inversion H. subst m.
  apply andb_true_iff in Ese. destruct Ese as [_ Ee]. repeat split; auto.
Qed.

Theorem reply_unsat_inv : forall n out, reply_parse n out = RUnsat -> In b_unsat (lines_of out).
Proof.
  intros n out. unfold reply_parse. destruct (do_lines n (rstate0 n) (raw_lines out)) as [s|] eqn:E; [|discriminate].
  destruct (do_lines_inv n _ [] _ _ (rinv0 n) E) as (I1 & I2 & I3 & I4). cbn [app] in *. fold (lines_of out) in *.
  unfold finish. destruct (st_status s) as [[|]|] eqn:Es; try discriminate.
  - destruct (st_seen s && st_end s); discriminate.
  - intros _. apply I2. reflexivity.
Qed.

Lemma reply_empty : forall n, reply_parse n [] = RUnknown.
Proof. reflexivity. Qed.

(* ------------------------------------------------------------------ C16b: a reply cut anywhere before the terminating 0 *)
(* --- a cut canonical literal never reads as 0 *)
Lemma of_uint_nz : forall u, unorm u <> zero -> N.of_uint u <> 0.
Proof.
  intros u H E. apply H. rewrite <- DecimalN.Unsigned.to_of. rewrite E. reflexivity.
Qed.

Definition nzdigit (b : byte) : Prop := is_digit b = true /\ b <> 48.

Lemma bytes_uint_nz : forall b r u, nzdigit b -> bytes_uint (b :: r) = Some u -> N.of_uint u <> 0.
Proof.
  intros b r u [Hd H48] H. cbn [bytes_uint] in H. unfold digit_of in H.
  apply N.eqb_neq in H48. rewrite H48 in H.
  repeat match type of H with
  | context [if N.eqb b ?c then _ else _] => destruct (N.eqb b c)
  end;
  try discriminate H;
  (destruct (bytes_uint r) as [u'|]; [|discriminate H]; inversion H; subst u; apply of_uint_nz; cbn [unorm nzhead]; discriminate).
Qed.

Lemma parse_Z_digit_head : forall b r, is_digit b = true ->
  parse_Z (b :: r) = match bytes_uint (b :: r) with Some u => Some (Z.of_N (N.of_uint u)) | None => None end.
Proof.
  intros b r Hb. unfold parse_Z.
  assert (H45 : N.eqb b 45 = false) by (apply N.eqb_neq; intros ->; discriminate).
  assert (H43 : N.eqb b 43 = false) by (apply N.eqb_neq; intros ->; discriminate).
  unfold split_sign. rewrite H45, H43. cbn [snd fst]. destruct (bytes_uint (b :: r)); reflexivity.
Qed.

Lemma parse_Z_minus : forall r,
  parse_Z (45 :: r) = match r with
                      | [] => None
                      | _ => match bytes_uint r with Some u => Some (Z.opp (Z.of_N (N.of_uint u))) | None => None end
                      end.
Proof.
  intros r. unfold parse_Z, split_sign. replace (N.eqb 45 45) with true by reflexivity. cbn [snd fst].
  destruct r as [|b r]; [reflexivity|]. destruct (bytes_uint (b :: r)); reflexivity.
Qed.

Lemma parse_isize_nz : forall tok, (forall z, parse_Z tok = Some z -> z <> 0%Z) -> parse_isize tok <> Some 0%Z.
Proof.
  intros tok H. unfold parse_isize. destruct (parse_Z tok) as [z|] eqn:E; [|discriminate].
  specialize (H z eq_refl). destruct (Z.leb isize_min z && Z.leb z isize_max); [|discriminate].
  intros K. inversion K. contradiction.
Qed.

Lemma pos_to_uint_nzhead : forall p, exists b r, uint_bytes (Pos.to_uint p) = b :: r /\ nzdigit b.
Proof.
  intros p.
  assert (Hn : unorm (Pos.to_uint p) = Pos.to_uint p).
  { rewrite <- DecimalPos.Unsigned.to_of. rewrite DecimalPos.Unsigned.of_to. reflexivity. }
  pose proof (DecimalPos.Unsigned.to_uint_nonnil p) as Hnil.
  pose proof (DecimalPos.Unsigned.to_uint_nonzero p) as Hz.
  destruct (Pos.to_uint p) as [|u|u|u|u|u|u|u|u|u|u] eqn:E;
    try (cbn [uint_bytes]; eexists; eexists; split; [reflexivity|split; [reflexivity|discriminate]]).
  - contradiction Hnil. reflexivity.
  - exfalso. unfold unorm in Hn. destruct (nzhead (D0 u)) eqn:En; try discriminate Hn.
    + apply Hz. symmetry. exact Hn.
    + exact (nzhead_nonzero _ _ En).
Qed.

Lemma print_lit_shape : forall l, l <> 0%Z ->
  (exists b r, print_lit l = b :: r /\ nzdigit b) \/ (exists b r, print_lit l = 45 :: b :: r /\ nzdigit b).
Proof.
  intros l Hl. unfold print_lit. destruct l as [|p|p]; [contradiction Hl; reflexivity| |]; cbn [Z.to_int].
  - left. apply pos_to_uint_nzhead.
  - right. destruct (pos_to_uint_nzhead p) as (b & r & E & Hb). exists b, r. rewrite E. split; [reflexivity|exact Hb].
Qed.

(* a non-empty prefix of the decimal text of a non-zero literal is not read as 0 *)
Lemma cut_literal_not_zero : forall l tok e, l <> 0%Z -> tok <> [] -> tok ++ e = print_lit l ->
  parse_isize tok <> Some 0%Z.
Proof.
  intros l tok e Hl Htok H. apply parse_isize_nz. intros z Hz.
  destruct (print_lit_shape l Hl) as [(b & r & E & Hb)|(b & r & E & Hb)]; rewrite E in H.
  - destruct tok as [|b' t']; [contradiction Htok; reflexivity|]. cbn [app] in H. inversion H. subst b'.
    rewrite (parse_Z_digit_head b t' (proj1 Hb)) in Hz.
    destruct (bytes_uint (b :: t')) as [u|] eqn:Eu; [|discriminate Hz]. inversion Hz.
    pose proof (bytes_uint_nz b t' u Hb Eu). lia.
  - destruct tok as [|b' t']; [contradiction Htok; reflexivity|]. cbn [app] in H. inversion H. subst b'.
    rewrite parse_Z_minus in Hz. destruct t' as [|b'' t'']; [cbv beta iota in Hz; discriminate Hz|]. cbv beta iota in Hz.
    cbn [app] in H2. inversion H2. subst b''.
    match type of Hz with context [bytes_uint ?x] => destruct (bytes_uint x) as [u|] eqn:Eu end; [|discriminate Hz]. inversion Hz.
    pose proof (bytes_uint_nz b t'' u Hb Eu). lia.
Qed.

(* --- the words of a cut line *)
Lemma fields_app_gen : forall sep p, exists init lst,
  fields sep p = init ++ [lst] /\
  forall s, fields sep (p ++ s) = init ++ (lst ++ hd [] (fields sep s)) :: tl (fields sep s).
Proof.
  intros sep p. induction p as [|b p IH].
  - exists [], []. split; [reflexivity|]. intros s. cbn [app hd tl].
    destruct (fields sep s) as [|f fs] eqn:E; [exfalso; exact (fields_nonnil sep s E)|reflexivity].
  - destruct IH as (init & lst & E & Hs). cbn [app fields]. destruct (sep b).
    + exists ([] :: init), lst. split; [rewrite E; reflexivity|]. intros s. rewrite Hs. reflexivity.
    + rewrite E. destruct init as [|f init].
      * exists [], (b :: lst). split; [reflexivity|]. intros s. rewrite Hs. reflexivity.
      * exists ((b :: f) :: init), lst. split; [reflexivity|]. intros s. rewrite Hs. reflexivity.
Qed.

Lemma tokens_in : forall l t, In t (tokens l) <-> In t (fields is_ws l) /\ t <> [].
Proof.
  intros l t. unfold tokens. rewrite filter_In. split; intros [H1 H2]; (split; [exact H1|]).
  - intros ->. discriminate H2.
  - destruct t; [contradiction H2; reflexivity|reflexivity].
Qed.

(* every word of a prefix is a prefix of a word of the whole *)
Lemma tokens_prefix : forall p s t, In t (tokens p) -> exists e, In (t ++ e) (tokens (p ++ s)).
Proof.
  intros p s t Ht. apply tokens_in in Ht. destruct Ht as [Hin Hne].
  destruct (fields_app_gen is_ws p) as (init & lst & E & Hs). rewrite E in Hin.
  apply in_app_or in Hin. destruct Hin as [Hin|[<-|[]]].
  - exists []. rewrite app_nil_r. apply tokens_in. split; [|exact Hne]. rewrite Hs. apply in_or_app. left. exact Hin.
  - exists (hd [] (fields is_ws s)). apply tokens_in. split.
    + rewrite Hs. apply in_or_app. right. left. reflexivity.
    + destruct lst; [contradiction Hne; reflexivity|discriminate].
Qed.

Lemma tokens_v_sp : forall r, tokens (118 :: 32 :: r) = [118] :: tokens r.
Proof.
  intros r. unfold tokens. cbn [fields]. replace (is_ws 118) with false by reflexivity.
  replace (is_ws 32) with true by reflexivity. reflexivity.
Qed.

Lemma tokens_app_sp : forall p, tokens (p ++ [32]) = tokens p.
Proof.
  intros p. unfold tokens. destruct (fields_app_gen is_ws p) as (init & lst & E & Hs).
  rewrite Hs, E. replace (fields is_ws [32]) with ([[]; []] : list bytes) by reflexivity. cbn [hd tl].
  rewrite app_nil_r. rewrite !filter_app. cbn [filter is_nil negb]. destruct (negb (is_nil lst)); reflexivity.
Qed.

Lemma prefixb_v_sp_inv : forall ln, prefixb b_v_sp ln = true -> exists r, ln = 118 :: 32 :: r.
Proof.
  intros ln H. unfold b_v_sp in H. destruct ln as [|a [|b r]]; cbn [prefixb] in H; try discriminate H.
  - rewrite andb_false_r in H. discriminate H.
  - apply andb_true_iff in H. destruct H as [H1 H2]. apply andb_true_iff in H2. destruct H2 as [H2 _].
    apply N.eqb_eq in H1. apply N.eqb_eq in H2. subst. exists r. reflexivity.
Qed.

(* --- lines that cannot contribute to a result *)
Definition safe_line (ln : bytes) : Prop :=
  ln <> b_unsat /\
  (prefixb b_v_sp ln = true -> forall tok, In tok (tl (tokens ln)) -> parse_isize tok <> Some 0%Z).
(* every prefix of the line is safe *)
Definition psafe (ln : bytes) : Prop := forall p s, p ++ s = ln -> safe_line p.

Lemma safe_no_result : forall n out, (forall ln, In ln (lines_of out) -> safe_line ln) ->
  reply_parse n out = RUnknown \/ reply_parse n out = RPanic.
Proof.
  intros n out H. destruct (reply_parse n out) as [m| | |] eqn:E; [exfalso|exfalso|left; reflexivity|right; reflexivity].
  - destruct (reply_sat_inv n out m E) as (_ & (ln & tok & Hin & Hv & Htok & Hp) & _).
    destruct (H ln Hin) as [_ Hs]. exact (Hs Hv tok Htok Hp).
  - pose proof (reply_unsat_inv n out E) as Hin. destruct (H _ Hin) as [Hs _]. apply Hs. reflexivity.
Qed.

Lemma safe_head : forall ln, (forall r, ln <> 115 :: r) -> (forall r, ln <> 118 :: 32 :: r) -> safe_line ln.
Proof.
  intros ln H1 H2. split.
  - unfold b_unsat. apply H1.
  - intros Hv. destruct (prefixb_v_sp_inv ln Hv) as (r & E). exfalso. exact (H2 r E).
Qed.

Lemma psafe_head : forall ln, (forall b r, ln = b :: r -> b <> 115 /\ b <> 118) -> psafe ln.
Proof.
  intros ln H p s E. destruct p as [|b p].
  - apply safe_head; intros r; discriminate.
  - cbn [app] in E. destruct (H b (p ++ s) (eq_sym E)) as [H1 H2].
    apply safe_head; intros r K; inversion K; subst; [apply H1|apply H2]; reflexivity.
Qed.

Lemma psafe_filler : forall f, psafe (filler_body f).
Proof.
  intros f. destruct f as [|t| |]; cbn [filler_body].
  - apply psafe_head. intros b r E. inversion E. split; discriminate.
  - apply psafe_head. intros b r E. inversion E. split; discriminate.
  - apply psafe_head. intros b r E. discriminate E.
  - intros p s E. unfold b_v in E. destruct p as [|b p]; [apply safe_head; intros r; discriminate|].
    cbn [app] in E. inversion E. apply app_eq_nil in H1. destruct H1 as [-> _].
    apply safe_head; intros r; discriminate.
Qed.

Lemma psafe_b_sat : psafe b_sat.
Proof.
  intros p s E. split.
  - intros ->. discriminate E.
  - intros Hv. destruct (prefixb_v_sp_inv p Hv) as (r & ->). discriminate E.
Qed.

(* value lines (without terminator) of non-zero literals *)
Definition nz_lits (ls : list lit) : Prop := Forall (fun l : lit => l <> 0%Z) ls.

Lemma safe_v_prefix : forall ls p s, nz_lits ls -> p ++ s = v_body ls false -> safe_line p.
Proof.
  intros ls p s Hls E. split.
  - intros ->. unfold v_body, b_v, b_unsat in E. cbn [app] in E. discriminate E.
  - intros Hv tok Htok. destruct (prefixb_v_sp_inv p Hv) as (p' & ->).
    rewrite tokens_v_sp in Htok. cbn [tl] in Htok.
    pose proof (tokens_v_body ls false) as T. rewrite <- E in T. cbn [app] in T. rewrite tokens_v_sp in T.
    unfold b_v in T. inversion T as [T']. rewrite app_nil_r in T'.
    destruct (tokens_prefix p' s tok Htok) as (e & He). rewrite T' in He.
    apply in_map_iff in He. destruct He as (l & Hl & Hin).
    unfold nz_lits in Hls. rewrite Forall_forall in Hls.
    apply (cut_literal_not_zero l tok e (Hls l Hin)); [|symmetry; exact Hl].
    apply tokens_in in Htok. exact (proj2 Htok).
Qed.

Lemma psafe_v_body : forall ls, nz_lits ls -> psafe (v_body ls false).
Proof. intros ls Hls p s E. exact (safe_v_prefix ls p s Hls E). Qed.

Lemma psafe_v_last : forall ls, nz_lits ls -> psafe (v_body ls false ++ [32]).
Proof.
  intros ls Hls p s E. destruct s as [|x s] using rev_ind.
  - rewrite app_nil_r in E. subst p. split.
    + unfold v_body, b_v, b_unsat. cbn [app]. discriminate.
    + intros _ tok Htok. rewrite tokens_app_sp in Htok. rewrite tokens_v_body in Htok. cbn [tl] in Htok.
      rewrite app_nil_r in Htok. apply in_map_iff in Htok. destruct Htok as (l & Hl & Hin).
      unfold nz_lits in Hls. rewrite Forall_forall in Hls.
      apply (cut_literal_not_zero l tok [] (Hls l Hin)); [|rewrite app_nil_r; symmetry; exact Hl].
      rewrite <- Hl. apply print_lit_nonnil.
  - clear IHs. rewrite app_assoc in E. apply app_inj_tail in E. destruct E as [E _].
    exact (safe_v_prefix ls p s Hls E).
Qed.

(* --- the lines of a prefix of a text made of plain lines *)
Definition joinl (Ls : list bytes) : bytes := concat (map (fun l => l ++ [10]) Ls).
Definition all_plain (Ls : list bytes) : Prop := forall l, In l Ls -> plain l = true.

Lemma joinl_cons : forall l Ls, joinl (l :: Ls) = l ++ 10 :: joinl Ls.
Proof. intros. unfold joinl. cbn [map concat]. rewrite <- app_assoc. reflexivity. Qed.

Lemma joinl_app : forall a b, joinl (a ++ b) = joinl a ++ joinl b.
Proof. intros a b. unfold joinl. rewrite map_app, concat_app. reflexivity. Qed.

Lemma render_fill_joinl : forall fs, render_fill fs = joinl (map filler_body fs).
Proof.
  induction fs as [|f fs IH]; [reflexivity|]. cbn [map]. rewrite joinl_cons. rewrite <- IH.
  unfold render_fill. cbn [map concat]. rewrite filler_line_body. rewrite <- app_assoc. reflexivity.
Qed.

Lemma raw_lines_plain : forall p, plain p = true ->
  raw_lines p = match p with [] => [] | _ => [(p, false)] end.
Proof.
  induction p as [|b p IH]; intros H; [reflexivity|].
  cbn [plain forallb] in H. apply andb_true_iff in H. destruct H as [Hb Hp].
  cbn [raw_lines]. unfold plainb in Hb. assert (E : N.eqb b 10 = false) by lia. rewrite E.
  rewrite (IH Hp). destruct p; reflexivity.
Qed.

Lemma lines_of_joinl : forall Ls p, all_plain Ls -> plain p = true ->
  lines_of (joinl Ls ++ p) = Ls ++ match p with [] => [] | _ => [p] end.
Proof.
  induction Ls as [|l Ls IH]; intros p HLs Hp.
  - cbn [joinl map concat app]. unfold lines_of. rewrite (raw_lines_plain p Hp). destruct p; reflexivity.
  - rewrite joinl_cons. rewrite <- app_assoc. cbn [app]. unfold lines_of.
    rewrite (raw_lines_app l _ (HLs l (or_introl eq_refl))). cbn [map]. fold (lines_of (joinl Ls ++ p)).
    rewrite (IH p (fun x Hx => HLs x (or_intror Hx)) Hp). unfold rust_line. cbn [snd fst].
    rewrite (plain_strip_cr l (HLs l (or_introl eq_refl))). reflexivity.
Qed.

Lemma prefix_joinl : forall Ls last out cut, joinl Ls ++ last = out ++ cut ->
  exists Ls' p s, out = joinl Ls' ++ p /\ (forall l, In l Ls' -> In l Ls) /\ (In (p ++ s) Ls \/ p ++ s = last).
Proof.
  induction Ls as [|l Ls IH]; intros last out cut E.
  - exists [], out, cut. split; [reflexivity|]. split; [intros l []|]. right. symmetry. exact E.
  - rewrite joinl_cons in E. rewrite <- app_assoc in E. cbn [app] in E.
    apply app_eq_app in E. destruct E as (e & [[E1 E2]|[E1 E2]]).
    + (* the cut is inside [l] *)
      exists [], out, e. split; [reflexivity|]. split; [intros x []|]. left. left. exact E1.
    + destruct e as [|b e'].
      * exists [], out, []. split; [reflexivity|]. split; [intros x []|]. left. left. rewrite E1. rewrite !app_nil_r. reflexivity.
      * cbn [app] in E2. inversion E2 as [[Hb E3]]. subst b.
        destruct (IH last e' cut E3) as (Ls' & p & s & Ho & Hin & Hp).
        exists (l :: Ls'), p, s. split; [|split].
        -- rewrite E1, Ho. rewrite joinl_cons. rewrite <- app_assoc. reflexivity.
        -- intros x [<-|Hx]; [left; reflexivity|right; exact (Hin x Hx)].
        -- destruct Hp as [Hp|Hp]; [left; right; exact Hp|right; exact Hp].
Qed.

Lemma prefix_lines_safe : forall Ls last out cut,
  all_plain Ls -> plain last = true -> (forall l, In l Ls -> psafe l) -> psafe last ->
  joinl Ls ++ last = out ++ cut ->
  forall ln, In ln (lines_of out) -> safe_line ln.
Proof.
  intros Ls last out cut HLs Hlast Hsafe Hsl E ln Hln.
  destruct (prefix_joinl Ls last out cut E) as (Ls' & p & s & Ho & Hin & Hp).
  assert (Hps : plain (p ++ s) = true) by (destruct Hp as [Hp|Hp]; [exact (HLs _ Hp)|rewrite Hp; exact Hlast]).
  rewrite plain_app in Hps. apply andb_true_iff in Hps. destruct Hps as [Hpp _].
  subst out. rewrite (lines_of_joinl Ls' p (fun x Hx => HLs x (Hin x Hx)) Hpp) in Hln.
  apply in_app_or in Hln. destruct Hln as [Hln|Hln].
  - apply (Hsafe ln (Hin ln Hln) ln []). apply app_nil_r.
  - assert (Hlp : ln = p) by (destruct p; [destruct Hln|destruct Hln as [<-|[]]; reflexivity]). subst ln.
    destruct Hp as [Hp|Hp]; [exact (Hsafe _ Hp p s eq_refl)|exact (Hsl p s Hp)].
Qed.

(* --- the canonical SAT reply up to its terminating 0, as lines *)
Fixpoint vlines (lay : layout) (ls : list lit) : list bytes :=
  match lay with
  | [] => []
  | (fs, k) :: r => map filler_body fs ++ v_body (firstn k ls) false :: vlines r (skipn k ls)
  end.
Fixpoint vlast_lits (lay : layout) (ls : list lit) : list lit :=
  match lay with
  | [] => ls
  | (_, k) :: r => vlast_lits r (skipn k ls)
  end.
(* the complete lines before the line carrying the terminator, and that line up to the terminator *)
Definition sat_lines (status_last : bool) (pre : list filler) (lay : layout) (m : assignment) : list bytes :=
  map filler_body pre ++ (if status_last then [] else [b_sat]) ++ vlines lay (model_lits m).
Definition sat_last (lay : layout) (m : assignment) : bytes := v_body (vlast_lits lay (model_lits m)) false ++ [32].
Definition sat_before0 (status_last : bool) (pre : list filler) (lay : layout) (m : assignment) : bytes :=
  joinl (sat_lines status_last pre lay m) ++ sat_last lay m.

Lemma render_v_joinl : forall lay ls,
  render_v lay ls = (joinl (vlines lay ls) ++ v_body (vlast_lits lay ls) false ++ [32]) ++ [48; 10].
Proof.
  induction lay as [|[fs k] lay IH]; intros ls.
  - cbn [render_v vlines vlast_lits joinl map concat app]. unfold v_line, v_body, b_sp_0.
    rewrite app_nil_r. rewrite <- !app_assoc. reflexivity.
  - cbn [render_v vlines vlast_lits]. rewrite (IH (skipn k ls)). rewrite render_fill_joinl, v_line_body.
    rewrite joinl_app, joinl_cons. rewrite <- !app_assoc. reflexivity.
Qed.

Lemma render_sat_before0 : forall status_last pre lay post m,
  render_sat status_last pre lay post m =
  sat_before0 status_last pre lay m ++ [48; 10] ++ (if status_last then status_sat else []) ++ render_fill post.
Proof.
  intros status_last pre lay post m. unfold render_sat, sat_before0, sat_lines, sat_last.
  rewrite render_v_joinl, render_fill_joinl. rewrite !joinl_app.
  assert (Es : (if status_last then [] else status_sat) = joinl (if status_last then [] else [b_sat])).
  { destruct status_last; [reflexivity|]. unfold joinl, status_sat. cbn [map concat]. rewrite app_nil_r. reflexivity. }
  rewrite Es. rewrite <- !app_assoc. reflexivity.
Qed.

Lemma nz_firstn : forall k ls, nz_lits ls -> nz_lits (firstn k ls).
Proof. intros k ls H. apply Forall_firstn, H. Qed.
Lemma nz_skipn : forall k ls, nz_lits ls -> nz_lits (skipn k ls).
Proof. intros k ls H. apply Forall_skipn, H. Qed.

Lemma model_lits_nz : forall m, nz_lits (model_lits m).
Proof.
  intros m. unfold nz_lits. eapply Forall_impl; [|exact (model_lits_in m)]. cbn beta. intros l [H _]. exact H.
Qed.

Lemma fillers_plain : forall fs, forallb filler_ok fs = true -> all_plain (map filler_body fs).
Proof.
  intros fs H l Hl. apply in_map_iff in Hl. destruct Hl as (f & <- & Hf).
  rewrite forallb_forall in H. apply filler_plain, H, Hf.
Qed.
Lemma fillers_psafe : forall fs l, In l (map filler_body fs) -> psafe l.
Proof. intros fs l Hl. apply in_map_iff in Hl. destruct Hl as (f & <- & _). apply psafe_filler. Qed.

Lemma vlines_plain : forall lay ls, layout_ok lay = true -> all_plain (vlines lay ls).
Proof.
  induction lay as [|[fs k] lay IH]; intros ls H l Hl; [destruct Hl|].
  cbn [layout_ok forallb fst] in H. apply andb_true_iff in H. destruct H as [Hfs Hlay].
  cbn [vlines] in Hl. apply in_app_or in Hl. destruct Hl as [Hl|[<-|Hl]].
  - exact (fillers_plain fs Hfs l Hl).
  - apply v_body_plain.
  - exact (IH (skipn k ls) Hlay l Hl).
Qed.

Lemma vlines_psafe : forall lay ls l, nz_lits ls -> In l (vlines lay ls) -> psafe l.
Proof.
  induction lay as [|[fs k] lay IH]; intros ls l Hls Hl; [destruct Hl|].
  cbn [vlines] in Hl. apply in_app_or in Hl. destruct Hl as [Hl|[<-|Hl]].
  - exact (fillers_psafe fs l Hl).
  - apply psafe_v_body, nz_firstn, Hls.
  - exact (IH (skipn k ls) l (nz_skipn k ls Hls) Hl).
Qed.

Lemma vlast_nz : forall lay ls, nz_lits ls -> nz_lits (vlast_lits lay ls).
Proof.
  induction lay as [|[fs k] lay IH]; intros ls H; [exact H|]. cbn [vlast_lits]. apply IH, nz_skipn, H.
Qed.

(* every prefix of the part before the terminating 0: Unknown or panic, whatever n_vars *)
Theorem sat_before0_prefix : forall n status_last pre lay m out cut,
  forallb filler_ok pre = true -> layout_ok lay = true ->
  sat_before0 status_last pre lay m = out ++ cut ->
  reply_parse n out = RUnknown \/ reply_parse n out = RPanic.
Proof.
  intros n status_last pre lay m out cut Hpre Hlay E. apply safe_no_result.
  unfold sat_before0 in E.
  apply (prefix_lines_safe (sat_lines status_last pre lay m) (sat_last lay m) out cut); [| | | |exact E].
  - intros l Hl. unfold sat_lines in Hl. apply in_app_or in Hl. destruct Hl as [Hl|Hl]; [exact (fillers_plain pre Hpre l Hl)|].
    apply in_app_or in Hl. destruct Hl as [Hl|Hl]; [|exact (vlines_plain lay _ Hlay l Hl)].
    destruct status_last; [destruct Hl|]. destruct Hl as [<-|[]]. reflexivity.
  - unfold sat_last. rewrite plain_app. rewrite v_body_plain. reflexivity.
  - intros l Hl. unfold sat_lines in Hl. apply in_app_or in Hl. destruct Hl as [Hl|Hl]; [exact (fillers_psafe pre l Hl)|].
    apply in_app_or in Hl. destruct Hl as [Hl|Hl]; [|exact (vlines_psafe lay _ l (model_lits_nz m) Hl)].
    destruct status_last; [destruct Hl|]. destruct Hl as [<-|[]]. exact psafe_b_sat.
  - unfold sat_last. apply psafe_v_last, vlast_nz, model_lits_nz.
Qed.

Theorem reply_truncated_any_cut : forall n status_last pre lay post m out cut,
  forallb filler_ok pre = true -> layout_ok lay = true ->
  render_sat status_last pre lay post m =
    out ++ cut ++ [48; 10] ++ (if status_last then status_sat else []) ++ render_fill post ->
  reply_parse n out = RUnknown \/ reply_parse n out = RPanic.
Proof.
  intros n status_last pre lay post m out cut Hpre Hlay E.
  apply (sat_before0_prefix n status_last pre lay m out cut Hpre Hlay).
  rewrite render_sat_before0 in E. rewrite (app_assoc out cut) in E. exact (app_inv_tail _ _ _ E).
Qed.

Theorem reply_cut_point : forall status_last pre lay post m, exists before0,
  render_sat status_last pre lay post m =
    before0 ++ [48; 10] ++ (if status_last then status_sat else []) ++ render_fill post.
Proof. intros. exists (sat_before0 status_last pre lay m). apply render_sat_before0. Qed.
