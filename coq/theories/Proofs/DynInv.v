(* The clause-set invariant of the standard (selector based) dynamic encoder over histories: in every
   state reachable with the SAT program state threaded (DynFunDefs.vreach), the clauses of the SAT
   session are the template groups of the live arguments for their CURRENT attacker sets under their
   CURRENT selectors, plus dead clauses (DynFunDefs.clause_inv).
   Part 0: the session as seen through the monad.   Part 1: the invariant with a set U of arguments
   whose re-encoding is pending (the deferred re-encoding of a replay), pure transformations.
   Part 2: the encoder operations.   Part 3: update_encoding.   Part 4: reachable states. *)
From Crusta Require Import Model.Dynamic Proofs.ProgLaws Proofs.StoreBase Proofs.StoreProofs Proofs.EncBase
  Proofs.SolverBasics Proofs.DynDefs Proofs.DynBase Proofs.DynProofs Proofs.DynEnc Proofs.DynSafe Proofs.DynStore
  Proofs.DynFunDefs.
From Coq Require Import Lia ZifyBool.

(* ================================================================ Part 0 *)
Definition se_cl (se : session) : cnf := rev (rclauses se).
Definition sbounded (se : session) : Prop := bounded (rclauses se) (maxvar se).
Notation nv := session_n_vars.
Definition sess_adds (se : session) (cs : cnf) : session := fold_left sess_add cs se.

Lemma se_cl_add se c : se_cl (sess_add se c) = se_cl se ++ [c].
Proof. reflexivity. Qed.
Lemma se_cl_adds cs : forall se, se_cl (sess_adds se cs) = se_cl se ++ cs.
Proof.
  induction cs as [|c r IH]; intros se; cbn [sess_adds fold_left]; [now rewrite app_nil_r|].
  change (fold_left sess_add r (sess_add se c)) with (sess_adds (sess_add se c) r).
  rewrite IH, se_cl_add, <- app_assoc. reflexivity.
Qed.
Lemma sbounded_add se c : sbounded se -> sbounded (sess_add se c).
Proof.
  intros H c' l [<-|Hc] Hl; cbn.
  - pose proof (clause_max_ge _ _ Hl). lia.
  - specialize (H c' l Hc Hl). lia.
Qed.
Lemma sbounded_adds cs : forall se, sbounded se -> sbounded (sess_adds se cs).
Proof.
  induction cs as [|c r IH]; intros se H; cbn [sess_adds fold_left]; [exact H|].
  apply IH, sbounded_add, H.
Qed.
Lemma nv_add se c : nv se <= nv (sess_add se c) /\ clause_max c <= nv (sess_add se c).
Proof. unfold session_n_vars, sess_add. cbn [maxvar reserved]. lia. Qed.
Lemma nv_adds cs : forall se,
  nv se <= nv (sess_adds se cs) /\ forall c, In c cs -> clause_max c <= nv (sess_adds se cs).
Proof.
  induction cs as [|c r IH]; intros se; cbn [sess_adds fold_left]; [split; [lia|intros c []]|].
  destruct (IH (sess_add se c)) as [H1 H2]. destruct (nv_add se c) as [H3 H4].
  unfold sess_adds in *. split; [lia|]. intros c' [<-|Hc]; [lia|auto].
Qed.
Lemma sbounded_lit se c l : sbounded se -> In c (se_cl se) -> In l c -> lit_var l <= nv se.
Proof.
  intros H Hc Hl. unfold se_cl in Hc. apply in_rev in Hc. specialize (H c l Hc Hl).
  unfold session_n_vars. lia.
Qed.
Lemma clause_max_single l : clause_max [l] = lit_var l.
Proof. unfold clause_max. cbn [fold_right]. lia. Qed.

Lemma add_clause_sess c ps u ps' : add_clause c ps = Done u ps' -> sess ps' = sess_add (sess ps) c.
Proof. unfold add_clause. intros E. apply Done_inj in E. destruct E as [_ <-]. reflexivity. Qed.
Lemma n_vars_sess ps n ps' : n_vars ps = Done n ps' -> n = nv (sess ps) /\ sess ps' = sess ps.
Proof. unfold n_vars. intros E. apply Done_inj in E. destruct E as [<- <-]. auto. Qed.
Lemma add_clauses_sess cs : forall ps u ps', add_clauses cs ps = Done u ps' -> sess ps' = sess_adds (sess ps) cs.
Proof.
  induction cs as [|c r IH]; intros ps u ps' E; cbn [add_clauses] in E.
  - apply Done_inj in E. destruct E as [_ <-]. reflexivity.
  - apply bind_Done in E. destruct E as (u1 & ps1 & E1 & E2). apply add_clause_sess in E1.
    rewrite (IH _ _ _ E2), E1. reflexivity.
Qed.
Lemma ret_Done {A} (a b : A) ps ps' : ret a ps = Done b ps' -> a = b /\ ps = ps'.
Proof. unfold ret. apply Done_inj. Qed.
Lemma opt_m_Done {A} (o : option A) a ps ps' : opt_m o ps = Done a ps' -> o = Some a /\ ps' = ps.
Proof. destruct o; cbn [opt_m]; intros E; [apply ret_Done in E; destruct E as [-> ->]; auto|discriminate E]. Qed.
Lemma unwrap_ok_Done {A} (r : A * result) a ps ps' : unwrap_ok r ps = Done a ps' -> r = (a, ROk) /\ ps' = ps.
Proof.
  destruct r as [x [| |]]; cbn [unwrap_ok]; intros E; try discriminate E.
  apply ret_Done in E. destruct E as [-> ->]. auto.
Qed.

(* ================================================================ Part 1 *)
Definition updo (dv : nat -> option bool) (x : nat) (b : bool) : nat -> option bool :=
  fun y => if Nat.eqb y x then Some b else dv y.
Lemma updo_same dv x b : updo dv x b x = Some b.
Proof. unfold updo. now rewrite Nat.eqb_refl. Qed.
Lemma updo_other dv x b y : y <> x -> updo dv x b y = dv y.
Proof. unfold updo. intros H. apply Nat.eqb_neq in H. now rewrite H. Qed.

Lemma dead_znlit dv s : dv s = Some false -> dead_lit dv (znlit s).
Proof. intros H. unfold dead_lit. rewrite lit_var_znlit, H. now rewrite vtrue_znlit. Qed.
Lemma dead_zlit dv v : 0 < v -> dv v = Some true -> dead_lit dv (zlit v).
Proof. intros Hp H. unfold dead_lit. rewrite lit_var_zlit, H. now rewrite vtrue_zlit. Qed.
Lemma dead_clause_mono (dv dv' : nat -> option bool) c :
  (forall x b, dv x = Some b -> dv' x = Some b) -> dead_clause dv c -> dead_clause dv' c.
Proof.
  intros H (l & Hl & Hd). exists l. split; [exact Hl|]. unfold dead_lit in *.
  destruct (dv (lit_var l)) as [b|] eqn:E; [|destruct Hd]. rewrite (H _ _ E). exact Hd.
Qed.

Lemma grp_guard e a bs c : In c (grp e a bs) -> In (znlit (svar e a)) c.
Proof.
  unfold grp, co_clauses, st_clauses. rewrite !neg_zlit.
  destruct (e_sem e); rewrite ?in_app_iff, ?in_map_iff; cbn [In];
    intros H; decompose [or ex and] H; subst; cbn [In app]; auto; try contradiction.
Qed.

Lemma grp_ext e e' a bs :
  e_sem e' = e_sem e -> svar e' a = svar e a -> avar e' a = avar e a ->
  (forall b, In b bs -> avar e' b = avar e b) -> grp e' a bs = grp e a bs.
Proof.
  intros Hs Hsv Hav Hbs. unfold grp. rewrite Hs, Hsv, Hav, (map_ext_in _ _ _ Hbs). reflexivity.
Qed.

Lemma avar_eq e e' a : tbl_var (e_a2v e') a = tbl_var (e_a2v e) a -> avar e' a = avar e a.
Proof. unfold avar. now intros ->. Qed.
Lemma svar_eq e e' a : tbl_var (e_a2s e') a = tbl_var (e_a2s e) a -> svar e' a = svar e a.
Proof. unfold svar. now intros ->. Qed.
Lemma avar_some e a v : tbl_var (e_a2v e) a = Some v -> avar e a = v.
Proof. unfold avar. now intros ->. Qed.
Lemma svar_some e a v : tbl_var (e_a2s e) a = Some v -> svar e a = v.
Proof. unfold svar. now intros ->. Qed.

Section DynInv.
Variable L : Type.
Variable leqb : L -> L -> bool.
Hypothesis leqb_spec : forall x y, leqb x y = true <-> x = y.

Notation fw := (fw L).
Notation Inv := (Inv L).
Notation get_argument := (get_argument L leqb).
Notation iter_attacks := (iter_attacks L).
Notation has := (has_argument_with_id L).
Notation tabs := (DynProofs.tabs L).

Definition ok_clause (e : denc) (U : list nat) (dv : nat -> option bool) (atk : nat -> list nat) (c : clause) : Prop :=
  dead_clause dv c \/
  (exists a s, tbl_var (e_a2s e) a = Some s /\ In a U /\ In (znlit s) c) \/
  (exists a, tbl_var (e_a2s e) a <> None /\ ~ In a U /\ In c (grp e a (atk a))) \/
  (e_sem e <> DST /\ exists a v, tbl_var (e_a2v e) a = Some v /\ c = [znlit v; znlit (S v)]).

(* the invariant during a replay: U = the arguments whose attacker set must still be re-encoded *)
Record cinv (af : fw) (e : denc) (U : list nat) (C : cnf) (N : nat)
            (dv : nat -> option bool) (atk : nat -> list nat) : Prop := {
  ci_le : forall x, dv x <> None -> x <= N;
  ci_live : forall x, live_var e x -> dv x = None;
  ci_sel : forall a, has af a = true -> ~ In a U -> tbl_var (e_a2s e) a <> None;
  ci_atk : forall a, tbl_var (e_a2s e) a <> None -> ~ In a U ->
           forall b, In b (atk a) <-> In (b, a) (iter_attacks af);
  ci_grp : forall a, tbl_var (e_a2s e) a <> None -> ~ In a U -> incl (grp e a (atk a)) C;
  ci_bin : e_sem e <> DST -> forall a v, tbl_var (e_a2v e) a = Some v -> In [znlit v; znlit (S v)] C;
  ci_cls : forall c, In c C -> ok_clause e U dv atk c }.

Lemma guard_of e a bs c : tbl_var (e_a2s e) a <> None -> In c (grp e a bs) ->
  exists s, tbl_var (e_a2s e) a = Some s /\ In (znlit s) c.
Proof.
  intros Hs Hc. apply grp_guard in Hc. unfold svar in Hc.
  destruct (tbl_var (e_a2s e) a) as [s|]; [|congruence]. exists s. auto.
Qed.

Lemma cinv_mono af e U U' C N N' dv atk :
  cinv af e U C N dv atk -> incl U U' -> N <= N' -> cinv af e U' C N' dv atk.
Proof.
  intros [H1 H2 H3 H4 H5 H6 H7] HU HN. split; auto.
  - intros x Hx. specialize (H1 x Hx). lia.
  - intros c Hc. destruct (H7 c Hc) as [Hd|[(a & s & Hs & Ha & Hin)|[(a & Hs & Ha & Hin)|H]]].
    + left. exact Hd.
    + right. left. exists a, s. auto.
    + destruct (in_dec Nat.eq_dec a U') as [Hi|Hn].
      * right. left. destruct (guard_of e a _ c Hs Hin) as (s & Hs' & Hg). exists a, s. auto.
      * right. right. left. exists a. auto.
    + right. right. right. exact H.
Qed.

(* U only matters on the arguments that are live or have a selector *)
Lemma cinv_U_equiv af e U U' C N dv atk :
  cinv af e U C N dv atk ->
  (forall a, tbl_var (e_a2s e) a <> None \/ has af a = true -> (In a U <-> In a U')) ->
  cinv af e U' C N dv atk.
Proof.
  intros [H1 H2 H3 H4 H5 H6 H7] HU. split; auto.
  - intros a Ha Hn. apply H3; [exact Ha|]. intros Hi. apply Hn, HU; auto.
  - intros a Hs Hn. apply H4; [exact Hs|]. intros Hi. apply Hn, HU; auto.
  - intros a Hs Hn. apply H5; [exact Hs|]. intros Hi. apply Hn, HU; auto.
  - intros c Hc. destruct (H7 c Hc) as [Hd|[(a & s & Hs & Ha & Hin)|[(a & Hs & Ha & Hin)|H]]].
    + left. exact Hd.
    + right. left. exists a, s. split; [exact Hs|]. split; [|exact Hin]. apply HU; [left; congruence|exact Ha].
    + right. right. left. exists a. split; [exact Hs|]. split; [|exact Hin]. intros Hi. apply Ha, HU; auto.
    + right. right. right. exact H.
Qed.

Lemma cinv_add af e U C N dv atk cs :
  cinv af e U C N dv atk -> (forall c, In c cs -> ok_clause e U dv atk c) -> cinv af e U (C ++ cs) N dv atk.
Proof.
  intros [H1 H2 H3 H4 H5 H6 H7] Hcs. split; auto.
  - intros a Hs Hn. apply incl_appl. auto.
  - intros Hsem a v Hv. apply in_or_app. left. eauto.
  - intros c Hc. apply in_app_or in Hc. destruct Hc; auto.
Qed.

(* the framework changes, the tables do not: only the arguments outside U matter *)
Lemma cinv_fw af af' e U C N dv atk :
  cinv af e U C N dv atk -> (forall a, has af' a = has af a) ->
  (forall a b, ~ In a U -> (In (b, a) (iter_attacks af') <-> In (b, a) (iter_attacks af))) ->
  cinv af' e U C N dv atk.
Proof.
  intros [H1 H2 H3 H4 H5 H6 H7] Hh Hr. split; auto.
  - intros a Ha. rewrite Hh in Ha. auto.
  - intros a Hs Hn b. rewrite (Hr a b Hn). auto.
Qed.

(* ---------------------------------------------------------------- a new argument (T1) *)
Lemma dv_fresh_none af e U C N dv atk x : cinv af e U C N dv atk -> N < x -> dv x = None.
Proof.
  intros Hc Hx. destruct (dv x) eqn:E; [|reflexivity].
  assert (x <= N) by (apply (ci_le _ _ _ _ _ _ _ Hc); congruence). lia.
Qed.

Lemma cinv_push af af' e e' U U' C C' N N' dv atk n v :
  cinv af e U C N dv atk -> Inv af ->
  (forall a, has af a = true -> a < n) ->
  (forall a x, tbl_var (e_a2v e) a = Some x -> a < n) ->
  (forall a x, tbl_var (e_a2s e) a = Some x -> a < n) ->
  e_sem e' = e_sem e ->
  (forall a, a <> n -> tbl_var (e_a2v e') a = tbl_var (e_a2v e) a) ->
  tbl_var (e_a2v e') n = Some v ->
  (forall a, tbl_var (e_a2s e') a = tbl_var (e_a2s e) a) ->
  N < v -> N <= N' ->
  C' = C ++ (match e_sem e with DST => [] | _ => [[znlit v; znlit (S v)]] end) ->
  (forall a, has af' a = true <-> a = n \/ has af a = true) ->
  iter_attacks af' = iter_attacks af ->
  In n U' -> incl U U' ->
  cinv af' e' U' C' N' dv atk.
Proof.
  intros Hc Hinv Hlive HVlt HSlt Hsem HV HVn HS Hv HN HC Hhas Hrel HnU HUU.
  pose proof Hc as [H1 H2 H3 H4 H5 H6 H7].
  assert (Hav : forall a, a <> n -> avar e' a = avar e a) by (intros a Ha; apply avar_eq, HV, Ha).
  assert (Hsv : forall a, svar e' a = svar e a) by (intros a; apply svar_eq, HS).
  assert (Hgrp : forall a, tbl_var (e_a2s e) a <> None -> ~ In a U -> grp e' a (atk a) = grp e a (atk a)).
  { intros a Hs Hn. assert (Han : a < n).
    { destruct (tbl_var (e_a2s e) a) eqn:E; [eapply HSlt; eassumption|congruence]. }
    apply grp_ext; auto.
    - apply Hav. lia.
    - intros b Hb. apply Hav. apply (H4 a Hs Hn) in Hb.
      destruct (attack_live L af b a Hinv Hb) as [Hb' _]. specialize (Hlive b Hb'). lia. }
  assert (HCC : incl C C') by (rewrite HC; apply incl_appl, incl_refl).
  split.
  - intros x Hx. specialize (H1 x Hx). lia.
  - intros x [(a & Ha)|[(Hs & a & w & Ha & ->)|(a & Ha)]].
    + destruct (Nat.eq_dec a n) as [->|Hne].
      * rewrite HVn in Ha. injection Ha as <-. eapply dv_fresh_none; eassumption.
      * rewrite HV in Ha by exact Hne. apply H2. left. eauto.
    + destruct (Nat.eq_dec a n) as [->|Hne].
      * rewrite HVn in Ha. injection Ha as <-. eapply dv_fresh_none; [eassumption|lia].
      * rewrite HV in Ha by exact Hne. apply H2. right. left. split; [congruence|eauto].
    + rewrite HS in Ha. apply H2. right. right. eauto.
  - intros a Ha Hn. rewrite HS. apply Hhas in Ha. destruct Ha as [->|Ha]; [contradiction|]. apply H3; auto.
  - intros a Hs Hn b. rewrite HS in Hs. rewrite Hrel. apply H4; auto.
  - intros a Hs Hn. rewrite HS in Hs. rewrite Hgrp by auto. eapply incl_tran; [apply H5; auto|exact HCC].
  - intros Hs a w Ha. rewrite Hsem in Hs. destruct (Nat.eq_dec a n) as [->|Hne].
    + rewrite HVn in Ha. injection Ha as <-. rewrite HC. apply in_or_app. right.
      destruct (e_sem e); try congruence; left; reflexivity.
    + rewrite HV in Ha by exact Hne. apply HCC. eauto.
  - intros c Hc'. rewrite HC in Hc'. apply in_app_or in Hc'. destruct Hc' as [Hc'|Hc'].
    + destruct (H7 c Hc') as [Hd|[(a & s & Hs & Ha & Hin)|[(a & Hs & Ha & Hin)|(Hs & a & w & Ha & ->)]]].
      * left. exact Hd.
      * right. left. exists a, s. rewrite HS. auto.
      * destruct (in_dec Nat.eq_dec a U') as [Hi|Hn].
        -- right. left. destruct (guard_of e a _ c Hs Hin) as (s & Hs' & Hg). exists a, s. rewrite HS. auto.
        -- right. right. left. exists a. rewrite HS, Hgrp by auto. auto.
      * right. right. right. split; [congruence|]. exists a, w. split; [|reflexivity].
        rewrite HV; [exact Ha|]. specialize (HVlt a w Ha). lia.
    + right. right. right. destruct (e_sem e) eqn:Es; cbn [In] in Hc'; try contradiction;
        (destruct Hc' as [<-|[]]; split; [congruence|]; exists n, v; auto).
Qed.

(* ---------------------------------------------------------------- removing an argument (T2) *)
Definition sem_st (s : dsem) : bool := match s with DST => true | _ => false end.
Lemma sem_st_true s : sem_st s = true <-> s = DST.
Proof. destruct s; cbn; split; congruence. Qed.
Lemma sem_st_false s : sem_st s = false <-> s <> DST.
Proof. destruct s; cbn; split; congruence. Qed.

Definition retire_dv (dv : nat -> option bool) (os : option nat) : nat -> option bool :=
  match os with Some s => updo dv s false | None => dv end.
Definition retire_units (os : option nat) : cnf := match os with Some s => [[znlit s]] | None => [] end.
Definition kill_dv (dv : nat -> option bool) (st : bool) (os : option nat) (v : nat) : nat -> option bool :=
  let d2 := updo (retire_dv dv os) v true in if st then d2 else updo d2 (S v) false.

Lemma kill_dv_other dv st os v x :
  x <> v -> os <> Some x -> (st = false -> x <> S v) -> kill_dv dv st os v x = dv x.
Proof.
  intros H1 H2 H3. unfold kill_dv, retire_dv. destruct st.
  - rewrite updo_other by exact H1. destruct os as [s|]; [|reflexivity]. apply updo_other. congruence.
  - rewrite updo_other by (apply H3; reflexivity). rewrite updo_other by exact H1.
    destruct os as [s|]; [|reflexivity]. apply updo_other. congruence.
Qed.
Lemma kill_dv_v dv st os v : kill_dv dv st os v v = Some true.
Proof. unfold kill_dv. destruct st; [apply updo_same|]. rewrite updo_other by lia. apply updo_same. Qed.
Lemma kill_dv_d dv os v : kill_dv dv false os v (S v) = Some false.
Proof. unfold kill_dv. apply updo_same. Qed.
Lemma kill_dv_s dv st v s : s <> v -> (st = false -> s <> S v) -> kill_dv dv st (Some s) v s = Some false.
Proof.
  intros H1 H2. unfold kill_dv, retire_dv. destruct st.
  - rewrite updo_other by exact H1. apply updo_same.
  - rewrite updo_other by (apply H2; reflexivity). rewrite updo_other by exact H1. apply updo_same.
Qed.
Lemma kill_dv_cases dv st os v x : kill_dv dv st os v x <> None ->
  dv x <> None \/ x = v \/ os = Some x \/ (st = false /\ x = S v).
Proof.
  intros H. destruct (Nat.eq_dec x v) as [->|H1]; [auto|].
  destruct os as [s|].
  - destruct (Nat.eq_dec x s) as [->|H2]; [auto|]. destruct st.
    + rewrite kill_dv_other in H; auto; congruence.
    + destruct (Nat.eq_dec x (S v)) as [->|H3]; [auto|]. rewrite kill_dv_other in H; auto; congruence.
  - destruct st.
    + rewrite kill_dv_other in H; auto; congruence.
    + destruct (Nat.eq_dec x (S v)) as [->|H3]; [auto 6|]. rewrite kill_dv_other in H; auto; congruence.
Qed.

Lemma cinv_kill af af' e e' U U' C C' N N' dv atk id v :
  cinv af e U C N dv atk -> tables_ok L af e -> 0 < v ->
  tbl_var (e_a2v e) id = Some v ->
  e_sem e' = e_sem e ->
  (forall a, a <> id -> tbl_var (e_a2v e') a = tbl_var (e_a2v e) a) ->
  tbl_var (e_a2v e') id = None ->
  (forall a, a <> id -> tbl_var (e_a2s e') a = tbl_var (e_a2s e) a) ->
  tbl_var (e_a2s e') id = None ->
  N <= N' -> v <= N' -> (forall s, tbl_var (e_a2s e) id = Some s -> s <= N') ->
  (e_sem e <> DST -> S v <= N') ->
  C' = C ++ retire_units (tbl_var (e_a2s e) id) ++ [[zlit v]] ->
  (forall a, has af' a = true <-> a <> id /\ has af a = true) ->
  iter_attacks af' = filter (fun p => negb (Nat.eqb (fst p) id) && negb (Nat.eqb (snd p) id)) (iter_attacks af) ->
  incl U U' ->
  (forall a, In (id, a) (iter_attacks af) -> a <> id -> In a U') ->
  cinv af' e' U' C' N' (kill_dv dv (sem_st (e_sem e)) (tbl_var (e_a2s e) id) v) atk.
Proof.
  intros Hc Ht Hpos Hv Hsem HV HVid HS HSid HN HvN HsN HdN HC Hhas Hrel HUU Htg.
  pose proof Hc as [H1 H2 H3 H4 H5 H6 H7].
  destruct (tables_distinct L af e Ht) as (D1 & D2 & D3 & D4 & D5 & _).
  set (st := sem_st (e_sem e)). set (os := tbl_var (e_a2s e) id).
  set (dv' := kill_dv dv st os v).
  assert (Hst : st = false -> e_sem e <> DST) by (intros E; apply sem_st_false; exact E).
  assert (Hlv : live_var e v) by (left; eauto).
  assert (Hld : st = false -> live_var e (S v)) by (intros E; right; left; split; [auto|]; eauto).
  assert (Hls : forall s, os = Some s -> live_var e s) by (intros s E; right; right; eauto).
  (* values that were forced stay forced *)
  assert (K1 : forall x b, dv x = Some b -> dv' x = Some b).
  { intros x b E. unfold dv'. rewrite kill_dv_other; [exact E| | |].
    - intros ->. rewrite (H2 v Hlv) in E. discriminate.
    - intros E'. rewrite (H2 x (Hls x E')) in E. discriminate.
    - intros E' ->. rewrite (H2 _ (Hld E')) in E. discriminate. }
  assert (Ks : forall s, os = Some s -> dv' s = Some false).
  { intros s E. unfold dv'. rewrite E. apply kill_dv_s.
    - intros ->. exact (D3 _ _ _ _ Hv E eq_refl).
    - intros E' ->. exact (D5 (Hst E') _ _ _ _ Hv E eq_refl). }
  assert (Hav : forall a, a <> id -> avar e' a = avar e a) by (intros a Ha; apply avar_eq, HV, Ha).
  assert (Hsv : forall a, a <> id -> svar e' a = svar e a) by (intros a Ha; apply svar_eq, HS, Ha).
  assert (Hgrp : forall a, a <> id -> tbl_var (e_a2s e) a <> None -> ~ In a U -> ~ In a U' ->
                   grp e' a (atk a) = grp e a (atk a)).
  { intros a Ha Hs Hn Hn'. apply grp_ext; auto. intros b Hb. apply Hav. intros ->.
    apply (H4 a Hs Hn) in Hb. apply Hn'. apply Htg; assumption. }
  assert (HCC : incl C C') by (rewrite HC; apply incl_appl, incl_refl).
  split.
  - intros x Hx. destruct (kill_dv_cases _ _ _ _ _ Hx) as [Hd|[->|[Hs|[Hs ->]]]].
    + specialize (H1 x Hd). lia.
    + exact HvN.
    + apply HsN. exact Hs.
    + apply HdN, Hst, Hs.
  - intros x Hx.
    assert (G : live_var e x /\ x <> v /\ os <> Some x /\ (st = false -> x <> S v)).
    { destruct Hx as [(a & Ha)|[(Hs & a & w & Ha & ->)|(a & Ha)]].
      - assert (Hne : a <> id) by (intros ->; congruence). rewrite HV in Ha by exact Hne.
        split; [left; eauto|]. split; [intros ->; apply Hne; eapply D1; eassumption|].
        split; [intros E; exact (D3 _ _ _ _ Ha E eq_refl)|].
        intros E ->. exact (D4 (Hst E) _ _ _ _ Hv Ha eq_refl).
      - assert (Hne : a <> id) by (intros ->; congruence). rewrite HV in Ha by exact Hne.
        rewrite Hsem in Hs.
        split; [right; left; split; [exact Hs|eauto]|].
        split; [intros E; exact (D4 Hs _ _ _ _ Ha Hv E)|].
        split; [intros E; exact (D5 Hs _ _ _ _ Ha E eq_refl)|].
        intros _ E. injection E as ->. apply Hne. eapply D1; eassumption.
      - assert (Hne : a <> id) by (intros ->; congruence). rewrite HS in Ha by exact Hne.
        split; [right; right; eauto|]. split; [intros ->; exact (D3 _ _ _ _ Hv Ha eq_refl)|].
        split; [intros E; apply Hne; eapply D2; eassumption|].
        intros E ->. exact (D5 (Hst E) _ _ _ _ Hv Ha eq_refl). }
    destruct G as (G1 & G2 & G3 & G4). unfold dv'. rewrite kill_dv_other by assumption. apply H2, G1.
  - intros a Ha Hn. apply Hhas in Ha. destruct Ha as [Hne Ha]. rewrite HS by exact Hne. apply H3; auto.
  - intros a Hs Hn b. assert (Hne : a <> id) by (intros ->; congruence). rewrite HS in Hs by exact Hne.
    assert (HnU : ~ In a U) by auto. rewrite (H4 a Hs HnU b), Hrel, filter_In. cbn [fst snd].
    split; [|tauto]. intros Hin. split; [exact Hin|]. apply andb_true_iff. split; apply negb_true_iff, Nat.eqb_neq.
    + intros ->. apply Hn, Htg; assumption.
    + exact Hne.
  - intros a Hs Hn. assert (Hne : a <> id) by (intros ->; congruence). rewrite HS in Hs by exact Hne.
    rewrite Hgrp by auto. eapply incl_tran; [apply H5; auto|exact HCC].
  - intros Hs a w Ha. assert (Hne : a <> id) by (intros ->; congruence). rewrite HV in Ha by exact Hne.
    rewrite Hsem in Hs. apply HCC. eauto.
  - intros c Hc'. rewrite HC in Hc'. apply in_app_or in Hc'. destruct Hc' as [Hc'|Hc'].
    + destruct (H7 c Hc') as [Hd|[(a & s & Hs & Ha & Hin)|[(a & Hs & Ha & Hin)|(Hs & a & w & Ha & ->)]]].
      * left. eapply dead_clause_mono; [exact K1|exact Hd].
      * destruct (Nat.eq_dec a id) as [->|Hne].
        -- left. exists (znlit s). split; [exact Hin|]. apply dead_znlit, Ks. exact Hs.
        -- right. left. exists a, s. rewrite HS by exact Hne. auto.
      * destruct (Nat.eq_dec a id) as [->|Hne].
        -- left. destruct (guard_of e id _ c Hs Hin) as (s & Hs' & Hg).
           exists (znlit s). split; [exact Hg|]. apply dead_znlit, Ks. exact Hs'.
        -- destruct (in_dec Nat.eq_dec a U') as [Hi|Hn].
           ++ right. left. destruct (guard_of e a _ c Hs Hin) as (s & Hs' & Hg). exists a, s.
              rewrite HS by exact Hne. auto.
           ++ right. right. left. exists a. rewrite HS, Hgrp by auto. auto.
      * destruct (Nat.eq_dec a id) as [->|Hne].
        -- left. rewrite Hv in Ha. injection Ha as <-. exists (znlit (S v)). split; [right; left; reflexivity|].
           apply dead_znlit. unfold dv'. replace st with false by (symmetry; apply sem_st_false; exact Hs).
           apply kill_dv_d.
        -- right. right. right. split; [congruence|]. exists a, w. rewrite HV by exact Hne. auto.
    + left. apply in_app_or in Hc'. destruct Hc' as [Hc'|[<-|[]]].
      * unfold retire_units in Hc'. fold os in Hc'. destruct os as [s|] eqn:Eos; [|destruct Hc'].
        destruct Hc' as [<-|[]]. exists (znlit s). split; [left; reflexivity|]. apply dead_znlit, Ks. reflexivity.
      * exists (zlit v). split; [left; reflexivity|]. apply dead_zlit; [exact Hpos|]. apply kill_dv_v.
Qed.

(* ---------------------------------------------------------------- re-encoding an attacker set (T5) *)
Lemma retire_dv_other dv os x : os <> Some x -> retire_dv dv os x = dv x.
Proof. unfold retire_dv. destruct os as [s|]; [|reflexivity]. intros H. apply updo_other. congruence. Qed.

Lemma cinv_reencode af e e' rest C C' N N' dv atk id sn :
  cinv af e (id :: rest) C N dv atk -> tables_ok L af e -> Inv af -> has af id = true ->
  e_sem e' = e_sem e ->
  (forall a, tbl_var (e_a2v e') a = tbl_var (e_a2v e) a) ->
  (forall a, a <> id -> tbl_var (e_a2s e') a = tbl_var (e_a2s e) a) ->
  tbl_var (e_a2s e') id = Some sn ->
  N < sn -> N <= N' -> (forall s, tbl_var (e_a2s e) id = Some s -> s <= N' /\ s <> sn) ->
  C' = C ++ retire_units (tbl_var (e_a2s e) id) ++ grp e' id (map fst (iter_attacks_to L af id)) ->
  cinv af e' rest C' N' (retire_dv dv (tbl_var (e_a2s e) id))
       (fun a => if Nat.eqb a id then map fst (iter_attacks_to L af id) else atk a).
Proof.
  intros Hc Ht Hinv Hlive Hsem HV HS HSid Hsn HN HsN HC.
  pose proof Hc as [H1 H2 H3 H4 H5 H6 H7].
  destruct (tables_distinct L af e Ht) as (D1 & D2 & D3 & D4 & D5 & _).
  set (os := tbl_var (e_a2s e) id) in *. set (bs := map fst (iter_attacks_to L af id)) in *.
  set (dv' := retire_dv dv os). set (atk' := fun a => if Nat.eqb a id then bs else atk a).
  assert (Hatk_id : atk' id = bs) by (unfold atk'; now rewrite Nat.eqb_refl).
  assert (Hatk_ne : forall a, a <> id -> atk' a = atk a).
  { intros a Ha. unfold atk'. apply Nat.eqb_neq in Ha. now rewrite Ha. }
  assert (K1 : forall x b, dv x = Some b -> dv' x = Some b).
  { intros x b E. unfold dv'. rewrite retire_dv_other; [exact E|]. intros E'.
    rewrite (H2 x) in E; [discriminate|]. right. right. eauto. }
  assert (Ks : forall s, os = Some s -> dv' s = Some false).
  { intros s E. unfold dv'. rewrite E. apply updo_same. }
  assert (Hav : forall a, avar e' a = avar e a) by (intros a; apply avar_eq, HV).
  assert (Hsv : forall a, a <> id -> svar e' a = svar e a) by (intros a Ha; apply svar_eq, HS, Ha).
  assert (Hgrp : forall a, a <> id -> grp e' a (atk' a) = grp e a (atk a)).
  { intros a Ha. rewrite Hatk_ne by exact Ha. apply grp_ext; auto. }
  assert (HCC : incl C C') by (rewrite HC; apply incl_appl, incl_refl).
  split.
  - intros x Hx. unfold dv', retire_dv in Hx. destruct os as [s|] eqn:Eos.
    + destruct (Nat.eq_dec x s) as [->|Hne]; [apply (HsN s eq_refl)|].
      rewrite updo_other in Hx by exact Hne. specialize (H1 x Hx). lia.
    + specialize (H1 x Hx). lia.
  - intros x Hx.
    assert (G : (live_var e x \/ x = sn) /\ os <> Some x).
    { destruct Hx as [(a & Ha)|[(Hs & a & w & Ha & ->)|(a & Ha)]].
      - rewrite HV in Ha. split; [left; left; eauto|]. intros E. exact (D3 _ _ _ _ Ha E eq_refl).
      - rewrite HV in Ha. rewrite Hsem in Hs. split; [left; right; left; split; [exact Hs|eauto]|].
        intros E. exact (D5 Hs _ _ _ _ Ha E eq_refl).
      - destruct (Nat.eq_dec a id) as [->|Hne].
        + rewrite HSid in Ha. injection Ha as <-. split; [right; reflexivity|].
          intros E. destruct (HsN _ E) as [_ Hd]. congruence.
        + rewrite HS in Ha by exact Hne. split; [left; right; right; eauto|].
          intros E. apply Hne. eapply D2; eassumption. }
    destruct G as [G1 G2]. unfold dv'. rewrite retire_dv_other by exact G2.
    destruct G1 as [G1| ->]; [apply H2, G1|eapply dv_fresh_none; eassumption].
  - intros a Ha Hn. destruct (Nat.eq_dec a id) as [->|Hne]; [congruence|].
    rewrite HS by exact Hne. apply H3; [exact Ha|]. intros [E|Hi]; [congruence|contradiction].
  - intros a Hs Hn b. destruct (Nat.eq_dec a id) as [->|Hne].
    + rewrite Hatk_id. apply (attackers_spec L af id b Hinv).
    + rewrite Hatk_ne by exact Hne. rewrite HS in Hs by exact Hne. apply H4; [exact Hs|].
      intros [E|Hi]; [congruence|contradiction].
  - intros a Hs Hn. destruct (Nat.eq_dec a id) as [->|Hne].
    + rewrite Hatk_id, HC. apply incl_appr, incl_appr, incl_refl.
    + rewrite Hgrp by exact Hne. rewrite HS in Hs by exact Hne. eapply incl_tran; [apply H5|exact HCC]; auto.
      intros [E|Hi]; [congruence|contradiction].
  - intros Hs a w Ha. rewrite HV in Ha. rewrite Hsem in Hs. apply HCC. eauto.
  - intros c Hc'. rewrite HC in Hc'. apply in_app_or in Hc'. destruct Hc' as [Hc'|Hc'].
    + destruct (H7 c Hc') as [Hd|[(a & s & Hs & Ha & Hin)|[(a & Hs & Ha & Hin)|(Hs & a & w & Ha & ->)]]].
      * left. eapply dead_clause_mono; [exact K1|exact Hd].
      * destruct (Nat.eq_dec a id) as [->|Hne].
        -- left. exists (znlit s). split; [exact Hin|]. apply dead_znlit, Ks. exact Hs.
        -- right. left. exists a, s. rewrite HS by exact Hne. destruct Ha as [E|Ha]; [congruence|]. auto.
      * assert (Hne : a <> id) by (intros ->; apply Ha; left; reflexivity).
        right. right. left. exists a. rewrite HS, Hgrp by exact Hne.
        split; [exact Hs|]. split; [|exact Hin]. intros Hi. apply Ha. right. exact Hi.
      * right. right. right. split; [congruence|]. exists a, w. rewrite HV. auto.
    + apply in_app_or in Hc'. destruct Hc' as [Hc'|Hc'].
      * left. unfold retire_units in Hc'. destruct os as [s|] eqn:Eos; [|destruct Hc'].
        destruct Hc' as [<-|[]]. exists (znlit s). split; [left; reflexivity|]. apply dead_znlit, Ks. reflexivity.
      * destruct (in_dec Nat.eq_dec id rest) as [Hi|Hn].
        -- right. left. exists id, sn. split; [exact HSid|]. split; [exact Hi|].
           apply grp_guard in Hc'. rewrite (svar_some e' id sn HSid) in Hc'. exact Hc'.
        -- right. right. left. exists id. rewrite Hatk_id. split; [congruence|]. auto.
Qed.

(* ---------------------------------------------------------------- between two calls *)
Lemma cinv_clause_inv af e C N dv atk :
  cinv af e [] C N dv atk -> tables_ok L af e -> clause_inv L af e C N.
Proof.
  intros [H1 H2 H3 H4 H5 H6 H7] Ht. exists dv, atk.
  assert (Hsl : forall a, tbl_var (e_a2s e) a <> None -> has af a = true).
  { intros a Ha. apply (t_live L af e Ht), (t_sel_live L af e Ht), Ha. }
  split; [exact H1|]. split; [exact H2|]. split; [intros a Ha; apply H3; auto|]. split.
  - intros a Ha. assert (Hs : tbl_var (e_a2s e) a <> None) by (apply H3; auto).
    split; [apply H4; auto|]. unfold group.
    destruct (sem_st (e_sem e)) eqn:Est.
    + apply sem_st_true in Est. rewrite Est. apply H5; auto.
    + apply sem_st_false in Est.
      assert (Hb : In [znlit (avar e a); znlit (S (avar e a))] C).
      { destruct (tbl_var (e_a2v e) a) as [v|] eqn:Ev.
        - rewrite (avar_some e a v Ev). eapply H6; eassumption.
        - exfalso. apply (proj1 (t_live L af e Ht a) Ha). exact Ev. }
      assert (Hg : incl (grp e a (atk a)) C) by (apply H5; auto).
      destruct (e_sem e); try congruence; intros c [<-|Hc]; auto.
  - intros c Hc. destruct (H7 c Hc) as [Hd|[(a & s & Hs & [] & Hin)|[(a & Hs & Ha & Hin)|(Hs & a & w & Ha & ->)]]].
    + left. exact Hd.
    + right. exists a. split; [apply Hsl, Hs|]. unfold group. destruct (e_sem e); [right|idtac|right]; exact Hin.
    + right. exists a. split; [apply (t_live L af e Ht); congruence|].
      unfold group. rewrite (avar_some e a w Ha). destruct (e_sem e); try congruence; left; reflexivity.
Qed.

End DynInv.
