(* The clause-set invariant of the standard (selector based) dynamic encoder over histories: in every
   state reachable with the SAT program state threaded (DynFunDefs.vreach), the clauses of the SAT
   session are the template groups of the live arguments for their CURRENT attacker sets under their
   CURRENT selectors, plus dead clauses (DynFunDefs.clause_inv).
   Part 0: the session as seen through the monad.   Part 1: the invariant with a set U of arguments
   whose re-encoding is pending (the deferred re-encoding of a replay), pure transformations.
   Part 2: the encoder operations.   Part 3: update_encoding.   Part 4: reachable states. *)
From Crusta Require Import Model.Dynamic Proofs.ProgLaws Proofs.StoreBase Proofs.StoreProofs Proofs.EncBase
  Proofs.SolverBasics Proofs.DynDefs Proofs.DynBase Proofs.DynProofs Proofs.DynEnc Proofs.DynSafe Proofs.DynStore
  Proofs.DynFunDefs.
From Coq Require Import Lia ZifyBool.

(* ================================================================ Part 0 *)
Definition se_cl (se : session) : cnf := rev (rclauses se).
Definition sbounded (se : session) : Prop := bounded (rclauses se) (maxvar se).
Notation nv := session_n_vars.
Definition sess_adds (se : session) (cs : cnf) : session := fold_left sess_add cs se.

Lemma se_cl_add se c : se_cl (sess_add se c) = se_cl se ++ [c].
Proof. reflexivity. Qed.
Lemma se_cl_adds cs : forall se, se_cl (sess_adds se cs) = se_cl se ++ cs.
Proof.
  induction cs as [|c r IH]; intros se; cbn [sess_adds fold_left]; [now rewrite app_nil_r|].
  change (fold_left sess_add r (sess_add se c)) with (sess_adds (sess_add se c) r).
  rewrite IH, se_cl_add, <- app_assoc. reflexivity.
Qed.
Lemma sbounded_add se c : sbounded se -> sbounded (sess_add se c).
Proof.
  intros H c' l [<-|Hc] Hl; cbn.
  - pose proof (clause_max_ge _ _ Hl). lia.
  - specialize (H c' l Hc Hl). lia.
Qed.
Lemma sbounded_adds cs : forall se, sbounded se -> sbounded (sess_adds se cs).
Proof.
  induction cs as [|c r IH]; intros se H; cbn [sess_adds fold_left]; [exact H|].
  apply IH, sbounded_add, H.
Qed.
Lemma nv_add se c : nv se <= nv (sess_add se c) /\ clause_max c <= nv (sess_add se c).
Proof. unfold session_n_vars, sess_add. cbn [maxvar reserved]. lia. Qed.
Lemma nv_adds cs : forall se,
  nv se <= nv (sess_adds se cs) /\ forall c, In c cs -> clause_max c <= nv (sess_adds se cs).
Proof.
  induction cs as [|c r IH]; intros se; cbn [sess_adds fold_left]; [split; [lia|intros c []]|].
  destruct (IH (sess_add se c)) as [H1 H2]. destruct (nv_add se c) as [H3 H4].
  unfold sess_adds in *. split; [lia|]. intros c' [<-|Hc]; [lia|auto].
Qed.
Lemma sbounded_lit se c l : sbounded se -> In c (se_cl se) -> In l c -> lit_var l <= nv se.
Proof.
  intros H Hc Hl. unfold se_cl in Hc. apply in_rev in Hc. specialize (H c l Hc Hl).
  unfold session_n_vars. lia.
Qed.
Lemma clause_max_single l : clause_max [l] = lit_var l.
Proof. unfold clause_max. cbn [fold_right]. lia. Qed.

Lemma add_clause_sess c ps u ps' : add_clause c ps = Done u ps' -> sess ps' = sess_add (sess ps) c.
Proof. unfold add_clause. intros E. apply Done_inj in E. destruct E as [_ <-]. reflexivity. Qed.
Lemma n_vars_sess ps n ps' : n_vars ps = Done n ps' -> n = nv (sess ps) /\ sess ps' = sess ps.
Proof. unfold n_vars. intros E. apply Done_inj in E. destruct E as [<- <-]. auto. Qed.
Lemma add_clauses_sess cs : forall ps u ps', add_clauses cs ps = Done u ps' -> sess ps' = sess_adds (sess ps) cs.
Proof.
  induction cs as [|c r IH]; intros ps u ps' E; cbn [add_clauses] in E.
  - apply Done_inj in E. destruct E as [_ <-]. reflexivity.
  - apply bind_Done in E. destruct E as (u1 & ps1 & E1 & E2). apply add_clause_sess in E1.
    rewrite (IH _ _ _ E2), E1. reflexivity.
Qed.
Lemma ret_Done {A} (a b : A) ps ps' : ret a ps = Done b ps' -> a = b /\ ps = ps'.
Proof. unfold ret. apply Done_inj. Qed.
Lemma opt_m_Done {A} (o : option A) a ps ps' : opt_m o ps = Done a ps' -> o = Some a /\ ps' = ps.
Proof. destruct o; cbn [opt_m]; intros E; [apply ret_Done in E; destruct E as [-> ->]; auto|discriminate E]. Qed.
Lemma unwrap_ok_Done {A} (r : A * result) a ps ps' : unwrap_ok r ps = Done a ps' -> r = (a, ROk) /\ ps' = ps.
Proof.
  destruct r as [x [| |]]; cbn [unwrap_ok]; intros E; try discriminate E.
  apply ret_Done in E. destruct E as [-> ->]. auto.
Qed.

(* ================================================================ Part 1 *)
Definition updo (dv : nat -> option bool) (x : nat) (b : bool) : nat -> option bool :=
  fun y => if Nat.eqb y x then Some b else dv y.
Lemma updo_same dv x b : updo dv x b x = Some b.
Proof. unfold updo. now rewrite Nat.eqb_refl. Qed.
Lemma updo_other dv x b y : y <> x -> updo dv x b y = dv y.
Proof. unfold updo. intros H. apply Nat.eqb_neq in H. now rewrite H. Qed.

Lemma dead_znlit dv s : dv s = Some false -> dead_lit dv (znlit s).
Proof. intros H. unfold dead_lit. rewrite lit_var_znlit, H. now rewrite vtrue_znlit. Qed.
Lemma dead_zlit dv v : 0 < v -> dv v = Some true -> dead_lit dv (zlit v).
Proof. intros Hp H. unfold dead_lit. rewrite lit_var_zlit, H. now rewrite vtrue_zlit. Qed.
Lemma dead_clause_mono (dv dv' : nat -> option bool) c :
  (forall x b, dv x = Some b -> dv' x = Some b) -> dead_clause dv c -> dead_clause dv' c.
Proof.
  intros H (l & Hl & Hd). exists l. split; [exact Hl|]. unfold dead_lit in *.
  destruct (dv (lit_var l)) as [b|] eqn:E; [|destruct Hd]. rewrite (H _ _ E). exact Hd.
Qed.

Lemma grp_guard e a bs c : In c (grp e a bs) -> In (znlit (svar e a)) c.
Proof.
  unfold grp, co_clauses, st_clauses. rewrite !neg_zlit.
  destruct (e_sem e); rewrite ?in_app_iff, ?in_map_iff; cbn [In];
    intros H; decompose [or ex and] H; subst; cbn [In app]; auto; try contradiction.
Qed.

Lemma grp_ext e e' a bs :
  e_sem e' = e_sem e -> svar e' a = svar e a -> avar e' a = avar e a ->
  (forall b, In b bs -> avar e' b = avar e b) -> grp e' a bs = grp e a bs.
Proof.
  intros Hs Hsv Hav Hbs. unfold grp. rewrite Hs, Hsv, Hav, (map_ext_in _ _ _ Hbs). reflexivity.
Qed.

Lemma avar_eq e e' a : tbl_var (e_a2v e') a = tbl_var (e_a2v e) a -> avar e' a = avar e a.
Proof. unfold avar. now intros ->. Qed.
Lemma svar_eq e e' a : tbl_var (e_a2s e') a = tbl_var (e_a2s e) a -> svar e' a = svar e a.
Proof. unfold svar. now intros ->. Qed.
Lemma avar_some e a v : tbl_var (e_a2v e) a = Some v -> avar e a = v.
Proof. unfold avar. now intros ->. Qed.
Lemma svar_some e a v : tbl_var (e_a2s e) a = Some v -> svar e a = v.
Proof. unfold svar. now intros ->. Qed.

Definition sem_st (s : dsem) : bool := match s with DST => true | _ => false end.
Lemma sem_st_true s : sem_st s = true <-> s = DST.
Proof. destruct s; cbn; split; congruence. Qed.
Lemma sem_st_false s : sem_st s = false <-> s <> DST.
Proof. destruct s; cbn; split; congruence. Qed.

Section DynInv.
Variable L : Type.
Variable leqb : L -> L -> bool.
Hypothesis leqb_spec : forall x y, leqb x y = true <-> x = y.

Notation fw := (fw L).
Notation Inv := (Inv L).
Notation get_argument := (get_argument L leqb).
Notation iter_attacks := (iter_attacks L).
Notation has := (has_argument_with_id L).
Notation tabs := (DynProofs.tabs L).

Definition ok_clause (e : denc) (U : list nat) (dv : nat -> option bool) (atk : nat -> list nat) (c : clause) : Prop :=
  dead_clause dv c \/
  (exists a s, tbl_var (e_a2s e) a = Some s /\ In a U /\ In (znlit s) c) \/
  (exists a, tbl_var (e_a2s e) a <> None /\ ~ In a U /\ In c (grp e a (atk a))) \/
  (e_sem e <> DST /\ exists a v, tbl_var (e_a2v e) a = Some v /\ c = [znlit v; znlit (S v)]).

(* the invariant during a replay: U = the arguments whose attacker set must still be re-encoded *)
Record cinv (af : fw) (e : denc) (U : list nat) (C : cnf) (N : nat)
            (dv : nat -> option bool) (atk : nat -> list nat) : Prop := {
  ci_le : forall x, dv x <> None -> x <= N;
  ci_live : forall x, live_var e x -> dv x = None;
  ci_sel : forall a, has af a = true -> ~ In a U -> tbl_var (e_a2s e) a <> None;
  ci_atk : forall a, tbl_var (e_a2s e) a <> None -> ~ In a U ->
           forall b, In b (atk a) <-> In (b, a) (iter_attacks af);
  ci_grp : forall a, tbl_var (e_a2s e) a <> None -> ~ In a U -> incl (grp e a (atk a)) C;
  ci_bin : e_sem e <> DST -> forall a v, tbl_var (e_a2v e) a = Some v -> In [znlit v; znlit (S v)] C;
  ci_cls : forall c, In c C -> ok_clause e U dv atk c }.

Lemma guard_of e a bs c : tbl_var (e_a2s e) a <> None -> In c (grp e a bs) ->
  exists s, tbl_var (e_a2s e) a = Some s /\ In (znlit s) c.
Proof.
  intros Hs Hc. apply grp_guard in Hc. unfold svar in Hc.
  destruct (tbl_var (e_a2s e) a) as [s|]; [|congruence]. exists s. auto.
Qed.

Lemma cinv_mono af e U U' C N N' dv atk :
  cinv af e U C N dv atk -> incl U U' -> N <= N' -> cinv af e U' C N' dv atk.
Proof.
  intros [H1 H2 H3 H4 H5 H6 H7] HU HN. split; auto.
  - intros x Hx. specialize (H1 x Hx). lia.
  - intros c Hc. destruct (H7 c Hc) as [Hd|[(a & s & Hs & Ha & Hin)|[(a & Hs & Ha & Hin)|H]]].
    + left. exact Hd.
    + right. left. exists a, s. auto.
    + destruct (in_dec Nat.eq_dec a U') as [Hi|Hn].
      * right. left. destruct (guard_of e a _ c Hs Hin) as (s & Hs' & Hg). exists a, s. auto.
      * right. right. left. exists a. auto.
    + right. right. right. exact H.
Qed.

(* U only matters on the arguments that are live or have a selector *)
Lemma cinv_U_equiv af e U U' C N dv atk :
  cinv af e U C N dv atk ->
  (forall a, tbl_var (e_a2s e) a <> None \/ has af a = true -> (In a U <-> In a U')) ->
  cinv af e U' C N dv atk.
Proof.
  intros [H1 H2 H3 H4 H5 H6 H7] HU. split; auto.
  - intros a Ha Hn. apply H3; [exact Ha|]. intros Hi. apply Hn, HU; auto.
  - intros a Hs Hn. apply H4; [exact Hs|]. intros Hi. apply Hn, HU; auto.
  - intros a Hs Hn. apply H5; [exact Hs|]. intros Hi. apply Hn, HU; auto.
  - intros c Hc. destruct (H7 c Hc) as [Hd|[(a & s & Hs & Ha & Hin)|[(a & Hs & Ha & Hin)|H]]].
    + left. exact Hd.
    + right. left. exists a, s. split; [exact Hs|]. split; [|exact Hin]. apply HU; [left; congruence|exact Ha].
    + right. right. left. exists a. split; [exact Hs|]. split; [|exact Hin]. intros Hi. apply Ha, HU; auto.
    + right. right. right. exact H.
Qed.

Lemma cinv_add af e U C N dv atk cs :
  cinv af e U C N dv atk -> (forall c, In c cs -> ok_clause e U dv atk c) -> cinv af e U (C ++ cs) N dv atk.
Proof.
  intros [H1 H2 H3 H4 H5 H6 H7] Hcs. split; auto.
  - intros a Hs Hn. apply incl_appl. auto.
  - intros Hsem a v Hv. apply in_or_app. left. eauto.
  - intros c Hc. apply in_app_or in Hc. destruct Hc; auto.
Qed.

(* the framework changes, the tables do not: only the arguments outside U matter *)
Lemma cinv_fw af af' e U C N dv atk :
  cinv af e U C N dv atk -> (forall a, has af' a = has af a) ->
  (forall a b, ~ In a U -> (In (b, a) (iter_attacks af') <-> In (b, a) (iter_attacks af))) ->
  cinv af' e U C N dv atk.
Proof.
  intros [H1 H2 H3 H4 H5 H6 H7] Hh Hr. split; auto.
  - intros a Ha. rewrite Hh in Ha. auto.
  - intros a Hs Hn b. rewrite (Hr a b Hn). auto.
Qed.

(* ---------------------------------------------------------------- a new argument (T1) *)
Lemma dv_fresh_none af e U C N dv atk x : cinv af e U C N dv atk -> N < x -> dv x = None.
Proof.
  intros Hc Hx. destruct (dv x) eqn:E; [|reflexivity].
  assert (x <= N) by (apply (ci_le _ _ _ _ _ _ _ Hc); congruence). lia.
Qed.

Lemma cinv_push af af' e e' U U' C C' N N' dv atk n v :
  cinv af e U C N dv atk -> Inv af ->
  (forall a, has af a = true -> a < n) ->
  (forall a x, tbl_var (e_a2v e) a = Some x -> a < n) ->
  (forall a x, tbl_var (e_a2s e) a = Some x -> a < n) ->
  e_sem e' = e_sem e ->
  (forall a, a <> n -> tbl_var (e_a2v e') a = tbl_var (e_a2v e) a) ->
  tbl_var (e_a2v e') n = Some v ->
  (forall a, tbl_var (e_a2s e') a = tbl_var (e_a2s e) a) ->
  N < v -> N <= N' ->
  C' = C ++ (if sem_st (e_sem e) then [] else [[znlit v; znlit (S v)]]) ->
  (forall a, has af' a = true <-> a = n \/ has af a = true) ->
  iter_attacks af' = iter_attacks af ->
  In n U' -> incl U U' ->
  cinv af' e' U' C' N' dv atk.
Proof.
  intros Hc Hinv Hlive HVlt HSlt Hsem HV HVn HS Hv HN HC Hhas Hrel HnU HUU.
  pose proof Hc as [H1 H2 H3 H4 H5 H6 H7].
  assert (Hav : forall a, a <> n -> avar e' a = avar e a) by (intros a Ha; apply avar_eq, HV, Ha).
  assert (Hsv : forall a, svar e' a = svar e a) by (intros a; apply svar_eq, HS).
  assert (Hgrp : forall a, tbl_var (e_a2s e) a <> None -> ~ In a U -> grp e' a (atk a) = grp e a (atk a)).
  { intros a Hs Hn. assert (Han : a < n).
    { destruct (tbl_var (e_a2s e) a) eqn:E; [eapply HSlt; eassumption|congruence]. }
    apply grp_ext; auto.
    - apply Hav. lia.
    - intros b Hb. apply Hav. apply (H4 a Hs Hn) in Hb.
      destruct (attack_live L af b a Hinv Hb) as [Hb' _]. specialize (Hlive b Hb'). lia. }
  assert (HCC : incl C C') by (rewrite HC; apply incl_appl, incl_refl).
  split.
  - intros x Hx. specialize (H1 x Hx). lia.
  - intros x [(a & Ha)|[(Hs & a & w & Ha & ->)|(a & Ha)]].
    + destruct (Nat.eq_dec a n) as [->|Hne].
      * rewrite HVn in Ha. injection Ha as <-. eapply dv_fresh_none; eassumption.
      * rewrite HV in Ha by exact Hne. apply H2. left. eauto.
    + destruct (Nat.eq_dec a n) as [->|Hne].
      * rewrite HVn in Ha. injection Ha as <-. eapply dv_fresh_none; [eassumption|lia].
      * rewrite HV in Ha by exact Hne. apply H2. right. left. split; [congruence|eauto].
    + rewrite HS in Ha. apply H2. right. right. eauto.
  - intros a Ha Hn. rewrite HS. apply Hhas in Ha. destruct Ha as [->|Ha]; [contradiction|]. apply H3; auto.
  - intros a Hs Hn b. rewrite HS in Hs. rewrite Hrel. apply H4; auto.
  - intros a Hs Hn. rewrite HS in Hs. rewrite Hgrp by auto. eapply incl_tran; [apply H5; auto|exact HCC].
  - intros Hs a w Ha. rewrite Hsem in Hs. destruct (Nat.eq_dec a n) as [->|Hne].
    + rewrite HVn in Ha. injection Ha as <-. rewrite HC. apply in_or_app. right.
      rewrite (proj2 (sem_st_false (e_sem e)) Hs). left; reflexivity.
    + rewrite HV in Ha by exact Hne. apply HCC. eauto.
  - intros c Hc'. rewrite HC in Hc'. apply in_app_or in Hc'. destruct Hc' as [Hc'|Hc'].
    + destruct (H7 c Hc') as [Hd|[(a & s & Hs & Ha & Hin)|[(a & Hs & Ha & Hin)|(Hs & a & w & Ha & ->)]]].
      * left. exact Hd.
      * right. left. exists a, s. rewrite HS. auto.
      * destruct (in_dec Nat.eq_dec a U') as [Hi|Hn].
        -- right. left. destruct (guard_of e a _ c Hs Hin) as (s & Hs' & Hg). exists a, s. rewrite HS. auto.
        -- right. right. left. exists a. rewrite HS, Hgrp by auto. auto.
      * right. right. right. split; [congruence|]. exists a, w. split; [|reflexivity].
        rewrite HV; [exact Ha|]. specialize (HVlt a w Ha). lia.
    + right. right. right. destruct (sem_st (e_sem e)) eqn:Es; cbn [In] in Hc'; [contradiction|].
      apply sem_st_false in Es. destruct Hc' as [<-|[]]. split; [congruence|]. exists n, v. auto.
Qed.

(* ---------------------------------------------------------------- removing an argument (T2) *)

Definition retire_dv (dv : nat -> option bool) (os : option nat) : nat -> option bool :=
  match os with Some s => updo dv s false | None => dv end.
Definition retire_units (os : option nat) : cnf := match os with Some s => [[znlit s]] | None => [] end.
Definition kill_dv (dv : nat -> option bool) (st : bool) (os : option nat) (v : nat) : nat -> option bool :=
  let d2 := updo (retire_dv dv os) v true in if st then d2 else updo d2 (S v) false.

Lemma kill_dv_other dv st os v x :
  x <> v -> os <> Some x -> (st = false -> x <> S v) -> kill_dv dv st os v x = dv x.
Proof.
  intros H1 H2 H3. unfold kill_dv, retire_dv. destruct st.
  - rewrite updo_other by exact H1. destruct os as [s|]; [|reflexivity]. apply updo_other. congruence.
  - rewrite updo_other by (apply H3; reflexivity). rewrite updo_other by exact H1.
    destruct os as [s|]; [|reflexivity]. apply updo_other. congruence.
Qed.
Lemma kill_dv_v dv st os v : kill_dv dv st os v v = Some true.
Proof. unfold kill_dv. destruct st; [apply updo_same|]. rewrite updo_other by lia. apply updo_same. Qed.
Lemma kill_dv_d dv os v : kill_dv dv false os v (S v) = Some false.
Proof. unfold kill_dv. apply updo_same. Qed.
Lemma kill_dv_s dv st v s : s <> v -> (st = false -> s <> S v) -> kill_dv dv st (Some s) v s = Some false.
Proof.
  intros H1 H2. unfold kill_dv, retire_dv. destruct st.
  - rewrite updo_other by exact H1. apply updo_same.
  - rewrite updo_other by (apply H2; reflexivity). rewrite updo_other by exact H1. apply updo_same.
Qed.
Lemma kill_dv_cases dv st os v x : kill_dv dv st os v x <> None ->
  dv x <> None \/ x = v \/ os = Some x \/ (st = false /\ x = S v).
Proof.
  intros H. destruct (Nat.eq_dec x v) as [->|H1]; [auto|].
  destruct os as [s|].
  - destruct (Nat.eq_dec x s) as [->|H2]; [auto|]. destruct st.
    + rewrite kill_dv_other in H; auto; congruence.
    + destruct (Nat.eq_dec x (S v)) as [->|H3]; [auto|]. rewrite kill_dv_other in H; auto; congruence.
  - destruct st.
    + rewrite kill_dv_other in H; auto; congruence.
    + destruct (Nat.eq_dec x (S v)) as [->|H3]; [auto 6|]. rewrite kill_dv_other in H; auto; congruence.
Qed.

Lemma cinv_kill af af' e e' U U' C C' N N' dv atk id v :
  cinv af e U C N dv atk -> tables_ok L af e -> 0 < v ->
  tbl_var (e_a2v e) id = Some v ->
  e_sem e' = e_sem e ->
  (forall a, a <> id -> tbl_var (e_a2v e') a = tbl_var (e_a2v e) a) ->
  tbl_var (e_a2v e') id = None ->
  (forall a, a <> id -> tbl_var (e_a2s e') a = tbl_var (e_a2s e) a) ->
  tbl_var (e_a2s e') id = None ->
  N <= N' -> v <= N' -> (forall s, tbl_var (e_a2s e) id = Some s -> s <= N') ->
  (e_sem e <> DST -> S v <= N') ->
  C' = C ++ retire_units (tbl_var (e_a2s e) id) ++ [[zlit v]] ->
  (forall a, has af' a = true <-> a <> id /\ has af a = true) ->
  iter_attacks af' = filter (fun p => negb (Nat.eqb (fst p) id) && negb (Nat.eqb (snd p) id)) (iter_attacks af) ->
  incl U U' ->
  (forall a, In (id, a) (iter_attacks af) -> a <> id -> In a U') ->
  cinv af' e' U' C' N' (kill_dv dv (sem_st (e_sem e)) (tbl_var (e_a2s e) id) v) atk.
Proof.
  intros Hc Ht Hpos Hv Hsem HV HVid HS HSid HN HvN HsN HdN HC Hhas Hrel HUU Htg.
  pose proof Hc as [H1 H2 H3 H4 H5 H6 H7].
  destruct (tables_distinct L af e Ht) as (D1 & D2 & D3 & D4 & D5 & _).
  set (st := sem_st (e_sem e)). set (os := tbl_var (e_a2s e) id).
  set (dv' := kill_dv dv st os v).
  assert (Hst : st = false -> e_sem e <> DST) by (intros E; apply sem_st_false; exact E).
  assert (Hlv : live_var e v) by (left; eauto).
  assert (Hld : st = false -> live_var e (S v)) by (intros E; right; left; split; [auto|]; eauto).
  assert (Hls : forall s, os = Some s -> live_var e s) by (intros s E; right; right; eauto).
  (* values that were forced stay forced *)
  assert (K1 : forall x b, dv x = Some b -> dv' x = Some b).
  { intros x b E. unfold dv'. rewrite kill_dv_other; [exact E| | |].
    - intros ->. rewrite (H2 v Hlv) in E. discriminate.
    - intros E'. rewrite (H2 x (Hls x E')) in E. discriminate.
    - intros E' ->. rewrite (H2 _ (Hld E')) in E. discriminate. }
  assert (Ks : forall s, os = Some s -> dv' s = Some false).
  { intros s E. unfold dv'. rewrite E. apply kill_dv_s.
    - intros ->. exact (D3 _ _ _ _ Hv E eq_refl).
    - intros E' ->. exact (D5 (Hst E') _ _ _ _ Hv E eq_refl). }
  assert (Hav : forall a, a <> id -> avar e' a = avar e a) by (intros a Ha; apply avar_eq, HV, Ha).
  assert (Hsv : forall a, a <> id -> svar e' a = svar e a) by (intros a Ha; apply svar_eq, HS, Ha).
  assert (Hgrp : forall a, a <> id -> tbl_var (e_a2s e) a <> None -> ~ In a U -> ~ In a U' ->
                   grp e' a (atk a) = grp e a (atk a)).
  { intros a Ha Hs Hn Hn'. apply grp_ext; auto. intros b Hb. apply Hav. intros ->.
    apply (H4 a Hs Hn) in Hb. apply Hn'. apply Htg; assumption. }
  assert (HCC : incl C C') by (rewrite HC; apply incl_appl, incl_refl).
  split.
  - intros x Hx. destruct (kill_dv_cases _ _ _ _ _ Hx) as [Hd|[->|[Hs|[Hs ->]]]].
    + specialize (H1 x Hd). lia.
    + exact HvN.
    + apply HsN. exact Hs.
    + apply HdN, Hst, Hs.
  - intros x Hx.
    assert (G : live_var e x /\ x <> v /\ os <> Some x /\ (st = false -> x <> S v)).
    { destruct Hx as [(a & Ha)|[(Hs & a & w & Ha & ->)|(a & Ha)]].
      - assert (Hne : a <> id) by (intros ->; congruence). rewrite HV in Ha by exact Hne.
        split; [left; eauto|]. split; [intros ->; apply Hne; eapply D1; eassumption|].
        split; [intros E; exact (D3 _ _ _ _ Ha E eq_refl)|].
        intros E ->. exact (D4 (Hst E) _ _ _ _ Hv Ha eq_refl).
      - assert (Hne : a <> id) by (intros ->; congruence). rewrite HV in Ha by exact Hne.
        rewrite Hsem in Hs.
        split; [right; left; split; [exact Hs|eauto]|].
        split; [intros E; exact (D4 Hs _ _ _ _ Ha Hv E)|].
        split; [intros E; exact (D5 Hs _ _ _ _ Ha E eq_refl)|].
        intros _ E. injection E as ->. apply Hne. eapply D1; eassumption.
      - assert (Hne : a <> id) by (intros ->; congruence). rewrite HS in Ha by exact Hne.
        split; [right; right; eauto|]. split; [intros ->; exact (D3 _ _ _ _ Hv Ha eq_refl)|].
        split; [intros E; apply Hne; eapply D2; eassumption|].
        intros E ->. exact (D5 (Hst E) _ _ _ _ Hv Ha eq_refl). }
    destruct G as (G1 & G2 & G3 & G4). unfold dv'. rewrite kill_dv_other by assumption. apply H2, G1.
  - intros a Ha Hn. apply Hhas in Ha. destruct Ha as [Hne Ha]. rewrite HS by exact Hne. apply H3; auto.
  - intros a Hs Hn b. assert (Hne : a <> id) by (intros ->; congruence). rewrite HS in Hs by exact Hne.
    assert (HnU : ~ In a U) by auto. rewrite (H4 a Hs HnU b), Hrel, filter_In. cbn [fst snd].
    split; [|tauto]. intros Hin. split; [exact Hin|]. apply andb_true_iff. split; apply negb_true_iff, Nat.eqb_neq.
    + intros ->. apply Hn, Htg; assumption.
    + exact Hne.
  - intros a Hs Hn. assert (Hne : a <> id) by (intros ->; congruence). rewrite HS in Hs by exact Hne.
    rewrite Hgrp by auto. eapply incl_tran; [apply H5; auto|exact HCC].
  - intros Hs a w Ha. assert (Hne : a <> id) by (intros ->; congruence). rewrite HV in Ha by exact Hne.
    rewrite Hsem in Hs. apply HCC. eauto.
  - intros c Hc'. rewrite HC in Hc'. apply in_app_or in Hc'. destruct Hc' as [Hc'|Hc'].
    + destruct (H7 c Hc') as [Hd|[(a & s & Hs & Ha & Hin)|[(a & Hs & Ha & Hin)|(Hs & a & w & Ha & ->)]]].
      * left. eapply dead_clause_mono; [exact K1|exact Hd].
      * destruct (Nat.eq_dec a id) as [->|Hne].
        -- left. exists (znlit s). split; [exact Hin|]. apply dead_znlit, Ks. exact Hs.
        -- right. left. exists a, s. rewrite HS by exact Hne. auto.
      * destruct (Nat.eq_dec a id) as [->|Hne].
        -- left. destruct (guard_of e id _ c Hs Hin) as (s & Hs' & Hg).
           exists (znlit s). split; [exact Hg|]. apply dead_znlit, Ks. exact Hs'.
        -- destruct (in_dec Nat.eq_dec a U') as [Hi|Hn].
           ++ right. left. destruct (guard_of e a _ c Hs Hin) as (s & Hs' & Hg). exists a, s.
              rewrite HS by exact Hne. auto.
           ++ right. right. left. exists a. rewrite HS, Hgrp by auto. auto.
      * destruct (Nat.eq_dec a id) as [->|Hne].
        -- left. rewrite Hv in Ha. injection Ha as <-. exists (znlit (S v)). split; [right; left; reflexivity|].
           apply dead_znlit. unfold dv'. replace st with false by (symmetry; apply sem_st_false; exact Hs).
           apply kill_dv_d.
        -- right. right. right. split; [congruence|]. exists a, w. rewrite HV by exact Hne. auto.
    + left. apply in_app_or in Hc'. destruct Hc' as [Hc'|[<-|[]]].
      * unfold retire_units in Hc'. fold os in Hc'. destruct os as [s|] eqn:Eos; [|destruct Hc'].
        destruct Hc' as [<-|[]]. exists (znlit s). split; [left; reflexivity|]. apply dead_znlit, Ks. reflexivity.
      * exists (zlit v). split; [left; reflexivity|]. apply dead_zlit; [exact Hpos|]. apply kill_dv_v.
Qed.

(* ---------------------------------------------------------------- re-encoding an attacker set (T5) *)
Lemma retire_dv_other dv os x : os <> Some x -> retire_dv dv os x = dv x.
Proof. unfold retire_dv. destruct os as [s|]; [|reflexivity]. intros H. apply updo_other. congruence. Qed.

Lemma cinv_reencode af e e' rest C C' N N' dv atk id sn :
  cinv af e (id :: rest) C N dv atk -> tables_ok L af e -> Inv af -> has af id = true ->
  e_sem e' = e_sem e ->
  (forall a, tbl_var (e_a2v e') a = tbl_var (e_a2v e) a) ->
  (forall a, a <> id -> tbl_var (e_a2s e') a = tbl_var (e_a2s e) a) ->
  tbl_var (e_a2s e') id = Some sn ->
  N < sn -> N <= N' -> (forall s, tbl_var (e_a2s e) id = Some s -> s <= N' /\ s <> sn) ->
  C' = C ++ retire_units (tbl_var (e_a2s e) id) ++ grp e' id (map fst (iter_attacks_to L af id)) ->
  cinv af e' rest C' N' (retire_dv dv (tbl_var (e_a2s e) id))
       (fun a => if Nat.eqb a id then map fst (iter_attacks_to L af id) else atk a).
Proof.
  intros Hc Ht Hinv Hlive Hsem HV HS HSid Hsn HN HsN HC.
  pose proof Hc as [H1 H2 H3 H4 H5 H6 H7].
  destruct (tables_distinct L af e Ht) as (D1 & D2 & D3 & D4 & D5 & _).
  set (os := tbl_var (e_a2s e) id) in *. set (bs := map fst (iter_attacks_to L af id)) in *.
  set (dv' := retire_dv dv os). set (atk' := fun a => if Nat.eqb a id then bs else atk a).
  assert (Hatk_id : atk' id = bs) by (unfold atk'; now rewrite Nat.eqb_refl).
  assert (Hatk_ne : forall a, a <> id -> atk' a = atk a).
  { intros a Ha. unfold atk'. apply Nat.eqb_neq in Ha. now rewrite Ha. }
  assert (K1 : forall x b, dv x = Some b -> dv' x = Some b).
  { intros x b E. unfold dv'. rewrite retire_dv_other; [exact E|]. intros E'.
    rewrite (H2 x) in E; [discriminate|]. right. right. eauto. }
  assert (Ks : forall s, os = Some s -> dv' s = Some false).
  { intros s E. unfold dv'. rewrite E. apply updo_same. }
  assert (Hav : forall a, avar e' a = avar e a) by (intros a; apply avar_eq, HV).
  assert (Hsv : forall a, a <> id -> svar e' a = svar e a) by (intros a Ha; apply svar_eq, HS, Ha).
  assert (Hgrp : forall a, a <> id -> grp e' a (atk' a) = grp e a (atk a)).
  { intros a Ha. rewrite Hatk_ne by exact Ha. apply grp_ext; auto. }
  assert (HCC : incl C C') by (rewrite HC; apply incl_appl, incl_refl).
  split.
  - intros x Hx. unfold dv', retire_dv in Hx. destruct os as [s|] eqn:Eos.
    + destruct (Nat.eq_dec x s) as [->|Hne]; [apply (HsN s eq_refl)|].
      rewrite updo_other in Hx by exact Hne. specialize (H1 x Hx). lia.
    + specialize (H1 x Hx). lia.
  - intros x Hx.
    assert (G : (live_var e x \/ x = sn) /\ os <> Some x).
    { destruct Hx as [(a & Ha)|[(Hs & a & w & Ha & ->)|(a & Ha)]].
      - rewrite HV in Ha. split; [left; left; eauto|]. intros E. exact (D3 _ _ _ _ Ha E eq_refl).
      - rewrite HV in Ha. rewrite Hsem in Hs. split; [left; right; left; split; [exact Hs|eauto]|].
        intros E. exact (D5 Hs _ _ _ _ Ha E eq_refl).
      - destruct (Nat.eq_dec a id) as [->|Hne].
        + rewrite HSid in Ha. injection Ha as <-. split; [right; reflexivity|].
          intros E. destruct (HsN _ E) as [_ Hd]. congruence.
        + rewrite HS in Ha by exact Hne. split; [left; right; right; eauto|].
          intros E. apply Hne. eapply D2; eassumption. }
    destruct G as [G1 G2]. unfold dv'. rewrite retire_dv_other by exact G2.
    destruct G1 as [G1| ->]; [apply H2, G1|eapply dv_fresh_none; eassumption].
  - intros a Ha Hn. destruct (Nat.eq_dec a id) as [->|Hne]; [congruence|].
    rewrite HS by exact Hne. apply H3; [exact Ha|]. intros [E|Hi]; [congruence|contradiction].
  - intros a Hs Hn b. destruct (Nat.eq_dec a id) as [->|Hne].
    + rewrite Hatk_id. apply (attackers_spec L af id b Hinv).
    + rewrite Hatk_ne by exact Hne. rewrite HS in Hs by exact Hne. apply H4; [exact Hs|].
      intros [E|Hi]; [congruence|contradiction].
  - intros a Hs Hn. destruct (Nat.eq_dec a id) as [->|Hne].
    + rewrite Hatk_id, HC. apply incl_appr, incl_appr, incl_refl.
    + rewrite Hgrp by exact Hne. rewrite HS in Hs by exact Hne. eapply incl_tran; [apply H5|exact HCC]; auto.
      intros [E|Hi]; [congruence|contradiction].
  - intros Hs a w Ha. rewrite HV in Ha. rewrite Hsem in Hs. apply HCC. eauto.
  - intros c Hc'. rewrite HC in Hc'. apply in_app_or in Hc'. destruct Hc' as [Hc'|Hc'].
    + destruct (H7 c Hc') as [Hd|[(a & s & Hs & Ha & Hin)|[(a & Hs & Ha & Hin)|(Hs & a & w & Ha & ->)]]].
      * left. eapply dead_clause_mono; [exact K1|exact Hd].
      * destruct (Nat.eq_dec a id) as [->|Hne].
        -- left. exists (znlit s). split; [exact Hin|]. apply dead_znlit, Ks. exact Hs.
        -- right. left. exists a, s. rewrite HS by exact Hne. destruct Ha as [E|Ha]; [congruence|]. auto.
      * assert (Hne : a <> id) by (intros ->; apply Ha; left; reflexivity).
        right. right. left. exists a. rewrite HS, Hgrp by exact Hne.
        split; [exact Hs|]. split; [|exact Hin]. intros Hi. apply Ha. right. exact Hi.
      * right. right. right. split; [congruence|]. exists a, w. rewrite HV. auto.
    + apply in_app_or in Hc'. destruct Hc' as [Hc'|Hc'].
      * left. unfold retire_units in Hc'. destruct os as [s|] eqn:Eos; [|destruct Hc'].
        destruct Hc' as [<-|[]]. exists (znlit s). split; [left; reflexivity|]. apply dead_znlit, Ks. reflexivity.
      * destruct (in_dec Nat.eq_dec id rest) as [Hi|Hn].
        -- right. left. exists id, sn. split; [exact HSid|]. split; [exact Hi|].
           apply grp_guard in Hc'. rewrite (svar_some e' id sn HSid) in Hc'. exact Hc'.
        -- right. right. left. exists id. rewrite Hatk_id. split; [congruence|]. auto.
Qed.

(* ---------------------------------------------------------------- between two calls *)
Lemma cinv_clause_inv af e C N dv atk :
  cinv af e [] C N dv atk -> tables_ok L af e -> clause_inv L af e C N.
Proof.
  intros [H1 H2 H3 H4 H5 H6 H7] Ht. exists dv, atk.
  assert (Hsl : forall a, tbl_var (e_a2s e) a <> None -> has af a = true).
  { intros a Ha. apply (t_live L af e Ht), (t_sel_live L af e Ht), Ha. }
  split; [exact H1|]. split; [exact H2|]. split; [intros a Ha; apply H3; auto|]. split.
  - intros a Ha. assert (Hs : tbl_var (e_a2s e) a <> None) by (apply H3; auto).
    split; [apply H4; auto|]. unfold group.
    destruct (sem_st (e_sem e)) eqn:Est.
    + apply sem_st_true in Est. rewrite Est. apply H5; auto.
    + apply sem_st_false in Est.
      assert (Hb : In [znlit (avar e a); znlit (S (avar e a))] C).
      { destruct (tbl_var (e_a2v e) a) as [v|] eqn:Ev.
        - rewrite (avar_some e a v Ev). eapply H6; eassumption.
        - exfalso. apply (proj1 (t_live L af e Ht a) Ha). exact Ev. }
      assert (Hg : incl (grp e a (atk a)) C) by (apply H5; auto).
      destruct (e_sem e); try congruence; intros c [<-|Hc]; auto.
  - intros c Hc. destruct (H7 c Hc) as [Hd|[(a & s & Hs & [] & Hin)|[(a & Hs & Ha & Hin)|(Hs & a & w & Ha & ->)]]].
    + left. exact Hd.
    + right. exists a. split; [apply Hsl, Hs|]. unfold group. destruct (e_sem e); [right|idtac|right]; exact Hin.
    + right. exists a. split; [apply (t_live L af e Ht); congruence|].
      unfold group. rewrite (avar_some e a w Ha). destruct (e_sem e); try congruence; left; reflexivity.
Qed.

(* ================================================================ Part 2 *)
(* ---- what each encoder operation does to the session *)
Lemma alloc_arg_vars_sess sm vars id ps vars' v ps' :
  alloc_arg_vars sm vars id ps = Done (vars', v) ps' ->
  sess ps' = if sem_st sm then sess ps else sess_add (sess ps) [znlit v; znlit (S v)].
Proof.
  unfold alloc_arg_vars. intros E. apply bind_Done in E. destruct E as ([vars1 v1] & ps1 & E1 & E2).
  destruct (new_solver_var_fresh _ _ _ _ _ _ E1) as [Hf1 Hs1].
  pose proof (new_solver_var_spec _ _ _ _ _ E1) as (A1 & A2 & A3 & A4). cbn [fst snd] in *.
  destruct sm; cbn [sem_st].
  2:{ apply ret_Done in E2. destruct E2 as [E2 <-]. apply pair_equal_spec in E2. destruct E2 as [_ <-]. exact Hs1. }
  all: apply bind_Done in E2; destruct E2 as ([vars2 d] & ps2 & E2 & E3);
    destruct (new_solver_var_run _ _ _ _ _ _ E2) as [R2 Hs2]; cbn [fst snd] in *;
    apply bind_Done in E3; destruct E3 as (u & ps3 & E3 & E4);
    apply add_clause_sess in E3; apply ret_Done in E4; destruct E4 as [E4 <-];
    apply pair_equal_spec in E4; destruct E4 as [_ <-];
    assert (Hd : d = S v1) by
      (unfold alloc_var in R2; apply pair_equal_spec in R2; destruct R2 as [_ R2];
       rewrite app_length, repeat_length in R2; rewrite Hs1 in R2; lia);
    subst d; rewrite E3, Hs2, Hs1; reflexivity.
Qed.

Lemma remove_selector_sess e s ps e' ps' :
  remove_selector e s ps = Done e' ps' -> sess ps' = sess_add (sess ps) [znlit s].
Proof.
  unfold remove_selector. destruct (Nat.ltb _ _); [|discriminate].
  intros E. apply bind_Done in E. destruct E as (u & ps1 & E1 & E2). apply add_clause_sess in E1.
  destruct (position _ _); [|discriminate E2]. apply ret_Done in E2. destruct E2 as [_ <-]. exact E1.
Qed.

Lemma update_attacks_to_off (af : fw) e id ps : e_upd e = false -> update_attacks_to L af e id ps = Done e ps.
Proof. intros Hu. unfold update_attacks_to. rewrite Hu. reflexivity. Qed.
Lemma fold_update_attacks_to_off (af : fw) ids : forall e ps,
  e_upd e = false -> fold_m (update_attacks_to L af) ids e ps = Done e ps.
Proof.
  induction ids as [|id r IH]; intros e ps Hu; cbn [fold_m]; [reflexivity|].
  unfold bind. rewrite (update_attacks_to_off af e id ps Hu). apply IH, Hu.
Qed.

Lemma tbl_var_ge t a : length t <= a -> tbl_var t a = None.
Proof. intros H. unfold tbl_var. replace (nth_error t a) with (@None (option nat)); [reflexivity|]. symmetry. now apply nth_error_None. Qed.
Lemma tbl_var_snoc_ne t o a : a <> length t -> tbl_var (t ++ [o]) a = tbl_var t a.
Proof.
  intros H. destruct (Nat.lt_ge_cases a (length t)) as [Hlt|Hge].
  - apply tbl_var_snoc_old. exact Hlt.
  - rewrite tbl_var_snoc_beyond by lia. symmetry. apply tbl_var_ge. exact Hge.
Qed.
Lemma tbl_var_snoc_none t a : tbl_var (t ++ [None]) a = tbl_var t a.
Proof.
  destruct (Nat.eq_dec a (length t)) as [->|Hne]; [|apply tbl_var_snoc_ne; exact Hne].
  rewrite tbl_var_snoc_new. symmetry. apply tbl_var_ge. lia.
Qed.
Lemma tbl_var_set_none t id : tbl_var (set_nth id None t) id = None.
Proof.
  destruct (Nat.lt_ge_cases id (length t)) as [Hlt|Hge]; [apply tbl_var_set_eq; exact Hlt|].
  apply tbl_var_ge. rewrite length_set_nth. exact Hge.
Qed.

Lemma get_new_argument_fresh (af : fw) l : get_argument af l = None ->
  get_argument (Store.new_argument L leqb af l) l = Some (length (slots (ls af))).
Proof.
  intros E. destruct (new_argument_fresh_slots L leqb af l E) as [Hs _].
  unfold Store.get_argument, find_label in *. rewrite Hs.
  apply position_snoc_new; [exact E|]. cbn [slot_has]. apply leqb_spec. reflexivity.
Qed.

Lemma enc_new_argument_run (af : fw) e l ps af' e' ps' :
  e_upd e = false -> get_argument af l = None ->
  enc_new_argument L leqb af e l ps = Done (af', e') ps' ->
  exists vars' v, af' = Store.new_argument L leqb af l /\
    alloc_arg_vars (e_sem e) (e_vars e) (length (slots (ls af))) ps = Done (vars', v) ps' /\
    e' = enc_with e (e_a2v e ++ [Some v]) (e_a2s e ++ [None]) vars' (e_assum e).
Proof.
  intros Hu Hg. unfold enc_new_argument. rewrite Hg.
  destruct (new_argument_fresh_slots L leqb af l Hg) as [_ Hmax]. rewrite Hmax.
  intros E. apply bind_Done in E. destruct E as ([vars' v] & ps1 & E1 & E2). cbn [fst snd] in E2.
  apply bind_Done in E2. destruct E2 as (e4 & ps2 & E2 & E3).
  rewrite update_attacks_to_off in E2 by exact Hu. apply Done_inj in E2. destruct E2 as [<- <-].
  apply ret_Done in E3. destruct E3 as [E3 <-]. apply pair_equal_spec in E3. destruct E3 as [<- <-].
  exists vars', v. auto.
Qed.

Lemma enc_remove_argument_run (af : fw) e l id ps af' e' r ps' :
  e_upd e = false -> get_argument af l = Some id ->
  enc_remove_argument L leqb af e l ps = Done (af', e', r) ps' -> r = ROk ->
  exists v, tbl_var (e_a2v e) id = Some v /\ Store.remove_argument L leqb af l = (af', ROk) /\
    e_sem e' = e_sem e /\
    (forall a, a <> id -> tbl_var (e_a2v e') a = tbl_var (e_a2v e) a) /\ tbl_var (e_a2v e') id = None /\
    (forall a, a <> id -> tbl_var (e_a2s e') a = tbl_var (e_a2s e) a) /\ tbl_var (e_a2s e') id = None /\
    sess ps' = sess_adds (sess ps) (retire_units (tbl_var (e_a2s e) id) ++ [[zlit v]]).
Proof.
  intros Hu Hg. unfold enc_remove_argument. rewrite Hg.
  destruct (Store.remove_argument L leqb af l) as [af1 [| |]] eqn:Er.
  2,3: intros E Hr; apply ret_Done in E; destruct E as [E _]; congruence.
  destruct (tbl_var (e_a2v e) id) as [v|] eqn:Ev; [|discriminate].
  intros E _. exists v. split; [reflexivity|].
  apply bind_Done in E. destruct E as (e2 & ps1 & E1 & E2).
  cbn [enc_with e_a2s] in E1.
  assert (H2 : e_sem e2 = e_sem e /\ e_upd e2 = false /\ e_a2v e2 = set_nth id None (e_a2v e) /\
               (forall a, a <> id -> tbl_var (e_a2s e2) a = tbl_var (e_a2s e) a) /\ tbl_var (e_a2s e2) id = None /\
               sess ps1 = sess_adds (sess ps) (retire_units (tbl_var (e_a2s e) id))).
  { destruct (nth_error (e_a2s e) id) as [[s|]|] eqn:En; [| |discriminate E1].
    - rewrite (tbl_var_of_nth_error _ _ _ En).
      apply bind_Done in E1. destruct E1 as (e0 & ps0 & E0 & E1).
      pose proof (remove_selector_sess _ _ _ _ _ E0) as Hs0.
      destruct (remove_selector_spec _ _ _ _ _ E0) as (p & _ & ->).
      apply ret_Done in E1. destruct E1 as [<- <-]. cbn [enc_with e_sem e_upd e_a2v e_a2s].
      repeat split; auto.
      + intros a Ha. apply tbl_var_set_neq. congruence.
      + apply tbl_var_set_none.
    - apply ret_Done in E1. destruct E1 as [<- <-]. cbn [enc_with e_sem e_upd e_a2v e_a2s].
      rewrite (tbl_var_of_nth_error _ _ _ En). repeat split; auto. }
  destruct H2 as (K1 & K2 & K3 & K4 & K5 & K6).
  destruct (Nat.ltb v (length (e_vars e2))); [|discriminate E2].
  apply bind_Done in E2. destruct E2 as (u & ps2 & E2 & E3). apply add_clause_sess in E2.
  apply bind_Done in E3. destruct E3 as (e4 & ps3 & E3 & E4).
  rewrite fold_update_attacks_to_off in E3 by (cbn [enc_with e_upd]; exact K2).
  apply Done_inj in E3. destruct E3 as [<- <-].
  apply ret_Done in E4. destruct E4 as [E4 <-].
  apply pair_equal_spec in E4. destruct E4 as [E4 _]. apply pair_equal_spec in E4. destruct E4 as [<- <-].
  cbn [enc_with e_sem e_a2v e_a2s]. split; [reflexivity|]. split; [exact K1|]. rewrite K3.
  split; [intros a Ha; apply tbl_var_set_neq; congruence|]. split; [apply tbl_var_set_none|].
  split; [exact K4|]. split; [exact K5|].
  rewrite E2, K6. unfold sess_adds. rewrite fold_left_app. reflexivity.
Qed.

Lemma enc_new_attack_run (af : fw) e a b ps af' e' r ps' :
  e_upd e = false -> enc_new_attack L leqb af e a b ps = Done (af', e', r) ps' -> r = ROk ->
  Store.new_attack L leqb af a b = (af', ROk) /\ e' = e /\ ps' = ps.
Proof.
  intros Hu. unfold enc_new_attack. destruct (Store.new_attack L leqb af a b) as [af1 [| |]] eqn:Er.
  - destruct (get_argument af1 b); [|discriminate]. intros E _.
    apply bind_Done in E. destruct E as (e1 & ps1 & E1 & E2).
    rewrite update_attacks_to_off in E1 by exact Hu. apply Done_inj in E1. destruct E1 as [<- <-].
    apply ret_Done in E2. destruct E2 as [E2 <-].
    apply pair_equal_spec in E2. destruct E2 as [E2 _]. apply pair_equal_spec in E2. destruct E2 as [<- <-]. auto.
  - intros E Hr. apply ret_Done in E. destruct E as [E _]. congruence.
  - discriminate.
Qed.
Lemma enc_remove_attack_run (af : fw) e a b ps af' e' r ps' :
  e_upd e = false -> enc_remove_attack L leqb af e a b ps = Done (af', e', r) ps' -> r = ROk ->
  Store.remove_attack L leqb af a b = (af', ROk) /\ e' = e /\ ps' = ps.
Proof.
  intros Hu. unfold enc_remove_attack. destruct (Store.remove_attack L leqb af a b) as [af1 [| |]] eqn:Er.
  - destruct (get_argument af1 b); [|discriminate]. intros E _.
    apply bind_Done in E. destruct E as (e1 & ps1 & E1 & E2).
    rewrite update_attacks_to_off in E1 by exact Hu. apply Done_inj in E1. destruct E1 as [<- <-].
    apply ret_Done in E2. destruct E2 as [E2 <-].
    apply pair_equal_spec in E2. destruct E2 as [E2 _]. apply pair_equal_spec in E2. destruct E2 as [<- <-]. auto.
  - intros E Hr. apply ret_Done in E. destruct E as [E _]. congruence.
  - discriminate.
Qed.

(* ---- the state of a replay *)
Record RS (af : fw) (e : denc) (U : list nat) (se : session) : Prop := {
  rs_tabs : tabs af e; rs_inv : Inv af; rs_vz : vz e; rs_bd : sbounded se;
  rs_ci : exists dv atk, cinv af e U (se_cl se) (nv se) dv atk }.

Lemma In_must_update U id a : In a (must_update U id) <-> In a U \/ a = id.
Proof.
  unfold must_update. destruct (memb id U) eqn:E.
  - apply memb_spec in E. split; [auto|]. intros [H| ->]; auto.
  - rewrite in_app_iff. cbn [In]. split; intros [H|H]; auto. destruct H as [<-|[]]; auto.
Qed.
Lemma In_fold_must_update l : forall U a, In a (fold_left must_update l U) <-> In a U \/ In a l.
Proof.
  induction l as [|x r IH]; intros U a; cbn [fold_left In]; [tauto|].
  rewrite IH, In_must_update. split; intros H; decompose [or] H; auto.
Qed.

Lemma std_replay_vz (af : fw) e U ev : vz e -> okm (std_replay L leqb (af, e, U) ev) (fun st => vz (snd (fst st))).
Proof.
  intros H ps st ps' E. apply (fold_std_replay_vz L leqb [ev] af e U H ps st ps').
  cbn [fold_m]. unfold bind. rewrite E. reflexivity.
Qed.

Lemma tabs_pos (af : fw) e id v : tabs af e -> vz e -> tbl_var (e_a2v e) id = Some v -> 0 < v.
Proof.
  intros [(C1 & _) _] Hz Hv. destruct v; [|lia]. pose proof (C1 _ _ Hv) as H. unfold vz in Hz. congruence.
Qed.

Lemma tabs_lt (af : fw) e : tabs af e ->
  (forall a x, tbl_var (e_a2v e) a = Some x -> a < length (slots (ls af))) /\
  (forall a x, tbl_var (e_a2s e) a = Some x -> a < length (slots (ls af))).
Proof.
  intros [_ (L1 & L2 & _)]. split; intros a x H; apply tbl_var_lt in H; lia.
Qed.

Lemma std_replay_RS (af : fw) e U ev ps af' e' U' ps' :
  RS af e U (sess ps) -> e_upd e = false ->
  std_replay L leqb (af, e, U) ev ps = Done (af', e', U') ps' ->
  RS af' e' U' (sess ps') /\ e_upd e' = false.
Proof.
  intros [Ht Hinv Hz Hbd (dv & atk & Hc)] Hu E.
  destruct (std_replay_ok L leqb af e U ev Ht _ _ _ E) as (Ht' & Hu' & Hs'). cbn [fst snd] in Ht', Hu', Hs'.
  pose proof (std_replay_af L leqb af e U ev _ _ _ E) as Haf. cbn [fst] in Haf.
  pose proof (std_replay_vz af e U ev Hz _ _ _ E) as Hz'. cbn [fst snd] in Hz'.
  assert (Hinv' : Inv af') by (rewrite Haf; apply (inv_ev_apply L leqb leqb_spec), Hinv).
  split; [|congruence].
  assert (G : sbounded (sess ps') /\ exists dv' atk', cinv af' e' U' (se_cl (sess ps')) (nv (sess ps')) dv' atk');
    [|destruct G as [G1 G2]; split; assumption].
  unfold std_replay in E. destruct ev as [l|l|x y|x y|x y z|x y z].
  - (* new argument *)
    apply bind_Done in E. destruct E as ([af1 e1] & ps1 & E1 & E2). cbn [fst snd] in E2.
    apply bind_Done in E2. destruct E2 as (id & ps2 & E2 & E3). apply opt_m_Done in E2. destruct E2 as [Hid ->].
    apply ret_Done in E3. destruct E3 as [E3 <-].
    apply pair_equal_spec in E3. destruct E3 as [E3 <-]. apply pair_equal_spec in E3. destruct E3 as [-> ->].
    destruct (get_argument af l) as [id0|] eqn:Eg.
    + rewrite (enc_new_argument_redundant L leqb af e l id0 ps Eg) in E1. apply Done_inj in E1.
      destruct E1 as [E1 <-]. apply pair_equal_spec in E1. destruct E1 as [<- <-].
      split; [exact Hbd|]. exists dv, atk. eapply cinv_mono; [exact Hc| |lia].
      intros a Ha. apply In_must_update. auto.
    + destruct (enc_new_argument_run af e l ps _ _ _ Hu Eg E1) as (vars' & v & -> & Ea & ->).
      rewrite (get_new_argument_fresh af l Eg) in Hid. injection Hid as <-.
      pose proof (alloc_arg_vars_sess _ _ _ _ _ _ _ Ea) as Hse.
      destruct (alloc_arg_vars_spec _ _ _ _ _ _ _ Ea) as (_ & Hfresh & _).
      destruct (tabs_lt af e Ht) as [HVlt HSlt]. pose proof Ht as [_ (L1 & L2 & _)].
      assert (Hse' : sbounded (sess ps1) /\ nv (sess ps) <= nv (sess ps1) /\
                     se_cl (sess ps1) = se_cl (sess ps) ++ (if sem_st (e_sem e) then [] else [[znlit v; znlit (S v)]])).
      { rewrite Hse. destruct (sem_st (e_sem e)).
        - rewrite app_nil_r. auto.
        - split; [apply sbounded_add, Hbd|]. split; [apply nv_add|apply se_cl_add]. }
      destruct Hse' as (B1 & B2 & B3). split; [exact B1|]. exists dv, atk.
      apply (cinv_push af _ e _ U _ (se_cl (sess ps)) _ (nv (sess ps)) _ dv atk (length (slots (ls af))) v Hc Hinv).
      * intros a Ha. apply (has_lt L). exact Ha.
      * exact HVlt.
      * exact HSlt.
      * reflexivity.
      * intros a Ha. cbn [enc_with e_a2v]. apply tbl_var_snoc_ne. lia.
      * cbn [enc_with e_a2v]. rewrite <- L1. apply tbl_var_snoc_new.
      * intros a. cbn [enc_with e_a2s]. apply tbl_var_snoc_none.
      * exact Hfresh.
      * exact B2.
      * exact B3.
      * intros a. apply (new_argument_has L leqb af l a Eg).
      * apply new_argument_attacks.
      * apply In_must_update. auto.
      * intros a Ha. apply In_must_update. auto.
  - (* remove argument *)
    apply bind_Done in E. destruct E as (id & ps0 & E0 & E). apply opt_m_Done in E0. destruct E0 as [Hg ->].
    cbv zeta in E. apply bind_Done in E. destruct E as ([[af1 e1] r] & ps1 & E1 & E2).
    apply bind_Done in E2. destruct E2 as (p & ps2 & E2 & E3). apply unwrap_ok_Done in E2. destruct E2 as [E2 ->].
    apply pair_equal_spec in E2. destruct E2 as [<- Hr].
    apply ret_Done in E3. destruct E3 as [E3 <-]. cbn [fst snd] in E3.
    apply pair_equal_spec in E3. destruct E3 as [E3 HU']. apply pair_equal_spec in E3. destruct E3 as [-> ->].
    destruct (enc_remove_argument_run af e l id ps _ _ _ _ Hu Hg E1 Hr) as
      (v & Hv & Hrm & Hsem & HV & HVid & HS & HSid & Hse).
    destruct (nv_adds (retire_units (tbl_var (e_a2s e) id) ++ [[zlit v]]) (sess ps)) as [N1 N2].
    assert (B1 : sbounded (sess ps1)) by (rewrite Hse; apply sbounded_adds, Hbd).
    split; [exact B1|]. exists (kill_dv dv (sem_st (e_sem e)) (tbl_var (e_a2s e) id) v), atk.
    apply (cinv_kill af _ e _ U U' (se_cl (sess ps)) _ (nv (sess ps)) _ dv atk id v Hc).
    + apply tables_ok_split. exact Ht.
    + exact (tabs_pos af e id v Ht Hz Hv).
    + exact Hv.
    + exact Hsem.
    + exact HV.
    + exact HVid.
    + exact HS.
    + exact HSid.
    + rewrite Hse. exact N1.
    + rewrite Hse. pose proof (N2 [zlit v]) as Hn. rewrite clause_max_single, lit_var_zlit in Hn.
      apply Hn. apply in_or_app. right. left. reflexivity.
    + intros s Hs. rewrite Hse. pose proof (N2 [znlit s]) as Hn. rewrite clause_max_single, lit_var_znlit in Hn.
      apply Hn. apply in_or_app. left. rewrite Hs. left. reflexivity.
    + intros Hst. rewrite Hse. pose proof (ci_bin _ _ _ _ _ _ _ Hc Hst id v Hv) as Hb.
      pose proof (sbounded_lit (sess ps) _ (znlit (S v)) Hbd Hb) as Hl. rewrite lit_var_znlit in Hl.
      assert (S v <= nv (sess ps)) by (apply Hl; right; left; reflexivity). lia.
    + rewrite Hse, se_cl_adds. reflexivity.
    + apply (remove_argument_has L leqb af _ l id Hg Hrm).
    + apply (remove_argument_attacks L leqb leqb_spec af _ l id Hinv Hg Hrm).
    + intros a Ha. rewrite <- HU'. apply In_fold_must_update. auto.
    + intros a Ha Hne. rewrite <- HU'. apply In_fold_must_update. right. apply filter_In.
      split; [apply (targets_spec L af id a Hinv); exact Ha|]. apply negb_true_iff, Nat.eqb_neq. exact Hne.
  - (* new attack *)
    apply bind_Done in E. destruct E as ([[af1 e1] r] & ps1 & E1 & E2).
    apply bind_Done in E2. destruct E2 as (p & ps2 & E2 & E3). apply unwrap_ok_Done in E2. destruct E2 as [E2 ->].
    apply pair_equal_spec in E2. destruct E2 as [<- Hr]. cbn [fst snd] in E3.
    apply bind_Done in E3. destruct E3 as (id & ps3 & E3 & E4). apply opt_m_Done in E3. destruct E3 as [Hid ->].
    apply ret_Done in E4. destruct E4 as [E4 <-].
    apply pair_equal_spec in E4. destruct E4 as [E4 HU']. apply pair_equal_spec in E4. destruct E4 as [-> ->].
    destruct (enc_new_attack_run af e x y ps _ _ _ _ Hu E1 Hr) as (Hna & -> & ->).
    split; [exact Hbd|]. exists dv, atk.
    destruct (new_attack_attacks L leqb leqb_spec af _ x y Hinv Hna) as (x0 & y0 & Hx0 & Hy0 & Hrel).
    assert (Haf1 : af' = fst (Store.new_attack L leqb af x y)) by (rewrite Hna; reflexivity).
    rewrite Haf1, (new_attack_get L leqb), Hy0 in Hid. injection Hid as <-.
    eapply cinv_fw.
    + eapply cinv_mono; [exact Hc| |apply le_n]. intros a Ha. rewrite <- HU'. apply In_must_update. auto.
    + intros a. rewrite Haf1. apply (new_attack_has L leqb).
    + intros a b Hn. rewrite Hrel. split; [|auto]. intros [H|H]; [exact H|].
      injection H as -> ->. exfalso. apply Hn. rewrite <- HU'. apply In_must_update. auto.
  - (* remove attack *)
    apply bind_Done in E. destruct E as ([[af1 e1] r] & ps1 & E1 & E2).
    apply bind_Done in E2. destruct E2 as (p & ps2 & E2 & E3). apply unwrap_ok_Done in E2. destruct E2 as [E2 ->].
    apply pair_equal_spec in E2. destruct E2 as [<- Hr]. cbn [fst snd] in E3.
    apply bind_Done in E3. destruct E3 as (id & ps3 & E3 & E4). apply opt_m_Done in E3. destruct E3 as [Hid ->].
    apply ret_Done in E4. destruct E4 as [E4 <-].
    apply pair_equal_spec in E4. destruct E4 as [E4 HU']. apply pair_equal_spec in E4. destruct E4 as [-> ->].
    destruct (enc_remove_attack_run af e x y ps _ _ _ _ Hu E1 Hr) as (Hna & -> & ->).
    split; [exact Hbd|]. exists dv, atk.
    destruct (remove_attack_attacks L leqb leqb_spec af _ x y Hinv Hna) as (x0 & y0 & Hx0 & Hy0 & Hrel).
    assert (Haf1 : af' = fst (Store.remove_attack L leqb af x y)) by (rewrite Hna; reflexivity).
    rewrite Haf1, (remove_attack_get L leqb), Hy0 in Hid. injection Hid as <-.
    eapply cinv_fw.
    + eapply cinv_mono; [exact Hc| |apply le_n]. intros a Ha. rewrite <- HU'. apply In_must_update. auto.
    + intros a. rewrite Haf1. apply (remove_attack_has L leqb).
    + intros a b Hn. rewrite Hrel. split; [tauto|]. intros H. split; [exact H|].
      intros E. injection E as -> ->. apply Hn. rewrite <- HU'. apply In_must_update. auto.
  - apply ret_Done in E. destruct E as [E <-].
    apply pair_equal_spec in E. destruct E as [E <-]. apply pair_equal_spec in E. destruct E as [<- <-].
    split; [exact Hbd|]. exists dv, atk. exact Hc.
  - apply ret_Done in E. destruct E as [E <-].
    apply pair_equal_spec in E. destruct E as [E <-]. apply pair_equal_spec in E. destruct E as [<- <-].
    split; [exact Hbd|]. exists dv, atk. exact Hc.
Qed.

Lemma fold_std_replay_RS evs : forall (af : fw) e U ps af' e' U' ps',
  RS af e U (sess ps) -> e_upd e = false ->
  fold_m (std_replay L leqb) evs (af, e, U) ps = Done (af', e', U') ps' ->
  RS af' e' U' (sess ps') /\ e_upd e' = false.
Proof.
  induction evs as [|ev r IH]; intros af e U ps af' e' U' ps' Hrs Hu E; cbn [fold_m] in E.
  - apply ret_Done in E. destruct E as [E <-].
    apply pair_equal_spec in E. destruct E as [E <-]. apply pair_equal_spec in E. destruct E as [<- <-]. auto.
  - apply bind_Done in E. destruct E as ([[af1 e1] U1] & ps1 & E1 & E2).
    destruct (std_replay_RS _ _ _ _ _ _ _ _ _ Hrs Hu E1) as [Hrs1 Hu1]. eapply IH; eassumption.
Qed.

(* ================================================================ Part 3 *)
Lemma tbl_vars_map t ids : forall vs, tbl_vars t ids = Some vs ->
  vs = map (fun i => match tbl_var t i with Some v => v | None => 1 end) ids.
Proof.
  induction ids as [|i r IH]; intros vs H; cbn [tbl_vars map] in *.
  - injection H as <-. reflexivity.
  - destruct (tbl_var t i) as [v|]; [|discriminate]. destruct (tbl_vars t r) as [l|]; [|discriminate].
    injection H as <-. f_equal. apply IH. reflexivity.
Qed.

(* update_attacks_to_constraints when enabled: the old selector (if any) is retired by a unit clause,
   a fresh selector is allocated, the group for the CURRENT attackers is added under it *)
Lemma update_attacks_to_run (af : fw) e id ps e2 ps' :
  e_upd e = true -> update_attacks_to L af e id ps = Done e2 ps' ->
  exists sn, e_sem e2 = e_sem e /\ e_upd e2 = true /\
    (forall a, tbl_var (e_a2v e2) a = tbl_var (e_a2v e) a) /\
    (forall a, a <> id -> tbl_var (e_a2s e2) a = tbl_var (e_a2s e) a) /\
    tbl_var (e_a2s e2) id = Some sn /\
    nv (sess_adds (sess ps) (retire_units (tbl_var (e_a2s e) id))) < sn /\ length (e_vars e) <= sn /\
    has af id = true /\
    sess ps' = sess_adds (sess ps) (retire_units (tbl_var (e_a2s e) id) ++
                                    grp e2 id (map fst (iter_attacks_to L af id))).
Proof.
  intros Hu E. unfold update_attacks_to in E. rewrite Hu in E. cbn [negb] in E.
  destruct (nth_error (e_a2s e) id) as [os|] eqn:En; [|discriminate E].
  pose proof (nth_error_lt _ _ _ En) as Hid. rewrite (tbl_var_of_nth_error _ _ _ En).
  apply bind_Done in E. destruct E as (e1 & ps1 & E1 & E2).
  assert (H1 : e_sem e1 = e_sem e /\ e_upd e1 = true /\ e_a2v e1 = e_a2v e /\
               (forall a, a <> id -> tbl_var (e_a2s e1) a = tbl_var (e_a2s e) a) /\
               length (e_a2s e1) = length (e_a2s e) /\
               length (e_vars e1) = length (e_vars e) /\ sess ps1 = sess_adds (sess ps) (retire_units os)).
  { destruct os as [s|].
    - apply bind_Done in E1. destruct E1 as (e0 & ps0 & E0 & E1).
      pose proof (remove_selector_sess _ _ _ _ _ E0) as Hs0.
      destruct (remove_selector_spec _ _ _ _ _ E0) as (p & _ & ->).
      apply ret_Done in E1. destruct E1 as [<- <-]. cbn [enc_with e_sem e_upd e_a2v e_a2s e_vars].
      rewrite !length_set_nth. repeat split; auto. intros a Ha. apply tbl_var_set_neq. congruence.
    - apply ret_Done in E1. destruct E1 as [<- <-]. repeat split; auto. }
  destruct H1 as (K1 & K2 & K3 & K4 & K5 & K6 & K7).
  apply bind_Done in E2. destruct E2 as ([vars sn] & ps2 & E2 & E3).
  destruct (new_solver_var_fresh _ _ _ _ _ _ E2) as [Hf Hs2].
  pose proof (new_solver_var_spec _ _ _ _ _ E2) as (A1 & _). cbn [fst snd] in A1.
  cbv beta iota zeta in E3.
  destruct (negb (has af id)) eqn:Eh; [discriminate E3|]. apply negb_false_iff in Eh.
  set (e2' := enc_with e1 (e_a2v e1) (set_nth id (Some sn) (e_a2s e1)) vars (e_assum e1 ++ [zlit sn])) in *.
  destruct (tbl_var (e_a2v e2') id) as [tv|] eqn:Etv; [|discriminate E3].
  destruct (tbl_vars (e_a2v e2') (map fst (iter_attacks_to L af id))) as [avs|] eqn:Eavs; [|discriminate E3].
  apply bind_Done in E3. destruct E3 as (u & ps3 & E3 & E4). apply add_clauses_sess in E3.
  apply ret_Done in E4. destruct E4 as [<- <-].
  assert (Hsn : tbl_var (e_a2s e2') id = Some sn).
  { unfold e2'. cbn [enc_with e_a2s]. apply tbl_var_set_eq. lia. }
  exists sn. split; [exact K1|]. split; [exact K2|].
  split; [intros a; unfold e2'; cbn [enc_with e_a2v]; rewrite K3; reflexivity|].
  split; [intros a Ha; unfold e2'; cbn [enc_with e_a2s]; rewrite tbl_var_set_neq by congruence; apply K4, Ha|].
  split; [exact Hsn|]. split; [rewrite <- K7; exact Hf|]. split; [lia|]. split; [exact Eh|].
  rewrite E3, Hs2, K7. unfold sess_adds. rewrite fold_left_app. f_equal.
  unfold grp. rewrite (svar_some e2' id sn Hsn), (avar_some e2' id tv Etv).
  rewrite (tbl_vars_map _ _ _ Eavs). reflexivity.
Qed.

Lemma update_attacks_to_RS (af : fw) e id rest ps e2 ps' :
  RS af e (id :: rest) (sess ps) -> e_upd e = true ->
  update_attacks_to L af e id ps = Done e2 ps' ->
  RS af e2 rest (sess ps') /\ e_upd e2 = true.
Proof.
  intros [Ht Hinv Hz Hbd (dv & atk & Hc)] Hu E.
  destruct (update_attacks_to_ok L af e id Ht _ _ _ E) as (Ht' & _ & _).
  pose proof (update_attacks_to_vz L af e id Hz _ _ _ E) as Hz'.
  destruct (update_attacks_to_run af e id ps e2 ps' Hu E) as
    (sn & Hsem & Hu2 & HV & HS & HSid & Hfresh & Hlen & Hlive & Hse).
  set (os := tbl_var (e_a2s e) id) in *. set (bs := map fst (iter_attacks_to L af id)) in *.
  destruct (nv_adds (retire_units os) (sess ps)) as [N1 N2].
  destruct (nv_adds (retire_units os ++ grp e2 id bs) (sess ps)) as [N3 N4].
  split; [|exact Hu2]. split; auto.
  - rewrite Hse. apply sbounded_adds, Hbd.
  - exists (retire_dv dv os), (fun a => if Nat.eqb a id then bs else atk a).
    apply (cinv_reencode af e e2 rest (se_cl (sess ps)) _ (nv (sess ps)) _ dv atk id sn Hc).
    + apply tables_ok_split. exact Ht.
    + exact Hinv.
    + exact Hlive.
    + exact Hsem.
    + exact HV.
    + exact HS.
    + exact HSid.
    + lia.
    + rewrite Hse. exact N3.
    + intros s Hs. split.
      * rewrite Hse. pose proof (N4 [znlit s]) as Hn. rewrite clause_max_single, lit_var_znlit in Hn.
        apply Hn. apply in_or_app. left. fold os in Hs. rewrite Hs. left. reflexivity.
      * destruct (tables_distinct L af e (proj2 (tables_ok_split L af e) Ht)) as (_ & _ & _ & _ & _ & _ & D7).
        specialize (D7 id s Hs). lia.
    + rewrite Hse, se_cl_adds. reflexivity.
Qed.

Lemma reencode_loop_RS (af : fw) ids : forall e ps e' ps',
  RS af e ids (sess ps) -> e_upd e = true ->
  fold_m (update_attacks_to L af) ids e ps = Done e' ps' ->
  RS af e' [] (sess ps') /\ e_upd e' = true.
Proof.
  induction ids as [|id r IH]; intros e ps e' ps' Hrs Hu E; cbn [fold_m] in E.
  - apply ret_Done in E. destruct E as [<- <-]. auto.
  - apply bind_Done in E. destruct E as (e1 & ps1 & E1 & E2).
    destruct (update_attacks_to_RS af e id r ps e1 ps1 Hrs Hu E1) as [Hrs1 Hu1]. eapply IH; eassumption.
Qed.

Lemma RS_enable (af : fw) e U se b : RS af e U se -> RS af (enc_enable e b) U se.
Proof.
  intros [Ht Hinv Hz Hbd (dv & atk & Hc)]. split; [apply tabs_enable; exact Ht|exact Hinv|exact Hz|exact Hbd|].
  exists dv, atk. destruct Hc as [H1 H2 H3 H4 H5 H6 H7]. split; assumption.
Qed.

(* update_encoding of the buffered standard encoder: from a consistent state, through the replay of the
   pending events with the re-encoding deferred, back to a consistent state for the new framework *)
Lemma update_encoding_RS (af : fw) (b : dbuf L) e ps af' b' ps' :
  b_enc L b = XStd e -> RS af e [] (sess ps) -> e_upd e = false ->
  update_encoding L leqb af b ps = Done (af', b') ps' ->
  exists e', b_enc L b' = XStd e' /\ RS af' e' [] (sess ps') /\ e_upd e' = false.
Proof.
  intros He Hrs Hu E. unfold update_encoding in E. rewrite He in E.
  apply bind_Done in E. destruct E as ([[af1 e1] U1] & ps1 & E1 & E2).
  destruct (fold_std_replay_RS _ _ _ _ _ _ _ _ _ Hrs Hu E1) as [Hrs1 Hu1].
  apply bind_Done in E2. destruct E2 as (e2 & ps2 & E2 & E3).
  apply ret_Done in E3. destruct E3 as [E3 <-]. apply pair_equal_spec in E3. destruct E3 as [<- <-].
  assert (Hrs2 : RS af1 (enc_enable e1 true) (filter (has_argument_with_id L af1) U1) (sess ps1)).
  { apply RS_enable. destruct Hrs1 as [Ht Hinv Hz Hbd (dv & atk & Hc)]. split; auto.
    exists dv, atk. eapply cinv_U_equiv; [exact Hc|]. intros a Ha. rewrite filter_In.
    assert (Hl : has af1 a = true).
    { destruct Ha as [Ha|Ha]; [|exact Ha]. pose proof (proj2 (tables_ok_split L af1 e1) Ht) as Ht'.
      apply (t_live L af1 e1 Ht'), (t_sel_live L af1 e1 Ht'), Ha. }
    tauto. }
  destruct (reencode_loop_RS af1 _ _ _ _ _ Hrs2 eq_refl E2) as [Hrs3 Hu3].
  exists (enc_enable e2 false). cbn [buf_with b_enc]. split; [reflexivity|].
  split; [apply RS_enable; exact Hrs3|reflexivity].
Qed.

(* ================================================================ Part 4 *)
Notation dsolver := (dsolver L).
Notation reach := (DynDefs.reach L leqb).
Notation vreach := (DynFunDefs.vreach L leqb).

Lemma vreach_reach oracle thr k s ps os : vreach oracle thr k s ps os -> reach k s os.
Proof.
  induction 1 as [ps0 s ps Hn|s ps os o Hr IH|s ps os fuel q cert l s' a ps' Hr IH Hq].
  - eapply reach_new. exact Hn.
  - apply reach_update. exact IH.
  - eapply reach_query; [exact IH|exact Hq].
Qed.

(* ---- a SAT call *)
Lemma se_cl_solved d se a : se_cl (sess_solved d se a) = se_cl se.
Proof. destruct d; reflexivity. Qed.
Lemma sbounded_solved d se a : sbounded se -> sbounded (sess_solved d se a).
Proof. intros H c l Hc Hl. destruct d; cbn in *; specialize (H c l Hc Hl); lia. Qed.
Lemma nv_solved d se a : nv se <= nv (sess_solved d se a).
Proof. unfold session_n_vars. destruct d; cbn; lia. Qed.

Lemma solve_Done oracle a ps r ps' :
  Prog.solve oracle a ps = Done r ps' ->
  ps' = st_solved oracle ps a /\
  match answer_of oracle ps a with Sat m => r = Some m | Unsat => r = None | Unknown => False end.
Proof.
  unfold Prog.solve, st_solved, answer_of, sess_solved.
  destruct (oracle (calls ps) (rev (rclauses (sess ps))) a); intros E; try discriminate E;
    apply Done_inj in E; destruct E as [<- <-]; auto.
Qed.

(* ---- what a query of the complete / stable solver does (standard encoder) *)
Definition pushed_state (s : dsolver) (af : fw) (buf : dbuf L) (ev : devent L) : dsolver :=
  {| s_kind := s_kind L s; s_af := af; s_buf := buf_push L buf ev |}.

Lemma dc_query_inv oracle (s : dsolver) l ps s' ans ps' :
  dc_query oracle L leqb s l ps = Done (s', ans) ps' ->
  (exists b ext, is_cred L leqb (s_buf L s) l = (Some b, Some ext) /\ s' = s /\ ans = (b, Some ext) /\ ps' = ps) \/
  ((forall b ext, is_cred L leqb (s_buf L s) l <> (Some b, Some ext)) /\
   exists af buf ps1, update_encoding L leqb (s_af L s) (s_buf L s) ps = Done (af, buf) ps1 /\
   forall e, b_enc L buf = XStd e ->
     exists id v, get_argument af l = Some id /\ tbl_var (e_a2v e) id = Some v /\
       ps' = st_solved oracle ps1 (e_assum e ++ [zlit v]) /\
       match answer_of oracle ps1 (e_assum e ++ [zlit v]) with
       | Sat m => exists acc, labels_of L af (args_where not_some_false (e_vars e) m) = Some acc /\
                   s' = pushed_state s af buf (DCred L acc [] (Some (dyn_a2e (e_vars e) m))) /\
                   ans = (true, Some (dyn_a2e (e_vars e) m))
       | Unsat => s' = pushed_state s af buf (DCred L [] [l] None) /\ ans = (false, None)
       | Unknown => False
       end).
Proof.
  unfold dc_query. intros E.
  assert (G : forall (Hmiss : forall b ext, is_cred L leqb (s_buf L s) l <> (Some b, Some ext)),
    (r <- update_encoding L leqb (s_af L s) (s_buf L s) ;;
     (let '(af, buf) := r in
      let x := b_enc L buf in
      asm <- x_assumptions L af x ;;
      v <- x_arg_var L leqb af x l ;;
      m <- Prog.solve oracle (asm ++ [zlit v]) ;;
      match m with
      | Some m =>
          acc <- opt_m (labels_of L af (args_where not_some_false (x_vars x) m)) ;;
          (let ext := dyn_a2e (x_vars x) m in
           ret ({| s_kind := s_kind L s; s_af := af; s_buf := buf_push L buf (DCred L acc [] (Some ext)) |},
                (true, Some ext)))
      | None =>
          ret ({| s_kind := s_kind L s; s_af := af; s_buf := buf_push L buf (DCred L [] [l] None) |}, (false, None))
      end)) ps = Done (s', ans) ps' ->
    exists af buf ps1, update_encoding L leqb (s_af L s) (s_buf L s) ps = Done (af, buf) ps1 /\
    forall e, b_enc L buf = XStd e ->
     exists id v, get_argument af l = Some id /\ tbl_var (e_a2v e) id = Some v /\
       ps' = st_solved oracle ps1 (e_assum e ++ [zlit v]) /\
       match answer_of oracle ps1 (e_assum e ++ [zlit v]) with
       | Sat m => exists acc, labels_of L af (args_where not_some_false (e_vars e) m) = Some acc /\
                   s' = pushed_state s af buf (DCred L acc [] (Some (dyn_a2e (e_vars e) m))) /\
                   ans = (true, Some (dyn_a2e (e_vars e) m))
       | Unsat => s' = pushed_state s af buf (DCred L [] [l] None) /\ ans = (false, None)
       | Unknown => False
       end).
  { intros _ E'. apply bind_Done in E'. destruct E' as ([af buf] & ps1 & E1 & E2).
    exists af, buf, ps1. split; [exact E1|]. intros e He. rewrite He in E2. cbn [x_assumptions x_vars] in E2.
    apply bind_Done in E2. destruct E2 as (asm & ps2 & E2 & E3). apply ret_Done in E2. destruct E2 as [<- <-].
    apply bind_Done in E3. destruct E3 as (v & ps3 & E3 & E4).
    unfold x_arg_var in E3. apply bind_Done in E3. destruct E3 as (id & ps4 & E3 & E5).
    apply opt_m_Done in E3. destruct E3 as [Hid ->]. apply opt_m_Done in E5. destruct E5 as [Hv ->].
    cbn [x_a2v] in Hv. exists id, v. split; [exact Hid|]. split; [exact Hv|].
    apply bind_Done in E4. destruct E4 as (m & ps5 & E4 & E5).
    apply solve_Done in E4. destruct E4 as [-> Ha]. 
    destruct (answer_of oracle ps1 (e_assum e ++ [zlit v])) as [m0| |]; [| |destruct Ha]; subst m.
    - apply bind_Done in E5. destruct E5 as (acc & ps6 & E5 & E6). apply opt_m_Done in E5. destruct E5 as [Hacc ->].
      apply ret_Done in E6. destruct E6 as [E6 <-]. apply pair_equal_spec in E6. destruct E6 as [<- <-].
      split; [reflexivity|]. exists acc. auto.
    - apply ret_Done in E5. destruct E5 as [E5 <-]. apply pair_equal_spec in E5. destruct E5 as [<- <-]. auto. }
  destruct (is_cred L leqb (s_buf L s) l) as [[b|] [ext|]] eqn:Ec.
  1:{ left. apply ret_Done in E. destruct E as [E <-]. apply pair_equal_spec in E. destruct E as [<- <-].
      exists b, ext. auto. }
  all: right; (split; [intros b0 ext0; congruence|]); apply G; [intros b0 ext0; congruence|exact E].
Qed.

Lemma st_ds_query_inv oracle (s : dsolver) l ps s' ans ps' :
  st_ds_query oracle L leqb s l ps = Done (s', ans) ps' ->
  (exists b ext, is_skep L leqb (s_buf L s) l = (Some b, Some ext) /\ s' = s /\ ans = (b, Some ext) /\ ps' = ps) \/
  ((forall b ext, is_skep L leqb (s_buf L s) l <> (Some b, Some ext)) /\
   exists af buf ps1, update_encoding L leqb (s_af L s) (s_buf L s) ps = Done (af, buf) ps1 /\
   forall e, b_enc L buf = XStd e ->
     exists id v, get_argument af l = Some id /\ tbl_var (e_a2v e) id = Some v /\
       ps' = st_solved oracle ps1 (e_assum e ++ [znlit v]) /\
       match answer_of oracle ps1 (e_assum e ++ [znlit v]) with
       | Sat m => exists refused, labels_of L af (args_where not_some_true (e_vars e) m) = Some refused /\
                   s' = pushed_state s af buf (DSkep L [] refused (Some (dyn_a2e (e_vars e) m))) /\
                   ans = (false, Some (dyn_a2e (e_vars e) m))
       | Unsat => exists refused, s' = pushed_state s af buf (DSkep L [l] refused None) /\ ans = (true, None)
       | Unknown => False
       end).
Proof.
  unfold st_ds_query. intros E.
  assert (G : forall (Hmiss : forall b ext, is_skep L leqb (s_buf L s) l <> (Some b, Some ext)),
    (r <- update_encoding L leqb (s_af L s) (s_buf L s) ;;
     (let '(af, buf) := r in
      let x := b_enc L buf in
      asm <- x_assumptions L af x ;;
      v <- x_arg_var L leqb af x l ;;
      m <- Prog.solve oracle (asm ++ [znlit v]) ;;
      match m with
      | Some m =>
          refused <- opt_m (labels_of L af (args_where not_some_true (x_vars x) m)) ;;
          (let ext := dyn_a2e (x_vars x) m in
           ret ({| s_kind := s_kind L s; s_af := af; s_buf := buf_push L buf (DSkep L [] refused (Some ext)) |},
                (false, Some ext)))
      | None =>
          id <- opt_m (get_argument af l) ;;
          refused <- opt_m (labels_of L af (map snd (iter_attacks_from L af id))) ;;
          ret ({| s_kind := s_kind L s; s_af := af; s_buf := buf_push L buf (DSkep L [l] refused None) |}, (true, None))
      end)) ps = Done (s', ans) ps' ->
    exists af buf ps1, update_encoding L leqb (s_af L s) (s_buf L s) ps = Done (af, buf) ps1 /\
    forall e, b_enc L buf = XStd e ->
     exists id v, get_argument af l = Some id /\ tbl_var (e_a2v e) id = Some v /\
       ps' = st_solved oracle ps1 (e_assum e ++ [znlit v]) /\
       match answer_of oracle ps1 (e_assum e ++ [znlit v]) with
       | Sat m => exists refused, labels_of L af (args_where not_some_true (e_vars e) m) = Some refused /\
                   s' = pushed_state s af buf (DSkep L [] refused (Some (dyn_a2e (e_vars e) m))) /\
                   ans = (false, Some (dyn_a2e (e_vars e) m))
       | Unsat => exists refused, s' = pushed_state s af buf (DSkep L [l] refused None) /\ ans = (true, None)
       | Unknown => False
       end).
  { intros _ E'. apply bind_Done in E'. destruct E' as ([af buf] & ps1 & E1 & E2).
    exists af, buf, ps1. split; [exact E1|]. intros e He. rewrite He in E2. cbn [x_assumptions x_vars] in E2.
    apply bind_Done in E2. destruct E2 as (asm & ps2 & E2 & E3). apply ret_Done in E2. destruct E2 as [<- <-].
    apply bind_Done in E3. destruct E3 as (v & ps3 & E3 & E4).
    unfold x_arg_var in E3. apply bind_Done in E3. destruct E3 as (id & ps4 & E3 & E5).
    apply opt_m_Done in E3. destruct E3 as [Hid ->]. apply opt_m_Done in E5. destruct E5 as [Hv ->].
    cbn [x_a2v] in Hv. exists id, v. split; [exact Hid|]. split; [exact Hv|].
    apply bind_Done in E4. destruct E4 as (m & ps5 & E4 & E5).
    apply solve_Done in E4. destruct E4 as [-> Ha].
    destruct (answer_of oracle ps1 (e_assum e ++ [znlit v])) as [m0| |]; [| |destruct Ha]; subst m.
    - apply bind_Done in E5. destruct E5 as (acc & ps6 & E5 & E6). apply opt_m_Done in E5. destruct E5 as [Hacc ->].
      apply ret_Done in E6. destruct E6 as [E6 <-]. apply pair_equal_spec in E6. destruct E6 as [<- <-].
      split; [reflexivity|]. exists acc. auto.
    - apply bind_Done in E5. destruct E5 as (id' & ps6 & E5 & E6). apply opt_m_Done in E5. destruct E5 as [_ ->].
      apply bind_Done in E6. destruct E6 as (refused & ps7 & E6 & E7). apply opt_m_Done in E6. destruct E6 as [_ ->].
      apply ret_Done in E7. destruct E7 as [E7 <-]. apply pair_equal_spec in E7. destruct E7 as [<- <-].
      split; [reflexivity|]. exists refused. auto. }
  destruct (is_skep L leqb (s_buf L s) l) as [[b|] [ext|]] eqn:Ec.
  1:{ left. apply ret_Done in E. destruct E as [E <-]. apply pair_equal_spec in E. destruct E as [<- <-].
      exists b, ext. auto. }
  all: right; (split; [intros b0 ext0; congruence|]); apply G; [intros b0 ext0; congruence|exact E].
Qed.

Lemma dyn_query_std_inv oracle thr fuel (s : dsolver) q cert l ps s' a ps' :
  s_kind L s = KCo \/ s_kind L s = KSt ->
  dyn_query oracle L leqb thr fuel s q cert l ps = Done (s', a) ps' ->
  exists ans, a = (if cert then ans else (fst ans, None)) /\
    ((q = QDC /\ dc_query oracle L leqb s l ps = Done (s', ans) ps') \/
     (s_kind L s = KSt /\ q = QDS /\ st_ds_query oracle L leqb s l ps = Done (s', ans) ps')).
Proof.
  intros Hk E. unfold dyn_query in E.
  destruct Hk as [Hk|Hk]; rewrite Hk in E; destruct q; try discriminate E;
    apply bind_Done in E; destruct E as ([s1 ans] & ps1 & E1 & E2);
    apply ret_Done in E2; destruct E2 as [E2 <-]; cbn [fst snd] in E2;
    apply pair_equal_spec in E2; destruct E2 as [<- <-]; exists ans; (split; [reflexivity|]); auto.
Qed.

(* ---- the invariant of reachable states *)
Definition VI (s : dsolver) (ps : Prog.st) : Prop :=
  forall e, b_enc L (s_buf L s) = XStd e ->
    sbounded (sess ps) /\ exists dv atk, cinv (s_af L s) e [] (se_cl (sess ps)) (nv (sess ps)) dv atk.

Lemma reach_RS k (s : dsolver) os ps e :
  reach k s os -> std_kind k -> b_enc L (s_buf L s) = XStd e -> VI s ps ->
  RS (s_af L s) e [] (sess ps) /\ e_upd e = false.
Proof.
  intros Hr Hk He Hvi. assert (Hnd : not_dummy k) by (destruct Hk as [-> |[-> | ->]]; exact I).
  destruct (std_tables_reach L leqb k s os e Hr He Hnd) as [Ht Hu].
  pose proof (vz_reach L leqb k s os Hr) as Hz. unfold vz_buf in Hz. rewrite He in Hz.
  destruct (rep_reach L leqb leqb_spec k s os Hr Hk) as [Hinv _].
  destruct (Hvi e He) as [Hbd Hc]. split; [|exact Hu].
  split; auto. apply tables_ok_split. exact Ht.
Qed.

(* the state after a query that was not served from the cache *)
Lemma pushed_VI oracle (s : dsolver) af buf ev e ps1 a :
  b_enc L buf = XStd e -> RS af e [] (sess ps1) -> VI (pushed_state s af buf ev) (st_solved oracle ps1 a).
Proof.
  intros He [Ht Hinv Hz Hbd (dv & atk & Hc)] e' He'. cbn [pushed_state s_buf s_af buf_push buf_with b_enc] in *.
  assert (e' = e) by congruence. subst e'.
  unfold st_solved, log_ev. cbn [sess]. split; [apply sbounded_solved, Hbd|].
  exists dv, atk. rewrite se_cl_solved. eapply cinv_mono; [exact Hc|apply incl_refl|apply nv_solved].
Qed.

Theorem vreach_VI oracle thr k s ps os :
  vreach oracle thr k s ps os -> k = KCo \/ k = KSt -> VI s ps.
Proof.
  intros Hv Hk. assert (Hsk : std_kind k) by (unfold std_kind; tauto).
  induction Hv as [ps0 s ps Hn|s ps os o Hr IH|s ps os fuel q cert l s' a ps' Hr IH Hq].
  - (* a fresh solver: empty session, empty tables *)
    assert (G : forall sm ps1, VI {| s_kind := k; s_af := empty_fw L leqb;
                  s_buf := {| b_buffer := []; b_next := 0; b_enc := XStd (enc_enable (enc_new sm) false);
                              b_shadow := empty_fw L leqb |} |} (st_new ps1)).
    { intros sm ps1 e He. cbn [s_buf b_enc s_af] in *. injection He as <-.
      assert (T : forall id, tbl_var [] id = None) by (intros [|id]; reflexivity).
      split; [intros c l0 []|]. exists (fun _ => None), (fun _ => []).
      split; cbn [enc_enable enc_new e_a2v e_a2s e_sem st_new sess se_cl empty_session rclauses rev].
      - intros x Hx. congruence.
      - reflexivity.
      - intros a Ha. exfalso. unfold has_argument_with_id, ls_has_id, empty_fw, fw_new_with_labels, fw_new in Ha.
        cbn in Ha. destruct a; discriminate Ha.
      - intros a Ha. rewrite T in Ha. congruence.
      - intros a Ha. rewrite T in Ha. congruence.
      - intros _ a v Hv. rewrite T in Hv. discriminate.
      - intros c []. }
    unfold dyn_new in Hn. destruct Hk as [-> | ->];
      apply bind_Done in Hn; destruct Hn as (u & ps1 & Hn1 & Hn2);
      apply ret_Done in Hn2; destruct Hn2 as [<- <-];
      unfold new_solver in Hn1; apply Done_inj in Hn1; destruct Hn1 as [_ <-]; apply G.
  - (* an update only buffers an event *)
    pose proof (vreach_reach _ _ _ _ _ _ Hr) as Hr'.
    pose proof (reach_frame_inv L leqb _ _ _ Hr') as [Hkind _ _ _].
    assert (Hnd : not_dummy (s_kind L s)) by (rewrite Hkind; destruct Hk as [-> | ->]; exact I).
    destruct (update_touches_no_encoder L leqb s o Hnd) as (Haf & Hen & _).
    intros e He. rewrite Haf. apply IH. rewrite <- Hen. exact He.
  - pose proof (vreach_reach _ _ _ _ _ _ Hr) as Hr'.
    pose proof (reach_frame_inv L leqb _ _ _ Hr') as [Hkind _ _ _].
    pose proof (std_kind_reach L leqb _ _ _ Hr' Hsk) as Hstd.
    destruct (b_enc L (s_buf L s)) as [e0|e0] eqn:Ee0; [|destruct Hstd].
    destruct (reach_RS k s os ps e0 Hr' Hsk Ee0 IH) as [Hrs Hu].
    destruct (dyn_query_std_inv oracle thr fuel s q cert l ps s' a ps' (ltac:(rewrite Hkind; exact Hk)) Hq)
      as (ans & _ & [[_ Hdc]|[_ [_ Hds]]]).
    + destruct (dc_query_inv oracle s l ps s' ans ps' Hdc) as
        [(b & ext & _ & -> & _ & ->)|(_ & af & buf & ps1 & Hue & Hrest)]; [exact IH|].
      destruct (update_encoding_RS _ _ _ _ _ _ _ Ee0 Hrs Hu Hue) as (e' & He' & Hrs' & Hu').
      destruct (Hrest e' He') as (id & v & _ & _ & -> & Hans).
      destruct (answer_of oracle ps1 (e_assum e' ++ [zlit v])) as [m| |]; [| |destruct Hans].
      * destruct Hans as (acc & _ & -> & _). eapply pushed_VI; eassumption.
      * destruct Hans as (-> & _). eapply pushed_VI; eassumption.
    + destruct (st_ds_query_inv oracle s l ps s' ans ps' Hds) as
        [(b & ext & _ & -> & _ & ->)|(_ & af & buf & ps1 & Hue & Hrest)]; [exact IH|].
      destruct (update_encoding_RS _ _ _ _ _ _ _ Ee0 Hrs Hu Hue) as (e' & He' & Hrs' & Hu').
      destruct (Hrest e' He') as (id & v & _ & _ & -> & Hans).
      destruct (answer_of oracle ps1 (e_assum e' ++ [znlit v])) as [m| |]; [| |destruct Hans].
      * destruct Hans as (refused & _ & -> & _). eapply pushed_VI; eassumption.
      * destruct Hans as (refused & -> & _). eapply pushed_VI; eassumption.
Qed.

(* THE CLAUSE-SET INVARIANT over histories (complete and stable dynamic solvers, standard encoder) *)
Theorem clause_set_invariant oracle thr k s ps os e :
  vreach oracle thr k s ps os -> k = KCo \/ k = KSt -> b_enc L (s_buf L s) = XStd e ->
  clause_inv L (s_af L s) e (cls ps) (session_n_vars (sess ps)).
Proof.
  intros Hv Hk He. destruct (vreach_VI _ _ _ _ _ _ Hv Hk e He) as [_ (dv & atk & Hc)].
  assert (Hsk : std_kind k) by (unfold std_kind; tauto).
  assert (Hnd : not_dummy k) by (destruct Hk as [-> | ->]; exact I).
  destruct (std_tables_reach L leqb k s os e (vreach_reach _ _ _ _ _ _ Hv) He Hnd) as [Ht _].
  exact (cinv_clause_inv _ _ _ _ _ _ Hc Ht).
Qed.

(* ================================================================ Part 5 *)
(* The preferred solver (KPr) shares update_encoding; its query additionally adds, on the same session,
   blocking clauses that all contain the MaxExt selector g = 1 + n_vars (at the start of the search)
   and, when the query ends, the unit clause [g].  g is above every live variable, so with the forced
   value TRUE these clauses are dead: the invariant holds between calls for KPr as well.  (What the
   search does DURING the query, with g assumed false, is not covered here.) *)

(* the session grew by clauses that all contain the literal g *)
Definition gext (g : lit) (se se' : session) : Prop :=
  exists cs, se_cl se' = se_cl se ++ cs /\ (forall c, In c cs -> In g c) /\
             (sbounded se -> sbounded se') /\ nv se <= nv se'.

Lemma gext_refl g se : gext g se se.
Proof. exists []. rewrite app_nil_r. repeat split; auto. intros c []. Qed.
Lemma gext_trans g se1 se2 se3 : gext g se1 se2 -> gext g se2 se3 -> gext g se1 se3.
Proof.
  intros (c1 & A1 & A2 & A3 & A4) (c2 & B1 & B2 & B3 & B4). exists (c1 ++ c2).
  rewrite B1, A1, app_assoc. repeat split; auto; [|lia].
  intros c Hc. apply in_app_or in Hc. destruct Hc; auto.
Qed.
Lemma gext_add g se c : In g c -> gext g se (sess_add se c).
Proof.
  intros Hg. exists [c]. rewrite se_cl_add. repeat split.
  - intros c' [<-|[]]. exact Hg.
  - apply sbounded_add.
  - apply nv_add.
Qed.
Lemma gext_solved g d se a : gext g se (sess_solved d se a).
Proof.
  exists []. rewrite se_cl_solved, app_nil_r. repeat split.
  - intros c [].
  - apply sbounded_solved.
  - apply nv_solved.
Qed.
Lemma gext_eq g se se' : se' = se -> gext g se se'.
Proof. intros ->. apply gext_refl. Qed.

Lemma solve_sess oracle a ps r ps' : Prog.solve oracle a ps = Done r ps' -> sess ps' = sess_solved (disc ps) (sess ps) a.
Proof. intros E. apply solve_Done in E. destruct E as [-> _]. reflexivity. Qed.

Lemma k_solve_gext oracle g e a ps r ps' : k_solve oracle e a ps = Done r ps' -> gext g (sess ps) (sess ps').
Proof.
  unfold k_solve. intros E. apply bind_Done in E. destruct E as (m & ps1 & E1 & E2).
  apply solve_sess in E1. apply ret_Done in E2. destruct E2 as [_ <-]. rewrite E1. apply gext_solved.
Qed.
Lemma k_new_search_gext oracle e k ps k' ps' :
  k_new_search oracle e k ps = Done k' ps' -> k_sel k' = k_sel k /\ gext (k_sel k) (sess ps) (sess ps').
Proof.
  unfold k_new_search. intros E. apply bind_Done in E. destruct E as (r & ps1 & E1 & E2).
  apply (k_solve_gext oracle (k_sel k)) in E1. apply ret_Done in E2. destruct E2 as [<- <-].
  split; [destruct r; reflexivity|exact E1].
Qed.
Lemma k_discard_gext (af : fw) e k ps u ps' :
  k_discard L af e k ps = Done u ps' -> gext (k_sel k) (sess ps) (sess ps').
Proof.
  unfold k_discard. intros E. apply bind_Done in E. destruct E as (sp & ps1 & E1 & E2).
  apply opt_m_Done in E1. destruct E1 as [_ ->]. apply add_clause_sess in E2. rewrite E2.
  apply gext_add. apply in_or_app. right. left. reflexivity.
Qed.
Lemma k_compute_next_gext oracle (af : fw) e k ps k' ps' :
  k_compute_next oracle L af e k ps = Done k' ps' -> k_sel k' = k_sel k /\ gext (k_sel k) (sess ps) (sess ps').
Proof.
  unfold k_compute_next. destruct (k_state k); intros E.
  - apply bind_Done in E. destruct E as (u & ps1 & E1 & E2). apply k_discard_gext in E1.
    apply k_new_search_gext in E2. destruct E2 as [E2 E3]. split; [exact E2|]. eapply gext_trans; eassumption.
  - apply bind_Done in E. destruct E as (sp & ps1 & E1 & E2). apply opt_m_Done in E1. destruct E1 as [_ ->].
    apply bind_Done in E2. destruct E2 as (u & ps2 & E2 & E3). apply add_clause_sess in E2.
    apply bind_Done in E3. destruct E3 as (r & ps3 & E3 & E4). apply (k_solve_gext oracle (k_sel k)) in E3.
    apply ret_Done in E4. destruct E4 as [<- <-]. split; [destruct r; reflexivity|].
    eapply gext_trans; [|exact E3]. rewrite E2. apply gext_add. apply in_or_app. right. left. reflexivity.
  - apply k_new_search_gext in E. exact E.
  - discriminate E.
  - apply ret_Done in E. destruct E as [<- <-]. split; [reflexivity|apply gext_refl].
Qed.

Lemma pr_loop_gext oracle fuel (af : fw) e arg_id : forall k fm in_all missing ps res ps',
  pr_loop oracle L fuel af e arg_id k fm in_all missing ps = Done res ps' ->
  k_sel (fst (fst (fst (fst res)))) = k_sel k /\ gext (k_sel k) (sess ps) (sess ps').
Proof.
  induction fuel as [|f IH]; intros k fm in_all missing ps res ps' E; cbn [pr_loop] in E; [discriminate E|].
  apply bind_Done in E. destruct E as (k1 & ps1 & E1 & E2).
  apply k_compute_next_gext in E1. destruct E1 as [Hs1 G1].
  assert (Hrec : forall k2 fm2 ia2 ms2 ps2, k_sel k2 = k_sel k -> gext (k_sel k) (sess ps) (sess ps2) ->
            pr_loop oracle L f af e arg_id k2 fm2 ia2 ms2 ps2 = Done res ps' ->
            k_sel (fst (fst (fst (fst res)))) = k_sel k /\ gext (k_sel k) (sess ps) (sess ps')).
  { intros k2 fm2 ia2 ms2 ps2 Hk2 G2 E'. destruct (IH _ _ _ _ _ _ _ E') as [H1 H2]. rewrite Hk2 in H1, H2.
    split; [exact H1|]. eapply gext_trans; eassumption. }
  destruct (k_state k1).
  - destruct (negb _).
    + apply ret_Done in E2. destruct E2 as [<- <-]. cbn [fst]. auto.
    + eapply Hrec; eassumption.
  - destruct (memb arg_id (k_cur k1)).
    + apply bind_Done in E2. destruct E2 as (u & ps2 & E2 & E3). apply k_discard_gext in E2. rewrite Hs1 in E2.
      eapply Hrec; [|eapply gext_trans; eassumption|exact E3]. exact Hs1.
    + eapply Hrec; eassumption.
  - eapply Hrec; eassumption.
  - apply ret_Done in E2. destruct E2 as [<- <-]. cbn [fst]. auto.
  - eapply Hrec; eassumption.
Qed.

(* what a query of the preferred solver does to the state *)
Lemma pr_ds_query_inv oracle fuel (s : dsolver) l ps s' ans ps' :
  pr_ds_query oracle L leqb fuel s l ps = Done (s', ans) ps' ->
  (s' = s /\ ps' = ps) \/
  (exists af buf ps1, update_encoding L leqb (s_af L s) (s_buf L s) ps = Done (af, buf) ps1 /\
     exists ev, s' = pushed_state s af buf ev /\
       gext (zlit (1 + nv (sess ps1))) (sess ps1) (sess ps') /\
       clause_max [zlit (1 + nv (sess ps1))] <= nv (sess ps')).
Proof.
  unfold pr_ds_query. intros E.
  destruct (is_skep L leqb (s_buf L s) l) as [[b|] [X|]].
  1:{ left. apply ret_Done in E. destruct E as [E <-]. apply pair_equal_spec in E. destruct E as [<- _]. auto. }
  all: right; apply bind_Done in E; destruct E as ([af buf] & ps1 & E1 & E2);
    exists af, buf, ps1; (split; [exact E1|]);
    destruct (b_enc L buf) as [e|e]; [|discriminate E2];
    apply bind_Done in E2; destruct E2 as (n & ps2 & E2 & E3); apply n_vars_sess in E2; destruct E2 as [-> Hs2];
    apply bind_Done in E3; destruct E3 as (arg_id & ps3 & E3 & E4); apply opt_m_Done in E3; destruct E3 as [_ ->];
    apply bind_Done in E4; destruct E4 as ([[[[k result] acc_b] ref_b] X'] & ps4 & E4 & E5);
    apply pr_loop_gext in E4; cbn [fst k_sel] in E4; destruct E4 as [Hk G4];
    apply bind_Done in E5; destruct E5 as (acc & ps5 & E5 & E6); apply opt_m_Done in E5; destruct E5 as [_ ->];
    apply bind_Done in E6; destruct E6 as (refused & ps6 & E6 & E7); apply opt_m_Done in E6; destruct E6 as [_ ->];
    apply bind_Done in E7; destruct E7 as (u & ps7 & E7 & E8); apply add_clause_sess in E7;
    apply ret_Done in E8; destruct E8 as [E8 <-]; apply pair_equal_spec in E8; destruct E8 as [<- _];
    eexists; (split; [reflexivity|]); rewrite Hk in E7; rewrite Hs2 in G4; rewrite E7;
    (split; [eapply gext_trans; [exact G4|apply gext_add; left; reflexivity]|apply nv_add]).
Qed.

Lemma dyn_query_pr_inv oracle thr fuel (s : dsolver) q cert l ps s' a ps' :
  s_kind L s = KPr -> dyn_query oracle L leqb thr fuel s q cert l ps = Done (s', a) ps' ->
  exists ans, pr_ds_query oracle L leqb fuel s l ps = Done (s', ans) ps'.
Proof.
  intros Hk E. unfold dyn_query in E. rewrite Hk in E. destruct q; try discriminate E.
  apply bind_Done in E. destruct E as ([s1 ans] & ps1 & E1 & E2).
  apply ret_Done in E2. destruct E2 as [E2 <-]. cbn [fst snd] in E2.
  apply pair_equal_spec in E2. destruct E2 as [<- _]. exists ans. exact E1.
Qed.

(* every live variable occurs in a clause of the session *)
Lemma live_var_le (af : fw) e C N dv atk se :
  cinv af e [] C N dv atk -> tables_ok L af e -> C = se_cl se -> sbounded se ->
  forall x, live_var e x -> x <= nv se.
Proof.
  intros [H1 H2 H3 H4 H5 H6 H7] Ht -> Hbd x Hx.
  assert (Hsel : forall a s, tbl_var (e_a2s e) a = Some s -> s <= nv se).
  { intros a s Hs. assert (Hne : tbl_var (e_a2s e) a <> None) by congruence.
    assert (Hin : exists c, In c (grp e a (atk a))).
    { unfold grp, co_clauses, st_clauses. destruct (e_sem e); eexists; apply in_or_app; right; [apply in_or_app; left| |apply in_or_app; left]; left; reflexivity. }
    destruct Hin as (c & Hc). pose proof (grp_guard e a _ c Hc) as Hg. rewrite (svar_some e a s Hs) in Hg.
    pose proof (sbounded_lit se c (znlit s) Hbd (H5 a Hne (fun F => F) c Hc) Hg) as Hl. now rewrite lit_var_znlit in Hl. }
  assert (Harg : forall a v, tbl_var (e_a2v e) a = Some v -> v <= nv se /\ (e_sem e <> DST -> S v <= nv se)).
  { intros a v Hv. destruct (sem_st (e_sem e)) eqn:Es.
    - apply sem_st_true in Es. split; [|congruence].
      assert (Ha : has af a = true) by (apply (t_live L af e Ht); congruence).
      assert (Hne : tbl_var (e_a2s e) a <> None) by (apply H3; auto).
      assert (Hc : In ([negate (zlit (svar e a)); zlit (avar e a)] ++ map zlit (map (avar e) (atk a))) (grp e a (atk a))).
      { unfold grp, st_clauses. rewrite Es. apply in_or_app. right. left. reflexivity. }
      pose proof (sbounded_lit se _ (zlit v) Hbd (H5 a Hne (fun F => F) _ Hc)) as Hl. rewrite lit_var_zlit in Hl.
      apply Hl. rewrite (avar_some e a v Hv). right. left. reflexivity.
    - apply sem_st_false in Es. pose proof (H6 Es a v Hv) as Hb.
      pose proof (sbounded_lit se _ (znlit v) Hbd Hb) as L1. pose proof (sbounded_lit se _ (znlit (S v)) Hbd Hb) as L2.
      rewrite lit_var_znlit in L1, L2. split; [apply L1; left; reflexivity|intros _; apply L2; right; left; reflexivity]. }
  destruct Hx as [(a & Ha)|[(Hs & a & v & Ha & ->)|(a & Ha)]].
  - apply (Harg a x Ha).
  - apply (Harg a v Ha). exact Hs.
  - apply (Hsel a x Ha).
Qed.

(* clauses guarded by a variable above n_vars that is forced true are dead *)
Lemma cinv_add_guarded (af : fw) e C cs N N' dv atk g :
  cinv af e [] C N dv atk -> (forall x, live_var e x -> x <= N) -> N < g -> g <= N' -> N <= N' ->
  (forall c, In c cs -> In (zlit g) c) ->
  cinv af e [] (C ++ cs) N' (updo dv g true) atk.
Proof.
  intros Hc Hlv Hg HgN HN Hcs. pose proof (dv_fresh_none _ _ _ _ _ _ _ g Hc Hg) as Hdg.
  pose proof Hc as [H1 H2 H3 H4 H5 H6 H7].
  assert (K1 : forall x b, dv x = Some b -> updo dv g true x = Some b).
  { intros x b E. rewrite updo_other; [exact E|]. intros ->. congruence. }
  split; auto.
  - intros x Hx. destruct (Nat.eq_dec x g) as [->|Hne]; [exact HgN|].
    rewrite updo_other in Hx by exact Hne. specialize (H1 x Hx). lia.
  - intros x Hx. rewrite updo_other; [apply H2, Hx|]. specialize (Hlv x Hx). lia.
  - intros a Hs Hn. apply incl_appl. auto.
  - intros Hs a v Hv. apply in_or_app. left. eauto.
  - intros c Hc'. apply in_app_or in Hc'. destruct Hc' as [Hc'|Hc'].
    + destruct (H7 c Hc') as [Hd|[H|[H|H]]].
      * left. eapply dead_clause_mono; [exact K1|exact Hd].
      * right. left. exact H.
      * right. right. left. exact H.
      * right. right. right. exact H.
    + left. exists (zlit g). split; [apply Hcs, Hc'|]. apply dead_zlit; [lia|apply updo_same].
Qed.

Theorem vreach_VI_pr oracle thr s ps os : vreach oracle thr KPr s ps os -> VI s ps.
Proof.
  intros Hv. assert (Hsk : std_kind KPr) by (unfold std_kind; tauto).
  induction Hv as [ps0 s ps Hn|s ps os o Hr IH|s ps os fuel q cert l s' a ps' Hr IH Hq].
  - unfold dyn_new in Hn. apply bind_Done in Hn. destruct Hn as (u & ps1 & Hn1 & Hn2).
    apply ret_Done in Hn2. destruct Hn2 as [<- <-]. unfold new_solver in Hn1. apply Done_inj in Hn1. destruct Hn1 as [_ <-].
    intros e He. cbn [s_buf b_enc s_af] in *. injection He as <-.
    assert (T : forall id, tbl_var [] id = None) by (intros [|id]; reflexivity).
    split; [intros c l0 []|]. exists (fun _ => None), (fun _ => []).
    split; cbn [enc_enable enc_new e_a2v e_a2s e_sem st_new sess se_cl empty_session rclauses rev].
    + intros x Hx. congruence.
    + reflexivity.
    + intros a Ha. exfalso. unfold has_argument_with_id, ls_has_id, empty_fw, fw_new_with_labels, fw_new in Ha.
      cbn in Ha. destruct a; discriminate Ha.
    + intros a Ha. rewrite T in Ha. congruence.
    + intros a Ha. rewrite T in Ha. congruence.
    + intros _ a v Hv. rewrite T in Hv. discriminate.
    + intros c [].
  - pose proof (vreach_reach _ _ _ _ _ _ Hr) as Hr'.
    pose proof (reach_frame_inv L leqb _ _ _ Hr') as [Hkind _ _ _].
    assert (Hnd : not_dummy (s_kind L s)) by (rewrite Hkind; exact I).
    destruct (update_touches_no_encoder L leqb s o Hnd) as (Haf & Hen & _).
    intros e He. rewrite Haf. apply IH. rewrite <- Hen. exact He.
  - pose proof (vreach_reach _ _ _ _ _ _ Hr) as Hr'.
    pose proof (reach_frame_inv L leqb _ _ _ Hr') as [Hkind _ _ _].
    pose proof (std_kind_reach L leqb _ _ _ Hr' Hsk) as Hstd.
    destruct (b_enc L (s_buf L s)) as [e0|e0] eqn:Ee0; [|destruct Hstd].
    destruct (reach_RS KPr s os ps e0 Hr' Hsk Ee0 IH) as [Hrs Hu].
    destruct (dyn_query_pr_inv oracle thr fuel s q cert l ps s' a ps' Hkind Hq) as (ans & Hpr).
    destruct (pr_ds_query_inv oracle fuel s l ps s' ans ps' Hpr) as
      [(-> & ->)|(af & buf & ps1 & Hue & ev & -> & (cs & G1 & G2 & G3 & G4) & G5)]; [exact IH|].
    destruct (update_encoding_RS _ _ _ _ _ _ _ Ee0 Hrs Hu Hue) as (e' & He' & [Ht Hinv Hz Hbd (dv & atk & Hc)] & Hu').
    intros e'' He''. cbn [pushed_state s_buf s_af buf_push buf_with b_enc] in *.
    assert (e'' = e') by congruence. subst e''. split; [apply G3, Hbd|].
    exists (updo dv (1 + nv (sess ps1)) true), atk. rewrite G1.
    rewrite clause_max_single, lit_var_zlit in G5.
    apply (cinv_add_guarded af e' _ cs (nv (sess ps1)) _ dv atk (1 + nv (sess ps1)) Hc); auto; try lia.
    eapply live_var_le; [exact Hc| |reflexivity|exact Hbd]. apply tables_ok_split. exact Ht.
Qed.

(* THE CLAUSE-SET INVARIANT for every kind with the standard encoder (complete, stable, preferred) *)
Theorem clause_set_invariant_std oracle thr k s ps os e :
  vreach oracle thr k s ps os -> k = KCo \/ k = KSt \/ k = KPr -> b_enc L (s_buf L s) = XStd e ->
  clause_inv L (s_af L s) e (cls ps) (session_n_vars (sess ps)).
Proof.
  intros Hv Hk He.
  assert (Hvi : VI s ps).
  { destruct Hk as [Hk|[Hk|Hk]].
    - eapply vreach_VI; [exact Hv|auto].
    - eapply vreach_VI; [exact Hv|auto].
    - subst k. eapply vreach_VI_pr; exact Hv. }
  destruct (Hvi e He) as [_ (dv & atk & Hc)].
  assert (Hnd : not_dummy k) by (destruct Hk as [-> |[-> | ->]]; exact I).
  destruct (std_tables_reach L leqb k s os e (vreach_reach _ _ _ _ _ _ Hv) He Hnd) as [Ht _].
  exact (cinv_clause_inv _ _ _ _ _ _ Hc Ht).
Qed.

End DynInv.
