(* The table invariant of the assumptions-on-attacks encoder (Model/Dynamic.v: aenc) over every
   history: analogue of DynProofs.std_tables_reach for the kinds KCoAtt / KStAtt.
   Part A: list facts (the fresh table of a re-encoding).
   Part B: the encoder operations preserve the invariant (new / removed argument, attacks, re-encoding).
   Part C: every reachable state; att_indices / att_assumptions succeed. *)
From Crusta Require Import Model.Dynamic Proofs.StoreBase Proofs.StoreProofs Proofs.DynDefs Proofs.DynBase
  Proofs.DynProofs Proofs.DynSafe Proofs.DynAttDefs.
From Coq Require Import Lia ZifyBool.

(* ================================================================ Part A *)
Lemma nth_error_app_case {A} (l1 l2 : list A) i :
  nth_error (l1 ++ l2) i = if Nat.ltb i (length l1) then nth_error l1 i else nth_error l2 (i - length l1).
Proof.
  destruct (Nat.ltb i (length l1)) eqn:E.
  - apply nth_error_app1. apply Nat.ltb_lt. exact E.
  - apply nth_error_app2. apply Nat.ltb_ge. exact E.
Qed.
Lemma nth_error_repeat_case {A} (x : A) n i :
  nth_error (repeat x n) i = if Nat.ltb i n then Some x else None.
Proof.
  destruct (Nat.ltb i n) eqn:E.
  - apply nth_error_repeat. apply Nat.ltb_lt. exact E.
  - apply nth_error_None. rewrite repeat_length. apply Nat.ltb_ge. exact E.
Qed.
Lemma nth_error_set_nth_case {A} (i j : nat) (x : A) (l : list A) :
  nth_error (set_nth i x l) j = if Nat.eqb i j && Nat.ltb i (length l) then Some x else nth_error l j.
Proof.
  destruct (Nat.eqb i j) eqn:E; cbn [andb].
  - apply Nat.eqb_eq in E. subst j. destruct (Nat.ltb i (length l)) eqn:El.
    + apply nth_error_set_nth_eq. apply Nat.ltb_lt. exact El.
    + apply Nat.ltb_ge in El. rewrite (proj2 (nth_error_None l i) El).
      apply nth_error_None. rewrite length_set_nth. exact El.
  - apply nth_error_set_nth_neq. apply Nat.eqb_neq. exact E.
Qed.

Lemma tbl_var_repeat_none n id : tbl_var (repeat None n) id = None.
Proof. unfold tbl_var. rewrite nth_error_repeat_case. destruct (Nat.ltb id n); reflexivity. Qed.

(* writing a list of (index, value) pairs with distinct indices into a table *)
Lemma fold_set_tbl (l : list (nat * nat)) : forall t id,
  NoDup (map fst l) -> (forall p, In p l -> fst p < length t) ->
  tbl_var (fold_left (fun t p => set_nth (fst p) (Some (snd p)) t) l t) id =
  match find (fun p => Nat.eqb (fst p) id) l with Some p => Some (snd p) | None => tbl_var t id end.
Proof.
  induction l as [|p r IH]; intros t id Hnd Hlt; cbn [fold_left find]; [reflexivity|].
  cbn [map] in Hnd. apply NoDup_cons_iff in Hnd. destruct Hnd as [Hnin Hnd].
  rewrite IH; [|exact Hnd|intros q Hq; rewrite length_set_nth; apply Hlt; right; exact Hq].
  destruct (Nat.eqb (fst p) id) eqn:E.
  - apply Nat.eqb_eq in E. subst id.
    destruct (find (fun q => Nat.eqb (fst q) (fst p)) r) as [q|] eqn:Ef.
    + exfalso. apply find_some in Ef. destruct Ef as [Hq He]. apply Nat.eqb_eq in He.
      apply Hnin. rewrite <- He. apply in_map. exact Hq.
    + apply tbl_var_set_eq. apply Hlt. left; reflexivity.
  - apply Nat.eqb_neq in E. destruct (find _ r); [reflexivity|]. apply tbl_var_set_neq. exact E.
Qed.
Lemma fold_set_length (l : list (nat * nat)) : forall t,
  length (fold_left (fun t p => set_nth (fst p) (Some (snd p)) t) l t) = length t.
Proof. induction l as [|p r IH]; intros t; cbn [fold_left]; [reflexivity|]. rewrite IH. apply length_set_nth. Qed.

Lemma In_combine_seq (ids : list nat) : forall s id v,
  In (id, v) (combine ids (seq s (length ids))) <-> exists k, nth_error ids k = Some id /\ v = s + k.
Proof.
  induction ids as [|x r IH]; intros s id v; cbn [length seq combine In].
  - split; [intros []|intros (k & H & _); destruct k; discriminate H].
  - rewrite IH. split.
    + intros [E|(k & Hk & ->)].
      * injection E as -> ->. exists 0. split; [reflexivity|lia].
      * exists (S k). split; [exact Hk|lia].
    + intros ([|k] & Hk & ->).
      * left. cbn [nth_error] in Hk. injection Hk as ->. f_equal. lia.
      * right. exists k. split; [exact Hk|lia].
Qed.
Lemma map_fst_combine_seq (ids : list nat) s : map fst (combine ids (seq s (length ids))) = ids.
Proof. revert s. induction ids as [|x r IH]; intros s; cbn [length seq combine map fst]; [reflexivity|]. now rewrite IH. Qed.

Lemma find_fst_In (l : list (nat * nat)) id v :
  NoDup (map fst l) ->
  (find (fun p => Nat.eqb (fst p) id) l = Some (id, v) <-> In (id, v) l).
Proof.
  intros Hnd. split.
  - intros H. apply find_some in H. exact (proj1 H).
  - induction l as [|p r IH]; intros Hin; [destruct Hin|]. cbn [find].
    cbn [map] in Hnd. apply NoDup_cons_iff in Hnd. destruct Hnd as [Hnin Hnd].
    destruct Hin as [->|Hin]; cbn [fst].
    + rewrite Nat.eqb_refl. reflexivity.
    + destruct (Nat.eqb (fst p) id) eqn:E; [|apply IH; assumption].
      apply Nat.eqb_eq in E. exfalso. apply Hnin. rewrite E. change id with (fst (id, v)). apply in_map. exact Hin.
Qed.
Lemma find_fst_fst (l : list (nat * nat)) id p : find (fun p => Nat.eqb (fst p) id) l = Some p -> fst p = id.
Proof. intros H. apply find_some in H. apply Nat.eqb_eq. exact (proj2 H). Qed.

Section Tables.
Variable L : Type.
Variable leqb : L -> L -> bool.
Hypothesis leqb_spec : forall x y, leqb x y = true <-> x = y.

Notation fw := (fw L).
Notation Inv := (Inv L).
Notation get_argument := (get_argument L leqb).
Notation att_tables_ok := (att_tables_ok L).
Notation ev_apply := (DynDefs.ev_apply L leqb).
Notation pending := (DynDefs.pending L).
Notation reach := (DynDefs.reach L leqb).

(* ---- the store side *)
Lemma live_ids_nodup (af : fw) : Inv af -> NoDup (live_ids L af).
Proof.
  intros Hinv. unfold live_ids, iter_args, ls_iter.
  pose proof (ids_sorted_off L (slots (ls af)) 0 (inv_id L af Hinv)) as [Hs _].
  clear Hinv. induction Hs as [|x r Hs IH Hall]; constructor; [|exact IH].
  intros Hin. rewrite Forall_forall in Hall. specialize (Hall x Hin). lia.
Qed.
Lemma live_ids_length (af : fw) : Inv af -> length (live_ids L af) = n_arguments L af.
Proof.
  intros Hinv. unfold live_ids, iter_args, ls_iter, n_arguments, ls_len. rewrite map_length.
  pose proof (inv_nrem L af Hinv). lia.
Qed.
Lemma live_ids_has (af : fw) id : Inv af -> (In id (live_ids L af) <-> has_argument_with_id L af id = true).
Proof.
  intros Hinv. rewrite (has_arg_nth L). unfold live_ids, iter_args, ls_iter. symmetry. apply (live_ids_spec L); exact Hinv.
Qed.
Lemma has_arg_lt (af : fw) id : has_argument_with_id L af id = true -> id < length (slots (ls af)).
Proof.
  intros H. apply (has_arg_nth L) in H. destruct (nth id (slots (ls af)) None) eqn:E; [|congruence].
  eapply nth_Some_lt. exact E.
Qed.

(* ---- the table of a re-encoding *)
Lemma fresh_a2v_length (af : fw) : length (att_fresh_a2v L af) = Nat.max 1 (length (slots (ls af))).
Proof.
  unfold att_fresh_a2v. rewrite fold_set_length, repeat_length.
  unfold max_argument_id, ls_max_id. destruct (slots (ls af)) as [|o r]; cbn [length]; lia.
Qed.
Lemma fresh_a2v_spec (af : fw) id v : Inv af ->
  (tbl_var (att_fresh_a2v L af) id = Some v <-> exists k, nth_error (live_ids L af) k = Some id /\ v = S k).
Proof.
  intros Hinv. unfold att_fresh_a2v.
  set (ids := live_ids L af). set (l := combine ids (seq 1 (length ids))).
  assert (Hnd : NoDup (map fst l)) by (unfold l; rewrite map_fst_combine_seq; apply live_ids_nodup; exact Hinv).
  rewrite fold_set_tbl; [|exact Hnd|].
  - rewrite tbl_var_repeat_none. rewrite <- (In_combine_seq ids 1 id v). fold l.
    rewrite <- (find_fst_In l id v Hnd).
    destruct (find (fun p => Nat.eqb (fst p) id) l) as [[i w]|] eqn:Ef; [|split; discriminate].
    pose proof (find_fst_fst _ _ _ Ef) as Hi. cbn [fst] in Hi. subst i. cbn [snd]. split; congruence.
  - intros [i w] Hp. cbn [fst]. rewrite repeat_length.
    assert (Hi : In i ids).
    { rewrite <- (map_fst_combine_seq ids 1). change i with (fst (i, w)). apply in_map. exact Hp. }
    apply (live_ids_has af i Hinv) in Hi. apply has_arg_lt in Hi.
    unfold max_argument_id, ls_max_id. destruct (slots (ls af)) as [|o r]; cbn [length] in *; lia.
Qed.

(* ================================================================ Part B *)
(* what is known about the tables while a re-encoding is pending: only that table entries are indices
   of solver_vars (what remove_argument needs) *)
Definition weak (e : aenc) : Prop := forall id v, tbl_var (a_a2v e) id = Some v -> v < length (a_vars e).
Definition att_pre (af : fw) (e : aenc) : Prop := (a_need e = true /\ weak e) \/ att_tables_ok af e.
Definition same_par (e e' : aenc) : Prop := a_sem e' = a_sem e /\ a_num e' = a_num e /\ a_den e' = a_den e.

Lemma same_par_refl e : same_par e e.
Proof. unfold same_par. auto. Qed.
Lemma same_par_trans e1 e2 e3 : same_par e1 e2 -> same_par e2 e3 -> same_par e1 e3.
Proof. unfold same_par. intros (A & B & C) (D & E & F). repeat split; congruence. Qed.

Lemma tables_weak af e : att_tables_ok af e -> weak e.
Proof. intros Ht id v Hv. destruct (at_arg L af e Ht id v Hv) as (_ & _ & H). eapply nth_error_lt. exact H. Qed.
Lemma tables_pre_weak af e : att_pre af e -> weak e.
Proof. intros [[_ H]|H]; [exact H|eapply tables_weak; exact H]. Qed.

Lemma att_tables_ls af af' e : ls af' = ls af -> att_tables_ok af e -> att_tables_ok af' e.
Proof.
  intros Hls [H1 H2 H3 H4 H5 H6 H7 H8 H9 H10].
  constructor; unfold n_arguments, has_argument_with_id in *; rewrite ?Hls; auto.
Qed.
Lemma att_pre_ls af af' e : ls af' = ls af -> att_pre af e -> att_pre af' e.
Proof. intros Hls [H|H]; [left; exact H|right; eapply att_tables_ls; eassumption]. Qed.

Lemma tables_var_le af e id v : att_tables_ok af e -> tbl_var (a_a2v e) id = Some v -> 1 <= v /\ v <= a_n e.
Proof.
  intros Ht Hv. destruct (at_arg L af e Ht id v Hv) as (H1 & H2 & _). pose proof (at_next L af e Ht). lia.
Qed.
(* the variables in use are pairwise distinct *)
Lemma tables_inj af e i j v : att_tables_ok af e ->
  tbl_var (a_a2v e) i = Some v -> tbl_var (a_a2v e) j = Some v -> i = j.
Proof.
  intros Ht Hi Hj. destruct (at_arg L af e Ht i v Hi) as (_ & _ & H1). destruct (at_arg L af e Ht j v Hj) as (_ & _ & H2).
  congruence.
Qed.

(* ---- a new argument takes over the next unused slot *)
Lemma tables_push af af' e l vars' :
  att_tables_ok af e -> a_next e < a_n e ->
  slots (ls af') = slots (ls af) ++ [Some (length (slots (ls af)), l)] ->
  n_arguments L af' <= S (n_arguments L af) ->
  length vars' = length (a_vars e) ->
  (forall i, nth_error vars' i =
     if Nat.eqb i (a_next e) then Some (VArg (length (slots (ls af))))
     else if Nat.eqb i (a_next e + a_n e * (1 + a_n e)) && (match a_sem e with DCO => true | _ => false end)
          then Some (VDisj (length (slots (ls af))))
          else nth_error (a_vars e) i) ->
  att_tables_ok af' (aenc_with e (a_a2v e ++ [Some (a_next e)]) vars' (S (a_next e)) (a_n e) false).
Proof.
  intros Ht Hlt Hsl Hn Hlen Hv.
  pose proof Ht as [T1 T2 T3 T4 T5 T6 T7 T8 T9 T10].
  set (len := length (slots (ls af))) in *. set (nx := a_next e) in *. set (n := a_n e) in *.
  assert (Hne : slots (ls af) <> []) by (intros E; specialize (T3 E); lia).
  assert (Hl2 : length (a_a2v e) = len).
  { rewrite T2. fold len. destruct (slots (ls af)) eqn:E; [congruence|]. cbn [length] in len. lia. }
  assert (Hnx : forall id v, tbl_var (a_a2v e) id = Some v -> v <> nx /\ v <> nx + n * (1 + n)).
  { intros id v H. destruct (T6 id v H) as (A & B & _). fold nx in B. lia. }
  constructor; cbn [aenc_with a_sem a_a2v a_vars a_num a_den a_next a_n a_need]; fold nx n.
  - reflexivity.
  - rewrite Hsl, !app_length. cbn [length]. fold len. lia.
  - rewrite Hsl. intros E. destruct (slots (ls af)); discriminate E.
  - rewrite Hlen. exact T4.
  - fold nx n in T5. lia.
  - intros id v H.
    destruct (Nat.lt_total id len) as [Hid|[->|Hid]].
    + rewrite tbl_var_snoc_old in H by lia. destruct (T6 id v H) as (A & B & C). destruct (Hnx id v H) as [N1 N2].
      fold nx in B. split; [exact A|]. split; [lia|]. rewrite Hv.
      apply Nat.eqb_neq in N1, N2. rewrite N1, N2. cbn [andb]. exact C.
    + rewrite <- Hl2, tbl_var_snoc_new in H. injection H as <-.
      assert (1 <= nx) by (fold nx in T5; lia).
      split; [assumption|]. split; [lia|]. rewrite Hv, Nat.eqb_refl. reflexivity.
    + rewrite tbl_var_snoc_beyond in H by lia. discriminate H.
  - intros Es id v H.
    destruct (Nat.lt_total id len) as [Hid|[->|Hid]].
    + rewrite tbl_var_snoc_old in H by lia. destruct (T6 id v H) as (A & B & C). fold nx in B.
      rewrite Hv. assert (N1 : Nat.eqb (v + n * (1 + n)) nx = false) by (apply Nat.eqb_neq; lia).
      assert (N2 : Nat.eqb (v + n * (1 + n)) (nx + n * (1 + n)) = false) by (apply Nat.eqb_neq; lia).
      rewrite N1, N2. cbn [andb]. exact (T7 Es id v H).
    + rewrite <- Hl2, tbl_var_snoc_new in H. injection H as <-.
      rewrite Hv. assert (N1 : Nat.eqb (nx + n * (1 + n)) nx = false) by (apply Nat.eqb_neq; lia).
      rewrite N1, Nat.eqb_refl, Es. cbn [andb]. reflexivity.
    + rewrite tbl_var_snoc_beyond in H by lia. discriminate H.
  - intros i Hi1 Hi2. rewrite Hv.
    assert (N1 : Nat.eqb i nx = false) by (apply Nat.eqb_neq; lia).
    assert (N2 : Nat.eqb i (nx + n * (1 + n)) = false) by (apply Nat.eqb_neq; fold nx in T5; lia).
    rewrite N1, N2. cbn [andb]. apply T8; assumption.
  - intros id. rewrite (has_arg_nth L), Hsl. fold len.
    destruct (Nat.lt_total id len) as [Hid|[->|Hid]].
    + rewrite app_nth1 by exact Hid. rewrite tbl_var_snoc_old by lia. rewrite <- (has_arg_nth L). apply T9.
    + rewrite app_nth2, Nat.sub_diag by lia. cbn [nth]. rewrite <- Hl2, tbl_var_snoc_new. split; discriminate.
    + rewrite nth_overflow by (rewrite app_length; cbn [length]; fold len; lia).
      rewrite tbl_var_snoc_beyond by lia. split; congruence.
  - intros v id. rewrite Hv. destruct (Nat.eqb v nx) eqn:E1.
    + apply Nat.eqb_eq in E1. subst v. intros H. injection H as <-. rewrite <- Hl2. apply tbl_var_snoc_new.
    + destruct (Nat.eqb v (nx + n * (1 + n)) && _); [discriminate|].
      intros H. specialize (T10 v id H). pose proof (tbl_var_lt _ _ _ T10). rewrite tbl_var_snoc_old by lia. exact T10.
Qed.

Lemma new_argument_n_args (af : fw) l : n_arguments L (Store.new_argument L leqb af l) <= S (n_arguments L af).
Proof.
  unfold n_arguments, Store.new_argument, new_label, ls_len.
  destruct (find_label L leqb (ls af) l); destruct (Nat.ltb _ _); cbn [ls slots n_removed]; rewrite ?app_length; cbn [length]; lia.
Qed.

Lemma att_new_argument_ok af e l :
  att_pre af e -> okm (att_new_argument L leqb af e l) (fun r => att_pre (fst r) (snd r) /\ same_par e (snd r)).
Proof.
  intros Hp. unfold att_new_argument. destruct (get_argument af l) as [id0|] eqn:Eg.
  { apply okm_ret. split; [exact Hp|apply same_par_refl]. }
  destruct (a_need e || Nat.leb (a_n e) (a_next e)) eqn:En.
  { apply okm_ret. cbn [fst snd]. split; [|unfold same_par; cbn; auto].
    left. split; [reflexivity|]. exact (tables_pre_weak _ _ Hp). }
  apply orb_false_iff in En. destruct En as [En1 En2]. apply Nat.leb_gt in En2.
  destruct Hp as [[Hn _]|Ht]; [congruence|].
  destruct (new_argument_fresh_slots L leqb af l Eg) as [Hsl Hmax]. rewrite Hmax.
  pose proof (new_argument_n_args af l) as Hna.
  destruct (Nat.ltb (a_next e) (length (a_vars e))) eqn:E1; [|apply okm_panic]. apply Nat.ltb_lt in E1.
  destruct (a_sem e) eqn:Es.
  - destruct (Nat.ltb _ _) eqn:E2; [|apply okm_panic]. apply Nat.ltb_lt in E2. rewrite length_set_nth in E2.
    apply okm_ret. cbn [fst snd]. split; [|unfold same_par; cbn; auto]. right.
    apply (tables_push af _ e l); auto.
    + rewrite !length_set_nth. reflexivity.
    + intros i. rewrite !nth_error_set_nth_case, length_set_nth, Es.
      pose proof (at_next L af e Ht) as Hnx.
      destruct (Nat.eqb i (a_next e)) eqn:Ei.
      * apply Nat.eqb_eq in Ei. subst i.
        replace (Nat.eqb (a_next e + a_n e * (1 + a_n e)) (a_next e)) with false by (symmetry; apply Nat.eqb_neq; lia).
        cbn [andb]. rewrite Nat.eqb_refl. replace (Nat.ltb (a_next e) (length (a_vars e))) with true by (symmetry; apply Nat.ltb_lt; lia).
        reflexivity.
      * rewrite (Nat.eqb_sym (a_next e) i), Ei. cbn [andb].
        rewrite (Nat.eqb_sym _ i). destruct (Nat.eqb i (a_next e + a_n e * (1 + a_n e))); cbn [andb]; [|reflexivity].
        replace (Nat.ltb _ (length (a_vars e))) with true by (symmetry; apply Nat.ltb_lt; lia). reflexivity.
  - apply okm_ret. cbn [fst snd]. split; [|unfold same_par; cbn; auto]. right.
    apply (tables_push af _ e l); auto.
    + rewrite !length_set_nth. reflexivity.
    + intros i. rewrite !nth_error_set_nth_case, Es, andb_false_r.
      rewrite (Nat.eqb_sym (a_next e) i). destruct (Nat.eqb i (a_next e)); cbn [andb]; [|reflexivity].
      replace (Nat.ltb _ (length (a_vars e))) with true by (symmetry; apply Nat.ltb_lt; lia). reflexivity.
  - apply okm_ret. cbn [fst snd]. split; [|unfold same_par; cbn; auto]. right.
    apply (tables_push af _ e l); auto.
    + rewrite !length_set_nth. reflexivity.
    + intros i. rewrite !nth_error_set_nth_case, Es, andb_false_r.
      rewrite (Nat.eqb_sym (a_next e) i). destruct (Nat.eqb i (a_next e)); cbn [andb]; [|reflexivity].
      replace (Nat.ltb _ (length (a_vars e))) with true by (symmetry; apply Nat.ltb_lt; lia). reflexivity.
Qed.

(* ---- a removed argument gives up its variable (the slot is not reused before the next re-encoding) *)
Lemma remove_argument_ls (af af' : fw) l id :
  get_argument af l = Some id -> Store.remove_argument L leqb af l = (af', ROk) ->
  ls af' = {| slots := set_nth id None (slots (ls af)); n_removed := S (n_removed (ls af)) |}.
Proof.
  unfold Store.get_argument, Store.remove_argument, remove_label. intros H. rewrite H.
  destruct (fold_left _ _ _). intros E. injection E as <-. reflexivity.
Qed.

Lemma tables_remove af af' e id v :
  att_tables_ok af e ->
  ls af' = {| slots := set_nth id None (slots (ls af)); n_removed := S (n_removed (ls af)) |} ->
  tbl_var (a_a2v e) id = Some v ->
  att_tables_ok af' (aenc_with e (set_nth id None (a_a2v e)) (set_nth v VIgnored (a_vars e))
                               (a_next e) (a_n e) (a_need e)).
Proof.
  intros Ht Hls Hv. pose proof Ht as [T1 T2 T3 T4 T5 T6 T7 T8 T9 T10].
  pose proof (tbl_var_lt _ _ _ Hv) as Hid. destruct (tables_var_le af e id v Ht Hv) as [Hv1 Hvn].
  destruct (T6 id v Hv) as (_ & _ & Hty). pose proof (nth_error_lt _ _ _ Hty) as Hvl.
  assert (Hold : forall id' v', tbl_var (set_nth id None (a_a2v e)) id' = Some v' ->
                  id' <> id /\ tbl_var (a_a2v e) id' = Some v' /\ v' <> v).
  { intros id' v' H. destruct (Nat.eq_dec id' id) as [->|Hne].
    - rewrite tbl_var_set_eq in H by exact Hid. discriminate H.
    - rewrite tbl_var_set_neq in H by auto. split; [exact Hne|]. split; [exact H|].
      intros ->. apply Hne. eapply tables_inj; eassumption. }
  constructor; cbn [aenc_with a_sem a_a2v a_vars a_num a_den a_next a_n a_need];
    unfold n_arguments, has_argument_with_id, ls_len, ls_has_id; rewrite ?Hls; cbn [slots n_removed];
    rewrite ?length_set_nth.
  - exact T1.
  - exact T2.
  - intros E. apply T3. destruct (slots (ls af)); [reflexivity|destruct id; discriminate E].
  - exact T4.
  - unfold n_arguments, ls_len in T5. lia.
  - intros id' v' H. destruct (Hold id' v' H) as (N1 & H' & N2). destruct (T6 id' v' H') as (A & B & C).
    split; [exact A|]. split; [exact B|]. rewrite nth_error_set_nth_neq by auto. exact C.
  - intros Es id' v' H. destruct (Hold id' v' H) as (N1 & H' & N2). destruct (tables_var_le af e id' v' Ht H') as [A B].
    rewrite nth_error_set_nth_neq by lia. exact (T7 Es id' v' H').
  - intros i Hi1 Hi2. rewrite nth_error_set_nth_neq by lia. apply T8; assumption.
  - intros id'. destruct (Nat.eq_dec id' id) as [->|Hne].
    + rewrite nth_set_nth_default, Nat.eqb_refl. rewrite tbl_var_set_eq by exact Hid. split; congruence.
    + rewrite nth_set_nth_neq by auto. rewrite tbl_var_set_neq by auto. apply T9.
  - intros v' id'. rewrite nth_error_set_nth_case. destruct (Nat.eqb v v' && _) eqn:E; [discriminate|].
    intros H. specialize (T10 v' id' H). destruct (Nat.eq_dec id' id) as [->|Hne].
    + exfalso. assert (v' = v) by congruence. subst v'. rewrite Nat.eqb_refl in E. cbn [andb] in E.
      apply Nat.ltb_ge in E. lia.
    + rewrite tbl_var_set_neq by auto. exact T10.
Qed.

Lemma att_remove_argument_ok af e l :
  Inv af -> att_pre af e ->
  okm (att_remove_argument L leqb af e l)
      (fun r => att_pre (fst (fst r)) (snd (fst r)) /\ same_par e (snd (fst r))).
Proof.
  intros Hinv Hp. unfold att_remove_argument.
  destruct (get_argument af l) as [id|] eqn:Eg.
  2:{ apply okm_ret. split; [exact Hp|apply same_par_refl]. }
  destruct (Store.remove_argument L leqb af l) as [af' [| |]] eqn:Er;
    try (apply okm_ret; split; [exact Hp|apply same_par_refl]).
  pose proof (remove_argument_ls af af' l id Eg Er) as Hls.
  pose proof (get_argument_live L leqb leqb_spec af l id Hinv Eg) as Hlive.
  destruct (Nat.ltb id (length (a_a2v e))) eqn:Elt.
  - apply Nat.ltb_lt in Elt.
    assert (Hnth : tbl_var (a_a2v e) id = nth id (a_a2v e) None).
    { unfold tbl_var. rewrite (nth_error_nth' _ None Elt). destruct (nth id (a_a2v e) None); reflexivity. }
    destruct (nth id (a_a2v e) None) as [v|] eqn:Env.
    + destruct (Nat.ltb v (length (a_vars e))) eqn:Ev; [|apply okm_panic].
      apply okm_bind_any. intros _. apply okm_ret. cbn [fst snd]. split; [|unfold same_par; cbn; auto].
      destruct Hp as [[Hn Hw]|Ht].
      * left. cbn [aenc_with a_need a_a2v a_vars]. split; [exact Hn|].
        intros id' v' H. cbn [aenc_with a_a2v a_vars] in H |- *. rewrite length_set_nth. destruct (Nat.eq_dec id' id) as [->|Hne].
        -- rewrite tbl_var_set_eq in H by exact Elt. discriminate H.
        -- rewrite tbl_var_set_neq in H by auto. exact (Hw id' v' H).
      * right. apply (tables_remove af af' e id v Ht Hls Hnth).
    + apply okm_ret. cbn [fst snd]. split; [|apply same_par_refl].
      destruct Hp as [Hw|Ht]; [left; exact Hw|exfalso].
      apply (proj1 (at_live L af e Ht id) Hlive). exact Hnth.
  - apply okm_ret. cbn [fst snd]. split; [|apply same_par_refl].
    destruct Hp as [Hw|Ht]; [left; exact Hw|exfalso].
    apply Nat.ltb_ge in Elt. pose proof (has_arg_lt af id Hlive). pose proof (at_len L af e Ht). lia.
Qed.

(* ---- a re-encoding *)
Lemma fresh_vars_nth (ids : list nat) (n m : nat) (tl : list vtype) i :
  nth_error ([VIgnored] ++ map VArg ids ++ repeat VIgnored m ++ repeat VAttack (n * n) ++ tl) i =
  if Nat.eqb i 0 then Some VIgnored
  else if Nat.leb i (length ids) then option_map VArg (nth_error ids (i - 1))
  else if Nat.leb i (length ids + m) then Some VIgnored
  else if Nat.leb i (length ids + m + n * n) then Some VAttack
  else nth_error tl (i - (1 + length ids + m + n * n)).
Proof.
  destruct i as [|i]; [reflexivity|]. cbn [app nth_error Nat.eqb].
  rewrite nth_error_app_case, map_length.
  destruct (Nat.leb (S i) (length ids)) eqn:E1.
  { apply Nat.leb_le in E1. replace (Nat.ltb i (length ids)) with true by (symmetry; apply Nat.ltb_lt; lia).
    rewrite nth_error_map. replace (S i - 1) with i by lia. reflexivity. }
  apply Nat.leb_gt in E1. replace (Nat.ltb i (length ids)) with false by (symmetry; apply Nat.ltb_ge; lia).
  rewrite nth_error_app_case, repeat_length, nth_error_repeat_case.
  destruct (Nat.leb (S i) (length ids + m)) eqn:E2.
  { apply Nat.leb_le in E2. replace (Nat.ltb (i - length ids) m) with true by (symmetry; apply Nat.ltb_lt; lia). reflexivity. }
  apply Nat.leb_gt in E2. replace (Nat.ltb (i - length ids) m) with false by (symmetry; apply Nat.ltb_ge; lia).
  rewrite nth_error_app_case, repeat_length, nth_error_repeat_case.
  destruct (Nat.leb (S i) (length ids + m + n * n)) eqn:E3.
  { apply Nat.leb_le in E3. replace (Nat.ltb (i - length ids - m) (n * n)) with true by (symmetry; apply Nat.ltb_lt; lia). reflexivity. }
  apply Nat.leb_gt in E3. replace (Nat.ltb (i - length ids - m) (n * n)) with false by (symmetry; apply Nat.ltb_ge; lia).
  f_equal. lia.
Qed.

Lemma tables_fresh af e n tl :
  Inv af -> n_arguments L af <= n ->
  (slots (ls af) = [] -> n = 0) ->
  (a_sem e = DCO -> tl = map VDisj (live_ids L af) ++ repeat VIgnored (n - n_arguments L af)) ->
  (a_sem e <> DCO -> tl = []) ->
  att_tables_ok af
    (aenc_with e (att_fresh_a2v L af)
       ([VIgnored] ++ map VArg (live_ids L af) ++ repeat VIgnored (n - n_arguments L af)
                   ++ repeat VAttack (n * n) ++ tl)
       (n_arguments L af + 1) n false).
Proof.
  intros Hinv Hn Hemp Hco Hst.
  set (ids := live_ids L af) in *. set (na := n_arguments L af) in *.
  assert (Hlen : length ids = na) by (apply live_ids_length; exact Hinv).
  assert (Htl : length tl = match a_sem e with DCO => n | _ => 0 end).
  { destruct (a_sem e) eqn:Es; [rewrite Hco by reflexivity|rewrite Hst by discriminate|rewrite Hst by discriminate];
      rewrite ?app_length, ?map_length, ?repeat_length; cbn [length]; lia. }
  assert (Hspec := fun id v => fresh_a2v_spec af id v Hinv). fold ids in Hspec.
  constructor; cbn [aenc_with a_sem a_a2v a_vars a_num a_den a_next a_n a_need].
  - reflexivity.
  - apply fresh_a2v_length.
  - exact Hemp.
  - rewrite !app_length, map_length, !repeat_length, Hlen, Htl. cbn [length]. lia.
  - lia.
  - intros id v H. apply Hspec in H. destruct H as (k & Hk & ->).
    pose proof (nth_error_lt _ _ _ Hk) as Hkl. split; [lia|]. split; [lia|].
    rewrite fresh_vars_nth. cbn [Nat.eqb].
    replace (Nat.leb (S k) (length ids)) with true by (symmetry; apply Nat.leb_le; lia).
    replace (S k - 1) with k by lia. rewrite Hk. reflexivity.
  - intros Es id v H. apply Hspec in H. destruct H as (k & Hk & ->).
    pose proof (nth_error_lt _ _ _ Hk) as Hkl.
    rewrite fresh_vars_nth.
    replace (Nat.eqb (S k + n * (1 + n)) 0) with false by (symmetry; apply Nat.eqb_neq; lia).
    replace (Nat.leb (S k + n * (1 + n)) (length ids)) with false by (symmetry; apply Nat.leb_gt; lia).
    replace (Nat.leb (S k + n * (1 + n)) (length ids + (n - na))) with false by (symmetry; apply Nat.leb_gt; lia).
    replace (Nat.leb (S k + n * (1 + n)) (length ids + (n - na) + n * n)) with false by (symmetry; apply Nat.leb_gt; lia).
    rewrite (Hco Es). replace (S k + n * (1 + n) - (1 + length ids + (n - na) + n * n)) with k by lia.
    rewrite nth_error_app1 by (rewrite map_length; lia). rewrite nth_error_map, Hk. reflexivity.
  - intros i Hi1 Hi2. rewrite fresh_vars_nth.
    replace (Nat.eqb i 0) with false by (symmetry; apply Nat.eqb_neq; lia).
    replace (Nat.leb i (length ids)) with false by (symmetry; apply Nat.leb_gt; lia).
    replace (Nat.leb i (length ids + (n - na))) with false by (symmetry; apply Nat.leb_gt; lia).
    replace (Nat.leb i (length ids + (n - na) + n * n)) with true by (symmetry; apply Nat.leb_le; lia).
    reflexivity.
  - intros id. rewrite <- (live_ids_has af id Hinv). fold ids. split.
    + intros Hin. apply In_nth_error in Hin. destruct Hin as [k Hk].
      rewrite (proj2 (Hspec id (S k))); [discriminate|]. exists k. auto.
    + intros H. destruct (tbl_var (att_fresh_a2v L af) id) as [v|] eqn:E; [|congruence].
      apply Hspec in E. destruct E as (k & Hk & _). eapply nth_error_In. exact Hk.
  - intros v id. rewrite fresh_vars_nth. destruct (Nat.eqb v 0) eqn:E0; [discriminate|]. apply Nat.eqb_neq in E0.
    destruct (Nat.leb v (length ids)) eqn:E1.
    + destruct (nth_error ids (v - 1)) as [x|] eqn:Ex; cbn [option_map]; [|discriminate].
      intros H. injection H as <-. apply Hspec. exists (v - 1). split; [exact Ex|lia].
    + destruct (Nat.leb v (length ids + (n - na))); [discriminate|].
      destruct (Nat.leb v (length ids + (n - na) + n * n)); [discriminate|].
      destruct (a_sem e) eqn:Es; [rewrite Hco by reflexivity|rewrite Hst by discriminate|rewrite Hst by discriminate].
      2,3: destruct (v - _); discriminate.
      rewrite nth_error_app_case, nth_error_map, nth_error_repeat_case.
      destruct (Nat.ltb _ (length (map VDisj ids))).
      * destruct (nth_error ids _); discriminate.
      * destruct (Nat.ltb _ _); discriminate.
Qed.

Lemma att_update_encoding_ok af e :
  Inv af ->
  okm (att_update_encoding L af e)
      (fun e' => (a_need e = false -> e' = e) /\ (a_need e = true -> att_tables_ok af e') /\ same_par e e').
Proof.
  intros Hinv. unfold att_update_encoding. destruct (a_need e) eqn:En; cbn [negb].
  2:{ apply okm_ret. split; [reflexivity|]. split; [discriminate|apply same_par_refl]. }
  set (na := n_arguments L af). set (n := na * a_num e / a_den e).
  assert (Hemp : slots (ls af) = [] -> n = 0).
  { intros E. unfold n, na, n_arguments, ls_len. rewrite E. cbn [length Nat.sub Nat.mul]. destruct (a_den e); reflexivity. }
  destruct (a_sem e) eqn:Es.
  - apply okm_bind_any. intros _. apply okm_bind_any. intros _.
    destruct (Nat.ltb n na) eqn:El; [apply okm_panic|]. apply Nat.ltb_ge in El.
    apply okm_bind_any. intros _. apply okm_bind_any. intros _. apply okm_ret.
    split; [discriminate|]. split; [intros _|unfold same_par; cbn; auto].
    apply (tables_fresh af e n); auto. congruence.
  - apply okm_bind_any. intros _. apply okm_bind_any. intros _.
    destruct (Nat.ltb n na) eqn:El; [apply okm_panic|]. apply Nat.ltb_ge in El.
    apply okm_bind_any. intros _. apply okm_ret.
    split; [discriminate|]. split; [intros _|unfold same_par; cbn; auto].
    pose proof (tables_fresh af e n [] Hinv El Hemp) as H. rewrite app_nil_r in H. apply H; [congruence|reflexivity].
  - apply okm_panic.
Qed.

(* ================================================================ Part C *)
Lemma okm_conj {A} (m : Prog.M A) (P Q : A -> Prop) : okm m P -> okm m Q -> okm m (fun a => P a /\ Q a).
Proof. intros HP HQ s a s' E. split; [exact (HP _ _ _ E)|exact (HQ _ _ _ E)]. Qed.

Definition replay_post (e : aenc) (st : fw * aenc) : Prop :=
  Inv (fst st) /\ att_pre (fst st) (snd st) /\ same_par e (snd st).

Lemma att_replay_ok af e ev : Inv af -> att_pre af e -> okm (att_replay L leqb (af, e) ev) (replay_post e).
Proof.
  intros Hinv Hp. unfold replay_post.
  apply okm_conj.
  { eapply okm_weaken; [apply (att_replay_af L leqb)|]. cbv beta. intros st ->. apply (inv_ev_apply L leqb leqb_spec). exact Hinv. }
  unfold att_replay. destruct ev as [l|l|a b|a b|x y z|x y z].
  - apply att_new_argument_ok. exact Hp.
  - eapply okm_bind; [apply (att_remove_argument_ok af e l Hinv Hp)|]. intros r Hr.
    apply okm_unwrap_ok. intros p ->. exact Hr.
  - apply okm_unwrap_ok'. intros p Hr. apply okm_ret. cbn [fst snd]. split; [|apply same_par_refl].
    eapply att_pre_ls; [|exact Hp]. rewrite <- (new_attack_ls L leqb af a b), Hr. reflexivity.
  - apply okm_unwrap_ok'. intros p Hr. apply okm_ret. cbn [fst snd]. split; [|apply same_par_refl].
    eapply att_pre_ls; [|exact Hp]. rewrite <- (remove_attack_ls L leqb af a b), Hr. reflexivity.
  - apply okm_ret. split; [exact Hp|apply same_par_refl].
  - apply okm_ret. split; [exact Hp|apply same_par_refl].
Qed.

Lemma fold_att_replay_ok evs : forall af e,
  Inv af -> att_pre af e -> okm (fold_m (att_replay L leqb) evs (af, e)) (replay_post e).
Proof.
  induction evs as [|ev r IH]; intros af e Hinv Hp; cbn [fold_m].
  - apply okm_ret. split; [exact Hinv|]. split; [exact Hp|apply same_par_refl].
  - eapply okm_bind; [apply att_replay_ok; assumption|]. intros [af1 e1] (H1 & H2 & H3). cbn [fst snd] in *.
    eapply okm_weaken; [apply IH; assumption|]. intros st (K1 & K2 & K3). split; [exact K1|]. split; [exact K2|].
    eapply same_par_trans; eassumption.
Qed.

(* the encoder of an attacks solver between two calls / right after update_encoding *)
Definition att_par (k : dkind) (e : aenc) : Prop :=
  a_sem e = kind_sem k /\ a_num e = kind_num k /\ a_den e = kind_den k.
Definition att_inv (k : dkind) (af : fw) (b : dbuf L) : Prop :=
  exists e, b_enc L b = XAtt e /\ att_par k e /\ (att_initial L leqb af e \/ att_tables_ok af e).
Definition att_post (k : dkind) (r : fw * dbuf L) : Prop :=
  exists e, b_enc L (snd r) = XAtt e /\ att_par k e /\ att_tables_ok (fst r) e.

Lemma att_par_same k e e' : att_par k e -> same_par e e' -> att_par k e'.
Proof. unfold att_par, same_par. intros (A & B & C) (D & E & F). repeat split; congruence. Qed.

Lemma initial_pre af e : att_initial L leqb af e -> att_pre af e.
Proof.
  intros [He _]. left. rewrite He. cbn [aenc_new a_need a_a2v a_vars]. split; [reflexivity|].
  intros id v H. destruct id; discriminate H.
Qed.

Lemma update_encoding_att k af b :
  Inv af -> att_inv k af b -> okm (update_encoding L leqb af b) (fun r => Inv (fst r) /\ att_post k r).
Proof.
  intros Hinv (e & He & Hpar & Hst). unfold update_encoding. rewrite He.
  assert (Hp : att_pre af e) by (destruct Hst as [Hi|Ht]; [apply initial_pre; exact Hi|right; exact Ht]).
  eapply okm_bind; [apply (fold_att_replay_ok _ af e Hinv Hp)|]. intros [af' e'] (H1 & H2 & H3). cbn [fst snd] in *.
  eapply okm_bind; [apply (att_update_encoding_ok af' e' H1)|]. intros e'' (K1 & K2 & K3).
  apply okm_ret. cbn [fst snd buf_with b_enc]. split; [exact H1|]. exists e''. split; [reflexivity|].
  split; [eapply att_par_same; [eapply att_par_same; [exact Hpar|exact H3]|exact K3]|].
  destruct (a_need e') eqn:En; [apply K2; reflexivity|]. rewrite (K1 eq_refl).
  destruct H2 as [[Hn _]|Ht]; [congruence|exact Ht].
Qed.

Lemma att_kind_not_dummy k : att_kind k -> not_dummy k.
Proof. destruct k; cbn; auto. Qed.

Lemma att_inv_reach k s os :
  reach k s os -> att_kind k -> Inv (s_af L s) /\ att_inv k (s_af L s) (s_buf L s).
Proof.
  induction 1 as [ps ps' s Hn|s os o Hr IH|s os oracle thr fuel q cert l ps ps' s' a Hr IH Hq]; intros Hk.
  - unfold dyn_new in Hn. destruct k; try destruct Hk;
      apply bind_Done in Hn; destruct Hn as (u & ps1 & _ & Hn); apply Done_inj in Hn; destruct Hn as [<- _];
      cbn [s_af s_buf]; (split; [apply (init_inv L leqb leqb_spec [])|]);
      eexists; (split; [reflexivity|]); (split; [unfold att_par; cbn; auto|]); left; split; reflexivity.
  - destruct (IH Hk) as [Hinv Hi]. pose proof (reach_frame_inv L leqb _ _ _ Hr) as [Hkind _ _ _].
    assert (Hnd : not_dummy (s_kind L s)) by (rewrite Hkind; apply att_kind_not_dummy; exact Hk).
    destruct (update_touches_no_encoder L leqb s o Hnd) as (Haf & Hen & _).
    rewrite Haf. split; [exact Hinv|]. unfold att_inv. rewrite Hen. exact Hi.
  - destruct (IH Hk) as [Hinv Hi].
    pose proof (dyn_query_shape L leqb oracle thr fuel s q cert l _ (update_encoding_att k _ _ Hinv Hi) _ _ _ Hq) as Hp.
    unfold pushed in Hp. cbn [fst] in Hp.
    destruct Hp as [->|(af & buf & ev & [Hinv' (e' & He' & Hpar' & Ht')] & ->)]; [auto|].
    cbn [s_af s_buf fst snd] in *. split; [exact Hinv'|]. exists e'. unfold buf_push, buf_with. cbn [b_enc]. auto.
Qed.

(* ---- goal 1, assembled: the tables in every reachable state of the two attacks solvers *)
Theorem att_tables_reach k s os :
  reach k s os -> att_kind k ->
  exists e, b_enc L (s_buf L s) = XAtt e /\
    a_sem e = kind_sem k /\ a_num e = kind_num k /\ a_den e = kind_den k /\
    (att_initial L leqb (s_af L s) e \/ att_tables_ok (s_af L s) e).
Proof.
  intros Hr Hk. destruct (att_inv_reach k s os Hr Hk) as [_ (e & He & (P1 & P2 & P3) & Hst)].
  exists e. auto.
Qed.

(* a query that did not answer from the cache leaves freshly synchronised tables behind *)
Theorem att_query_tables k s os oracle thr fuel q cert l ps ps' s' a :
  reach k s os -> att_kind k ->
  dyn_query oracle L leqb thr fuel s q cert l ps = Done (s', a) ps' ->
  s' = s \/ exists e', b_enc L (s_buf L s') = XAtt e' /\ att_tables_ok (s_af L s') e' /\
                       s_af L s' = Store.run_ops L leqb (DynDefs.fresh_fw L leqb) os.
Proof.
  intros Hr Hk Hq. destruct (att_inv_reach k s os Hr Hk) as [Hinv Hi].
  pose proof (dyn_query_shape L leqb oracle thr fuel s q cert l _ (update_encoding_att k _ _ Hinv Hi) _ _ _ Hq) as Hp.
  unfold pushed in Hp. cbn [fst] in Hp.
  destruct Hp as [->|(af & buf & ev & [Hinv' (e' & He' & Hpar' & Ht')] & ->)]; [left; reflexivity|].
  destruct (query_resynchronises L leqb k s os oracle thr fuel q cert l ps ps' _ a Hr Hq) as [E|(E & _)].
  - left. exact E.
  - right. cbn [s_af s_buf fst snd] in *. exists e'. unfold buf_push, buf_with. cbn [b_enc]. auto.
Qed.

(* ---- att_indices / att_assumptions never fail on consistent tables *)
Lemma iter_attacks_live (af : fw) a b : Inv af -> In (a, b) (iter_attacks L af) ->
  has_argument_with_id L af a = true /\ has_argument_with_id L af b = true.
Proof.
  intros Hinv Hin. unfold iter_attacks in Hin. apply In_fs_nth in Hin. destruct Hin as [k Hk].
  destruct (inv_live L af Hinv k a b Hk) as (Ha & Hb & _). split; apply (has_arg_nth L); assumption.
Qed.

Lemma att_index_lt n va vb : 1 <= va -> va <= n -> 1 <= vb -> vb <= n -> att_index n va vb < n * n.
Proof.
  intros H1 H2 H3 H4. unfold att_index.
  assert ((va - 1) * n <= (n - 1) * n) by (apply Nat.mul_le_mono_r; lia).
  assert ((n - 1) * n + n = n * n) by (destruct n; [lia|]; cbn [Nat.sub]; rewrite Nat.sub_0_r; lia).
  lia.
Qed.

Lemma att_indices_some af e (atts : list (nat * nat)) :
  att_tables_ok af e ->
  (forall a b, In (a, b) atts -> has_argument_with_id L af a = true /\ has_argument_with_id L af b = true) ->
  exists idx, att_indices e atts = Some idx /\ length idx = length atts /\
              forall i, In i idx -> i < a_n e * a_n e.
Proof.
  intros Ht. induction atts as [|[from to] r IH]; intros Hl; cbn [att_indices].
  - exists []. split; [reflexivity|]. split; [reflexivity|]. intros i [].
  - destruct (Hl from to (or_introl eq_refl)) as [Hf Hto].
    apply (at_live L af e Ht) in Hf, Hto.
    destruct (tbl_var (a_a2v e) to) as [vt|] eqn:Et; [|congruence].
    destruct (tbl_var (a_a2v e) from) as [vf|] eqn:Ef; [|congruence].
    destruct IH as (idx & -> & Hlen & Hlt); [intros a b Hin; apply Hl; right; exact Hin|].
    destruct (tables_var_le af e to vt Ht Et) as [A1 A2]. destruct (tables_var_le af e from vf Ht Ef) as [B1 B2].
    pose proof (att_index_lt (a_n e) vt vf A1 A2 B1 B2) as Hi. apply Nat.ltb_lt in Hi. rewrite Hi.
    eexists. split; [reflexivity|]. split; [cbn [length]; lia|].
    intros i [<-|Hin]; [apply Nat.ltb_lt; exact Hi|apply Hlt; exact Hin].
Qed.

Theorem att_assumptions_some af e :
  Inv af -> att_tables_ok af e ->
  exists idx, att_indices e (iter_attacks L af) = Some idx /\
    (forall i, In i idx -> i < a_n e * a_n e) /\
    att_assumptions L af e =
      Some (map (fun i => if memb i idx then zlit (1 + i + a_n e) else znlit (1 + a_n e + i))
                (seq 0 (a_n e * a_n e))).
Proof.
  intros Hinv Ht.
  destruct (att_indices_some af e (iter_attacks L af) Ht) as (idx & Hi & _ & Hlt).
  { intros a b Hin. apply iter_attacks_live; assumption. }
  exists idx. split; [exact Hi|]. split; [exact Hlt|]. unfold att_assumptions. rewrite Hi. reflexivity.
Qed.

End Tables.
