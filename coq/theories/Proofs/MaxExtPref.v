(* The preferred-semantics procedures built on the MaximalExtensionComputer, one connected
   component: single extension (pr_max_in_cc), skeptical acceptance with and without the
   admissibility shortcut (pr_ds_in_cc), with the number of SAT calls and the fuel needed (C18).
   For every valid SAT oracle and every encoder whose base family is the complete or the
   admissible sets.  The grounded start is a hypothesis here ([gr_start]): the set computed by
   [grounded] on the component is a complete extension, duplicate-free. *)
From Crusta Require Import Spec.AF Spec.SemFacts Spec.Theory Sat.Cnf Sat.Prog.
From Crusta Require Import Model.Encoders Model.Graph Model.Solvers.
From Crusta Require Import Proofs.ProgLaws Proofs.EncSpec Proofs.EncBase Proofs.EncAll Proofs.SolverBasics.
From Crusta Require Import Proofs.SolverCc Proofs.SolverThms Proofs.MaxExtCore.
From Coq Require Import ZifyBool.
Import ListNotations.
Open Scope prog_scope.

(* encoders the preferred / ideal solvers may be used with *)
Definition pr_enc (e : enc) : Prop := enc_base e = BCo \/ enc_base e = BAdm.
(* what is assumed of the grounded computation on the component *)
Definition gr_start (F : af) : Prop :=
  co F (grounded (view_of_af F)) /\ NoDup (grounded (view_of_af F)).
(* the bound of C18 for one component: every run makes FEWER than [pr_bound] SAT calls (at most
   |base| + |PR|), and [pr_bound] units of fuel are enough *)
Definition pr_bound (e : enc) (F : af) : nat :=
  length (all_base (enc_base e) F) + length (all_exts PR F) + 1.

Lemma st_adds_reserved s cs : reserved (sess (st_adds s cs)) = reserved (sess s).
Proof. revert s. induction cs as [|c r IH]; intros s; cbn [st_adds]; [reflexivity|]. now rewrite IH. Qed.

Section Setup.
Variable oracle : nat -> cnf -> list lit -> answer.
Variable thr : nat.
Hypothesis Hthr : 1 <= thr.
Hypothesis Hvalid : valid_oracle oracle.
Variable e : enc.
Variable F : af.
Variable n : nat.
Hypothesis HF : compact_af F n.
Hypothesis Hpe : pr_enc e.

Notation base := (basep (enc_base e) F).

Lemma pr_base_adm S : base S -> adm F S.
Proof. destruct Hpe as [-> | ->]; cbn [basep]; [apply co_adm|tauto]. Qed.
Lemma pr_pr_base P : pr F P -> base P.
Proof.
  destruct Hpe as [-> | ->]; cbn [basep]; [apply pr_co, (compact_wf F n HF)|apply pr_adm].
Qed.
Lemma co_base S : co F S -> base S.
Proof. destruct Hpe as [-> | ->]; cbn [basep]; [tauto|apply co_adm]. Qed.

(* the encoder reserves (at least) the argument variables *)
Lemma enc_reserve : exists r C, encode_af e thr false F = Some (Some r, C) /\
                                forall a, a < n -> arg_var e a <= r.
Proof.
  unfold encode_af. rewrite (compact_length F n HF). unfold pr_enc in Hpe.
  destruct e; cbn [enc_base] in Hpe; try (destruct Hpe; discriminate);
    cbn [encode arg_var]; eexists; eexists; (split; [reflexivity|]);
    intros a Ha; unfold aux_var, exp_var; lia.
Qed.

(* the state in which a computer is created: the session holds exactly the encoder's clauses *)
Definition fresh_sel (C : cnf) (selv : nat) : Prop :=
  bounded C (selv - 1) /\ 0 < selv /\ forall a, a < n -> arg_var e a < selv.

Lemma setup_spec (QA QP QF : Prog.st -> Prop) fl A (cont : computer -> M A) (Q : A -> Prog.st -> Prop) s :
  cls s = [] -> sess_bounded s ->
  (forall C selv s2, enc_clauses e thr false F = Some C -> cls s2 = C -> calls s2 = calls s ->
     sess_bounded s2 -> fresh_sel C selv ->
     wp QA QP QF (cont (kk e F n selv fl [] None MInit)) Q s2) ->
  wp QA QP QF (encode_m thr e false F ;;; k <- new_cc_computer e F fl ;; cont k) Q s.
Proof.
  intros Hc Hsb HQ. destruct enc_reserve as (r & C & HE & Hr).
  rewrite wp_bind, (wp_encode_m thr _ _ _ e false F (Some r) C _ _ HE).
  unfold new_cc_computer, new_computer.
  rewrite (compact_length F n HF), wp_bind, wp_bind, wp_n_vars, wp_ret.
  set (s1 := st_encoded s (Some r) C).
  apply (HQ C (1 + session_n_vars (sess s1)) (st_nvars s1)).
  - exact (enc_clauses_some thr e false F (Some r) C HE).
  - rewrite cls_nvars. unfold s1. now rewrite cls_encoded, Hc.
  - unfold s1, st_encoded. cbn [st_nvars log_ev calls]. now rewrite st_adds_calls.
  - apply sb_nvars. unfold s1. now apply sb_encoded.
  - split; [|split].
    + replace (1 + session_n_vars (sess s1) - 1) with (session_n_vars (sess s1)) by lia.
      replace C with (cls s1) by (unfold s1; now rewrite cls_encoded, Hc).
      apply nvars_fresh. unfold s1. now apply sb_encoded.
    + lia.
    + intros a Ha. specialize (Hr a Ha).
      assert (r <= reserved (sess s1)).
      { unfold s1, st_encoded. rewrite st_adds_reserved. cbn. lia. }
      unfold session_n_vars. lia.
Qed.

Lemma fl_ok_pref : fl_ok e n FPref (fun _ => true).
Proof. intros a. reflexivity. Qed.

Lemma pr_HBnd : forall Ss Ps : list (list nat),
  (forall S, In S Ss -> base S) -> sepl Ss ->
  (forall P, In P Ps -> maxc e F (fun _ => true) P) -> sepl Ps ->
  length Ss + length Ps + 1 <= pr_bound e F.
Proof.
  clear Hthr. intros Ss Ps HSs HsS HPs HsP. unfold pr_bound.
  pose proof (sepl_base_le (enc_base e) F Ss HSs HsS).
  assert (length Ps <= length (all_exts PR F)); [|lia].
  apply sepl_pr_le; [|exact HsP]. intros P HP.
  apply (maxc_pr e F n HF pr_base_adm pr_pr_base (fun _ => true)); [reflexivity|now apply HPs].
Qed.

Lemma kinv_init C selv c0 (rel : list nat -> Prop) fl alw s2 :
  cls s2 = C -> sess_bounded s2 -> calls s2 <= c0 ->
  kinv e F n C selv fl alw c0 rel (kk e F n selv fl [] None MInit) s2
       {| gBs := []; gSs := []; gPs := [] |}.
Proof.
  clear Hthr. intros Hc Hsb Hcalls. unfold kinv. cbn [kk c_cur c_model c_state gBs gSs gPs map].
  split; [reflexivity|]. split; [constructor|]. split; [exact Hsb|]. split; [now rewrite app_nil_r|].
  split; [unfold pot; cbn; lia|]. split; [intros S []|]. split; [exact I|].
  split; [intros P []|]. split; [exact I|]. repeat split.
Qed.

End Setup.

(* ------------------------------------------------------------------------------------------ *)
Section Pref.
Variable oracle : nat -> cnf -> list lit -> answer.
Variable thr : nat.
Hypothesis Hthr : 1 <= thr.
Hypothesis Hvalid : valid_oracle oracle.

(* the shape of every result: completed runs satisfy [Q], no run panics, every run makes fewer
   than [B] SAT calls, and fuel runs out only when fewer than [B] units were given *)
Definition outcome_ok {A} (r : res A) (c0 B fuel : nat) (Q : A -> Prop) : Prop :=
  match r with
  | Done a s' => Q a /\ calls s' + 1 <= c0 + B
  | Abort s' => calls s' + 1 <= c0 + B
  | Panic _ => False
  | OutOfFuel s' => calls s' + 1 <= c0 + B /\ fuel < B
  end.

Lemma wp_outcome A (m : M A) c0 B fuel (Q : A -> Prop) s :
  wp (QAb c0 B) QPb (QFb c0 B (fuel < B)) m (fun a s' => Q a /\ calls s' + 1 <= c0 + B) s ->
  outcome_ok (m s) c0 B fuel Q.
Proof. unfold wp, outcome_ok, QAb, QPb, QFb. destruct (m s); auto. Qed.

Section Component.
Variable e : enc.
Variable F : af.
Variable n : nat.
Hypothesis HF : compact_af F n.
Hypothesis Hpe : pr_enc e.
Hypothesis Hgr : gr_start F.

Let Hgr0 : cand e F (fun _ => true) (gr0 F).
Proof. split; [apply (co_base e F Hpe), Hgr|intros a _; reflexivity]. Qed.
Let Hgr0nd : NoDup (gr0 F) := proj2 Hgr.

Let Hs0 C (HC : enc_clauses e thr false F = Some C) :
  forall v : val, vmodels v C = true -> basep (enc_base e) F (ext_of e n v)
  := fun v Hv => all_sound e thr F n Hthr HF C v HC Hv.
Let Hc0 C (HC : enc_clauses e thr false F = Some C) :
  forall S, basep (enc_base e) F S ->
    exists v : val, vmodels v C = true /\ forall a, a < n -> (v (arg_var e a) = true <-> In a S)
  := fun S HS => all_complete e thr F n Hthr HF C S HC HS.

(* ---------- T1: one preferred extension of the component ---------- *)
Notation Bd := (pr_bound e F).

Lemma pr_max_wp A fuel (FS : Prop) (cont : list nat -> M A) (Q : A -> Prog.st -> Prop) s :
  cls s = [] -> sess_bounded s -> (Bd <= fuel \/ FS) ->
  (forall l s', pr F l -> NoDup l -> calls s' + 1 <= calls s + Bd ->
     wp (QAb (calls s) Bd) QPb (QFb (calls s) Bd FS) (cont l) Q s') ->
  wp (QAb (calls s) Bd) QPb (QFb (calls s) Bd FS)
     (encode_m thr e false F ;;; k <- new_cc_computer e F FPref ;;
      l <- compute_maximal oracle fuel k ;; cont l) Q s.
Proof.
  intros Hc Hsb Hfuel HQ. apply (setup_spec thr Hthr e F n HF Hpe); [exact Hc|exact Hsb|].
  intros C selv s2 HC Hc2 Hcalls2 Hsb2 (Hfresh & Hselpos & Hargs). rewrite wp_bind.
  apply (compute_maximal_spec oracle Hvalid e F n HF C selv (Hs0 C HC) (Hc0 C HC) Hfresh Hselpos Hargs
           (pr_base_adm e F Hpe) FPref (fun _ => true) (fl_ok_pref e n) Hgr0 Hgr0nd
           (calls s) Bd FS (pr_HBnd e F n HF Hpe)
           (fun _ => True) fuel _ s2 {| gBs := []; gSs := []; gPs := [] |}).
  - apply kinv_init; [exact Hc2|exact Hsb2|lia].
  - left. reflexivity.
  - cbn [kk c_state]. unfold pot. cbn. destruct Hfuel as [H|H]; [left; lia|now right].
  - intros k' s' g' Hi Est.
    destruct (kinv_max _ _ _ _ _ _ _ _ _ _ _ _ Hi Est) as [Hmax Hnd].
    destruct (pot_le e F n C selv Hselpos FPref (fun _ => true) (calls s) Bd
                (pr_HBnd e F n HF Hpe) _ _ _ _ Hi) as (_ & _ & Hcl).
    apply HQ; [|exact Hnd|exact Hcl].
    apply (maxc_pr e F n HF (pr_base_adm e F Hpe) (pr_pr_base e F n HF Hpe) (fun _ => true)); [reflexivity|exact Hmax].
Qed.

(* ---------- T2: skeptical acceptance of a list of arguments in the component ---------- *)
Lemma pr_ds_wp fuel (FS : Prop) la shortcut s :
  cls s = [] -> sess_bounded s -> (Bd <= fuel \/ FS) ->
  wp (QAb (calls s) Bd) QPb (QFb (calls s) Bd FS)
     (encode_m thr e false F ;;; k <- new_cc_computer e F FPref ;; pr_ds_loop oracle fuel F la shortcut k)
     (fun r s' => ds_post e F la shortcut r /\ calls s' + 1 <= calls s + Bd) s.
Proof.
  intros Hc Hsb Hfuel. apply (setup_spec thr Hthr e F n HF Hpe); [exact Hc|exact Hsb|].
  intros C selv s2 HC Hc2 Hcalls2 Hsb2 (Hfresh & Hselpos & Hargs).
  apply (pr_ds_loop_spec oracle Hvalid e F n HF C selv (Hs0 C HC) (Hc0 C HC) Hfresh Hselpos Hargs
           (pr_base_adm e F Hpe) (pr_pr_base e F n HF Hpe) FPref (fun _ => true) (fl_ok_pref e n) Hgr0 Hgr0nd
           (calls s) Bd FS (pr_HBnd e F n HF Hpe) la shortcut eq_refl
           fuel _ s2 {| gBs := []; gSs := []; gPs := [] |}).
  - apply kinv_init; [exact Hc2|exact Hsb2|lia].
  - left. reflexivity.
  - cbn [kk c_state]. discriminate.
  - cbn [kk c_state]. unfold pot. cbn. destruct Hfuel as [H|H]; [left; lia|now right].
Qed.

End Component.

(* ------------------------------------------------------------------------------------------ *)
(** * The statements *)

Lemma fuel_cases B fuel : B <= fuel \/ fuel < B.
Proof. lia. Qed.

(* what the skeptical procedure returns, in terms of the semantics *)
Definition ds_answer (F : af) (la : list nat) (shortcut : bool) (r : bool * option (list nat)) : Prop :=
  match r with
  | (true, None) => skep PR F la
  | (false, Some ce) =>
      ~ skep PR F la /\ NoDup ce /\ meets la ce = false /\
      (if shortcut
       then adm F ce /\
            (pr F ce \/ forall a, In a la -> exists b, In b ce /\ att F b a)
       else pr F ce)
  | _ => False
  end.

Lemma ds_post_answer e F n la shortcut r :
  compact_af F n -> pr_enc e -> ds_post e F la shortcut r -> ds_answer F la shortcut r.
Proof.
  intros HF Hpe. pose proof (compact_wf F n HF) as Hwf.
  destruct r as [[|] [ce|]]; cbn [ds_post ds_answer]; try tauto.
  - intros H P HP. specialize (H P HP). now apply meets_spec in H.
  - intros (Hb & Hnd & Hm & Hor).
    assert (Hadm : adm F ce) by now apply (pr_base_adm e F Hpe).
    assert (Hatt : attacks_all F la ce = true -> forall a, In a la -> exists b, In b ce /\ att F b a).
    { unfold attacks_all. rewrite forallb_forall. intros H a Ha. specialize (H a Ha).
      apply existsb_exists in H. destruct H as [b [Hb1 Hb2]]. exists b.
      split; [now apply memb_spec|now apply in_attackers]. }
    assert (Hns : ~ skep PR F la).
    { intros Hsk. destruct Hor as [Hpr|[_ Hat]].
      - destruct (Hsk ce Hpr) as [a [Ha HaS]].
        exact (proj1 (meets_false la ce) Hm a Ha HaS).
      - destruct (adm_extends_pr F ce Hwf Hadm) as [P [HP HcP]].
        destruct (Hsk P HP) as [a [Ha HaP]]. destruct (Hatt Hat a Ha) as [b [Hb1 Hb2]].
        exact (adm_cf F P (pr_adm F P HP) b a (HcP b Hb1) HaP Hb2). }
    split; [exact Hns|]. split; [exact Hnd|]. split; [exact Hm|].
    destruct shortcut.
    + split; [exact Hadm|]. destruct Hor as [H|[_ H]]; [now left|right; now apply Hatt].
    + destruct Hor as [H|[H _]]; [exact H|discriminate].
Qed.

(* T1 + T3 for SE-PR in one component *)
Theorem pr_max_in_cc_full : forall fuel e c n s,
  compact_af (c_af c) n -> pr_enc e -> gr_start (c_af c) ->
  outcome_ok (pr_max_in_cc oracle thr fuel e c s) (calls s) (pr_bound e (c_af c)) fuel
             (fun L => exists l, pr (c_af c) l /\ NoDup l /\ L = lift c l).
Proof.
  intros fuel e c n s HF Hpe Hgr. apply wp_outcome. unfold pr_max_in_cc.
  rewrite wp_bind, wp_new_solver.
  change (calls s) with (calls (st_new s)).
  apply (pr_max_wp e (c_af c) n HF Hpe Hgr); [apply cls_new|apply sb_new|apply fuel_cases|].
  intros l s' Hpr Hnd Hcl. rewrite wp_ret. split; [|exact Hcl]. exists l. tauto.
Qed.

(* T2 + T3 for DS-PR in one component *)
Theorem pr_ds_in_cc_full : forall fuel e c n al la shortcut s,
  compact_af (c_af c) n -> pr_enc e -> gr_start (c_af c) -> locals c al = Some la ->
  outcome_ok (pr_ds_in_cc oracle thr fuel e c al shortcut s) (calls s) (pr_bound e (c_af c)) fuel
             (ds_answer (c_af c) la shortcut).
Proof.
  intros fuel e c n al la shortcut s HF Hpe Hgr Hloc. apply wp_outcome. unfold pr_ds_in_cc, locals_m.
  rewrite Hloc, wp_bind, wp_ret, wp_bind, wp_new_solver.
  change (calls s) with (calls (st_new s)).
  eapply wp_mono; [|apply (pr_ds_wp e (c_af c) n HF Hpe Hgr); [apply cls_new|apply sb_new|apply fuel_cases]].
  intros r s' [Hr Hcl]. split; [|exact Hcl]. now apply (ds_post_answer e (c_af c) n).
Qed.


(* ---------- the same facts in the shapes used by the property files ---------- *)
Lemma outcome_done A (r : res A) c0 B fuel Q :
  outcome_ok r c0 B fuel Q -> match r with Done a _ => Q a | _ => True end.
Proof. destruct r; cbn; tauto. Qed.
Lemma outcome_calls A (r : res A) c0 B fuel Q :
  outcome_ok r c0 B fuel Q -> calls (final_st r) + 1 <= c0 + B.
Proof. destruct r; cbn; tauto. Qed.
Lemma outcome_fuel A (r : res A) c0 B fuel Q :
  outcome_ok r c0 B fuel Q -> B <= fuel -> match r with OutOfFuel _ => False | _ => True end.
Proof. destruct r; cbn; try tauto. lia. Qed.
Lemma outcome_no_panic A (r : res A) c0 B fuel Q :
  outcome_ok r c0 B fuel Q -> match r with Panic _ => False | _ => True end.
Proof. destruct r; cbn; tauto. Qed.

(* T1: a completed run returns a preferred extension of the component (lifted to global ids) *)
Corollary pr_max_in_cc_correct : forall fuel e c n,
  compact_af (c_af c) n -> pr_enc e -> gr_start (c_af c) ->
  on_done (pr_max_in_cc oracle thr fuel e c)
          (fun L => exists l, pr (c_af c) l /\ NoDup l /\ L = lift c l).
Proof.
  intros fuel e c n HF Hpe Hgr s.
  exact (outcome_done _ _ _ _ _ _ (pr_max_in_cc_full fuel e c n s HF Hpe Hgr)).
Qed.

(* T2: the status of a completed run is the skeptical status, the counter-example is what the
   procedure promises; no other shape of result exists *)
Corollary pr_ds_in_cc_correct : forall fuel e c n al la shortcut,
  compact_af (c_af c) n -> pr_enc e -> gr_start (c_af c) -> locals c al = Some la ->
  on_done (pr_ds_in_cc oracle thr fuel e c al shortcut) (ds_answer (c_af c) la shortcut).
Proof.
  intros fuel e c n al la shortcut HF Hpe Hgr Hloc s.
  exact (outcome_done _ _ _ _ _ _ (pr_ds_in_cc_full fuel e c n al la shortcut s HF Hpe Hgr Hloc)).
Qed.

Corollary pr_ds_in_cc_status : forall fuel e c n al la shortcut,
  compact_af (c_af c) n -> pr_enc e -> gr_start (c_af c) -> locals c al = Some la ->
  on_done (pr_ds_in_cc oracle thr fuel e c al shortcut)
          (fun r => fst r = true <-> skep PR (c_af c) la).
Proof.
  intros fuel e c n al la shortcut HF Hpe Hgr Hloc s.
  pose proof (pr_ds_in_cc_correct fuel e c n al la shortcut HF Hpe Hgr Hloc s) as H.
  destruct (pr_ds_in_cc oracle thr fuel e c al shortcut s) as [r s'| | |]; auto.
  destruct r as [[|] [ce|]]; cbn [ds_answer fst] in *; try tauto.
  split; [discriminate|]. tauto.
Qed.

(* T3 (C18 for PR): SAT calls per component, whatever the kind of result, and sufficient fuel *)
Corollary pr_max_in_cc_calls : forall fuel e c n s,
  compact_af (c_af c) n -> pr_enc e -> gr_start (c_af c) ->
  calls (final_st (pr_max_in_cc oracle thr fuel e c s)) + 1 <= calls s + pr_bound e (c_af c).
Proof. intros fuel e c n s HF Hpe Hgr. exact (outcome_calls _ _ _ _ _ _ (pr_max_in_cc_full fuel e c n s HF Hpe Hgr)). Qed.

Corollary pr_max_in_cc_fuel : forall fuel e c n s,
  compact_af (c_af c) n -> pr_enc e -> gr_start (c_af c) ->
  2 * pr_bound e (c_af c) + 4 <= fuel ->
  match pr_max_in_cc oracle thr fuel e c s with OutOfFuel _ | Panic _ => False | _ => True end.
Proof.
  intros fuel e c n s HF Hpe Hgr Hfuel. pose proof (pr_max_in_cc_full fuel e c n s HF Hpe Hgr) as H.
  destruct (pr_max_in_cc oracle thr fuel e c s); cbn in H; try tauto. lia.
Qed.

Corollary pr_ds_in_cc_calls : forall fuel e c n al la shortcut s,
  compact_af (c_af c) n -> pr_enc e -> gr_start (c_af c) -> locals c al = Some la ->
  calls (final_st (pr_ds_in_cc oracle thr fuel e c al shortcut s)) + 1 <= calls s + pr_bound e (c_af c).
Proof.
  intros fuel e c n al la shortcut s HF Hpe Hgr Hloc.
  exact (outcome_calls _ _ _ _ _ _ (pr_ds_in_cc_full fuel e c n al la shortcut s HF Hpe Hgr Hloc)).
Qed.

Corollary pr_ds_in_cc_fuel : forall fuel e c n al la shortcut s,
  compact_af (c_af c) n -> pr_enc e -> gr_start (c_af c) -> locals c al = Some la ->
  2 * pr_bound e (c_af c) + 4 <= fuel ->
  match pr_ds_in_cc oracle thr fuel e c al shortcut s with OutOfFuel _ | Panic _ => False | _ => True end.
Proof.
  intros fuel e c n al la shortcut s HF Hpe Hgr Hloc Hfuel.
  pose proof (pr_ds_in_cc_full fuel e c n al la shortcut s HF Hpe Hgr Hloc) as H.
  destruct (pr_ds_in_cc oracle thr fuel e c al shortcut s); cbn in H; try tauto. lia.
Qed.

End Pref.

(* the hypotheses are satisfiable: a <-> b, a -> c, b -> c, c -> d as one component *)
Example ex_pr_hyps :
  let F := compact 4 [(0,1);(1,0);(0,2);(1,2);(2,3)] in
  compact_af F 4 /\ pr_enc AuxCo /\ pr_enc AuxAdm /\ gr_start F /\ pr_bound AuxCo F = 6.
Proof.
  cbv zeta. split; [|split; [|split; [|split]]].
  - split; [reflexivity|]. intros a b H. cbn in H.
    repeat (destruct H as [H|H]; [injection H as <- <-; lia|]). destruct H.
  - left. reflexivity.
  - right. reflexivity.
  - split; [apply cob_co; vm_compute; reflexivity|vm_compute; constructor].
  - vm_compute. reflexivity.
Qed.

Print Assumptions pr_max_in_cc_full.
Print Assumptions pr_ds_in_cc_full.
Print Assumptions pr_max_in_cc_correct.
Print Assumptions pr_ds_in_cc_correct.
Print Assumptions pr_ds_in_cc_status.
Print Assumptions pr_max_in_cc_calls.
Print Assumptions pr_max_in_cc_fuel.
Print Assumptions pr_ds_in_cc_calls.
Print Assumptions pr_ds_in_cc_fuel.
