(* Whole-framework theorems for every entry point of Model/Solvers.v, in the [run_ok] shape of
   Proofs/TopBase.v: the per-component theorems of MaxExtPref / MaxExtIdeal / MaxExtRange (PR, ID,
   SST, STG) and of SolverWhole (GR, ST, CO) are lifted through the decomposition into connected
   components; every graph hypothesis is discharged from [view_good g F]. *)
From Crusta Require Import Spec.AF Sat.Cnf Sat.Prog Model.Store Model.Encoders Model.Graph Model.Solvers.
From Crusta Require Import Spec.SemFacts Spec.Theory Spec.Invariance Proofs.Decomp.
From Crusta Require Import Proofs.ProgLaws Proofs.EncSpec Proofs.EncBase Proofs.EncAll
  Proofs.SolverBasics Proofs.SolverCc Proofs.SolverThms Proofs.CallBounds Proofs.SolverWhole.
From Crusta Require Import Proofs.MaxExtCore Proofs.MaxExtPref Proofs.MaxExtIdeal Proofs.MaxExtRange.
From Crusta Require Import Proofs.TopBase.
From Coq Require Import ZifyBool.
Import ListNotations.
Open Scope prog_scope.

(* ------------------------------------------------------------------------------------------ *)
(** * Bounds, admissible encoders, the specification of an acceptance answer *)

(* SAT calls allowed to one component (C18) *)
Definition comp_bound (s : sem) (e : enc) (c : comp) : nat :=
  match s with
  | GR => 0
  | CO | ST => 2
  | PR => pr_bound e (c_af c)                                (* |base| + |PR| + 1 *)
  | ID => id_bound e (c_af c)                                (* 2 |base| + |PR| + 2 *)
  | SST | STG => rg_bound e (c_af c) (length (c_ids c))      (* (n + 2) |base| + 3 *)
  end.
Definition total_bound (s : sem) (e : enc) (l : list comp) : nat := sumB (comp_bound s e) l.
(* the fuel is per loop: every component must be able to run its loops *)
Definition fuel_ok (s : sem) (e : enc) (l : list comp) (fuel : nat) : Prop :=
  forall c, In c l -> 2 * comp_bound s e c + 4 <= fuel.

Lemma fuel_ok_sum : forall s e l fuel, 2 * total_bound s e l + 4 <= fuel -> fuel_ok s e l fuel.
Proof.
  intros s e l fuel H c Hc. pose proof (sumB_in (comp_bound s e) c l Hc). unfold total_bound in H. lia.
Qed.

(* the encoders a solver type may be built with *)
Definition enc_ok (s : sem) (e : enc) : Prop :=
  match s with
  | GR | ST => True
  | CO | SST => enc_base e = BCo
  | STG => enc_base e = BCf
  | PR | ID => pr_enc e
  end.

(* an acceptance answer (status, optional certificate): [pol] = true for credulous, false for
   skeptical acceptance; a certificate is returned exactly when the flag is set and the status is
   the "witnessed" one (credulous YES / skeptical NO); it is a duplicate-free extension of F that
   meets / avoids the listed arguments *)
Definition acc_spec (sm : sem) (pol cert : bool) (F : af) (al : list nat)
           (r : bool * option (list nat)) : Prop :=
  (fst r = true <-> if pol then cred sm F al else skep sm F al) /\
  match snd r with
  | Some L => cert = true /\ fst r = pol /\ ext sm F L /\ NoDup L /\ incl L (args F) /\
              (if pol then exists a, In a al /\ In a L else forall a, In a al -> ~ In a L)
  | None => cert = true -> fst r = negb pol
  end.

Definition se_spec (sm : sem) (F : af) (r : option (list nat)) : Prop :=
  match r with
  | Some L => ext sm F L /\ NoDup L /\ incl L (args F)
  | None => sm = ST /\ forall S, ~ ext sm F S
  end.

(* ------------------------------------------------------------------------------------------ *)
(** * Small facts *)

Lemma bind_ret_l A B (a : A) (k : A -> M B) s : bind (ret a) k s = k a s.
Proof. reflexivity. Qed.

Lemma run_ok_map A B (m : M A) (h : A -> B) s c0 K fo (Q : A -> Prop) (Q' : B -> Prop) :
  run_ok (m s) c0 K fo Q -> (forall a, Q a -> Q' (h a)) ->
  run_ok ((a <- m ;; ret (h a)) s) c0 K fo Q'.
Proof.
  unfold bind, run_ok. destruct (m s) as [a s'|s'|s'|s']; cbn [ret]; try tauto.
  intros [H1 H2] H. split; [now apply H|exact H2].
Qed.

Lemma run_ok_of_outcome A (r : res A) c0 B fuel (Q : A -> Prop) :
  outcome_ok r c0 B fuel Q -> run_ok r c0 B (2 * B + 4 <= fuel) Q.
Proof.
  unfold outcome_ok, run_ok. destruct r as [a s'|s'|s'|s']; intros H.
  - destruct H as [H1 H2]. split; [exact H1|lia].
  - lia.
  - exact H.
  - destruct H as [H1 H2]. split; lia.
Qed.

Lemma sumB_const k l : sumB (fun _ => k) l = k * length l.
Proof. induction l as [|c r IH]; [cbn; lia|]. rewrite sumB_cons, IH. cbn [length]. lia. Qed.

(* under the ideal semantics (unique extension) credulous and skeptical acceptance coincide *)
Lemma id_cred_skep : forall F A, wf F -> (cred ID F A <-> skep ID F A).
Proof.
  intros F A Hwf. split.
  - intros [S [HS [a [Ha HaS]]]] S' HS'. exists a. split; [exact Ha|].
    exact (proj1 (idl_unique F S S' Hwf HS HS' a) HaS).
  - intros H. destruct (idl_exists F Hwf) as [S HS]. exists S. split; [exact HS|exact (H S HS)].
Qed.

Lemma id_skep_meets : forall F I A, wf F -> idl F I -> (skep ID F A <-> meets A I = true).
Proof.
  intros F I A Hwf HI. rewrite meets_spec. split.
  - intros H. exact (H I HI).
  - intros [a [Ha HaI]] S HS. exists a. split; [exact Ha|].
    exact (proj1 (idl_unique F I S Hwf HI HS a) HaI).
Qed.

(* the two range semantics and their encoders *)
Definition rg_sem (sm : sem) (e : enc) : Prop :=
  (sm = SST /\ enc_base e = BCo) \/ (sm = STG /\ enc_base e = BCf).

Lemma rg_sem_rmax sm e F l : rg_sem sm e -> (rmax e F l <-> ext sm F l).
Proof. intros [[-> He]|[-> He]]; [exact (rmax_sst e F l He)|exact (rmax_stg e F l He)]. Qed.
Lemma rg_sem_base sm e : rg_sem sm e -> enc_base e <> BSt.
Proof. intros [[_ He]|[_ He]]; rewrite He; discriminate. Qed.
Lemma rg_sem_start sm e F S : rg_sem sm e -> co F S -> basep (enc_base e) F S.
Proof. intros [[_ He]|[_ He]] H; rewrite He; [exact H|exact (MaxExtRange.co_cfs F S H)]. Qed.
Lemma rg_sem_not_st sm e : rg_sem sm e -> sm <> ST.
Proof. intros [[-> _]|[-> _]]; discriminate. Qed.
Lemma rg_sem_bound sm e c : rg_sem sm e ->
  comp_bound sm e c = rg_bound e (c_af c) (length (c_ids c)).
Proof. intros [[-> _]|[-> _]]; reflexivity. Qed.

(* ------------------------------------------------------------------------------------------ *)
Section Top.
Variable oracle : nat -> cnf -> list lit -> answer.
Variable thr : nat.
Hypothesis Hthr : 1 <= thr.
Hypothesis Hvalid : valid_oracle oracle.

(** * The loop bodies on one component of a decomposition *)

Definition body_ok (sm : sem) (e : enc) (fuel : nat) (ccs : list comp)
           (f : list nat -> comp -> M (list nat)) : Prop :=
  forall c merged s0, In c ccs ->
    run_ok (f merged c s0) (calls s0) (comp_bound sm e c) (fuel_ok sm e ccs fuel)
           (fun r => exists x, (ext sm (c_af c) x /\ NoDup x) /\ r = merged ++ lift c x).

Section Bodies.
Variable F : af.
Variable ccs : list comp.
Hypothesis Hok : decomp_ok F ccs.

Lemma comp_gr_start : forall c, In c ccs -> gr_start (c_af c).
Proof.
  intros c Hc. split; [exact (comp_gr_co F ccs c Hok Hc)|exact (proj2 (comp_gr F ccs c Hok Hc))].
Qed.

Lemma pr_body_ok : forall e fuel, pr_enc e ->
  body_ok PR e fuel ccs (fun merged c => l <- pr_max_in_cc oracle thr fuel e c ;; ret (merged ++ l)).
Proof.
  intros e fuel Hpe c merged s0 Hc.
  pose proof (pr_max_in_cc_full oracle thr Hthr Hvalid fuel e c (length (c_ids c)) s0
                (d_compact _ _ Hok c Hc) Hpe (comp_gr_start c Hc)) as H.
  apply run_ok_of_outcome in H.
  apply (run_ok_map _ _ _ (fun l => merged ++ l) _ _ _ _ _ _
           (run_ok_weaken _ _ _ _ _ _ _ _ _ (le_n _) (fun Hf => Hf c Hc) (fun a Ha => Ha) H)).
  intros L [l [H1 [H2 ->]]]. exists l. split; [split; assumption|reflexivity].
Qed.

Lemma rg_body_ok : forall sm e fuel, rg_sem sm e ->
  body_ok sm e fuel ccs (fun merged c => l <- rg_max_in_cc oracle thr fuel e c ;; ret (merged ++ l)).
Proof.
  intros sm e fuel Hrg c merged s0 Hc. rewrite (rg_sem_bound sm e c Hrg).
  pose proof (rg_max_in_cc_spec oracle thr Hthr Hvalid e (rg_sem_base sm e Hrg) (c_af c)
                (length (c_ids c)) (d_compact _ _ Hok c Hc)
                (rg_sem_start sm e _ _ Hrg (comp_gr_co F ccs c Hok Hc))
                (proj2 (comp_gr F ccs c Hok Hc))
                (2 * rg_bound e (c_af c) (length (c_ids c)) + 4 <= fuel) fuel c s0 eq_refl
                (fun H => H)) as H.
  assert (H' : run_ok (rg_max_in_cc oracle thr fuel e c s0) (calls s0)
                 (rg_bound e (c_af c) (length (c_ids c))) (fuel_ok sm e ccs fuel)
                 (fun L => exists l, L = lift c l /\ rmax e (c_af c) l /\ NoDup l)).
  { unfold run_ok. destruct (rg_max_in_cc oracle thr fuel e c s0); try exact H.
    destruct H as [H1 H2]. split; [exact H1|]. intros Hf. apply H2.
    specialize (Hf c Hc). now rewrite (rg_sem_bound sm e c Hrg) in Hf. }
  apply (run_ok_map _ _ _ (fun l => merged ++ l) _ _ _ _ _ _ H').
  intros L [l [-> [H1 H2]]]. exists l. split; [split; [now apply (rg_sem_rmax sm e)|exact H2]|reflexivity].
Qed.

Lemma comp_gr_least : forall c, In c ccs -> gr_least (c_af c).
Proof. intros c Hc. exact (comp_gr F ccs c Hok Hc). Qed.

Lemma id_ext_ok : forall e fuel c s0, pr_enc e -> In c ccs ->
  run_ok (id_ext_for_cc oracle thr fuel e (c_af c) s0) (calls s0) (comp_bound ID e c)
         (fuel_ok ID e ccs fuel) (fun l => idl (c_af c) l /\ NoDup l).
Proof.
  intros e fuel c s0 Hpe Hc.
  pose proof (id_ext_for_cc_full oracle thr Hthr Hvalid e (c_af c) (length (c_ids c))
                (d_compact _ _ Hok c Hc) Hpe (comp_gr_least c Hc) fuel s0) as H.
  apply run_ok_of_outcome in H.
  exact (run_ok_weaken _ _ _ _ _ _ _ _ _ (le_n _) (fun Hf => Hf c Hc) (fun a Ha => Ha) H).
Qed.

(* the body of [id_dc_cert] *)
Lemma id_body_ok : forall e fuel, pr_enc e ->
  body_ok ID e fuel ccs
    (fun merged c => l <- id_ext_for_cc oracle thr fuel e (c_af c) ;; ret (merged ++ lift c l)).
Proof.
  intros e fuel Hpe c merged s0 Hc.
  apply (run_ok_map _ _ _ (fun l => merged ++ lift c l) _ _ _ _ _ _ (id_ext_ok e fuel c s0 Hpe Hc)).
  intros l Hl. exists l. split; [exact Hl|reflexivity].
Qed.

(* the body of [id_se]: it first opens (and encodes) a session that is never used *)
Lemma id_se_body_ok : forall e fuel, pr_enc e ->
  body_ok ID e fuel ccs
    (fun merged c =>
       new_solver ;;; encode_m thr e false (c_af c) ;;;
       l <- id_ext_for_cc oracle thr fuel e (c_af c) ;;
       ret (merged ++ lift c l)).
Proof.
  intros e fuel Hpe c merged s0 Hc.
  destruct (encode_af_some thr e (c_af c)) as [r [C HE]].
  unfold bind at 1. cbn [new_solver]. fold (st_new s0).
  unfold bind at 1. rewrite (encode_m_done thr e false (c_af c) r C (st_new s0) HE).
  pose proof (id_body_ok e fuel Hpe c merged (st_encoded (st_new s0) r C) Hc) as H.
  rewrite calls_encoded in H. exact H.
Qed.

End Bodies.

(* ------------------------------------------------------------------------------------------ *)
Section Framework.
Variable F : af.
Variable g : gview.
Hypothesis Hvg : view_good g F.

Let Hwf : wf F := vg_wf g F Hvg.

(** * Single extension *)

Lemma se_for_ccs : forall sm e fuel (f : list nat -> comp -> M (list nat)) s,
  (forall ccs, decomp_ok F ccs -> body_ok sm e fuel ccs f) ->
  run_ok ((ccs <- ccs_m g ;; r <- for_ccs ccs [] f ;; ret (Some r)) s) (calls s)
         (total_bound sm e (all_comps g)) (fuel_ok sm e (all_comps g) fuel) (se_spec sm F).
Proof.
  intros sm e fuel f s Hbody. destruct (vg_cc g F Hvg) as [ccs [Hall Hok]].
  rewrite (all_comps_eq g ccs Hall). unfold ccs_m. rewrite Hall, bind_ret_l.
  apply (run_ok_map _ _ _ Some _ _ _ _ _ _
           (for_ccs_ok (comp_bound sm e) _ _ f ccs [] s (Hbody ccs Hok))).
  intros L [Ls [HLs ->]]. cbn [app se_spec]. exact (glue_ext_full F ccs Hok sm Ls HLs).
Qed.

Theorem pr_se_top : forall fuel e s, pr_enc e ->
  run_ok (pr_se oracle thr fuel e g s) (calls s) (total_bound PR e (all_comps g))
         (fuel_ok PR e (all_comps g) fuel) (se_spec PR F).
Proof.
  intros fuel e s Hpe. apply (se_for_ccs PR e fuel). intros ccs Hok. now apply (pr_body_ok F).
Qed.

Theorem rg_se_top : forall sm fuel e s, rg_sem sm e ->
  run_ok (rg_se oracle thr fuel e g s) (calls s) (total_bound sm e (all_comps g))
         (fuel_ok sm e (all_comps g) fuel) (se_spec sm F).
Proof.
  intros sm fuel e s Hrg. apply (se_for_ccs sm e fuel). intros ccs Hok. now apply (rg_body_ok F).
Qed.

Theorem id_se_top : forall fuel e s, pr_enc e ->
  run_ok (id_se oracle thr fuel e g s) (calls s) (total_bound ID e (all_comps g))
         (fuel_ok ID e (all_comps g) fuel) (se_spec ID F).
Proof.
  intros fuel e s Hpe. apply (se_for_ccs ID e fuel). intros ccs Hok. now apply (id_se_body_ok F).
Qed.

(** * Acceptance through the merged component of the listed arguments *)

Section Accept.
Variable al : list nat.
Hypothesis Hal : forall a, In a al -> In a (args F).

(* completion of a certificate on the remaining components *)
Lemma complete_wpK : forall sm e fuel f c rest ce Kabs s (Q : list nat -> Prog.st -> Prop),
  decomp_ok F (c :: rest) -> body_ok sm e fuel (c :: rest) f ->
  ext sm (c_af c) ce -> NoDup ce ->
  calls s + total_bound sm e rest <= Kabs ->
  (forall L s',
     ext sm F L /\ NoDup L /\ incl L (args F) /\
     (forall la, (forall i, In i la -> i < length (c_ids c)) ->
        ((exists a, In a (map (cc_global c) la) /\ In a L) <-> meets la ce = true)) ->
     calls s' <= calls s + total_bound sm e rest -> Q L s') ->
  wpK Kabs (fuel_ok sm e (c :: rest) fuel) (for_ccs rest (lift c ce) f) Q s.
Proof.
  intros sm e fuel f c rest ce Kabs s Q Hok Hbody Hce Hnd HK HQ.
  apply (for_ccs_wpK (comp_bound sm e) _ (fun c' x => ext sm (c_af c') x /\ NoDup x) f).
  - intros c' merged s0 Hc'. apply Hbody. now right.
  - exact HK.
  - intros Ls s' HLs Hc. apply HQ; [|exact Hc]. exact (glue_cert F c rest Hok sm ce Ls Hce Hnd HLs).
Qed.

(* --- PR --- *)
Theorem pr_ds_top : forall fuel e s, pr_enc e ->
  run_ok (pr_ds oracle thr fuel e g al s) (calls s) (total_bound PR e (merged_comps g al))
         (fuel_ok PR e (merged_comps g al) fuel) (fun b => acc_spec PR false false F al (b, None)).
Proof.
  intros fuel e s Hpe.
  destruct (vg_merged g F al Hvg Hal) as [s' [c [la [rest [Hm [Hl [Hmap [Hlt [Hrem Hok]]]]]]]]].
  rewrite (merged_comps_eq g al s' c rest Hm Hrem). unfold pr_ds, merged_m. rewrite Hm, bind_ret_l.
  cbn [snd].
  pose proof (pr_ds_in_cc_full oracle thr Hthr Hvalid fuel e c (length (c_ids c)) al la true s
                (d_compact _ _ Hok c (or_introl eq_refl)) Hpe
                (comp_gr_start F (c :: rest) Hok c (or_introl eq_refl)) Hl) as H.
  apply run_ok_of_outcome in H.
  apply (run_ok_map _ _ _ fst _ _ _ _ _ _
           (run_ok_weaken _ _ _ _ _ _ _ _ _ (sumB_in (comp_bound PR e) c (c :: rest) (or_introl eq_refl))
              (fun Hf => Hf c (or_introl eq_refl)) (fun a Ha => Ha) H)).
  intros r Hr. unfold acc_spec. cbn [fst snd]. split; [|discriminate].
  rewrite <- Hmap, (skep_local F c rest Hok PR la ltac:(discriminate) Hlt).
  destruct r as [[|] [ce|]]; cbn [ds_answer fst] in *; try tauto.
  split; [discriminate|]. tauto.
Qed.

Theorem pr_ds_cert_top : forall fuel e s, pr_enc e ->
  run_ok (pr_ds_cert oracle thr fuel e g al s) (calls s) (total_bound PR e (merged_comps g al))
         (fuel_ok PR e (merged_comps g al) fuel) (acc_spec PR false true F al).
Proof.
  intros fuel e s Hpe.
  destruct (vg_merged g F al Hvg Hal) as [s' [c [la [rest [Hm [Hl [Hmap [Hlt [Hrem Hok]]]]]]]]].
  rewrite (merged_comps_eq g al s' c rest Hm Hrem). unfold pr_ds_cert, merged_m. rewrite Hm, bind_ret_l.
  cbn [snd fst]. unfold total_bound. rewrite sumB_cons. apply run_ok_intro. rewrite wp_bind.
  pose proof (pr_ds_in_cc_full oracle thr Hthr Hvalid fuel e c (length (c_ids c)) al la false s
                (d_compact _ _ Hok c (or_introl eq_refl)) Hpe
                (comp_gr_start F (c :: rest) Hok c (or_introl eq_refl)) Hl) as H.
  apply run_ok_of_outcome in H.
  apply (wpK_run_ok _ _ _ _ _ _ _ _ _ H); [change (pr_bound e (c_af c)) with (comp_bound PR e c); lia
                                          |intros Hf; exact (Hf c (or_introl eq_refl))|].
  pose proof (skep_local F c rest Hok PR la ltac:(discriminate) Hlt) as Hloc. rewrite Hmap in Hloc.
  intros [[|] [ce|]] s1 Hans Hc1; cbn [ds_answer] in Hans; try contradiction.
  - rewrite wp_ret. split; [|change (pr_bound e (c_af c)) with (comp_bound PR e c) in Hc1; lia].
    unfold acc_spec. cbn [fst snd negb]. split; [|reflexivity]. rewrite Hloc. tauto.
  - destruct Hans as [Hns [Hnd [Hmeet Hpr]]]. unfold remaining_m. rewrite Hrem, wp_bind, wp_ret, wp_bind.
    apply (complete_wpK PR e fuel _ c rest ce); [exact Hok|now apply (pr_body_ok F)|exact Hpr|exact Hnd| |].
    + change (pr_bound e (c_af c)) with (comp_bound PR e c) in Hc1. unfold total_bound. lia.
    + intros L s2 [HL [HndL [Hincl Hiff]]] Hc2. rewrite wp_ret.
      split; [|change (pr_bound e (c_af c)) with (comp_bound PR e c) in Hc1; unfold total_bound in Hc2; lia].
      unfold acc_spec. cbn [fst snd]. split; [rewrite Hloc; split; [discriminate|tauto]|].
      split; [reflexivity|]. split; [reflexivity|]. split; [exact HL|]. split; [exact HndL|].
      split; [exact Hincl|]. intros a Ha HaL. specialize (Hiff la Hlt). rewrite Hmap in Hiff.
      assert (Hx : meets la ce = true) by (apply Hiff; now exists a). congruence.
Qed.

(* --- SST / STG --- *)
Lemma rg_in_cc_ok : forall sm fuel e cred s c rest la, rg_sem sm e ->
  decomp_ok F (c :: rest) -> locals c al = Some la -> (forall i, In i la -> i < length (c_ids c)) ->
  run_ok (rg_in_cc oracle thr fuel e c al cred s) (calls s) (comp_bound sm e c)
         (fuel_ok sm e (c :: rest) fuel) (accept_ok (ext sm (c_af c)) la cred).
Proof.
  intros sm fuel e cred s c rest la Hrg Hok Hl Hlt. rewrite (rg_sem_bound sm e c Hrg).
  pose proof (rg_in_cc_spec oracle thr Hthr Hvalid e (rg_sem_base sm e Hrg) (c_af c)
                (length (c_ids c)) (d_compact _ _ Hok c (or_introl eq_refl))
                (rg_sem_start sm e _ _ Hrg (comp_gr_co F (c :: rest) c Hok (or_introl eq_refl)))
                (proj2 (comp_gr F (c :: rest) c Hok (or_introl eq_refl)))
                (2 * rg_bound e (c_af c) (length (c_ids c)) + 4 <= fuel) fuel c al la cred s eq_refl
                Hl Hlt (fun H => H)) as H.
  unfold run_ok. destruct (rg_in_cc oracle thr fuel e c al cred s) as [r s1|s1|s1|s1]; try exact H.
  - destruct H as [H1 H2]. split; [|exact H2].
    exact (rg_post_accept e (c_af c) la cred r (ext sm (c_af c)) (fun l => rg_sem_rmax sm e _ l Hrg) H1).
  - destruct H as [H1 H2]. split; [exact H1|]. intros Hf. apply H2.
    specialize (Hf c (or_introl eq_refl)). now rewrite (rg_sem_bound sm e c Hrg) in Hf.
Qed.

Lemma accept_status : forall sm c rest la cred r, sm <> ST ->
  decomp_ok F (c :: rest) -> map (cc_global c) la = al -> (forall i, In i la -> i < length (c_ids c)) ->
  accept_ok (ext sm (c_af c)) la cred r ->
  (fst r = true <-> if cred then Spec.AF.cred sm F al else skep sm F al).
Proof.
  intros sm c rest la cred r Hs Hok Hmap Hlt [H _]. rewrite H. rewrite <- Hmap. destruct cred.
  - symmetry. exact (cred_local F c rest Hok sm la Hs Hlt).
  - symmetry. exact (skep_local F c rest Hok sm la Hs Hlt).
Qed.

Theorem rg_accept_top : forall sm fuel e cred s, rg_sem sm e ->
  run_ok (rg_accept oracle thr fuel e g al cred s) (calls s) (total_bound sm e (merged_comps g al))
         (fuel_ok sm e (merged_comps g al) fuel) (fun b => acc_spec sm cred false F al (b, None)).
Proof.
  intros sm fuel e cred s Hrg.
  destruct (vg_merged g F al Hvg Hal) as [s' [c [la [rest [Hm [Hl [Hmap [Hlt [Hrem Hok]]]]]]]]].
  rewrite (merged_comps_eq g al s' c rest Hm Hrem). unfold rg_accept, merged_m. rewrite Hm, bind_ret_l.
  cbn [snd].
  apply (run_ok_map _ _ _ fst _ _ _ _ _ _
           (run_ok_weaken _ _ _ _ _ _ _ _ _ (sumB_in (comp_bound sm e) c (c :: rest) (or_introl eq_refl))
              (fun Hf => Hf) (fun a Ha => Ha) (rg_in_cc_ok sm fuel e cred s c rest la Hrg Hok Hl Hlt))).
  intros r Hr. unfold acc_spec. cbn [fst snd]. split; [|discriminate].
  exact (accept_status sm c rest la cred r (rg_sem_not_st sm e Hrg) Hok Hmap Hlt Hr).
Qed.

Theorem rg_accept_cert_top : forall sm fuel e cred s, rg_sem sm e ->
  run_ok (rg_accept_cert oracle thr fuel e g al cred s) (calls s) (total_bound sm e (merged_comps g al))
         (fuel_ok sm e (merged_comps g al) fuel) (acc_spec sm cred true F al).
Proof.
  intros sm fuel e cred s Hrg.
  destruct (vg_merged g F al Hvg Hal) as [s' [c [la [rest [Hm [Hl [Hmap [Hlt [Hrem Hok]]]]]]]]].
  rewrite (merged_comps_eq g al s' c rest Hm Hrem). unfold rg_accept_cert, merged_m. rewrite Hm, bind_ret_l.
  cbn [snd fst]. unfold total_bound. rewrite sumB_cons. apply run_ok_intro. rewrite wp_bind.
  apply (wpK_run_ok _ _ _ _ _ _ _ _ _ (rg_in_cc_ok sm fuel e cred s c rest la Hrg Hok Hl Hlt));
    [lia|tauto|].
  intros r s1 Hr Hc1.
  pose proof (accept_status sm c rest la cred r (rg_sem_not_st sm e Hrg) Hok Hmap Hlt Hr) as Hst.
  destruct Hr as [_ Hr]. destruct r as [b [ce|]]; cbn [fst snd] in *.
  - destruct Hr as [-> [Hce [Hmeet Hnd]]]. unfold remaining_m. rewrite Hrem, wp_bind, wp_ret, wp_bind.
    apply (complete_wpK sm e fuel _ c rest ce); [exact Hok|now apply (rg_body_ok F)|exact Hce|exact Hnd| |].
    + unfold total_bound. lia.
    + intros L s2 [HL [HndL [Hincl Hiff]]] Hc2. rewrite wp_ret.
      split; [|unfold total_bound in Hc2; lia].
      unfold acc_spec. cbn [fst snd]. split; [exact Hst|].
      split; [reflexivity|]. split; [reflexivity|]. split; [exact HL|]. split; [exact HndL|].
      split; [exact Hincl|]. specialize (Hiff la Hlt). rewrite Hmap in Hiff. destruct cred.
      * now apply Hiff.
      * intros a Ha HaL. assert (Hx : meets la ce = true) by (apply Hiff; now exists a). congruence.
  - subst b. rewrite wp_ret. split; [|lia]. unfold acc_spec. cbn [fst snd].
    split; [exact Hst|reflexivity].
Qed.

(* --- ID --- *)
Lemma id_cred_ok : forall fuel e s c rest la, pr_enc e -> decomp_ok F (c :: rest) ->
  run_ok (id_cred_for_cc oracle thr fuel e (c_af c) la s) (calls s) (comp_bound ID e c)
         (fuel_ok ID e (c :: rest) fuel) (id_cred_answer (c_af c) la).
Proof.
  intros fuel e s c rest la Hpe Hok.
  pose proof (id_cred_for_cc_full oracle thr Hthr Hvalid e (c_af c) (length (c_ids c))
                (d_compact _ _ Hok c (or_introl eq_refl)) Hpe
                (comp_gr_least F (c :: rest) Hok c (or_introl eq_refl)) fuel la s) as H.
  apply run_ok_of_outcome in H.
  exact (run_ok_weaken _ _ _ _ _ _ _ _ _ (le_n _) (fun Hf => Hf c (or_introl eq_refl)) (fun a Ha => Ha) H).
Qed.

(* [id_dc] serves both DC-ID and DS-ID without certificate *)
Theorem id_dc_top : forall pol fuel e s, pr_enc e ->
  run_ok (id_dc oracle thr fuel e g al s) (calls s) (total_bound ID e (merged_comps g al))
         (fuel_ok ID e (merged_comps g al) fuel) (fun b => acc_spec ID pol false F al (b, None)).
Proof.
  intros pol fuel e s Hpe.
  destruct (vg_merged g F al Hvg Hal) as [s' [c [la [rest [Hm [Hl [Hmap [Hlt [Hrem Hok]]]]]]]]].
  rewrite (merged_comps_eq g al s' c rest Hm Hrem). unfold id_dc, merged_m, locals_m.
  rewrite Hm, bind_ret_l. cbn [snd]. rewrite Hl, bind_ret_l.
  apply (run_ok_map _ _ _ fst _ _ _ _ _ _
           (run_ok_weaken _ _ _ _ _ _ _ _ _ (sumB_in (comp_bound ID e) c (c :: rest) (or_introl eq_refl))
              (fun Hf => Hf) (fun a Ha => Ha) (id_cred_ok fuel e s c rest la Hpe Hok))).
  intros r [Hr _]. unfold acc_spec. cbn [fst snd]. split; [|discriminate].
  rewrite Hr, <- (cred_local F c rest Hok ID la ltac:(discriminate) Hlt), Hmap.
  destruct pol; [reflexivity|exact (id_cred_skep F al Hwf)].
Qed.

Theorem id_dc_cert_top : forall fuel e s, pr_enc e ->
  run_ok (id_dc_cert oracle thr fuel e g al s) (calls s) (total_bound ID e (merged_comps g al))
         (fuel_ok ID e (merged_comps g al) fuel) (acc_spec ID true true F al).
Proof.
  intros fuel e s Hpe.
  destruct (vg_merged g F al Hvg Hal) as [s' [c [la [rest [Hm [Hl [Hmap [Hlt [Hrem Hok]]]]]]]]].
  rewrite (merged_comps_eq g al s' c rest Hm Hrem). unfold id_dc_cert, merged_m, locals_m.
  rewrite Hm, bind_ret_l. cbn [snd fst]. rewrite Hl, bind_ret_l.
  unfold total_bound. rewrite sumB_cons. apply run_ok_intro. rewrite wp_bind.
  apply (wpK_run_ok _ _ _ _ _ _ _ _ _ (id_cred_ok fuel e s c rest la Hpe Hok)); [lia|tauto|].
  pose proof (cred_local F c rest Hok ID la ltac:(discriminate) Hlt) as Hloc. rewrite Hmap in Hloc.
  intros [[|] [ce|]] s1 [Hst Hans] Hc1; cbn [fst] in *; try contradiction.
  - destruct Hans as [Hce [Hnd Hmeet]]. unfold remaining_m. rewrite Hrem, wp_bind, wp_ret, wp_bind.
    apply (complete_wpK ID e fuel _ c rest ce); [exact Hok|now apply (id_body_ok F)|exact Hce|exact Hnd| |].
    + unfold total_bound. lia.
    + intros L s2 [HL [HndL [Hincl Hiff]]] Hc2. rewrite wp_ret.
      split; [|unfold total_bound in Hc2; lia].
      unfold acc_spec. cbn [fst snd]. split; [rewrite Hloc; exact Hst|].
      split; [reflexivity|]. split; [reflexivity|]. split; [exact HL|]. split; [exact HndL|].
      split; [exact Hincl|]. specialize (Hiff la Hlt). rewrite Hmap in Hiff. now apply Hiff.
  - rewrite wp_ret. split; [|lia]. unfold acc_spec. cbn [fst snd].
    split; [rewrite Hloc; exact Hst|reflexivity].
Qed.

End Accept.

(* DS-ID with certificate: the ideal extension of the whole framework, then a membership test *)
Theorem id_ds_cert_top : forall al fuel e s, pr_enc e ->
  run_ok (id_ds_cert oracle thr fuel e g al s) (calls s) (total_bound ID e (all_comps g))
         (fuel_ok ID e (all_comps g) fuel) (acc_spec ID false true F al).
Proof.
  intros al fuel e s Hpe. unfold id_ds_cert.
  replace (total_bound ID e (all_comps g)) with (total_bound ID e (all_comps g) + 0) by lia.
  apply run_ok_intro. rewrite wp_bind.
  apply (wpK_run_ok _ _ _ _ _ _ _ _ _ (id_se_top fuel e s Hpe)); [lia|tauto|].
  intros [L|] s1 Hr Hc1; cbn [se_spec] in Hr; [|destruct Hr; discriminate].
  destruct Hr as [HL [Hnd Hincl]]. pose proof (id_skep_meets F L al Hwf HL) as Hsk.
  destruct (meets al L) eqn:Hm; rewrite wp_ret; (split; [|lia]); unfold acc_spec; cbn [fst snd negb].
  - split; [tauto|reflexivity].
  - split; [rewrite Hsk; split; discriminate|].
    split; [reflexivity|]. split; [reflexivity|]. split; [exact HL|]. split; [exact Hnd|].
    split; [exact Hincl|]. now apply meets_false.
Qed.

End Framework.
End Top.

Print Assumptions pr_se_top.
Print Assumptions rg_se_top.
Print Assumptions id_se_top.
Print Assumptions pr_ds_top.
Print Assumptions pr_ds_cert_top.
Print Assumptions rg_accept_top.
Print Assumptions rg_accept_cert_top.
Print Assumptions id_dc_top.
Print Assumptions id_dc_cert_top.
Print Assumptions id_ds_cert_top.
