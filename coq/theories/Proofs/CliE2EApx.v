(* C05 END TO END FROM THE BYTES OF AN ASPARTIX FILE: ApxProofs.apx_faithful (C13), the good view of
   reachable stores TopBase.view_good_store and CliE2E.all_problems_correct composed.
   The framework read from a well-formed file is [apx_result decls pairs]; its arguments are the
   first occurrences of the declared labels (ids 0, 1, 2, ...), its attacks the declared label pairs.

   Labels are lists of Unicode code points (Rust Strings): [Cli.apx_instance] prints a label as its
   UTF-8 encoding and UTF-8 decodes the `-a` operand before looking it up.  All statements hold for
   every identifier the Aspartix reader accepts ([_[:alpha:]][_[:alpha:]\d]* with the Unicode `\d`),
   ASCII or not; [apx_labels_invertible] / [apx_file_reads_back]: the printed labels are read back
   (UTF-8 decoding + lookup) to the same arguments.
   (History: before the repair of Model/Cli.v the instance printed the code points themselves as
   bytes, which was the UTF-8 text for ASCII labels only.) *)
From Coq Require Import String Ascii NArith List Bool Lia ZifyBool.
From Crusta Require Import Spec.AF Sat.Cnf Sat.Prog Model.Solvers Spec.IoSpec Model.Cli.
From Crusta Require Import Proofs.SolverBasics Proofs.IoBase Proofs.StoreProofs Proofs.ReadersProofs
  Proofs.ApxProofs Proofs.WritersProofs Proofs.CliProofs.
From Crusta Require Import Proofs.TopBase Proofs.TopMax Proofs.SolverTop Proofs.CliE2E.
From Crusta Require Proofs.GroundedProofs Proofs.SolverWholeEx.
Import ListNotations.

(* what `crustabri solve -r apx -f file` hands to the command *)
Definition apx_input (bytes : list N) : option instance :=
  match read_apx bytes with
  | RdOk f => Some (apx_instance f)
  | RdErr => None
  | RdPanic => None
  end.

(* the framework denoted by the store read from the file: live ids, attacks as id pairs *)
Definition apx_af (decls : list str) (pairs : list (str * str)) : af :=
  GroundedProofs.af_of str (apx_result decls pairs).

(* ------------------------------------------------------------------ small facts *)
Lemma position_ext {A} (p p' : A -> bool) : (forall x, p x = p' x) ->
  forall l, position p l = position p' l.
Proof.
  intros H. induction l as [|x l IH]; cbn [position]; [reflexivity|]. rewrite H, IH. reflexivity.
Qed.
Lemma beqb_str_eqb a b : beqb a b = str_eqb a b.
Proof.
  destruct (beqb a b) eqn:E1, (str_eqb a b) eqn:E2; try reflexivity.
  - apply beqb_eq in E1. apply str_eqb_eq in E1. congruence.
  - apply str_eqb_eq in E2. apply beqb_eq in E2. congruence.
Qed.
Lemma get_argument_beqb (f : fw str) a :
  get_argument bytes beqb f a = find_label str str_eqb (ls f) a.
Proof.
  unfold get_argument, find_label. apply position_ext. intros [[i l]|]; cbn [slot_has]; [|reflexivity].
  apply beqb_str_eqb.
Qed.

Lemma In_numbered {L} (l : list L) : forall off id x,
  In (id, x) (numbered off l) <-> off <= id /\ nth_error l (id - off) = Some x.
Proof.
  induction l as [|y l IH]; intros off id x; cbn [numbered In].
  - split; [intros []|]. intros [_ H]. destruct (id - off); discriminate.
  - rewrite IH. split.
    + intros [E|[Hle Hn]].
      * injection E as <- <-. split; [lia|]. rewrite Nat.sub_diag. reflexivity.
      * split; [lia|]. replace (id - off) with (S (id - S off)) by lia. exact Hn.
    + intros [Hle Hn]. destruct (id - off) as [|k] eqn:E.
      * left. cbn [nth_error] in Hn. injection Hn as <-. f_equal. lia.
      * right. split; [lia|]. cbn [nth_error] in Hn. replace (id - S off) with k by lia. exact Hn.
Qed.
Lemma In_numbered0 {L} (l : list L) id x : In (id, x) (numbered 0 l) <-> nth_error l id = Some x.
Proof. rewrite In_numbered, Nat.sub_0_r. split; [intros [_ H]; exact H|intros H; split; [lia|exact H]]. Qed.

Lemma find_fst_nodup {L} (l : list (nat * L)) id x : NoDup (map fst l) -> In (id, x) l ->
  find (fun p => Nat.eqb (fst p) id) l = Some (id, x).
Proof.
  induction l as [|[i y] l IH]; intros Hnd Hin; [destruct Hin|].
  cbn [map fst] in Hnd. inversion Hnd as [|? ? Hn Hnd']; subst.
  cbn [find fst]. destruct (Nat.eqb_spec i id) as [->|Hne].
  - destruct Hin as [E|Hin]; [congruence|]. exfalso. apply Hn. apply in_map_iff. exists (id, x). auto.
  - destruct Hin as [E|Hin]; [congruence|]. apply IH; assumption.
Qed.

Lemma label_of_numbered {L} (f : fw L) (labels : list L) id l :
  iter_args L f = numbered 0 labels -> nth_error labels id = Some l -> label_of f id = Some l.
Proof.
  intros Ha Hid. unfold label_of. rewrite (find_fst_nodup (iter_args L f) id l).
  - reflexivity.
  - rewrite Ha, map_fst_numbered. apply seq_NoDup.
  - rewrite Ha. apply In_numbered0. exact Hid.
Qed.

(* ------------------------------------------------------------------ the framework that is read *)
Section Result.
Variable decls : list str.
Variable pairs : list (str * str).
Hypothesis Hdecl : forall p, In p pairs -> In (fst p) decls /\ In (snd p) decls.

Let fr := apx_result decls pairs.
Let labels := dedup str_eqb [] decls.

Lemma apx_result_reachable : GroundedProofs.reachable str str_eqb fr.
Proof. eexists; eexists; reflexivity. Qed.
Lemma apx_result_inv : StoreProofs.Inv str fr.
Proof. unfold fr, apx_result. apply (run_inv str str_eqb str_eqb_spec), (init_inv str str_eqb str_eqb_spec). Qed.
Lemma apx_result_args : iter_args str fr = numbered 0 labels.
Proof. exact (proj2 (proj2 (proj2 (apx_read_arg_exact decls pairs [])))). Qed.
Lemma apx_labels_nodup : NoDup labels.
Proof.
  pose proof (inv_lab str fr apx_result_inv) as H. fold (ls_iter str (ls fr)) in H.
  fold (iter_args str fr) in H. rewrite apx_result_args, map_snd_numbered in H. exact H.
Qed.

Theorem apx_instance_facts :
  let i := apx_instance fr in
  let F := apx_af decls pairs in
  view_good (i_g i) F /\
  args F = seq 0 (length labels) /\
  (forall a b, att F a b -> a < length labels /\ b < length labels) /\
  (forall a b la lb, nth_error labels a = Some la -> nth_error labels b = Some lb ->
                     (att F a b <-> In (la, lb) pairs)) /\
  (forall id l, nth_error labels id = Some l -> i_label i id = utf8_encode l) /\
  (forall w id, i_arg i w = Some id <->
                exists l, utf8_decode w = Some l /\ nth_error labels id = Some l).
Proof using Hdecl.
  intros i F.
  assert (Hargs : args F = seq 0 (length labels)).
  { unfold F, apx_af, GroundedProofs.af_of. cbn [args]. unfold live_ids. fold fr.
    rewrite apx_result_args. apply map_fst_numbered. }
  pose proof (GroundedProofs.af_of_wf str str_eqb str_eqb_spec fr apx_result_reachable) as Hwf.
  change (wf F) in Hwf.
  assert (Hlt : forall a b, att F a b -> a < length labels /\ b < length labels).
  { intros a b Hab. destruct Hwf as [_ Hw]. destruct (Hw a b Hab) as [Ha Hb].
    rewrite Hargs in Ha, Hb. apply in_seq in Ha. apply in_seq in Hb. lia. }
  split; [|split; [exact Hargs|split; [exact Hlt|split; [|split]]]].
  - exact (view_good_store str str_eqb str_eqb_spec fr apx_result_reachable).
  - intros a b la lb Ha Hb.
    destruct (apx_result_attacks decls pairs Hdecl) as [_ Hatt]. fold fr in Hatt.
    rewrite <- Hatt. unfold has_att_lab. rewrite apx_result_args. split.
    + intros Hab. exists a, b. rewrite !In_numbered0. split; [exact Ha|split; [exact Hb|exact Hab]].
    + intros (a' & b' & Ha' & Hb' & Hab). rewrite In_numbered0 in Ha', Hb'.
      pose proof apx_labels_nodup as Hnd.
      assert (a' = a).
      { apply (proj1 (NoDup_nth_error labels) Hnd); [apply nth_error_Some; congruence|congruence]. }
      assert (b' = b).
      { apply (proj1 (NoDup_nth_error labels) Hnd); [apply nth_error_Some; congruence|congruence]. }
      subst a' b'. exact Hab.
  - intros id l Hid. unfold i. cbn [apx_instance i_label].
    rewrite (label_of_numbered (L := str) fr labels id l apx_result_args Hid). reflexivity.
  - intros w id. unfold i. cbn [apx_instance i_arg]. destruct (utf8_decode w) as [l|].
    + unfold get_argument. rewrite (find_label_iff fr l id apx_result_inv), apx_result_args, In_numbered0.
      split; [intros H; exists l; split; [reflexivity|exact H]|].
      intros (l' & E & H). injection E as <-. exact H.
    + split; [discriminate|]. intros (l' & E & _). discriminate.
Qed.

(* every declared label is an identifier: then the printed labels are invertible *)
Hypothesis Hident : Forall (fun l => is_ident l = true) decls.

Lemma apx_labels_ident : forall id l, nth_error labels id = Some l -> WritersProofs.label_ok l.
Proof using Hident.
  intros id l Hn. apply ident_label_ok. apply nth_error_In in Hn. unfold labels in Hn.
  apply dedup_sub in Hn. rewrite Forall_forall in Hident. exact (Hident l Hn).
Qed.

Theorem apx_labels_invertible :
  let i := apx_instance fr in
  (forall id l, nth_error labels id = Some l -> i_arg i (utf8_encode l) = Some id) /\
  (forall id, id < length labels -> CliProofs.label_ok WApx (i_label i) (i_arg i) id).
Proof using Hdecl Hident.
  intros i. destruct apx_instance_facts as (_ & _ & _ & _ & Hlab & Harg). fold i in Hlab, Harg.
  assert (H1 : forall id l, nth_error labels id = Some l -> i_arg i (utf8_encode l) = Some id).
  { intros id l Hn. apply Harg. exists l. split; [|exact Hn].
    destruct (apx_labels_ident id l Hn) as (_ & Hs & _). apply utf8_roundtrip. exact Hs. }
  split; [exact H1|]. intros id Hid.
  destruct (nth_error labels id) as [l|] eqn:Hn; [|apply nth_error_None in Hn; lia].
  destruct (apx_labels_ident id l Hn) as (Hne & Hs & H44 & H10).
  unfold CliProofs.label_ok. rewrite (Hlab id l Hn). split; [exact (H1 id l Hn)|].
  split; [apply encode_nonnil; exact Hne|]. split.
  - apply encode_no_byte; [reflexivity|exact H10].
  - apply encode_no_byte; [reflexivity|exact H44].
Qed.
End Result.

Lemma decl_labels_ident : forall f, apx_file_ok f -> Forall (fun l => is_ident l = true) (decl_labels f).
Proof.
  intros f [Hd _]. unfold decl_labels. apply Forall_forall. intros l Hl. apply in_flat_map in Hl.
  destruct Hl as [it [Hit Hl]]. rewrite Forall_forall in Hd. specialize (Hd it Hit).
  destruct it as [sp|al]; cbn [In] in Hl; [destruct Hl|]. destruct Hl as [<-|[]].
  cbn [decl_item_ok] in Hd. exact (proj1 (proj2 (proj2 Hd))).
Qed.

Lemma apx_input_faithful : forall f eols fnl,
  apx_file_ok f -> final_ok (apx_file_lines f) fnl ->
  apx_input (render_lines (apx_file_lines f) eols fnl) =
  Some (apx_instance (apx_result (decl_labels f) (att_pairs f))).
Proof.
  intros f eols fnl Hok Hfin. unfold apx_input. rewrite (apx_faithful f eols fnl Hok Hfin). reflexivity.
Qed.

(* ------------------------------------------------------------------ goal 2, Aspartix *)
Section Files.
Variable oracle : nat -> cnf -> list lit -> answer.
Variable thr : nat.
Variable d : discipline.
Variable fuel : nat.

Theorem apx_file_correct : forall o f eols fnl i q s al,
  valid_oracle oracle -> 1 <= thr ->
  apx_file_ok f -> final_ok (apx_file_lines f) fnl ->
  o_reader o = RApx ->
  let bytes := render_lines (apx_file_lines f) eols fnl in
  let labels := dedup str_eqb [] (decl_labels f) in
  let F := apx_af (decl_labels f) (att_pairs f) in
  validate o (apx_input bytes) = inr (i, q, s, al) ->
  (* the framework: arguments = first occurrences of the declared labels, attacks = declared pairs *)
  (args F = seq 0 (length labels) /\
   (forall a b, att F a b -> a < length labels /\ b < length labels) /\
   (forall a b la lb, nth_error labels a = Some la -> nth_error labels b = Some lb ->
                      (att F a b <-> In (la, lb) (att_pairs f)))) /\
  (* labels printed in UTF-8; the query argument is the one whose label the -a operand encodes *)
  (forall id l, nth_error labels id = Some l -> i_label i id = utf8_encode l) /\
  (forall a, In a al -> exists w l, o_arg o = Some w /\ utf8_decode w = Some l /\
                                    nth_error labels a = Some l) /\
  match run_traced oracle thr d fuel o (apx_input bytes) with
  | (Exit0 out, log) =>
      (exists oc, out = render WApx (i_label i) oc /\ answer_ok q s (o_cert o) F al oc) /\
      (forall k a, ~ In (k, ESolve a Unknown) log)
  | (ExitNonZero, log) =>
      exists k a log', log = log' ++ [(k, ESolve a Unknown)] /\
                       forall k' a', ~ In (k', ESolve a' Unknown) log'
  | (ModelOutOfFuel, log) =>
      ~ fuel_ok (solver_for q s) (encoder_for (o_problem o) s (o_encoding o))
                (query_comps (solver_for q s) q (o_cert o) (i_g i) al) fuel
  end.
Proof.
  intros o f eols fnl i q s al Hvalid Hthr Hok Hfin Hr bytes labels F V.
  assert (Hdecl : forall p, In p (att_pairs f) -> In (fst p) (decl_labels f) /\ In (snd p) (decl_labels f))
    by exact (proj2 (proj2 Hok)).
  pose proof (apx_input_faithful f eols fnl Hok Hfin) as Hin. fold bytes in Hin.
  destruct (apx_instance_facts (decl_labels f) (att_pairs f) Hdecl) as (Hvg & Hargs & Hlt & Hatt & Hlab & Harg).
  fold labels in Hargs, Hlt, Hatt, Hlab, Harg. fold F in Hvg, Hargs, Hlt, Hatt.
  destruct (validate_inr o _ i q s al V) as (_ & Hi & _ & Ha).
  assert (Ei : i = apx_instance (apx_result (decl_labels f) (att_pairs f))) by congruence.
  rewrite <- Ei in Hvg, Hlab, Harg.
  assert (Hal : forall a, In a al -> exists w l, o_arg o = Some w /\ utf8_decode w = Some l /\
                                               nth_error labels a = Some l).
  { intros a Hina. destruct (o_arg o) as [w|].
    - destruct Ha as (id & Hid & Hal). apply Harg in Hid. destruct Hid as (l & Hdec & Hn).
      exists w, l. split; [reflexivity|]. split; [exact Hdec|].
      destruct q; subst al; cbn [In] in Hina; try contradiction; destruct Hina as [<-|[]]; exact Hn.
    - destruct Ha as [_ ->]. destruct Hina. }
  split; [split; [exact Hargs|split; [exact Hlt|exact Hatt]]|]. split; [exact Hlab|]. split; [exact Hal|].
  assert (Hal' : forall a, In a al -> In a (args F)).
  { intros a Hina. destruct (Hal a Hina) as (w & l & _ & _ & Hn). rewrite Hargs. apply in_seq.
    assert (a < length labels) by (apply nth_error_Some; congruence). lia. }
  pose proof (all_problems_correct oracle thr d fuel o (apx_input bytes) i q s al F
                Hvalid Hthr Hvg Hal' V) as H.
  rewrite Hr in H. exact H.
Qed.

(* the answer printed on a well-formed Aspartix file can be read back: splitting the lines, the
   commas, UTF-8 decoding every label and looking it up ([i_arg], as for the -a operand) gives an
   outcome that the semantics dictate; for ALL identifier labels, ASCII or not *)
Lemma answer_ok_kind : forall q s cert F al oc, answer_ok q s cert F al oc -> kind_ok q oc.
Proof. intros q s cert F al oc H. destruct q, oc as [r|b c]; cbn [answer_ok kind_ok] in *; try exact I; exact H. Qed.
Lemma answer_ok_args : forall q s cert F al oc, answer_ok q s cert F al oc ->
  forall a, In a (outcome_args oc) -> In a (args F).
Proof.
  intros q s cert F al oc H a Ha.
  destruct q, oc as [[L|]|b [L|]]; cbn [answer_ok outcome_args] in *; try contradiction.
  - destruct H as (_ & _ & Hi). exact (Hi a Ha).
  - destruct H as (_ & _ & _ & _ & _ & Hi & _). exact (Hi a Ha).
  - destruct H as (_ & _ & _ & _ & _ & Hi & _). exact (Hi a Ha).
Qed.

Theorem apx_file_reads_back : forall o f eols fnl i q s al out,
  valid_oracle oracle -> 1 <= thr ->
  apx_file_ok f -> final_ok (apx_file_lines f) fnl ->
  o_reader o = RApx ->
  let bytes := render_lines (apx_file_lines f) eols fnl in
  let labels := dedup str_eqb [] (decl_labels f) in
  let F := apx_af (decl_labels f) (att_pairs f) in
  validate o (apx_input bytes) = inr (i, q, s, al) ->
  run oracle thr d fuel o (apx_input bytes) = Exit0 out ->
  (forall id, id < length labels -> CliProofs.label_ok WApx (i_label i) (i_arg i) id) /\
  exists oc, parse_answer WApx (i_arg i) q out = Some oc /\
             out = render WApx (i_label i) oc /\ answer_ok q s (o_cert o) F al oc.
Proof.
  intros o f eols fnl i q s al out Hvalid Hthr Hok Hfin Hr bytes labels F V Hrun.
  assert (Hdecl : forall p, In p (att_pairs f) -> In (fst p) (decl_labels f) /\ In (snd p) (decl_labels f))
    by exact (proj2 (proj2 Hok)).
  pose proof (apx_input_faithful f eols fnl Hok Hfin) as Hin. fold bytes in Hin.
  destruct (validate_inr o _ i q s al V) as (_ & Hi & _ & _).
  assert (Ei : i = apx_instance (apx_result (decl_labels f) (att_pairs f))) by congruence.
  destruct (apx_labels_invertible (decl_labels f) (att_pairs f) Hdecl (decl_labels_ident f Hok)) as [_ Hlok].
  fold labels in Hlok. rewrite <- Ei in Hlok.
  split; [exact Hlok|].
  destruct (apx_file_correct o f eols fnl i q s al Hvalid Hthr Hok Hfin Hr V) as ((Hargs & _) & _ & _ & H).
  fold bytes labels F in Hargs, H. unfold run in Hrun.
  destruct (run_traced oracle thr d fuel o (apx_input bytes)) as [[out'| |] log]; cbn [fst] in Hrun;
    try discriminate.
  injection Hrun as ->. destruct H as [(oc & Hout & Hoc) _]. exists oc.
  split; [|split; [exact Hout|exact Hoc]]. rewrite Hout. apply parse_render.
  - exact (answer_ok_kind _ _ _ _ _ _ Hoc).
  - intros a Ha. apply Hlok. pose proof (answer_ok_args _ _ _ _ _ _ Hoc a Ha) as Hin'.
    rewrite Hargs in Hin'. apply in_seq in Hin'. lia.
Qed.

(* an ill-formed Aspartix file: non-zero exit, no output, no SAT call *)
Theorem apx_file_rejected : forall o bytes,
  read_apx bytes = RdErr ->
  run_traced oracle thr d fuel o (apx_input bytes) = (ExitNonZero, []).
Proof.
  intros o bytes H. apply errors_exit_nonzero. right. left. unfold apx_input. rewrite H. reflexivity.
Qed.

End Files.

(* ------------------------------------------------------------------ the hypotheses are satisfiable *)
(* arg(a). arg(b). arg(c). att(a,b). att(b,a).  DC-PR for c with certificate: YES and [c] *)
Definition ex_arg (l : str) : decl_item :=
  DArg {| ar_pre := []; ar_b1 := []; ar_label := l; ar_b2 := []; ar_post := [] |}.
Definition ex_att (a b : str) : atts_item :=
  AAtt {| at_pre := []; at_b1 := []; at_a := a; at_b2 := []; at_b3 := []; at_b := b; at_b4 := [];
          at_post := [] |}.
Definition ex_apx : apx_file :=
  {| a_decls := [ex_arg [97%N]; ex_arg [98%N]; ex_arg [99%N]];
     a_atts := [ex_att [97%N] [98%N]; ex_att [98%N] [97%N]] |}.
Definition ex_apx_options : options :=
  {| o_reader := RApx; o_problem := B "DC-PR"; o_arg := Some (B "c"); o_cert := true;
     o_encoding := EncAbsent; o_logging_off := true |}.

Lemma ex_arg_ok l : is_ident l = true -> decl_item_ok (ex_arg l).
Proof.
  intros H. cbn [decl_item_ok ex_arg]. unfold arg_line_ok. cbn [ar_pre ar_b1 ar_label ar_b2 ar_post].
  repeat split; try constructor. exact H.
Qed.
Lemma ex_att_ok a b : is_ident a = true -> is_ident b = true -> atts_item_ok (ex_att a b).
Proof.
  intros Ha Hb. cbn [atts_item_ok ex_att]. unfold att_aline_ok.
  cbn [at_pre at_b1 at_a at_b2 at_b3 at_b at_b4 at_post].
  repeat split; try constructor; assumption.
Qed.
Lemma ex_apx_ok : apx_file_ok ex_apx.
Proof.
  split; [|split].
  - repeat constructor; apply ex_arg_ok; reflexivity.
  - repeat constructor; apply ex_att_ok; reflexivity.
  - intros p [<-|[<-|[]]]; cbn; auto.
Qed.
Lemma ex_apx_final : final_ok (apx_file_lines ex_apx) true.
Proof. intros H. discriminate. Qed.

Example apx_example :
  let bytes := render_lines (apx_file_lines ex_apx) [] true in
  apx_file_ok ex_apx /\ final_ok (apx_file_lines ex_apx) true /\
  valid_oracle SolverWholeEx.bf_oracle /\
  bytes = B "arg(a)." ++ [10%N] ++ B "arg(b)." ++ [10%N] ++ B "arg(c)." ++ [10%N] ++
          B "att(a,b)." ++ [10%N] ++ B "att(b,a)." ++ [10%N] /\
  (exists i, validate ex_apx_options (apx_input bytes) = inr (i, QDC, PR, [2])) /\
  run SolverWholeEx.bf_oracle 1 CadicalLike 100 ex_apx_options (apx_input bytes)
    = Exit0 (B "YES" ++ [10%N] ++ B "[c]" ++ [10%N]).
Proof.
  cbn zeta. split; [exact ex_apx_ok|]. split; [exact ex_apx_final|].
  split; [exact SolverWholeEx.bf_oracle_valid|]. split; [vm_compute; reflexivity|]. split.
  - exists (apx_instance (apx_result (decl_labels ex_apx) (att_pairs ex_apx))).
    rewrite (apx_input_faithful ex_apx [] true ex_apx_ok ex_apx_final).
    assert (E1 : i_arg (apx_instance (apx_result (decl_labels ex_apx) (att_pairs ex_apx))) (B "c") = Some 2)
      by (vm_compute; reflexivity).
    assert (E2 : read_problem_string (B "DC-PR") = inr (QDC, PR)) by reflexivity.
    unfold validate. cbn [ex_apx_options o_reader o_arg o_problem]. rewrite E1, E2. reflexivity.
  - vm_compute. reflexivity.
Qed.

(* the same with NON-ASCII identifiers: `a` + ARABIC-INDIC DIGIT THREE (U+0663, 2 bytes in UTF-8),
   `b` + MATHEMATICAL BOLD DIGIT ONE (U+1D7CF, outside the BMP, 4 bytes), `c`; the string literals
   below are the UTF-8 bytes of this source file ([B] maps the bytes of a Coq string) *)
Definition ex_apx_u : apx_file :=
  {| a_decls := [ex_arg [97%N; 1635%N]; ex_arg [98%N; 120783%N]; ex_arg [99%N]];
     a_atts := [ex_att [97%N; 1635%N] [98%N; 120783%N]; ex_att [98%N; 120783%N] [97%N; 1635%N]] |}.
Definition ex_apx_u_options : options :=
  {| o_reader := RApx; o_problem := B "DS-PR"; o_arg := Some (B "b𝟏"); o_cert := true;
     o_encoding := EncAbsent; o_logging_off := true |}.
Lemma ex_apx_u_ok : apx_file_ok ex_apx_u.
Proof.
  split; [|split].
  - repeat constructor; apply ex_arg_ok; reflexivity.
  - repeat constructor; apply ex_att_ok; reflexivity.
  - intros p [<-|[<-|[]]]; cbn; auto.
Qed.
Lemma ex_apx_u_final : final_ok (apx_file_lines ex_apx_u) true.
Proof. intros H. discriminate. Qed.

Example apx_example_unicode :
  let bytes := render_lines (apx_file_lines ex_apx_u) [] true in
  apx_file_ok ex_apx_u /\ final_ok (apx_file_lines ex_apx_u) true /\
  bytes = B "arg(a٣)." ++ [10%N] ++ B "arg(b𝟏)." ++ [10%N] ++ B "arg(c)." ++ [10%N] ++
          B "att(a٣,b𝟏)." ++ [10%N] ++ B "att(b𝟏,a٣)." ++ [10%N] /\
  B "b𝟏" = [98; 240; 157; 159; 143]%N /\
  (exists i, validate ex_apx_u_options (apx_input bytes) = inr (i, QDS, PR, [1])) /\
  run SolverWholeEx.bf_oracle 1 CadicalLike 100 ex_apx_u_options (apx_input bytes)
    = Exit0 (B "NO" ++ [10%N] ++ B "[a٣,c]" ++ [10%N]).
Proof.
  cbn zeta. split; [exact ex_apx_u_ok|]. split; [exact ex_apx_u_final|].
  split; [vm_compute; reflexivity|]. split; [reflexivity|]. split.
  - exists (apx_instance (apx_result (decl_labels ex_apx_u) (att_pairs ex_apx_u))).
    rewrite (apx_input_faithful ex_apx_u [] true ex_apx_u_ok ex_apx_u_final).
    assert (E1 : i_arg (apx_instance (apx_result (decl_labels ex_apx_u) (att_pairs ex_apx_u))) (B "b𝟏") = Some 1)
      by (vm_compute; reflexivity).
    assert (E2 : read_problem_string (B "DS-PR") = inr (QDS, PR)) by reflexivity.
    unfold validate. cbn [ex_apx_u_options o_reader o_arg o_problem]. rewrite E1, E2. reflexivity.
  - vm_compute. reflexivity.
Qed.

Print Assumptions apx_instance_facts.
Print Assumptions apx_labels_invertible.
Print Assumptions apx_file_correct.
Print Assumptions apx_file_reads_back.
Print Assumptions apx_file_rejected.
Print Assumptions apx_example.
Print Assumptions apx_example_unicode.
