(* Lemmas on Model/Equiv.v, part 2: the classes computed by [compute_classes] partition the
   arguments, members of a class lie in the same complete extensions, the two maps are total and
   inverse of each other at the level of classes. *)
From Coq Require Import List Arith Bool Lia ZifyBool Permutation.
From Crusta Require Import Spec.AF Spec.SemFacts Model.Store Model.Graph Model.Equiv
  Proofs.EncSpec Proofs.StoreBase Proofs.EquivBase.
Import ListNotations.

(* ------------------------------------------------------------------ *)
(** * Vocabulary *)

(* a and b belong to exactly the same complete extensions *)
Definition same_co (F : af) (a b : nat) : Prop := forall E, co F E -> (In a E <-> In b E).
Definition implies_co (F : af) (a b : nat) : Prop := forall E, co F E -> In a E -> In b E.

Definition flat (cls : list eqclass) : list nat := concat (map members cls).

Definition good_class (F : af) (c : eqclass) : Prop :=
  (forall a b, In a (members c) -> In b (members c) -> same_co F a b) /\
  match c with
  | Grounded v => forall E, co F E -> incl v E
  | GroundedDefeated v => forall E d, co F E -> In d v -> ~ In d E
  | NotGrounded _ => True
  end.

Lemma same_co_refl : forall F a, same_co F a a.
Proof. intros F a E _. reflexivity. Qed.
Lemma same_co_sym : forall F a b, same_co F a b -> same_co F b a.
Proof. intros F a b H E HE. symmetry. apply H. exact HE. Qed.
Lemma same_co_trans : forall F a b c, same_co F a b -> same_co F b c -> same_co F a c.
Proof. intros F a b c H1 H2 E HE. rewrite (H1 E HE). apply H2. exact HE. Qed.
Lemma same_co_of_implies : forall F a b, implies_co F a b -> implies_co F b a -> same_co F a b.
Proof. intros F a b H1 H2 E HE. split; [apply H1 | apply H2]; exact HE. Qed.

Lemma flat_app : forall c1 c2, flat (c1 ++ c2) = flat c1 ++ flat c2.
Proof. intros c1 c2. unfold flat. rewrite map_app, concat_app. reflexivity. Qed.

Lemma flat_single : forall c, flat [c] = members c.
Proof. intros c. unfold flat. cbn [map concat]. apply app_nil_r. Qed.

Lemma in_flat : forall cls x, In x (flat cls) <-> exists c, In c cls /\ In x (members c).
Proof.
  intros cls x. unfold flat. rewrite in_concat. split.
  - intros [l [Hl Hx]]. apply in_map_iff in Hl. destruct Hl as [c [E Hc]]. subst l. exists c. auto.
  - intros [c [Hc Hx]]. exists (members c). split; [apply in_map; exact Hc | exact Hx].
Qed.

(* marking vectors *)
Lemma mark_all_spec : forall l v,
  (forall x, In x l -> x < length v) ->
  length (mark_all l v) = length v /\
  forall x, nth_bool (mark_all l v) x = true <-> nth_bool v x = true \/ In x l.
Proof.
  unfold mark_all. induction l as [|a r IH]; intros v Hb; cbn [fold_left].
  - split; [reflexivity|]. intros x. split; [intros H; left; exact H | intros [H|[]]; exact H].
  - assert (Ha : a < length v) by (apply Hb; left; reflexivity).
    destruct (IH (set_nth a true v)) as [IH1 IH2].
    { intros x Hx. rewrite length_set_nth. apply Hb. right. exact Hx. }
    rewrite length_set_nth in IH1. split; [exact IH1|].
    intros x. rewrite IH2, (nth_bool_set_true a x v Ha). cbn [In]. split.
    + intros [[H|H]|H]; auto.
    + intros [H|[H|H]]; auto.
Qed.

Lemma mark_classes_spec : forall cls v,
  (forall x, In x (flat cls) -> x < length v) ->
  length (fold_left (fun v c => mark_all (members c) v) cls v) = length v /\
  forall x, nth_bool (fold_left (fun v c => mark_all (members c) v) cls v) x = true <->
            nth_bool v x = true \/ In x (flat cls).
Proof.
  induction cls as [|c r IH]; intros v Hb; cbn [fold_left].
  - split; [reflexivity|]. intros x. split; [intros H; left; exact H | intros [H|[]]; exact H].
  - assert (Hc : forall x, In x (members c) -> x < length v).
    { intros x Hx. apply Hb. apply in_flat. exists c. split; [left; reflexivity | exact Hx]. }
    destruct (mark_all_spec (members c) v Hc) as [M1 M2].
    destruct (IH (mark_all (members c) v)) as [IH1 IH2].
    { intros x Hx. rewrite M1. apply Hb. apply in_flat. apply in_flat in Hx.
      destruct Hx as [c' [H1 H2]]. exists c'. split; [right; exact H1 | exact H2]. }
    rewrite M1 in IH1. split; [exact IH1|].
    intros x. rewrite IH2, M2. change (c :: r) with ([c] ++ r). rewrite flat_app, flat_single, in_app_iff.
    tauto.
Qed.

(* ------------------------------------------------------------------ *)
(** * The main loop of compute_classes *)

Section Classes.
Variable F : af.
Variable n : nat.
Hypothesis HF : compact_af F n.
Let nat_to := n_attacks_to F.

(* a cached (or fresh) propagation list of x: duplicate free, in range, implied by x *)
Definition plist_ok (x : nat) (p : list nat) : Prop :=
  NoDup p /\ forall y, In y p -> y < n /\ implies_co F x y.
Definition props_ok (props : list (option (list nat))) : Prop :=
  forall x p, x < n -> nth x props None = Some p -> plist_ok x p.

Lemma plist_nil : forall x, plist_ok x [].
Proof. intros x. split; [constructor | intros y []]. Qed.

Lemma propagate_single : forall a P D, a < n ->
  propagate F nat_to [a] = Done (Some (P, D)) -> plist_ok a P.
Proof.
  intros a P D Ha Hp. unfold nat_to in Hp.
  destruct (propagate_shape F n [a] P D HF Hp) as [(pushed & -> & Hnd & Hpushed) _].
  split.
  - cbn [app]. constructor; [|exact Hnd]. intros Hin. destruct (Hpushed a Hin) as [K _].
    apply K. left. reflexivity.
  - intros y Hy. split.
    + cbn [app] in Hy. destruct Hy as [Hy|Hy]; [subst y; exact Ha | apply (Hpushed y Hy)].
    + intros E HE HaE. destruct (propagate_sound F n [a] _ D HF Hp E HE) as [K _].
      { intros z [Hz|[]]. subst z. exact HaE. }
      apply K. exact Hy.
Qed.

Lemma props_ok_set : forall props x p, props_ok props -> length props = n ->
  plist_ok x p -> props_ok (set_nth x (Some p) props).
Proof.
  intros props x p Hok Hlen Hp y q Hy Hn. destruct (Nat.eq_dec x y) as [E|E].
  - subst y. rewrite nth_set_nth_eq in Hn by lia. inversion Hn; subst. exact Hp.
  - rewrite nth_set_nth_neq in Hn by exact E. apply (Hok y q Hy Hn).
Qed.

Definition CI (done : list nat) (st : cstate) : Prop :=
  length (c_in st) = n /\ length (c_props st) = n /\
  NoDup (flat (c_classes st)) /\
  (forall x, x < n -> (nth_bool (c_in st) x = true <-> In x (flat (c_classes st)))) /\
  (forall x, In x (flat (c_classes st)) -> x < n) /\
  (forall c, In c (c_classes st) -> members c <> [] /\ good_class F c) /\
  props_ok (c_props st) /\
  (forall x, In x done -> In x (flat (c_classes st))).

(* adding the class arg :: merged *)
Lemma CI_extend : forall done st arg merged inc2 props2,
  CI done st -> arg < n -> nth_bool (c_in st) arg = false ->
  NoDup merged ->
  (forall m, In m merged -> arg < m /\ m < n /\ nth_bool (c_in st) m = false /\ same_co F arg m) ->
  length inc2 = n -> length props2 = n -> props_ok props2 ->
  (forall x, x < n -> (nth_bool inc2 x = true <->
                       nth_bool (set_nth arg true (c_in st)) x = true \/ In x merged)) ->
  CI (done ++ [arg])
     {| c_classes := c_classes st ++ [NotGrounded (arg :: merged)]; c_in := inc2; c_props := props2 |}.
Proof.
  intros done st arg merged inc2 props2 (Hl1 & Hl2 & Hnd & Hin & Hlt & Hgood & Hprops & Hdone)
         Harg Hargin Hndm Hm Hli Hlp Hp2 Hinc2.
  unfold CI. cbn [c_classes c_in c_props]. rewrite flat_app, flat_single. cbn [members].
  split; [exact Hli|]. split; [exact Hlp|]. split.
  { apply NoDup_app_intro; [exact Hnd| |].
    - constructor; [|exact Hndm]. intros K. destruct (Hm arg K) as [K1 _]. lia.
    - intros x Hx1 Hx2. assert (Hxn : x < n) by (apply Hlt; exact Hx1).
      apply (Hin x Hxn) in Hx1. destruct Hx2 as [Hx2|Hx2].
      + subst x. congruence.
      + destruct (Hm x Hx2) as (_ & _ & K & _). congruence. }
  split.
  { intros x Hx. rewrite (Hinc2 x Hx), (nth_bool_set_true arg x (c_in st)) by lia.
    rewrite in_app_iff, (Hin x Hx). cbn [In]. split.
    - intros [[H|H]|H]; auto.
    - intros [H|[H|H]]; auto. }
  split.
  { intros x Hx. apply in_app_or in Hx. destruct Hx as [Hx|[Hx|Hx]].
    - apply Hlt. exact Hx.
    - subst x. exact Harg.
    - apply (Hm x Hx). }
  split.
  { intros c Hc. apply in_app_or in Hc. destruct Hc as [Hc|[Hc|[]]]; [apply Hgood; exact Hc|].
    subst c. cbn [members]. split; [discriminate|]. split; [|exact I].
    assert (K : forall a, In a (arg :: merged) -> same_co F arg a).
    { intros a [Ha|Ha]; [subst a; apply same_co_refl | apply (Hm a Ha)]. }
    intros a b Ha Hb. apply (same_co_trans F a arg b).
    - apply same_co_sym. apply K. exact Ha.
    - apply K. exact Hb. }
  split; [exact Hp2|].
  intros x Hx. apply in_or_app. apply in_app_or in Hx. destruct Hx as [Hx|[Hx|[]]].
  - left. apply Hdone. exact Hx.
  - subst x. right. left. reflexivity.
Qed.

(* the closure on the retained ids *)
Definition II (arg : nat) (inc1 : list bool) (done : list nat)
    (t : list nat * list bool * list (option (list nat))) : Prop :=
  let '(cls, inc, props) := t in
  length inc = n /\ length props = n /\ props_ok props /\
  exists merged, cls = arg :: merged /\ incl merged done /\ NoDup merged /\
    (forall m, In m merged -> same_co F arg m) /\
    (forall x, x < n -> (nth_bool inc x = true <-> nth_bool inc1 x = true \/ In x merged)).

Lemma candidate_step : forall arg inc1 retained done id rest t t',
  retained = done ++ id :: rest -> NoDup retained ->
  (forall y, In y retained -> y < n /\ implies_co F arg y) ->
  II arg inc1 done t -> c_candidate F nat_to arg t id = Done t' -> II arg inc1 (done ++ [id]) t'.
Proof.
  intros arg inc1 retained done id rest [[cls inc] props] t' Hret Hnd Hr HII Hc.
  destruct HII as (Hli & Hlp & Hpo & merged & -> & Hincl & Hndm & Hsame & Hinc).
  assert (Hid : In id retained) by (rewrite Hret; apply in_or_app; right; left; reflexivity).
  destruct (Hr id Hid) as [Hidn Himp].
  assert (Hnotdone : ~ In id done).
  { rewrite Hret in Hnd. apply NoDup_remove_2 in Hnd. intros K. apply Hnd. apply in_or_app. left. exact K. }
  unfold c_candidate in Hc. destruct (propagate F nat_to [id]) as [r| |] eqn:Ep; try discriminate.
  set (p := match r with Some (p, _) => p | None => [] end) in Hc.
  assert (Hp : plist_ok id p).
  { unfold p. destruct r as [[P D]|]; [apply (propagate_single id P D Hidn Ep) | apply plist_nil]. }
  destruct (memb arg p) eqn:Em; inversion Hc; subst t'; clear Hc; unfold II.
  - apply memb_In in Em. rewrite !length_set_nth.
    split; [exact Hli|]. split; [exact Hlp|]. split.
    { apply props_ok_set; [exact Hpo | exact Hlp | apply plist_nil]. }
    exists (merged ++ [id]). split; [reflexivity|]. split.
    { intros x Hx. apply in_or_app. apply in_app_or in Hx. destruct Hx as [Hx|Hx]; [left; apply Hincl; exact Hx | right; exact Hx]. }
    split.
    { apply NoDup_snoc; [exact Hndm|]. intros K. apply Hnotdone. apply Hincl. exact K. }
    split.
    { intros m Hm. apply in_app_or in Hm. destruct Hm as [Hm|[Hm|[]]]; [apply Hsame; exact Hm|].
      subst m. apply same_co_of_implies; [exact Himp|]. destruct Hp as [_ Hp]. apply (Hp arg Em). }
    intros x Hx. rewrite (nth_bool_set_true id x inc) by lia. rewrite (Hinc x Hx), in_app_iff. cbn [In].
    split.
    + intros [H|[H|H]]; auto.
    + intros [H|[H|[H|[]]]]; auto.
  - rewrite length_set_nth.
    split; [exact Hli|]. split; [exact Hlp|]. split.
    { apply props_ok_set; assumption. }
    exists merged. split; [reflexivity|]. split.
    { intros x Hx. apply in_or_app. left. apply Hincl. exact Hx. }
    split; [exact Hndm|]. split; [exact Hsame | exact Hinc].
Qed.

Lemma c_step_inv : forall done st arg st', CI done st -> arg < n ->
  c_step F nat_to st arg = Done st' -> CI (done ++ [arg]) st'.
Proof.
  intros done st arg st' HCI Harg Hs. unfold c_step in Hs.
  destruct (nth_bool (c_in st) arg) eqn:Ein.
  { inversion Hs; subst st'. destruct HCI as (H1 & H2 & H3 & H4 & H5 & H6 & H7 & H8).
    unfold CI. repeat (split; [assumption|]).
    intros x Hx. apply in_app_or in Hx. destruct Hx as [Hx|[Hx|[]]]; [apply H8; exact Hx|].
    subst x. apply (H4 arg Harg). exact Ein. }
  pose proof HCI as (Hl1 & Hl2 & Hnd & Hin & Hlt & Hgood & Hprops & Hdone).
  (* the fetched propagation list and the updated cache *)
  assert (Hf : exists oap props1,
    (match nth arg (c_props st) None with
     | Some p => Done (Some p, set_nth arg (Some []) (c_props st))
     | None => match propagate F nat_to [arg] with
               | Done r => Done (option_map fst r, c_props st)
               | Panic => Panic
               | OutOfFuel => OutOfFuel
               end
     end) = Done (oap, props1) /\ length props1 = n /\ props_ok props1 /\
    forall ap, oap = Some ap -> plist_ok arg ap).
  { destruct (nth arg (c_props st) None) as [p|] eqn:Ec.
    - exists (Some p), (set_nth arg (Some []) (c_props st)). split; [reflexivity|].
      rewrite length_set_nth. split; [exact Hl2|]. split.
      + apply props_ok_set; [exact Hprops | exact Hl2 | apply plist_nil].
      + intros ap E. inversion E; subst ap. apply (Hprops arg p Harg Ec).
    - destruct (propagate F nat_to [arg]) as [r| |] eqn:Ep.
      + exists (option_map fst r), (c_props st). split; [reflexivity|]. split; [exact Hl2|].
        split; [exact Hprops|]. intros ap E. destruct r as [[P D]|]; cbn [option_map fst] in E; [|discriminate].
        inversion E; subst ap. apply (propagate_single arg P D Harg Ep).
      + discriminate Hs.
      + discriminate Hs. }
  destruct Hf as (oap & props1 & Ef & Hlp1 & Hpo1 & Hap).
  rewrite Ef in Hs. clear Ef.
  set (inc1 := set_nth arg true (c_in st)) in *.
  assert (Hli1 : length inc1 = n) by (unfold inc1; rewrite length_set_nth; exact Hl1).
  destruct oap as [ap|].
  2:{ inversion Hs; subst st'. apply (CI_extend done st arg [] inc1 props1); try assumption.
      - constructor.
      - intros m [].
      - intros x _. split; [intros H; left; exact H | intros [H|[]]; exact H]. }
  destruct (Hap ap eq_refl) as [Hndap Hapok].
  set (retained := filter (fun id => negb (nth_bool inc1 id) && Nat.ltb arg id) ap) in *.
  assert (Hret : forall y, In y retained -> In y ap /\ nth_bool inc1 y = false /\ arg < y).
  { intros y Hy. unfold retained in Hy. apply filter_In in Hy. destruct Hy as [Hy1 Hy2].
    apply andb_true_iff in Hy2. destruct Hy2 as [K1 K2]. apply negb_true_iff in K1.
    apply Nat.ltb_lt in K2. auto. }
  destruct (ofold (c_candidate F nat_to arg) retained ([arg], inc1, props1)) as [[[cls inc2] props2]| |] eqn:Eo;
    try discriminate.
  inversion Hs; subst st'. clear Hs.
  assert (HII : II arg inc1 retained (cls, inc2, props2)).
  { apply (ofold_inv _ _ (c_candidate F nat_to arg) (II arg inc1) retained) with
      (l := retained) (done := []) (s := ([arg], inc1, props1)).
    - intros dn x rest s s' Hl HI Hc.
      apply (candidate_step arg inc1 retained dn x rest s s' Hl); try assumption.
      + unfold retained. apply NoDup_filter. exact Hndap.
      + intros y Hy. destruct (Hret y Hy) as [K _]. apply (Hapok y K).
    - reflexivity.
    - unfold II. split; [exact Hli1|]. split; [exact Hlp1|]. split; [exact Hpo1|].
      exists []. split; [reflexivity|]. split; [intros x []|]. split; [constructor|].
      split; [intros m []|]. intros x _. split; [intros H; left; exact H | intros [H|[]]; exact H].
    - exact Eo. }
  destruct HII as (Hli2 & Hlp2 & Hpo2 & merged & -> & Hincl & Hndm & Hsame & Hinc2).
  apply (CI_extend done st arg merged inc2 props2); try assumption.
  intros m Hm. destruct (Hret m (Hincl m Hm)) as (K1 & K2 & K3).
  split; [exact K3|]. split; [apply (Hapok m K1)|]. split; [|apply Hsame; exact Hm].
  unfold inc1 in K2. rewrite nth_bool_set_neq in K2 by lia. exact K2.
Qed.

(* the unattacked arguments *)
Lemma unattacked_spec : forall x, In x (unattacked_args nat_to) <-> x < n /\ forall b, ~ att F b x.
Proof.
  intros x. unfold unattacked_args, nat_to.
  destruct (n_attacks_to_spec F n HF) as [Hlen Hnth].
  rewrite filter_In, in_seq, Hlen, Nat.eqb_eq, Hnth. split.
  - intros [H1 H2]. split; [lia|]. intros b Hb. apply in_attackers in Hb.
    apply length_zero_iff_nil in H2. rewrite H2 in Hb. destruct Hb.
  - intros [H1 H2]. split; [lia|]. destruct (attackers F x) as [|b r] eqn:E; [reflexivity|].
    exfalso. apply (H2 b). apply in_attackers. rewrite E. left. reflexivity.
Qed.

Lemma unattacked_in_co : forall E x, co F E -> In x (unattacked_args nat_to) -> In x E.
Proof.
  intros E x [_ Hc] Hx. apply unattacked_spec in Hx. destruct Hx as [H1 H2]. apply Hc.
  - apply (args_lt F n HF). exact H1.
  - intros b Hb. exfalso. exact (H2 b Hb).
Qed.

(* the result of compute_grounded_classes *)
Lemma grounded_classes_spec :
  exists P D, compute_grounded_classes F nat_to = Done (Some (P, D)) /\
    NoDup (P ++ D) /\ (forall x, In x (P ++ D) -> x < n) /\
    (forall E, co F E -> incl P E) /\ (forall E d, co F E -> In d D -> ~ In d E).
Proof.
  unfold compute_grounded_classes.
  destruct (propagate_unattacked F n (unattacked_args nat_to) HF) as (P & D & Hp & Hdis).
  { intros x b Hx. apply unattacked_spec in Hx. apply Hx. }
  exists P, D. split; [exact Hp|].
  destruct (propagate_shape F n _ P D HF Hp) as [(pushed & HP & Hndp & Hpushed) [HndD HltD]].
  assert (Hsound : forall E, co F E -> incl P E /\ forall d, In d D -> ~ In d E).
  { intros E HE. apply (propagate_sound F n _ P D HF Hp E HE).
    intros x Hx. apply (unattacked_in_co E x HE Hx). }
  split.
  { apply NoDup_app_intro; [|exact HndD|exact Hdis].
    rewrite HP. apply NoDup_app_intro; [|exact Hndp|].
    - unfold unattacked_args. apply NoDup_filter. apply seq_NoDup.
    - intros x H1 H2. apply (Hpushed x H2). exact H1. }
  split.
  { intros x Hx. apply in_app_or in Hx. destruct Hx as [Hx|Hx]; [|apply HltD; exact Hx].
    rewrite HP in Hx. apply in_app_or in Hx. destruct Hx as [Hx|Hx].
    - apply unattacked_spec in Hx. apply Hx.
    - apply (Hpushed x Hx). }
  split.
  - intros E HE. apply (Hsound E HE).
  - intros E d HE. apply (Hsound E HE).
Qed.

Definition classes0 (P D : list nat) : list eqclass :=
  (match P with [] => [] | _ => [Grounded P] end) ++
  (match D with [] => [] | _ => [GroundedDefeated D] end).

Lemma classes0_spec : forall P D,
  flat (classes0 P D) = P ++ D /\
  forall c, In c (classes0 P D) -> members c <> [] /\ (c = Grounded P \/ c = GroundedDefeated D).
Proof.
  intros P D. unfold classes0. destruct P as [|p P], D as [|d D]; cbn [app flat map concat members];
    rewrite ?app_nil_r; (split; [reflexivity|]).
  - intros c [].
  - intros c [<-|[]]. split; [discriminate | right; reflexivity].
  - intros c [<-|[]]. split; [discriminate | left; reflexivity].
  - intros c [<-|[<-|[]]]; (split; [discriminate|]); [left | right]; reflexivity.
Qed.

(* everything about the computed classes *)
Lemma compute_classes_inv : forall cls, compute_classes F = Done cls ->
  NoDup (flat cls) /\ (forall x, In x (flat cls) <-> x < n) /\
  (forall c, In c cls -> members c <> [] /\ good_class F c).
Proof.
  intros cls Hc. unfold compute_classes in Hc. fold nat_to in Hc.
  destruct grounded_classes_spec as (P & D & Hg & Hnd & Hlt & HsP & HsD).
  rewrite Hg in Hc. fold (classes0 P D) in Hc.
  destruct HF as [Hargs _]. assert (Hlen : length (args F) = n) by (rewrite Hargs; apply seq_length).
  rewrite Hlen in Hc.
  destruct (classes0_spec P D) as [Hflat Hcl0].
  set (inc0 := fold_left (fun v c => mark_all (members c) v) (classes0 P D) (repeat false n)) in Hc.
  destruct (ofold (c_step F nat_to) (seq 0 n)
              {| c_classes := classes0 P D; c_in := inc0; c_props := repeat None n |}) as [st| |] eqn:Eo;
    try discriminate.
  inversion Hc; subst cls. clear Hc.
  assert (H0 : CI [] {| c_classes := classes0 P D; c_in := inc0; c_props := repeat None n |}).
  { destruct (mark_classes_spec (classes0 P D) (repeat false n)) as [M1 M2].
    { intros x Hx. rewrite repeat_length. apply Hlt. rewrite <- Hflat. exact Hx. }
    unfold CI. cbn [c_classes c_in c_props]. fold inc0 in M1, M2.
    rewrite repeat_length in M1. split; [exact M1|]. split; [apply repeat_length|].
    rewrite Hflat. split; [exact Hnd|]. split.
    { intros x _. rewrite M2, nth_repeat_false, Hflat. split; [intros [H|H]; [discriminate | exact H] | intros H; right; exact H]. }
    split; [exact Hlt|]. split.
    { intros c Hcin. destruct (Hcl0 c Hcin) as [Hne Hk]. split; [exact Hne|].
      destruct Hk as [->| ->]; cbn [good_class members]; split.
      - intros a b Ha Hb E HE. split; intros _; apply (HsP E HE); assumption.
      - exact HsP.
      - intros a b Ha Hb E HE. split; intros K; exfalso; [apply (HsD E a HE Ha K) | apply (HsD E b HE Hb K)].
      - exact HsD. }
    split; [|intros x []].
    intros x p _ Hx. rewrite nth_repeat_None in Hx. discriminate. }
  assert (HCI : CI (seq 0 n) st).
  { apply (ofold_inv _ _ (c_step F nat_to) CI (seq 0 n)) with
      (l := seq 0 n) (done := []) (s := {| c_classes := classes0 P D; c_in := inc0; c_props := repeat None n |}).
    - intros dn x rest s s' Hl HI Hs. apply (c_step_inv dn s x s' HI); [|exact Hs].
      assert (K : In x (seq 0 n)) by (rewrite Hl; apply in_or_app; right; left; reflexivity).
      apply in_seq in K. lia.
    - reflexivity.
    - exact H0.
    - exact Eo. }
  destruct HCI as (_ & _ & K3 & _ & K5 & K6 & _ & K8).
  split; [exact K3|]. split; [|exact K6].
  intros x. split; [apply K5|]. intros Hx. apply K8. apply in_seq. lia.
Qed.

(* no panic, no fuel exhaustion *)
Lemma c_candidate_total : forall arg t id, exists t', c_candidate F nat_to arg t id = Done t'.
Proof.
  intros arg [[cls inc] props] id. unfold c_candidate.
  destruct (propagate_total F n [id] HF) as [r Hr]. fold nat_to in Hr. rewrite Hr.
  destruct (memb arg _); eexists; reflexivity.
Qed.

Lemma c_step_total : forall st arg, exists st', c_step F nat_to st arg = Done st'.
Proof.
  intros st arg. unfold c_step. destruct (nth_bool (c_in st) arg); [eexists; reflexivity|].
  destruct (propagate_total F n [arg] HF) as [r Hr]. fold nat_to in Hr.
  assert (K : forall oap props1, exists st',
    match oap with
    | Some ap =>
        match ofold (c_candidate F nat_to arg)
                (filter (fun id => negb (nth_bool (set_nth arg true (c_in st)) id) && Nat.ltb arg id) ap)
                ([arg], set_nth arg true (c_in st), props1) with
        | Done (cls, inc2, props2) =>
            Done {| c_classes := c_classes st ++ [NotGrounded cls]; c_in := inc2; c_props := props2 |}
        | Panic => Panic
        | OutOfFuel => OutOfFuel
        end
    | None => Done {| c_classes := c_classes st ++ [NotGrounded [arg]];
                      c_in := set_nth arg true (c_in st); c_props := props1 |}
    end = Done st').
  { intros [ap|] props1; [|eexists; reflexivity].
    destruct (ofold_total _ _ (c_candidate F nat_to arg)
                (filter (fun id => negb (nth_bool (set_nth arg true (c_in st)) id) && Nat.ltb arg id) ap)
                (c_candidate_total arg) ([arg], set_nth arg true (c_in st), props1)) as [[[cls inc2] props2] E].
    rewrite E. eexists. reflexivity. }
  cbv zeta. destruct (nth arg (c_props st) None) as [p|].
  - exact (K (Some p) (set_nth arg (Some []) (c_props st))).
  - rewrite Hr. exact (K (option_map fst r) (c_props st)).
Qed.

Lemma compute_classes_total : exists cls, compute_classes F = Done cls.
Proof.
  unfold compute_classes. fold nat_to.
  destruct grounded_classes_spec as (P & D & Hg & _). rewrite Hg.
  match goal with |- context [ofold ?f ?l ?s] => destruct (ofold_total _ _ f l c_step_total s) as [st E] end.
  rewrite E. eexists. reflexivity.
Qed.

End Classes.

(* ------------------------------------------------------------------ *)
(** * The two maps *)

Lemma set_all_spec : forall l k v, (forall a, In a l -> a < length v) ->
  length (fold_left (fun v a => set_nth a k v) l v) = length v /\
  forall x, nth_nat (fold_left (fun v a => set_nth a k v) l v) x =
            if memb x l then k else nth_nat v x.
Proof.
  induction l as [|a r IH]; intros k v Hb; cbn [fold_left].
  - split; [reflexivity|]. intros x. reflexivity.
  - assert (Ha : a < length v) by (apply Hb; left; reflexivity).
    destruct (IH k (set_nth a k v)) as [IH1 IH2].
    { intros x Hx. rewrite length_set_nth. apply Hb. right. exact Hx. }
    rewrite length_set_nth in IH1. split; [exact IH1|].
    intros x. rewrite IH2. unfold memb. cbn [existsb]. fold (memb x r).
    destruct (memb x r); [rewrite orb_true_r; reflexivity|]. rewrite orb_false_r.
    destruct (Nat.eqb x a) eqn:E.
    + apply Nat.eqb_eq in E. subst x. apply nth_nat_set_eq. exact Ha.
    + apply Nat.eqb_neq in E. apply nth_nat_set_neq. intros K. apply E. symmetry. exact K.
Qed.

Lemma NoDup_app_inv : forall (l1 l2 : list nat), NoDup (l1 ++ l2) ->
  NoDup l2 /\ forall x, In x l1 -> In x l2 -> False.
Proof.
  induction l1 as [|y m IH]; intros l2 H; cbn [app] in H.
  - split; [exact H | intros x []].
  - inversion H as [|? ? Hy Hrest]; subst. destruct (IH l2 Hrest) as [K1 K2]. split; [exact K1|].
    intros x [Hx|Hx] Hx2.
    + subst y. apply Hy. apply in_or_app. right. exact Hx2.
    + exact (K2 x Hx Hx2).
Qed.

Definition i2r_step (acc : nat * list nat) (c : eqclass) : nat * list nat :=
  let '(class_id, v) := acc in
  (S class_id, fold_left (fun v arg_id => set_nth arg_id class_id v) (members c) v).

Lemma i2r_fold_spec : forall cls k v,
  NoDup (flat cls) -> (forall x, In x (flat cls) -> x < length v) ->
  let r := snd (fold_left i2r_step cls (k, v)) in
  (forall i c a, nth_error cls i = Some c -> In a (members c) -> nth_nat r a = k + i) /\
  (forall x, ~ In x (flat cls) -> nth_nat r x = nth_nat v x).
Proof.
  induction cls as [|c0 r IH]; intros k v Hnd Hb; cbn [fold_left i2r_step].
  - cbn [snd]. split; [intros [|i] c a H; discriminate H | reflexivity].
  - change (c0 :: r) with ([c0] ++ r) in Hnd, Hb. rewrite flat_app, flat_single in Hnd, Hb.
    destruct (set_all_spec (members c0) k v) as [S1 S2].
    { intros a Ha. apply Hb. apply in_or_app. left. exact Ha. }
    destruct (IH (S k) (fold_left (fun v a => set_nth a k v) (members c0) v)) as [IH1 IH2].
    { apply (NoDup_app_inv _ _ Hnd). }
    { intros x Hx. rewrite S1. apply Hb. apply in_or_app. right. exact Hx. }
    cbv zeta in IH1, IH2. split.
    + intros [|i] c a Hn Ha.
      * cbn [nth_error] in Hn. inversion Hn; subst c. rewrite IH2.
        { rewrite S2. apply memb_In in Ha. rewrite Ha. lia. }
        intros K. destruct (NoDup_app_inv _ _ Hnd) as [_ Hdis].
        exact (Hdis a Ha K).
      * cbn [nth_error] in Hn. rewrite (IH1 i c a Hn Ha). lia.
    + intros x Hx. change (c0 :: r) with ([c0] ++ r) in Hx. rewrite flat_app, flat_single in Hx.
      rewrite IH2 by (intros K; apply Hx; apply in_or_app; right; exact K).
      rewrite S2. destruct (memb x (members c0)) eqn:E; [|reflexivity].
      exfalso. apply Hx. apply in_or_app. left. apply memb_In. exact E.
Qed.

Lemma init_to_reduced_ids_spec : forall n cls,
  NoDup (flat cls) -> (forall x, In x (flat cls) -> x < n) ->
  forall i c a, nth_error cls i = Some c -> In a (members c) ->
    nth_nat (init_to_reduced_ids n cls) a = i.
Proof.
  intros n cls Hnd Hb i c a Hn Ha. unfold init_to_reduced_ids.
  change (fun acc c => let '(class_id, w) := acc in
            (S class_id, fold_left (fun w' arg_id => set_nth arg_id class_id w') (members c) w))
    with i2r_step.
  destruct (i2r_fold_spec cls 0 (repeat 0 n) Hnd) as [K _].
  { intros x Hx. rewrite repeat_length. apply Hb. exact Hx. }
  cbv zeta in K. rewrite (K i c a Hn Ha). reflexivity.
Qed.

Lemma maps_spec : forall F n cls, compact_af F n -> compute_classes F = Done cls ->
  (forall a, a < n -> init_to_reduced F cls a < length cls /\
                      In a (reduced_to_init cls (init_to_reduced F cls a))) /\
  (forall r c, nth_error cls r = Some c -> reduced_to_init cls r = members c) /\
  (forall r b, r < length cls -> In b (reduced_to_init cls r) -> init_to_reduced F cls b = r).
Proof.
  intros F n cls HF Hc. destruct (compute_classes_inv F n HF cls Hc) as (Hnd & Hin & _).
  assert (Hlen : length (args F) = n) by (destruct HF as [Ha _]; rewrite Ha; apply seq_length).
  assert (Hspec : forall i c a, nth_error cls i = Some c -> In a (members c) ->
                    init_to_reduced F cls a = i).
  { intros i c a Hn Ha. unfold init_to_reduced. rewrite Hlen.
    apply (init_to_reduced_ids_spec n cls Hnd) with (c := c); [|exact Hn|exact Ha].
    intros x Hx. apply Hin. exact Hx. }
  split; [|split].
  - intros a Ha. apply Hin in Ha. apply in_flat in Ha. destruct Ha as (c & Hc1 & Hc2).
    apply In_nth_error in Hc1. destruct Hc1 as [i Hi].
    rewrite (Hspec i c a Hi Hc2). split.
    + apply nth_error_Some. congruence.
    + unfold reduced_to_init. rewrite Hi. exact Hc2.
  - intros r c Hr. unfold reduced_to_init. rewrite Hr. reflexivity.
  - intros r b Hr Hb. unfold reduced_to_init in Hb.
    destruct (nth_error cls r) as [c|] eqn:E; [|destruct Hb].
    apply (Hspec r c b E Hb).
Qed.

(* the fields of the computer are the classes and the id map *)
Lemma computer_fields : forall lab F e, equivalency_new lab F = Done e ->
  compute_classes F = Done (e_classes e) /\
  e_i2r e = init_to_reduced_ids (length (args F)) (e_classes e) /\
  forall r, reduced_arg_to_init_args e r = option_map members (nth_error (e_classes e) r).
Proof.
  intros lab F e H. unfold equivalency_new in H.
  destruct (compute_classes F) as [cls| |]; try discriminate.
  unfold reduce_af in H. destruct (firsts cls) as [fs|]; try discriminate.
  destruct (ofold _ _ _) as [f| |]; try discriminate.
  inversion H; subst e. cbn [e_classes e_i2r]. split; [reflexivity|]. split; reflexivity.
Qed.

(* partition, stated as a permutation *)
Lemma classes_partition : forall F n cls, compact_af F n -> compute_classes F = Done cls ->
  Permutation (flat cls) (seq 0 n) /\ forall c, In c cls -> members c <> [].
Proof.
  intros F n cls HF Hc. destruct (compute_classes_inv F n HF cls Hc) as (Hnd & Hin & Hgood).
  split.
  - apply NoDup_Permutation; [exact Hnd | apply seq_NoDup|].
    intros x. rewrite Hin, in_seq. lia.
  - intros c Hcin. apply (Hgood c Hcin).
Qed.

Lemma classes_same : forall F n cls, compact_af F n -> compute_classes F = Done cls ->
  forall c a b, In c cls -> In a (members c) -> In b (members c) -> same_co F a b.
Proof.
  intros F n cls HF Hc c a b Hcin Ha Hb.
  destruct (compute_classes_inv F n HF cls Hc) as (_ & _ & Hgood).
  destruct (Hgood c Hcin) as [_ [K _]]. apply K; assumption.
Qed.

Lemma classes_grounded : forall F n cls, compact_af F n -> compute_classes F = Done cls ->
  (forall v, In (Grounded v) cls -> forall E, co F E -> incl v E) /\
  (forall v, In (GroundedDefeated v) cls -> forall E d, co F E -> In d v -> ~ In d E).
Proof.
  intros F n cls HF Hc. destruct (compute_classes_inv F n HF cls Hc) as (_ & _ & Hgood). split.
  - intros v Hv. destruct (Hgood _ Hv) as [_ [_ K]]. exact K.
  - intros v Hv. destruct (Hgood _ Hv) as [_ [_ K]]. exact K.
Qed.

(* ------------------------------------------------------------------ *)
(** * The Grounded / GroundedDefeated classes are exactly the grounded extension / what it attacks *)

Definition is_ng (c : eqclass) : Prop := match c with NotGrounded _ => True | _ => False end.

Lemma c_step_shape : forall F nat_to st arg st', c_step F nat_to st arg = Done st' ->
  c_classes st' = c_classes st \/ exists v, c_classes st' = c_classes st ++ [NotGrounded v].
Proof.
  intros F nat_to st arg st' H. unfold c_step in H.
  destruct (nth_bool (c_in st) arg); [inversion H; left; reflexivity|].
  cbv zeta in H.
  match type of H with
  | match ?X with _ => _ end = _ => destruct X as [[[ap|] props1]| |]; try discriminate
  end.
  - destruct (ofold _ _ _) as [[[cls inc2] props2]| |]; try discriminate.
    inversion H. right. exists cls. reflexivity.
  - inversion H. right. exists [arg]. reflexivity.
Qed.

Lemma grounded_exact_classes : forall F n cls, compact_af F n -> compute_classes F = Done cls ->
  forall G, gr F G ->
  forall c, In c cls ->
    match c with
    | Grounded v => forall x, In x v <-> In x G
    | GroundedDefeated v => forall d, In d v <-> exists g, In g G /\ att F g d
    | NotGrounded v => forall x, In x v -> ~ In x G /\ ~ exists g, In g G /\ att F g x
    end.
Proof.
  intros F n cls HF Hc G HG.
  pose proof (compute_classes_inv F n HF cls Hc) as (Hnd & _ & _).
  unfold compute_classes in Hc.
  destruct (grounded_classes_spec F n HF) as (P & D & Hg & _ & _ & HsP & _).
  rewrite Hg in Hc. fold (classes0 P D) in Hc.
  (* P is the grounded extension, D what it attacks *)
  destruct (n_attacks_to_spec F n HF) as [Hlen Hnth].
  destruct (grounded_exact F n HF (unattacked_args (n_attacks_to F))) with (P := P) (D := D) as [HcoP HD].
  { intros x. unfold unattacked_args. rewrite filter_In, in_seq, Hlen, Nat.eqb_eq, Hnth.
    rewrite length_zero_iff_nil. split; intros [H1 H2]; (split; [lia | exact H2]). }
  { exact Hg. }
  assert (HPG : forall x, In x P <-> In x G).
  { destruct HG as [HGco HGmin]. intros x. split; [apply (HsP G HGco) | apply (HGmin P HcoP)]. }
  assert (HDG : forall d, In d D <-> exists g, In g G /\ att F g d).
  { intros d. rewrite HD. split; intros (g & H1 & H2); exists g; (split; [apply HPG; exact H1 | exact H2]). }
  (* the class list is classes0 followed by NotGrounded classes *)
  match type of Hc with
  | match ofold ?f ?l ?s with _ => _ end = _ =>
      destruct (ofold f l s) as [st| |] eqn:Eo; try discriminate;
      assert (Hshape : exists rest, c_classes st = classes0 P D ++ rest /\ Forall is_ng rest)
  end.
  { match type of Eo with
    | ofold ?f ?l0 ?s0 = _ =>
        refine (ofold_inv _ _ f (fun _ st => exists rest, c_classes st = classes0 P D ++ rest /\ Forall is_ng rest) l0
                  _ l0 [] s0 st _ _ _)
    end.
    - intros dn x rest0 s s' _ (rest & Hr & Hf) Hs. destruct (c_step_shape _ _ _ _ _ Hs) as [E|[v E]].
      + exists rest. rewrite E. auto.
      + exists (rest ++ [NotGrounded v]). rewrite E, Hr, app_assoc. split; [reflexivity|].
        apply Forall_app. split; [exact Hf | constructor; [exact I | constructor]].
    - reflexivity.
    - exists []. cbn [c_classes]. rewrite app_nil_r. split; [reflexivity | constructor].
    - exact Eo. }
  inversion Hc; subst cls. clear Hc.
  destruct Hshape as (rest & Hr & Hf). rewrite Hr in Hnd |- *.
  destruct (classes0_spec P D) as [Hflat Hcl0].
  intros c Hcin. apply in_app_or in Hcin. destruct Hcin as [Hcin|Hcin].
  - destruct (Hcl0 c Hcin) as [_ [->| ->]]; assumption.
  - rewrite Forall_forall in Hf. pose proof (Hf c Hcin) as Hng.
    destruct c as [v|v|v]; try destruct Hng.
    intros x Hx. rewrite flat_app, Hflat in Hnd. destruct (NoDup_app_inv _ _ Hnd) as [_ Hdis].
    assert (Hxr : In x (flat rest)) by (apply in_flat; exists (NotGrounded v); split; [exact Hcin | exact Hx]).
    split.
    + intros K. apply (Hdis x); [apply in_or_app; left; apply HPG; exact K | exact Hxr].
    + intros K. apply (Hdis x); [apply in_or_app; right; apply HDG; exact K | exact Hxr].
Qed.
