(* C18 for the dynamic PREFERRED query: the number of SAT calls of one query is bounded by the number of
   complete extensions + the number of preferred extensions of the current framework (+1), however the
   query ends; and no candidate set is examined twice: the sets decoded from the Sat answers of the
   query's stretch of the SAT log are pairwise different complete extensions (the grounded start
   included).  The loop-level facts are in Proofs/DynPref.v (pr_loop_out: potential = |sets that have
   been current| + |maximal sets reached|); here: the rest of the query (update_encoding makes no call
   and logs no solve event) and the theorems. *)
From Crusta Require Import Model.Dynamic Spec.SemFacts Proofs.ProgLaws Proofs.StoreBase Proofs.StoreProofs
  Proofs.SolverBasics Proofs.MaxExtCore Proofs.DynDefs Proofs.DynBase Proofs.DynProofs Proofs.DynSafe Proofs.DynFunDefs
  Proofs.DynInv Proofs.DynFun Proofs.DynTotal Proofs.DynPref Proofs.DynCalls Proofs.CompProofs.
From Coq Require Import Lia ZifyBool.

(* ---------------------------------------------------------------- programs that log no solve event *)
Definition nosolve (lg : list (nat * event)) : Prop :=
  forall ev, In ev lg -> match snd ev with ESolve _ _ => False | _ => True end.
Definition quiet {A} (m : Prog.M A) : Prop :=
  forall s, match m s with
            | Done _ s' | Abort s' | Panic s' | OutOfFuel s' => exists lg, rlog s' = lg ++ rlog s /\ nosolve lg
            end.

Lemma nosolve_nil : nosolve [].
Proof. intros ev []. Qed.
Lemma nosolve_app l1 l2 : nosolve l1 -> nosolve l2 -> nosolve (l1 ++ l2).
Proof. intros H1 H2 ev Hin. apply in_app_or in Hin. destruct Hin as [Hin|Hin]; [exact (H1 ev Hin)|exact (H2 ev Hin)]. Qed.

Lemma quiet_ret {A} (a : A) : quiet (ret a).
Proof. intros s. exists []. split; [reflexivity|apply nosolve_nil]. Qed.
Lemma quiet_panic {A} : quiet (@panic A).
Proof. intros s. exists []. split; [reflexivity|apply nosolve_nil]. Qed.
Lemma quiet_bind {A B} (m : Prog.M A) (k : A -> Prog.M B) : quiet m -> (forall a, quiet (k a)) -> quiet (bind m k).
Proof.
  intros Hm Hk s. unfold bind. specialize (Hm s). destruct (m s) as [a s1|s1|s1|s1]; try exact Hm.
  destruct Hm as (l1 & E1 & N1). specialize (Hk a s1).
  destruct (k a s1) as [b s2|s2|s2|s2]; destruct Hk as (l2 & E2 & N2); exists (l2 ++ l1);
    (split; [rewrite E2, E1, app_assoc; reflexivity|apply nosolve_app; assumption]).
Qed.
Lemma quiet_opt_m {A} (o : option A) : quiet (opt_m o).
Proof. destruct o; [apply quiet_ret|apply quiet_panic]. Qed.
Lemma quiet_unwrap_ok {A} (r : A * result) : quiet (unwrap_ok r).
Proof. destruct r as [a [| |]]; [apply quiet_ret|apply quiet_panic|apply quiet_panic]. Qed.
Lemma quiet_add_clause c : quiet (add_clause c).
Proof. intros s. eexists [_]. split; [reflexivity|]. intros ev [<-|[]]. exact I. Qed.
Lemma quiet_n_vars : quiet n_vars.
Proof. intros s. eexists [_]. split; [reflexivity|]. intros ev [<-|[]]. exact I. Qed.
Lemma quiet_add_clauses cs : quiet (add_clauses cs).
Proof. induction cs as [|c r IH]; cbn [add_clauses]; [apply quiet_ret|]. apply quiet_bind; [apply quiet_add_clause|intros _; exact IH]. Qed.
Lemma quiet_fold_m {A B} (f : A -> B -> Prog.M A) (l : list B) : (forall a x, quiet (f a x)) -> forall a, quiet (fold_m f l a).
Proof.
  intros Hf. induction l as [|x r IH]; intros a; cbn [fold_m]; [apply quiet_ret|].
  apply quiet_bind; [apply Hf|exact IH].
Qed.

Ltac quiet_step :=
  first [ apply quiet_ret | apply quiet_panic | apply quiet_opt_m | apply quiet_unwrap_ok | apply quiet_add_clause
        | apply quiet_n_vars | apply quiet_add_clauses
        | (apply quiet_bind; [|intro]) ].

Lemma quiet_new_solver_var vars t : quiet (new_solver_var vars t).
Proof. unfold new_solver_var. repeat quiet_step. Qed.
Lemma quiet_alloc_arg_vars sm vars id : quiet (alloc_arg_vars sm vars id).
Proof.
  unfold alloc_arg_vars. apply quiet_bind; [apply quiet_new_solver_var|]. intros r1.
  destruct sm; try apply quiet_ret; (apply quiet_bind; [apply quiet_new_solver_var|]; intros r2; repeat quiet_step).
Qed.
Lemma quiet_remove_selector e s : quiet (remove_selector e s).
Proof.
  unfold remove_selector. destruct (Nat.ltb _ _); [|apply quiet_panic].
  apply quiet_bind; [apply quiet_add_clause|]. intros _. destruct (position _ _); [apply quiet_ret|apply quiet_panic].
Qed.

Section PrefCalls.
Variable L : Type.
Variable leqb : L -> L -> bool.
Hypothesis leqb_spec : forall x y, leqb x y = true <-> x = y.

Notation fw := (fw L).

Lemma quiet_update_attacks_to (af : fw) e id : quiet (update_attacks_to L af e id).
Proof.
  unfold update_attacks_to. destruct (negb (e_upd e)); [apply quiet_ret|].
  destruct (nth_error (e_a2s e) id) as [os|]; [|apply quiet_panic].
  apply quiet_bind.
  - destruct os as [s|]; [|apply quiet_ret]. apply quiet_bind; [apply quiet_remove_selector|intros e'; apply quiet_ret].
  - intros e1. apply quiet_bind; [apply quiet_new_solver_var|]. intros [vars sv].
    destruct (negb _); [apply quiet_panic|].
    match goal with |- quiet (match ?x with _ => _ end) => destruct x end; [|apply quiet_panic].
    match goal with |- quiet (match ?x with _ => _ end) => destruct x end; [|apply quiet_panic].
    repeat quiet_step.
Qed.
Lemma quiet_enc_new_argument (af : fw) e l : quiet (enc_new_argument L leqb af e l).
Proof.
  unfold enc_new_argument. destruct (get_argument L leqb af l); [apply quiet_ret|].
  destruct (max_argument_id L _); [|apply quiet_panic].
  apply quiet_bind; [apply quiet_alloc_arg_vars|]. intros r.
  apply quiet_bind; [apply quiet_update_attacks_to|intros e4; apply quiet_ret].
Qed.
Lemma quiet_enc_remove_argument (af : fw) e l : quiet (enc_remove_argument L leqb af e l).
Proof.
  unfold enc_remove_argument. destruct (get_argument L leqb af l); [|apply quiet_ret].
  destruct (Store.remove_argument L leqb af l) as [af' [| |]]; try apply quiet_ret.
  destruct (tbl_var _ _); [|apply quiet_panic].
  apply quiet_bind.
  - match goal with |- quiet (match ?x with _ => _ end) => destruct x as [[s|]|] end;
      [|apply quiet_ret|apply quiet_panic].
    apply quiet_bind; [apply quiet_remove_selector|intros e'; apply quiet_ret].
  - intros e2. destruct (Nat.ltb _ _); [|apply quiet_panic].
    apply quiet_bind; [apply quiet_add_clause|]. intros _.
    apply quiet_bind; [apply quiet_fold_m; intros a x; apply quiet_update_attacks_to|intros e4; apply quiet_ret].
Qed.
Lemma quiet_enc_new_attack (af : fw) e a b : quiet (enc_new_attack L leqb af e a b).
Proof.
  unfold enc_new_attack. destruct (Store.new_attack L leqb af a b) as [af' [| |]]; [|apply quiet_ret|apply quiet_panic].
  destruct (get_argument L leqb af' b); [|apply quiet_panic].
  apply quiet_bind; [apply quiet_update_attacks_to|intros e'; apply quiet_ret].
Qed.
Lemma quiet_enc_remove_attack (af : fw) e a b : quiet (enc_remove_attack L leqb af e a b).
Proof.
  unfold enc_remove_attack. destruct (Store.remove_attack L leqb af a b) as [af' [| |]]; [|apply quiet_ret|apply quiet_panic].
  destruct (get_argument L leqb af' b); [|apply quiet_panic].
  apply quiet_bind; [apply quiet_update_attacks_to|intros e'; apply quiet_ret].
Qed.
Lemma quiet_std_replay st ev : quiet (std_replay L leqb st ev).
Proof.
  destruct st as [[af e] upd]. unfold std_replay. destruct ev as [l|l|x y|x y|x y z|x y z]; try apply quiet_ret.
  - apply quiet_bind; [apply quiet_enc_new_argument|]. intros r. repeat quiet_step.
  - apply quiet_bind; [apply quiet_opt_m|]. intros id. cbv zeta.
    apply quiet_bind; [apply quiet_enc_remove_argument|]. intros r. repeat quiet_step.
  - apply quiet_bind; [apply quiet_enc_new_attack|]. intros r. repeat quiet_step.
  - apply quiet_bind; [apply quiet_enc_remove_attack|]. intros r. repeat quiet_step.
Qed.
Lemma quiet_update_encoding (af : fw) b : is_std (b_enc L b) -> quiet (update_encoding L leqb af b).
Proof.
  intros Hstd. unfold update_encoding. destruct (b_enc L b) as [e|e]; [|destruct Hstd].
  apply quiet_bind; [apply quiet_fold_m; intros a x; apply quiet_std_replay|]. intros [[af' e'] upd].
  apply quiet_bind; [apply quiet_fold_m; intros a x; apply quiet_update_attacks_to|intros e''; apply quiet_ret].
Qed.

Lemma sats_nosolve e lg : nosolve lg -> sats e lg = [].
Proof.
  induction lg as [|ev r IH]; intros H; [reflexivity|]. unfold sats in *. cbn [flat_map].
  rewrite IH by (intros x Hx; apply H; right; exact Hx).
  pose proof (H ev (or_introl eq_refl)) as H0. destruct (snd ev); first [reflexivity|destruct H0].
Qed.

(* ---------------------------------------------------------------- calls of a whole query *)
Variable oracle : nat -> cnf -> list lit -> answer.
Hypothesis Hvalid : valid_oracle oracle.

Notation vreach := (DynFunDefs.vreach L leqb oracle).
Notation fresh := (DynDefs.fresh_fw L leqb).
Notation run_ops := (Store.run_ops L leqb).

Definition lec {A} (N : nat) (r : res A) : Prop :=
  match r with Done _ p | Abort p | Panic p | OutOfFuel p => calls p <= N end.
Lemma lec_bind {A B} N (m : Prog.M A) (k : A -> Prog.M B) ps :
  lec N (m ps) -> (forall a ps1, m ps = Done a ps1 -> lec N (k a ps1)) -> lec N (bind m k ps).
Proof. unfold bind. intros H1 H2. destruct (m ps) as [a ps1| | |]; try exact H1. apply H2. reflexivity. Qed.
Lemma cb_lec {A} n N (m : Prog.M A) ps : cb n m -> calls ps + n <= N -> lec N (m ps).
Proof. intros H Hn. specialize (H ps). unfold lec. destruct (m ps); try lia. Qed.

(* one fuel unit / at most one call per complete extension *)
Definition co_count (af : fw) : nat := length (all_exts CO (af_of af)).

Lemma pr_ds_query_calls thr fuel (s : dsolver L) ps os l id :
  vreach thr KPr s ps os -> get_argument L leqb (run_ops fresh os) l = Some id ->
  match pr_ds_query oracle L leqb fuel s l ps with
  | Done _ ps' | Abort ps' | Panic ps' => calls ps' <= calls ps + co_count (run_ops fresh os)
  | OutOfFuel ps' => calls ps' <= calls ps + co_count (run_ops fresh os) /\ fuel <= co_count (run_ops fresh os)
  end.
Proof.
  intros Hv Hl.
  assert (G : lec (calls ps + co_count (run_ops fresh os)) (pr_ds_query oracle L leqb fuel s l ps) /\
              forall ps', pr_ds_query oracle L leqb fuel s l ps = OutOfFuel ps' -> fuel <= co_count (run_ops fresh os)).
  2:{ destruct G as [G1 G2]. unfold lec in G1. destruct (pr_ds_query oracle L leqb fuel s l ps); try exact G1.
      split; [exact G1|]. eapply G2. reflexivity. }
  assert (Hsk : std_kind KPr) by (unfold std_kind; tauto).
  pose proof (std_kind_reach L leqb _ _ _ (vreach_reach L leqb _ _ _ _ _ _ Hv) Hsk) as Hstd.
  split.
  - unfold pr_ds_query. destruct (is_skep L leqb (s_buf L s) l) as [[b|] [X|]].
    1:{ unfold ret, lec. lia. }
    all: apply lec_bind; [apply (cb_lec 0); [apply cb_update_encoding|lia]|]; intros [af buf] ps1 Hue;
      pose proof (cb_update_encoding L leqb (s_af L s) (s_buf L s) ps) as Hc1; rewrite Hue in Hc1;
      destruct (query_ready_pr L leqb leqb_spec oracle thr s ps os af buf ps1 Hv Hue) as (e & He & Hrd & Hsem & Hlv & Hbd & Haf & _);
      rewrite He;
      apply lec_bind; [apply (cb_lec 0); [apply cb_n_vars|lia]|]; intros n ps2 E2;
      assert (Hps2 : ps2 = st_nvars ps1) by (unfold n_vars in E2; apply Done_inj in E2; destruct E2 as [_ <-]; reflexivity);
      apply n_vars_sess in E2; destruct E2 as [-> Hs2];
      assert (Hc2 : calls ps2 = calls ps1) by (subst ps2; reflexivity);
      apply lec_bind; [apply (cb_lec 0); [apply cb_opt_m|lia]|]; intros id' ps3 E3;
      apply opt_m_Done in E3; destruct E3 as [Hid ->];
      assert (id' = id) by (rewrite Haf in Hid; congruence); subst id';
      pose proof (pr_search_tight L leqb leqb_spec oracle Hvalid fuel af e ps1 ps2 l id os Hrd Hsem Hlv Hbd Haf Hid Hs2) as G;
      rewrite <- Haf; unfold co_count;
      apply lec_bind;
      [ destruct (pr_loop oracle L fuel af e id _ true None _ ps2) as [[[[[k result] acc_b] ref_b] ext] ps4| | |];
        unfold lec; lia
      | intros [[[[k result] acc_b] ref_b] ext] ps4 E4; rewrite E4 in G;
        apply (cb_lec 0); [repeat cb_step|lia] ].
  - intros ps' E. unfold pr_ds_query in E. destruct (is_skep L leqb (s_buf L s) l) as [[b|] [X|]]; [discriminate E| | |].
    all: apply bind_OOF in E; destruct E as [E|([af buf] & ps1 & Hue & E)];
      [exfalso; exact (nof_not_OOF _ _ _ (nof_update_encoding L leqb _ _ Hstd) E)|];
      destruct (query_ready_pr L leqb leqb_spec oracle thr s ps os af buf ps1 Hv Hue) as (e & He & Hrd & Hsem & Hlv & Hbd & Haf & _);
      rewrite He in E;
      apply bind_OOF in E; destruct E as [E|(n & ps2 & E2 & E)]; [discriminate E|];
      apply n_vars_sess in E2; destruct E2 as [-> Hs2];
      apply bind_OOF in E; destruct E as [E|(id' & ps3 & E3 & E)]; [exfalso; exact (nof_not_OOF _ _ _ (nof_opt_m _) E)|];
      apply opt_m_Done in E3; destruct E3 as [Hid ->];
      assert (id' = id) by (rewrite Haf in Hid; congruence); subst id';
      pose proof (pr_search_tight L leqb leqb_spec oracle Hvalid fuel af e ps1 ps2 l id os Hrd Hsem Hlv Hbd Haf Hid Hs2) as G;
      apply bind_OOF in E; destruct E as [E|([[[[k result] acc_b] ref_b] X'] & ps4 & E4 & E)];
      [rewrite E in G; unfold co_count; rewrite <- Haf; exact (proj1 G)|];
      exfalso; refine (nof_not_OOF _ _ _ _ E);
      (apply nof_bind; [apply nof_opt_m|]); intros acc; (apply nof_bind; [apply nof_opt_m|]); intros refused;
      (apply nof_bind; [apply nof_add_clause|]); intros _; apply nof_ret.
Qed.

(* THE CALL BOUND of a preferred query, however it ends: at most one SAT call per complete extension of
   the current framework; and it runs out of fuel only if the fuel is at most that number *)
Theorem pr_query_calls thr (s : dsolver L) ps os fuel cert l id :
  vreach thr KPr s ps os -> get_argument L leqb (run_ops fresh os) l = Some id ->
  match dyn_query oracle L leqb thr fuel s QDS cert l ps with
  | Done _ ps' | Abort ps' => calls ps' <= calls ps + co_count (run_ops fresh os)
  | OutOfFuel ps' => calls ps' <= calls ps + co_count (run_ops fresh os) /\ fuel <= co_count (run_ops fresh os)
  | Panic _ => False
  end.
Proof.
  intros Hv Hl. pose proof (vreach_reach L leqb _ _ _ _ _ _ Hv) as Hr.
  pose proof (reach_frame_inv L leqb _ _ _ Hr) as [Hkind _ _ _].
  pose proof (std_query_never_panics L leqb leqb_spec KPr s os oracle thr fuel QDS cert l id ps Hr Hl
                (or_intror (or_intror (conj eq_refl eq_refl)))) as Hnp.
  pose proof (pr_ds_query_calls thr fuel s ps os l id Hv Hl) as G.
  unfold dyn_query in *. rewrite Hkind in *. unfold bind in *.
  destruct (pr_ds_query oracle L leqb fuel s l ps) as [r ps1| | |]; cbn [ret] in *; auto.
Qed.

(* no call at all on a cache hit: same program state, same solver state *)
Theorem pr_query_cached thr fuel (s : dsolver L) cert l b X ps :
  s_kind L s = KPr -> is_skep L leqb (s_buf L s) l = (Some b, Some X) ->
  dyn_query oracle L leqb thr fuel s QDS cert l ps = Done (s, (b, if cert then Some X else None)) ps.
Proof.
  intros Hk Hh. unfold dyn_query. rewrite Hk. unfold pr_ds_query. rewrite Hh. unfold bind, ret. cbn [fst snd].
  destruct cert; reflexivity.
Qed.

(* NO CANDIDATE SET TWICE: the sets decoded (by the encoder the solver holds when the query returns) from
   the Sat answers of the solve events this query appended to the SAT log - most recent first - followed
   by the grounded start set are pairwise different as sets, and each is a complete extension *)
Theorem pr_query_no_candidate_twice thr (s : dsolver L) ps os fuel cert l id s' a ps' e :
  vreach thr KPr s ps os -> get_argument L leqb (run_ops fresh os) l = Some id ->
  dyn_query oracle L leqb thr fuel s QDS cert l ps = Done (s', a) ps' ->
  b_enc L (s_buf L s') = XStd e ->
  exists new, rlog ps' = new ++ rlog ps /\
    sepl (sats e new ++ [grounded (view_of_fw (run_ops fresh os))]) /\
    forall S, In S (sats e new ++ [grounded (view_of_fw (run_ops fresh os))]) -> co (af_of (run_ops fresh os)) S.
Proof.
  intros Hv Hl Hq He.
  pose proof (vreach_reach L leqb _ _ _ _ _ _ Hv) as Hr.
  pose proof (reach_frame_inv L leqb _ _ _ Hr) as [Hkind _ _ _].
  assert (Hgr : co (af_of (run_ops fresh os)) (grounded (view_of_fw (run_ops fresh os)))).
  { destruct (GroundedProofs.grounded_store L leqb leqb_spec _ (fresh_reachable_g L leqb os)) as [[Hco _] _]. exact Hco. }
  destruct (dyn_query_pr_inv' L leqb oracle thr fuel s QDS cert l ps s' a ps' Hkind Hq) as (_ & ans & _ & Hpr).
  destruct (pr_ds_query_full L leqb oracle fuel s l ps s' ans ps' Hpr) as
    [(b0 & X & _ & _ & _ & ->)|(af & buf & ps1 & Hue & Hrest)].
  - exists []. split; [reflexivity|]. cbn [sats flat_map app sepl]. split; [split; [intros T []|exact I]|].
    intros S [<-|[]]. exact Hgr.
  - destruct (query_ready_pr L leqb leqb_spec oracle thr s ps os af buf ps1 Hv Hue) as (e1 & He1 & Hrd & Hsem & Hlv & Hbd & Haf & _).
    destruct (Hrest e1 He1) as (id' & ps2 & k & result & acc_b & ref_b & ext & ps3 & acc & refused & Hid & Hs2 & Hloop & Hs' & _ & Hps2 & Hps').
    assert (id' = id) by (rewrite Haf in Hid; congruence). subst id'.
    assert (e = e1).
    { rewrite Hs' in He. cbn [pushed_state s_buf buf_push buf_with b_enc] in He. congruence. }
    subst e1.
    pose proof (pr_search_out L leqb leqb_spec oracle Hvalid fuel af e ps1 ps2 l id os Hrd Hsem Hlv Hbd Haf Hid Hs2) as G.
    rewrite Hloop in G. destruct G as (_ & _ & lg & Hlg & Hsep & Hco).
    assert (Hstd : is_std (b_enc L (s_buf L s))).
    { apply (std_kind_reach L leqb _ _ _ Hr). unfold std_kind. tauto. }
    pose proof (quiet_update_encoding (s_af L s) (s_buf L s) Hstd ps) as Hq1. rewrite Hue in Hq1.
    destruct Hq1 as (lg1 & Hlg1 & Hn1).
    exists ([(nsess ps3, EClause [k_sel k])] ++ lg ++ [(nsess ps1, ENVars (session_n_vars (sess ps1)))] ++ lg1). split.
    + rewrite Hps'. cbn [st_add log_ev rlog]. rewrite Hlg, Hps2. cbn [st_nvars log_ev rlog]. rewrite Hlg1.
      rewrite <- !app_assoc. reflexivity.
    + assert (E1 : sats e [(nsess ps3, EClause [k_sel k])] = []) by reflexivity.
      assert (E2 : sats e [(nsess ps1, ENVars (session_n_vars (sess ps1)))] = []) by reflexivity.
      assert (Es : sats e ([(nsess ps3, EClause [k_sel k])] ++ lg ++ [(nsess ps1, ENVars (session_n_vars (sess ps1)))] ++ lg1)
                   = sats e lg).
      { rewrite !sats_app, E1, E2, (sats_nosolve e lg1 Hn1). cbn [app]. apply app_nil_r. }
      rewrite Es, <- Haf. auto.
Qed.

End PrefCalls.
