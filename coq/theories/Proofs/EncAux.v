(* Correctness of the aux_var encoders (conflict-freeness, admissibility,
   complete; with and without range variables) and of the default stable
   encoder: soundness, completeness, range variants, variable layout and
   assignment_to_extension.  Axiom-free. *)
From Coq Require Import List Arith ZArith Bool Lia.
From Crusta Require Import Proofs.EncBase.
Import ListNotations.

Definition is_aux_family (e : enc) : Prop :=
  e = StDefault \/ e = AuxCf \/ e = AuxAdm \/ e = AuxCo.

(* ================================================================== *)
(** * The default stable encoder *)

Lemma st_arg_spec m atk a :
  vmodels m (st_arg atk a) = true <->
  (forall b, In b (atk a) -> m (exp_var a) = true -> m (exp_var b) = true -> False) /\
  (m (exp_var a) = true \/ exists b, In b (atk a) /\ b <> a /\ m (exp_var b) = true).
Proof.
  unfold st_arg. rewrite vmodels_app_iff, vmodels_single, vmodels_map.
  rewrite vsat_cons, vtrue_zlit, (vsat_map_zlit m exp_var) by auto.
  split.
  - intros [H1 H2]. split.
    + intros b Hb Ha Hmb. specialize (H1 b Hb). destruct (a =? b) eqn:E.
      * rewrite vsat_single, vtrue_znlit, Ha in H1. discriminate.
      * rewrite vsat_binary, !vtrue_znlit, Ha, Hmb in H1. discriminate.
    + destruct (m (exp_var a)) eqn:Ea; [now left|right]. cbn [orb] in H2.
      apply existsb_exists in H2. destruct H2 as [b [Hb Hmb]].
      apply filter_In in Hb. destruct Hb as [Hb Hne].
      exists b. repeat split; [exact Hb| |exact Hmb].
      intros ->. rewrite Nat.eqb_refl in Hne. discriminate.
  - intros [H1 H2]. split.
    + intros b Hb. destruct (a =? b) eqn:E.
      * apply Nat.eqb_eq in E. subst b. rewrite vsat_single, vtrue_znlit.
        destruct (m (exp_var a)) eqn:Ea; [|reflexivity]. exfalso. now apply (H1 a Hb).
      * rewrite vsat_binary, !vtrue_znlit.
        destruct (m (exp_var a)) eqn:Ea; [|reflexivity].
        destruct (m (exp_var b)) eqn:Eb; [|reflexivity]. exfalso. now apply (H1 b Hb).
    + destruct H2 as [->|[b [Hb [Hne Hmb]]]]; [reflexivity|].
      apply orb_true_iff. right. apply existsb_exists. exists b. split; [|exact Hmb].
      apply filter_In. split; [exact Hb|]. apply negb_true_iff. apply Nat.eqb_neq. auto.
Qed.

Lemma st_sound F n m :
  compact_af F n ->
  vmodels m (over_args n (st_arg (attackers F))) = true ->
  st F (ext_of StDefault n m).
Proof.
  intros HF Hm. rewrite vmodels_over_args in Hm.
  pose proof (fun a Ha => proj1 (st_arg_spec m (attackers F) a) (Hm a Ha)) as Hs.
  split; [now apply ext_of_incl|]. split.
  - intros a b Ha Hb Hab. apply in_ext_of in Ha, Hb. cbn [arg_var] in Ha, Hb.
    destruct Ha as [Han Ha], Hb as [Hbn Hb]. destruct (Hs b Hbn) as [H1 _].
    apply (H1 a); [now apply in_attackers|exact Hb|exact Ha].
  - intros a Ha Hna. apply (compact_in_args F n a HF) in Ha.
    destruct (Hs a Ha) as [_ [H2|[b [Hb [_ Hmb]]]]].
    + exfalso. apply Hna. apply in_ext_of. split; [exact Ha|exact H2].
    + exists b. split; [|now apply in_attackers]. apply in_ext_of. split; [|exact Hmb].
      destruct (compact_attackers_lt F n a b HF Hb) as [Hbn _]. exact Hbn.
Qed.

Definition st_model (S : list nat) : val := fun v => memb (v - 1) S.

Lemma st_model_var S a : st_model S (exp_var a) = memb a S.
Proof. unfold st_model, exp_var. now rewrite Nat.add_sub. Qed.

Lemma st_complete F n S :
  compact_af F n -> st F S ->
  vmodels (st_model S) (over_args n (st_arg (attackers F))) = true.
Proof.
  intros HF (Hincl & Hcf & Hst). apply vmodels_over_args. intros a Ha.
  apply st_arg_spec. rewrite !st_model_var. split.
  - intros b Hb Hma Hmb. rewrite st_model_var in Hmb. apply memb_spec in Hma, Hmb.
    apply in_attackers in Hb. exact (Hcf b a Hmb Hma Hb).
  - destruct (memb a S) eqn:Ea; [now left|right]. apply memb_false in Ea.
    destruct (Hst a) as [b [Hb Hab]]; [now apply (compact_in_args F n a HF)|exact Ea|].
    exists b. split; [now apply in_attackers|]. split.
    + intros ->. now apply Ea.
    + rewrite st_model_var. now apply memb_spec.
Qed.

(* ================================================================== *)
(** * The aux_var encoders: soundness *)

Section AuxSound.
Variables (F : af) (n : nat) (m : val).
Hypothesis HF : compact_af F n.
Let atk := attackers F.
Let S := ext_of AuxCf n m.

Lemma in_auxS a : In a S <-> a < n /\ m (aux_var a) = true.
Proof. unfold S. apply (in_ext_of AuxCf). Qed.

Definition disj_ok : Prop := forall a, a < n -> vmodels m (aux_disj_arg atk a) = true.

Lemma aux_disj_arg_spec a :
  vmodels m (aux_disj_arg atk a) = true <->
  (m (aux_var a) = true -> m (aux_disj a) = true -> False) /\
  (forall b, In b (atk a) -> m (aux_var b) = true -> m (aux_disj a) = true) /\
  (m (aux_disj a) = true -> exists b, In b (atk a) /\ m (aux_var b) = true).
Proof. unfold aux_disj_arg. apply disj_var_with_spec; auto. Qed.

Lemma disj_sem :
  disj_ok -> forall a, a < n ->
  (m (aux_disj a) = true <-> exists b, In b S /\ att F b a).
Proof.
  intros Hd a Ha. destruct (proj1 (aux_disj_arg_spec a) (Hd a Ha)) as (_ & H2 & H3). split.
  - intros Hm. destruct (H3 Hm) as [b [Hb Hmb]]. exists b.
    split; [|now apply in_attackers]. apply in_auxS. split; [|exact Hmb].
    destruct (compact_attackers_lt F n a b HF Hb) as [Hbn _]. exact Hbn.
  - intros [b [Hb Hab]]. apply in_auxS in Hb. destruct Hb as [_ Hmb].
    apply (H2 b); [now apply in_attackers|exact Hmb].
Qed.

Lemma disj_cf : disj_ok -> cf F S.
Proof.
  intros Hd a b Ha Hb Hab. apply in_auxS in Hb. destruct Hb as [Hbn Hmb].
  destruct (proj1 (aux_disj_arg_spec b) (Hd b Hbn)) as (H1 & _ & _).
  apply H1; [exact Hmb|]. apply (disj_sem Hd b Hbn). exists a. now split.
Qed.

Lemma cf_sound :
  (forall a, a < n -> vmodels m (aux_cf_arg atk a) = true) -> cf F S.
Proof.
  intros Hc a b Ha Hb Hab. apply in_auxS in Ha, Hb.
  destruct Ha as [Han Hma], Hb as [Hbn Hmb].
  specialize (Hc b Hbn). unfold aux_cf_arg in Hc. rewrite (nand_clauses_spec m atk aux_var b) in Hc.
  apply (Hc a); [now apply in_attackers|exact Hmb|exact Hma].
Qed.

(* admissibility from the implications  a -> P_b  (b attacker of a) *)
Lemma adm_from_impl :
  disj_ok ->
  (forall a, a < n -> forall b, In b (atk a) -> m (aux_var a) = true -> m (aux_disj b) = true) ->
  adm F S.
Proof.
  intros Hd Hi. split; [now apply ext_of_incl|]. split; [now apply disj_cf|].
  intros a Ha b Hb. apply in_auxS in Ha. destruct Ha as [Han Hma].
  apply in_attackers in Hb. destruct (compact_attackers_lt F n a b HF Hb) as [Hbn _].
  specialize (Hi a Han b Hb Hma). apply (disj_sem Hd b Hbn) in Hi.
  destruct Hi as [c [Hc Hcb]]. exists c. now split.
Qed.

Lemma adm_sound :
  disj_ok -> (forall a, a < n -> vmodels m (aux_adm_arg atk a) = true) -> adm F S.
Proof.
  intros Hd Ha. apply adm_from_impl; [exact Hd|]. intros a Han.
  specialize (Ha a Han). unfold aux_adm_arg in Ha.
  rewrite (impl_clauses_spec m atk aux_var aux_disj a aux_disj_pos) in Ha. exact Ha.
Qed.

Lemma co_sound :
  disj_ok ->
  (forall a, a < n -> vmodels m (aux_co_arg_with atk aux_var aux_disj a) = true) -> co F S.
Proof.
  intros Hd Hc.
  assert (Hs : forall a, a < n ->
     (forall b, In b (atk a) -> m (aux_var a) = true -> m (aux_disj b) = true) /\
     (m (aux_var a) = true \/ exists b, In b (atk a) /\ m (aux_disj b) = false)).
  { intros a Han. apply (aux_co_arg_with_spec m atk aux_var aux_disj a aux_var_pos aux_disj_pos).
    now apply Hc. }
  split.
  - apply adm_from_impl; [exact Hd|]. intros a Han. exact (proj1 (Hs a Han)).
  - intros a Ha Hdef. apply (compact_in_args F n a HF) in Ha. apply in_auxS.
    split; [exact Ha|]. destruct (Hs a Ha) as [_ [H|[b [Hb Hmb]]]]; [exact H|].
    exfalso. destruct (compact_attackers_lt F n a b HF Hb) as [Hbn _].
    apply in_attackers in Hb. destruct (Hdef b Hb) as [c [Hc' Hcb]].
    assert (Ht : m (aux_disj b) = true) by (apply (disj_sem Hd b Hbn); exists c; now split).
    congruence.
Qed.

Lemma range_sem :
  disj_ok -> (forall a, a < n -> vmodels m (aux_range_arg n a) = true) ->
  forall i, i < n -> (m (aux_range n i) = true <-> in_range F S i).
Proof.
  intros Hd Hr i Hi. specialize (Hr i Hi). unfold aux_range_arg in Hr.
  rewrite range3_spec in Hr by auto. rewrite Hr. unfold in_range.
  rewrite (disj_sem Hd i Hi), in_auxS. intuition.
Qed.

End AuxSound.

(* ================================================================== *)
(** * The aux_var encoders: completeness (explicit witness model) *)

Definition aux_model (F : af) (n : nat) (S : list nat) : val :=
  fun v =>
    if v <=? 2 * n
    then if Nat.even v then memb (Nat.div2 v - 1) S
         else attacked_byb F S (Nat.div2 (v + 1) - 1)
    else in_rangeb F S (v - 2 * n - 1).

Section AuxComplete.
Variables (F : af) (n : nat) (S : list nat).
Hypothesis HF : compact_af F n.
Let atk := attackers F.
Let M := aux_model F n S.

Lemma aux_model_var a : a < n -> M (aux_var a) = memb a S.
Proof.
  intros Ha. unfold M, aux_model, aux_var.
  replace (2 * (a + 1) <=? 2 * n) with true by (symmetry; apply Nat.leb_le; lia).
  rewrite Nat.even_mul. cbn [Nat.even orb]. rewrite Nat.div2_double.
  now rewrite Nat.add_sub.
Qed.

Lemma aux_model_disj a : a < n -> M (aux_disj a) = attacked_byb F S a.
Proof.
  intros Ha. unfold M, aux_model, aux_disj.
  replace (2 * (a + 1) - 1 <=? 2 * n) with true by (symmetry; apply Nat.leb_le; lia).
  replace (2 * (a + 1) - 1) with (1 + 2 * a) by lia.
  rewrite Nat.even_add_mul_2. cbn [Nat.even].
  replace (1 + 2 * a + 1) with (2 * (a + 1)) by lia. rewrite Nat.div2_double.
  now rewrite Nat.add_sub.
Qed.

Lemma aux_model_range a : M (aux_range n a) = in_rangeb F S a.
Proof.
  unfold M, aux_model, aux_range.
  replace (2 * n + a + 1 <=? 2 * n) with false by (symmetry; apply Nat.leb_gt; lia).
  f_equal. lia.
Qed.

Lemma atk_lt a b : In b (atk a) -> b < n.
Proof. intros Hb. destruct (compact_attackers_lt F n a b HF Hb) as [H _]. exact H. Qed.

Lemma model_disj : cf F S -> forall a, a < n -> vmodels M (aux_disj_arg atk a) = true.
Proof.
  intros Hcf a Ha. apply aux_disj_arg_spec.
  rewrite aux_model_var, aux_model_disj by exact Ha. repeat split.
  - intros Hma Hd. apply memb_spec in Hma. apply attacked_byb_spec in Hd.
    destruct Hd as [b [Hb Hab]]. exact (Hcf b a Hb Hma Hab).
  - intros b Hb Hmb. rewrite aux_model_var in Hmb by (now apply (atk_lt a)).
    apply attacked_byb_spec. exists b. split; [now apply memb_spec|now apply in_attackers].
  - intros Hd. apply attacked_byb_spec in Hd. destruct Hd as [b [Hb Hab]].
    assert (Hb' : In b (atk a)) by (now apply in_attackers).
    exists b. split; [exact Hb'|]. rewrite aux_model_var by (now apply (atk_lt a)).
    now apply memb_spec.
Qed.

Lemma model_cf : cf F S -> forall a, a < n -> vmodels M (aux_cf_arg atk a) = true.
Proof.
  intros Hcf a Ha. unfold aux_cf_arg. apply (nand_clauses_spec M atk aux_var a).
  intros b Hb Hma Hmb. rewrite aux_model_var in Hma by exact Ha.
  rewrite aux_model_var in Hmb by (now apply (atk_lt a)).
  apply memb_spec in Hma, Hmb. apply in_attackers in Hb. exact (Hcf b a Hmb Hma Hb).
Qed.

Lemma model_impl :
  (forall a, In a S -> defends F S a) ->
  forall a, a < n -> forall b, In b (atk a) -> M (aux_var a) = true -> M (aux_disj b) = true.
Proof.
  intros Hdef a Ha b Hb Hma. rewrite aux_model_var in Hma by exact Ha.
  rewrite aux_model_disj by (now apply (atk_lt a)). apply memb_spec in Hma.
  apply attacked_byb_spec. apply in_attackers in Hb.
  destruct (Hdef a Hma b Hb) as [c [Hc Hcb]]. exists c. now split.
Qed.

Lemma model_adm : adm F S -> forall a, a < n -> vmodels M (aux_adm_arg atk a) = true.
Proof.
  intros (_ & _ & Hdef) a Ha. unfold aux_adm_arg.
  apply (impl_clauses_spec M atk aux_var aux_disj a aux_disj_pos).
  now apply model_impl.
Qed.

Lemma model_co :
  co F S -> forall a, a < n -> vmodels M (aux_co_arg_with atk aux_var aux_disj a) = true.
Proof.
  intros [(_ & _ & Hdef) Hco] a Ha.
  apply (aux_co_arg_with_spec M atk aux_var aux_disj a aux_var_pos aux_disj_pos). split.
  - now apply model_impl.
  - rewrite aux_model_var by exact Ha. destruct (memb a S) eqn:Ea; [now left|right].
    destruct (defendsb F S a) eqn:Ed.
    + exfalso. apply defendsb_spec in Ed. apply memb_false in Ea. apply Ea.
      apply Hco; [now apply (compact_in_args F n a HF)|exact Ed].
    + apply not_defended_witness in Ed. destruct Ed as [b [Hb Hnb]].
      assert (Hb' : In b (atk a)) by (now apply in_attackers).
      exists b. split; [exact Hb'|]. rewrite aux_model_disj by (now apply (atk_lt a)). exact Hnb.
Qed.

Lemma model_range : forall a, a < n -> vmodels M (aux_range_arg n a) = true.
Proof.
  intros a Ha. unfold aux_range_arg. apply range3_spec; auto.
  rewrite aux_model_range, aux_model_var, aux_model_disj by exact Ha.
  unfold in_rangeb. apply orb_true_iff.
Qed.

Lemma model_args : forall a, a < n -> (M (aux_var a) = true <-> In a S).
Proof. intros a Ha. rewrite aux_model_var by exact Ha. apply memb_spec. Qed.

Lemma model_ranges : forall i, i < n -> (M (aux_range n i) = true <-> in_range F S i).
Proof. intros i Hi. rewrite aux_model_range. apply in_rangeb_spec. Qed.

End AuxComplete.

(* ================================================================== *)
(** * Main statements: soundness and completeness *)

Lemma aux_sound : forall e thr F n,
  is_aux_family e -> compact_af F n -> enc_sound e thr F n.
Proof.
  intros e thr F n He HF C m HC Hm.
  rewrite (enc_clauses_compact e thr false F n HF) in HC.
  destruct He as [-> | [-> | [-> | ->]]]; cbv [encode option_map snd] in HC;
    apply some_inj in HC; subst C; cbn [enc_base basep].
  - now apply st_sound.
  - rewrite vmodels_over_args in Hm. split; [now apply ext_of_incl|].
    now apply (cf_sound F n m).
  - rewrite vmodels_over_args in Hm. apply vmodels_args_app in Hm. destruct Hm as [Hx Hd].
    exact (adm_sound F n m HF Hd Hx).
  - rewrite vmodels_over_args in Hm. apply vmodels_args_app in Hm. destruct Hm as [Hx Hd].
    exact (co_sound F n m HF Hd Hx).
Qed.

Lemma aux_complete : forall e thr F n,
  is_aux_family e -> compact_af F n -> enc_complete e thr F n.
Proof.
  intros e thr F n He HF C S HC HS.
  rewrite (enc_clauses_compact e thr false F n HF) in HC.
  destruct He as [-> | [-> | [-> | ->]]]; cbv [encode option_map snd] in HC;
    apply some_inj in HC; subst C; cbn [enc_base basep] in HS.
  - exists (st_model S). split; [now apply st_complete|].
    intros a Ha. cbn [arg_var]. rewrite st_model_var. apply memb_spec.
  - exists (aux_model F n S). split; [|now apply model_args].
    apply vmodels_over_args. intros a Ha. destruct HS as [_ Hcf]. now apply model_cf.
  - exists (aux_model F n S). split; [|now apply model_args].
    apply vmodels_over_args. intros a Ha. apply vmodels_app_iff.
    split; [now apply model_adm|]. destruct HS as (_ & Hcf & _). now apply model_disj.
  - exists (aux_model F n S). split; [|now apply model_args].
    apply vmodels_over_args. intros a Ha. apply vmodels_app_iff.
    split; [now apply model_co|]. destruct HS as [(_ & Hcf & _) _]. now apply model_disj.
Qed.

Lemma aux_range_sound : forall e thr F n,
  is_aux_family e -> compact_af F n -> enc_range_sound e thr F n.
Proof.
  intros e thr F n He HF C m HC Hm.
  rewrite (enc_clauses_compact e thr true F n HF) in HC.
  destruct He as [-> | [-> | [-> | ->]]]; cbv [encode option_map snd] in HC;
    [discriminate| | |]; apply some_inj in HC; subst C; cbn [enc_base basep range_var];
    rewrite vmodels_over_args in Hm;
    apply vmodels_args_app in Hm; destruct Hm as [Hx Hm];
    apply vmodels_args_app in Hm; destruct Hm as [Hd Hr].
  - split.
    + split; [now apply ext_of_incl|]. exact (cf_sound F n m Hx).
    + intros i Hi Hri. exact (proj1 (range_sem F n m HF Hd Hr i Hi) Hri).
  - split.
    + exact (adm_sound F n m HF Hd Hx).
    + intros i Hi Hri. exact (proj1 (range_sem F n m HF Hd Hr i Hi) Hri).
  - split.
    + exact (co_sound F n m HF Hd Hx).
    + intros i Hi Hri. exact (proj1 (range_sem F n m HF Hd Hr i Hi) Hri).
Qed.

Lemma aux_range_complete : forall e thr F n,
  is_aux_family e -> compact_af F n -> enc_range_complete e thr F n.
Proof.
  intros e thr F n He HF C S HC HS.
  rewrite (enc_clauses_compact e thr true F n HF) in HC.
  destruct He as [-> | [-> | [-> | ->]]]; cbv [encode option_map snd] in HC;
    [discriminate| | |]; apply some_inj in HC; subst C; cbn [enc_base basep] in HS;
    exists (aux_model F n S);
    (split; [|split; [now apply model_args|now apply model_ranges]]);
    apply vmodels_over_args; intros a Ha; rewrite !vmodels_app_iff.
  - destruct HS as [_ Hcf].
    split; [now apply model_cf|]. split; [now apply model_disj|now apply model_range].
  - pose proof HS as (_ & Hcf & _).
    split; [now apply model_adm|]. split; [now apply model_disj|now apply model_range].
  - pose proof HS as [(_ & Hcf & _) _].
    split; [now apply model_co|]. split; [now apply model_disj|now apply model_range].
Qed.

(* ================================================================== *)
(** * Variable layout *)

Definition aux3 (e : enc) : Prop := e = AuxCf \/ e = AuxAdm \/ e = AuxCo.

Lemma var_class_aux3 e n r v :
  aux3 e ->
  (var_class e n r v <->
   (exists a, a < n /\ v = aux_var a) \/
   (r = true /\ exists a, a < n /\ v = aux_range n a) \/
   (exists a, a < n /\ v = aux_disj a)).
Proof. intros [-> | [-> | ->]]; apply iff_refl. Qed.

Ltac split_forall := repeat (first [apply Forall_nil | apply Forall_cons]).

Section AuxGood.
Variables (e : enc) (n : nat) (r : bool).
Hypothesis He : aux3 e.

Lemma good_av a : a < n -> good_lit e n r (zlit (aux_var a)).
Proof.
  intros Ha. apply good_zlit; [apply aux_var_pos|]. apply (var_class_aux3 e n r _ He).
  left. exists a. now split.
Qed.
Lemma good_nav a : a < n -> good_lit e n r (znlit (aux_var a)).
Proof.
  intros Ha. apply good_znlit; [apply aux_var_pos|]. apply (var_class_aux3 e n r _ He).
  left. exists a. now split.
Qed.
Lemma good_dv a : a < n -> good_lit e n r (zlit (aux_disj a)).
Proof.
  intros Ha. apply good_zlit; [apply aux_disj_pos|]. apply (var_class_aux3 e n r _ He).
  right. right. exists a. now split.
Qed.
Lemma good_ndv a : a < n -> good_lit e n r (znlit (aux_disj a)).
Proof.
  intros Ha. apply good_znlit; [apply aux_disj_pos|]. apply (var_class_aux3 e n r _ He).
  right. right. exists a. now split.
Qed.
Lemma good_rv a : r = true -> a < n -> good_lit e n r (zlit (aux_range n a)).
Proof.
  intros Hr Ha. apply good_zlit; [apply aux_range_pos|]. apply (var_class_aux3 e n r _ He).
  right. left. split; [exact Hr|]. exists a. now split.
Qed.
Lemma good_nrv a : r = true -> a < n -> good_lit e n r (znlit (aux_range n a)).
Proof.
  intros Hr Ha. apply good_znlit; [apply aux_range_pos|]. apply (var_class_aux3 e n r _ He).
  right. left. split; [exact Hr|]. exists a. now split.
Qed.

Variable atk : nat -> list nat.
Hypothesis Hatk : forall a b, In b (atk a) -> b < n.

Lemma good_cf_arg a : a < n -> all_good e n r (aux_cf_arg atk a).
Proof.
  intros Ha. unfold aux_cf_arg. apply all_good_map. intros b Hb.
  pose proof (Hatk a b Hb) as Hbn.
  split_forall; auto using good_nav.
Qed.

Lemma good_impl_arg a :
  a < n -> all_good e n r (map (fun b => [znlit (aux_var a); zlit (aux_disj b)]) (atk a)).
Proof.
  intros Ha. apply all_good_map. intros b Hb. pose proof (Hatk a b Hb) as Hbn.
  split_forall; auto using good_nav, good_dv.
Qed.

Lemma good_adm_arg a : a < n -> all_good e n r (aux_adm_arg atk a).
Proof. exact (good_impl_arg a). Qed.

Lemma good_co_arg a : a < n -> all_good e n r (aux_co_arg_with atk aux_var aux_disj a).
Proof.
  intros Ha. unfold aux_co_arg_with. apply all_good_app; [now apply good_impl_arg|].
  split_forall; [now apply good_av|].
  apply good_clause_map. intros b Hb. apply good_ndv. exact (Hatk a b Hb).
Qed.

Lemma good_disj_arg a : a < n -> all_good e n r (aux_disj_arg atk a).
Proof.
  intros Ha. unfold aux_disj_arg, disj_var_with.
  repeat match goal with |- all_good _ _ _ (_ ++ _) => apply all_good_app end.
  - split_forall; auto using good_nav, good_ndv.
  - apply all_good_map. intros b Hb. pose proof (Hatk a b Hb) as Hbn.
    split_forall; auto using good_nav, good_dv.
  - split_forall; [now apply good_ndv|].
    apply good_clause_map. intros b Hb. apply good_av. exact (Hatk a b Hb).
Qed.

Lemma good_range_arg a : r = true -> a < n -> all_good e n r (aux_range_arg n a).
Proof.
  intros Hr Ha. unfold aux_range_arg.
  split_forall; auto using good_av, good_nav, good_dv, good_ndv, good_rv, good_nrv.
Qed.

End AuxGood.

Section StGood.
Variables (n : nat) (r : bool).

Lemma good_sv a : a < n -> good_lit StDefault n r (zlit (exp_var a)).
Proof.
  intros Ha. apply good_zlit; [apply exp_var_pos|]. left. exists a. now split.
Qed.
Lemma good_nsv a : a < n -> good_lit StDefault n r (znlit (exp_var a)).
Proof.
  intros Ha. apply good_znlit; [apply exp_var_pos|]. left. exists a. now split.
Qed.

Variable atk : nat -> list nat.
Hypothesis Hatk : forall a b, In b (atk a) -> b < n.

Lemma good_st_arg a : a < n -> all_good StDefault n r (st_arg atk a).
Proof.
  intros Ha. unfold st_arg. apply all_good_app.
  - apply all_good_map. intros b Hb. pose proof (Hatk a b Hb) as Hbn.
    destruct (a =? b); split_forall; auto using good_nsv.
  - split_forall; [now apply good_sv|].
    apply good_clause_map. intros b Hb. apply filter_In in Hb. destruct Hb as [Hb _].
    apply good_sv. exact (Hatk a b Hb).
Qed.

End StGood.

Lemma aux_layout_arith e n range :
  is_aux_family e ->
  (forall a b, arg_var e a = arg_var e b -> a = b) /\
  (forall a b, range_var e n a = range_var e n b -> a = b) /\
  (forall a, 0 < arg_var e a) /\
  (forall a b, a < n -> b < n -> arg_var e a <> range_var e n b) /\
  (forall a, a < n -> ~ aux_zone e n range (arg_var e a)) /\
  (forall a, a < n -> range = true -> ~ aux_zone e n range (range_var e n a)).
Proof.
  intros [-> | [-> | [-> | ->]]]; cbn [arg_var range_var aux_zone];
    unfold exp_var, exp_range, aux_var, aux_range, aux_disj;
    (split; [intros a b; lia|]); (split; [intros a b; lia|]); (split; [intros a; lia|]);
    (split; [intros a b Ha Hb; lia|]); split.
  all: unfold not; intros;
    repeat match goal with H : exists _, _ |- _ => destruct H as [? [? ?]] end;
    try contradiction; lia.
Qed.

Lemma aux_layout : forall e thr range F n,
  is_aux_family e -> compact_af F n -> enc_layout e thr range F n.
Proof.
  intros e thr range F n He HF. split; [|now apply aux_layout_arith].
  intros C HC. apply all_good_elim.
  rewrite (enc_clauses_compact e thr range F n HF) in HC.
  assert (Hatk : forall a b, In b (attackers F a) -> b < n).
  { intros a b Hb. destruct (compact_attackers_lt F n a b HF Hb) as [H _]. exact H. }
  destruct He as [-> | [-> | [-> | ->]]]; destruct range; cbv [encode option_map snd] in HC;
    try discriminate; apply some_inj in HC; subst C;
    apply all_good_over_args; intros a Ha;
    repeat match goal with |- all_good _ _ _ (_ ++ _) => apply all_good_app end.
  all: try (apply good_st_arg; assumption).
  all: try (apply good_cf_arg; unfold aux3; auto).
  all: try (apply good_adm_arg; unfold aux3; auto).
  all: try (apply good_co_arg; unfold aux3; auto).
  all: try (apply good_disj_arg; unfold aux3; auto).
  all: try (apply good_range_arg; unfold aux3; auto).
Qed.

(* ================================================================== *)
(** * assignment_to_extension *)

Lemma aux_arg_of_var_spec n v a :
  0 < v ->
  ((if Nat.odd v then None
    else let id := Nat.div2 v - 1 in if id <? n then Some id else None) = Some a <->
   a < n /\ v = aux_var a).
Proof.
  intros Hv. pose proof (Nat.div2_odd v) as Hd. unfold aux_var.
  destruct (Nat.odd v) eqn:Eo; cbn [Nat.b2n] in Hd.
  - split; [discriminate|]. intros [_ Heq]. lia.
  - cbv zeta. destruct (Nat.div2 v - 1 <? n) eqn:El;
      [apply Nat.ltb_lt in El|apply Nat.ltb_ge in El]; split.
    + intros [= <-]. lia.
    + intros [Ha Heq]. f_equal. lia.
    + discriminate.
    + intros [Ha Heq]. lia.
Qed.

Lemma st_arg_of_var_spec n v a :
  0 < v ->
  ((if v <=? n then Some (v - 1) else None) = Some a <-> a < n /\ v = exp_var a).
Proof.
  intros Hv. unfold exp_var.
  destruct (v <=? n) eqn:El; [apply Nat.leb_le in El|apply Nat.leb_gt in El]; split.
  - intros [= <-]. lia.
  - intros [Ha Heq]. f_equal. lia.
  - discriminate.
  - intros [Ha Heq]. lia.
Qed.

Lemma aux_a2e : forall e n, is_aux_family e -> a2e_ok e n.
Proof.
  intros e n He. apply a2e_generic.
  - intros v a Hv. destruct He as [-> | [-> | [-> | ->]]].
    + exact (st_arg_of_var_spec n v a Hv).
    + exact (aux_arg_of_var_spec n v a Hv).
    + exact (aux_arg_of_var_spec n v a Hv).
    + exact (aux_arg_of_var_spec n v a Hv).
  - intros a b Hab. destruct He as [-> | [-> | [-> | ->]]]; cbn [arg_var];
      unfold exp_var, aux_var; lia.
Qed.

Print Assumptions aux_sound.
Print Assumptions aux_complete.
Print Assumptions aux_range_sound.
Print Assumptions aux_range_complete.
Print Assumptions aux_layout.
Print Assumptions aux_a2e.
