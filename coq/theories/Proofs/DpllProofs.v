(* Correctness of the reference SAT procedure of Sat/Dpll.v: soundness (a returned assignment is a
   total model over 1..n) and completeness (None only if no assignment at all is a model). *)
From Coq Require Import ZifyBool Lia.
From Crusta Require Import Sat.Cnf Sat.Dpll.
Import ListNotations.

(* ------------------------------------------------------------------ basic facts *)
Lemma memz_In : forall l tr, memz l tr = true <-> In l tr.
Proof.
  intros l tr. unfold memz. rewrite existsb_exists. split.
  - intros [x [Hin He]]. apply Z.eqb_eq in He. subst. exact Hin.
  - intros H. exists l. split; [exact H|apply Z.eqb_refl].
Qed.

Lemma lit_var_opp : forall l, lit_var (Z.opp l) = lit_var l.
Proof. intros l. unfold lit_var. rewrite Z.abs_opp. reflexivity. Qed.

Lemma vtrue_opp : forall v l, l <> 0%Z -> vtrue v (Z.opp l) = negb (vtrue v l).
Proof.
  intros v l Hl. unfold vtrue. rewrite lit_var_opp.
  destruct (Z.ltb 0 l) eqn:E1; destruct (Z.ltb 0 (- l)) eqn:E2; try lia; try reflexivity;
  rewrite negb_involutive; reflexivity.
Qed.

Lemma lit_var_pos : forall x, lit_var (pos_lit x) = x.
Proof. intros x. unfold lit_var, pos_lit. lia. Qed.
Lemma lit_var_neg : forall x, lit_var (neg_lit x) = x.
Proof. intros x. unfold lit_var, neg_lit. lia. Qed.
Lemma vtrue_pos : forall v x, 1 <= x -> vtrue v (pos_lit x) = v x.
Proof. intros v x Hx. unfold vtrue. rewrite lit_var_pos. unfold pos_lit. replace (Z.ltb 0 (Z.of_nat x)) with true by lia. reflexivity. Qed.
Lemma vtrue_neg : forall v x, vtrue v (neg_lit x) = negb (v x).
Proof. intros v x. unfold vtrue. rewrite lit_var_neg. unfold neg_lit. replace (Z.ltb 0 (- Z.of_nat x)) with false by lia. reflexivity. Qed.

Lemma lit_cases : forall l, l <> 0%Z -> (l = pos_lit (lit_var l) \/ l = neg_lit (lit_var l)) /\ 1 <= lit_var l.
Proof. intros l Hl. unfold pos_lit, neg_lit, lit_var. lia. Qed.

Definition cons_with (v : val) (tr : list lit) : Prop := forall l, In l tr -> vtrue v l = true.

Lemma cons_with_cons : forall v (l : lit) tr, vtrue v l = true -> cons_with v tr -> cons_with v (l :: tr).
Proof. intros v l tr Hl H l' [E|Hin]; [subst; exact Hl|apply H, Hin]. Qed.

Lemma clause_max_in : forall c l, In l c -> lit_var l <= clause_max c.
Proof.
  induction c as [|x c IH]; intros l Hin; [destruct Hin|]; destruct Hin as [E|Hin]; cbn [clause_max fold_right].
  - subst. lia.
  - specialize (IH l Hin). unfold clause_max in IH. lia.
Qed.
Lemma cnf_max_in : forall f c, In c f -> clause_max c <= cnf_max f.
Proof.
  induction f as [|x f IH]; intros c Hin; [destruct Hin|]; destruct Hin as [E|Hin]; cbn [cnf_max fold_right].
  - subst. lia.
  - specialize (IH c Hin). unfold cnf_max in IH. lia.
Qed.
Lemma cnf_ok_in : forall f c l, cnf_ok f = true -> In c f -> In l c -> l <> 0%Z.
Proof.
  intros f c l H Hc Hl. unfold cnf_ok in H. rewrite forallb_forall in H. specialize (H c Hc).
  unfold clause_ok in H. rewrite forallb_forall in H. specialize (H l Hl). unfold lit_ok in H. lia.
Qed.

(* ------------------------------------------------------------------ analyse *)
Lemma analyse_conflict : forall tr f v, cnf_ok f = true -> analyse tr f = Conflict -> cons_with v tr -> vmodels v f = false.
Proof.
  intros tr f v. induction f as [|c f IH]; intros Hok Ha Hv; [discriminate|].
  cbn [cnf_ok forallb] in Hok. apply andb_true_iff in Hok. destruct Hok as [Hc Hf]. fold (cnf_ok f) in Hf.
  cbn [analyse] in Ha. cbn [vmodels forallb]. fold (vmodels v f).
  destruct (existsb (fun l => memz l tr) c) eqn:Es.
  { rewrite (IH Hf Ha Hv). apply andb_false_r. }
  destruct (filter (fun l => negb (memz (Z.opp l) tr)) c) as [|l0 [|l1 r]] eqn:Ef.
  - (* every literal of c is false under tr *)
    assert (Hc' : vsat_clause v c = false).
    { unfold vsat_clause. apply not_true_is_false. intros Hex. apply existsb_exists in Hex. destruct Hex as [l [Hin Ht]].
      assert (Hm : memz (Z.opp l) tr = true).
      { destruct (memz (Z.opp l) tr) eqn:Em; [reflexivity|]. assert (In l (filter (fun l => negb (memz (Z.opp l) tr)) c)) as X.
        { apply filter_In. split; [exact Hin|]. rewrite Em. reflexivity. } rewrite Ef in X. destruct X. }
      apply memz_In in Hm. specialize (Hv _ Hm). rewrite vtrue_opp in Hv.
      - rewrite Ht in Hv. discriminate.
      - unfold clause_ok in Hc. rewrite forallb_forall in Hc. specialize (Hc l Hin). unfold lit_ok in Hc. lia. }
    rewrite Hc'. reflexivity.
  - discriminate.
  - rewrite (IH Hf Ha Hv). apply andb_false_r.
Qed.

Lemma analyse_unit : forall tr f l, cnf_ok f = true -> analyse tr f = UnitLit l ->
  (exists c, In c f /\ In l c) /\ memz l tr = false /\ memz (Z.opp l) tr = false /\
  (forall v, cons_with v tr -> vmodels v f = true -> vtrue v l = true).
Proof.
  intros tr f l. induction f as [|c f IH]; intros Hok Ha; [discriminate|].
  cbn [cnf_ok forallb] in Hok. apply andb_true_iff in Hok. destruct Hok as [Hc Hf]. fold (cnf_ok f) in Hf.
  cbn [analyse] in Ha.
  assert (Hrec : analyse tr f = UnitLit l ->
    (exists c0, In c0 (c :: f) /\ In l c0) /\ memz l tr = false /\ memz (Z.opp l) tr = false /\
    (forall v, cons_with v tr -> vmodels v (c :: f) = true -> vtrue v l = true)).
  { intros Ha'. destruct (IH Hf Ha') as ((c0 & Hc0 & Hl0) & A & B & C). split; [exists c0; split; [right; exact Hc0|exact Hl0]|].
    split; [exact A|]. split; [exact B|]. intros v Hv Hm. apply C; [exact Hv|]. cbn [vmodels forallb] in Hm.
    apply andb_true_iff in Hm. apply Hm. }
  destruct (existsb (fun l => memz l tr) c) eqn:Es; [apply Hrec, Ha|].
  destruct (filter (fun l => negb (memz (Z.opp l) tr)) c) as [|l0 [|l1 r]] eqn:Ef; [discriminate| |apply Hrec, Ha].
  inversion Ha. subst l0. clear Ha.
  assert (Hin : In l (filter (fun l => negb (memz (Z.opp l) tr)) c)) by (rewrite Ef; left; reflexivity).
  apply filter_In in Hin. destruct Hin as [Hlc Hno]. apply negb_true_iff in Hno.
  split; [exists c; split; [left; reflexivity|exact Hlc]|].
  split.
  { destruct (memz l tr) eqn:Em; [|reflexivity]. exfalso.
    assert (existsb (fun l => memz l tr) c = true) as X by (apply existsb_exists; exists l; split; assumption).
    rewrite X in Es. discriminate. }
  split; [exact Hno|].
  intros v Hv Hm. cbn [vmodels forallb] in Hm. apply andb_true_iff in Hm. destruct Hm as [Hcv _].
  unfold vsat_clause in Hcv. apply existsb_exists in Hcv. destruct Hcv as [l' [Hin' Ht']].
  destruct (memz (Z.opp l') tr) eqn:Em.
  - apply memz_In in Em. specialize (Hv _ Em). rewrite vtrue_opp in Hv.
    + rewrite Ht' in Hv. discriminate.
    + unfold clause_ok in Hc. rewrite forallb_forall in Hc. specialize (Hc l' Hin'). unfold lit_ok in Hc. lia.
  - assert (In l' (filter (fun l => negb (memz (Z.opp l) tr)) c)) as X by (apply filter_In; split; [exact Hin'|rewrite Em; reflexivity]).
    rewrite Ef in X. destruct X as [X|[]]. subst. exact Ht'.
Qed.

(* ------------------------------------------------------------------ the fuel argument *)
Definition cnt (n : nat) (tr : list lit) : nat := length (unassigned_vars n tr).

Lemma filter_length_lt : forall {A} (p q : A -> bool) (l : list A) x,
  (forall y, q y = true -> p y = true) -> In x l -> p x = true -> q x = false ->
  length (filter q l) < length (filter p l).
Proof.
  intros A p q l x Hqp. induction l as [|y l IH]; intros Hin Hp Hq; [destruct Hin|].
  assert (Hle : forall l', length (filter q l') <= length (filter p l')).
  { induction l' as [|z l' IH']; [apply le_n|]. cbn [filter]. destruct (q z) eqn:Eq.
    - rewrite (Hqp z Eq). cbn [length]. lia.
    - destruct (p z); cbn [length]; lia. }
  cbn [filter]. destruct Hin as [E|Hin].
  - subst y. rewrite Hp, Hq. cbn [length]. specialize (Hle l). lia.
  - specialize (IH Hin Hp Hq). destruct (q y) eqn:Eq.
    + rewrite (Hqp y Eq). cbn [length]. lia.
    + destruct (p y); cbn [length]; lia.
Qed.

Lemma assigned_mono : forall (l : lit) tr y, assigned tr y = true -> assigned (l :: tr) y = true.
Proof.
  intros l tr y. unfold assigned, memz. cbn [existsb]. intros H. apply orb_true_iff in H.
  destruct H as [H|H]; rewrite H; rewrite ?orb_true_r; reflexivity.
Qed.

Lemma assigned_new : forall (l : lit) tr, l <> 0%Z -> assigned (l :: tr) (lit_var l) = true.
Proof.
  intros l tr Hl. unfold assigned, memz. cbn [existsb]. destruct (lit_cases l Hl) as [[E|E] _].
  - rewrite <- E. rewrite Z.eqb_refl. reflexivity.
  - rewrite <- E. rewrite Z.eqb_refl. rewrite orb_true_r. reflexivity.
Qed.

Lemma cnt_decr : forall n (l : lit) tr, l <> 0%Z -> lit_var l <= n -> assigned tr (lit_var l) = false ->
  cnt n (l :: tr) < cnt n tr.
Proof.
  intros n l tr Hl Hn Hu. unfold cnt, unassigned_vars.
  apply (filter_length_lt _ _ _ (lit_var l)).
  - intros y Hy. cbn beta in *. apply negb_true_iff in Hy. apply negb_true_iff. destruct (assigned tr y) eqn:E; [|reflexivity].
    pose proof (assigned_mono l tr y E) as X. discriminate (eq_trans (eq_sym X) Hy).
  - apply in_seq. destruct (lit_cases l Hl) as [_ H1]. lia.
  - cbn beta. rewrite Hu. reflexivity.
  - cbn beta. rewrite (assigned_new l tr Hl). reflexivity.
Qed.

Lemma assigned_unit : forall (l : lit) tr, l <> 0%Z -> memz l tr = false -> memz (Z.opp l) tr = false -> assigned tr (lit_var l) = false.
Proof.
  intros l tr Hl H1 H2. unfold assigned. destruct (lit_cases l Hl) as [[E|E] _].
  - rewrite <- E. rewrite H1. replace (neg_lit (lit_var l)) with (- l)%Z by (rewrite E at 1; unfold pos_lit, neg_lit; lia).
    rewrite H2. reflexivity.
  - rewrite <- E. rewrite H1. replace (pos_lit (lit_var l)) with (- l)%Z by (rewrite E at 1; unfold pos_lit, neg_lit; lia).
    rewrite H2. reflexivity.
Qed.

(* ------------------------------------------------------------------ the leaf *)
Lemma value_of_lits : forall n tr x, 1 <= x <= n -> value_of (assignment_of_lits n tr) x = Some (memz (pos_lit x) tr).
Proof.
  intros n tr x Hx. unfold value_of, assignment_of_lits.
  rewrite (nth_indep _ None (Some (memz (pos_lit 0) tr))) by (rewrite map_length, seq_length; lia).
  rewrite (map_nth (fun y => Some (memz (pos_lit y) tr)) (seq 1 n) 0 (x - 1)).
  rewrite seq_nth by lia. replace (1 + (x - 1)) with x by lia. reflexivity.
Qed.

Lemma lit_agree : forall (m : assignment) (v : val) n l,
  (forall x, 1 <= x <= n -> value_of m x = Some (v x)) -> l <> 0%Z -> lit_var l <= n -> lit_true m l = vtrue v l.
Proof.
  intros m v n l H Hl Hn. unfold lit_true, vtrue. destruct (lit_cases l Hl) as [_ H1].
  rewrite (H (lit_var l)) by lia. reflexivity.
Qed.

Lemma forallb_ext_in' : forall {A} (p q : A -> bool) l, (forall x, In x l -> p x = q x) -> forallb p l = forallb q l.
Proof.
  intros A p q l. induction l as [|y l IH]; intros H; [reflexivity|]. cbn [forallb].
  rewrite (H y (or_introl eq_refl)). rewrite IH; [reflexivity|]. intros x Hx. apply H. right. exact Hx.
Qed.
Lemma existsb_ext_in' : forall {A} (p q : A -> bool) l, (forall x, In x l -> p x = q x) -> existsb p l = existsb q l.
Proof.
  intros A p q l. induction l as [|y l IH]; intros H; [reflexivity|]. cbn [existsb].
  rewrite (H y (or_introl eq_refl)). rewrite IH; [reflexivity|]. intros x Hx. apply H. right. exact Hx.
Qed.

Lemma models_agree : forall (m : assignment) (v : val) n f,
  (forall x, 1 <= x <= n -> value_of m x = Some (v x)) -> cnf_ok f = true -> cnf_max f <= n ->
  models m f = vmodels v f.
Proof.
  intros m v n f H Hok Hmax. unfold models, vmodels. apply forallb_ext_in'. intros c Hc.
  unfold sat_clause, vsat_clause. apply existsb_ext_in'. intros l Hl.
  apply (lit_agree m v n l H).
  - apply (cnf_ok_in f c l Hok Hc Hl).
  - pose proof (clause_max_in c l Hl). pose proof (cnf_max_in f c Hc). lia.
Qed.

Lemma leaf_none : forall n tr f v, unassigned_vars n tr = [] -> cnf_ok f = true -> cnf_max f <= n ->
  leaf n tr f = None -> cons_with v tr -> vmodels v f = false.
Proof.
  intros n tr f v Hu Hok Hmax Hl Hv. unfold leaf in Hl.
  destruct (models (assignment_of_lits n tr) f) eqn:Em; [discriminate|].
  rewrite <- Em. symmetry. apply (models_agree _ v n f); [|exact Hok|exact Hmax].
  intros x Hx. rewrite (value_of_lits n tr x Hx). f_equal.
  destruct (memz (pos_lit x) tr) eqn:Ep.
  - apply memz_In in Ep. specialize (Hv _ Ep). rewrite vtrue_pos in Hv by lia. symmetry. exact Hv.
  - assert (Ha : assigned tr x = true).
    { destruct (assigned tr x) eqn:Ea; [reflexivity|]. exfalso.
      assert (In x (unassigned_vars n tr)) as X.
      { unfold unassigned_vars. apply filter_In. split; [apply in_seq; lia|rewrite Ea; reflexivity]. }
      rewrite Hu in X. destruct X. }
    unfold assigned in Ha. rewrite Ep in Ha. cbn [orb] in Ha. apply memz_In in Ha. specialize (Hv _ Ha).
    rewrite vtrue_neg in Hv. apply negb_true_iff in Hv. symmetry. exact Hv.
Qed.

(* ------------------------------------------------------------------ completeness *)
Lemma dpll_none : forall k n tr f, cnf_ok f = true -> cnf_max f <= n -> cnt n tr <= k ->
  dpll k n tr f = None -> forall v, cons_with v tr -> vmodels v f = false.
Proof.
  induction k as [|k IH]; intros n tr f Hok Hmax Hcnt Hd v Hv.
  - cbn [dpll] in Hd. apply (leaf_none n tr f v); auto.
    unfold cnt in Hcnt. destruct (unassigned_vars n tr); [reflexivity|cbn [length] in Hcnt; lia].
  - cbn [dpll] in Hd. destruct (analyse tr f) as [|l|] eqn:Ea.
    + apply (analyse_conflict tr f v Hok Ea Hv).
    + destruct (analyse_unit tr f l Hok Ea) as ((c & Hc & Hl) & A & B & C).
      assert (Hl0 : l <> 0%Z) by (apply (cnf_ok_in f c l Hok Hc Hl)).
      assert (Hln : lit_var l <= n) by (pose proof (clause_max_in c l Hl); pose proof (cnf_max_in f c Hc); lia).
      destruct (vmodels v f) eqn:Em; [|reflexivity].
      rewrite <- Em. apply (IH n (l :: tr) f Hok Hmax); auto.
      * pose proof (cnt_decr n l tr Hl0 Hln (assigned_unit l tr Hl0 A B)). lia.
      * apply cons_with_cons; [apply C; assumption|exact Hv].
    + destruct (unassigned_vars n tr) as [|x r] eqn:Eu.
      * apply (leaf_none n tr f v); auto.
      * assert (Hx : In x (unassigned_vars n tr)) by (rewrite Eu; left; reflexivity).
        unfold unassigned_vars in Hx. apply filter_In in Hx. destruct Hx as [Hxs Hxa]. apply in_seq in Hxs.
        apply negb_true_iff in Hxa.
        destruct (dpll k n (pos_lit x :: tr) f) eqn:E1; [discriminate|].
        assert (Hp0 : pos_lit x <> 0%Z) by (unfold pos_lit; lia).
        assert (Hn0 : neg_lit x <> 0%Z) by (unfold neg_lit; lia).
        destruct (v x) eqn:Evx.
        -- apply (IH n (pos_lit x :: tr) f Hok Hmax); auto.
           ++ pose proof (cnt_decr n (pos_lit x) tr Hp0) as D. rewrite lit_var_pos in D. specialize (D ltac:(lia) Hxa). lia.
           ++ apply cons_with_cons; [rewrite vtrue_pos by lia; exact Evx|exact Hv].
        -- apply (IH n (neg_lit x :: tr) f Hok Hmax); auto.
           ++ pose proof (cnt_decr n (neg_lit x) tr Hn0) as D. rewrite lit_var_neg in D. specialize (D ltac:(lia) Hxa). lia.
           ++ apply cons_with_cons; [rewrite vtrue_neg, Evx; reflexivity|exact Hv].
Qed.

(* ------------------------------------------------------------------ soundness *)
Lemma dpll_some : forall k n tr f m, dpll k n tr f = Some m ->
  models m f = true /\ exists tr', m = assignment_of_lits n tr'.
Proof.
  assert (Hleaf : forall n tr f m, leaf n tr f = Some m -> models m f = true /\ exists tr', m = assignment_of_lits n tr').
  { intros n tr f m H. unfold leaf in H. destruct (models (assignment_of_lits n tr) f) eqn:E; [|discriminate].
    inversion H. subst. split; [exact E|exists tr; reflexivity]. }
  induction k as [|k IH]; intros n tr f m H.
  - apply (Hleaf n tr f m H).
  - cbn [dpll] in H. destruct (analyse tr f) as [|l|].
    + discriminate.
    + apply (IH _ _ _ _ H).
    + destruct (unassigned_vars n tr) as [|x r]; [apply (Hleaf n tr f m H)|].
      destruct (dpll k n (pos_lit x :: tr) f) eqn:E1.
      * inversion H. subst. apply (IH _ _ _ _ E1).
      * apply (IH _ _ _ _ H).
Qed.

Lemma assignment_of_lits_total : forall n tr, length (assignment_of_lits n tr) = n /\ total_upto n (assignment_of_lits n tr) = true.
Proof.
  intros n tr. unfold assignment_of_lits. split; [rewrite map_length, seq_length; reflexivity|].
  unfold total_upto. rewrite map_length, seq_length. rewrite Nat.leb_refl. cbn [andb].
  rewrite firstn_all2 by (rewrite map_length, seq_length; lia).
  apply forallb_forall. intros o Ho. apply in_map_iff in Ho. destruct Ho as [x [E _]]. subst. reflexivity.
Qed.

(* ------------------------------------------------------------------ formulas with assumptions *)
Lemma cnf_max_app : forall f g, cnf_max (f ++ g) = Nat.max (cnf_max f) (cnf_max g).
Proof. induction f as [|c f IH]; intros g; [reflexivity|]. cbn [app cnf_max fold_right]. fold (cnf_max (f ++ g)). fold (cnf_max f). rewrite IH. lia. Qed.
Lemma cnf_max_units : forall a, cnf_max (units a) = clause_max a.
Proof.
  induction a as [|l a IH]; [reflexivity|]. cbn [units map cnf_max fold_right clause_max].
  fold (units a). fold (cnf_max (units a)). fold (clause_max a). rewrite IH. lia.
Qed.
Lemma cnf_ok_app : forall f g, cnf_ok (f ++ g) = cnf_ok f && cnf_ok g.
Proof. intros. unfold cnf_ok. apply forallb_app. Qed.
Lemma cnf_ok_units : forall a, cnf_ok (units a) = clause_ok a.
Proof.
  induction a as [|l a IH]; [reflexivity|]. cbn [units map cnf_ok forallb clause_ok]. fold (units a). fold (cnf_ok (units a)).
  fold (clause_ok a). rewrite IH. rewrite andb_true_r. reflexivity.
Qed.
Lemma models_app : forall m f g, models m (f ++ g) = models m f && models m g.
Proof. intros. unfold models. apply forallb_app. Qed.
Lemma models_units : forall m a, models m (units a) = forallb (lit_true m) a.
Proof.
  induction a as [|l a IH]; [reflexivity|]. cbn [units map models forallb sat_clause existsb]. fold (units a). fold (models m (units a)).
  rewrite IH. rewrite orb_false_r. reflexivity.
Qed.
Lemma models_valid_sat : forall m f a, models m (f ++ units a) = valid_sat f a m.
Proof. intros. unfold valid_sat. rewrite models_app, models_units. reflexivity. Qed.

Lemma models_val_of : forall m f, models m f = true -> vmodels (val_of m) f = true.
Proof.
  intros m f H. unfold models in H. unfold vmodels. rewrite forallb_forall in *. intros c Hc. specialize (H c Hc).
  unfold sat_clause in H. unfold vsat_clause. apply existsb_exists in H. apply existsb_exists. destruct H as [l [Hl Ht]].
  exists l. split; [exact Hl|]. unfold lit_true in Ht. unfold vtrue, val_of.
  destruct (value_of m (lit_var l)) as [b|]; [|discriminate]. destruct (Z.ltb 0 l); destruct b; auto.
Qed.

Lemma filter_length_le' : forall {A} (p : A -> bool) l, length (filter p l) <= length l.
Proof. intros A p l. induction l as [|y l IH]; [apply le_n|]. cbn [filter]. destruct (p y); cbn [length]; lia. Qed.

Lemma cnt_nil : forall n, cnt n [] <= n.
Proof. intros n. unfold cnt, unassigned_vars. pose proof (filter_length_le' (fun x => negb (assigned [] x)) (seq 1 n)) as H. rewrite seq_length in H. exact H. Qed.

(* ------------------------------------------------------------------ the theorems *)
Theorem solve_n_sound : forall n c a m, solve_n n c a = Some m ->
  models m (c ++ units a) = true /\ length m = n /\ total_upto n m = true.
Proof.
  intros n c a m H. unfold solve_n in H. destruct (dpll_some _ _ _ _ _ H) as [Hm [tr' E]].
  split; [exact Hm|]. subst m. apply assignment_of_lits_total.
Qed.

Theorem solve_n_complete : forall n c a,
  cnf_ok (c ++ units a) = true -> cnf_max (c ++ units a) <= n -> solve_n n c a = None ->
  forall m, models m (c ++ units a) = false.
Proof.
  intros n c a Hok Hmax H m. destruct (models m (c ++ units a)) eqn:Em; [|reflexivity].
  apply models_val_of in Em. unfold solve_n in H.
  rewrite (dpll_none n n [] _ Hok Hmax (cnt_nil n) H (val_of m)) in Em; [discriminate|].
  intros l [].
Qed.

Theorem solve_sound : forall c a m, solve c a = Some m ->
  models m (c ++ units a) = true /\ total_upto (Nat.max (cnf_max c) (clause_max a)) m = true.
Proof. intros c a m H. unfold solve in H. destruct (solve_n_sound _ _ _ _ H) as (A & _ & B). split; assumption. Qed.

Theorem solve_complete : forall c a, cnf_ok c = true -> clause_ok a = true -> solve c a = None ->
  forall m, models m (c ++ units a) = false.
Proof.
  intros c a Hc Ha H. unfold solve in H. apply (solve_n_complete (Nat.max (cnf_max c) (clause_max a)) c a); [| |exact H].
  - rewrite cnf_ok_app, cnf_ok_units, Hc, Ha. reflexivity.
  - rewrite cnf_max_app, cnf_max_units. apply le_n.
Qed.
