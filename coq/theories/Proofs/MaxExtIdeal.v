(* The ideal-semantics procedures of Model/Solvers.v on one (compact) component framework:
   id_ext_for_cc returns the ideal extension, id_cred_for_cc decides membership of a listed
   argument in it.  For every valid SAT oracle and every encoder whose base family is the complete
   or the admissible sets.  Hypothesis on the grounded start ([gr_least]): the set computed by
   [grounded] on the component is THE grounded extension (least complete), duplicate-free. *)
From Crusta Require Import Spec.AF Spec.SemFacts Spec.Theory Sat.Cnf Sat.Prog.
From Crusta Require Import Model.Encoders Model.Graph Model.Solvers.
From Crusta Require Import Proofs.ProgLaws Proofs.EncSpec Proofs.EncBase Proofs.EncAll Proofs.SolverBasics.
From Crusta Require Import Proofs.SolverCc Proofs.SolverThms Proofs.MaxExtCore Proofs.MaxExtPref.
From Coq Require Import ZifyBool.
Import ListNotations.
Open Scope prog_scope.

Definition gr_least (F : af) : Prop :=
  gr F (grounded (view_of_af F)) /\ NoDup (grounded (view_of_af F)).

Lemma gr_least_start F : gr_least F -> gr_start F.
Proof. intros [[H _] Hn]. now split. Qed.

Lemma wp_conseq A (QA QP QF QA' QP' QF' : Prog.st -> Prop) (m : M A) (Q : A -> Prog.st -> Prop) s :
  (forall s', QA s' -> QA' s') -> (forall s', QP s' -> QP' s') -> (forall s', QF s' -> QF' s') ->
  wp QA QP QF m Q s -> wp QA' QP' QF' m Q s.
Proof. unfold wp. intros H1 H2 H3. destruct (m s); auto. Qed.

Lemma nth_bool_repeat_true n a : a < n -> nth_bool (repeat true n) a = true.
Proof.
  intros Ha. unfold nth_bool. apply (repeat_spec n true).
  apply nth_In. now rewrite repeat_length.
Qed.

Section Ideal.
Variable oracle : nat -> cnf -> list lit -> answer.
Variable thr : nat.
Hypothesis Hthr : 1 <= thr.
Hypothesis Hvalid : valid_oracle oracle.
Variable e : enc.
Variable F : af.
Variable n : nat.
Hypothesis HF : compact_af F n.
Hypothesis Hpe : pr_enc e.
Hypothesis Hgr : gr_least F.

Notation base := (basep (enc_base e) F).
Notation g0 := (grounded (view_of_af F)).
(* completed runs satisfy the postcondition, aborted runs carry no claim, no run panics *)
Notation wpI := (wp (fun _ => True) (fun _ => False) (fun _ => True)).

Let Hwf : wf F := compact_wf F n HF.
Let Hgrs : gr_start F := gr_least_start F Hgr.
Let Hgrnd : NoDup g0 := proj2 Hgr.
Let Hgrco : co F g0 := proj1 (proj1 Hgr).

Lemma g0_lt a : In a g0 -> a < n.
Proof. intros Ha. apply (compact_in_args F n a HF). exact (co_incl F _ Hgrco a Ha). Qed.
Lemma g0_below P : pr F P -> incl g0 P.
Proof. intros HP. exact (gr_below_pr F _ Hwf (proj1 Hgr) P HP). Qed.

(* ---------- what the enumeration leaves behind ---------- *)
Lemma in_id_single in_all a : length in_all = n ->
  (In a (id_single in_all) <-> a < n /\ nth_bool in_all a = true).
Proof. intros Hl. unfold id_single. rewrite filter_In, in_seq, Hl. intuition lia. Qed.

Definition in_all_post (r : list bool * nat * nat) : Prop :=
  let in_all := fst (fst r) in
  length in_all = n /\ pr_core_spec F (id_single in_all) /\
  snd (fst r) = length (id_single in_all) /\
  (snd r = 1 -> snd (fst r) <> length g0 ->
   exists Q, pr F Q /\ seteq (id_single in_all) Q).

Lemma enum_post_in_all found r : enum_post F n (length g0) found r -> in_all_post r.
Proof.
  destruct r as [[in_all n_in_all] n_pref]. unfold enum_post, in_all_post, enum_inv, inall_ok.
  cbn [fst snd]. intros (((Hlen & Hin) & Hnp & Hfpr & Hcnt) & Hor).
  assert (HA : forall a, In a (id_single in_all) <-> a < n /\ forall Q, In Q found -> In a Q).
  { intros a. rewrite (in_id_single in_all a Hlen). split; intros [H1 H2]; (split; [exact H1|]); now apply Hin. }
  assert (Hne : found <> []).
  { destruct Hor as [[H _]|H]; [exact H|]. destruct (pr_exists F Hwf) as [P HP].
    destruct (H P HP) as [Q [HQ _]]. intros ->. destruct HQ. }
  specialize (Hcnt Hne). split; [exact Hlen|]. split; [|split; [exact Hcnt|]].
  - (* the arguments kept are exactly those in every preferred extension *)
    destruct Hor as [[_ Hex]|Hall].
    + (* early exit: what is kept is the grounded extension *)
      assert (H1 : incl g0 (id_single in_all)).
      { intros a Ha. apply HA. split; [now apply g0_lt|]. intros Q HQ. apply (g0_below Q); [now apply Hfpr|exact Ha]. }
      assert (H2 : incl (id_single in_all) g0).
      { apply NoDup_length_incl; [exact Hgrnd| |exact H1]. rewrite <- Hcnt, Hex. apply Nat.le_refl. }
      intros a. split.
      * intros Ha. apply H2 in Ha. split; [apply (compact_in_args F n a HF); now apply g0_lt|].
        intros P HP. now apply (g0_below P).
      * intros [Ha HP]. apply HA. split; [now apply (compact_in_args F n a HF)|].
        intros Q HQ. apply HP. now apply Hfpr.
    + intros a. rewrite HA, (compact_in_args F n a HF). split; intros [H1 H2]; (split; [exact H1|]).
      * intros P HP. destruct (Hall P HP) as [Q [HQ HE]]. apply (proj2 (HE a)). now apply H2.
      * intros Q HQ. apply H2. now apply Hfpr.
  - intros H1 Hneq. destruct Hor as [[_ Hex]|Hall]; [contradiction|].
    destruct found as [|Q [|Q' found]]; cbn in Hnp; try (exfalso; lia).
    exists Q. split; [apply Hfpr; now left|].
    intros a. rewrite HA. split.
    + intros [_ H]. apply H. now left.
    + intros Ha. split.
      * apply (compact_in_args F n a HF). exact (proj1 (pr_adm F Q (Hfpr Q (or_introl eq_refl))) a Ha).
      * intros Q0 [<-|[]]. exact Ha.
Qed.

(* the session a finished computer leaves behind *)
Definition left_over (s' : Prog.st) : Prop :=
  exists C selv Bs, enc_clauses e thr false F = Some C /\ fresh_sel e n C selv /\
    cls s' = (C ++ map (bclause e n selv) Bs) ++ [[zlit selv]] /\ sess_bounded s'.

Let Hgr0 : cand e F (fun _ => true) (gr0 F).
Proof. split; [apply (co_base e F Hpe), Hgrco|intros a _; reflexivity]. Qed.

Lemma id_in_all_spec fuel (FS : Prop) (QA QF : Prog.st -> Prop)
      (Q : list bool * nat * nat -> Prog.st -> Prop) s :
  cls s = [] -> sess_bounded s -> (pr_bound e F <= fuel \/ FS) ->
  (forall s', calls s' + 1 <= calls s + pr_bound e F -> QA s') ->
  (forall s', calls s' + 1 <= calls s + pr_bound e F -> FS -> QF s') ->
  (forall r s', in_all_post r -> left_over s' -> calls s' + 1 <= calls s + pr_bound e F -> Q r s') ->
  wp QA (fun _ => False) QF (id_in_all oracle thr fuel e F (length g0)) Q s.
Proof.
  intros Hc Hsb Hfuel HQA HQF HQ. unfold id_in_all. cbv zeta. rewrite (compact_length F n HF).
  apply (wp_conseq _ (QAb (calls s) (pr_bound e F)) QPb (QFb (calls s) (pr_bound e F) FS));
    [exact HQA|intros s' []|intros s' [H1 H2]; now apply HQF|].
  apply (setup_spec thr Hthr e F n HF Hpe); [exact Hc|exact Hsb|].
  intros C selv s2 HC Hc2 Hcalls2 Hsb2 Hfs. pose proof Hfs as (Hfresh & Hselpos & Hargs).
  apply (id_enum_loop_spec oracle Hvalid e F n HF C selv
           (fun v Hv => all_sound e thr F n Hthr HF C v HC Hv)
           (fun S HS => all_complete e thr F n Hthr HF C S HC HS) Hfresh Hselpos Hargs
           (pr_base_adm e F Hpe) (pr_pr_base e F n HF Hpe) FPref (fun _ => true) (fl_ok_pref e n)
           Hgr0 Hgrnd (calls s) (pr_bound e F) FS (pr_HBnd e F n HF Hpe) eq_refl (length g0)
           fuel _ s2 {| gBs := []; gSs := []; gPs := [] |} [] (repeat true n) 0 0).
  - apply kinv_init; [exact Hc2|exact Hsb2|lia].
  - left. reflexivity.
  - cbn [kk c_state]. discriminate.
  - split; [split|split; [reflexivity|split]].
    + apply repeat_length.
    + intros a Ha. rewrite (nth_bool_repeat_true n a Ha). split; [intros _ Q0 []|reflexivity].
    + intros Q0 [].
    + intros H. now destruct H.
  - cbn [kk c_state]. unfold pot. cbn. destruct Hfuel as [H|H]; [left; lia|now right].
  - intros k' s' g' found' r Hi Hpost.
    destruct (pot_le e F n C selv Hselpos FPref (fun _ => true) (calls s) (pr_bound e F)
                (pr_HBnd e F n HF Hpe) _ _ _ _ Hi) as (_ & _ & Hcl).
    apply HQ; [exact (enum_post_in_all found' r Hpost)| |exact Hcl].
    destruct Hi as (_ & _ & Hsb' & Hc' & _).
    exists C, selv, (gBs g'). split; [exact HC|]. split; [exact Hfs|]. split.
    + now rewrite cls_add, Hc'.
    + now apply sb_add.
Qed.

(* ---------- the three ways the ideal extension is obtained ---------- *)
Section Core.
Variable in_all : list bool.
Hypothesis Hlen : length in_all = n.
Hypothesis Hcore : pr_core_spec F (id_single in_all).
Notation A := (id_single in_all).

Lemma ideal_is_grounded : length A = length g0 -> idl F g0.
Proof.
  intros Heq. apply (idl_char F A g0 Hwf Hcore).
  assert (H1 : incl g0 A).
  { intros a Ha. apply Hcore. split; [exact (co_incl F _ Hgrco a Ha)|]. intros P HP. now apply (g0_below P). }
  split; [now apply co_adm|]. split; [exact H1|].
  intros S' HS' Hi. apply (incl_tran Hi).
  apply NoDup_length_incl; [exact Hgrnd|rewrite Heq; apply Nat.le_refl|exact H1].
Qed.

Lemma ideal_is_single Q : pr F Q -> seteq A Q -> idl F A.
Proof.
  intros HQ HE. apply (idl_char F A A Hwf Hcore).
  split; [apply (adm_seteq F Q A); [now apply seteq_sym|now apply pr_adm]|].
  split; [apply incl_refl|]. intros S' _ Hi. exact Hi.
Qed.

Definition alw (a : nat) : bool := nth_bool in_all a.

Lemma maxc_ideal l : maxc e F alw l -> idl F l.
Proof.
  intros [[Hb Hal] Hmax]. destruct (idl_exists F Hwf) as [I HI].
  pose proof (proj1 (idl_char F A I Hwf Hcore) HI) as (HIa & HIA & HImax).
  assert (HlI : incl l I).
  { apply HImax; [now apply (pr_base_adm e F Hpe)|]. intros a Ha. apply (in_id_single in_all a Hlen).
    split; [|now apply Hal]. apply (compact_in_args F n a HF). exact (basep_incl _ F l Hb a Ha). }
  assert (HIl : incl I l).
  { apply Hmax; [|exact HlI]. split; [apply (co_base e F Hpe); now apply idl_co|].
    intros a Ha. apply HIA in Ha. now apply (in_id_single in_all a Hlen) in Ha. }
  apply (idl_seteq F I l); [now apply seteq_incl_both|exact HI].
Qed.

Lemma fl_ok_ideal : fl_ok e n (FIdeal (id_forbidden e in_all)) alw.
Proof.
  intros v. unfold id_forbidden. rewrite Hlen, forallb_forall. split.
  - intros H a Ha Hv. destruct (alw a) eqn:E; [reflexivity|exfalso].
    specialize (H (negate (arg_to_lit e a))). rewrite (vtrue_neg_arg e), Hv in H.
    assert (false = true); [|discriminate]. apply H. apply in_map_iff. exists a. split; [reflexivity|].
    apply filter_In. split; [apply in_seq; lia|]. unfold alw in E. now rewrite E.
  - intros H l Hl. apply in_map_iff in Hl. destruct Hl as [a [<- Ha]]. apply filter_In in Ha.
    destruct Ha as [Ha1 Ha2]. apply in_seq in Ha1. rewrite (vtrue_neg_arg e).
    destruct (v (arg_var e a)) eqn:Hv; [|reflexivity]. exfalso.
    specialize (H a ltac:(lia) Hv). unfold alw in H. rewrite H in Ha2. discriminate.
Qed.

Definition ideal_bound : nat := length (all_base (enc_base e) F) + 2.

Lemma ideal_HBnd : forall Ss Ps : list (list nat),
  (forall S, In S Ss -> base S) -> sepl Ss -> (forall P, In P Ps -> maxc e F alw P) -> sepl Ps ->
  length Ss + length Ps + 1 <= ideal_bound.
Proof.
  intros Ss Ps HSs HsS HPs HsP. unfold ideal_bound.
  pose proof (sepl_base_le (enc_base e) F Ss HSs HsS).
  assert (length Ps <= 1); [|lia].
  destruct Ps as [|P1 [|P2 Ps]]; cbn [length]; try lia. exfalso.
  destruct HsP as [Hne _]. apply (Hne P2); [now left|].
  apply (idl_unique F P1 P2 Hwf); apply maxc_ideal, HPs; [now left|right; now left].
Qed.

Lemma id_maximal_allowed_spec fuel (FS : Prop) (QA QF : Prog.st -> Prop)
      (Q : list nat -> Prog.st -> Prop) s :
  left_over s -> (ideal_bound <= fuel \/ FS) ->
  (forall s', calls s' + 1 <= calls s + ideal_bound -> QA s') ->
  (forall s', calls s' + 1 <= calls s + ideal_bound -> FS -> QF s') ->
  (forall l s', idl F l -> NoDup l -> calls s' + 1 <= calls s + ideal_bound -> Q l s') ->
  wp QA (fun _ => False) QF (id_maximal_allowed oracle fuel e F in_all) Q s.
Proof.
  intros (C & selv & Bs & HC & (Hfresh & Hselpos & Hargs) & Hcls & Hsb) Hfuel HQA HQF HQ.
  unfold id_maximal_allowed, new_cc_computer, new_computer.
  rewrite (compact_length F n HF), wp_bind, wp_bind, wp_n_vars, wp_ret.
  set (nv := session_n_vars (sess s)). set (C0 := cls s).
  assert (Hb0 : bounded C0 nv) by (now apply nvars_fresh).
  assert (Hsel_le : selv <= nv).
  { specialize (Hb0 [zlit selv] (zlit selv)). rewrite lit_var_zlit in Hb0. apply Hb0; [|now left].
    unfold C0. rewrite Hcls. apply in_or_app. right. now left. }
  assert (Hs0 : forall v : val, vmodels v C0 = true -> base (ext_of e n v)).
  { intros v Hv. unfold C0 in Hv. rewrite Hcls, !vmodels_app in Hv.
    apply andb_prop in Hv. destruct Hv as [Hv _]. apply andb_prop in Hv. destruct Hv as [Hv _].
    exact (all_sound e thr F n Hthr HF C v HC Hv). }
  assert (Hc0 : forall S, base S -> exists v : val, vmodels v C0 = true /\
                  forall a, a < n -> (v (arg_var e a) = true <-> In a S)).
  { intros S HS. destruct (all_complete e thr F n Hthr HF C S HC HS) as [v [Hv Hvs]].
    exists (upd v selv true). split.
    - unfold C0. rewrite Hcls, !vmodels_app. apply andb_true_intro. split; [apply andb_true_intro; split|].
      + rewrite (vmodels_upd v selv true C (selv - 1) Hfresh); [exact Hv|lia].
      + apply vmodels_map. intros B _. apply (bclause_sel e n selv Hselpos). apply upd_same.
      + apply vmodels_single. rewrite vsat_single, (vtrue_zlit _ _ Hselpos). apply upd_same.
    - intros a Ha. rewrite upd_other; [now apply Hvs|]. specialize (Hargs a Ha). lia. }
  assert (Hg : cand e F alw (gr0 F)).
  { split; [apply (co_base e F Hpe), Hgrco|]. intros a Ha.
    assert (In a A).
    { apply Hcore. split; [exact (co_incl F _ Hgrco a Ha)|]. intros P HP. now apply (g0_below P). }
    now apply (in_id_single in_all a Hlen) in H. }
  assert (Hsp : 0 < 1 + nv) by lia.
  apply (wp_conseq _ (QAb (calls s) ideal_bound) QPb (QFb (calls s) ideal_bound FS));
    [exact HQA|intros s' []|intros s' [H1 H2]; now apply HQF|].
  apply (compute_maximal_spec oracle Hvalid e F n HF C0 (1 + nv) Hs0 Hc0
           ltac:(replace (1 + nv - 1) with nv by lia; exact Hb0) Hsp
           ltac:(intros a Ha; specialize (Hargs a Ha); lia)
           (pr_base_adm e F Hpe) (FIdeal (id_forbidden e in_all)) alw fl_ok_ideal Hg Hgrnd
           (calls s) ideal_bound FS ideal_HBnd (fun _ => False) fuel _ (st_nvars s)
           {| gBs := []; gSs := []; gPs := [] |}).
  - apply kinv_init; [reflexivity|now apply sb_nvars|cbn; lia].
  - left. reflexivity.
  - cbn [kk c_state]. unfold pot. cbn. destruct Hfuel as [H|H]; [left; lia|now right].
  - intros k' s' g' Hi Est. destruct (kinv_max _ _ _ _ _ _ _ _ _ _ _ _ Hi Est) as [Hmax Hnd].
    destruct (pot_le e F n C0 (1 + nv) Hsp (FIdeal (id_forbidden e in_all)) alw (calls s) ideal_bound
                ideal_HBnd _ _ _ _ Hi) as (_ & _ & Hcl).
    apply HQ; [now apply maxc_ideal|exact Hnd|exact Hcl].
Qed.

End Core.

(* ---------- T4: the ideal extension of the component ---------- *)
(* = 2 |base| + |PR| + 2, the bound of C18 for the ideal semantics *)
Definition id_bound : nat := pr_bound e F + length (all_base (enc_base e) F) + 1.

Lemma id_single_NoDup in_all : NoDup (id_single in_all).
Proof. unfold id_single. apply NoDup_filter, seq_NoDup. Qed.

(* completed runs return the ideal extension; no run panics; every run makes fewer than [id_bound]
   SAT calls; fuel runs out only when fewer than [id_bound] units were given *)
Theorem id_ext_for_cc_full fuel s :
  outcome_ok (id_ext_for_cc oracle thr fuel e F s) (calls s) id_bound fuel
             (fun l => idl F l /\ NoDup l).
Proof.
  apply wp_outcome. unfold id_ext_for_cc. cbv zeta. rewrite wp_bind, wp_new_solver, wp_bind.
  change (calls s) with (calls (st_new s)).
  apply (id_in_all_spec fuel (fuel < id_bound)); [apply cls_new|apply sb_new|unfold id_bound, pr_bound in *; lia| | |].
  - intros s' H. unfold QAb, id_bound, pr_bound in *. lia.
  - intros s' H HFS. unfold QFb, id_bound, pr_bound in *. split; [lia|exact HFS].
  - intros [[in_all n_in_all] n_pref] s' (Hlen & Hcore & Hcnt & Hone) Hleft Hcl. cbn [fst snd] in *.
    destruct (Nat.eqb n_in_all (length g0)) eqn:E1.
    + apply Nat.eqb_eq in E1. rewrite wp_ret. split; [|unfold id_bound, pr_bound in *; lia].
      split; [|exact Hgrnd]. apply (ideal_is_grounded in_all Hcore). congruence.
    + apply Nat.eqb_neq in E1. destruct (Nat.eqb n_pref 1) eqn:E2.
      * apply Nat.eqb_eq in E2. rewrite wp_ret. destruct (Hone E2 E1) as [Q [HQ HE]].
        split; [|unfold id_bound, pr_bound in *; lia]. split; [|apply id_single_NoDup].
        exact (ideal_is_single in_all Hcore Q HQ HE).
      * apply (id_maximal_allowed_spec in_all Hlen Hcore fuel (fuel < id_bound)); [exact Hleft| | | |].
        -- unfold id_bound, ideal_bound, pr_bound. lia.
        -- intros s2 H. unfold QAb, id_bound, ideal_bound, pr_bound in *. lia.
        -- intros s2 H HFS. unfold QFb, id_bound, ideal_bound, pr_bound in *. split; [lia|exact HFS].
        -- intros l s2 Hl Hnd Hc2. split; [now split|]. unfold id_bound, ideal_bound, pr_bound in *. lia.
Qed.

Corollary id_ext_for_cc_correct fuel :
  on_done (id_ext_for_cc oracle thr fuel e F) (fun l => idl F l).
Proof.
  intros s. pose proof (outcome_done _ _ _ _ _ _ (id_ext_for_cc_full fuel s)) as H.
  destruct (id_ext_for_cc oracle thr fuel e F s); tauto.
Qed.

(* credulous acceptance under the ideal semantics: the status is membership of a listed argument
   in the ideal extension, the certificate is the ideal extension *)
Definition id_cred_answer (la : list nat) (r : bool * option (list nat)) : Prop :=
  (fst r = true <-> cred ID F la) /\
  match r with
  | (true, Some ext) => idl F ext /\ NoDup ext /\ meets la ext = true
  | (false, None) => True
  | _ => False
  end.

Lemma id_result_answer la I :
  idl F I -> NoDup I -> id_cred_answer la (if meets la I then (true, Some I) else (false, None)).
Proof.
  intros HI Hnd. unfold id_cred_answer. destruct (meets la I) eqn:Hm; cbn [fst]; (split; [split|]); auto.
  - intros _. exists I. split; [exact HI|]. now apply meets_spec.
  - discriminate.
  - intros [S [HS [a [Ha HaS]]]]. exfalso.
    apply (proj1 (meets_false la I) Hm a Ha). apply (proj1 (idl_unique F S I Hwf HS HI a)). exact HaS.
Qed.

Theorem id_cred_for_cc_full fuel la s :
  outcome_ok (id_cred_for_cc oracle thr fuel e F la s) (calls s) id_bound fuel (id_cred_answer la).
Proof.
  apply wp_outcome. unfold id_cred_for_cc. cbv zeta. rewrite wp_bind, wp_new_solver, wp_bind.
  change (calls s) with (calls (st_new s)).
  apply (id_in_all_spec fuel (fuel < id_bound)); [apply cls_new|apply sb_new|unfold id_bound, pr_bound in *; lia| | |].
  - intros s' H. unfold QAb, id_bound, pr_bound in *. lia.
  - intros s' H HFS. unfold QFb, id_bound, pr_bound in *. split; [lia|exact HFS].
  - intros [[in_all n_in_all] n_pref] s' (Hlen & Hcore & Hcnt & Hone) Hleft Hcl. cbn [fst snd] in *.
    destruct (forallb (fun a => negb (nth_bool in_all a)) la) eqn:Enone.
    + (* no listed argument is in every preferred extension *)
      rewrite wp_ret. split; [|unfold id_bound, pr_bound in *; lia].
      unfold id_cred_answer. cbn [fst]. split; [|exact I]. split; [discriminate|].
      intros [S [HS [a [Ha HaS]]]]. exfalso.
      pose proof (proj1 (idl_char F _ S Hwf Hcore) HS) as (_ & HSA & _).
      apply HSA in HaS. apply (in_id_single in_all a Hlen) in HaS. destruct HaS as [_ Ht].
      rewrite forallb_forall in Enone. specialize (Enone a Ha). rewrite Ht in Enone. discriminate.
    + destruct (Nat.eqb n_in_all (length g0)) eqn:E1.
      * apply Nat.eqb_eq in E1. rewrite wp_ret. split; [|unfold id_bound, pr_bound in *; lia].
        apply id_result_answer; [|exact Hgrnd]. apply (ideal_is_grounded in_all Hcore). congruence.
      * apply Nat.eqb_neq in E1. destruct (Nat.eqb n_pref 1) eqn:E2.
        -- apply Nat.eqb_eq in E2. rewrite wp_ret. destruct (Hone E2 E1) as [Q [HQ HE]].
           split; [|unfold id_bound, pr_bound in *; lia].
           apply id_result_answer; [|apply id_single_NoDup]. exact (ideal_is_single in_all Hcore Q HQ HE).
        -- rewrite wp_bind.
           apply (id_maximal_allowed_spec in_all Hlen Hcore fuel (fuel < id_bound)); [exact Hleft| | | |].
           ++ unfold id_bound, ideal_bound, pr_bound. lia.
           ++ intros s2 H. unfold QAb, id_bound, ideal_bound, pr_bound in *. lia.
           ++ intros s2 H HFS. unfold QFb, id_bound, ideal_bound, pr_bound in *. split; [lia|exact HFS].
           ++ intros l s2 Hl Hnd Hc2. rewrite wp_ret. split; [now apply id_result_answer|].
              unfold id_bound, ideal_bound, pr_bound in *. lia.
Qed.

Corollary id_cred_for_cc_correct fuel la :
  on_done (id_cred_for_cc oracle thr fuel e F la) (id_cred_answer la).
Proof.
  intros s. pose proof (outcome_done _ _ _ _ _ _ (id_cred_for_cc_full fuel la s)) as H.
  destruct (id_cred_for_cc oracle thr fuel e F la s); tauto.
Qed.

(* C18 for the ideal semantics, one component: SAT calls and sufficient fuel *)
Corollary id_ext_for_cc_calls fuel s :
  calls (final_st (id_ext_for_cc oracle thr fuel e F s)) + 1 <= calls s + id_bound.
Proof. exact (outcome_calls _ _ _ _ _ _ (id_ext_for_cc_full fuel s)). Qed.
Corollary id_ext_for_cc_fuel fuel s : id_bound <= fuel ->
  match id_ext_for_cc oracle thr fuel e F s with OutOfFuel _ | Panic _ => False | _ => True end.
Proof.
  intros Hf. pose proof (id_ext_for_cc_full fuel s) as H.
  destruct (id_ext_for_cc oracle thr fuel e F s); cbn in H; try tauto. lia.
Qed.
Corollary id_cred_for_cc_calls fuel la s :
  calls (final_st (id_cred_for_cc oracle thr fuel e F la s)) + 1 <= calls s + id_bound.
Proof. exact (outcome_calls _ _ _ _ _ _ (id_cred_for_cc_full fuel la s)). Qed.
Corollary id_cred_for_cc_fuel fuel la s : id_bound <= fuel ->
  match id_cred_for_cc oracle thr fuel e F la s with OutOfFuel _ | Panic _ => False | _ => True end.
Proof.
  intros Hf. pose proof (id_cred_for_cc_full fuel la s) as H.
  destruct (id_cred_for_cc oracle thr fuel e F la s); cbn in H; try tauto. lia.
Qed.

End Ideal.

(* the hypotheses are satisfiable *)
Example ex_id_hyps :
  let F := compact 4 [(0,1);(1,2);(2,1);(2,3)] in
  compact_af F 4 /\ pr_enc AuxCo /\ gr_least F.
Proof.
  cbv zeta. split; [|split].
  - split; [reflexivity|]. intros a b H. cbn in H.
    repeat (destruct H as [H|H]; [injection H as <- <-; lia|]). destruct H.
  - left. reflexivity.
  - split; [apply grb_gr; vm_compute; reflexivity|vm_compute; repeat constructor; cbn; intuition lia].
Qed.

Print Assumptions id_ext_for_cc_full.
Print Assumptions id_cred_for_cc_full.
Print Assumptions id_ext_for_cc_correct.
Print Assumptions id_cred_for_cc_correct.
Print Assumptions id_ext_for_cc_calls.
Print Assumptions id_ext_for_cc_fuel.
Print Assumptions id_cred_for_cc_calls.
Print Assumptions id_cred_for_cc_fuel.
