(* The LABEL ROUTE of the solvers, as executable functions over Model/Store.v.  Definitions only
   (the proofs are in Proofs/LabelRoute.v).

   The solver model (Model/Solvers.v, Model/Graph.v) handles a connected component as
   [comp] = { c_ids : the original ids in component order; c_af : compact framework over 0..k-1 }
   and translates by POSITION: [cc_local c a = index_of (c_ids c) a], [cc_global c i = nth i (c_ids c) 0].
   The Rust code goes through LABELS instead:
     - /repo/src/utils/connected_components_computer.rs, extract_connected_component:
         let mut arg_mapping = vec![None; 1 + self.init_af.max_argument_id().unwrap()];
         connected_component.iter().enumerate().for_each(|(i, a)| arg_mapping[a.id()] = Some(i));
         let labels = connected_component.iter().map(|a| a.label().clone()).collect::<Vec<T>>();
         let arguments = ArgumentSet::new_with_labels(&labels);
         let mut new_af = AAFramework::new_with_argument_set(arguments);
         self.init_af.iter_attacks().for_each(|att| {
             if let Some(new_i) = arg_mapping[att.attacker().id()] {
                 let new_j = arg_mapping[att.attacked().id()].unwrap();
                 new_af.new_attack_by_ids(new_i, new_j).unwrap();
             }
         });
     - /repo/src/solvers/*.rs (e.g. preferred_semantics_solver.rs):
         cc_af.argument_set().get_argument(a.label()).unwrap()            (global -> local)
         self.af.argument_set().get_argument(cc_arg.label()).unwrap()     (local -> global)
   Every function below returns an [option]; [None] is a Rust panic (an [unwrap] on [None] / [Err],
   or an index out of bounds), never a default value. *)
From Crusta Require Import Model.Store Model.Graph.
From Coq Require Import List Arith Bool.
Import ListNotations.

Section LabelRouteDefs.
Variable L : Type.
Variable leqb : L -> L -> bool.

(* ArgumentSet::get_argument_by_id without its unwrap: the (id, label) cell of slot [id] *)
Definition arg_of (f : fw L) (id : nat) : option (nat * L) := nth id (slots (ls f)) None.

(* [a.label()] for the argument of [f] with id [a] ([None]: no such live argument) *)
Definition label_of (f : fw L) (a : nat) : option L := option_map snd (arg_of f a).

(* sequencing a list of partial results: [None] as soon as one element is [None] *)
Fixpoint all_some {A} (l : list (option A)) : option (list A) :=
  match l with
  | [] => Some []
  | None :: _ => None
  | Some x :: r => match all_some r with Some r' => Some (x :: r') | None => None end
  end.

(* the labels of a list of ids, in order *)
Definition labels_of (f : fw L) (ids : list nat) : option (list L) :=
  all_some (map (label_of f) ids).

(* ArgumentSet::get_argument: LabelSet::get_label =
     label_to_id.get(label).and_then(|i| self.labels[*i].as_ref())
   the result is the (id, label) cell of the store, not just the id *)
Definition get_argument_ref (f : fw L) (l : L) : option (nat * L) :=
  match get_argument L leqb f l with
  | Some i => arg_of f i
  | None => None
  end.

(* ---------------- extract_connected_component, literally ---------------- *)
(* arg_mapping[a] = Some(i), with the bounds check of the Rust indexing *)
Definition tbl_set (acc : option (list (option nat))) (ia : nat * nat) : option (list (option nat)) :=
  match acc with
  | None => None
  | Some tbl => if Nat.ltb (snd ia) (length tbl) then Some (set_nth (snd ia) (Some (fst ia)) tbl) else None
  end.
Definition arg_mapping (f : fw L) (ids : list nat) : option (list (option nat)) :=
  match max_argument_id L f with
  | None => None                                     (* max_argument_id().unwrap() *)
  | Some m => fold_left tbl_set (combine (seq 0 (length ids)) ids) (Some (repeat None (S m)))
  end.

(* one attack of the initial framework *)
Definition cs_step (tbl : list (option nat)) (acc : option (fw L)) (p : nat * nat) : option (fw L) :=
  match acc with
  | None => None
  | Some cf =>
      match nth_error tbl (fst p) with
      | None => None                                 (* index out of bounds *)
      | Some None => Some cf                         (* attacker outside the component: skipped *)
      | Some (Some i) =>
          match nth_error tbl (snd p) with
          | Some (Some j) =>
              match new_attack_by_ids L cf i j with
              | (cf', ROk) => Some cf'
              | _ => None                            (* new_attack_by_ids(..).unwrap() *)
              end
          | _ => None                                (* arg_mapping[attacked].unwrap() / bounds *)
          end
      end
  end.

Definition comp_store (f : fw L) (ids : list nat) : option (fw L) :=
  match arg_mapping f ids with
  | None => None
  | Some tbl =>
      match labels_of f ids with
      | None => None
      | Some labels =>
          fold_left (cs_step tbl) (iter_attacks L f) (Some (fw_new_with_labels L leqb labels))
      end
  end.

(* ---------------- the two translations of the solvers ---------------- *)
(* cc_af.argument_set().get_argument(a.label()): the id inside the component store *)
Definition to_local_lab (f cf : fw L) (a : nat) : option nat :=
  match label_of f a with
  | Some l => get_argument L leqb cf l
  | None => None
  end.

(* self.af.argument_set().get_argument(cc_arg.label()): the argument (id, label) of f *)
Definition to_global_lab (f cf : fw L) (i : nat) : option (nat * L) :=
  match label_of cf i with
  | Some l => get_argument_ref f l
  | None => None
  end.

(* a whole list of arguments, as in  args.iter().map(|a| ...unwrap()).collect()  *)
Definition locals_lab (f cf : fw L) (al : list nat) : option (list nat) :=
  all_some (map (to_local_lab f cf) al).
Definition lift_lab (f cf : fw L) (la : list nat) : option (list (nat * L)) :=
  all_some (map (to_global_lab f cf) la).

(* the arguments of f with the given ids (what an id-based answer denotes for the caller) *)
Definition with_labels (f : fw L) (l : list nat) : option (list (nat * L)) :=
  all_some (map (arg_of f) l).

(* gluing one local list per component store through the label route:
     for cc_arg in <extension of the component> { merged.push(self.af...get_argument(cc_arg.label()).unwrap()) } *)
Fixpoint glue_lab (f : fw L) (cfs : list (fw L)) (Ls : list (list nat)) : option (list (nat * L)) :=
  match cfs, Ls with
  | cf :: r, La :: Ls' =>
      match lift_lab f cf La, glue_lab f r Ls' with
      | Some x, Some y => Some (x ++ y)
      | _, _ => None
      end
  | _, _ => Some []
  end.

(* the component stores of a list of components *)
Definition comp_stores (f : fw L) (ccs : list comp) : option (list (fw L)) :=
  all_some (map (fun c => comp_store f (c_ids c)) ccs).

End LabelRouteDefs.
