(* Correctness of the clauses of the assumptions-on-attacks encoder (the C10 analogue for
   src/dynamics/assumptions_on_attacks/dynamic_constraints_encoder_attacks.rs).
   Part A (slots): for n argument slots and ANY attack relation R between slots, the clause set
     att_st_cnf n / att_co_cnf n (DynAttDefs: what update_encoding_for_{stable,complete}_semantics
     emits, a function of n only) under assumptions that fix every attack variable (a,b) to R a b
     has exactly the stable / complete labellings of the slot graph as models restricted to the slot
     (and disjunction) variables: soundness for every valuation, completeness by an explicit model
     (auxiliary variables = the conjunctions they name).
   Part B (frameworks): slots are handed to the live arguments of a framework by an injective map av;
     the other slots (dummy, or given up by a removed argument) attack nobody and are attacked by
     nobody, hence are forced IN and neutral: models restricted to the live argument variables are
     exactly the stable / complete extensions of the framework.
   Part C: the assumption vector computed by att_assumptions says exactly "attack variable (a,b) is
     true iff the argument of slot b attacks the argument of slot a". *)
From Crusta Require Import Model.Dynamic Proofs.EncBase Proofs.DynAttDefs.
From Coq Require Import Lia ZifyBool.

(* ---------------------------------------------------------------- variables *)
Definition att_v (n a b : nat) : nat := 1 + n + n * (a - 1) + b - 1.
Definition disj_v (n v : nat) : nat := v + n * (1 + n).
Lemma att_lit_v n a b : att_lit n a b = zlit (att_v n a b).
Proof. reflexivity. Qed.
Lemma disj_of_v n v : disj_of n v = zlit (disj_v n v).
Proof. reflexivity. Qed.
Lemma vtrue_negate_zlit m v : vtrue m (negate (zlit v)) = negb (m v).
Proof. apply vtrue_znlit. Qed.

Lemma vmodels_flat_map {A} m (f : A -> cnf) (l : list A) :
  vmodels m (flat_map f l) = true <-> forall x, In x l -> vmodels m (f x) = true.
Proof.
  induction l as [|x r IH]; cbn [flat_map].
  - split; [intros _ x []|reflexivity].
  - rewrite vmodels_app_iff, IH. split.
    + intros [H1 H2] y [<-|Hy]; auto.
    + intros H. split; [apply H; left; reflexivity|intros y Hy; apply H; right; exact Hy].
Qed.

Lemma in_seq1 n b : In b (seq 1 n) <-> 1 <= b <= n.
Proof. rewrite in_seq. lia. Qed.

(* the four clauses of one (slot, attacker slot) iteration *)
Lemma st_cell_spec m n base a b :
  0 < b -> 0 < att_aux base n a b ->
  (vmodels m (st_cell n base a b) = true <->
   m (att_aux base n a b) = (m b && m (att_v n a b)) /\
   (m (att_v n a b) = true -> m a = true -> m b = true -> False)).
Proof.
  intros Hb Hx. assert (Hv : 0 < att_v n a b) by (unfold att_v; lia).
  unfold st_cell. cbv zeta. rewrite att_lit_v.
  rewrite !vmodels_cons, vmodels_nil, !vsat_cons, !vsat_nil, !vtrue_negate_zlit, !vtrue_znlit.
  rewrite !vtrue_zlit by assumption.
  destruct (m (att_aux base n a b)), (m b), (m (att_v n a b)), (m a); cbn; intuition congruence.
Qed.
Lemma co_cell1_spec m n base a b :
  0 < b -> 0 < att_aux base n a b ->
  (vmodels m (co_cell1 n base a b) = true <->
   m (att_aux base n a b) = (negb (m (disj_v n b)) && m (att_v n a b)) /\
   (m (att_v n a b) = true -> m a = true -> m (disj_v n b) = true)).
Proof.
  intros Hb Hx. assert (Hv : 0 < att_v n a b) by (unfold att_v; lia).
  assert (Hd : 0 < disj_v n b) by (unfold disj_v; lia).
  unfold co_cell1. cbv zeta. rewrite att_lit_v, disj_of_v.
  rewrite !vmodels_cons, vmodels_nil, !vsat_cons, !vsat_nil, !vtrue_negate_zlit, !vtrue_znlit.
  rewrite !vtrue_zlit by assumption.
  destruct (m (att_aux base n a b)), (m (disj_v n b)), (m (att_v n a b)), (m a); cbn; intuition congruence.
Qed.
Lemma co_cell2_spec m n base a b :
  0 < a -> 0 < b -> 0 < att_aux base n a b ->
  (vmodels m (co_cell2 n base a b) = true <->
   m (att_aux base n a b) = (m b && m (att_v n a b)) /\
   (m (att_v n a b) = true -> m b = true -> m (disj_v n a) = true)).
Proof.
  intros Ha Hb Hx. assert (Hv : 0 < att_v n a b) by (unfold att_v; lia).
  assert (Hd : 0 < disj_v n a) by (unfold disj_v; lia).
  unfold co_cell2. cbv zeta. rewrite att_lit_v, disj_of_v.
  rewrite !vmodels_cons, vmodels_nil, !vsat_cons, !vsat_nil, !vtrue_negate_zlit.
  rewrite !vtrue_zlit by assumption.
  destruct (m (att_aux base n a b)), (m b), (m (att_v n a b)), (m (disj_v n a)); cbn; intuition congruence.
Qed.

Lemma att_aux_pos base n a b : 0 < b -> 0 < att_aux base n a b.
Proof. unfold att_aux. set (x := (a - 1) * n). lia. Qed.

Lemma vsat_map_zlit_in m (f : nat -> nat) bs :
  (forall b, In b bs -> 0 < f b) ->
  vsat_clause m (map (fun b => zlit (f b)) bs) = existsb (fun b => m (f b)) bs.
Proof.
  induction bs as [|b r IH]; intros H; cbn [map existsb]; [apply vsat_nil|].
  rewrite vsat_cons, vtrue_zlit by (apply H; left; reflexivity).
  rewrite IH; [reflexivity|]. intros x Hx. apply H. right; exact Hx.
Qed.

(* a row: the cells, then  head \/ aux(a,1) \/ ... \/ aux(a,n) *)
Lemma row_tail_spec m (hd : lit) n base a :
  vsat_clause m (hd :: map (fun b => zlit (att_aux base n a b)) (seq 1 n)) = true <->
  vtrue m hd = true \/ exists b, 1 <= b <= n /\ m (att_aux base n a b) = true.
Proof.
  rewrite vsat_cons, orb_true_iff.
  rewrite (vsat_map_zlit_in m (fun b => att_aux base n a b))
    by (intros b Hb; apply att_aux_pos; apply in_seq1 in Hb; lia).
  rewrite existsb_exists. split; (intros [H|(b & Hb & Hm)]; [left; exact H|right; exists b]).
  - split; [apply in_seq1; exact Hb|exact Hm].
  - split; [apply in_seq1; exact Hb|exact Hm].
Qed.

(* ================================================================ Part A: slots *)
Section Slots.
Variable n : nat.
Variable R : nat -> nat -> bool.      (* R a b: slot b attacks slot a *)

(* the assumptions fix every attack variable *)
Definition assumed (m : val) : Prop :=
  forall a b, 1 <= a <= n -> 1 <= b <= n -> m (att_v n a b) = R a b.

(* position of the pair (a, b) in the row-major enumeration of the n*n pairs *)
Definition pidx (a b : nat) : nat := n * (a - 1) + (b - 1).
Lemma pidx_lt a b : 1 <= a <= n -> 1 <= b <= n -> pidx a b < n * n.
Proof.
  intros Ha Hb. unfold pidx.
  assert (n * (a - 1) <= n * (n - 1)) by (apply Nat.mul_le_mono_l; lia).
  assert (n * (n - 1) + n = n * n) by (destruct n; [lia|]; cbn [Nat.sub]; rewrite Nat.sub_0_r; lia).
  lia.
Qed.
Lemma att_v_pidx a b : 1 <= b -> att_v n a b = n + 1 + pidx a b.
Proof. intros Hb. unfold att_v, pidx. set (x := n * (a - 1)). lia. Qed.
Lemma att_aux_pidx base a b : 1 <= b -> att_aux base n a b = base + 1 + pidx a b.
Proof. intros Hb. unfold att_aux, pidx. rewrite (Nat.mul_comm (a - 1) n). set (x := n * (a - 1)). lia. Qed.

Definition dec_a (i : nat) : nat := S (i / n).
Definition dec_b (i : nat) : nat := S (i mod n).
Lemma dec_pidx a b : 1 <= a -> 1 <= b <= n -> dec_a (pidx a b) = a /\ dec_b (pidx a b) = b.
Proof.
  intros Ha Hb. unfold dec_a, dec_b, pidx.
  assert (Hq : a - 1 = (n * (a - 1) + (b - 1)) / n) by (apply (Nat.div_unique _ _ _ (b - 1)); [lia|reflexivity]).
  assert (Hr : b - 1 = (n * (a - 1) + (b - 1)) mod n) by (apply (Nat.mod_unique _ _ (a - 1)); [lia|reflexivity]).
  rewrite <- Hq, <- Hr. lia.
Qed.

(* ---------------------------------------------------------------- stable *)
Definition st_slots (sv : nat -> bool) : Prop :=
  forall a, 1 <= a <= n ->
    (forall b, 1 <= b <= n -> R a b = true -> sv a = true -> sv b = true -> False) /\
    (sv a = true \/ exists b, 1 <= b <= n /\ R a b = true /\ sv b = true).

Lemma st_row_spec m base a : 1 <= a <= n ->
  (vmodels m (st_row n base a) = true <->
   (forall b, 1 <= b <= n ->
      m (att_aux base n a b) = (m b && m (att_v n a b)) /\
      (m (att_v n a b) = true -> m a = true -> m b = true -> False)) /\
   (m a = true \/ exists b, 1 <= b <= n /\ m (att_aux base n a b) = true)).
Proof.
  intros Ha. unfold st_row.
  rewrite vmodels_app_iff, vmodels_flat_map, vmodels_single, row_tail_spec, vtrue_zlit by lia.
  split; intros [H1 H2]; (split; [|exact H2]).
  - intros b Hb. apply st_cell_spec; [lia|apply att_aux_pos; lia|]. apply H1. apply in_seq1. exact Hb.
  - intros b Hb. apply in_seq1 in Hb. apply st_cell_spec; [lia|apply att_aux_pos; lia|]. apply H1; exact Hb.
Qed.

Theorem st_slots_sound m : vmodels m (att_st_cnf n) = true -> assumed m -> st_slots m.
Proof.
  intros Hm Has a Ha. unfold att_st_cnf in Hm. rewrite vmodels_flat_map in Hm.
  specialize (Hm a (proj2 (in_seq1 n a) Ha)). apply (st_row_spec m _ a Ha) in Hm. destruct Hm as [H1 H2]. split.
  - intros b Hb HR Hsa Hsb. destruct (H1 b Hb) as [_ H]. apply H; auto. rewrite Has; auto.
  - destruct H2 as [H|(b & Hb & Hx)]; [left; exact H|right]. exists b. destruct (H1 b Hb) as [E _].
    rewrite Hx in E. symmetry in E. apply andb_true_iff in E. destruct E as [E1 E2]. rewrite Has in E2; auto.
Qed.

(* the canonical model of a slot labelling: attack variables by R, auxiliary variables by the
   conjunction they name *)
Definition st_model (sv : nat -> bool) (v : nat) : bool :=
  if Nat.leb v n then sv v
  else if Nat.leb v (n + n * n) then R (dec_a (v - n - 1)) (dec_b (v - n - 1))
  else let i := v - n * (1 + n) - 1 in sv (dec_b i) && R (dec_a i) (dec_b i).

Lemma st_model_slot sv a : a <= n -> st_model sv a = sv a.
Proof. intros H. unfold st_model. apply Nat.leb_le in H. rewrite H. reflexivity. Qed.
Lemma st_model_att sv a b : 1 <= a <= n -> 1 <= b <= n -> st_model sv (att_v n a b) = R a b.
Proof.
  intros Ha Hb. unfold st_model. rewrite att_v_pidx by lia. pose proof (pidx_lt a b Ha Hb) as Hl.
  replace (Nat.leb (n + 1 + pidx a b) n) with false by (symmetry; apply Nat.leb_gt; lia).
  replace (Nat.leb (n + 1 + pidx a b) (n + n * n)) with true by (symmetry; apply Nat.leb_le; lia).
  replace (n + 1 + pidx a b - n - 1) with (pidx a b) by lia.
  destruct (dec_pidx a b) as [-> ->]; [lia|lia|reflexivity].
Qed.
Lemma st_model_aux sv a b : 1 <= a <= n -> 1 <= b <= n ->
  st_model sv (att_aux (n * (1 + n)) n a b) = sv b && R a b.
Proof.
  intros Ha Hb. unfold st_model. rewrite att_aux_pidx by lia.
  replace (Nat.leb (n * (1 + n) + 1 + pidx a b) n) with false by (symmetry; apply Nat.leb_gt; lia).
  replace (Nat.leb (n * (1 + n) + 1 + pidx a b) (n + n * n)) with false by (symmetry; apply Nat.leb_gt; lia).
  cbv zeta. replace (n * (1 + n) + 1 + pidx a b - n * (1 + n) - 1) with (pidx a b) by lia.
  destruct (dec_pidx a b) as [-> ->]; [lia|lia|reflexivity].
Qed.

Theorem st_slots_complete sv : st_slots sv ->
  vmodels (st_model sv) (att_st_cnf n) = true /\ assumed (st_model sv) /\
  forall a, a <= n -> st_model sv a = sv a.
Proof.
  intros Hs. split; [|split].
  - unfold att_st_cnf. apply vmodels_flat_map. intros a Ha. apply in_seq1 in Ha.
    apply (st_row_spec _ _ a Ha). destruct (Hs a Ha) as [H1 H2]. split.
    + intros b Hb. rewrite st_model_aux, st_model_att, !st_model_slot by lia. split; [reflexivity|].
      intros HR Hsa Hsb. exact (H1 b Hb HR Hsa Hsb).
    + rewrite st_model_slot by lia. destruct H2 as [H|(b & Hb & HR & Hsb)]; [left; exact H|right].
      exists b. split; [exact Hb|]. rewrite st_model_aux by lia. rewrite Hsb, HR. reflexivity.
  - intros a b Ha Hb. apply st_model_att; assumption.
  - intros a Ha. apply st_model_slot. exact Ha.
Qed.

(* ---------------------------------------------------------------- complete *)
(* "slot a is attacked by a slot that is in" *)
Definition dv (sv : nat -> bool) (a : nat) : bool := existsb (fun c => R a c && sv c) (seq 1 n).
Lemma dv_spec sv a : dv sv a = true <-> exists c, 1 <= c <= n /\ R a c = true /\ sv c = true.
Proof.
  unfold dv. rewrite existsb_exists. split.
  - intros (c & Hc & H). apply andb_true_iff in H. exists c. split; [apply in_seq1; exact Hc|exact H].
  - intros (c & Hc & H1 & H2). exists c. split; [apply in_seq1; exact Hc|]. rewrite H1, H2. reflexivity.
Qed.

Definition co_slots (sv : nat -> bool) : Prop :=
  forall a, 1 <= a <= n ->
    (sv a = true -> dv sv a = true -> False) /\
    (forall b, 1 <= b <= n -> R a b = true -> sv a = true -> dv sv b = true) /\
    (sv a = true \/ exists b, 1 <= b <= n /\ R a b = true /\ dv sv b = false).

Lemma co_row1_spec m base a : 1 <= a <= n ->
  (vmodels m (co_row1 n base a) = true <->
   (m a = true -> m (disj_v n a) = true -> False) /\
   (forall b, 1 <= b <= n ->
      m (att_aux base n a b) = (negb (m (disj_v n b)) && m (att_v n a b)) /\
      (m (att_v n a b) = true -> m a = true -> m (disj_v n b) = true)) /\
   (m a = true \/ exists b, 1 <= b <= n /\ m (att_aux base n a b) = true)).
Proof.
  intros Ha. unfold co_row1.
  rewrite vmodels_cons_iff, vmodels_app_iff, vmodels_flat_map, vmodels_single, row_tail_spec, vtrue_zlit by lia.
  rewrite disj_of_v, vsat_binary, vtrue_znlit, vtrue_negate_zlit.
  split; intros (H0 & H1 & H2); (split; [|split; [|exact H2]]).
  - intros Hx Hd. rewrite Hx, Hd in H0. discriminate H0.
  - intros b Hb. apply co_cell1_spec; [lia|apply att_aux_pos; lia|]. apply H1. apply in_seq1. exact Hb.
  - destruct (m a); [|reflexivity]. destruct (m (disj_v n a)); [|reflexivity]. exfalso. auto.
  - intros b Hb. apply in_seq1 in Hb. apply co_cell1_spec; [lia|apply att_aux_pos; lia|]. apply H1; exact Hb.
Qed.
Lemma co_row2_spec m base a : 1 <= a <= n ->
  (vmodels m (co_row2 n base a) = true <->
   (forall b, 1 <= b <= n ->
      m (att_aux base n a b) = (m b && m (att_v n a b)) /\
      (m (att_v n a b) = true -> m b = true -> m (disj_v n a) = true)) /\
   (m (disj_v n a) = false \/ exists b, 1 <= b <= n /\ m (att_aux base n a b) = true)).
Proof.
  intros Ha. unfold co_row2.
  rewrite vmodels_app_iff, vmodels_flat_map, vmodels_single, row_tail_spec, disj_of_v, vtrue_negate_zlit.
  rewrite negb_true_iff.
  split; intros [H1 H2]; (split; [|exact H2]).
  - intros b Hb. apply co_cell2_spec; [lia|lia|apply att_aux_pos; lia|]. apply H1. apply in_seq1. exact Hb.
  - intros b Hb. apply in_seq1 in Hb. apply co_cell2_spec; [lia|lia|apply att_aux_pos; lia|]. apply H1; exact Hb.
Qed.

Theorem co_slots_sound m : vmodels m (att_co_cnf n) = true -> assumed m ->
  co_slots m /\ forall a, 1 <= a <= n -> m (disj_v n a) = dv m a.
Proof.
  intros Hm Has. unfold att_co_cnf in Hm. rewrite vmodels_app_iff, !vmodels_flat_map in Hm. destruct Hm as [Hm1 Hm2].
  assert (Hd : forall a, 1 <= a <= n -> m (disj_v n a) = dv m a).
  { intros a Ha. specialize (Hm2 a (proj2 (in_seq1 n a) Ha)). apply (co_row2_spec m _ a Ha) in Hm2.
    destruct Hm2 as [H1 H2]. apply Bool.eq_iff_eq_true. rewrite dv_spec. split.
    - intros Hda. destruct H2 as [H|(b & Hb & Hx)]; [congruence|]. exists b. split; [exact Hb|].
      destruct (H1 b Hb) as [E _]. rewrite Hx in E. symmetry in E. apply andb_true_iff in E. destruct E as [E1 E2].
      rewrite Has in E2; auto.
    - intros (c & Hc & HR & Hmc). destruct (H1 c Hc) as [_ H]. apply H; [rewrite Has; auto|exact Hmc]. }
  split; [|exact Hd]. intros a Ha.
  specialize (Hm1 a (proj2 (in_seq1 n a) Ha)). apply (co_row1_spec m _ a Ha) in Hm1. destruct Hm1 as (H0 & H1 & H2).
  split; [|split].
  - intros Hx Hdv. apply H0; [exact Hx|]. rewrite Hd by exact Ha. exact Hdv.
  - intros b Hb HR Hx. rewrite <- Hd by exact Hb. destruct (H1 b Hb) as [_ H]. apply H; [rewrite Has; auto|exact Hx].
  - destruct H2 as [H|(b & Hb & Hx)]; [left; exact H|right]. exists b. split; [exact Hb|].
    destruct (H1 b Hb) as [E _]. rewrite Hx in E. symmetry in E. apply andb_true_iff in E. destruct E as [E1 E2].
    rewrite Has in E2 by auto. split; [exact E2|]. rewrite <- Hd by exact Hb. apply negb_true_iff. exact E1.
Qed.

Definition co_model (sv : nat -> bool) (v : nat) : bool :=
  if Nat.leb v n then sv v
  else if Nat.leb v (n + n * n) then R (dec_a (v - n - 1)) (dec_b (v - n - 1))
  else if Nat.leb v (n * (2 + n)) then dv sv (v - n * (1 + n))
  else if Nat.leb v (n * (2 + n) + n * n)
       then let i := v - n * (2 + n) - 1 in negb (dv sv (dec_b i)) && R (dec_a i) (dec_b i)
       else let i := v - (n * (2 + n) + n * n) - 1 in sv (dec_b i) && R (dec_a i) (dec_b i).

Lemma co_model_slot sv a : a <= n -> co_model sv a = sv a.
Proof. intros H. unfold co_model. apply Nat.leb_le in H. rewrite H. reflexivity. Qed.
Lemma co_model_att sv a b : 1 <= a <= n -> 1 <= b <= n -> co_model sv (att_v n a b) = R a b.
Proof.
  intros Ha Hb. unfold co_model. rewrite att_v_pidx by lia. pose proof (pidx_lt a b Ha Hb) as Hl.
  replace (Nat.leb (n + 1 + pidx a b) n) with false by (symmetry; apply Nat.leb_gt; lia).
  replace (Nat.leb (n + 1 + pidx a b) (n + n * n)) with true by (symmetry; apply Nat.leb_le; lia).
  replace (n + 1 + pidx a b - n - 1) with (pidx a b) by lia.
  destruct (dec_pidx a b) as [-> ->]; [lia|lia|reflexivity].
Qed.
Lemma co_model_disj sv a : 1 <= a <= n -> co_model sv (disj_v n a) = dv sv a.
Proof.
  intros Ha. unfold co_model, disj_v.
  replace (Nat.leb (a + n * (1 + n)) n) with false by (symmetry; apply Nat.leb_gt; lia).
  replace (Nat.leb (a + n * (1 + n)) (n + n * n)) with false by (symmetry; apply Nat.leb_gt; lia).
  replace (Nat.leb (a + n * (1 + n)) (n * (2 + n))) with true by (symmetry; apply Nat.leb_le; lia).
  f_equal. lia.
Qed.
Lemma co_model_aux1 sv a b : 1 <= a <= n -> 1 <= b <= n ->
  co_model sv (att_aux (n * (2 + n)) n a b) = negb (dv sv b) && R a b.
Proof.
  intros Ha Hb. unfold co_model. rewrite att_aux_pidx by lia. pose proof (pidx_lt a b Ha Hb) as Hl.
  replace (Nat.leb (n * (2 + n) + 1 + pidx a b) n) with false by (symmetry; apply Nat.leb_gt; lia).
  replace (Nat.leb (n * (2 + n) + 1 + pidx a b) (n + n * n)) with false by (symmetry; apply Nat.leb_gt; lia).
  replace (Nat.leb (n * (2 + n) + 1 + pidx a b) (n * (2 + n))) with false by (symmetry; apply Nat.leb_gt; lia).
  replace (Nat.leb (n * (2 + n) + 1 + pidx a b) (n * (2 + n) + n * n)) with true by (symmetry; apply Nat.leb_le; lia).
  cbv zeta. replace (n * (2 + n) + 1 + pidx a b - n * (2 + n) - 1) with (pidx a b) by lia.
  destruct (dec_pidx a b) as [-> ->]; [lia|lia|reflexivity].
Qed.
Lemma co_model_aux2 sv a b : 1 <= a <= n -> 1 <= b <= n ->
  co_model sv (att_aux (n * (2 + n) + n * n) n a b) = sv b && R a b.
Proof.
  intros Ha Hb. unfold co_model. rewrite att_aux_pidx by lia.
  replace (Nat.leb (n * (2 + n) + n * n + 1 + pidx a b) n) with false by (symmetry; apply Nat.leb_gt; lia).
  replace (Nat.leb (n * (2 + n) + n * n + 1 + pidx a b) (n + n * n)) with false by (symmetry; apply Nat.leb_gt; lia).
  replace (Nat.leb (n * (2 + n) + n * n + 1 + pidx a b) (n * (2 + n))) with false by (symmetry; apply Nat.leb_gt; lia).
  replace (Nat.leb (n * (2 + n) + n * n + 1 + pidx a b) (n * (2 + n) + n * n)) with false by (symmetry; apply Nat.leb_gt; lia).
  cbv zeta. replace (n * (2 + n) + n * n + 1 + pidx a b - (n * (2 + n) + n * n) - 1) with (pidx a b) by lia.
  destruct (dec_pidx a b) as [-> ->]; [lia|lia|reflexivity].
Qed.

Theorem co_slots_complete sv : co_slots sv ->
  vmodels (co_model sv) (att_co_cnf n) = true /\ assumed (co_model sv) /\
  forall a, a <= n -> co_model sv a = sv a.
Proof.
  intros Hs. split; [|split].
  - unfold att_co_cnf. apply vmodels_app_iff. split; apply vmodels_flat_map; intros a Ha; apply in_seq1 in Ha.
    + apply (co_row1_spec _ _ a Ha). destruct (Hs a Ha) as (H0 & H1 & H2). split; [|split].
      * rewrite co_model_slot, co_model_disj by lia. exact H0.
      * intros b Hb. rewrite co_model_aux1, co_model_att, co_model_disj, co_model_slot by lia.
        split; [reflexivity|]. intros HR Hsa. exact (H1 b Hb HR Hsa).
      * rewrite co_model_slot by lia. destruct H2 as [H|(b & Hb & HR & Hd)]; [left; exact H|right].
        exists b. split; [exact Hb|]. rewrite co_model_aux1 by lia. rewrite Hd, HR. reflexivity.
    + apply (co_row2_spec _ _ a Ha). split.
      * intros b Hb. rewrite co_model_aux2, co_model_att, co_model_disj, co_model_slot by lia.
        split; [reflexivity|]. intros HR Hsb. apply dv_spec. exists b. auto.
      * rewrite co_model_disj by lia. destruct (dv sv a) eqn:Ed; [right|left; reflexivity].
        apply dv_spec in Ed. destruct Ed as (c & Hc & HR & Hsc). exists c. split; [exact Hc|].
        rewrite co_model_aux2 by lia. rewrite Hsc, HR. reflexivity.
  - intros a b Ha Hb. apply co_model_att; assumption.
  - intros a Ha. apply co_model_slot. exact Ha.
Qed.

End Slots.

(* ================================================================ Part B: frameworks *)
Section Template.
Variable n : nat.                       (* argument slots *)
Variable ids : list nat.                (* live argument ids *)
Variable atts : list (nat * nat).       (* attacks (attacker, attacked) *)
Variable av : nat -> nat.               (* slot (= variable) of an argument *)
Hypothesis av_range : forall a, In a ids -> 1 <= av a <= n.
Hypothesis av_inj : forall a b, In a ids -> In b ids -> av a = av b -> a = b.
Hypothesis atts_live : forall a b, In (a, b) atts -> In a ids /\ In b ids.

Definition tF : af := {| args := ids; AF.atts := atts |}.

(* what the assumptions say: attack variable (a, b) is true iff the argument of slot b attacks the
   argument of slot a *)
Definition slot_att (a b : nat) : bool :=
  existsb (fun p => Nat.eqb (av (snd p)) a && Nat.eqb (av (fst p)) b) atts.
Definition S_of (m : val) : list nat := filter (fun a => m (av a)) ids.

Lemma in_S_of m a : In a (S_of m) <-> In a ids /\ m (av a) = true.
Proof. unfold S_of. rewrite filter_In. tauto. Qed.

Lemma slot_att_spec a b :
  slot_att a b = true <-> exists x y, att tF y x /\ In x ids /\ In y ids /\ av x = a /\ av y = b.
Proof.
  unfold slot_att. rewrite existsb_exists. split.
  - intros ([y x] & Hin & H). cbn [fst snd] in H. apply andb_true_iff in H. destruct H as [H1 H2].
    apply Nat.eqb_eq in H1, H2. destruct (atts_live y x Hin) as [Hy Hx]. exists x, y. auto.
  - intros (x & y & Hin & _ & _ & <- & <-). exists (y, x). split; [exact Hin|]. cbn [fst snd].
    rewrite !Nat.eqb_refl. reflexivity.
Qed.
Lemma slot_att_av x y : In x ids -> In y ids -> (slot_att (av x) (av y) = true <-> att tF y x).
Proof.
  intros Hx Hy. rewrite slot_att_spec. split.
  - intros (x' & y' & Hin & Hx' & Hy' & E1 & E2). apply av_inj in E1, E2; auto. subst. exact Hin.
  - intros Hin. exists x, y. auto.
Qed.
Lemma att_tF_live a b : att tF a b -> In a ids /\ In b ids.
Proof. exact (atts_live a b). Qed.

(* "attacked by a member", read on the slots *)
Lemma dv_av (sv : nat -> bool) x : In x ids ->
  (dv n slot_att sv (av x) = true <-> exists z, In z ids /\ att tF z x /\ sv (av z) = true).
Proof.
  intros Hx. rewrite dv_spec. split.
  - intros (c & Hc & HR & Hs). apply slot_att_spec in HR. destruct HR as (x' & z & Hin & Hx' & Hz & E1 & <-).
    apply av_inj in E1; auto. subst x'. exists z. auto.
  - intros (z & Hz & Hin & Hs). exists (av z). split; [apply av_range; exact Hz|]. split; [|exact Hs].
    apply slot_att_av; auto.
Qed.

(* ---------------------------------------------------------------- soundness *)
Lemma st_slots_ext m : st_slots n slot_att m -> st tF (S_of m).
Proof.
  intros Hs. split; [intros a Ha; apply in_S_of in Ha; exact (proj1 Ha)|]. split.
  - intros a b Ha Hb Hab. apply in_S_of in Ha, Hb. destruct Ha as [Hai Hma], Hb as [Hbi Hmb].
    destruct (Hs (av b) (av_range b Hbi)) as [H1 _].
    apply (H1 (av a) (av_range a Hai)); auto. apply slot_att_av; auto.
  - intros a Ha Hn. cbn [args tF] in Ha. destruct (Hs (av a) (av_range a Ha)) as [_ [H|(b & Hb & HR & Hmb)]].
    + exfalso. apply Hn. apply in_S_of. auto.
    + apply slot_att_spec in HR. destruct HR as (a' & y & Hin & Ha' & Hy & E1 & <-).
      apply av_inj in E1; auto. subst a'. exists y. split; [apply in_S_of; auto|exact Hin].
Qed.

Theorem att_st_sound m :
  vmodels m (att_st_cnf n) = true -> assumed n slot_att m -> st tF (S_of m).
Proof. intros Hm Ha. apply st_slots_ext. apply st_slots_sound; assumption. Qed.

Lemma co_slots_ext m : co_slots n slot_att m -> co tF (S_of m).
Proof.
  intros Hs.
  assert (Hdv : forall x, In x ids -> (dv n slot_att m (av x) = true <-> exists z, In z (S_of m) /\ att tF z x)).
  { intros x Hx. rewrite (dv_av m x Hx). split.
    - intros (z & Hz & Hin & Hmz). exists z. split; [apply in_S_of; auto|exact Hin].
    - intros (z & Hz & Hin). apply in_S_of in Hz. exists z. tauto. }
  assert (Hincl : incl (S_of m) (args tF)) by (intros a Ha; apply in_S_of in Ha; exact (proj1 Ha)).
  split; [split; [exact Hincl|split]|].
  - intros a b Ha Hb Hab. apply in_S_of in Hb. destruct Hb as [Hbi Hmb].
    destruct (Hs (av b) (av_range b Hbi)) as (H0 & _). apply H0; [exact Hmb|]. apply (Hdv b Hbi). exists a. auto.
  - intros a Ha b Hb. apply in_S_of in Ha. destruct Ha as [Hai Hma]. destruct (att_tF_live b a Hb) as [Hbi _].
    destruct (Hs (av a) (av_range a Hai)) as (_ & H1 & _).
    apply (Hdv b Hbi). apply (H1 (av b) (av_range b Hbi)); [|exact Hma]. apply slot_att_av; auto.
  - intros a Ha Hdef. cbn [args tF] in Ha. apply in_S_of. split; [exact Ha|].
    destruct (Hs (av a) (av_range a Ha)) as (_ & _ & [H|(b & Hb & HR & Hd)]); [exact H|exfalso].
    apply slot_att_spec in HR. destruct HR as (a' & y & Hin & Ha' & Hy & E1 & <-).
    apply av_inj in E1; auto. subst a'. destruct (Hdef y Hin) as (c & Hc & Hcy).
    assert (Ht : dv n slot_att m (av y) = true) by (apply (Hdv y Hy); exists c; auto). congruence.
Qed.

Theorem att_co_sound m :
  vmodels m (att_co_cnf n) = true -> assumed n slot_att m -> co tF (S_of m).
Proof. intros Hm Ha. apply co_slots_ext. apply (co_slots_sound n slot_att m Hm Ha). Qed.

(* a slot that no live argument holds (never used, or given up by a removed argument) is forced IN by
   the clauses themselves: it has no attacker.  (It attacks nobody because its attack variables are
   assumed false.)  In particular the unit clause [v] that remove_argument adds is implied. *)
Theorem att_st_unused_in m v :
  vmodels m (att_st_cnf n) = true -> assumed n slot_att m ->
  1 <= v <= n -> (forall a, In a ids -> av a <> v) -> m v = true.
Proof.
  intros Hm Ha Hv Hno. destruct (st_slots_sound n slot_att m Hm Ha v Hv) as [_ [H|(b & _ & HR & _)]]; [exact H|exfalso].
  apply slot_att_spec in HR. destruct HR as (x & _ & _ & Hx & _ & E & _). exact (Hno x Hx E).
Qed.
Theorem att_co_unused_in m v :
  vmodels m (att_co_cnf n) = true -> assumed n slot_att m ->
  1 <= v <= n -> (forall a, In a ids -> av a <> v) -> m v = true.
Proof.
  intros Hm Ha Hv Hno. destruct (co_slots_sound n slot_att m Hm Ha) as [Hs _].
  destruct (Hs v Hv) as (_ & _ & [H|(b & _ & HR & _)]); [exact H|exfalso].
  apply slot_att_spec in HR. destruct HR as (x & _ & _ & Hx & _ & E & _). exact (Hno x Hx E).
Qed.

(* ---------------------------------------------------------------- completeness *)
(* the slot labelling of a set X of arguments: slots of live arguments by membership, every other slot
   (never used, or given up by a removed argument) IN *)
Definition sv_of (X : list nat) (v : nat) : bool :=
  match find (fun a => Nat.eqb (av a) v) ids with Some a => memb a X | None => true end.

Lemma sv_of_av X a : In a ids -> sv_of X (av a) = memb a X.
Proof.
  intros Ha. unfold sv_of. destruct (find _ ids) as [x|] eqn:E.
  - apply find_some in E. destruct E as [Hx He]. apply Nat.eqb_eq in He. f_equal. now apply av_inj.
  - pose proof (find_none _ _ E a Ha) as Hn. cbv beta in Hn. rewrite Nat.eqb_refl in Hn. discriminate Hn.
Qed.
Lemma sv_of_other X v : (forall a, In a ids -> av a <> v) -> sv_of X v = true.
Proof.
  intros H. unfold sv_of. destruct (find _ ids) as [x|] eqn:E; [|reflexivity].
  apply find_some in E. destruct E as [Hx He]. apply Nat.eqb_eq in He. exfalso. exact (H x Hx He).
Qed.
Lemma slot_image v : (exists a, In a ids /\ av a = v) \/ (forall a, In a ids -> av a <> v).
Proof.
  destruct (find (fun a => Nat.eqb (av a) v) ids) as [x|] eqn:E.
  - left. apply find_some in E. destruct E as [Hx He]. apply Nat.eqb_eq in He. exists x. auto.
  - right. intros a Ha Hv. pose proof (find_none _ _ E a Ha) as Hn. cbv beta in Hn.
    rewrite Hv, Nat.eqb_refl in Hn. discriminate Hn.
Qed.
Lemma slot_att_image a b : slot_att a b = true -> exists x, In x ids /\ av x = a.
Proof. intros H. apply slot_att_spec in H. destruct H as (x & y & _ & Hx & _ & E & _). exists x. auto. Qed.

Lemma st_ext_slots X : st tF X -> st_slots n slot_att (sv_of X).
Proof.
  intros [Hincl [Hcf Hst]] a Ha. split.
  - intros b Hb HR Hsa Hsb. apply slot_att_spec in HR. destruct HR as (x & y & Hin & Hx & Hy & <- & <-).
    rewrite sv_of_av in Hsa, Hsb by assumption. apply memb_spec in Hsa, Hsb. exact (Hcf y x Hsb Hsa Hin).
  - destruct (slot_image a) as [(x & Hx & <-)|Hno]; [|left; apply sv_of_other; exact Hno].
    rewrite sv_of_av by exact Hx. destruct (memb x X) eqn:Em; [left; reflexivity|right].
    apply memb_false in Em. destruct (Hst x Hx Em) as (y & Hy & Hin). destruct (att_tF_live y x Hin) as [Hyi _].
    exists (av y). split; [apply av_range; exact Hyi|]. split; [apply slot_att_av; auto|].
    rewrite sv_of_av by exact Hyi. now apply memb_spec.
Qed.

Theorem att_st_complete X : st tF X ->
  let m := st_model n slot_att (sv_of X) in
  vmodels m (att_st_cnf n) = true /\ assumed n slot_att m /\
  (forall a, In a ids -> (m (av a) = true <-> In a X)) /\
  (forall v, 1 <= v <= n -> (forall a, In a ids -> av a <> v) -> m v = true).
Proof.
  intros HX m. destruct (st_slots_complete n slot_att (sv_of X) (st_ext_slots X HX)) as (H1 & H2 & H3).
  split; [exact H1|]. split; [exact H2|]. split.
  - intros a Ha. unfold m. rewrite H3 by (apply av_range; exact Ha). rewrite sv_of_av by exact Ha. apply memb_spec.
  - intros v Hv Hno. unfold m. rewrite H3 by lia. apply sv_of_other. exact Hno.
Qed.

Lemma co_ext_slots X : co tF X -> co_slots n slot_att (sv_of X).
Proof.
  intros [[Hincl [Hcf Hdef]] Hco].
  assert (Hdv : forall x, In x ids ->
            (dv n slot_att (sv_of X) (av x) = true <-> exists z, In z X /\ att tF z x)).
  { intros x Hx. rewrite (dv_av (sv_of X) x Hx). split.
    - intros (z & Hz & Hin & Hs). rewrite sv_of_av in Hs by exact Hz. exists z. split; [now apply memb_spec|exact Hin].
    - intros (z & Hz & Hin). destruct (att_tF_live z x Hin) as [Hzi _]. exists z. split; [exact Hzi|].
      split; [exact Hin|]. rewrite sv_of_av by exact Hzi. now apply memb_spec. }
  intros a Ha. destruct (slot_image a) as [(x & Hx & <-)|Hno].
  - rewrite sv_of_av by exact Hx. split; [|split].
    + intros Hm Hd. apply memb_spec in Hm. apply (Hdv x Hx) in Hd. destruct Hd as (z & Hz & Hin). exact (Hcf z x Hz Hm Hin).
    + intros b Hb HR Hm. apply memb_spec in Hm. apply slot_att_spec in HR.
      destruct HR as (x' & y & Hin & Hx' & Hy & E & <-). apply av_inj in E; auto. subst x'.
      apply (Hdv y Hy). destruct (Hdef x Hm y Hin) as (c & Hc & Hcy). exists c. auto.
    + destruct (memb x X) eqn:Em; [left; reflexivity|right]. apply memb_false in Em.
      destruct (defendsb tF X x) eqn:Ed.
      { exfalso. apply Em. apply Hco; [exact Hx|]. now apply defendsb_spec. }
      destruct (not_defended_witness tF X x Ed) as (y & Hy & Hny). apply attacked_byb_false in Hny.
      destruct (att_tF_live y x Hy) as [Hyi _].
      exists (av y). split; [apply av_range; exact Hyi|]. split; [apply slot_att_av; auto|].
      destruct (dv n slot_att (sv_of X) (av y)) eqn:E; [|reflexivity]. exfalso. apply Hny. apply (Hdv y Hyi). exact E.
  - assert (Hnr : forall b, slot_att a b = false).
    { intros b. destruct (slot_att a b) eqn:E; [|reflexivity]. exfalso.
      destruct (slot_att_image a b E) as (x & Hx & Hv). exact (Hno x Hx Hv). }
    split; [|split].
    + intros _ Hd. apply dv_spec in Hd. destruct Hd as (c & _ & HR & _). rewrite Hnr in HR. discriminate HR.
    + intros b _ HR. rewrite Hnr in HR. discriminate HR.
    + left. apply sv_of_other. exact Hno.
Qed.

Theorem att_co_complete X : co tF X ->
  let m := co_model n slot_att (sv_of X) in
  vmodels m (att_co_cnf n) = true /\ assumed n slot_att m /\
  (forall a, In a ids -> (m (av a) = true <-> In a X)) /\
  (forall v, 1 <= v <= n -> (forall a, In a ids -> av a <> v) -> m v = true).
Proof.
  intros HX m. destruct (co_slots_complete n slot_att (sv_of X) (co_ext_slots X HX)) as (H1 & H2 & H3).
  split; [exact H1|]. split; [exact H2|]. split.
  - intros a Ha. unfold m. rewrite H3 by (apply av_range; exact Ha). rewrite sv_of_av by exact Ha. apply memb_spec.
  - intros v Hv Hno. unfold m. rewrite H3 by lia. apply sv_of_other. exact Hno.
Qed.

(* ================================================================ Part C: the assumption vector *)
(* assumptions(af) for the index list idx: attack variable number i (0-based) positively iff i is in idx *)
Definition att_asm (idx : list nat) : list lit :=
  map (fun i => if memb i idx then zlit (1 + i + n) else znlit (1 + n + i)) (seq 0 (n * n)).

Lemma att_asm_sem idx m :
  forallb (vtrue m) (att_asm idx) = true <-> forall i, i < n * n -> m (1 + n + i) = memb i idx.
Proof.
  unfold att_asm. rewrite forallb_forall. split.
  - intros H i Hi. specialize (H _ (in_map _ _ i (proj2 (in_seq _ _ _) (conj (Nat.le_0_l i) Hi)))). cbv beta in H.
    destruct (memb i idx).
    + rewrite vtrue_zlit in H by lia. rewrite <- H. f_equal. lia.
    + rewrite vtrue_znlit in H. apply negb_true_iff in H. exact H.
  - intros H l Hl. apply in_map_iff in Hl. destruct Hl as (i & <- & Hi). apply in_seq in Hi.
    specialize (H i (proj2 Hi)). destruct (memb i idx).
    + rewrite vtrue_zlit by lia. rewrite <- H. f_equal. lia.
    + rewrite vtrue_znlit, H. reflexivity.
Qed.

(* the index list that att_indices computes *)
Definition idx_of_atts : list nat := map (fun p => att_index n (av (snd p)) (av (fst p))) atts.

Lemma att_index_pidx a b : 1 <= b -> att_index n a b = pidx n a b.
Proof. intros Hb. unfold att_index, pidx. rewrite (Nat.mul_comm (a - 1) n). set (x := n * (a - 1)). lia. Qed.

Lemma pidx_inj a b a' b' : 1 <= a -> 1 <= a' -> 1 <= b <= n -> 1 <= b' <= n ->
  pidx n a b = pidx n a' b' -> a = a' /\ b = b'.
Proof.
  intros Ha Ha' Hb Hb' E. destruct (dec_pidx n a b Ha Hb) as [A B]. destruct (dec_pidx n a' b' Ha' Hb') as [A' B'].
  rewrite E in A, B. split; congruence.
Qed.

Lemma memb_idx_of_atts a b : 1 <= a <= n -> 1 <= b <= n ->
  memb (pidx n a b) idx_of_atts = slot_att a b.
Proof.
  intros Ha Hb. apply Bool.eq_iff_eq_true. rewrite memb_spec. unfold idx_of_atts, slot_att.
  rewrite in_map_iff, existsb_exists. split.
  - intros ([y x] & E & Hin). exists (y, x). split; [exact Hin|]. cbn [fst snd] in *.
    destruct (atts_live y x Hin) as [Hy Hx]. pose proof (av_range x Hx). pose proof (av_range y Hy).
    rewrite att_index_pidx in E by lia. apply pidx_inj in E; lia.
  - intros ([y x] & Hin & H). cbn [fst snd] in H. apply andb_true_iff in H. destruct H as [H1 H2].
    apply Nat.eqb_eq in H1, H2. exists (y, x). split; [|exact Hin]. cbn [fst snd]. subst a b.
    apply att_index_pidx. lia.
Qed.

Theorem att_asm_assumed m :
  forallb (vtrue m) (att_asm idx_of_atts) = true <-> assumed n slot_att m.
Proof.
  rewrite att_asm_sem. split.
  - intros H a b Ha Hb. rewrite att_v_pidx by lia. rewrite <- memb_idx_of_atts by assumption.
    rewrite <- (H (pidx n a b) (pidx_lt n a b Ha Hb)). f_equal. lia.
  - intros H i Hi.
    assert (Hn : n <> 0) by (intros ->; lia).
    set (a := dec_a n i). set (b := dec_b n i).
    assert (Hb : 1 <= b <= n) by (unfold b, dec_b; pose proof (Nat.mod_upper_bound i n Hn); lia).
    assert (Ha : 1 <= a <= n).
    { unfold a, dec_a. split; [lia|]. assert (i / n < n) by (apply Nat.div_lt_upper_bound; [exact Hn|exact Hi]). lia. }
    assert (Ei : i = pidx n a b).
    { unfold pidx, a, b, dec_a, dec_b. cbn [Nat.sub]. rewrite !Nat.sub_0_r. apply Nat.div_mod. exact Hn. }
    rewrite Ei at 2. rewrite memb_idx_of_atts by assumption. rewrite <- (H a b Ha Hb), att_v_pidx by lia.
    f_equal. lia.
Qed.

End Template.
