(* The polynomial oracle and the model of the dynamic solvers never disagree: whenever a query of
   the dynamic complete (DC), stable (DC, DS) or preferred (DS) solver returns a status and the rule
   [dyn_poly_status] (the status rule of checks/dyn_common.py dyn_poly_verdict) decides it on the
   abstract framework of the specification store of the whole history, both are the same boolean.
   Consequence of DynFun.dyn_functional, DynPref.pr_functional and PolyOracle.dyn_poly_status_sound_prop. *)
From Crusta Require Import Model.Dynamic Spec.SemFacts Spec.Theory Spec.Invariance Proofs.SolverBasics
  Proofs.GroundedProofs Proofs.DynDefs Proofs.DynProofs Proofs.DynEnc Proofs.DynFunDefs Proofs.DynInv Proofs.DynFun
  Proofs.DynTotal Proofs.DynPref Proofs.Corollaries Proofs.CompProofs.
From Crusta Require Import Proofs.PolyOracleDefs Proofs.PolyOracle.
Import ListNotations.

Section PolyDyn.
Variable L : Type.
Variable leqb : L -> L -> bool.
Hypothesis leqb_spec : forall x y, leqb x y = true <-> x = y.

Notation fresh := (fresh_fw L leqb).
Notation run_ops := (run_ops L leqb).

Lemma store_wf os : wf (af_of (run_ops fresh os)).
Proof. exact (af_of_wf L leqb leqb_spec _ (fresh_reachable_g L leqb os)). Qed.

Theorem dyn_model_agrees_co_st :
  forall oracle thr k s ps os fuel q cert l id s' b c ps' w,
  valid_oracle oracle -> vreach L leqb oracle thr k s ps os ->
  (k = KCo /\ q = QDC) \/ (k = KSt /\ (q = QDC \/ q = QDS)) ->
  get_argument L leqb (run_ops fresh os) l = Some id ->
  dyn_query oracle L leqb thr fuel s q cert l ps = Done (s', (b, c)) ps' ->
  dyn_poly_status (af_of (run_ops fresh os)) (match k with KSt => ST | _ => CO end)
                  (match q with QDC => Cred | _ => Skep end) id = Some w ->
  b = w.
Proof.
  intros oracle thr k s ps os fuel q cert l id s' b c ps' w Hv Hr Hkq Hl E Hp.
  pose proof (dyn_functional L leqb leqb_spec oracle thr k s ps os fuel q cert l id s' b c ps' Hv Hr Hkq Hl E) as H.
  destruct H as [H1 _]. cbn [fst] in H1.
  pose proof (dyn_poly_status_sound_prop _ _ _ _ _ (store_wf os) Hp) as H2.
  apply (bool_iff_eq b w _ _ H1 H2).
  destruct Hkq as [[-> ->]|[-> [-> | ->]]]; cbn [status sem_of qpol]; reflexivity.
Qed.

Theorem dyn_model_agrees_pr :
  forall oracle, valid_oracle oracle ->
  forall thr s ps os fuel cert l id s' b c ps' w,
  vreach L leqb oracle thr KPr s ps os ->
  get_argument L leqb (run_ops fresh os) l = Some id ->
  dyn_query oracle L leqb thr fuel s QDS cert l ps = Done (s', (b, c)) ps' ->
  dyn_poly_status (af_of (run_ops fresh os)) PR Skep id = Some w ->
  b = w.
Proof.
  intros oracle Hv thr s ps os fuel cert l id s' b c ps' w Hr Hl E Hp.
  pose proof (pr_functional L leqb leqb_spec oracle Hv thr s ps os fuel cert l id s' b c ps' Hr Hl E) as H.
  cbv zeta in H. destruct H as [H1 _].
  pose proof (dyn_poly_status_sound_prop _ _ _ _ _ (store_wf os) Hp) as H2.
  apply (bool_iff_eq b w _ _ H1 H2). cbn [status]. reflexivity.
Qed.

End PolyDyn.

Print Assumptions dyn_model_agrees_co_st.
Print Assumptions dyn_model_agrees_pr.
