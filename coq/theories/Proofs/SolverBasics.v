(* Shared vocabulary and lemmas for the correctness proofs of the static solvers: what a valid SAT
   answer is, freshness of selector variables, and the three query shapes the solvers use on an
   encoded component (plain solve, selector-guarded disjunction, negative assumptions). *)
From Crusta Require Import Spec.AF Sat.Cnf Sat.Prog Model.Encoders Model.Graph Model.Solvers.
From Crusta Require Import Proofs.ProgLaws Proofs.EncSpec Proofs.EncBase Proofs.EncAll.
From Coq Require Import ZifyBool.
Import ListNotations.
Open Scope prog_scope.

(* every answer a correct SAT solver may give; Unknown is always allowed *)
Definition valid_oracle (oracle : nat -> cnf -> list lit -> answer) : Prop :=
  forall i C a,
    match oracle i C a with
    | Sat m => models m C = true /\ forallb (lit_true m) a = true
    | Unsat => forall v : val, vmodels v C = true -> forallb (vtrue v) a = true -> False
    | Unknown => True
    end.

Lemma lit_true_vtrue m l : lit_true m l = true -> vtrue (val_of m) l = true.
Proof.
  unfold lit_true, vtrue, val_of. destruct (value_of m (lit_var l)) as [[|]|]; destruct (0 <? l)%Z;
    cbn; congruence.
Qed.
Lemma sat_clause_vsat m c : sat_clause m c = true -> vsat_clause (val_of m) c = true.
Proof.
  unfold sat_clause, vsat_clause. rewrite !existsb_exists. intros [l [Hl Ht]].
  exists l. split; [exact Hl|now apply lit_true_vtrue].
Qed.
Lemma models_vmodels m C : models m C = true -> vmodels (val_of m) C = true.
Proof.
  unfold models, vmodels. rewrite !forallb_forall. intros H c Hc. now apply sat_clause_vsat, H.
Qed.
Lemma all_true_vtrue m a : forallb (lit_true m) a = true -> forallb (vtrue (val_of m)) a = true.
Proof. rewrite !forallb_forall. intros H l Hl. now apply lit_true_vtrue, H. Qed.

(* ---------- variables of a clause set, freshness ---------- *)
Definition bounded (C : cnf) (k : nat) : Prop := forall c l, In c C -> In l c -> lit_var l <= k.

Lemma clause_max_ge c l : In l c -> lit_var l <= clause_max c.
Proof.
  induction c as [|x c IH]; cbn [In clause_max fold_right]; [tauto|].
  intros [->|H]; [lia|]. specialize (IH H). unfold clause_max in IH. lia.
Qed.

Definition upd (m : val) (x : nat) (b : bool) : val := fun v => if Nat.eqb v x then b else m v.
Lemma upd_same m x b : upd m x b x = b.
Proof. unfold upd. now rewrite Nat.eqb_refl. Qed.
Lemma upd_other m x b v : v <> x -> upd m x b v = m v.
Proof. unfold upd. intros H. apply Nat.eqb_neq in H. now rewrite H. Qed.

Lemma vtrue_upd m x b l : lit_var l <> x -> vtrue (upd m x b) l = vtrue m l.
Proof. intros H. unfold vtrue. now rewrite upd_other. Qed.
Lemma vsat_upd m x b c : (forall l, In l c -> lit_var l <> x) ->
  vsat_clause (upd m x b) c = vsat_clause m c.
Proof.
  intros H. unfold vsat_clause. induction c as [|l c IH]; cbn [existsb]; [reflexivity|].
  rewrite vtrue_upd by (apply H; now left). rewrite IH; [reflexivity|].
  intros l' Hl'. apply H. now right.
Qed.
Lemma vmodels_upd m x b C k : bounded C k -> k < x -> vmodels (upd m x b) C = vmodels m C.
Proof.
  intros HB Hk. unfold vmodels. induction C as [|c C IH]; cbn [forallb]; [reflexivity|].
  rewrite vsat_upd.
  - rewrite IH; [reflexivity|]. intros c' l Hc Hl. apply (HB c' l); [now right|exact Hl].
  - intros l Hl. specialize (HB c l (or_introl eq_refl) Hl). lia.
Qed.

(* ---------- what the session knows ---------- *)
Definition cls (s : Prog.st) : cnf := rev (rclauses (sess s)).
Definition sess_bounded (s : Prog.st) : Prop := bounded (rclauses (sess s)) (maxvar (sess s)).

Lemma bounded_mono C k k' : bounded C k -> k <= k' -> bounded C k'.
Proof. intros H Hk c l Hc Hl. specialize (H c l Hc Hl). lia. Qed.
Lemma bounded_rev C k : bounded (rev C) k <-> bounded C k.
Proof.
  unfold bounded. split; intros H c l Hc Hl; apply (H c l); auto.
  - now apply -> in_rev.
  - now apply in_rev.
Qed.

Lemma sb_new s : sess_bounded (st_new s).
Proof. intros c l []. Qed.
Lemma sb_add s c : sess_bounded s -> sess_bounded (st_add s c).
Proof.
  intros H c' l [<-|Hc] Hl; cbn.
  - pose proof (clause_max_ge _ _ Hl). lia.
  - specialize (H c' l Hc Hl). lia.
Qed.
Lemma sb_adds s cs : sess_bounded s -> sess_bounded (st_adds s cs).
Proof. revert s. induction cs as [|c r IH]; intros s H; cbn [st_adds]; [exact H|]. now apply IH, sb_add. Qed.
Lemma sb_reserve s n : sess_bounded s -> sess_bounded (st_reserve s n).
Proof. intros H. exact H. Qed.
Lemma sb_nvars s : sess_bounded s -> sess_bounded (st_nvars s).
Proof. intros H. exact H. Qed.
Lemma sb_solved oracle s a : sess_bounded s -> sess_bounded (st_solved oracle s a).
Proof.
  intros H c l Hc Hl. unfold st_solved, log_ev, sess_solved in *. cbn in *.
  destruct (disc s); cbn in *; specialize (H c l Hc Hl); lia.
Qed.

Lemma cls_new s : cls (st_new s) = [].
Proof. reflexivity. Qed.
Lemma cls_add s c : cls (st_add s c) = cls s ++ [c].
Proof. reflexivity. Qed.
Lemma cls_adds s cs : cls (st_adds s cs) = cls s ++ cs.
Proof. unfold cls. rewrite st_adds_clauses, rev_app_distr, rev_involutive. reflexivity. Qed.
Lemma cls_reserve s n : cls (st_reserve s n) = cls s.
Proof. reflexivity. Qed.
Lemma cls_nvars s : cls (st_nvars s) = cls s.
Proof. reflexivity. Qed.
Lemma cls_solved oracle s a : cls (st_solved oracle s a) = cls s.
Proof. unfold cls, st_solved, log_ev, sess_solved. cbn. destruct (disc s); reflexivity. Qed.

Lemma nvars_fresh s : sess_bounded s -> bounded (cls s) (session_n_vars (sess s)).
Proof.
  intros H. apply bounded_rev. eapply bounded_mono; [exact H|]. unfold session_n_vars. lia.
Qed.

(* ---------- the encoding step ---------- *)
Section Enc.
Variable oracle : nat -> cnf -> list lit -> answer.
Variable thr : nat.
Notation wpT := (wp (fun _ => True) (fun _ => True) (fun _ => True)).

Definition st_encoded (s : Prog.st) (r : option nat) (C : cnf) : Prog.st :=
  st_adds (match r with Some k => st_reserve s k | None => s end) C.

Lemma wp_encode_m QA QP QF e range F r C Q s :
  encode_af e thr range F = Some (r, C) ->
  (wp QA QP QF (encode_m thr e range F) Q s <-> Q tt (st_encoded s r C)).
Proof.
  intros HE. unfold encode_m. rewrite HE. rewrite wp_bind. destruct r as [k|].
  - rewrite wp_reserve, wp_add_clauses. reflexivity.
  - rewrite wp_ret, wp_add_clauses. reflexivity.
Qed.

Lemma cls_encoded s r C : cls (st_encoded s r C) = cls s ++ C.
Proof. unfold st_encoded. rewrite cls_adds. destruct r; reflexivity. Qed.
Lemma sb_encoded s r C : sess_bounded s -> sess_bounded (st_encoded s r C).
Proof. intros H. unfold st_encoded. apply sb_adds. destruct r; [now apply sb_reserve|exact H]. Qed.

Lemma enc_clauses_some e range F r C :
  encode_af e thr range F = Some (r, C) -> enc_clauses e thr range F = Some C.
Proof. unfold enc_clauses. intros ->. reflexivity. Qed.

(* ---------- answers on an encoded component ---------- *)
Section Component.
Variable e : enc.
Variable F : af.
Variable n : nat.
Hypothesis HF : compact_af F n.
Hypothesis Hthr : 1 <= thr.
Variable C : cnf.
Hypothesis HC : enc_clauses e thr false F = Some C.
Hypothesis Hvalid : valid_oracle oracle.

Notation base := (basep (enc_base e) F).
Notation a2e := (assignment_to_extension n e).

Lemma a2e_ext m : a2e m = ext_of e n (val_of m).
Proof. apply all_a2e. Qed.

Lemma sound_model m : models m C = true -> base (a2e m).
Proof.
  intros Hm. rewrite a2e_ext. apply (all_sound e thr F n Hthr HF C _ HC). now apply models_vmodels.
Qed.
Lemma complete_model S : base S ->
  exists v : val, vmodels v C = true /\ forall a, a < n -> (v (arg_var e a) = true <-> In a S).
Proof. intros HS. exact (all_complete e thr F n Hthr HF C S HC HS). Qed.

Lemma in_a2e m a : In a (a2e m) <-> a < n /\ val_of m (arg_var e a) = true.
Proof. rewrite a2e_ext. apply in_ext_of. Qed.

Lemma meets_spec la S : meets la S = true <-> exists a, In a la /\ In a S.
Proof.
  unfold meets. rewrite existsb_exists. split; intros [a [H1 H2]]; exists a; split; auto;
    now apply memb_spec.
Qed.
Lemma meets_false la S : meets la S = false <-> forall a, In a la -> ~ In a S.
Proof.
  rewrite <- Bool.not_true_iff_false, meets_spec. split.
  - intros H a Ha Hs. apply H. now exists a.
  - intros H [a [Ha Hs]]. now apply (H a).
Qed.

Lemma vtrue_arg (v : val) a : vtrue v (arg_to_lit e a) = v (arg_var e a).
Proof. unfold arg_to_lit. apply vtrue_zlit, arg_var_pos. Qed.
Lemma vtrue_neg_arg (v : val) a : vtrue v (negate (arg_to_lit e a)) = negb (v (arg_var e a)).
Proof. unfold arg_to_lit, negate. change (- zlit (arg_var e a))%Z with (znlit (arg_var e a)). apply vtrue_znlit. Qed.

(* plain solve on  C ++ D  where every clause of D is satisfied by making the selectors false *)
Lemma plain_sat s a m D :
  cls s = C ++ D -> answer_of oracle s a = Sat m -> base (a2e m).
Proof.
  intros Hc Ha. unfold answer_of in Ha. fold (cls s) in Ha. pose proof (Hvalid (calls s) (cls s) a) as Hv.
  rewrite Ha in Hv. destruct Hv as [Hm _]. rewrite Hc in Hm. unfold models in Hm.
  rewrite forallb_app in Hm. apply andb_prop in Hm. now apply sound_model.
Qed.

Lemma unsat_elim s a (v : val) :
  answer_of oracle s a = Unsat -> vmodels v (cls s) = true -> forallb (vtrue v) a = true -> False.
Proof.
  intros Ha. unfold answer_of in Ha. fold (cls s) in Ha. pose proof (Hvalid (calls s) (cls s) a) as Hv.
  rewrite Ha in Hv. exact (Hv v).
Qed.

Lemma sat_assumptions s a m :
  answer_of oracle s a = Sat m -> forallb (vtrue (val_of m)) a = true /\ vmodels (val_of m) (cls s) = true.
Proof.
  intros Ha. unfold answer_of in Ha. fold (cls s) in Ha. pose proof (Hvalid (calls s) (cls s) a) as Hv.
  rewrite Ha in Hv. destruct Hv as [Hm Hl]. split; [now apply all_true_vtrue|now apply models_vmodels].
Qed.

End Component.
End Enc.
