(* Definitions used by the statements of Properties/C08att.v (no lemma lives here): the two dynamic
   solvers with ASSUMPTIONS ON ATTACKS (kinds KCoAtt num den, KStAtt num den of Model/Dynamic.v),
   the admissible slot factors, the table invariant of their encoder, and the clause sets that a
   re-encoding for n argument slots emits, as pure functions of n. *)
From Crusta Require Export Model.Dynamic Proofs.DynDefs.

(* ---------------------------------------------------------------- the kinds *)
Definition att_kind (k : dkind) : Prop :=
  match k with KCoAtt _ _ | KStAtt _ _ => True | _ => False end.
Definition kind_sem (k : dkind) : dsem := match k with KCoAtt _ _ => DCO | _ => DST end.
Definition kind_num (k : dkind) : nat := match k with KCoAtt n _ | KStAtt n _ => n | _ => 0 end.
Definition kind_den (k : dkind) : nat := match k with KCoAtt _ d | KStAtt _ d => d | _ => 0 end.
(* the slot factor num/den is at least 1: a re-encoding for n_args live arguments reserves
   n = n_args * num / den >= n_args argument slots (Rust: `n_arg_vars - n_args` does not underflow) *)
Definition factor_ok (k : dkind) : Prop := 0 < kind_den k /\ kind_den k <= kind_num k.
(* the queries these solvers implement *)
Definition att_supported (k : dkind) (q : query) : Prop :=
  match k, q with
  | KCoAtt _ _, QDC => True
  | KStAtt _ _, (QDC | QDS) => True
  | _, _ => False
  end.

(* the semantics whose extensions the solver of kind k reasons about *)
Definition kind_spec_sem (k : dkind) : sem := match k with KCoAtt _ _ => CO | _ => ST end.
Definition query_pol (q : query) : bool := match q with QDC => true | _ => false end.

Section AttDefs.
Variable L : Type.
Variable leqb : L -> L -> bool.

(* states reachable with ONE SAT oracle and the SAT program state threaded through the whole history:
   the solver is created on some program state, updates do not touch the SAT side, every query runs
   on the program state its predecessor left behind and is recorded only if it returned *)
Inductive areach (oracle : nat -> cnf -> list lit -> answer) (k : dkind)
  : dsolver L -> Prog.st -> list (op L) -> Prop :=
| areach_new : forall ps0 s ps, dyn_new L leqb k ps0 = Done s ps -> areach oracle k s ps []
| areach_update : forall s ps os o,
    areach oracle k s ps os -> areach oracle k (fst (dyn_update L leqb s o)) ps (os ++ [o])
| areach_query : forall s ps os thr fuel q cert l s' a ps',
    areach oracle k s ps os ->
    dyn_query oracle L leqb thr fuel s q cert l ps = Done (s', a) ps' ->
    areach oracle k s' ps' os.

(* ---------------------------------------------------------------- the tables between two calls *)
(* n = a_n e argument slots (variables 1..n), then n*n attack variables (n+1 .. n+n*n), then, for
   the complete semantics, n attacker-disjunction variables (v + n*(1+n) for slot v).  Slots below
   a_next e have been handed out (to arguments alive at the last re-encoding, or added since). *)
Record att_tables_ok (af : fw L) (e : aenc) : Prop := {
  (* no re-encoding is pending *)
  at_need : a_need e = false;
  (* one table entry per id slot of the framework (a lone None when the framework never had an argument) *)
  at_len : length (a_a2v e) = Nat.max 1 (length (slots (ls af)));
  at_empty : slots (ls af) = [] -> a_n e = 0;
  at_vars_len : length (a_vars e) =
                1 + a_n e * (1 + a_n e) + (match a_sem e with DCO => a_n e | _ => 0 end);
  (* more slots were handed out than there are live arguments, all of them among the n reserved ones *)
  at_next : n_arguments L af < a_next e /\ a_next e <= S (a_n e);
  (* the variable of an argument is a handed-out slot, typed as that argument's variable *)
  at_arg : forall id v, tbl_var (a_a2v e) id = Some v ->
           1 <= v /\ v < a_next e /\ nth_error (a_vars e) v = Some (VArg id);
  (* its attacker-disjunction variable (complete semantics) *)
  at_disj : a_sem e = DCO -> forall id v, tbl_var (a_a2v e) id = Some v ->
            nth_error (a_vars e) (v + a_n e * (1 + a_n e)) = Some (VDisj id);
  (* the attack variables *)
  at_attack : forall i, a_n e < i -> i <= a_n e * (1 + a_n e) -> nth_error (a_vars e) i = Some VAttack;
  (* exactly the live arguments have a variable *)
  at_live : forall id, has_argument_with_id L af id = true <-> tbl_var (a_a2v e) id <> None;
  (* no stale entry: a variable typed as an argument's variable is that argument's current variable *)
  at_conv : forall v id, nth_error (a_vars e) v = Some (VArg id) -> tbl_var (a_a2v e) id = Some v }.

(* the encoder of a solver on which no query has returned yet *)
Definition att_initial (af : fw L) (e : aenc) : Prop :=
  e = aenc_new (a_sem e) (a_num e) (a_den e) /\ af = empty_fw L leqb.

End AttDefs.

(* ---------------------------------------------------------------- the clauses of a re-encoding *)
(* the auxiliary variable of the (arg_var, attacker_var) iteration of an inner loop whose first
   auxiliary variable is base + 1 *)
Definition att_aux (base n a b : nat) : nat := base + (a - 1) * n + b.

(* update_encoding_for_stable_semantics, n slots: for every slot a, for every slot b
     aux <-> (b /\ att(a,b));   att(a,b) -> ~a \/ ~b;        then   a \/ aux(a,1) \/ ... \/ aux(a,n) *)
Definition st_cell (n base a b : nat) : cnf :=
  let aux := zlit (att_aux base n a b) in
  let bl := zlit b in
  let al := att_lit n a b in
  [[negate aux; bl]; [negate aux; al]; [aux; negate bl; negate al]; [negate al; znlit a; negate bl]].
Definition st_row (n base a : nat) : cnf :=
  flat_map (st_cell n base a) (seq 1 n) ++ [zlit a :: map (fun b => zlit (att_aux base n a b)) (seq 1 n)].
Definition att_st_cnf (n : nat) : cnf := flat_map (st_row n (n * (1 + n))) (seq 1 n).

(* update_encoding_for_complete_semantics, first loop: a -> ~d(a); for every b
     aux <-> (~d(b) /\ att(a,b));   att(a,b) -> ~a \/ d(b);   then   a \/ aux(a,1) \/ ... *)
Definition co_cell1 (n base a b : nat) : cnf :=
  let aux := zlit (att_aux base n a b) in
  let bd := disj_of n b in
  let al := att_lit n a b in
  [[negate aux; negate bd]; [negate aux; al]; [aux; bd; negate al]; [negate al; znlit a; bd]].
Definition co_row1 (n base a : nat) : cnf :=
  [znlit a; negate (disj_of n a)] ::
  flat_map (co_cell1 n base a) (seq 1 n) ++ [zlit a :: map (fun b => zlit (att_aux base n a b)) (seq 1 n)].
(* second loop: aux <-> (b /\ att(a,b));   att(a,b) -> d(a) \/ ~b;   then  ~d(a) \/ aux(a,1) \/ ... *)
Definition co_cell2 (n base a b : nat) : cnf :=
  let aux := zlit (att_aux base n a b) in
  let bl := zlit b in
  let al := att_lit n a b in
  [[negate aux; bl]; [negate aux; al]; [aux; negate bl; negate al]; [negate al; disj_of n a; negate bl]].
Definition co_row2 (n base a : nat) : cnf :=
  flat_map (co_cell2 n base a) (seq 1 n)
  ++ [negate (disj_of n a) :: map (fun b => zlit (att_aux base n a b)) (seq 1 n)].
Definition att_co_cnf (n : nat) : cnf :=
  flat_map (co_row1 n (n * (2 + n))) (seq 1 n) ++ flat_map (co_row2 n (n * (2 + n) + n * n)) (seq 1 n).

Definition att_cnf (sm : dsem) (n : nat) : cnf :=
  match sm with DST => att_st_cnf n | _ => att_co_cnf n end.
