(* Executable form of the POLYNOMIAL ORACLE of the checks
     checks/solvers_common.py  poly_judge          (static solvers, lists of arguments, seven semantics)
     checks/dyn_common.py      dyn_poly_verdict    (dynamic solvers, one argument, CO / ST / PR)
   over the specification layer (Spec/AF.v, Spec/Theory.v).  Definitions only; every function is
   polynomial in the size of the framework (no powerset anywhere); the theorems are in
   Proofs/PolyOracle.v and stated in Properties/C03poly.v.

   The python code computes
       G   the grounded extension               here: [lfp F] of Spec/Theory.v
       D   the arguments attacked by a member of G   here: [attacked_byb F (lfp F) a = true]
   by unit propagation (an argument whose attackers are all in D enters G, its targets enter D);
   [prop_ground] below is that loop, and [Proofs/PolyOracle.v] shows it computes the same two sets. *)
From Coq Require Import List Arith Bool.
From Crusta Require Import Spec.AF Spec.SemFacts Spec.Theory.
Import ListNotations.

(* ---------- the two questions ---------- *)
Inductive accq := Cred | Skep.      (* DC : credulous, DS : skeptical *)

(* acceptance status of a list of arguments ("some listed argument is accepted"), Prop and
   brute-force boolean form (the latter is the reference the solvers are judged against on small
   frameworks) *)
Definition status (s : sem) (q : accq) (F : af) (A : list nat) : Prop :=
  match q with Cred => cred s F A | Skep => skep s F A end.
Definition statusb (s : sem) (q : accq) (F : af) (A : list nat) : bool :=
  match q with Cred => credb s F A | Skep => skepb s F A end.

(* ---------- the vocabulary of the rules ---------- *)
(* a is defeated by the grounded extension: some member of it attacks a *)
Definition defeatedb (F : af) (a : nat) : bool := attacked_byb F (lfp F) a.
(* python `some_in_g`, `all_in_d` *)
Definition some_in_g (F : af) (A : list nat) : bool := existsb (fun a => memb a (lfp F)) A.
Definition all_in_d (F : af) (A : list nat) : bool := forallb (defeatedb F) A.
(* python `g_stable`: no argument is left outside G and D *)
Definition g_stableb (F : af) : bool :=
  forallb (fun a => memb a (lfp F) || defeatedb F a) (args F).

(* ---------- poly_judge: the status rule, literally ----------
     if sem == "GR":                         want = some_in_g           (also for an empty list)
     elif args:                              (non-empty list)
        if g_stable:                         want = some_in_g
        elif sem in (CO, PR, ID, SST):       want = True if some_in_g else (False if all_in_d else None)
        elif sem == ST:                      DS and some_in_g -> True;  DC and all_in_d -> False
   [None]: the rule is silent. *)
Definition poly_status (F : af) (s : sem) (q : accq) (A : list nat) : option bool :=
  match s with
  | GR => Some (some_in_g F A)
  | _ =>
    match A with
    | [] => None
    | _ :: _ =>
      if g_stableb F then Some (some_in_g F A)
      else match s with
           | CO | PR | ID | SST =>
               if some_in_g F A then Some true else if all_in_d F A then Some false else None
           | ST =>
               match q with
               | Skep => if some_in_g F A then Some true else None
               | Cred => if all_in_d F A then Some false else None
               end
           | _ => None
           end
    end
  end.

(* ---------- dyn_poly_verdict: the status rule, literally (one argument; co, st, pr) ----------
     if g_stable:                  want = lab in G
     elif sem == co and q == DS:   want = lab in G
     elif sem in (co, pr):         want = True if lab in G else (False if lab in D else None)
     elif q == DS and lab in G:    want = True          (st)
     elif q == DC and lab in D:    want = False         (st) *)
Definition dyn_poly_status (F : af) (s : sem) (q : accq) (a : nat) : option bool :=
  match s with
  | CO | PR | ST =>
    if g_stableb F then Some (memb a (lfp F))
    else match s, q with
         | CO, Skep => Some (memb a (lfp F))
         | ST, Skep => if memb a (lfp F) then Some true else None
         | ST, Cred => if defeatedb F a then Some false else None
         | _, _ => if memb a (lfp F) then Some true else if defeatedb F a then Some false else None
         end
  | _ => None
  end.

(* the union of the two rules plus what they leave out although it is decided by the same facts
   (empty lists; DS-CO for lists): the strongest rule proved in Proofs/PolyOracle.v *)
Definition poly_status_full (F : af) (s : sem) (q : accq) (A : list nat) : option bool :=
  if g_stableb F then Some (some_in_g F A)
  else match s, q with
       | GR, _ => Some (some_in_g F A)
       | CO, Skep => Some (some_in_g F A)
       | STG, _ => None
       | ST, Skep => if some_in_g F A then Some true else None
       | ST, Cred => if all_in_d F A then Some false else None
       | _, _ => if some_in_g F A then Some true else if all_in_d F A then Some false else None
       end.

(* ---------- poly_judge: the tests on a returned set (certificate / extension) ----------
     hit = union of targets[a] for a in S
     S & hit                                  -> not conflict-free
     some a in S: not attackers[a] <= hit     -> not admissible
     some a in ids - S: attackers[a] <= hit   -> not complete
     (ids - S) - hit                          -> not stable
     S != G                                   -> not the grounded extension
   ("members are arguments of the framework, each once" is [subsetb S (args F)]; repetitions do
   not matter for a set) *)
Definition hit (F : af) (S : list nat) : list nat := flat_map (attacked F) S.
Definition t_membersb (F : af) (S : list nat) : bool := subsetb S (args F).
Definition t_cfb (F : af) (S : list nat) : bool := forallb (fun a => negb (memb a (hit F S))) S.
Definition t_admb (F : af) (S : list nat) : bool :=
  forallb (fun a => subsetb (attackers F a) (hit F S)) S.
Definition t_cob (F : af) (S : list nat) : bool :=
  forallb (fun a => memb a S || negb (subsetb (attackers F a) (hit F S))) (args F).
Definition t_stb (F : af) (S : list nat) : bool :=
  forallb (fun a => memb a S || memb a (hit F S)) (args F).
Definition t_grb (F : af) (S : list nat) : bool := seteqb S (lfp F).

(* the tests applied to a set returned for semantics s (python `base`) *)
Definition poly_cert_test (s : sem) (F : af) (S : list nat) : bool :=
  t_membersb F S && t_cfb F S &&
  match s with
  | STG => true
  | ST => t_admb F S && t_stb F S
  | GR => t_admb F S && t_cob F S && t_grb F S
  | CO | PR | SST | ID => t_admb F S && t_cob F S
  end.

(* ---------- the python computation of G and D (unit propagation) ----------
   one sweep over the arguments in order; an argument that is not yet in G nor in D and whose
   attackers are all in D enters G, its targets enter D; sweeps are repeated until nothing changes
   (at most one sweep per argument plus one). *)
Definition prop_step (F : af) (st : list nat * list nat) (a : nat) : list nat * list nat :=
  let (G, D) := st in
  if negb (memb a G) && negb (memb a D) && subsetb (attackers F a) D
  then (a :: G, attacked F a ++ D) else (G, D).
Definition prop_sweep (F : af) (st : list nat * list nat) : list nat * list nat :=
  fold_left (prop_step F) (args F) st.
Fixpoint prop_iter (F : af) (k : nat) (st : list nat * list nat) : list nat * list nat :=
  match k with
  | O => st
  | Datatypes.S k' => prop_iter F k' (prop_sweep F st)
  end.
Definition prop_ground (F : af) : list nat * list nat :=
  prop_iter F (Datatypes.S (length (args F))) ([], []).
