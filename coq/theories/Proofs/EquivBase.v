(* Lemmas on Model/Equiv.v, part 1: counting of attacks, the invariant of [propagate], its
   soundness with respect to the complete extensions, absence of panic and fuel sufficiency. *)
From Coq Require Import List Arith Bool Lia ZifyBool Permutation.
From Crusta Require Import Spec.AF Spec.SemFacts Model.Store Model.Graph Model.Equiv
  Proofs.EncSpec Proofs.StoreBase.
Import ListNotations.

(* ------------------------------------------------------------------ *)
(** * Generic list facts *)

Lemma nth_nat_set_eq : forall i x l, i < length l -> nth_nat (set_nth i x l) i = x.
Proof. intros i x l H. unfold nth_nat. apply nth_set_nth_eq. exact H. Qed.

Lemma nth_nat_set_neq : forall i j x l, i <> j -> nth_nat (set_nth i x l) j = nth_nat l j.
Proof. intros i j x l H. unfold nth_nat. apply nth_set_nth_neq. exact H. Qed.

Lemma nth_bool_set_eq : forall i l, i < length l -> nth_bool (set_nth i true l) i = true.
Proof. intros i l H. unfold nth_bool. apply nth_set_nth_eq. exact H. Qed.

Lemma nth_bool_set_neq : forall i j x l, i <> j -> nth_bool (set_nth i x l) j = nth_bool l j.
Proof. intros i j x l H. unfold nth_bool. apply nth_set_nth_neq. exact H. Qed.

Lemma nth_bool_set_true : forall i j l, i < length l ->
  (nth_bool (set_nth i true l) j = true <-> j = i \/ nth_bool l j = true).
Proof.
  intros i j l H. destruct (Nat.eq_dec i j) as [E|E].
  - subst j. rewrite nth_bool_set_eq by exact H. split; [intros _; left; reflexivity | reflexivity].
  - rewrite nth_bool_set_neq by exact E. split.
    + intros K. right. exact K.
    + intros [K|K]; [exfalso; apply E; symmetry; exact K | exact K].
Qed.

Lemma nth_repeat_false : forall n i, nth_bool (repeat false n) i = false.
Proof.
  intros n i. unfold nth_bool. revert i. induction n as [|n IH]; intros [|i]; cbn [repeat nth];
    try reflexivity. apply IH.
Qed.

Lemma nth_repeat_None : forall (A : Type) n i, nth i (repeat (@None A) n) None = None.
Proof.
  intros A n. induction n as [|n IH]; intros [|i]; cbn [repeat nth]; try reflexivity. apply IH.
Qed.

Lemma nth_nat_repeat0 : forall n i, nth_nat (repeat 0 n) i = 0.
Proof.
  intros n i. unfold nth_nat. revert i. induction n as [|n IH]; intros [|i]; cbn [repeat nth];
    try reflexivity. apply IH.
Qed.

(* number of occurrences *)
Definition occ (x : nat) (l : list nat) : nat := length (filter (Nat.eqb x) l).

Lemma occ_nil : forall x, occ x [] = 0.
Proof. reflexivity. Qed.

Lemma occ_cons_eq : forall x l, occ x (x :: l) = S (occ x l).
Proof. intros x l. unfold occ. cbn [filter]. rewrite Nat.eqb_refl. reflexivity. Qed.

Lemma occ_cons_neq : forall x y l, x <> y -> occ x (y :: l) = occ x l.
Proof.
  intros x y l H. unfold occ. cbn [filter]. destruct (Nat.eqb x y) eqn:E; [|reflexivity].
  apply Nat.eqb_eq in E. contradiction.
Qed.

(* the generic invariant rule for [ofold]: [l0] is the whole list, [done] what has been processed *)
Lemma ofold_inv : forall (S A : Type) (f : S -> A -> outcome S) (I : list A -> S -> Prop) (l0 : list A),
  (forall done x rest s s', l0 = done ++ x :: rest -> I done s -> f s x = Done s' -> I (done ++ [x]) s') ->
  forall l done s s', l0 = done ++ l -> I done s -> ofold f l s = Done s' -> I l0 s'.
Proof.
  intros S A f I l0 Hstep. induction l as [|x r IH]; intros done s s' Hl HI Hf.
  - cbn [ofold] in Hf. inversion Hf; subst. rewrite app_nil_r. exact HI.
  - cbn [ofold] in Hf. destruct (f s x) as [s1| |] eqn:E; try discriminate.
    apply (IH (done ++ [x]) s1 s').
    + rewrite <- app_assoc. exact Hl.
    + apply (Hstep done x r s s1); [exact Hl | exact HI | exact E].
    + exact Hf.
Qed.

Lemma ofold_total : forall (S A : Type) (f : S -> A -> outcome S) (l : list A),
  (forall s x, exists s', f s x = Done s') -> forall s, exists s', ofold f l s = Done s'.
Proof.
  intros S A f l Hf. induction l as [|x r IH]; intros s.
  - exists s. reflexivity.
  - cbn [ofold]. destruct (Hf s x) as [s1 E]. rewrite E. apply IH.
Qed.

(* ------------------------------------------------------------------ *)
(** * Counting attacks *)

(* attacks to [x] whose source is not in [D] *)
Definition livel (l : list (nat * nat)) (D : list nat) (x : nat) : nat :=
  length (filter (fun p => negb (memb (fst p) D) && Nat.eqb (snd p) x) l).
Definition live (F : af) := livel (atts F).
Definition attackedl (l : list (nat * nat)) (a : nat) : list nat :=
  map snd (filter (fun p => Nat.eqb (fst p) a) l).

Lemma attacked_attackedl : forall F a, attacked F a = attackedl (atts F) a.
Proof. reflexivity. Qed.

Lemma live_nil : forall F x, live F [] x = length (attackers F x).
Proof.
  intros F x. unfold live, livel, attackers. rewrite map_length.
  f_equal.
Qed.

Lemma live_zero : forall F D x b, live F D x = 0 -> att F b x -> In b D.
Proof.
  intros F D x b H Hb. unfold live, livel in H. apply length_zero_iff_nil in H.
  unfold att in Hb. destruct (memb b D) eqn:E; [apply memb_In; exact E|].
  exfalso. assert (K : In (b, x) (filter (fun p => negb (memb (fst p) D) && Nat.eqb (snd p) x) (atts F))).
  { apply filter_In. split; [exact Hb|]. cbn [fst snd]. rewrite E, Nat.eqb_refl. reflexivity. }
  rewrite H in K. destruct K.
Qed.

Lemma memb_app : forall a l1 l2, memb a (l1 ++ l2) = memb a l1 || memb a l2.
Proof. intros a l1 l2. unfold memb. apply existsb_app. Qed.

Lemma memb_single : forall a b, memb a [b] = Nat.eqb a b.
Proof. intros a b. unfold memb. cbn [existsb]. apply orb_false_r. Qed.

Lemma livel_snoc : forall l D a x, ~ In a D ->
  livel l D x = livel l (D ++ [a]) x + occ x (attackedl l a).
Proof.
  intros l D a x Ha. apply memb_false in Ha.
  induction l as [|[u v] r IH]; [reflexivity|].
  unfold livel, attackedl, occ in *. cbn [filter fst snd].
  rewrite memb_app, memb_single.
  destruct (memb u D) eqn:E1, (Nat.eqb u a) eqn:E2, (Nat.eqb v x) eqn:E3;
    try (apply Nat.eqb_eq in E2; subst u; congruence);
    cbn [negb orb andb map filter length snd]; rewrite ?(Nat.eqb_sym x v), ?E3;
    cbn [length]; lia.
Qed.

Lemma live_snoc : forall F D a x, ~ In a D ->
  live F D x = live F (D ++ [a]) x + occ x (attacked F a).
Proof. intros F D a x H. unfold live. rewrite attacked_attackedl. apply livel_snoc. exact H. Qed.

(* n_attacks_to counts the attackers *)
Lemma n_attacks_to_fold : forall (l : list (nat * nat)) (c : list nat) (x : nat),
  (forall a b, In (a, b) l -> b < length c) ->
  let c' := fold_left (fun c p => set_nth (snd p) (S (nth_nat c (snd p))) c) l c in
  length c' = length c /\
  nth_nat c' x = nth_nat c x + length (filter (fun p => Nat.eqb (snd p) x) l).
Proof.
  induction l as [|[u v] r IH]; intros c x Hok; cbn [fold_left filter snd length].
  - split; [reflexivity | lia].
  - assert (Hv : v < length c) by (apply (Hok u v); left; reflexivity).
    destruct (IH (set_nth v (S (nth_nat c v)) c) x) as [IH1 IH2].
    { intros a b Hab. rewrite length_set_nth. apply (Hok a b). right. exact Hab. }
    cbv zeta in IH1, IH2. rewrite length_set_nth in IH1. split; [exact IH1|].
    rewrite IH2. destruct (Nat.eqb v x) eqn:E.
    + apply Nat.eqb_eq in E. subst x. rewrite nth_nat_set_eq by exact Hv. cbn [length]. lia.
    + apply Nat.eqb_neq in E. rewrite nth_nat_set_neq by exact E. lia.
Qed.

Lemma n_attacks_to_spec : forall F n, compact_af F n ->
  length (n_attacks_to F) = n /\
  forall x, nth_nat (n_attacks_to F) x = length (attackers F x).
Proof.
  intros F n [Hargs Hok]. unfold n_attacks_to.
  assert (Hlen : length (args F) = n) by (rewrite Hargs; apply seq_length).
  rewrite Hlen.
  assert (Hb : forall a b, In (a, b) (atts F) -> b < length (repeat 0 n)).
  { intros a b Hab. rewrite repeat_length. apply (Hok a b). exact Hab. }
  split.
  - destruct (n_attacks_to_fold (atts F) (repeat 0 n) 0 Hb) as [H _]. cbv zeta in H.
    rewrite H. apply repeat_length.
  - intros x. destruct (n_attacks_to_fold (atts F) (repeat 0 n) x Hb) as [_ H]. cbv zeta in H.
    rewrite H, nth_nat_repeat0. unfold attackers. rewrite map_length. reflexivity.
Qed.

Lemma NoDup_bounded_length : forall (l : list nat) n, NoDup l -> (forall x, In x l -> x < n) -> length l <= n.
Proof.
  intros l n Hnd Hb. rewrite <- (seq_length n 0). apply NoDup_incl_length; [exact Hnd|].
  intros x Hx. apply in_seq. specialize (Hb x Hx). lia.
Qed.

(* ------------------------------------------------------------------ *)
(** * The invariant of [propagate] *)

Section Propagate.
Variable F : af.
Variable n : nat.
Hypothesis HF : compact_af F n.
Variable seeds : list nat.

(* what the propagation derives: [din] "must be in", [dout] "must be attacked by something in" *)
Inductive din : nat -> Prop :=
  | din_seed : forall x, In x seeds -> din x
  | din_def : forall x, x < n -> (forall b, att F b x -> dout b) -> din x
with dout : nat -> Prop :=
  | dout_att : forall p d, din p -> att F p d -> dout d.

Scheme din_mind := Minimality for din Sort Prop
  with dout_mind := Minimality for dout Sort Prop.
Combined Scheme din_dout_mind from din_mind, dout_mind.

Lemma att_lt : forall a b, att F a b -> a < n /\ b < n.
Proof. intros a b H. destruct HF as [_ Hok]. apply (Hok a b). exact H. Qed.

Lemma args_lt : forall x, In x (args F) <-> x < n.
Proof. intros x. destruct HF as [Ha _]. rewrite Ha, in_seq. lia. Qed.

(* soundness of the derivations for every complete extension containing the seeds *)
Lemma derivations_sound : forall E, co F E -> incl seeds E ->
  (forall x, din x -> In x E) /\ (forall d, dout d -> exists c, In c E /\ att F c d).
Proof.
  intros E Hco Hs. apply din_dout_mind.
  - intros x Hx. apply Hs. exact Hx.
  - intros x Hx _ IH. destruct Hco as [_ Hc]. apply Hc.
    + apply args_lt. exact Hx.
    + intros b Hb. apply IH. exact Hb.
  - intros p d _ Hp Hpd. exists p. split; [exact Hp | exact Hpd].
Qed.

(* with unattacked seeds nothing is derived both ways *)
Lemma derivations_disjoint : (forall x b, In x seeds -> ~ att F b x) ->
  (forall x, din x -> ~ dout x) /\ (forall d, dout d -> ~ din d).
Proof.
  intros Hun. apply din_dout_mind.
  - intros x Hx Hd. inversion Hd as [p d _ Hpd]; subst. exact (Hun x p Hx Hpd).
  - intros x _ _ IH Hd. inversion Hd as [p d Hp Hpd]; subst. exact (IH p Hpd Hp).
  - intros p d _ IH Hpd Hd. inversion Hd as [x Hx|x _ Hall]; subst.
    + exact (Hun d p Hx Hpd).
    + exact (IH (Hall p Hpd)).
Qed.

Definition PI (rest : list nat) (s : pstate) : Prop :=
  length (p_cnt s) = n /\
  (forall x, x < n -> ~ In x seeds -> nth_nat (p_cnt s) x = live F (p_def s) x + occ x rest) /\
  (exists pushed, p_prop s = seeds ++ pushed /\ NoDup pushed /\
     forall x, In x pushed -> ~ In x seeds /\ x < n /\ nth_nat (p_cnt s) x = 0) /\
  NoDup (p_def s) /\ (forall d, In d (p_def s) -> d < n) /\
  (forall x, In x (p_prop s) -> din x) /\ (forall d, In d (p_def s) -> dout d).

Lemma defend_step : forall x0 rest s, PI (x0 :: rest) s -> x0 < n ->
  exists s', p_defend seeds s x0 = Done s' /\ PI rest s' /\ p_def s' = p_def s /\
             length (p_prop s) <= length (p_prop s').
Proof.
  intros x0 rest s (Hlen & Hcnt & (pushed & Hprop & Hnd & Hpushed) & HndD & HltD & Hdin & Hdout) Hx0.
  unfold p_defend. destruct (memb x0 seeds) eqn:Es.
  - exists s. split; [reflexivity|]. split; [|split; [reflexivity | lia]].
    apply memb_In in Es.
    split; [exact Hlen|]. split.
    { intros x Hx Hns. rewrite (Hcnt x Hx Hns). f_equal. apply occ_cons_neq.
      intros E. subst x0. exact (Hns Es). }
    split; [exists pushed; auto|]. auto.
  - apply memb_false in Es. pose proof (Hcnt x0 Hx0 Es) as Hc. rewrite occ_cons_eq in Hc.
    destruct (nth_nat (p_cnt s) x0) as [|k] eqn:Ek; [lia|].
    eexists. split; [reflexivity|]. unfold PI. cbn [p_def p_prop p_cnt].
    assert (Hnotpushed : ~ In x0 pushed).
    { intros Hin. destruct (Hpushed x0 Hin) as (_ & _ & Hz). lia. }
    split; [|split; [reflexivity|]].
    2:{ destruct (Nat.eqb k 0); [rewrite app_length; cbn [length]; lia | lia]. }
    split; [rewrite length_set_nth; exact Hlen|]. split.
    { intros x Hx Hns. destruct (Nat.eq_dec x0 x) as [E|E].
      - subst x. rewrite nth_nat_set_eq by lia. lia.
      - rewrite nth_nat_set_neq by exact E. rewrite (Hcnt x Hx Hns). f_equal.
        apply occ_cons_neq. intros E'. apply E. symmetry. exact E'. }
    assert (Hold : forall x, In x pushed -> ~ In x seeds /\ x < n /\
                     nth_nat (set_nth x0 k (p_cnt s)) x = 0).
    { intros x Hin. destruct (Hpushed x Hin) as (H1 & H2 & H3). split; [exact H1|]. split; [exact H2|].
      rewrite nth_nat_set_neq; [exact H3|]. intros E. subst x. exact (Hnotpushed Hin). }
    destruct (Nat.eqb k 0) eqn:Ek0.
    + apply Nat.eqb_eq in Ek0. subst k.
      split.
      { exists (pushed ++ [x0]). split; [rewrite Hprop, app_assoc; reflexivity|].
        split; [apply NoDup_snoc; assumption|].
        intros x Hin. apply in_app_or in Hin. destruct Hin as [Hin|[Hin|[]]].
        - apply Hold. exact Hin.
        - subst x. split; [exact Es|]. split; [exact Hx0|]. apply nth_nat_set_eq. lia. }
      split; [exact HndD|]. split; [exact HltD|]. split; [|exact Hdout].
      intros x Hin. apply in_app_or in Hin. destruct Hin as [Hin|[Hin|[]]]; [apply Hdin; exact Hin|].
      subst x. apply din_def; [exact Hx0|]. intros b Hb. apply Hdout.
      apply (live_zero F (p_def s) x0 b); [lia | exact Hb].
    + split; [exists pushed; auto|]. auto.
Qed.

Lemma defend_all : forall l s, PI l s -> (forall x, In x l -> x < n) ->
  exists s', ofold (p_defend seeds) l s = Done s' /\ PI [] s' /\ p_def s' = p_def s /\
             length (p_prop s) <= length (p_prop s').
Proof.
  induction l as [|x0 r IH]; intros s HPI Hlt.
  - exists s. cbn [ofold]. split; [reflexivity|]. split; [exact HPI|]. split; [reflexivity | lia].
  - destruct (defend_step x0 r s HPI) as (s1 & E1 & HPI1 & Hd1 & Hl1); [apply Hlt; left; reflexivity|].
    destruct (IH s1 HPI1) as (s2 & E2 & HPI2 & Hd2 & Hl2); [intros x Hx; apply Hlt; right; exact Hx|].
    exists s2. cbn [ofold]. rewrite E1. split; [exact E2|]. split; [exact HPI2|].
    split; [congruence | lia].
Qed.

Lemma attack_all : forall l s id, PI [] s -> din id -> (forall a, In a l -> att F id a) ->
  (exists s', p_attack_all F seeds l s = Done (Some s') /\ PI [] s' /\
              length (p_prop s) <= length (p_prop s')) \/
  (p_attack_all F seeds l s = Done None /\ exists a, din a /\ att F id a).
Proof.
  induction l as [|a r IH]; intros s id HPI Hid Hatt.
  - left. exists s. cbn [p_attack_all]. split; [reflexivity|]. split; [exact HPI | lia].
  - cbn [p_attack_all]. assert (Ha : att F id a) by (apply Hatt; left; reflexivity).
    assert (Hr : forall b, In b r -> att F id b) by (intros b Hb; apply Hatt; right; exact Hb).
    destruct (memb a (p_prop s)) eqn:Ep.
    { right. split; [reflexivity|]. exists a. split; [|exact Ha].
      destruct HPI as (_ & _ & _ & _ & _ & Hdin & _). apply Hdin. apply memb_In. exact Ep. }
    destruct (memb a (p_def s)) eqn:Ed.
    { apply IH; assumption. }
    apply memb_false in Ed.
    set (s1 := {| p_cnt := p_cnt s; p_prop := p_prop s; p_def := p_def s ++ [a] |}).
    assert (HPI1 : PI (attacked F a) s1).
    { destruct HPI as (Hlen & Hcnt & Hpush & HndD & HltD & Hdin & Hdout).
      unfold s1. split; [exact Hlen|]. cbn [p_cnt p_prop p_def]. split.
      { intros x Hx Hns. rewrite (Hcnt x Hx Hns), occ_nil, Nat.add_0_r. apply live_snoc. exact Ed. }
      split; [exact Hpush|]. split; [apply NoDup_snoc; assumption|]. split.
      { intros d Hd. apply in_app_or in Hd. destruct Hd as [Hd|[Hd|[]]]; [apply HltD; exact Hd|].
        subst d. apply (att_lt id a Ha). }
      split; [exact Hdin|].
      intros d Hd. apply in_app_or in Hd. destruct Hd as [Hd|[Hd|[]]]; [apply Hdout; exact Hd|].
      subst d. apply (dout_att id a Hid Ha). }
    destruct (defend_all (attacked F a) s1 HPI1) as (s2 & E2 & HPI2 & _ & Hl2).
    { intros x Hx. apply in_attacked in Hx. apply (att_lt a x Hx). }
    fold s1. rewrite E2.
    destruct (IH s2 id HPI2 Hid Hr) as [(s3 & E3 & HPI3 & Hl3)|[E3 Hc]].
    + left. exists s3. split; [exact E3|]. split; [exact HPI3|]. unfold s1 in Hl2. cbn [p_prop] in Hl2. lia.
    + right. split; [exact E3 | exact Hc].
Qed.

Lemma PI_prop_length : forall s, PI [] s -> length (p_prop s) <= length seeds + n.
Proof.
  intros s (_ & _ & (pushed & Hprop & Hnd & Hpushed) & _). rewrite Hprop, app_length.
  assert (length pushed <= n); [|lia]. apply NoDup_bounded_length; [exact Hnd|].
  intros x Hx. apply (Hpushed x Hx).
Qed.

Lemma loop_inv : forall fuel idx s, PI [] s -> idx <= length (p_prop s) ->
  length seeds + n < fuel + idx ->
  match p_loop fuel F seeds idx s with
  | Done (Some (P, D)) => exists s', PI [] s' /\ P = p_prop s' /\ D = p_def s'
  | Done None => exists id a, din id /\ din a /\ att F id a
  | Panic => False
  | OutOfFuel => False
  end.
Proof.
  induction fuel as [|f IH]; intros idx s HPI Hidx Hfuel.
  - pose proof (PI_prop_length s HPI). lia.
  - cbn [p_loop]. destruct (nth_error (p_prop s) idx) as [id|] eqn:En.
    2:{ exists s. auto. }
    assert (Hlt : idx < length (p_prop s)) by (apply nth_error_Some; congruence).
    assert (Hid : din id).
    { destruct HPI as (_ & _ & _ & _ & _ & Hdin & _). apply Hdin. apply (nth_error_In _ _ En). }
    destruct (attack_all (attacked F id) s id HPI Hid) as [(s' & E & HPI' & Hl)|[E (a & Ha1 & Ha2)]].
    { intros a Ha. apply in_attacked. exact Ha. }
    + rewrite E. apply IH; [exact HPI' | lia | lia].
    + rewrite E. exists id, a. auto.
Qed.

Lemma init_PI : PI [] {| p_cnt := n_attacks_to F; p_prop := seeds; p_def := [] |}.
Proof.
  destruct (n_attacks_to_spec F n HF) as [Hlen Hnth].
  split; [exact Hlen|]. cbn [p_cnt p_prop p_def]. split.
  { intros x _ _. rewrite Hnth, live_nil, occ_nil. lia. }
  split.
  { exists []. split; [rewrite app_nil_r; reflexivity|]. split; [constructor|]. intros x []. }
  split; [constructor|]. split; [intros d []|]. split; [|intros d []].
  intros x Hx. apply din_seed. exact Hx.
Qed.

Lemma propagate_inv :
  match propagate F (n_attacks_to F) seeds with
  | Done (Some (P, D)) => exists s', PI [] s' /\ P = p_prop s' /\ D = p_def s'
  | Done None => exists id a, din id /\ din a /\ att F id a
  | Panic => False
  | OutOfFuel => False
  end.
Proof.
  unfold propagate. apply loop_inv.
  - apply init_PI.
  - lia.
  - unfold propagate_fuel. destruct HF as [Ha _]. rewrite Ha, seq_length. lia.
Qed.

End Propagate.

(* ------------------------------------------------------------------ *)
(** * Consequences for [propagate] *)

(* (a) soundness: a result, and a conflict *)
Theorem propagate_sound : forall F n seeds P D, compact_af F n ->
  propagate F (n_attacks_to F) seeds = Done (Some (P, D)) ->
  forall E, co F E -> incl seeds E -> incl P E /\ forall d, In d D -> ~ In d E.
Proof.
  intros F n seeds P D HF Hp E Hco Hs.
  pose proof (propagate_inv F n HF seeds) as H. rewrite Hp in H.
  destruct H as (s' & (_ & _ & _ & _ & _ & Hdin & Hdout) & -> & ->).
  destruct (derivations_sound F n HF seeds E Hco Hs) as [H1 H2]. split.
  - intros x Hx. apply H1. apply Hdin. exact Hx.
  - intros d Hd Hin. destruct (H2 d (Hdout d Hd)) as (c & Hc & Hcd).
    destruct Hco as [[_ [Hcf _]] _]. exact (Hcf c d Hc Hin Hcd).
Qed.

Theorem propagate_conflict : forall F n seeds, compact_af F n ->
  propagate F (n_attacks_to F) seeds = Done None ->
  ~ exists E, co F E /\ incl seeds E.
Proof.
  intros F n seeds HF Hp [E [Hco Hs]].
  pose proof (propagate_inv F n HF seeds) as H. rewrite Hp in H.
  destruct H as (id & a & H1 & H2 & H3).
  destruct (derivations_sound F n HF seeds E Hco Hs) as [K _].
  destruct Hco as [[_ [Hcf _]] _]. exact (Hcf id a (K id H1) (K a H2) H3).
Qed.

(* totality: neither a panic (counter underflow) nor out of fuel *)
Theorem propagate_total : forall F n seeds, compact_af F n ->
  exists r, propagate F (n_attacks_to F) seeds = Done r.
Proof.
  intros F n seeds HF. pose proof (propagate_inv F n HF seeds) as H.
  destruct (propagate F (n_attacks_to F) seeds) as [r| |]; [exists r; reflexivity | destruct H | destruct H].
Qed.

(* shape of a result *)
Lemma propagate_shape : forall F n seeds P D, compact_af F n ->
  propagate F (n_attacks_to F) seeds = Done (Some (P, D)) ->
  (exists pushed, P = seeds ++ pushed /\ NoDup pushed /\
     forall x, In x pushed -> ~ In x seeds /\ x < n) /\
  NoDup D /\ (forall d, In d D -> d < n).
Proof.
  intros F n seeds P D HF Hp.
  pose proof (propagate_inv F n HF seeds) as H. rewrite Hp in H.
  destruct H as (s' & (_ & _ & (pushed & H1 & H2 & H3) & H4 & H5 & _) & -> & ->).
  split; [|split; assumption].
  exists pushed. split; [exact H1|]. split; [exact H2|].
  intros x Hx. destruct (H3 x Hx) as (K1 & K2 & _). split; assumption.
Qed.

(* unattacked seeds: never a conflict, and the two results are disjoint *)
Lemma propagate_unattacked : forall F n seeds, compact_af F n ->
  (forall x b, In x seeds -> ~ att F b x) ->
  exists P D, propagate F (n_attacks_to F) seeds = Done (Some (P, D)) /\
              forall x, In x P -> ~ In x D.
Proof.
  intros F n seeds HF Hun.
  pose proof (propagate_inv F n HF seeds) as H.
  destruct (derivations_disjoint F n seeds Hun) as [Hd1 Hd2].
  destruct (propagate F (n_attacks_to F) seeds) as [[[P D]|]| |]; [| |destruct H|destruct H].
  - destruct H as (s' & H & -> & ->). destruct H as (_ & _ & _ & _ & _ & Hdin & Hdout).
    eexists _, _. split; [reflexivity|]. intros x Hx HxD. exact (Hd1 x (Hdin x Hx) (Hdout x HxD)).
  - destruct H as (x & a & H1 & H2 & H3). exfalso.
    apply (Hd1 a H2). apply (dout_att F n seeds x a H1 H3).
Qed.

(* ------------------------------------------------------------------ *)
(** * Exactness for the unattacked seeds: the result is the grounded extension *)

Lemma live_zero_conv : forall F D x, (forall b, att F b x -> In b D) -> live F D x = 0.
Proof.
  intros F D x H. unfold live, livel. apply length_zero_iff_nil.
  destruct (filter _ (atts F)) as [|[u v] r] eqn:E; [reflexivity|]. exfalso.
  assert (K : In (u, v) (filter (fun p => negb (memb (fst p) D) && Nat.eqb (snd p) x) (atts F))).
  { rewrite E. left. reflexivity. }
  apply filter_In in K. destruct K as [K1 K2]. cbn [fst snd] in K2.
  apply andb_true_iff in K2. destruct K2 as [K2 K3]. apply Nat.eqb_eq in K3. subst v.
  apply negb_true_iff in K2. apply memb_false in K2. apply K2. apply H. exact K1.
Qed.

Section Exact.
Variable F : af.
Variable n : nat.
Hypothesis HF : compact_af F n.
Variable seeds : list nat.

Definition PX (s : pstate) : Prop :=
  length (p_cnt s) = n /\
  (forall d, In d (p_def s) -> exists p, In p (p_prop s) /\ att F p d) /\
  (forall x, x < n -> ~ In x seeds -> nth_nat (p_cnt s) x = 0 ->
             In x (p_prop s) \/ attackers F x = []).

Lemma defend_step_x : forall s x0 s', p_defend seeds s x0 = Done s' -> x0 < n -> PX s ->
  PX s' /\ (exists e, p_prop s' = p_prop s ++ e) /\ p_def s' = p_def s.
Proof.
  intros s x0 s' H Hx0 (Hlen & Hj & Hz). unfold p_defend in H.
  destruct (memb x0 seeds).
  { inversion H; subst s'. split; [split; [exact Hlen|split; assumption]|].
    split; [exists []; rewrite app_nil_r; reflexivity | reflexivity]. }
  destruct (nth_nat (p_cnt s) x0) as [|k] eqn:Ek; [discriminate|].
  inversion H; subst s'; clear H. cbn [p_cnt p_prop p_def].
  assert (Hsub : forall y, In y (p_prop s) -> In y (if Nat.eqb k 0 then p_prop s ++ [x0] else p_prop s)).
  { intros y Hy. destruct (Nat.eqb k 0); [apply in_or_app; left; exact Hy | exact Hy]. }
  split; [|split; [|reflexivity]].
  - unfold PX. cbn [p_cnt p_prop p_def]. split; [rewrite length_set_nth; exact Hlen|]. split.
    + intros d Hd. destruct (Hj d Hd) as (p & Hp & Hpd). exists p. split; [apply Hsub; exact Hp | exact Hpd].
    + intros x Hx Hns Hc. destruct (Nat.eq_dec x0 x) as [E|E].
      * subst x. rewrite nth_nat_set_eq in Hc by lia. subst k. left. cbn [Nat.eqb].
        apply in_or_app. right. left. reflexivity.
      * rewrite nth_nat_set_neq in Hc by exact E. destruct (Hz x Hx Hns Hc) as [K|K]; [left; apply Hsub; exact K | right; exact K].
  - destruct (Nat.eqb k 0); [exists [x0]; reflexivity | exists []; rewrite app_nil_r; reflexivity].
Qed.

Lemma defend_all_x : forall l s s', ofold (p_defend seeds) l s = Done s' ->
  (forall x, In x l -> x < n) -> PX s ->
  PX s' /\ (exists e, p_prop s' = p_prop s ++ e) /\ p_def s' = p_def s.
Proof.
  induction l as [|x0 r IH]; intros s s' H Hlt HP; cbn [ofold] in H.
  - inversion H; subst s'. split; [exact HP|]. split; [exists []; rewrite app_nil_r; reflexivity | reflexivity].
  - destruct (p_defend seeds s x0) as [s1| |] eqn:E; try discriminate.
    destruct (defend_step_x s x0 s1 E) as (HP1 & (e1 & He1) & Hd1); [apply Hlt; left; reflexivity | exact HP|].
    destruct (IH s1 s' H) as (HP2 & (e2 & He2) & Hd2); [intros x Hx; apply Hlt; right; exact Hx | exact HP1|].
    split; [exact HP2|]. split; [exists (e1 ++ e2); rewrite He2, He1, app_assoc; reflexivity | congruence].
Qed.

Lemma attack_all_x : forall l s id s', p_attack_all F seeds l s = Done (Some s') ->
  In id (p_prop s) -> (forall a, In a l -> att F id a) -> PX s ->
  PX s' /\ (exists e, p_prop s' = p_prop s ++ e) /\ incl (p_def s) (p_def s') /\
  forall a, In a l -> In a (p_def s').
Proof.
  induction l as [|a r IH]; intros s id s' H Hid Hatt HP; cbn [p_attack_all] in H.
  - inversion H; subst s'. split; [exact HP|]. split; [exists []; rewrite app_nil_r; reflexivity|].
    split; [apply incl_refl | intros a []].
  - assert (Ha : att F id a) by (apply Hatt; left; reflexivity).
    assert (Hr : forall b, In b r -> att F id b) by (intros b Hb; apply Hatt; right; exact Hb).
    destruct (memb a (p_prop s)); [discriminate|].
    destruct (memb a (p_def s)) eqn:Ed.
    { destruct (IH s id s' H Hid Hr HP) as (K1 & K2 & K3 & K4). split; [exact K1|]. split; [exact K2|].
      split; [exact K3|]. intros b [Hb|Hb]; [subst b; apply K3; apply memb_In; exact Ed | apply K4; exact Hb]. }
    set (s1 := {| p_cnt := p_cnt s; p_prop := p_prop s; p_def := p_def s ++ [a] |}) in H.
    destruct (ofold (p_defend seeds) (attacked F a) s1) as [s2| |] eqn:E2; try discriminate.
    assert (HP1 : PX s1).
    { destruct HP as (Hlen & Hj & Hz). unfold PX, s1. cbn [p_cnt p_prop p_def].
      split; [exact Hlen|]. split; [|exact Hz].
      intros d Hd. apply in_app_or in Hd. destruct Hd as [Hd|[Hd|[]]]; [apply Hj; exact Hd|].
      subst d. exists id. split; [exact Hid | exact Ha]. }
    destruct (defend_all_x (attacked F a) s1 s2 E2) as (HP2 & (e2 & He2) & Hd2); [|exact HP1|].
    { intros x Hx. apply in_attacked in Hx. apply (att_lt F n HF a x Hx). }
    unfold s1 in He2, Hd2. cbn [p_prop p_def] in He2, Hd2.
    destruct (IH s2 id s' H) as (K1 & (e3 & He3) & K3 & K4); [rewrite He2; apply in_or_app; left; exact Hid | exact Hr | exact HP2|].
    split; [exact K1|]. split; [exists (e2 ++ e3); rewrite He3, He2, app_assoc; reflexivity|].
    assert (Hinc : incl (p_def s ++ [a]) (p_def s')) by (rewrite <- Hd2; exact K3).
    split.
    + intros d Hd. apply Hinc. apply in_or_app. left. exact Hd.
    + intros b [Hb|Hb]; [subst b; apply Hinc; apply in_or_app; right; left; reflexivity | apply K4; exact Hb].
Qed.

Definition Proc (idx : nat) (s : pstate) : Prop :=
  forall i p, i < idx -> nth_error (p_prop s) i = Some p -> forall a, att F p a -> In a (p_def s).

Lemma loop_x : forall fuel idx s P D, p_loop fuel F seeds idx s = Done (Some (P, D)) ->
  PI F n seeds [] s -> PX s -> Proc idx s ->
  exists s', P = p_prop s' /\ D = p_def s' /\ PI F n seeds [] s' /\ PX s' /\
             forall p, In p P -> forall a, att F p a -> In a D.
Proof.
  induction fuel as [|f IH]; intros idx s P D H HPI HP Hproc; cbn [p_loop] in H; [discriminate|].
  destruct (nth_error (p_prop s) idx) as [id|] eqn:En.
  2:{ inversion H; subst P D. exists s. split; [reflexivity|]. split; [reflexivity|].
      split; [exact HPI|]. split; [exact HP|].
      intros p Hp a Ha. apply In_nth_error in Hp. destruct Hp as [i Hi].
      apply (Hproc i p); [|exact Hi|exact Ha].
      apply nth_error_None in En. assert (i < length (p_prop s)) by (apply nth_error_Some; congruence). lia. }
  assert (Hidin : In id (p_prop s)) by (apply (nth_error_In _ _ En)).
  assert (Hid : din F n seeds id).
  { destruct HPI as (_ & _ & _ & _ & _ & Hdin & _). apply Hdin. exact Hidin. }
  destruct (attack_all F n HF seeds (attacked F id) s id HPI Hid) as [(s1 & E & HPI1 & _)|[E _]].
  { intros a Ha. apply in_attacked. exact Ha. }
  2:{ rewrite E in H. discriminate. }
  rewrite E in H.
  destruct (attack_all_x (attacked F id) s id s1 E Hidin) as (HP1 & (e & He) & Hinc & Hall);
    [intros a Ha; apply in_attacked; exact Ha | exact HP|].
  apply (IH (S idx) s1 P D H HPI1 HP1).
  intros i p Hi Hn a Ha.
  assert (Hlt : idx < length (p_prop s)) by (apply nth_error_Some; congruence).
  rewrite He in Hn. rewrite nth_error_app1 in Hn by lia.
  destruct (Nat.eq_dec i idx) as [->|Hne].
  - rewrite En in Hn. inversion Hn; subst p. apply Hall. apply in_attacked. exact Ha.
  - apply Hinc. apply (Hproc i p); [lia | exact Hn | exact Ha].
Qed.

(* the seeds are exactly the unattacked arguments *)
Hypothesis Hseeds : forall x, In x seeds <-> x < n /\ attackers F x = [].

Lemma grounded_exact : forall P D,
  propagate F (n_attacks_to F) seeds = Done (Some (P, D)) ->
  co F P /\ forall d, In d D <-> exists p, In p P /\ att F p d.
Proof.
  intros P D H. unfold propagate in H.
  destruct (n_attacks_to_spec F n HF) as [Hlen Hnth].
  destruct (loop_x _ 0 _ P D H) as (s' & -> & -> & HPI & HP & Hall).
  { apply init_PI. exact HF. }
  { unfold PX. cbn [p_cnt p_prop p_def]. split; [exact Hlen|]. split; [intros d []|].
    intros x _ _ Hc. right. rewrite Hnth in Hc. apply length_zero_iff_nil. exact Hc. }
  { intros i p Hi. lia. }
  destruct HPI as (_ & Hcnt & (pushed & Hprop & _ & Hpushed) & _ & _ & Hdin & Hdout).
  destruct HP as (_ & Hj & Hz).
  assert (Hun : forall x b, In x seeds -> ~ att F b x).
  { intros x b Hx Hb. apply Hseeds in Hx. destruct Hx as [_ Hx]. apply in_attackers in Hb.
    rewrite Hx in Hb. destruct Hb. }
  destruct (derivations_disjoint F n seeds Hun) as [Hdis _].
  assert (Hlt : forall x, In x (p_prop s') -> x < n).
  { intros x Hx. rewrite Hprop in Hx. apply in_app_or in Hx. destruct Hx as [Hx|Hx].
    - apply Hseeds in Hx. apply Hx.
    - apply (Hpushed x Hx). }
  assert (Hattackers : forall x, In x (p_prop s') -> forall b, att F b x -> In b (p_def s')).
  { intros x Hx b Hb. rewrite Hprop in Hx. apply in_app_or in Hx. destruct Hx as [Hx|Hx].
    - exfalso. exact (Hun x b Hx Hb).
    - destruct (Hpushed x Hx) as (K1 & K2 & K3). apply (live_zero F (p_def s') x b); [|exact Hb].
      pose proof (Hcnt x K2 K1) as K. rewrite occ_nil in K. lia. }
  split.
  - split; [split; [|split]|].
    + intros x Hx. apply (args_lt F n HF). apply Hlt. exact Hx.
    + intros a b Ha Hb Hab. apply (Hdis b (Hdin b Hb)). apply Hdout. apply (Hall a Ha b Hab).
    + intros a Ha b Hb. destruct (Hj b (Hattackers a Ha b Hb)) as (p & Hp & Hpb). exists p. auto.
    + intros x Hx Hdef. apply (args_lt F n HF) in Hx.
      destruct (in_dec Nat.eq_dec x seeds) as [Hs|Hs]; [rewrite Hprop; apply in_or_app; left; exact Hs|].
      assert (Hlive : live F (p_def s') x = 0).
      { apply live_zero_conv. intros b Hb. destruct (Hdef b Hb) as (c & Hc & Hcb). apply (Hall c Hc b Hcb). }
      pose proof (Hcnt x Hx Hs) as K. rewrite occ_nil, Hlive in K.
      destruct (Hz x Hx Hs K) as [K'|K']; [exact K'|].
      exfalso. apply Hs. apply Hseeds. split; assumption.
  - intros d. split.
    + intros Hd. apply Hj. exact Hd.
    + intros (p & Hp & Hpd). apply (Hall p Hp d Hpd).
Qed.

End Exact.
