(* List lemmas used by Proofs/StoreProofs.v: set_nth, position, swap_remove, filter_some.
   Nothing here mentions the store itself. *)
From Crusta Require Import Model.Store.
From Coq Require Import Lia Permutation.

Section Base.
Context {A : Type}.

(* ---------------- set_nth ---------------- *)
Lemma length_set_nth (i : nat) (x : A) (l : list A) : length (set_nth i x l) = length l.
Proof.
  revert i; induction l as [|y r IH]; intros [|i]; cbn [set_nth length]; auto.
Qed.

Lemma nth_set_nth_eq (i : nat) (x d : A) (l : list A) :
  i < length l -> nth i (set_nth i x l) d = x.
Proof.
  revert i; induction l as [|y r IH]; intros [|i] H; cbn [set_nth length nth] in *;
    try lia; auto.
  apply IH; lia.
Qed.

Lemma nth_set_nth_neq (i j : nat) (x d : A) (l : list A) :
  i <> j -> nth j (set_nth i x l) d = nth j l d.
Proof.
  revert i j; induction l as [|y r IH]; intros [|i] [|j] H; cbn [set_nth nth];
    try reflexivity; try lia.
  apply IH; lia.
Qed.

(* writing the default value: no side condition on the index *)
Lemma nth_set_nth_default (i j : nat) (d : A) (l : list A) :
  nth j (set_nth i d l) d = if Nat.eqb j i then d else nth j l d.
Proof.
  revert i j; induction l as [|y r IH]; intros [|i] [|j]; cbn [set_nth nth Nat.eqb];
    try reflexivity.
  - destruct (Nat.eqb j i); reflexivity.
  - apply IH.
Qed.

Lemma nth_set_nth_cases (x a : nat) (v d : A) (l : list A) :
  (nth x (set_nth a v l) d = v /\ x = a /\ a < length l) \/
  nth x (set_nth a v l) d = nth x l d.
Proof.
  destruct (Nat.eq_dec x a) as [->|Hne].
  - destruct (Nat.lt_ge_cases a (length l)) as [Hlt|Hge].
    + left. rewrite nth_set_nth_eq by assumption. auto.
    + right. rewrite !nth_overflow by (rewrite ?length_set_nth; assumption). reflexivity.
  - right. apply nth_set_nth_neq. auto.
Qed.

Lemma set_nth_app1 (i : nat) (x : A) (l1 l2 : list A) :
  i < length l1 -> set_nth i x (l1 ++ l2) = set_nth i x l1 ++ l2.
Proof.
  revert i; induction l1 as [|y r IH]; intros [|i] H; cbn [set_nth length app] in *;
    try lia; auto.
  f_equal; apply IH; lia.
Qed.

Lemma set_nth_perm (i : nat) (x d : A) (l : list A) :
  i < length l -> Permutation (x :: l) (nth i l d :: set_nth i x l).
Proof.
  revert i; induction l as [|y r IH]; intros [|i] H; cbn [set_nth length nth] in *; try lia.
  - apply perm_swap.
  - eapply perm_trans; [apply perm_swap|].
    eapply perm_trans; [apply perm_skip, (IH i); lia|].
    apply perm_swap.
Qed.

(* ---------------- nth, misc ---------------- *)
Lemma nth_app_default (a : nat) (d : A) (l : list A) : nth a (l ++ [d]) d = nth a l d.
Proof.
  revert a; induction l as [|y r IH]; intros [|a]; cbn [app nth]; auto.
  destruct a; reflexivity.
Qed.

Lemma firstn_app_exact (n : nat) (l1 l2 : list A) :
  length l1 = n -> firstn n (l1 ++ l2) = l1.
Proof.
  revert n; induction l1 as [|y r IH]; intros n H; cbn [length] in H; subst n;
    cbn [firstn app]; [destruct l2; reflexivity|].
  f_equal; apply IH; reflexivity.
Qed.

Lemma NoDup_snoc (x : A) (l : list A) : NoDup l -> ~ In x l -> NoDup (l ++ [x]).
Proof.
  intros Hnd Hx. apply (Permutation_NoDup (Permutation_cons_append l x)).
  constructor; assumption.
Qed.

Lemma NoDup_map_filter {B} (g : A -> B) (q : A -> bool) (l : list A) :
  NoDup (map g l) -> NoDup (map g (filter q l)).
Proof.
  induction l as [|y r IH]; cbn [map filter]; intros H; [constructor|].
  inversion H as [|? ? Hy Hr]; subst.
  destruct (q y); cbn [map]; auto.
  constructor; auto.
  intros Hin. apply Hy. apply in_map_iff in Hin. destruct Hin as [z [Hz Hin]].
  apply in_map_iff. exists z. split; auto. apply filter_In in Hin. tauto.
Qed.

(* ---------------- position ---------------- *)
Lemma position_Some (p : A -> bool) (l : list A) (n : nat) (d : A) :
  position p l = Some n -> n < length l /\ p (nth n l d) = true.
Proof.
  revert n; induction l as [|y r IH]; cbn [position]; intros n H; [discriminate|].
  destruct (p y) eqn:E.
  - injection H as <-. cbn [length nth]. split; [lia|assumption].
  - destruct (position p r) as [m|] eqn:E2; cbn [option_map] in H; [|discriminate].
    injection H as <-. destruct (IH m eq_refl) as [H1 H2].
    cbn [length nth]. split; [lia|assumption].
Qed.

Lemma position_None (p : A -> bool) (l : list A) :
  position p l = None -> forall x, In x l -> p x = false.
Proof.
  induction l as [|y r IH]; cbn [position]; intros H x Hin; [destruct Hin|].
  destruct (p y) eqn:E; [discriminate|].
  destruct (position p r) as [m|] eqn:E2; cbn [option_map] in H; [discriminate|].
  destruct Hin as [<-|Hin]; auto.
Qed.

Lemma position_existsb (p : A -> bool) (l : list A) :
  existsb p l = match position p l with Some _ => true | None => false end.
Proof.
  induction l as [|y r IH]; cbn [position existsb]; [reflexivity|].
  destruct (p y); cbn [orb]; [reflexivity|].
  rewrite IH. destruct (position p r); reflexivity.
Qed.

(* ---------------- swap_remove ---------------- *)
Lemma swap_remove_perm (i : nat) (d : A) (l : list A) :
  i < length l -> Permutation l (nth i l d :: swap_remove i l).
Proof.
  intros Hi. unfold swap_remove.
  destruct (rev l) as [|last r] eqn:E.
  - apply (f_equal (@length A)) in E. rewrite rev_length in E. cbn [length] in E. lia.
  - assert (Hl : l = rev r ++ [last]).
    { rewrite <- (rev_involutive l), E. reflexivity. }
    clear E. remember (rev r) as l0 eqn:El0. clear El0 r. subst l.
    rewrite app_length in *. cbn [length] in *.
    replace (length l0 + 1 - 1) with (length l0) by lia.
    destruct (Nat.eqb_spec i (length l0)) as [->|Hne].
    + rewrite firstn_app_exact by reflexivity.
      rewrite app_nth2 by lia. rewrite Nat.sub_diag. cbn [nth].
      apply Permutation_sym, Permutation_cons_append.
    + assert (Hlt : i < length l0) by lia.
      rewrite set_nth_app1 by assumption.
      rewrite firstn_app_exact by apply length_set_nth.
      rewrite app_nth1 by assumption.
      eapply perm_trans; [apply Permutation_sym, Permutation_cons_append|].
      apply set_nth_perm; assumption.
Qed.

Lemma swap_remove_NoDup (i : nat) (l : list A) :
  i < length l -> NoDup l -> NoDup (swap_remove i l).
Proof.
  intros Hi Hnd. destruct l as [|d r]; [cbn [length] in Hi; lia|].
  pose proof (Permutation_NoDup (swap_remove_perm i d (d :: r) Hi) Hnd) as H.
  inversion H; assumption.
Qed.

Lemma swap_remove_In (i : nat) (d x : A) (l : list A) :
  i < length l -> NoDup l ->
  (In x (swap_remove i l) <-> In x l /\ x <> nth i l d).
Proof.
  intros Hi Hnd.
  pose proof (swap_remove_perm i d l Hi) as Hp.
  pose proof (Permutation_NoDup Hp Hnd) as Hnd'.
  inversion Hnd' as [|? ? Hnotin Hnd'']; subst.
  split.
  - intros Hin. split.
    + apply (Permutation_in _ (Permutation_sym Hp)). right; assumption.
    + intros ->. contradiction.
  - intros [Hin Hne].
    apply (Permutation_in _ Hp) in Hin. destruct Hin as [Heq|Hin]; [congruence|assumption].
Qed.

End Base.

Lemma existsb_eqb_In (j : nat) (idx : list nat) : existsb (Nat.eqb j) idx = true <-> In j idx.
Proof.
  rewrite existsb_exists. split.
  - intros [x [Hx He]]. apply Nat.eqb_eq in He. subst; assumption.
  - intros H. exists j. split; [assumption|apply Nat.eqb_refl].
Qed.

(* ---------------- filter_some ---------------- *)
Section FilterSome.
Context {A : Type}.
Implicit Types l : list (option A).

Lemma fs_app l1 l2 : filter_some (l1 ++ l2) = filter_some l1 ++ filter_some l2.
Proof.
  induction l1 as [|[x|] r IH]; cbn [app filter_some]; auto. rewrite IH; reflexivity.
Qed.

Lemma nth_Some_lt l k (p : A) : nth k l None = Some p -> k < length l.
Proof.
  intros H. destruct (Nat.lt_ge_cases k (length l)) as [Hlt|Hge]; [assumption|].
  rewrite nth_overflow in H by assumption. discriminate.
Qed.

Lemma In_fs_nth l (p : A) : In p (filter_some l) <-> exists k, nth k l None = Some p.
Proof.
  induction l as [|[x|] r IH]; cbn [filter_some In].
  - split; [intros []|intros [[|k] H]; discriminate].
  - split.
    + intros [->|Hin]; [exists 0; reflexivity|].
      apply IH in Hin. destruct Hin as [k Hk]. exists (S k). assumption.
    + intros [[|k] Hk]; cbn [nth] in Hk.
      * left; congruence.
      * right. apply IH. exists k; assumption.
  - rewrite IH. split.
    + intros [k Hk]. exists (S k). assumption.
    + intros [[|k] Hk]; cbn [nth] in Hk; [discriminate|]. exists k; assumption.
Qed.

(* l' is l with some live entries tombstoned, as decided by q on the entry's value *)
Lemma fs_pointwise (q : A -> bool) l l' :
  length l = length l' ->
  (forall j, nth j l' None =
             match nth j l None with
             | Some p => if q p then Some p else None
             | None => None
             end) ->
  filter_some l' = filter q (filter_some l).
Proof.
  revert l'; induction l as [|o r IH]; intros [|o' r'] Hlen H; cbn [length] in Hlen;
    try discriminate; [reflexivity|].
  pose proof (H 0) as H0. cbn [nth] in H0.
  assert (Hr : filter_some r' = filter q (filter_some r)).
  { apply IH; [lia|]. intros j. exact (H (S j)). }
  destruct o as [x|]; cbn [filter_some filter].
  - destruct (q x); subst o'; cbn [filter_some]; rewrite Hr; reflexivity.
  - subst o'. cbn [filter_some]. exact Hr.
Qed.

Lemma fs_set_nth_None_length k l (p : A) :
  nth k l None = Some p ->
  S (length (filter_some (set_nth k None l))) = length (filter_some l).
Proof.
  revert k; induction l as [|o r IH]; intros [|k] H; cbn [nth] in H; try discriminate.
  - subst o. cbn [set_nth filter_some length]. reflexivity.
  - cbn [set_nth]. destruct o as [x|]; cbn [filter_some length]; rewrite (IH k H); reflexivity.
Qed.

Lemma NoDup_fs_inj l i j (p : A) :
  NoDup (filter_some l) -> nth i l None = Some p -> nth j l None = Some p -> i = j.
Proof.
  revert i j; induction l as [|o r IH]; intros i j Hnd Hi Hj.
  - destruct i; discriminate.
  - assert (Hr : NoDup (filter_some r)).
    { destruct o; cbn [filter_some] in Hnd; [inversion Hnd|]; assumption. }
    destruct i as [|i], j as [|j]; cbn [nth] in Hi, Hj.
    + reflexivity.
    + subst o. cbn [filter_some] in Hnd. inversion Hnd as [|? ? Hnotin _]; subst.
      exfalso. apply Hnotin. apply In_fs_nth. exists j; assumption.
    + subst o. cbn [filter_some] in Hnd. inversion Hnd as [|? ? Hnotin _]; subst.
      exfalso. apply Hnotin. apply In_fs_nth. exists i; assumption.
    + f_equal. apply IH; assumption.
Qed.

(* reading a NoDup index list through a table whose live entries are pairwise distinct *)
Lemma NoDup_fs_map_nth l (idx : list nat) :
  NoDup (filter_some l) -> NoDup idx ->
  NoDup (filter_some (map (fun i => nth i l None) idx)).
Proof.
  intros Hl Hidx. induction idx as [|i r IH]; cbn [map filter_some]; [constructor|].
  inversion Hidx as [|? ? Hi Hr]; subst.
  destruct (nth i l None) as [p|] eqn:E; [|auto].
  constructor; [|auto].
  intros Hin. apply In_fs_nth in Hin. destruct Hin as [k Hk].
  assert (Hk' : k < length (map (fun i0 => nth i0 l None) r)).
  { eapply nth_Some_lt; eassumption. }
  rewrite map_length in Hk'.
  rewrite (nth_indep _ None (nth 0 l None)) in Hk by (rewrite map_length; assumption).
  rewrite (map_nth (fun i0 => nth i0 l None) r 0 k) in Hk.
  assert (i = nth k r 0) by (eapply NoDup_fs_inj; eassumption).
  apply Hi. subst i. apply nth_In. assumption.
Qed.

Lemma In_fs_map_nth l (idx : list nat) (p : A) :
  In p (filter_some (map (fun i => nth i l None) idx)) <->
  exists i, In i idx /\ nth i l None = Some p.
Proof.
  induction idx as [|i r IH]; cbn [map filter_some In].
  - split; [intros []|intros [i [[] _]]].
  - destruct (nth i l None) as [x|] eqn:E; cbn [In]; rewrite IH; split.
    + intros [->|[k [Hk1 Hk2]]]; [exists i; auto|exists k; auto].
    + intros [k [[<-|Hk1] Hk2]]; [left; congruence|right; exists k; auto].
    + intros [k [Hk1 Hk2]]; exists k; auto.
    + intros [k [[<-|Hk1] Hk2]]; [congruence|exists k; auto].
Qed.

End FilterSome.
