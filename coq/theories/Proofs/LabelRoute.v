(* label route proofs: in progress *)
From Crusta Require Import Proofs.LabelRouteDefs.
