(* The label route of the solvers (Proofs/LabelRouteDefs.v) coincides with the id route of the
   model (Model/Graph.v: extract_cc, cc_local, cc_global; Model/Solvers.v: lift; SolverWhole.glue)
   on every store reachable by an update history.  See NOTES-agent-labels.md. *)
From Coq Require Import List Arith Bool Lia ZifyBool.
From Crusta Require Import Spec.AF Model.Store Model.Graph Model.Solvers.
From Crusta Require Import Proofs.StoreBase Proofs.StoreProofs Proofs.GroundedProofs Proofs.CompProofs.
From Crusta Require Import Sat.Cnf Sat.Prog Model.Encoders.
From Crusta Require Import Proofs.Decomp Proofs.EncSpec Proofs.SolverBasics Proofs.SolverWhole Proofs.TopBase Proofs.TopMax Proofs.SolverTop Proofs.TopGaps.
From Crusta Require Export Proofs.LabelRouteDefs.
Import ListNotations.

(* ------------------------------------------------------------------------------------------ *)
(** * 0. Lists of partial results *)

Lemma all_some_map_Some A (l : list A) : all_some (map Some l) = Some l.
Proof. induction l as [|x r IH]; cbn [map all_some]; [reflexivity|now rewrite IH]. Qed.

Lemma all_some_Some A (l : list (option A)) r : all_some l = Some r <-> l = map Some r.
Proof.
  revert r; induction l as [|[x|] t IH]; intros r; cbn [all_some].
  - split; [intros [= <-]; reflexivity|]. destruct r; [reflexivity|discriminate].
  - destruct (all_some t) as [t'|] eqn:E.
    + split.
      * intros [= <-]. cbn [map]. f_equal. now apply IH.
      * destruct r as [|y r']; cbn [map]; [discriminate|]. intros [= -> H].
        apply IH in H. congruence.
    + split; [discriminate|]. destruct r as [|y r']; cbn [map]; [discriminate|].
      intros [= -> H]. apply IH in H. discriminate.
  - split; [discriminate|]. destruct r; discriminate.
Qed.

Lemma all_some_ext A B (f g : A -> option B) (l : list A) :
  (forall x, In x l -> f x = g x) -> all_some (map f l) = all_some (map g l).
Proof. intros H. f_equal. now apply map_ext_in. Qed.

Lemma all_some_pointwise A B (f : A -> option B) (g : A -> B) (l : list A) :
  (forall x, In x l -> f x = Some (g x)) -> all_some (map f l) = Some (map g l).
Proof.
  intros H. rewrite (all_some_ext _ _ f (fun x => Some (g x)) l H).
  rewrite <- (map_map g Some). apply all_some_map_Some.
Qed.

Lemma all_some_app A (l1 l2 : list (option A)) :
  all_some (l1 ++ l2) =
  match all_some l1, all_some l2 with Some x, Some y => Some (x ++ y) | _, _ => None end.
Proof.
  induction l1 as [|[x|] r IH]; cbn [app all_some].
  - destruct (all_some l2); reflexivity.
  - rewrite IH. destruct (all_some r), (all_some l2); reflexivity.
  - reflexivity.
Qed.

Lemma position_app A (p : A -> bool) (l1 l2 : list A) :
  position p (l1 ++ l2) =
  match position p l1 with
  | Some i => Some i
  | None => option_map (Nat.add (length l1)) (position p l2)
  end.
Proof.
  induction l1 as [|x r IH]; cbn [app position length].
  - destruct (position p l2); reflexivity.
  - destruct (p x); [reflexivity|]. rewrite IH.
    destruct (position p r); cbn [option_map]; [reflexivity|].
    destruct (position p l2); reflexivity.
Qed.

Lemma NoDup_snd_inj A B (l : list (A * B)) a b x :
  NoDup (map snd l) -> In (a, x) l -> In (b, x) l -> a = b.
Proof.
  induction l as [|[c y] r IH]; cbn [map snd In]; intros Hnd Ha Hb; [destruct Ha|].
  inversion Hnd as [|? ? Hy Hr]; subst.
  assert (Hin : forall d, In (d, x) r -> In x (map snd r)).
  { intros d Hd. apply in_map_iff. exists (d, x). auto. }
  destruct Ha as [Ha|Ha], Hb as [Hb|Hb].
  - congruence.
  - injection Ha as -> ->. exfalso. eauto.
  - injection Hb as -> ->. exfalso. eauto.
  - now apply IH.
Qed.

Lemma index_of_None l a : index_of l a = None <-> ~ In a l.
Proof.
  split.
  - intros H Hin. destruct (index_of_In l a Hin) as [i Hi]. congruence.
  - intros H. destruct (index_of l a) as [i|] eqn:E; [|reflexivity].
    destruct (index_of_Some _ _ _ E) as [H1 H2]. exfalso. apply H. rewrite <- H2. now apply nth_In.
Qed.

(* ------------------------------------------------------------------------------------------ *)
Section LabelRoute.
Variable L : Type.
Variable leqb : L -> L -> bool.
Hypothesis leqb_spec : forall x y, leqb x y = true <-> x = y.

Notation fw := (fw L).
Notation Inv := (Inv L).
Notation arg_of := (arg_of L).
Notation label_of := (label_of L).
Notation labels_of := (labels_of L).
Notation get_argument_ref := (get_argument_ref L leqb).
Notation comp_store := (comp_store L leqb).
Notation to_local_lab := (to_local_lab L leqb).
Notation to_global_lab := (to_global_lab L leqb).
Notation locals_lab := (locals_lab L leqb).
Notation lift_lab := (lift_lab L leqb).
Notation with_labels := (with_labels L).
Notation glue_lab := (glue_lab L leqb).
Notation comp_stores := (comp_stores L leqb).
Notation init := (fw_new_with_labels L leqb).
Notation reachable := (GroundedProofs.reachable L leqb).

Lemma leqb_refl' l : leqb l l = true.
Proof. now apply leqb_spec. Qed.

(** * 1. The argument set of a store that satisfies the representation invariant *)

Lemma arg_of_id f a p : Inv f -> arg_of f a = Some p -> fst p = a.
Proof. intros Hinv H. exact (inv_id L f Hinv a p H). Qed.

Lemma arg_of_iter f a l : Inv f -> (arg_of f a = Some (a, l) <-> In (a, l) (iter_args L f)).
Proof. intros Hinv. symmetry. exact (live_slot L f a l Hinv). Qed.

Lemma live_arg f a : Inv f -> In a (live_ids L f) -> exists l, arg_of f a = Some (a, l).
Proof.
  intros Hinv Hin. apply (live_ids_spec L f a Hinv) in Hin. unfold LabelRouteDefs.arg_of.
  destruct (nth a (slots (ls f)) None) as [[i l]|] eqn:E; [|congruence].
  pose proof (inv_id L f Hinv a _ E) as Hi. cbn [fst] in Hi. subst i. now exists l.
Qed.

Lemma arg_live f a p : Inv f -> arg_of f a = Some p -> In a (live_ids L f).
Proof.
  intros Hinv H. apply (live_ids_spec L f a Hinv). unfold LabelRouteDefs.arg_of in H. congruence.
Qed.

(* two live arguments with the same label are the same argument *)
Lemma label_inj f a b l : Inv f -> arg_of f a = Some (a, l) -> arg_of f b = Some (b, l) -> a = b.
Proof.
  intros Hinv Ha Hb. apply (arg_of_iter f a l Hinv) in Ha. apply (arg_of_iter f b l Hinv) in Hb.
  exact (NoDup_snd_inj _ _ _ a b l (inv_lab L f Hinv) Ha Hb).
Qed.

(* looking a live label up gives back its own cell *)
Lemma find_label_live f a l : Inv f -> arg_of f a = Some (a, l) -> find_label L leqb (ls f) l = Some a.
Proof.
  intros Hinv Ha. destruct (find_label L leqb (ls f) l) as [b|] eqn:E.
  - pose proof (find_label_Some L leqb leqb_spec f l b Hinv E) as Hb.
    f_equal. exact (label_inj f b a l Hinv Hb Ha).
  - exfalso. unfold find_label in E. unfold LabelRouteDefs.arg_of in Ha.
    assert (Hlt : a < length (slots (ls f))) by (eapply nth_Some_lt; exact Ha).
    pose proof (position_None _ _ E _ (nth_In _ None Hlt)) as Hf.
    rewrite Ha in Hf. cbn [slot_has] in Hf. rewrite leqb_refl' in Hf. discriminate.
Qed.

Lemma get_argument_ref_live f a l : Inv f ->
  arg_of f a = Some (a, l) -> get_argument_ref f l = Some (a, l).
Proof.
  intros Hinv Ha. unfold LabelRouteDefs.get_argument_ref, get_argument.
  now rewrite (find_label_live f a l Hinv Ha).
Qed.

(* conversely a successful lookup returns a live argument carrying the label *)
Lemma get_argument_ref_Some f l p : Inv f ->
  get_argument_ref f l = Some p -> snd p = l /\ In p (iter_args L f).
Proof.
  intros Hinv H. unfold LabelRouteDefs.get_argument_ref, get_argument in H.
  destruct (find_label L leqb (ls f) l) as [b|] eqn:E; [|discriminate].
  pose proof (find_label_Some L leqb leqb_spec f l b Hinv E) as Hb.
  unfold LabelRouteDefs.arg_of in H. rewrite Hb in H. injection H as <-.
  split; [reflexivity|]. now apply (arg_of_iter f b l Hinv).
Qed.

(* the labels of a duplicate-free list of live ids *)
Definition good_ids (f : fw) (ids : list nat) : Prop :=
  NoDup ids /\ forall a, In a ids -> In a (live_ids L f).

Lemma labels_of_good f ids : Inv f -> good_ids f ids ->
  exists labels, labels_of f ids = Some labels /\
    Forall2 (fun a l => arg_of f a = Some (a, l)) ids labels /\ NoDup labels.
Proof.
  intros Hinv [Hnd Hlive]. unfold LabelRouteDefs.labels_of.
  induction ids as [|a r IH]; cbn [map all_some].
  - exists []. repeat split; constructor.
  - inversion Hnd as [|? ? Ha Hr]; subst.
    destruct (IH Hr (fun x Hx => Hlive x (or_intror Hx))) as [labels [H1 [H2 H3]]].
    destruct (live_arg f a Hinv (Hlive a (or_introl eq_refl))) as [l Hl].
    exists (l :: labels). unfold LabelRouteDefs.label_of at 1. rewrite Hl. cbn [option_map snd].
    rewrite H1. split; [reflexivity|]. split; [now constructor|].
    constructor; [|exact H3]. intros Hin. apply Ha.
    clear - Hin H2 Hl Hinv. induction H2 as [|b l' r labels Hb _ IH2]; [destruct Hin|].
    destruct Hin as [->|Hin]; [left; exact (label_inj f b a l Hinv Hb Hl)|right; now apply IH2].
Qed.

Lemma Forall2_nth_error A B (R : A -> B -> Prop) l1 l2 : Forall2 R l1 l2 ->
  forall i x, nth_error l1 i = Some x -> exists y, nth_error l2 i = Some y /\ R x y.
Proof.
  induction 1 as [|a b r1 r2 Hab _ IH]; intros [|i] x Hx; cbn [nth_error] in *; try discriminate.
  - injection Hx as <-. now exists b.
  - now apply IH.
Qed.

Lemma Forall2_length' A B (R : A -> B -> Prop) l1 l2 : Forall2 R l1 l2 -> length l1 = length l2.
Proof. induction 1; cbn [length]; congruence. Qed.

(** * 2. [new_with_labels] on pairwise distinct labels: no merging, ids 0..k-1 in order *)

Definition numbered (off : nat) (labels : list L) : list (nat * L) :=
  combine (seq off (length labels)) labels.

Lemma fold_new_label_slots labels : forall s, NoDup labels ->
  (forall l, In l labels -> find_label L leqb s l = None) ->
  fold_left (new_label L leqb) labels s =
  {| slots := slots s ++ map Some (numbered (length (slots s)) labels); n_removed := n_removed s |}.
Proof.
  induction labels as [|l r IH]; intros s Hnd Hfresh; cbn [fold_left].
  - unfold numbered. cbn [length seq combine map]. rewrite app_nil_r. destruct s; reflexivity.
  - inversion Hnd as [|? ? Hl Hr]; subst.
    unfold new_label at 2. rewrite (Hfresh l (or_introl eq_refl)).
    rewrite IH; [|exact Hr|].
    + cbn [slots n_removed]. unfold numbered. cbn [length seq combine map].
      rewrite app_length. cbn [length]. rewrite <- app_assoc. cbn [app].
      replace (length (slots s) + 1) with (S (length (slots s))) by lia. reflexivity.
    + intros l' Hl'. unfold find_label. cbn [slots]. rewrite position_app.
      pose proof (Hfresh l' (or_intror Hl')) as Hn. unfold find_label in Hn. rewrite Hn.
      cbn [position slot_has].
      destruct (leqb l' l) eqn:E; [|reflexivity].
      apply leqb_spec in E. subst l'. contradiction.
Qed.

Lemma nwl_slots labels : NoDup labels ->
  new_with_labels L leqb labels = {| slots := map Some (numbered 0 labels); n_removed := 0 |}.
Proof.
  intros Hnd. unfold new_with_labels. rewrite fold_new_label_slots; [reflexivity|exact Hnd|].
  intros l _. reflexivity.
Qed.

Lemma position_numbered l labels : forall off,
  position (slot_has L leqb l) (map Some (numbered off labels)) = position (leqb l) labels.
Proof.
  unfold numbered. induction labels as [|x r IH]; intros off; cbn [length seq combine map position slot_has];
    [reflexivity|].
  destruct (leqb l x); [reflexivity|]. now rewrite IH.
Qed.

Lemma nth_numbered labels : forall off i,
  nth i (map Some (numbered off labels)) None =
  match nth_error labels i with Some l => Some (off + i, l) | None => None end.
Proof.
  unfold numbered. induction labels as [|x r IH]; intros off [|i]; cbn [length seq combine map nth nth_error];
    try reflexivity.
  - f_equal. f_equal. lia.
  - rewrite IH. destruct (nth_error r i); [|reflexivity]. f_equal. f_equal. lia.
Qed.

Lemma fs_numbered labels off : filter_some (map Some (numbered off labels)) = numbered off labels.
Proof. apply fs_map_Some. Qed.

(* looking a label up in the list of the component's labels = looking the id up in the id list *)
Lemma position_labels f ids labels a l : Inv f ->
  Forall2 (fun a l => arg_of f a = Some (a, l)) ids labels ->
  arg_of f a = Some (a, l) -> position (leqb l) labels = index_of ids a.
Proof.
  intros Hinv H2 Ha. unfold index_of.
  induction H2 as [|b l' r rl Hb _ IH]; cbn [position]; [reflexivity|].
  destruct (leqb l l') eqn:E.
  - apply leqb_spec in E. subst l'. rewrite (label_inj f a b l Hinv Ha Hb), Nat.eqb_refl. reflexivity.
  - destruct (Nat.eqb_spec a b) as [->|Hne].
    + rewrite Ha in Hb. injection Hb as <-. rewrite leqb_refl' in E. discriminate.
    + now rewrite IH.
Qed.


(** * 3. The [arg_mapping] table of extract_connected_component is [index_of] *)

Lemma tbl_fold r : forall off tbl0, NoDup r -> (forall a, In a r -> a < length tbl0) ->
  exists tbl, fold_left tbl_set (combine (seq off (length r)) r) (Some tbl0) = Some tbl /\
    length tbl = length tbl0 /\
    forall a, nth a tbl None =
              match index_of r a with Some i => Some (off + i) | None => nth a tbl0 None end.
Proof.
  induction r as [|x r IH]; intros off tbl0 Hnd Hlt.
  - exists tbl0. cbn [length seq combine fold_left]. split; [reflexivity|]. split; [reflexivity|].
    intros a. reflexivity.
  - inversion Hnd as [|? ? Hx Hr]; subst.
    cbn [length seq combine fold_left]. unfold tbl_set at 2. cbn [fst snd].
    assert (Hxl : x < length tbl0) by (apply Hlt; now left).
    assert (E : Nat.ltb x (length tbl0) = true) by lia. rewrite E.
    destruct (IH (S off) (set_nth x (Some off) tbl0) Hr) as [tbl [H1 [H2 H3]]].
    { intros a Ha. rewrite length_set_nth. apply Hlt. now right. }
    exists tbl. split; [exact H1|]. split; [now rewrite H2, length_set_nth|].
    intros a. rewrite H3. unfold index_of. cbn [position].
    destruct (Nat.eqb_spec a x) as [->|Hne].
    + assert (Hn : position (Nat.eqb x) r = None) by (apply (index_of_None r x); exact Hx).
      rewrite Hn. rewrite nth_set_nth_eq by exact Hxl. f_equal. lia.
    + destruct (position (Nat.eqb a) r) as [i|]; cbn [option_map]; [f_equal; lia|].
      apply nth_set_nth_neq. congruence.
Qed.

Lemma live_lt f a : Inv f -> In a (live_ids L f) -> a < length (slots (ls f)).
Proof.
  intros Hinv Hin. destruct (live_arg f a Hinv Hin) as [l Hl]. eapply nth_Some_lt. exact Hl.
Qed.

Lemma max_id_slots f : max_argument_id L f <> None ->
  max_argument_id L f = Some (length (slots (ls f)) - 1) /\ 0 < length (slots (ls f)).
Proof.
  unfold max_argument_id, ls_max_id. destruct (slots (ls f)) as [|o r]; [congruence|].
  intros _. cbn [length]. split; [reflexivity|lia].
Qed.

Lemma live_has_max f a : Inv f -> In a (live_ids L f) -> max_argument_id L f <> None.
Proof.
  intros Hinv Hin. pose proof (live_lt f a Hinv Hin) as Hlt.
  unfold max_argument_id, ls_max_id. destruct (slots (ls f)); [cbn [length] in Hlt; lia|discriminate].
Qed.

Lemma arg_mapping_good f ids : Inv f -> good_ids f ids -> max_argument_id L f <> None ->
  exists tbl, arg_mapping L f ids = Some tbl /\
    forall a, a < length (slots (ls f)) -> nth_error tbl a = Some (index_of ids a).
Proof.
  intros Hinv [Hnd Hlive] Hmax. destruct (max_id_slots f Hmax) as [Hm Hpos].
  unfold arg_mapping. rewrite Hm.
  replace (S (length (slots (ls f)) - 1)) with (length (slots (ls f))) by lia.
  destruct (tbl_fold ids 0 (repeat None (length (slots (ls f)))) Hnd) as [tbl [H1 [H2 H3]]].
  { intros a Ha. rewrite repeat_length. apply (live_lt f a Hinv). now apply Hlive. }
  exists tbl. split; [exact H1|]. intros a Ha. rewrite repeat_length in H2.
  rewrite (nth_error_nth' tbl None) by lia. f_equal. rewrite H3.
  destruct (index_of ids a); [reflexivity|]. apply nth_repeat.
Qed.

(* the panic of F-cc-1: no slot at all *)
Lemma comp_store_no_slot f ids : max_argument_id L f = None -> comp_store f ids = None.
Proof. intros H. unfold LabelRouteDefs.comp_store, arg_mapping. now rewrite H. Qed.

(** * 4. The attack loop of extract_connected_component is [extract_atts] *)

Notation add_by_ids := (add_by_ids L).

Lemma nabi_ls (cf : fw) i j : ls (fst (new_attack_by_ids L cf i j)) = ls cf.
Proof. unfold new_attack_by_ids. destruct (Nat.leb _ i || Nat.leb _ j); reflexivity. Qed.

Lemma add_by_ids_ls (cf : fw) p : ls (add_by_ids cf p) = ls cf.
Proof. apply nabi_ls. Qed.

Lemma fold_add_ls l : forall cf : fw, ls (fold_left add_by_ids l cf) = ls cf.
Proof. induction l as [|p r IH]; intros cf; cbn [fold_left]; [reflexivity|]. now rewrite IH, add_by_ids_ls. Qed.

Lemma nabi_ok (cf : fw) i j : i < ls_len L (ls cf) -> j < ls_len L (ls cf) ->
  new_attack_by_ids L cf i j = (add_by_ids cf (i, j), ROk).
Proof.
  intros Hi Hj. unfold TopGaps.add_by_ids, new_attack_by_ids. cbn [fst snd].
  destruct (Nat.leb (ls_len L (ls cf)) i || Nat.leb (ls_len L (ls cf)) j) eqn:E; [lia|reflexivity].
Qed.

Lemma cs_step_ls tbl (cf cf' : fw) p : cs_step L tbl (Some cf) p = Some cf' -> ls cf' = ls cf.
Proof.
  unfold cs_step. destruct (nth_error tbl (fst p)) as [[i|]|]; try discriminate.
  - destruct (nth_error tbl (snd p)) as [[j|]|]; try discriminate.
    pose proof (nabi_ls cf i j) as Hls.
    destruct (new_attack_by_ids L cf i j) as [cf1 [| |]]; try discriminate.
    intros [= <-]. exact Hls.
  - now intros [= <-].
Qed.

Lemma cs_fold_None tbl all : fold_left (cs_step L tbl) all None = None.
Proof. induction all as [|p r IH]; cbn [fold_left cs_step]; [reflexivity|exact IH]. Qed.

Lemma cs_fold_ls tbl all : forall cf cf' : fw,
  fold_left (cs_step L tbl) all (Some cf) = Some cf' -> ls cf' = ls cf.
Proof.
  induction all as [|p r IH]; intros cf cf'; cbn [fold_left]; [now intros [= <-]|].
  destruct (cs_step L tbl (Some cf) p) as [cf1|] eqn:E.
  - intros H. rewrite (IH _ _ H). exact (cs_step_ls tbl cf cf1 p E).
  - rewrite cs_fold_None. discriminate.
Qed.

(* the relation between the two accumulators: same panic status; the store holds exactly the
   attacks of the list, inserted in this order *)
Definition acc_rel (cf0 : fw) (k : nat) (acc : option (list (nat * nat))) (accs : option fw) : Prop :=
  match acc with
  | None => accs = None
  | Some l => accs = Some (fold_left add_by_ids l cf0) /\ atts_ok k l
  end.

Lemma cs_step_rel tbl ids (cf0 : fw) acc accs p :
  ls_len L (ls cf0) = length ids ->
  nth_error tbl (fst p) = Some (index_of ids (fst p)) ->
  nth_error tbl (snd p) = Some (index_of ids (snd p)) ->
  acc_rel cf0 (length ids) acc accs ->
  acc_rel cf0 (length ids) (ea_step ids acc p) (cs_step L tbl accs p).
Proof.
  intros Hk Ha Hb Hrel. destruct acc as [l|]; cbn [acc_rel] in Hrel.
  - destruct Hrel as [-> Hok]. cbn [ea_step cs_step]. rewrite Ha.
    destruct (index_of ids (fst p)) as [i|] eqn:Ei; [|cbn [acc_rel]; auto].
    rewrite Hb. destruct (index_of ids (snd p)) as [j|] eqn:Ej; [|reflexivity].
    destruct (index_of_Some _ _ _ Ei) as [Hi _]. destruct (index_of_Some _ _ _ Ej) as [Hj _].
    rewrite nabi_ok by (rewrite fold_add_ls, Hk; assumption).
    cbn [acc_rel]. split.
    + rewrite fold_left_app. reflexivity.
    + intros a b Hin. apply in_app_or in Hin. destruct Hin as [Hin|[E|[]]]; [now apply Hok|].
      injection E as <- <-. split; assumption.
  - subst accs. reflexivity.
Qed.

Lemma cs_fold_rel tbl ids (cf0 : fw) : ls_len L (ls cf0) = length ids ->
  forall all acc accs,
  (forall p, In p all -> nth_error tbl (fst p) = Some (index_of ids (fst p)) /\
                         nth_error tbl (snd p) = Some (index_of ids (snd p))) ->
  acc_rel cf0 (length ids) acc accs ->
  acc_rel cf0 (length ids) (fold_left (ea_step ids) all acc) (fold_left (cs_step L tbl) all accs).
Proof.
  intros Hk. induction all as [|p r IH]; intros acc accs Htbl Hrel; cbn [fold_left]; [exact Hrel|].
  apply IH; [intros q Hq; apply Htbl; now right|].
  destruct (Htbl p (or_introl eq_refl)) as [Ha Hb]. now apply cs_step_rel.
Qed.

Lemma attack_ends_lt f a b : Inv f -> In (a, b) (iter_attacks L f) ->
  a < length (slots (ls f)) /\ b < length (slots (ls f)).
Proof.
  intros Hinv Hin. apply In_fs_nth in Hin. destruct Hin as [k Hk].
  destruct (inv_live L f Hinv k a b Hk) as [Ha [Hb _]].
  split.
  - destruct (nth a (slots (ls f)) None) eqn:E; [eapply nth_Some_lt; exact E|congruence].
  - destruct (nth b (slots (ls f)) None) eqn:E; [eapply nth_Some_lt; exact E|congruence].
Qed.

(** * 5. The component store *)

(* whatever the id list, a component store that was built carries the labels of the ids *)
Lemma comp_store_ls f ids cf : comp_store f ids = Some cf ->
  exists labels, labels_of f ids = Some labels /\ ls cf = new_with_labels L leqb labels.
Proof.
  unfold LabelRouteDefs.comp_store. destruct (arg_mapping L f ids) as [tbl|]; [|discriminate].
  destruct (LabelRouteDefs.labels_of L f ids) as [labels|]; [|discriminate].
  intros H. exists labels. split; [reflexivity|]. exact (cs_fold_ls _ _ _ _ H).
Qed.

(* (a) the component store against the component of the model *)
Theorem comp_store_extract f ids : Inv f -> good_ids f ids -> max_argument_id L f <> None ->
  match extract_cc (view_of_fw f) ids with
  | None => comp_store f ids = None
  | Some c =>
      exists cf labels, comp_store f ids = Some cf /\ labels_of f ids = Some labels /\
        Forall2 (fun a l => In (a, l) (iter_args L f)) ids labels /\
        iter_args L cf = combine (seq 0 (length ids)) labels /\
        n_arguments L cf = length ids /\
        iter_attacks L cf = atts (c_af c) /\
        view_same (view_of_af (c_af c)) (view_of_fw cf) /\
        CompProofs.af_of cf = c_af c
  end.
Proof.
  intros Hinv Hgood Hmax.
  destruct (arg_mapping_good f ids Hinv Hgood Hmax) as [tbl [Htbl Hnth]].
  destruct (labels_of_good f ids Hinv Hgood) as [labels [Hlab [HF2 Hndl]]].
  pose proof (Forall2_length' _ _ _ _ _ HF2) as Hlen.
  set (cf0 := init labels).
  assert (Hk : ls_len L (ls cf0) = length ids).
  { rewrite Hlen. exact (init_n_arguments L leqb leqb_spec labels Hndl). }
  pose proof (cs_fold_rel tbl ids cf0 Hk (iter_attacks L f) (Some []) (Some cf0)) as Hrel.
  assert (Hrel' : acc_rel cf0 (length ids) (fold_left (ea_step ids) (iter_attacks L f) (Some []))
                    (fold_left (cs_step L tbl) (iter_attacks L f) (Some cf0))).
  { apply Hrel.
    - intros [a b] Hin. cbn [fst snd]. destruct (attack_ends_lt f a b Hinv Hin) as [Ha Hb].
      split; apply Hnth; assumption.
    - cbn [acc_rel fold_left]. split; [reflexivity|]. intros a b []. }
  clear Hrel.
  unfold extract_cc. cbn [view_of_fw g_atts]. rewrite extract_atts_fold.
  unfold LabelRouteDefs.comp_store. rewrite Htbl, Hlab. fold cf0.
  destruct (fold_left (ea_step ids) (iter_attacks L f) (Some [])) as [l|]; cbn [acc_rel] in Hrel'.
  - destruct Hrel' as [Hcf Hok]. rewrite Hcf.
    set (cf := fold_left add_by_ids l cf0).
    destruct (iccma_store_general L leqb leqb_spec labels l) as (_ & Hsame & Haf & _).
    rewrite (init_n_arguments L leqb leqb_spec labels Hndl) in Hsame, Haf.
    rewrite <- Hlen in Hsame, Haf. rewrite (line_okb_all _ _ Hok) in Hsame, Haf.
    change (build_iccma L leqb labels l) with cf in Hsame, Haf.
    assert (Hls : ls cf = {| slots := map Some (numbered 0 labels); n_removed := 0 |}).
    { unfold cf. rewrite fold_add_ls. unfold cf0, fw_new_with_labels, fw_new. cbn [ls].
      exact (nwl_slots labels Hndl). }
    exists cf, labels. cbn [c_af atts].
    split; [reflexivity|]. split; [reflexivity|]. split.
    { eapply Forall2_impl; [|exact HF2]. cbn beta. intros a l0 H. now apply (arg_of_iter f a l0 Hinv). }
    split.
    { unfold iter_args, ls_iter. rewrite Hls. cbn [slots]. rewrite fs_numbered.
      unfold numbered. now rewrite Hlen. }
    split.
    { unfold n_arguments. rewrite Hls. unfold ls_len. cbn [slots n_removed].
      rewrite map_length. unfold numbered. rewrite combine_length, seq_length. lia. }
    split.
    { apply (f_equal atts) in Haf. exact Haf. }
    split; [exact Hsame|exact Haf].
  - exact Hrel'.
Qed.

(* (b) global -> local through the label = position in the id list *)
Theorem to_local_lab_index f ids cf : Inv f -> good_ids f ids -> comp_store f ids = Some cf ->
  forall a, to_local_lab f cf a = index_of ids a.
Proof.
  intros Hinv Hgood Hcs a.
  destruct (comp_store_ls f ids cf Hcs) as [labels [Hlab Hls]].
  destruct (labels_of_good f ids Hinv Hgood) as [labels' [Hlab' [HF2 Hndl]]].
  assert (labels' = labels) by congruence. subst labels'.
  unfold LabelRouteDefs.to_local_lab, LabelRouteDefs.label_of.
  destruct (arg_of f a) as [[a' l]|] eqn:Ea; cbn [option_map snd].
  - pose proof (arg_of_id f a _ Hinv Ea) as Hi. cbn [fst] in Hi. subst a'.
    unfold get_argument, find_label. rewrite Hls, (nwl_slots labels Hndl). cbn [slots].
    rewrite position_numbered. exact (position_labels f ids labels a l Hinv HF2 Ea).
  - symmetry. apply index_of_None. intros Hin.
    destruct (live_arg f a Hinv (proj2 Hgood a Hin)) as [l Hl]. congruence.
Qed.

(* (c) local -> global through the label = the cell of f at the position's id *)
Theorem to_global_lab_nth f ids cf : Inv f -> good_ids f ids -> comp_store f ids = Some cf ->
  forall i,
  (i < length ids ->
     to_global_lab f cf i = arg_of f (nth i ids 0) /\
     exists l, arg_of f (nth i ids 0) = Some (nth i ids 0, l)) /\
  (length ids <= i -> to_global_lab f cf i = None).
Proof.
  intros Hinv Hgood Hcs i.
  destruct (comp_store_ls f ids cf Hcs) as [labels [Hlab Hls]].
  destruct (labels_of_good f ids Hinv Hgood) as [labels' [Hlab' [HF2 Hndl]]].
  assert (labels' = labels) by congruence. subst labels'.
  pose proof (Forall2_length' _ _ _ _ _ HF2) as Hlen.
  assert (Hlo : label_of cf i = nth_error labels i).
  { unfold LabelRouteDefs.label_of, LabelRouteDefs.arg_of. rewrite Hls, (nwl_slots labels Hndl).
    cbn [slots]. rewrite nth_numbered. destruct (nth_error labels i); reflexivity. }
  unfold LabelRouteDefs.to_global_lab. rewrite Hlo. split.
  - intros Hi.
    assert (Hn : nth_error ids i = Some (nth i ids 0)) by (apply nth_error_nth'; exact Hi).
    destruct (Forall2_nth_error _ _ _ _ _ HF2 i _ Hn) as [l [Hl Ha]].
    rewrite Hl, Ha. split; [exact (get_argument_ref_live f _ l Hinv Ha)|]. now exists l.
  - intros Hi. assert (Hn : nth_error labels i = None) by (apply nth_error_None; lia).
    now rewrite Hn.
Qed.


(** * 6. Lists of arguments and whole answers *)

Lemma locals_all_some c al : locals c al = all_some (map (cc_local c) al).
Proof.
  unfold locals. induction al as [|a r IH]; cbn [fold_right map all_some]; [reflexivity|].
  rewrite IH. destruct (cc_local c a), (all_some (map (cc_local c) r)); reflexivity.
Qed.

Lemma all_some_None_in A (l : list (option A)) : In None l -> all_some l = None.
Proof.
  induction l as [|[x|] r IH]; cbn [all_some In]; [intros []| |reflexivity].
  intros [H|H]; [discriminate|]. now rewrite IH.
Qed.

(* the arguments of f with given live ids: defined, in order, with their own id and label *)
Lemma with_labels_live f l : Inv f -> (forall a, In a l -> In a (live_ids L f)) ->
  exists pairs, with_labels f l = Some pairs /\ map fst pairs = l /\ incl pairs (iter_args L f).
Proof.
  intros Hinv. unfold LabelRouteDefs.with_labels. induction l as [|a r IH]; intros Hl.
  - exists []. cbn [map all_some]. repeat split. intros x [].
  - destruct (IH (fun x Hx => Hl x (or_intror Hx))) as [pairs [H1 [H2 H3]]].
    destruct (live_arg f a Hinv (Hl a (or_introl eq_refl))) as [lb Hlb].
    exists ((a, lb) :: pairs). cbn [map all_some]. rewrite Hlb, H1. cbn [fst].
    split; [reflexivity|]. split; [now rewrite H2|].
    intros x [<-|Hx]; [now apply (arg_of_iter f a lb Hinv)|now apply H3].
Qed.

(* a duplicate-free list of live ids denotes a list of arguments of f without repetition, neither
   of ids nor of labels *)
Lemma with_labels_answer f l : Inv f -> NoDup l -> (forall a, In a l -> In a (live_ids L f)) ->
  exists pairs, with_labels f l = Some pairs /\ map fst pairs = l /\ incl pairs (iter_args L f) /\
                NoDup pairs /\ NoDup (map snd pairs).
Proof.
  intros Hinv Hnd Hl. destruct (with_labels_live f l Hinv Hl) as [pairs [H1 [H2 H3]]].
  exists pairs. split; [exact H1|]. split; [exact H2|]. split; [exact H3|].
  assert (Hp : NoDup pairs) by (apply (NoDup_map_inv fst); now rewrite H2).
  split; [exact Hp|].
  clear H1 H2 Hl Hnd l. induction pairs as [|[a lb] r IH]; cbn [map snd]; [constructor|].
  inversion Hp as [|? ? Hx Hr]; subst.
  constructor; [|apply IH; [intros x Hxr; apply H3; now right|exact Hr]].
  intros Hin. apply in_map_iff in Hin. destruct Hin as [[b lb'] [E Hb]]. cbn [snd] in E. subst lb'.
  assert (Ha : In (a, lb) (iter_args L f)) by (apply H3; now left).
  assert (Hb' : In (b, lb) (iter_args L f)) by (apply H3; now right).
  apply (arg_of_iter f a lb Hinv) in Ha. apply (arg_of_iter f b lb Hinv) in Hb'.
  rewrite (label_inj f a b lb Hinv Ha Hb') in Hx. contradiction.
Qed.

Section OneComponent.
Variable f : fw.
Variable c : comp.
Variable cf : fw.
Hypothesis Hinv : Inv f.
Hypothesis Hgood : good_ids f (c_ids c).
Hypothesis Hcs : comp_store f (c_ids c) = Some cf.

Lemma to_local_lab_cc a : to_local_lab f cf a = cc_local c a.
Proof. exact (to_local_lab_index f (c_ids c) cf Hinv Hgood Hcs a). Qed.

Lemma locals_lab_eq al : locals_lab f cf al = locals c al.
Proof.
  rewrite locals_all_some. unfold LabelRouteDefs.locals_lab. apply all_some_ext.
  intros a _. apply to_local_lab_cc.
Qed.

Lemma to_global_lab_cc i : i < length (c_ids c) ->
  to_global_lab f cf i = arg_of f (cc_global c i) /\
  exists l, to_global_lab f cf i = Some (cc_global c i, l) /\ In (cc_global c i, l) (iter_args L f).
Proof.
  intros Hi. destruct (to_global_lab_nth f (c_ids c) cf Hinv Hgood Hcs i) as [H _].
  destruct (H Hi) as [H1 [l H2]]. unfold cc_global. split; [exact H1|].
  exists l. split; [now rewrite H1|]. now apply (arg_of_iter f _ l Hinv).
Qed.

Lemma to_global_lab_out i : length (c_ids c) <= i -> to_global_lab f cf i = None.
Proof. intros Hi. now apply (to_global_lab_nth f (c_ids c) cf Hinv Hgood Hcs i). Qed.

Lemma lift_lab_eq la : (forall i, In i la -> i < length (c_ids c)) ->
  lift_lab f cf la = with_labels f (lift c la).
Proof.
  intros Hla. unfold LabelRouteDefs.lift_lab, LabelRouteDefs.with_labels, lift. rewrite map_map.
  apply all_some_ext. intros i Hi. now apply to_global_lab_cc, Hla.
Qed.

Lemma lift_lab_panic la i : In i la -> length (c_ids c) <= i -> lift_lab f cf la = None.
Proof.
  intros Hi Hle. unfold LabelRouteDefs.lift_lab. apply all_some_None_in.
  rewrite <- (to_global_lab_out i Hle). now apply in_map.
Qed.

Lemma lift_live la : (forall i, In i la -> i < length (c_ids c)) ->
  forall a, In a (lift c la) -> In a (live_ids L f).
Proof.
  intros Hla a Ha. apply (proj2 Hgood). apply (lift_incl c la); [|exact Ha].
  intros i Hi. apply in_seq. specialize (Hla i Hi). lia.
Qed.

Lemma lift_lab_spec la : (forall i, In i la -> i < length (c_ids c)) ->
  exists pairs, lift_lab f cf la = Some pairs /\ with_labels f (lift c la) = Some pairs /\
    map fst pairs = lift c la /\ incl pairs (iter_args L f) /\
    (NoDup la -> NoDup pairs /\ NoDup (map snd pairs)).
Proof.
  intros Hla. rewrite (lift_lab_eq la Hla).
  destruct (with_labels_live f (lift c la) Hinv (lift_live la Hla)) as [pairs [H1 [H2 H3]]].
  exists pairs. split; [exact H1|]. split; [exact H1|]. split; [exact H2|]. split; [exact H3|].
  intros Hnd.
  assert (Hl : NoDup (lift c la)).
  { apply lift_NoDup; [exact (proj1 Hgood)|exact Hnd|].
    intros i Hi. apply in_seq. specialize (Hla i Hi). lia. }
  destruct (with_labels_answer f (lift c la) Hinv Hl (lift_live la Hla)) as [pairs' [G1 [_ [_ [G4 G5]]]]].
  assert (pairs' = pairs) by congruence. subst pairs'. split; assumption.
Qed.
End OneComponent.

(* several components: one component store and one local list per component *)
Lemma comp_stores_cons f c r cfs : comp_stores f (c :: r) = Some cfs ->
  exists cf cfs', cfs = cf :: cfs' /\ comp_store f (c_ids c) = Some cf /\ comp_stores f r = Some cfs'.
Proof.
  unfold LabelRouteDefs.comp_stores. cbn [map all_some].
  destruct (comp_store f (c_ids c)) as [cf|]; [|discriminate].
  destruct (all_some (map (fun c0 => comp_store f (c_ids c0)) r)) as [cfs'|]; [|discriminate].
  intros [= <-]. now exists cf, cfs'.
Qed.

Definition in_range (c : comp) (La : list nat) : Prop := forall i, In i La -> i < length (c_ids c).

Theorem glue_lab_eq f : Inv f -> forall ccs Ls, Forall2 in_range ccs Ls ->
  forall cfs, (forall c, In c ccs -> good_ids f (c_ids c)) -> comp_stores f ccs = Some cfs ->
  glue_lab f cfs Ls = with_labels f (glue ccs Ls).
Proof.
  intros Hinv ccs Ls H2. induction H2 as [|c La ccs Ls Hr _ IH]; intros cfs Hgood Hcs.
  - destruct cfs; reflexivity.
  - destruct (comp_stores_cons f c ccs cfs Hcs) as [cf [cfs' [-> [Hc Hrest]]]].
    cbn [LabelRouteDefs.glue_lab glue].
    rewrite (lift_lab_eq f c cf Hinv (Hgood c (or_introl eq_refl)) Hc La Hr).
    rewrite (IH cfs' (fun c0 H0 => Hgood c0 (or_intror H0)) Hrest).
    unfold LabelRouteDefs.with_labels. rewrite map_app, all_some_app. reflexivity.
Qed.

Lemma glue_live f ccs Ls : Forall2 in_range ccs Ls -> (forall c, In c ccs -> good_ids f (c_ids c)) ->
  forall a, In a (glue ccs Ls) -> In a (live_ids L f).
Proof.
  intros H2. induction H2 as [|c La ccs Ls Hr _ IH]; intros Hgood a; cbn [glue]; [intros []|].
  intros Hin. apply in_app_or in Hin. destruct Hin as [Hin|Hin].
  - apply (proj2 (Hgood c (or_introl eq_refl))). apply (lift_incl c La); [|exact Hin].
    intros i Hi. apply in_seq. specialize (Hr i Hi). lia.
  - apply IH; [intros c0 H0; apply Hgood; now right|exact Hin].
Qed.

Theorem glue_lab_spec f : Inv f -> forall ccs Ls, Forall2 in_range ccs Ls ->
  forall cfs, (forall c, In c ccs -> good_ids f (c_ids c)) -> comp_stores f ccs = Some cfs ->
  exists pairs, glue_lab f cfs Ls = Some pairs /\ with_labels f (glue ccs Ls) = Some pairs /\
    map fst pairs = glue ccs Ls /\ incl pairs (iter_args L f) /\
    (NoDup (glue ccs Ls) -> NoDup pairs /\ NoDup (map snd pairs)).
Proof.
  intros Hinv ccs Ls H2 cfs Hgood Hcs. rewrite (glue_lab_eq f Hinv ccs Ls H2 cfs Hgood Hcs).
  pose proof (glue_live f ccs Ls H2 Hgood) as Hlive.
  destruct (with_labels_live f _ Hinv Hlive) as [pairs [H1 [H3 H4]]].
  exists pairs. split; [exact H1|]. split; [exact H1|]. split; [exact H3|]. split; [exact H4|].
  intros Hnd. destruct (with_labels_answer f _ Hinv Hnd Hlive) as [pairs' [G1 [_ [_ [G4 G5]]]]].
  assert (pairs' = pairs) by congruence. subst pairs'. split; assumption.
Qed.

(* the component stores exist for the components the model extracts *)
Definition model_comp (f : fw) (c : comp) : Prop :=
  good_ids f (c_ids c) /\ extract_cc (view_of_fw f) (c_ids c) = Some c.

Theorem comp_stores_exist f : Inv f -> max_argument_id L f <> None ->
  forall ccs, (forall c, In c ccs -> model_comp f c) ->
  exists cfs, comp_stores f ccs = Some cfs /\
    Forall2 (fun c cf => comp_store f (c_ids c) = Some cf /\
                         view_same (view_of_af (c_af c)) (view_of_fw cf) /\
                         CompProofs.af_of cf = c_af c) ccs cfs.
Proof.
  intros Hinv Hmax. unfold LabelRouteDefs.comp_stores.
  induction ccs as [|c r IH]; intros Hall.
  - exists []. split; [reflexivity|constructor].
  - destruct (IH (fun c0 H0 => Hall c0 (or_intror H0))) as [cfs [H1 H2]].
    destruct (Hall c (or_introl eq_refl)) as [Hg He].
    pose proof (comp_store_extract f (c_ids c) Hinv Hg Hmax) as Hx. rewrite He in Hx.
    destruct Hx as [cf [labels [G1 [_ [_ [_ [_ [_ [G7 G8]]]]]]]]].
    exists (cf :: cfs). cbn [map all_some]. rewrite G1, H1. split; [reflexivity|].
    constructor; [|exact H2]. split; [exact G1|]. split; [exact G7|exact G8].
Qed.

End LabelRoute.

(* ------------------------------------------------------------------------------------------ *)
(** * 7. The components the model computes are extracted from their own id list *)

Lemma extract_cc_self g ids c : extract_cc g ids = Some c -> extract_cc g (c_ids c) = Some c.
Proof. intros H. now rewrite (extract_cc_ids g ids c H). Qed.

Lemma all_ccs_fuel_extract : forall fuel g s ccs, all_ccs_fuel fuel g s = Some ccs ->
  forall c, In c ccs -> extract_cc g (c_ids c) = Some c.
Proof.
  induction fuel as [|fuel IH]; intros g s ccs H c Hc; cbn [all_ccs_fuel] in H.
  - injection H as <-. destruct Hc.
  - destruct (next_cc g s) as [[s' [c0|]]|] eqn:E; try discriminate.
    + destruct (all_ccs_fuel fuel g s') as [l|] eqn:E2; [|discriminate]. injection H as <-.
      destruct Hc as [<-|Hc]; [|exact (IH g s' l E2 c Hc)].
      unfold next_cc in E. destruct (g_ids g); [discriminate|].
      destruct (Nat.eqb (next_arg s) (length (in_cc s))); [discriminate|].
      destruct (find_cc g s (next_arg s)) as [s1 ids]. injection E as _ E.
      exact (extract_cc_self g ids c0 E).
    + injection H as <-. destruct Hc.
Qed.

Lemma merged_cc_extract g s al s' c : merged_cc_of g s al = Some (s', c) ->
  extract_cc g (c_ids c) = Some c.
Proof.
  unfold merged_cc_of. destruct (existsb _ al); [discriminate|].
  destruct (fold_left _ al (s, [])) as [s1 ids].
  destruct (extract_cc g ids) as [c0|] eqn:E; [|discriminate].
  intros [= _ <-]. exact (extract_cc_self g ids c0 E).
Qed.

Section ModelComponents.
Variable L : Type.
Variable leqb : L -> L -> bool.
Hypothesis leqb_spec : forall x y, leqb x y = true <-> x = y.
Notation reachable := (GroundedProofs.reachable L leqb).

Lemma decomp_good_ids (f : fw L) ccs c :
  decomp_ok (CompProofs.af_of f) ccs -> In c ccs -> good_ids L f (c_ids c).
Proof.
  intros Hok Hc. split.
  - apply (NoDup_concat_elt (map c_ids ccs)); [exact (d_nodup _ _ Hok)|now apply in_map].
  - intros a Ha. apply (d_cover _ _ Hok a). apply in_concat. exists (c_ids c).
    split; [now apply in_map|exact Ha].
Qed.

(* two live arguments of a reachable store never carry the same label *)
Theorem reachable_labels_distinct (f : fw L) : reachable f ->
  NoDup (map snd (iter_args L f)) /\
  forall a b l, In (a, l) (iter_args L f) -> In (b, l) (iter_args L f) -> a = b.
Proof.
  intros Hr. pose proof (reach_inv L leqb leqb_spec f Hr) as Hinv. split.
  - exact (inv_lab L f Hinv).
  - intros a b l Ha Hb. exact (NoDup_snd_inj _ _ _ a b l (inv_lab L f Hinv) Ha Hb).
Qed.

Theorem all_comps_model (f : fw L) : reachable f ->
  forall c, In c (all_comps (view_of_fw f)) -> model_comp L f c /\ max_argument_id L f <> None.
Proof.
  intros Hr c Hc. pose proof (reach_inv L leqb leqb_spec f Hr) as Hinv.
  pose proof (view_good_store L leqb leqb_spec f Hr) as Hv.
  pose proof (all_comps_decomp _ _ Hv) as Hok.
  assert (Hg : good_ids L f (c_ids c)) by exact (decomp_good_ids f _ c Hok Hc).
  unfold all_comps in Hc. destruct (all_ccs (view_of_fw f)) as [ccs|] eqn:E; [|destruct Hc].
  split; [split; [exact Hg|]|].
  - unfold all_ccs, remaining_ccs in E. exact (all_ccs_fuel_extract _ _ _ _ E c Hc).
  - destruct (all_ccs_classes _ _ ccs (proj2 Hv) E c Hc) as [Hne _].
    destruct (c_ids c) as [|a r] eqn:Ec; [congruence|].
    apply (live_has_max L f a Hinv). apply (proj2 Hg). now left.
Qed.

Theorem merged_comps_model (f : fw L) al : reachable f -> max_argument_id L f <> None ->
  (forall a, In a al -> In a (live_ids L f)) ->
  forall c, In c (merged_comps (view_of_fw f) al) -> model_comp L f c.
Proof.
  intros Hr Hmax Hal c Hc.
  pose proof (view_good_store L leqb leqb_spec f Hr) as Hv.
  destruct (vg_merged _ _ al Hv Hal) as [s' [c0 [la [rest [H1 [_ [_ [_ [H2 H3]]]]]]]]].
  rewrite (merged_comps_eq _ al s' c0 rest H1 H2) in Hc.
  split; [exact (decomp_good_ids f _ c H3 Hc)|].
  destruct Hc as [<-|Hc]; [exact (merged_cc_extract _ _ _ _ _ H1)|].
  unfold remaining_ccs in H2. exact (all_ccs_fuel_extract _ _ _ _ H2 c Hc).
Qed.

End ModelComponents.

(* ------------------------------------------------------------------------------------------ *)
(** * 8. When the [unwrap] on the attacked side panics: exactly on a list that is not closed *)

Lemma index_of_Some_In l a i : index_of l a = Some i -> In a l.
Proof. intros H. destruct (index_of_Some _ _ _ H) as [H1 H2]. rewrite <- H2. now apply nth_In. Qed.

Lemma ea_fold_None ids all : fold_left (ea_step ids) all None = None.
Proof. induction all as [|p r IH]; cbn [fold_left ea_step]; [reflexivity|exact IH]. Qed.

Lemma extract_atts_None ids : forall all acc,
  fold_left (ea_step ids) all (Some acc) = None <->
  exists a b, In (a, b) all /\ In a ids /\ ~ In b ids.
Proof.
  induction all as [|[a b] r IH]; intros acc; cbn [fold_left ea_step fst snd].
  - split; [discriminate|intros [a [b [[] _]]]].
  - destruct (index_of ids a) as [i|] eqn:Ea.
    + destruct (index_of ids b) as [j|] eqn:Eb.
      * rewrite IH. split; intros [a' [b' [H1 [H2 H3]]]]; exists a', b'.
        -- split; [now right|tauto].
        -- destruct H1 as [E|H1]; [|tauto]. injection E as <- <-. exfalso. apply H3.
           exact (index_of_Some_In _ _ _ Eb).
      * rewrite ea_fold_None. split; [|reflexivity]. intros _. exists a, b.
        split; [now left|]. split; [exact (index_of_Some_In _ _ _ Ea)|now apply index_of_None].
    + rewrite IH. split; intros [a' [b' [H1 [H2 H3]]]]; exists a', b'.
      * split; [now right|tauto].
      * destruct H1 as [E|H1]; [|tauto]. injection E as <- <-. exfalso.
        now apply (index_of_None ids a).
Qed.

Lemma extract_cc_None g ids :
  extract_cc g ids = None <-> exists a b, In (a, b) (g_atts g) /\ In a ids /\ ~ In b ids.
Proof.
  unfold extract_cc. rewrite extract_atts_fold, <- (extract_atts_None ids (g_atts g) []).
  destruct (fold_left (ea_step ids) (g_atts g) (Some [])); split; congruence.
Qed.

(* ------------------------------------------------------------------------------------------ *)
(** * 9. The statements of Properties/C04labels.v (every store reachable by an update history) *)

Section Statements.
Variable L : Type.
Variable leqb : L -> L -> bool.
Hypothesis leqb_spec : forall x y, leqb x y = true <-> x = y.
Notation reachable := (GroundedProofs.reachable L leqb).

Theorem label_route_component : forall f : fw L, reachable f ->
  forall ids, NoDup ids -> (forall a, In a ids -> In a (live_ids L f)) ->
  max_argument_id L f <> None ->
  match extract_cc (view_of_fw f) ids with
  | None => comp_store L leqb f ids = None
  | Some c =>
      exists cf labels, comp_store L leqb f ids = Some cf /\ labels_of L f ids = Some labels /\
        Forall2 (fun a l => In (a, l) (iter_args L f)) ids labels /\
        iter_args L cf = combine (seq 0 (length ids)) labels /\
        n_arguments L cf = length ids /\
        iter_attacks L cf = atts (c_af c) /\
        view_same (view_of_af (c_af c)) (view_of_fw cf) /\
        CompProofs.af_of cf = c_af c
  end.
Proof.
  intros f Hr ids Hnd Hlive Hmax.
  exact (comp_store_extract L leqb leqb_spec f ids (reach_inv L leqb leqb_spec f Hr) (conj Hnd Hlive) Hmax).
Qed.

Theorem label_route_panic : forall f : fw L, reachable f ->
  forall ids, NoDup ids -> (forall a, In a ids -> In a (live_ids L f)) ->
  (max_argument_id L f = None -> comp_store L leqb f ids = None) /\
  (max_argument_id L f <> None ->
     (comp_store L leqb f ids = None <->
      exists a b, In (a, b) (iter_attacks L f) /\ In a ids /\ ~ In b ids)).
Proof.
  intros f Hr ids Hnd Hlive. split; [apply comp_store_no_slot|]. intros Hmax.
  pose proof (label_route_component f Hr ids Hnd Hlive Hmax) as H.
  pose proof (extract_cc_None (view_of_fw f) ids) as Hn. cbn [view_of_fw g_atts] in Hn.
  rewrite <- Hn. destruct (extract_cc (view_of_fw f) ids) as [c|].
  - destruct H as [cf [labels [H1 _]]]. rewrite H1. split; discriminate.
  - tauto.
Qed.

Theorem label_route_local : forall f : fw L, reachable f ->
  forall c cf, NoDup (c_ids c) -> (forall a, In a (c_ids c) -> In a (live_ids L f)) ->
  comp_store L leqb f (c_ids c) = Some cf ->
  (forall a, to_local_lab L leqb f cf a = cc_local c a) /\
  (forall a, to_local_lab L leqb f cf a = None <-> ~ In a (c_ids c)) /\
  (forall al, locals_lab L leqb f cf al = locals c al) /\
  (forall al, Encoders.filter_map (to_local_lab L leqb f cf) al = Encoders.filter_map (cc_local c) al).
Proof.
  intros f Hr c cf Hnd Hlive Hcs. pose proof (reach_inv L leqb leqb_spec f Hr) as Hinv.
  pose proof (to_local_lab_cc L leqb leqb_spec f c cf Hinv (conj Hnd Hlive) Hcs) as H.
  split; [exact H|]. split; [|split].
  - intros a. rewrite H. apply cc_local_None.
  - exact (locals_lab_eq L leqb leqb_spec f c cf Hinv (conj Hnd Hlive) Hcs).
  - intros al. induction al as [|a r IH]; cbn [Encoders.filter_map]; [reflexivity|].
    rewrite H, IH. reflexivity.
Qed.

(* the entry of every acceptance query: the caller names arguments by label,
     args.iter().map(|a| self.af.argument_set().get_argument(a).unwrap()) *)
Theorem label_route_entry : forall f : fw L, reachable f -> forall l,
  (forall a, In (a, l) (iter_args L f) -> get_argument_ref L leqb f l = Some (a, l)) /\
  match get_argument_ref L leqb f l with
  | Some p => snd p = l /\ In p (iter_args L f)
  | None => forall a, ~ In (a, l) (iter_args L f)
  end.
Proof.
  intros f Hr l. pose proof (reach_inv L leqb leqb_spec f Hr) as Hinv.
  assert (H : forall a, In (a, l) (iter_args L f) -> get_argument_ref L leqb f l = Some (a, l)).
  { intros a Ha. apply (get_argument_ref_live L leqb leqb_spec f a l Hinv).
    now apply (arg_of_iter L f a l Hinv). }
  split; [exact H|].
  destruct (get_argument_ref L leqb f l) as [p|] eqn:E.
  - exact (get_argument_ref_Some L leqb leqb_spec f l p Hinv E).
  - intros a Ha. specialize (H a Ha). congruence.
Qed.

Theorem label_route_global : forall f : fw L, reachable f ->
  forall c cf, NoDup (c_ids c) -> (forall a, In a (c_ids c) -> In a (live_ids L f)) ->
  comp_store L leqb f (c_ids c) = Some cf ->
  (forall i, i < length (c_ids c) ->
     exists l, to_global_lab L leqb f cf i = Some (cc_global c i, l) /\
               In (cc_global c i, l) (iter_args L f)) /\
  (forall i, length (c_ids c) <= i -> to_global_lab L leqb f cf i = None) /\
  (forall la, (forall i, In i la -> i < length (c_ids c)) ->
     exists pairs, lift_lab L leqb f cf la = Some pairs /\
       with_labels L f (lift c la) = Some pairs /\
       map fst pairs = lift c la /\ incl pairs (iter_args L f) /\
       (NoDup la -> NoDup pairs /\ NoDup (map snd pairs))).
Proof.
  intros f Hr c cf Hnd Hlive Hcs. pose proof (reach_inv L leqb leqb_spec f Hr) as Hinv.
  split; [|split].
  - intros i Hi. exact (proj2 (to_global_lab_cc L leqb leqb_spec f c cf Hinv (conj Hnd Hlive) Hcs i Hi)).
  - exact (to_global_lab_out L leqb leqb_spec f c cf Hinv (conj Hnd Hlive) Hcs).
  - exact (lift_lab_spec L leqb leqb_spec f c cf Hinv (conj Hnd Hlive) Hcs).
Qed.

Theorem label_route_answer : forall f : fw L, reachable f -> max_argument_id L f <> None ->
  forall ccs Ls,
  (forall c, In c ccs -> NoDup (c_ids c) /\ (forall a, In a (c_ids c) -> In a (live_ids L f)) /\
                         extract_cc (view_of_fw f) (c_ids c) = Some c) ->
  Forall2 (fun c La => forall i, In i La -> i < length (c_ids c)) ccs Ls ->
  exists cfs pairs,
    comp_stores L leqb f ccs = Some cfs /\
    Forall2 (fun c cf => view_same (view_of_af (c_af c)) (view_of_fw cf)) ccs cfs /\
    glue_lab L leqb f cfs Ls = Some pairs /\
    with_labels L f (glue ccs Ls) = Some pairs /\
    map fst pairs = glue ccs Ls /\ incl pairs (iter_args L f) /\
    (NoDup (glue ccs Ls) -> NoDup pairs /\ NoDup (map snd pairs)).
Proof.
  intros f Hr Hmax ccs Ls Hall H2. pose proof (reach_inv L leqb leqb_spec f Hr) as Hinv.
  assert (Hgood : forall c, In c ccs -> good_ids L f (c_ids c)).
  { intros c Hc. destruct (Hall c Hc) as [G1 [G2 _]]. now split. }
  destruct (comp_stores_exist L leqb leqb_spec f Hinv Hmax ccs) as [cfs [Hcfs HF]].
  { intros c Hc. split; [now apply Hgood|]. now apply Hall. }
  destruct (glue_lab_spec L leqb leqb_spec f Hinv ccs Ls H2 cfs Hgood Hcfs) as [pairs Hp].
  exists cfs, pairs. split; [exact Hcfs|]. split; [|exact Hp].
  eapply Forall2_impl; [|exact HF]. cbn beta. intros c cf H. tauto.
Qed.

Theorem label_route_model_components : forall f : fw L, reachable f ->
  (forall c, In c (all_comps (view_of_fw f)) ->
     max_argument_id L f <> None /\
     NoDup (c_ids c) /\ (forall a, In a (c_ids c) -> In a (live_ids L f)) /\
     extract_cc (view_of_fw f) (c_ids c) = Some c) /\
  (forall al, max_argument_id L f <> None -> (forall a, In a al -> In a (live_ids L f)) ->
     forall c, In c (merged_comps (view_of_fw f) al) ->
     NoDup (c_ids c) /\ (forall a, In a (c_ids c) -> In a (live_ids L f)) /\
     extract_cc (view_of_fw f) (c_ids c) = Some c).
Proof.
  intros f Hr. split.
  - intros c Hc. destruct (all_comps_model L leqb leqb_spec f Hr c Hc) as [[[G1 G2] G3] G4]. tauto.
  - intros al Hmax Hal c Hc.
    destruct (merged_comps_model L leqb leqb_spec f al Hr Hmax Hal c Hc) as [[G1 G2] G3]. tauto.
Qed.

(* the id-based answers of the model, read in the caller's argument set *)
Theorem answers_in_callers_arguments : forall f : fw L, reachable f ->
  forall oracle thr, valid_oracle oracle -> 1 <= thr ->
  forall s q e al fuel cert st0, supported s q -> enc_ok s e ->
  al_ok s q (GroundedProofs.af_of L f) al ->
  forall Lx,
  (exists st, run_query oracle thr fuel s q cert e (view_of_fw f) al st0 = Done (OExt (Some Lx)) st) \/
  (exists b st, run_query oracle thr fuel s q cert e (view_of_fw f) al st0 = Done (OAcc b (Some Lx)) st) ->
  exists pairs, with_labels L f Lx = Some pairs /\ map fst pairs = Lx /\
    incl pairs (iter_args L f) /\ NoDup pairs /\ NoDup (map snd pairs).
Proof.
  intros f Hr oracle thr Hv Ht s q e al fuel cert st0 Hs He Ha Lx Hrun.
  pose proof (reach_inv L leqb leqb_spec f Hr) as Hinv.
  pose proof (view_good_store L leqb leqb_spec f Hr) as Hvg.
  assert (H : NoDup Lx /\ incl Lx (live_ids L f)).
  { destruct q.
    - pose proof (top_single_extension oracle thr _ _ Hv Ht Hvg s e al fuel cert st0 Hs He) as H.
      destruct Hrun as [[st E]|[b [st E]]]; rewrite E in H; [|destruct H].
      destruct H as [_ [H1 H2]]. split; [exact H1|exact H2].
    - assert (Hq : QDC <> QSE) by discriminate.
      pose proof (top_certificates oracle thr _ _ Hv Ht Hvg s QDC e al fuel cert st0 Hq Hs He Ha) as H.
      destruct Hrun as [[st E]|[b [st E]]]; rewrite E in H; [destruct H|].
      destruct H as [_ [_ [_ [H1 [H2 _]]]]]. split; [exact H1|exact H2].
    - assert (Hq : QDS <> QSE) by discriminate.
      pose proof (top_certificates oracle thr _ _ Hv Ht Hvg s QDS e al fuel cert st0 Hq Hs He Ha) as H.
      destruct Hrun as [[st E]|[b [st E]]]; rewrite E in H; [destruct H|].
      destruct H as [_ [_ [_ [H1 [H2 _]]]]]. split; [exact H1|exact H2]. }
  destruct H as [H1 H2].
  exact (with_labels_answer L f Lx Hinv H1 H2).
Qed.

End Statements.

Print Assumptions comp_store_extract.
Print Assumptions to_local_lab_index.
Print Assumptions to_global_lab_nth.
Print Assumptions glue_lab_spec.
Print Assumptions comp_stores_exist.
Print Assumptions reachable_labels_distinct.
Print Assumptions all_comps_model.
Print Assumptions merged_comps_model.
Print Assumptions label_route_component.
Print Assumptions label_route_panic.
Print Assumptions label_route_local.
Print Assumptions label_route_entry.
Print Assumptions label_route_global.
Print Assumptions label_route_answer.
Print Assumptions label_route_model_components.
Print Assumptions answers_in_callers_arguments.
